/-
  Gamba.Proofs.C08c — helper lemmas for phases 4 (`binarise`) and 5 (`isolateTerminals`) of the
  Chomsky-normal-form conversion: fresh-variable runs, the generic "variable introduction"
  lemma (`gen_subst` / `gen_unsubst`), the one-step analysis of `binariseStep`, the fold over
  rule positions and the characterisation of `isolateLoop`.
-/
import Gamba.Model.CFG
import Gamba.Spec.CFG
import Gamba.Proofs.CFGBasic
namespace Gamba
namespace CFG
/- all helpers live in `Gamba.CFG.C08c` so that they cannot clash with the helpers of the other C08 files -/
namespace C08c

/-- the freshness property of `freshVariable` (proved in `Gamba/Props/C08a.lean`); taken as a hypothesis here -/
def FreshOK : Prop := ∀ (V : List String) (hint : String), CFG.freshVariable V hint ∉ V

/-! ### runs of fresh variables -/

theorem freshVariables_spec (hfresh : FreshOK) (hint : String) (n : Nat) : ∀ (V : List String),
    (freshVariables V hint n).1.Nodup ∧ (∀ A, A ∈ (freshVariables V hint n).1 → A ∉ V) ∧
    (∀ A, A ∈ (freshVariables V hint n).2 ↔ A ∈ V ∨ A ∈ (freshVariables V hint n).1) ∧
    (freshVariables V hint n).1.length = n := by
  induction n with
  | zero => intro V; simp [freshVariables]
  | succ n ih =>
    intro V
    obtain ⟨h1, h2, h3, h4⟩ := ih (V ++ [freshVariable V hint])
    simp only [freshVariables]
    refine ⟨?_, ?_, ?_, ?_⟩
    · refine List.nodup_cons.mpr ⟨?_, h1⟩
      intro hm
      exact h2 _ hm (by simp)
    · intro A hA
      rcases List.mem_cons.mp hA with rfl | hA
      · exact hfresh V hint
      · intro hV; exact h2 A hA (by simp [hV])
    · intro A
      rw [h3 A]
      simp only [List.mem_append, List.mem_cons, List.not_mem_nil, or_false]
      constructor
      · rintro ((h | h) | h)
        · exact Or.inl h
        · exact Or.inr (Or.inl h)
        · exact Or.inr (Or.inr h)
      · rintro (h | h | h)
        · exact Or.inl (Or.inl h)
        · exact Or.inl (Or.inr h)
        · exact Or.inr h
    · simp [h4]

/-! ### association lists -/

theorem lookup_of_mem {α β : Type} [BEq α] [LawfulBEq α] :
    ∀ {l : List (α × β)} {k : α} {v : β}, (l.map (·.1)).Nodup → (k, v) ∈ l → l.lookup k = some v
  | [], _, _, _, h => by cases h
  | (k', v') :: l, k, v, hn, h => by
    simp only [List.map_cons, List.nodup_cons] at hn
    rcases List.mem_cons.mp h with h' | h'
    · cases h'; simp [List.lookup]
    · have hne : k ≠ k' := by
        rintro rfl
        exact hn.1 (List.mem_map.mpr ⟨(k, v), h', rfl⟩)
      have : (k == k') = false := by simpa using hne
      simp only [List.lookup, this]
      exact lookup_of_mem hn.2 h'

theorem mem_of_lookup {α β : Type} [BEq α] [LawfulBEq α] :
    ∀ {l : List (α × β)} {k : α} {v : β}, l.lookup k = some v → (k, v) ∈ l
  | [], _, _, h => by simp [List.lookup] at h
  | (k', v') :: l, k, v, h => by
    simp only [List.lookup] at h
    split at h
    · rename_i heq
      have : k = k' := by simpa using heq
      cases h; subst this; simp
    · exact List.mem_cons_of_mem _ (mem_of_lookup h)

theorem lookup_none_iff {α β : Type} [BEq α] [LawfulBEq α] {l : List (α × β)} {k : α} :
    l.lookup k = none ↔ k ∉ l.map (·.1) := by
  induction l with
  | nil => simp [List.lookup]
  | cons p l ih =>
    obtain ⟨k', v'⟩ := p
    simp only [List.lookup, List.map_cons, List.mem_cons, not_or]
    by_cases h : k = k'
    · subst h; simp
    · have : (k == k') = false := by simpa using h
      simp [this, ih, h]

/-! ### the generic variable-introduction lemma -/

/-- expansion of one symbol: a variable `X` with `exp X = some e` stands for the form `e` -/
def sigma (exp : String → Option (List Sym)) : Sym → List Sym
  | .t a => [.t a]
  | .v X => (exp X).getD [.v X]

def subst (exp : String → Option (List Sym)) (f : List Sym) : List Sym := f.flatMap (sigma exp)

theorem subst_nil (exp) : subst exp [] = [] := rfl
theorem subst_cons (exp) (x : Sym) (f : List Sym) : subst exp (x :: f) = sigma exp x ++ subst exp f := by
  simp [subst]
theorem subst_append (exp) (f g : List Sym) : subst exp (f ++ g) = subst exp f ++ subst exp g := by
  simp [subst]

/-- a symbol is old when it is not an introduced variable -/
def OldSym (exp : String → Option (List Sym)) : Sym → Prop
  | .t _ => True
  | .v X => exp X = none

theorem sigma_old {exp} {x : Sym} (h : OldSym exp x) : sigma exp x = [x] := by
  cases x with
  | t a => rfl
  | v X => simp only [OldSym] at h; simp [sigma, h]

theorem subst_old {exp} {f : List Sym} (h : ∀ x, x ∈ f → OldSym exp x) : subst exp f = f := by
  induction f with
  | nil => rfl
  | cons x f ih =>
    rw [subst_cons, sigma_old (h x (by simp)), ih (fun y hy => h y (List.mem_cons_of_mem _ hy))]
    rfl

/-- soundness: a derivation of the new grammar maps to a derivation of the old grammar -/
theorem gen_subst {G G' : CFG} (exp : String → Option (List Sym))
    (h1 : ∀ A rhs, G'.HasRule A rhs → exp A = none → G.HasRule A (subst exp rhs))
    (h2 : ∀ A rhs e, G'.HasRule A rhs → exp A = some e → subst exp rhs = e)
    {f : List Sym} {w : List String} (h : G'.Gen f w) : G.Gen (subst exp f) w := by
  induction h with
  | nil => exact .nil
  | t _ ih => exact .t ih
  | @v A rhs ss u w hr _ _ ih1 ih2 =>
    rw [subst_cons]
    cases he : exp A with
    | none =>
      simp only [sigma, he, Option.getD_none, List.cons_append, List.nil_append]
      exact .v (h1 A rhs hr he) ih1 ih2
    | some e =>
      simp only [sigma, he, Option.getD_some]
      rw [← h2 A rhs e hr he]
      exact gen_append ih1 ih2

/-- completeness, generic part -/
theorem gen_of_rules {G G' : CFG}
    (h : ∀ A rhs, G.HasRule A rhs → ∀ w, G'.Gen rhs w → G'.Gen [.v A] w)
    {f : List Sym} {w : List String} (hg : G.Gen f w) : G'.Gen f w := by
  induction hg with
  | nil => exact .nil
  | t _ ih => exact .t ih
  | @v A rhs ss u w hr _ _ ih1 ih2 =>
    exact gen_append (f1 := [.v A]) (h A rhs hr u ih1) ih2

/-- if every introduced variable generates (in `G'`) what its expansion generates, forms can be folded back -/
theorem gen_unsubst {G' : CFG} (exp : String → Option (List Sym))
    (h : ∀ X e, exp X = some e → ∀ w, G'.Gen e w → G'.Gen [.v X] w) :
    ∀ {f : List Sym} {w : List String}, G'.Gen (subst exp f) w → G'.Gen f w := by
  intro f
  induction f with
  | nil => intro w hg; exact hg
  | cons x f ih =>
    intro w hg
    rw [subst_cons] at hg
    obtain ⟨w1, w2, rfl, g1, g2⟩ := gen_split hg
    have g1' : G'.Gen [x] w1 := by
      cases x with
      | t a => exact g1
      | v X =>
        cases he : exp X with
        | none => simpa [sigma, he] using g1
        | some e =>
          simp only [sigma, he, Option.getD_some] at g1
          exact h X e he w1 g1
    exact gen_append (f1 := [x]) g1' (ih g2)

/-- the language form of the lemma -/
theorem lang_of_intro {G G' : CFG} (exp : String → Option (List Sym))
    (hS : G'.S = G.S) (hSold : exp G.S = none)
    (h1 : ∀ A rhs, G'.HasRule A rhs → exp A = none → G.HasRule A (subst exp rhs))
    (h2 : ∀ A rhs e, G'.HasRule A rhs → exp A = some e → subst exp rhs = e)
    (h3 : ∀ A rhs, G.HasRule A rhs → ∃ rhs', G'.HasRule A rhs' ∧ subst exp rhs' = rhs)
    (h4 : ∀ X e, exp X = some e → ∀ w, G'.Gen e w → G'.Gen [.v X] w) :
    ∀ w, G'.Lang w ↔ G.Lang w := by
  intro w
  unfold Lang
  rw [hS]
  constructor
  · intro h
    have := gen_subst exp h1 h2 h
    rwa [subst_old (exp := exp)] at this
    intro x hx
    rcases List.mem_singleton.mp hx with rfl
    exact hSold
  · intro h
    refine gen_of_rules ?_ h
    intro A rhs hr w hg
    obtain ⟨rhs', hr', hs⟩ := h3 A rhs hr
    rw [← hs] at hg
    exact gen_v_iff.mpr ⟨rhs', hr', gen_unsubst exp h4 hg⟩

/-! ### validity as a proposition, `nextAid` -/

def SymIn (V Sg : List String) : Sym → Prop
  | .v A => A ∈ V
  | .t a => a ∈ Sg

theorem valid_iff {G : CFG} :
    G.valid = true ↔ ∀ r, r ∈ G.R → r.lhs ∈ G.V ∧ ∀ x, x ∈ r.rhs → SymIn G.V G.Sigma x := by
  simp only [valid, List.all_eq_true, Bool.and_eq_true, decide_eq_true_eq]
  constructor
  · intro h r hr
    refine ⟨(h r hr).1, ?_⟩
    intro x hx
    have := (h r hr).2 x hx
    cases x <;> simpa [SymIn] using this
  · intro h r hr
    refine ⟨(h r hr).1, ?_⟩
    intro x hx
    have := (h r hr).2 x hx
    cases x <;> simpa [SymIn] using this

theorem le_foldl_max (l : List Nat) : ∀ (init : Nat), init ≤ l.foldl max init ∧ ∀ x, x ∈ l → x ≤ l.foldl max init := by
  induction l with
  | nil => intro init; simp
  | cons y l ih =>
    intro init
    simp only [List.foldl_cons]
    obtain ⟨h1, h2⟩ := ih (max init y)
    refine ⟨by omega, ?_⟩
    intro x hx
    rcases List.mem_cons.mp hx with rfl | hx
    · omega
    · exact h2 x hx

theorem aid_lt_nextAid {G : CFG} {r : CRule} (hr : r ∈ G.R) : r.aid < G.nextAid := by
  have := (le_foldl_max (G.R.map (·.aid)) 0).2 r.aid (List.mem_map.mpr ⟨r, hr, rfl⟩)
  unfold nextAid; omega

theorem isUnit_of_length2 {r : CRule} (h : r.rhs.length = 2) : isUnit r = false := by
  unfold isUnit
  split
  · rename_i heq; rw [heq] at h; simp at h
  · rfl

/-! ### chain rules -/

theorem chainRules_mem : ∀ (s : Nat) (A : List String) (us : List Sym), A.length + 1 = us.length →
    ∀ r, r ∈ chainRules s A us →
      r.lhs ∈ A ∧ r.rhs.length = 2 ∧ (∀ x, x ∈ r.rhs → x ∈ us ∨ ∃ a, a ∈ A ∧ x = .v a) ∧ s ≤ r.aid := by
  intro s A
  induction A generalizing s with
  | nil => intro us _ r hr; simp [chainRules] at hr
  | cons a A ih =>
    intro us hl r hr
    cases A with
    | nil =>
      simp only [chainRules, List.mem_singleton] at hr
      subst hr
      simp only [List.length_cons, List.length_nil] at hl
      refine ⟨by simp, by simp; omega, ?_, Nat.le_refl _⟩
      intro x hx; exact Or.inl hx
    | cons a' A =>
      cases us with
      | nil => simp at hl
      | cons x u =>
        simp only [chainRules, List.mem_cons] at hr
        rcases hr with rfl | hr
        · refine ⟨by simp, by simp, ?_, Nat.le_refl _⟩
          intro y hy
          simp only [List.mem_cons, List.not_mem_nil, or_false] at hy
          rcases hy with rfl | rfl
          · left; simp
          · right; exact ⟨a', by simp, rfl⟩
        · have hl' : (a' :: A).length + 1 = u.length := by simp at hl ⊢; omega
          obtain ⟨h1, h2, h3, h4⟩ := ih (s + 1) u hl' r hr
          refine ⟨List.mem_cons_of_mem _ h1, h2, ?_, by omega⟩
          intro y hy
          rcases h3 y hy with h | ⟨b, hb, rfl⟩
          · left; exact List.mem_cons_of_mem _ h
          · right; exact ⟨b, List.mem_cons_of_mem _ hb, rfl⟩

theorem chainRules_aid_inj : ∀ (s : Nat) (A : List String) (us : List Sym), A.length + 1 = us.length →
    ∀ r r', r ∈ chainRules s A us → r' ∈ chainRules s A us → r.aid = r'.aid → r = r' := by
  intro s A
  induction A generalizing s with
  | nil => intro us _ r r' hr; simp [chainRules] at hr
  | cons a A ih =>
    intro us hl r r' hr hr' he
    cases A with
    | nil =>
      simp only [chainRules, List.mem_singleton] at hr hr'
      rw [hr, hr']
    | cons a' A =>
      cases us with
      | nil => simp at hl
      | cons x u =>
        have hl' : (a' :: A).length + 1 = u.length := by simp at hl ⊢; omega
        simp only [chainRules, List.mem_cons] at hr hr'
        rcases hr with rfl | hr <;> rcases hr' with rfl | hr'
        · rfl
        · have := (chainRules_mem (s + 1) _ u hl' _ hr').2.2.2
          simp only at he; omega
        · have := (chainRules_mem (s + 1) _ u hl' _ hr).2.2.2
          simp only at he; omega
        · exact ih (s + 1) u hl' r r' hr hr' he

/-- the expansion table of a chain: `A[k] ↦ u[k+1:]` -/
def chainTab : List String → List Sym → List (String × List Sym)
  | [], _ => []
  | a :: as, u => (a, u) :: chainTab as u.tail

def chainExp (A : List String) (u : List Sym) (X : String) : Option (List Sym) := (chainTab A u).lookup X

theorem chainTab_keys : ∀ (A : List String) (u : List Sym), (chainTab A u).map (·.1) = A
  | [], _ => rfl
  | a :: as, u => by simp [chainTab, chainTab_keys as u.tail]

theorem chainExp_none_iff {A : List String} {u : List Sym} {X : String} : chainExp A u X = none ↔ X ∉ A := by
  unfold chainExp
  rw [lookup_none_iff, chainTab_keys]

theorem chainExp_of_mem {A : List String} {u : List Sym} (hn : A.Nodup) {X : String} {e : List Sym}
    (h : (X, e) ∈ chainTab A u) : chainExp A u X = some e := by
  unfold chainExp
  exact lookup_of_mem (by rw [chainTab_keys]; exact hn) h

theorem chainRules_subst (exp : String → Option (List Sym)) (T : List (String × List Sym))
    (hT : ∀ X e, (X, e) ∈ T → exp X = some e) :
    ∀ (A : List String) (us : List Sym) (s : Nat), (∀ p, p ∈ chainTab A us → p ∈ T) →
      (∀ x, x ∈ us → OldSym exp x) →
      ∀ r, r ∈ chainRules s A us → ∃ e, (r.lhs, e) ∈ chainTab A us ∧ subst exp r.rhs = e := by
  intro A
  induction A with
  | nil => intro us s _ _ r hr; simp [chainRules] at hr
  | cons a A ih =>
    intro us s hsub hold r hr
    cases A with
    | nil =>
      simp only [chainRules, List.mem_singleton] at hr
      subst hr
      exact ⟨us, by simp [chainTab], subst_old hold⟩
    | cons a' A =>
      cases us with
      | nil => simp [chainRules] at hr
      | cons x u =>
        simp only [chainRules, List.mem_cons] at hr
        rcases hr with rfl | hr
        · refine ⟨x :: u, by simp [chainTab], ?_⟩
          have hx : sigma exp x = [x] := sigma_old (hold x (by simp))
          have ha' : exp a' = some u := hT a' u (hsub _ (by simp [chainTab]))
          rw [subst_cons, subst_cons, subst_nil, hx]
          simp [sigma, ha']
        · have hsub' : ∀ p, p ∈ chainTab (a' :: A) u → p ∈ T := by
            intro p hp; apply hsub
            simp only [chainTab, List.tail_cons, List.mem_cons] at hp ⊢
            exact Or.inr hp
          obtain ⟨e, he1, he2⟩ := ih u (s + 1) hsub' (fun y hy => hold y (List.mem_cons_of_mem _ hy)) r hr
          refine ⟨e, ?_, he2⟩
          simp only [chainTab, List.tail_cons, List.mem_cons] at he1 ⊢
          exact Or.inr he1

theorem chainRules_gen {G' : CFG} :
    ∀ (A : List String) (us : List Sym) (s : Nat), A.length + 1 = us.length →
      (∀ r, r ∈ chainRules s A us → r ∈ G'.R) →
      ∀ X e, (X, e) ∈ chainTab A us → ∀ w, G'.Gen e w → G'.Gen [.v X] w := by
  intro A
  induction A with
  | nil => intro us s _ _ X e h; simp [chainTab] at h
  | cons a A ih =>
    intro us s hl hsub X e hm w hg
    cases A with
    | nil =>
      simp only [chainTab, List.mem_singleton, Prod.mk.injEq] at hm
      obtain ⟨rfl, rfl⟩ := hm
      exact gen_v_iff.mpr ⟨e, ⟨⟨X, s, e⟩, hsub _ (by simp [chainRules]), rfl, rfl⟩, hg⟩
    | cons a' A =>
      cases us with
      | nil => simp at hl
      | cons x u =>
        have hl' : (a' :: A).length + 1 = u.length := by simp at hl ⊢; omega
        have hsub' : ∀ r, r ∈ chainRules (s + 1) (a' :: A) u → r ∈ G'.R := by
          intro r hr; apply hsub; simp only [chainRules, List.mem_cons]; exact Or.inr hr
        have ih' := ih u (s + 1) hl' hsub'
        simp only [chainTab, List.tail_cons, List.mem_cons, Prod.mk.injEq] at hm
        rcases hm with ⟨rfl, rfl⟩ | hm
        · obtain ⟨w1, w2, rfl, g1, g2⟩ := gen_split (f1 := [x]) (f2 := u) hg
          have g2' := ih' a' u (by simp [chainTab]) w2 g2
          have hr : G'.HasRule X [x, .v a'] := ⟨⟨X, s, [x, .v a']⟩, hsub _ (by simp [chainRules]), rfl, rfl⟩
          exact gen_v_iff.mpr ⟨_, hr, gen_append (f1 := [x]) g1 g2'⟩
        · exact ih' X e (by simpa [chainTab] using hm) w hg

/-! ### one step of `binarise` -/

/-- the in-place rewriting of the alias class of `rule` -/
def rewr (rule : CRule) (u0 : Sym) (A0 : String) (r : CRule) : CRule :=
  if r.aid = rule.aid then { r with rhs := [u0, .v A0] } else r

theorem rewr_lhs (rule u0 A0 r) : (rewr rule u0 A0 r).lhs = r.lhs := by
  unfold rewr; split <;> rfl
theorem rewr_aid (rule u0 A0 r) : (rewr rule u0 A0 r).aid = r.aid := by
  unfold rewr; split <;> rfl
theorem rewr_cases (rule u0 A0 r) :
    (r.aid = rule.aid ∧ (rewr rule u0 A0 r).rhs = [u0, .v A0]) ∨ (r.aid ≠ rule.aid ∧ rewr rule u0 A0 r = r) := by
  unfold rewr; split
  · rename_i h; exact Or.inl ⟨h, rfl⟩
  · rename_i h; exact Or.inr ⟨h, rfl⟩

/-- the effect of a non-trivial `binariseStep` -/
structure ChainStep (G G' : CFG) (rule : CRule) (u0 : Sym) (urest : List Sym) (A0 : String)
    (Arest : List String) : Prop where
  hrule : rule ∈ G.R
  hrhs : rule.rhs = u0 :: urest
  hlen : (A0 :: Arest).length + 1 = urest.length
  hnodup : (A0 :: Arest).Nodup
  hnew : ∀ a, a ∈ A0 :: Arest → a ∉ G.V
  hV : ∀ a, a ∈ G'.V ↔ a ∈ G.V ∨ a ∈ A0 :: Arest
  hSigma : G'.Sigma = G.Sigma
  hS : G'.S = G.S
  hR : G'.R = G.R.map (rewr rule u0 A0) ++ chainRules G.nextAid (A0 :: Arest) urest

/-- the rule at position `j` (if any) has at most two symbols on the right -/
def Short (G : CFG) (j : Nat) : Prop := ∀ r, G.R[j]? = some r → r.rhs.length ≤ 2

theorem binariseStep_cases (hfresh : FreshOK) (G : CFG) (i : Nat) :
    (binariseStep G i = G ∧ Short G i) ∨ ∃ rule u0 urest A0 Arest, G.R[i]? = some rule ∧
      ChainStep G (binariseStep G i) rule u0 urest A0 Arest := by
  unfold binariseStep Short
  cases hri : G.R[i]? with
  | none => left; exact ⟨rfl, fun r hr => by cases hr⟩
  | some rule =>
    simp only []
    by_cases hlen : rule.rhs.length ≤ 2
    · left; refine ⟨by simp [hlen], ?_⟩
      intro r hr; cases hr; exact hlen
    · simp only [hlen, if_false]
      obtain ⟨h1, h2, h3, h4⟩ := freshVariables_spec hfresh rule.lhs (rule.rhs.length - 2) G.V
      generalize freshVariables G.V rule.lhs (rule.rhs.length - 2) = p at *
      obtain ⟨A, V'⟩ := p
      simp only at h1 h2 h3 h4 ⊢
      cases hu : rule.rhs with
      | nil => rw [hu] at hlen; simp at hlen
      | cons u0 urest =>
        rw [hu] at hlen h4
        simp only [List.length_cons] at hlen h4
        cases A with
        | nil => simp only [List.length_nil] at h4; omega
        | cons A0 Arest =>
          right
          refine ⟨rule, u0, urest, A0, Arest, rfl, ?_⟩
          have hmem : rule ∈ G.R := List.mem_of_getElem? hri
          refine ⟨hmem, hu, ?_, h1, h2, h3, rfl, rfl, rfl⟩
          simp only [List.length_cons] at h4 ⊢; omega

theorem SymIn.mono {V V' Sg Sg' : List String} (hV : ∀ a, a ∈ V → a ∈ V') (hS : Sg' = Sg) {x : Sym}
    (h : SymIn V Sg x) : SymIn V' Sg' x := by
  cases x with
  | t a => simp only [SymIn] at h ⊢; rw [hS]; exact h
  | v A => exact hV A h

namespace ChainStep
variable {G G' : CFG} {rule : CRule} {u0 : Sym} {urest : List Sym} {A0 : String} {Arest : List String}

theorem mem_R (h : ChainStep G G' rule u0 urest A0 Arest) {r' : CRule} :
    r' ∈ G'.R ↔ (∃ r, r ∈ G.R ∧ r' = rewr rule u0 A0 r) ∨ r' ∈ chainRules G.nextAid (A0 :: Arest) urest := by
  rw [h.hR, List.mem_append, List.mem_map]
  constructor
  · rintro (⟨r, hr, rfl⟩ | h); exact Or.inl ⟨r, hr, rfl⟩; exact Or.inr h
  · rintro (⟨r, hr, rfl⟩ | h); exact Or.inl ⟨r, hr, rfl⟩; exact Or.inr h

theorem V_mono (h : ChainStep G G' rule u0 urest A0 Arest) : ∀ a, a ∈ G.V → a ∈ G'.V :=
  fun a ha => (h.hV a).mpr (Or.inl ha)

theorem urest_sub (h : ChainStep G G' rule u0 urest A0 Arest) {x : Sym} (hx : x ∈ urest) : x ∈ rule.rhs := by
  rw [h.hrhs]; exact List.mem_cons_of_mem _ hx

theorem u0_mem (h : ChainStep G G' rule u0 urest A0 Arest) : u0 ∈ rule.rhs := by
  rw [h.hrhs]; simp

theorem valid' (h : ChainStep G G' rule u0 urest A0 Arest) (hv : G.valid = true) : G'.valid = true := by
  rw [valid_iff] at hv ⊢
  intro r' hr'
  have hrule := hv rule h.hrule
  rcases h.mem_R.mp hr' with ⟨r, hr, rfl⟩ | hc
  · rw [rewr_lhs]
    refine ⟨h.V_mono _ (hv r hr).1, ?_⟩
    rcases rewr_cases rule u0 A0 r with ⟨_, he⟩ | ⟨_, he⟩
    · rw [he]
      intro x hx
      simp only [List.mem_cons, List.not_mem_nil, or_false] at hx
      rcases hx with rfl | rfl
      · exact (hrule.2 _ h.u0_mem).mono h.V_mono h.hSigma
      · exact (h.hV A0).mpr (Or.inr (by simp))
    · rw [he]
      intro x hx
      exact ((hv r hr).2 x hx).mono h.V_mono h.hSigma
  · obtain ⟨h1, _, h3, _⟩ := chainRules_mem _ _ _ h.hlen r' hc
    refine ⟨(h.hV _).mpr (Or.inr h1), ?_⟩
    intro x hx
    rcases h3 x hx with hx' | ⟨a, ha, rfl⟩
    · exact (hrule.2 _ (h.urest_sub hx')).mono h.V_mono h.hSigma
    · exact (h.hV a).mpr (Or.inr ha)

theorem alias' (h : ChainStep G G' rule u0 urest A0 Arest) (ha : AliasOK G) : AliasOK G' := by
  intro r' s' hr' hs' he
  rcases h.mem_R.mp hr' with ⟨r, hr, rfl⟩ | hc <;> rcases h.mem_R.mp hs' with ⟨s, hs, rfl⟩ | hc'
  · rw [rewr_aid, rewr_aid] at he
    rcases rewr_cases rule u0 A0 r with ⟨e1, he1⟩ | ⟨e1, he1⟩ <;>
      rcases rewr_cases rule u0 A0 s with ⟨e2, he2⟩ | ⟨e2, he2⟩
    · rw [he1, he2]
    · exact absurd (he ▸ e1) e2
    · exact absurd (he ▸ e2) e1
    · rw [he1, he2]; exact ha r s hr hs he
  · rw [rewr_aid] at he
    have := aid_lt_nextAid hr
    have := (chainRules_mem _ _ _ h.hlen s' hc').2.2.2
    omega
  · rw [rewr_aid] at he
    have := aid_lt_nextAid hs
    have := (chainRules_mem _ _ _ h.hlen r' hc).2.2.2
    omega
  · rw [chainRules_aid_inj _ _ _ h.hlen r' s' hc hc' he]

theorem noUnit' (h : ChainStep G G' rule u0 urest A0 Arest) (hn : NoUnit G) : NoUnit G' := by
  intro r' hr'
  rcases h.mem_R.mp hr' with ⟨r, hr, rfl⟩ | hc
  · rcases rewr_cases rule u0 A0 r with ⟨_, he⟩ | ⟨_, he⟩
    · exact isUnit_of_length2 (by rw [he]; rfl)
    · rw [he]; exact hn r hr
  · exact isUnit_of_length2 (chainRules_mem _ _ _ h.hlen r' hc).2.1

theorem noEps' (h : ChainStep G G' rule u0 urest A0 Arest) (hn : NoEpsExceptStart G) : NoEpsExceptStart G' := by
  intro r' hr' hnil
  rw [h.hS]
  rcases h.mem_R.mp hr' with ⟨r, hr, rfl⟩ | hc
  · rcases rewr_cases rule u0 A0 r with ⟨_, he⟩ | ⟨_, he⟩
    · rw [he] at hnil; cases hnil
    · rw [he] at hnil ⊢; exact hn r hr hnil
  · have := (chainRules_mem _ _ _ h.hlen r' hc).2.1
    rw [hnil] at this; simp at this

theorem startNotOnRhs' (h : ChainStep G G' rule u0 urest A0 Arest) (hSV : G.S ∈ G.V)
    (hn : StartNotOnRhs G) : StartNotOnRhs G' := by
  intro r' hr' hmem
  rw [h.hS] at hmem
  have hrule := hn rule h.hrule
  rcases h.mem_R.mp hr' with ⟨r, hr, rfl⟩ | hc
  · rcases rewr_cases rule u0 A0 r with ⟨_, he⟩ | ⟨_, he⟩
    · rw [he] at hmem
      simp only [List.mem_cons, List.not_mem_nil, or_false] at hmem
      rcases hmem with hm | hm
      · exact hrule (hm ▸ h.u0_mem)
      · injection hm with hm
        exact h.hnew A0 (by simp) (hm ▸ hSV)
    · rw [he] at hmem; exact hn r hr hmem
  · rcases (chainRules_mem _ _ _ h.hlen r' hc).2.2.1 _ hmem with hx | ⟨a, ha, hx⟩
    · exact hrule (h.urest_sub hx)
    · injection hx with hx
      exact h.hnew a ha (hx ▸ hSV)

theorem lang' (h : ChainStep G G' rule u0 urest A0 Arest) (hv : G.valid = true) (ha : AliasOK G)
    (hSV : G.S ∈ G.V) : ∀ w, G'.Lang w ↔ G.Lang w := by
  rw [valid_iff] at hv
  have hexpA0 : chainExp (A0 :: Arest) urest A0 = some urest := by simp [chainExp, chainTab]
  have hold : ∀ x, SymIn G.V G.Sigma x → OldSym (chainExp (A0 :: Arest) urest) x := by
    intro x hx
    cases x with
    | t a => trivial
    | v X => exact chainExp_none_iff.mpr (fun hm => h.hnew X hm hx)
  have hrule := hv rule h.hrule
  -- the rewritten version of an old rule expands to the old rule
  have hrewr : ∀ r, r ∈ G.R → subst (chainExp (A0 :: Arest) urest) (rewr rule u0 A0 r).rhs = r.rhs := by
    intro r hr
    rcases rewr_cases rule u0 A0 r with ⟨e, he⟩ | ⟨_, he⟩
    · rw [he, subst_cons, subst_cons, subst_nil, sigma_old (hold _ (hrule.2 _ h.u0_mem))]
      simp only [sigma, hexpA0, Option.getD_some, List.append_nil, List.cons_append, List.nil_append]
      rw [← h.hrhs]
      exact (ha r rule hr h.hrule e).symm
    · rw [he]; exact subst_old (fun x hx => hold x ((hv r hr).2 x hx))
  apply lang_of_intro (chainExp (A0 :: Arest) urest) h.hS
  · exact chainExp_none_iff.mpr (fun hm => h.hnew _ hm hSV)
  · rintro A rhs ⟨r', hr', rfl, rfl⟩ hnone
    rcases h.mem_R.mp hr' with ⟨r, hr, rfl⟩ | hc
    · rw [hrewr r hr, rewr_lhs]; exact ⟨r, hr, rfl, rfl⟩
    · exact absurd (chainRules_mem _ _ _ h.hlen r' hc).1 (chainExp_none_iff.mp hnone)
  · rintro A rhs e ⟨r', hr', rfl, rfl⟩ hsome
    rcases h.mem_R.mp hr' with ⟨r, hr, rfl⟩ | hc
    · exfalso
      rw [rewr_lhs] at hsome
      have : chainExp (A0 :: Arest) urest r.lhs = none :=
        chainExp_none_iff.mpr (fun hm => h.hnew _ hm (hv r hr).1)
      rw [this] at hsome; cases hsome
    · obtain ⟨e', he1, he2⟩ := chainRules_subst (chainExp (A0 :: Arest) urest) (chainTab (A0 :: Arest) urest)
        (fun X e hm => chainExp_of_mem h.hnodup hm) (A0 :: Arest) urest G.nextAid (fun p hp => hp)
        (fun x hx => hold x (hrule.2 x (h.urest_sub hx))) r' hc
      rw [chainExp_of_mem h.hnodup he1] at hsome
      cases hsome; exact he2
  · rintro A rhs ⟨r, hr, rfl, rfl⟩
    exact ⟨_, ⟨rewr rule u0 A0 r, h.mem_R.mpr (Or.inl ⟨r, hr, rfl⟩), rewr_lhs .., rfl⟩, hrewr r hr⟩
  · intro X e hX
    exact chainRules_gen (A0 :: Arest) urest G.nextAid h.hlen
      (fun r hr => h.mem_R.mpr (Or.inr hr)) X e (mem_of_lookup hX)

end ChainStep


theorem ChainStep.short_mono {G G' : CFG} {rule : CRule} {u0 : Sym} {urest : List Sym} {A0 : String}
    {Arest : List String} (h : ChainStep G G' rule u0 urest A0 Arest) {j : Nat} (hs : Short G j) :
    Short G' j := by
  intro r' hr'
  rw [h.hR] at hr'
  by_cases hj : j < (G.R.map (rewr rule u0 A0)).length
  · rw [List.getElem?_append_left hj, List.getElem?_map] at hr'
    cases hg : G.R[j]? with
    | none => rw [hg] at hr'; cases hr'
    | some r =>
      rw [hg] at hr'
      simp only [Option.map_some, Option.some.injEq] at hr'
      subst hr'
      rcases rewr_cases rule u0 A0 r with ⟨_, he⟩ | ⟨_, he⟩
      · rw [he]; exact Nat.le_refl _
      · rw [he]; exact hs r hg
  · rw [List.getElem?_append_right (Nat.le_of_not_lt hj)] at hr'
    have := (chainRules_mem _ _ _ h.hlen r' (List.mem_of_getElem? hr')).2.1
    omega

theorem ChainStep.short_self {G G' : CFG} {rule : CRule} {u0 : Sym} {urest : List Sym} {A0 : String}
    {Arest : List String} (h : ChainStep G G' rule u0 urest A0 Arest) {i : Nat} (hi : G.R[i]? = some rule) :
    Short G' i := by
  intro r' hr'
  rw [h.hR] at hr'
  have hlt : i < G.R.length := (List.getElem?_eq_some_iff.mp hi).1
  have hj : i < (G.R.map (rewr rule u0 A0)).length := by simpa using hlt
  rw [List.getElem?_append_left hj, List.getElem?_map, hi] at hr'
  simp only [Option.map_some, Option.some.injEq] at hr'
  subst hr'
  rcases rewr_cases rule u0 A0 rule with ⟨_, he⟩ | ⟨hne, _⟩
  · rw [he]; exact Nat.le_refl _
  · exact absurd rfl hne

/-- everything `binarise_spec` says about a grammar reached from `G0` -/
structure BinInv (G0 G : CFG) : Prop where
  valid : G.valid = true
  alias : AliasOK G
  hS : G.S = G0.S
  hV : ∀ A, A ∈ G0.V → A ∈ G.V
  hlen : G0.R.length ≤ G.R.length
  noUnit : NoUnit G0 → NoUnit G
  noEps : NoEpsExceptStart G0 → NoEpsExceptStart G
  start : G0.S ∈ G0.V → StartNotOnRhs G0 → StartNotOnRhs G
  lang : G0.S ∈ G0.V → ∀ w, G.Lang w ↔ G0.Lang w

theorem BinInv.refl {G : CFG} (hv : G.valid = true) (ha : AliasOK G) : BinInv G G :=
  ⟨hv, ha, rfl, fun _ h => h, Nat.le_refl _, id, id, fun _ h => h, fun _ _ => Iff.rfl⟩

theorem binariseStep_inv (hfresh : FreshOK) {G0 G : CFG} (i : Nat) (h : BinInv G0 G) :
    BinInv G0 (binariseStep G i) ∧ (∀ j, Short G j → Short (binariseStep G i) j) ∧
      Short (binariseStep G i) i := by
  rcases binariseStep_cases hfresh G i with ⟨he, hs⟩ | ⟨rule, u0, urest, A0, Arest, hi, hc⟩
  · rw [he]
    exact ⟨h, fun _ hs => hs, hs⟩
  · refine ⟨?_, fun j hs => hc.short_mono hs, hc.short_self hi⟩
    exact {
      valid := hc.valid' h.valid
      alias := hc.alias' h.alias
      hS := hc.hS.trans h.hS
      hV := fun A hA => hc.V_mono A (h.hV A hA)
      hlen := by
        have := congrArg List.length hc.hR
        simp only [List.length_append, List.length_map] at this
        have := h.hlen; omega
      noUnit := fun hn => hc.noUnit' (h.noUnit hn)
      noEps := fun hn => hc.noEps' (h.noEps hn)
      start := fun hSV hn => hc.startNotOnRhs' (h.hS ▸ h.hV _ hSV) (h.start hSV hn)
      lang := fun hSV w => (hc.lang' h.valid h.alias (h.hS ▸ h.hV _ hSV) w).trans (h.lang hSV w) }

theorem binarise_fold (hfresh : FreshOK) {G0 : CFG} (hv : G0.valid = true) (ha : AliasOK G0) :
    ∀ k, BinInv G0 ((List.range k).foldl binariseStep G0) ∧
      ∀ j, (j < k ∨ G0.R.length ≤ j) → Short ((List.range k).foldl binariseStep G0) j := by
  intro k
  induction k with
  | zero =>
    refine ⟨BinInv.refl hv ha, ?_⟩
    intro j hj r hr
    simp only [List.range_zero, List.foldl_nil] at hr
    have := (List.getElem?_eq_some_iff.mp hr).1
    omega
  | succ k ih =>
    obtain ⟨hinv, hshort⟩ := ih
    rw [List.range_succ, List.foldl_append]
    simp only [List.foldl_cons, List.foldl_nil]
    obtain ⟨h1, h2, h3⟩ := binariseStep_inv hfresh k hinv
    refine ⟨h1, ?_⟩
    intro j hj
    by_cases hjk : j = k
    · subst hjk; exact h3
    · apply h2
      apply hshort
      omega

theorem binarise_inv (hfresh : FreshOK) {G : CFG} (hv : G.valid = true) (ha : AliasOK G) :
    BinInv G G.binarise ∧ RhsLe2 G.binarise := by
  obtain ⟨h1, h2⟩ := binarise_fold hfresh hv ha G.R.length
  refine ⟨h1, ?_⟩
  intro r hr
  obtain ⟨j, hj, hjr⟩ := List.getElem_of_mem hr
  have hs : Short G.binarise j := h2 j (by omega)
  exact hs r (by rw [List.getElem?_eq_getElem hj, hjr])

/-! ### isolating terminals: the accumulator -/

/-- replace a terminal by the variable recorded for it -/
def substT (m : List (String × String)) : Sym → Sym
  | .v A => .v A
  | .t a =>
    match m.lookup a with
    | some A => .v A
    | none => .t a

/-- what `isolateTerminals` does to one rule, given the final table -/
def isoRule (m : List (String × String)) (r : CRule) : CRule :=
  if 2 ≤ r.rhs.length then { r with rhs := r.rhs.map (substT m) } else r

/-- every terminal of the form has a variable in the table -/
def Covered (m : List (String × String)) (xs : List Sym) : Prop :=
  ∀ a, Sym.t a ∈ xs → ∃ A, m.lookup a = some A

structure AccOK (G0 : CFG) (acc : TermAcc) : Prop where
  hV : ∀ A, A ∈ acc.V ↔ A ∈ G0.V ∨ A ∈ acc.repl.map (·.2)
  hnodup : (acc.repl.map (·.2)).Nodup
  hnew : ∀ A, A ∈ acc.repl.map (·.2) → A ∉ G0.V
  hterm : ∀ p, p ∈ acc.repl → p.1 ∈ G0.Sigma

def Ext (acc acc' : TermAcc) : Prop := ∃ l, acc'.repl = acc.repl ++ l

theorem Ext.refl (acc : TermAcc) : Ext acc acc := ⟨[], by simp⟩
theorem Ext.trans {a b c : TermAcc} (h1 : Ext a b) (h2 : Ext b c) : Ext a c := by
  obtain ⟨l1, h1⟩ := h1
  obtain ⟨l2, h2⟩ := h2
  exact ⟨l1 ++ l2, by rw [h2, h1, List.append_assoc]⟩

theorem Ext.lookup {acc acc' : TermAcc} (h : Ext acc acc') {a A : String}
    (hl : acc.repl.lookup a = some A) : acc'.repl.lookup a = some A := by
  obtain ⟨l, h⟩ := h
  rw [h, List.lookup_append, hl]; rfl

theorem substT_ext {acc acc' : TermAcc} (h : Ext acc acc') {x : Sym}
    (hx : ∀ a, x = .t a → ∃ A, acc.repl.lookup a = some A) :
    substT acc'.repl x = substT acc.repl x := by
  cases x with
  | v A => rfl
  | t a =>
    obtain ⟨A, hA⟩ := hx a rfl
    simp [substT, hA, h.lookup hA]

theorem covered_ext {acc acc' : TermAcc} (h : Ext acc acc') {xs : List Sym} (hc : Covered acc.repl xs) :
    Covered acc'.repl xs ∧ xs.map (substT acc'.repl) = xs.map (substT acc.repl) := by
  constructor
  · intro a ha
    obtain ⟨A, hA⟩ := hc a ha
    exact ⟨A, h.lookup hA⟩
  · apply List.map_congr_left
    intro x hx
    apply substT_ext h
    rintro a rfl
    exact hc a hx

theorem map_substT_vars {m : List (String × String)} {xs : List Sym} (hc : Covered m xs) :
    ∀ y, y ∈ xs.map (substT m) → ∃ A, y = .v A := by
  intro y hy
  obtain ⟨x, hx, rfl⟩ := List.mem_map.mp hy
  cases x with
  | v A => exact ⟨A, rfl⟩
  | t a =>
    obtain ⟨A, hA⟩ := hc a hx
    exact ⟨A, by simp [substT, hA]⟩

theorem replaceSymbols_vars (acc : TermAcc) : ∀ (ys : List Sym), (∀ y, y ∈ ys → ∃ A, y = .v A) →
    replaceSymbols acc ys = (acc, ys) := by
  intro ys
  induction ys with
  | nil => intro _; rfl
  | cons y ys ih =>
    intro h
    obtain ⟨A, rfl⟩ := h y (by simp)
    simp only [replaceSymbols, replaceSymbol]
    rw [ih (fun z hz => h z (List.mem_cons_of_mem _ hz))]

theorem replaceSymbol_t_some {acc : TermAcc} {a A : String} (h : acc.repl.lookup a = some A) :
    replaceSymbol acc (.t a) = (acc, .v A) := by
  simp [replaceSymbol, h]

theorem replaceSymbol_t_none {acc : TermAcc} {a : String} (h : acc.repl.lookup a = none) :
    replaceSymbol acc (.t a) =
      ({ V := acc.V ++ [freshVariable acc.V (upperAscii a)],
         repl := acc.repl ++ [(a, freshVariable acc.V (upperAscii a))] },
       .v (freshVariable acc.V (upperAscii a))) := by
  simp [replaceSymbol, h]

theorem replaceSymbol_spec (hfresh : FreshOK) {G0 : CFG} {acc : TermAcc} (x : Sym) (hok : AccOK G0 acc)
    (hx : ∀ a, x = .t a → a ∈ G0.Sigma) :
    AccOK G0 (replaceSymbol acc x).1 ∧ Ext acc (replaceSymbol acc x).1 ∧
      (replaceSymbol acc x).2 = substT (replaceSymbol acc x).1.repl x ∧
      (∀ a, x = .t a → ∃ A, (replaceSymbol acc x).1.repl.lookup a = some A) := by
  cases x with
  | v A =>
    refine ⟨hok, Ext.refl _, rfl, ?_⟩
    intro a h; cases h
  | t a =>
    cases hl : acc.repl.lookup a with
    | some A =>
      rw [replaceSymbol_t_some hl]
      refine ⟨hok, Ext.refl _, by simp [substT, hl], ?_⟩
      intro b hb; cases hb; exact ⟨A, hl⟩
    | none =>
      rw [replaceSymbol_t_none hl]
      have hA := hfresh acc.V (upperAscii a)
      generalize freshVariable acc.V (upperAscii a) = A at hA
      have hlk : List.lookup a (acc.repl ++ [(a, A)]) = some A := by
        rw [List.lookup_append, hl]; simp [List.lookup]
      refine ⟨?_, ⟨[(a, A)], rfl⟩, by simp [substT, hlk], ?_⟩
      · constructor
        · intro B
          simp only [List.mem_append, List.mem_singleton, List.map_append, List.map_cons, List.map_nil, hok.hV B]
          constructor
          · rintro ((h | h) | h)
            · exact Or.inl h
            · exact Or.inr (Or.inl h)
            · exact Or.inr (Or.inr h)
          · rintro (h | h | h)
            · exact Or.inl (Or.inl h)
            · exact Or.inl (Or.inr h)
            · exact Or.inr h
        · simp only [List.map_append, List.map_cons, List.map_nil]
          rw [List.nodup_append]
          refine ⟨hok.hnodup, by simp, ?_⟩
          intro B hB C hC
          simp only [List.mem_singleton] at hC
          subst hC
          rintro rfl
          exact hA ((hok.hV B).mpr (Or.inr hB))
        · intro B hB
          simp only [List.map_append, List.map_cons, List.map_nil, List.mem_append, List.mem_singleton] at hB
          rcases hB with hB | rfl
          · exact hok.hnew B hB
          · intro hV; exact hA ((hok.hV B).mpr (Or.inl hV))
        · intro p hp
          simp only [List.mem_append, List.mem_singleton] at hp
          rcases hp with hp | rfl
          · exact hok.hterm p hp
          · exact hx a rfl
      · intro b hb; cases hb; exact ⟨A, hlk⟩

theorem replaceSymbols_spec (hfresh : FreshOK) {G0 : CFG} : ∀ (xs : List Sym) (acc : TermAcc), AccOK G0 acc →
    (∀ a, Sym.t a ∈ xs → a ∈ G0.Sigma) →
    AccOK G0 (replaceSymbols acc xs).1 ∧ Ext acc (replaceSymbols acc xs).1 ∧
      (replaceSymbols acc xs).2 = xs.map (substT (replaceSymbols acc xs).1.repl) ∧
      Covered (replaceSymbols acc xs).1.repl xs := by
  intro xs
  induction xs with
  | nil =>
    intro acc hok _
    refine ⟨hok, Ext.refl _, rfl, ?_⟩
    intro a ha; cases ha
  | cons x xs ih =>
    intro acc hok hx
    obtain ⟨h1, h2, h3, h4⟩ := replaceSymbol_spec hfresh x hok (by rintro a rfl; exact hx a (by simp))
    obtain ⟨k1, k2, k3, k4⟩ := ih (replaceSymbol acc x).1 h1 (fun a ha => hx a (List.mem_cons_of_mem _ ha))
    simp only [replaceSymbols]
    refine ⟨k1, h2.trans k2, ?_, ?_⟩
    · rw [List.map_cons, k3, h3, substT_ext k2 h4]
    · intro a ha
      rcases List.mem_cons.mp ha with ha | ha
      · obtain ⟨A, hA⟩ := h4 a ha.symm
        exact ⟨A, k2.lookup hA⟩
      · exact k4 a ha

/-! ### isolating terminals: the loop -/

/-- relation between an original rule `r0` and its current version `r`; with `b = true` the rule
    has been visited (long rules are rewritten), with `b = false` it may or may not have been rewritten
    through an alias -/
def RelB (b : Bool) (m : List (String × String)) (r0 r : CRule) : Prop :=
  r.lhs = r0.lhs ∧ r.aid = r0.aid ∧
    ((r.rhs = r0.rhs ∧ (b = true → r0.rhs.length < 2)) ∨
     (2 ≤ r0.rhs.length ∧ Covered m r0.rhs ∧ r.rhs = r0.rhs.map (substT m)))

theorem RelB.mono {b : Bool} {acc acc' : TermAcc} (h : Ext acc acc') {r0 r : CRule}
    (hr : RelB b acc.repl r0 r) : RelB b acc'.repl r0 r := by
  obtain ⟨h1, h2, h3⟩ := hr
  refine ⟨h1, h2, ?_⟩
  rcases h3 with h3 | ⟨h3, h4, h5⟩
  · exact Or.inl h3
  · obtain ⟨k1, k2⟩ := covered_ext h h4
    exact Or.inr ⟨h3, k1, by rw [h5, k2]⟩

theorem RelB.length_eq {b : Bool} {m : List (String × String)} {r0 r : CRule} (hr : RelB b m r0 r) :
    r.rhs.length = r0.rhs.length := by
  rcases hr.2.2 with h | ⟨_, _, h⟩
  · rw [h.1]
  · rw [h, List.length_map]

theorem RelB.eq_isoRule {m : List (String × String)} {r0 r : CRule} (hr : RelB true m r0 r) :
    r = isoRule m r0 := by
  obtain ⟨h1, h2, h3⟩ := hr
  obtain ⟨l, a, rhs⟩ := r
  obtain ⟨l0, a0, rhs0⟩ := r0
  simp only at h1 h2 h3
  subst h1 h2
  unfold isoRule
  rcases h3 with ⟨h3, h4⟩ | ⟨h3, _, h5⟩
  · have := h4 trivial
    have hn : ¬ 2 ≤ rhs0.length := by omega
    simp only [hn, if_false, h3]
  · simp only [h3, if_true, h5]

/-- `fix` of the model, on (original, current) pairs -/
def fixp (aid : Nat) (rhs' : List Sym) (p : CRule × CRule) : CRule × CRule :=
  (p.1, if p.2.aid = aid then { p.2 with rhs := rhs' } else p.2)

theorem map_snd_fixp (aid : Nat) (rhs' : List Sym) (l : List (CRule × CRule)) :
    (l.map (fixp aid rhs')).map (·.2) =
      (l.map (·.2)).map (fun x => if x.aid = aid then { x with rhs := rhs' } else x) := by
  induction l with
  | nil => rfl
  | cons p l ih => simp only [List.map_cons, ih]; rfl

theorem map_fst_fixp (aid : Nat) (rhs' : List Sym) (l : List (CRule × CRule)) :
    (l.map (fixp aid rhs')).map (·.1) = l.map (·.1) := by
  induction l with
  | nil => rfl
  | cons p l ih => simp only [List.map_cons, ih]; rfl

theorem fixp_rel {G0 : CFG} (ha : AliasOK G0) {b : Bool} {acc acc' : TermAcc} (hext : Ext acc acc')
    {r0 r : CRule} (hr0 : r0 ∈ G0.R) (haid : r.aid = r0.aid) (hlen : 2 ≤ r0.rhs.length)
    (hcov : Covered acc'.repl r0.rhs) {rhs' : List Sym} (hrhs : rhs' = r0.rhs.map (substT acc'.repl))
    {p : CRule × CRule} (hp0 : p.1 ∈ G0.R) (hp : RelB b acc.repl p.1 p.2) :
    RelB b acc'.repl (fixp r.aid rhs' p).1 (fixp r.aid rhs' p).2 := by
  unfold fixp
  simp only
  split
  · rename_i he
    have he0 : p.1.aid = r0.aid := by rw [← hp.2.1, he, haid]
    have hsame : p.1.rhs = r0.rhs := ha _ _ hp0 hr0 he0
    refine ⟨hp.1, hp.2.1, Or.inr ?_⟩
    rw [hsame]
    exact ⟨hlen, hcov, hrhs⟩
  · exact hp.mono hext

theorem replaceSymbols_rel (hfresh : FreshOK) {G0 : CFG} (hv : G0.valid = true) {acc : TermAcc}
    (hok : AccOK G0 acc) {r0 r : CRule} (hr0 : r0 ∈ G0.R) (hr : RelB false acc.repl r0 r) :
    AccOK G0 (replaceSymbols acc r.rhs).1 ∧ Ext acc (replaceSymbols acc r.rhs).1 ∧
      (replaceSymbols acc r.rhs).2 = r0.rhs.map (substT (replaceSymbols acc r.rhs).1.repl) ∧
      Covered (replaceSymbols acc r.rhs).1.repl r0.rhs := by
  rcases hr.2.2 with ⟨h, _⟩ | ⟨_, h2, h3⟩
  · rw [h]
    apply replaceSymbols_spec hfresh r0.rhs acc hok
    intro a ha
    exact ((valid_iff.mp hv) r0 hr0).2 _ ha
  · rw [h3, replaceSymbols_vars acc _ (map_substT_vars h2)]
    exact ⟨hok, Ext.refl _, rfl, h2⟩

theorem isolateLoop_spec (hfresh : FreshOK) {G0 : CFG} (hv : G0.valid = true) (ha : AliasOK G0) :
    ∀ (rp : List (CRule × CRule)) (acc : TermAcc) (dp : List (CRule × CRule)),
      (∀ p, p ∈ dp → p.1 ∈ G0.R) → (∀ p, p ∈ rp → p.1 ∈ G0.R) → AccOK G0 acc →
      (∀ p, p ∈ dp → RelB true acc.repl p.1 p.2) → (∀ p, p ∈ rp → RelB false acc.repl p.1 p.2) →
      AccOK G0 (isolateLoop acc (dp.map (·.2)) (rp.map (·.2))).1 ∧
      Ext acc (isolateLoop acc (dp.map (·.2)) (rp.map (·.2))).1 ∧
      ∃ fp : List (CRule × CRule), (isolateLoop acc (dp.map (·.2)) (rp.map (·.2))).2 = fp.map (·.2) ∧
        fp.map (·.1) = dp.map (·.1) ++ rp.map (·.1) ∧
        ∀ p, p ∈ fp → RelB true (isolateLoop acc (dp.map (·.2)) (rp.map (·.2))).1.repl p.1 p.2 := by
  intro rp
  generalize hn : rp.length = n
  induction n generalizing rp with
  | zero =>
    intro acc dp _ _ hok hd _
    have : rp = [] := List.length_eq_zero_iff.mp hn
    subst this
    simp only [List.map_nil, isolateLoop, List.append_nil]
    exact ⟨hok, Ext.refl _, dp, rfl, rfl, hd⟩
  | succ n ih =>
    intro acc dp hd0 hr0 hok hd hr
    obtain ⟨p, rp, rfl⟩ := List.exists_cons_of_length_eq_add_one hn
    simp only [List.length_cons, Nat.add_right_cancel_iff] at hn
    obtain ⟨r0, r⟩ := p
    have hrel : RelB false acc.repl r0 r := hr (r0, r) (by simp)
    have hr0R : r0 ∈ G0.R := hr0 (r0, r) (by simp)
    simp only [List.map_cons]
    rw [isolateLoop]
    by_cases hlen : r.rhs.length ≥ 2
    · simp only [hlen, if_true]
      obtain ⟨k1, k2, k3, k4⟩ := replaceSymbols_rel hfresh hv hok hr0R hrel
      generalize replaceSymbols acc r.rhs = res at k1 k2 k3 k4 ⊢
      obtain ⟨acc', rhs'⟩ := res
      simp only at k1 k2 k3 k4 ⊢
      have hlen0 : 2 ≤ r0.rhs.length := by rw [← hrel.length_eq]; exact hlen
      have hdp : (dp.map (·.2)).map (fun x => if x.aid = r.aid then { x with rhs := rhs' } else x)
            ++ [{ r with rhs := rhs' }]
          = List.map (fun x : CRule × CRule => x.2)
              ((dp.map (fixp r.aid rhs')) ++ [(r0, { r with rhs := rhs' })]) := by
        rw [List.map_append, map_snd_fixp]; rfl
      have hrp : (rp.map (·.2)).map (fun x => if x.aid = r.aid then { x with rhs := rhs' } else x)
          = (rp.map (fixp r.aid rhs')).map (·.2) := by
        rw [map_snd_fixp]
      rw [hdp, hrp]
      have := ih (rp.map (fixp r.aid rhs')) (by simpa using hn) acc'
        ((dp.map (fixp r.aid rhs')) ++ [(r0, { r with rhs := rhs' })]) ?_ ?_ k1 ?_ ?_
      · obtain ⟨j1, j2, fp, j3, j4, j5⟩ := this
        refine ⟨j1, k2.trans j2, fp, j3, ?_, j5⟩
        rw [j4, List.map_append, map_fst_fixp, map_fst_fixp]
        simp
      · intro p hp
        rcases List.mem_append.mp hp with hp | hp
        · obtain ⟨q, hq, rfl⟩ := List.mem_map.mp hp
          exact hd0 q hq
        · rw [List.mem_singleton.mp hp]; exact hr0R
      · intro p hp
        obtain ⟨q, hq, rfl⟩ := List.mem_map.mp hp
        exact hr0 q (List.mem_cons_of_mem _ hq)
      · intro p hp
        rcases List.mem_append.mp hp with hp | hp
        · obtain ⟨q, hq, rfl⟩ := List.mem_map.mp hp
          exact fixp_rel ha k2 hr0R hrel.2.1 hlen0 k4 k3 (hd0 q hq) (hd q hq)
        · rw [List.mem_singleton.mp hp]
          exact ⟨hrel.1, hrel.2.1, Or.inr ⟨hlen0, k4, k3⟩⟩
      · intro p hp
        obtain ⟨q, hq, rfl⟩ := List.mem_map.mp hp
        exact fixp_rel ha k2 hr0R hrel.2.1 hlen0 k4 k3 (hr0 q (List.mem_cons_of_mem _ hq))
          (hr q (List.mem_cons_of_mem _ hq))
    · simp only [hlen, if_false]
      have hdp : dp.map (·.2) ++ [r] = (dp ++ [(r0, r)]).map (·.2) := by simp
      rw [hdp]
      have hlen0 : r0.rhs.length < 2 := by rw [← hrel.length_eq]; omega
      have := ih rp hn acc (dp ++ [(r0, r)]) ?_ ?_ hok ?_ ?_
      · obtain ⟨j1, j2, fp, j3, j4, j5⟩ := this
        refine ⟨j1, j2, fp, j3, ?_, j5⟩
        rw [j4]; simp
      · intro p hp
        rcases List.mem_append.mp hp with hp | hp
        · exact hd0 p hp
        · rw [List.mem_singleton.mp hp]; exact hr0R
      · intro p hp; exact hr0 p (List.mem_cons_of_mem _ hp)
      · intro p hp
        rcases List.mem_append.mp hp with hp | hp
        · exact hd p hp
        · rw [List.mem_singleton.mp hp]
          refine ⟨hrel.1, hrel.2.1, ?_⟩
          rcases hrel.2.2 with h | ⟨h, _⟩
          · exact Or.inl ⟨h.1, fun _ => hlen0⟩
          · omega
      · intro p hp; exact hr p (List.mem_cons_of_mem _ hp)

/-! ### isolating terminals: the result -/

def extraRules (start : Nat) (m : List (String × String)) : List CRule :=
  m.zipIdx.map fun ((a, A), i) => ({ lhs := A, aid := start + i, rhs := [.t a] } : CRule)

theorem extraRules_map (start : Nat) (m : List (String × String)) :
    (extraRules start m).map (fun r => (r.lhs, r.rhs)) = m.map (fun p => (p.2, [Sym.t p.1])) := by
  unfold extraRules
  rw [List.map_map]
  have : ((fun r : CRule => (r.lhs, r.rhs)) ∘ fun (x : (String × String) × Nat) =>
        match x with
        | ((a, A), i) => ({ lhs := A, aid := start + i, rhs := [.t a] } : CRule))
      = (fun p : String × String => (p.2, [Sym.t p.1])) ∘ Prod.fst := by
    funext x
    obtain ⟨⟨a, A⟩, i⟩ := x
    rfl
  rw [this, ← List.map_map, List.zipIdx_map_fst]

theorem mem_extraRules {start : Nat} {m : List (String × String)} {r : CRule} (h : r ∈ extraRules start m) :
    ∃ p, p ∈ m ∧ r.lhs = p.2 ∧ r.rhs = [Sym.t p.1] := by
  have : (r.lhs, r.rhs) ∈ (extraRules start m).map (fun r => (r.lhs, r.rhs)) :=
    List.mem_map.mpr ⟨r, h, rfl⟩
  rw [extraRules_map] at this
  obtain ⟨p, hp, he⟩ := List.mem_map.mp this
  simp only [Prod.mk.injEq] at he
  exact ⟨p, hp, he.1.symm, he.2.symm⟩

theorem extraRules_of_mem {start : Nat} {m : List (String × String)} {p : String × String} (h : p ∈ m) :
    ∃ r, r ∈ extraRules start m ∧ r.lhs = p.2 ∧ r.rhs = [Sym.t p.1] := by
  have : (p.2, [Sym.t p.1]) ∈ (extraRules start m).map (fun r => (r.lhs, r.rhs)) := by
    rw [extraRules_map]; exact List.mem_map.mpr ⟨p, h, rfl⟩
  obtain ⟨r, hr, he⟩ := List.mem_map.mp this
  simp only [Prod.mk.injEq] at he
  exact ⟨r, hr, he.1, he.2⟩

theorem isoRule_lhs (m r) : (isoRule m r).lhs = r.lhs := by
  unfold isoRule; split <;> rfl

theorem isoRule_cases (m : List (String × String)) (r : CRule) :
    (2 ≤ r.rhs.length ∧ (isoRule m r).rhs = r.rhs.map (substT m)) ∨ (r.rhs.length < 2 ∧ isoRule m r = r) := by
  unfold isoRule; split
  · rename_i h; exact Or.inl ⟨h, rfl⟩
  · rename_i h; exact Or.inr ⟨by omega, rfl⟩

/-- the shape of `G.isolateTerminals` -/
structure IsoRes (G G' : CFG) (acc : TermAcc) : Prop where
  hok : AccOK G acc
  hS : G'.S = G.S
  hSigma : G'.Sigma = G.Sigma
  hV : G'.V = acc.V
  hR : G'.R = G.R.map (isoRule acc.repl) ++ extraRules G.nextAid acc.repl
  hcov : ∀ r0, r0 ∈ G.R → 2 ≤ r0.rhs.length → Covered acc.repl r0.rhs

theorem isolateTerminals_char (hfresh : FreshOK) {G : CFG} (hv : G.valid = true) (ha : AliasOK G) :
    ∃ acc, IsoRes G G.isolateTerminals acc := by
  have hspec := isolateLoop_spec hfresh hv ha (G.R.map fun r => (r, r)) ⟨G.V, []⟩ []
    (by intro p hp; cases hp)
    (by intro p hp; obtain ⟨r, hr, rfl⟩ := List.mem_map.mp hp; exact hr)
    ⟨by intro A; simp, by simp, by intro A hA; simp at hA, by intro p hp; cases hp⟩
    (by intro p hp; cases hp)
    (by intro p hp; obtain ⟨r, hr, rfl⟩ := List.mem_map.mp hp
        exact ⟨rfl, rfl, Or.inl ⟨rfl, by intro h; cases h⟩⟩)
  have hmap : (G.R.map fun r => (r, r)).map (fun x => x.2) = G.R := by
    rw [List.map_map]; exact List.map_id' _
  have hmap1 : (G.R.map fun r => (r, r)).map (fun x => x.1) = G.R := by
    rw [List.map_map]; exact List.map_id' _
  rw [hmap, hmap1] at hspec
  simp only [List.map_nil, List.nil_append] at hspec
  unfold isolateTerminals
  generalize isolateLoop ⟨G.V, []⟩ [] G.R = res at hspec ⊢
  obtain ⟨acc, R'⟩ := res
  simp only at hspec ⊢
  obtain ⟨h1, _, fp, h3, h4, h5⟩ := hspec
  refine ⟨acc, h1, rfl, rfl, rfl, ?_, ?_⟩
  · show R' ++ _ = _
    have : R' = G.R.map (isoRule acc.repl) := by
      rw [h3, ← h4, List.map_map]
      apply List.map_congr_left
      intro p hp
      exact (h5 p hp).eq_isoRule
    rw [this]; rfl
  · intro r0 hr0 hlen
    rw [← h4] at hr0
    obtain ⟨p, hp, rfl⟩ := List.mem_map.mp hr0
    rcases (h5 p hp).2.2 with ⟨_, h⟩ | ⟨_, h, _⟩
    · have := h rfl; omega
    · exact h

namespace IsoRes
variable {G G' : CFG} {acc : TermAcc}

theorem mem_R (h : IsoRes G G' acc) {r' : CRule} :
    r' ∈ G'.R ↔ (∃ r, r ∈ G.R ∧ r' = isoRule acc.repl r) ∨ r' ∈ extraRules G.nextAid acc.repl := by
  rw [h.hR, List.mem_append, List.mem_map]
  constructor
  · rintro (⟨r, hr, rfl⟩ | h); exact Or.inl ⟨r, hr, rfl⟩; exact Or.inr h
  · rintro (⟨r, hr, rfl⟩ | h); exact Or.inl ⟨r, hr, rfl⟩; exact Or.inr h

theorem V_mono (h : IsoRes G G' acc) : ∀ A, A ∈ G.V → A ∈ G'.V := by
  intro A hA; rw [h.hV]; exact (h.hok.hV A).mpr (Or.inl hA)

theorem val_mem (h : IsoRes G G' acc) {p : String × String} (hp : p ∈ acc.repl) :
    p.2 ∈ G'.V ∧ p.2 ∉ G.V := by
  have : p.2 ∈ acc.repl.map (·.2) := List.mem_map.mpr ⟨p, hp, rfl⟩
  exact ⟨by rw [h.hV]; exact (h.hok.hV _).mpr (Or.inr this), h.hok.hnew _ this⟩

/-- a substituted symbol is the old symbol or a new variable of the table -/
theorem substT_cases (m : List (String × String)) (x : Sym) :
    substT m x = x ∨ ∃ a A, x = .t a ∧ (a, A) ∈ m ∧ substT m x = .v A := by
  cases x with
  | v A => exact Or.inl rfl
  | t a =>
    cases hl : m.lookup a with
    | none => left; simp [substT, hl]
    | some A => right; exact ⟨a, A, rfl, mem_of_lookup hl, by simp [substT, hl]⟩

theorem valid' (h : IsoRes G G' acc) (hv : G.valid = true) : G'.valid = true := by
  rw [valid_iff] at hv ⊢
  intro r' hr'
  rcases h.mem_R.mp hr' with ⟨r, hr, rfl⟩ | he
  · rw [isoRule_lhs]
    refine ⟨h.V_mono _ (hv r hr).1, ?_⟩
    rcases isoRule_cases acc.repl r with ⟨_, he⟩ | ⟨_, he⟩
    · rw [he]
      intro x' hx'
      obtain ⟨x, hx, rfl⟩ := List.mem_map.mp hx'
      rcases substT_cases acc.repl x with he | ⟨a, A, _, hm, he⟩
      · rw [he]; exact ((hv r hr).2 x hx).mono h.V_mono h.hSigma
      · rw [he]; exact (h.val_mem hm).1
    · rw [he]
      intro x hx
      exact ((hv r hr).2 x hx).mono h.V_mono h.hSigma
  · obtain ⟨p, hp, h1, h2⟩ := mem_extraRules he
    rw [h1, h2]
    refine ⟨(h.val_mem hp).1, ?_⟩
    intro x hx
    rw [List.mem_singleton.mp hx]
    show p.1 ∈ G'.Sigma
    rw [h.hSigma]; exact h.hok.hterm p hp

theorem cnfShaped' (h : IsoRes G G' acc) (h2 : RhsLe2 G) (hn : NoUnit G) : AllCnfShaped G' := by
  intro r' hr'
  rcases h.mem_R.mp hr' with ⟨r, hr, rfl⟩ | he
  · rcases isoRule_cases acc.repl r with ⟨hl, he⟩ | ⟨hl, he⟩
    · rw [he]
      have hcov := h.hcov r hr hl
      have hvars := map_substT_vars hcov
      have hlen := h2 r hr
      generalize r.rhs = rhs at hl hlen hvars
      match rhs, hl, hlen with
      | [x, y], _, _ =>
        obtain ⟨A, hA⟩ := hvars (substT acc.repl x) (by simp)
        obtain ⟨B, hB⟩ := hvars (substT acc.repl y) (by simp)
        simp only [List.map_cons, List.map_nil, hA, hB, altIsChomsky]
    · rw [he]
      have hu := hn r hr
      unfold isUnit at hu
      generalize r.rhs = rhs at hl hu
      match rhs, hl with
      | [], _ => rfl
      | [.t a], _ => rfl
      | [.v A], _ => simp at hu
  · obtain ⟨p, _, _, h2⟩ := mem_extraRules he
    rw [h2]; rfl

theorem noEps' (h : IsoRes G G' acc) (hn : NoEpsExceptStart G) : NoEpsExceptStart G' := by
  intro r' hr' hnil
  rw [h.hS]
  rcases h.mem_R.mp hr' with ⟨r, hr, rfl⟩ | he
  · rcases isoRule_cases acc.repl r with ⟨hl, he⟩ | ⟨_, he⟩
    · rw [he] at hnil
      have := congrArg List.length hnil
      simp only [List.length_map, List.length_nil] at this
      omega
    · rw [he] at hnil ⊢; exact hn r hr hnil
  · obtain ⟨p, _, _, h2⟩ := mem_extraRules he
    rw [h2] at hnil; cases hnil

theorem startNotOnRhs' (h : IsoRes G G' acc) (hSV : G.S ∈ G.V) (hn : StartNotOnRhs G) :
    StartNotOnRhs G' := by
  intro r' hr' hmem
  rw [h.hS] at hmem
  rcases h.mem_R.mp hr' with ⟨r, hr, rfl⟩ | he
  · rcases isoRule_cases acc.repl r with ⟨_, he⟩ | ⟨_, he⟩
    · rw [he] at hmem
      obtain ⟨x, hx, hxe⟩ := List.mem_map.mp hmem
      rcases substT_cases acc.repl x with he | ⟨a, A, _, hm, he⟩
      · rw [he] at hxe; exact hn r hr (hxe ▸ hx)
      · rw [he] at hxe
        injection hxe with hxe
        exact (h.val_mem hm).2 (hxe ▸ hSV)
    · rw [he] at hmem; exact hn r hr hmem
  · obtain ⟨p, _, _, h2⟩ := mem_extraRules he
    rw [h2] at hmem
    simp at hmem

/-- the expansion table: `A_a ↦ a` -/
def tab (m : List (String × String)) : List (String × List Sym) := m.map (fun p => (p.2, [Sym.t p.1]))

theorem lang' (h : IsoRes G G' acc) (hv : G.valid = true) (hSV : G.S ∈ G.V) :
    ∀ w, G'.Lang w ↔ G.Lang w := by
  rw [valid_iff] at hv
  have hkeys : (tab acc.repl).map (·.1) = acc.repl.map (·.2) := by
    unfold tab; rw [List.map_map]; rfl
  have hexp_mem : ∀ p, p ∈ acc.repl → (tab acc.repl).lookup p.2 = some [Sym.t p.1] := by
    intro p hp
    apply lookup_of_mem (by rw [hkeys]; exact h.hok.hnodup)
    exact List.mem_map.mpr ⟨p, hp, rfl⟩
  have hexp_old : ∀ X, X ∈ G.V → (tab acc.repl).lookup X = none := by
    intro X hX
    rw [lookup_none_iff, hkeys]
    exact fun hm => h.hok.hnew X hm hX
  have hold : ∀ x, SymIn G.V G.Sigma x → OldSym (fun X => (tab acc.repl).lookup X) x := by
    intro x hx
    cases x with
    | t a => trivial
    | v X => exact hexp_old X hx
  have hsig : ∀ x, SymIn G.V G.Sigma x →
      sigma (fun X => (tab acc.repl).lookup X) (substT acc.repl x) = [x] := by
    intro x hx
    rcases substT_cases acc.repl x with he | ⟨a, A, rfl, hm, he⟩
    · rw [he]; exact sigma_old (hold x hx)
    · rw [he]
      simp only [sigma, hexp_mem (a, A) hm, Option.getD_some]
  have hiso : ∀ r, r ∈ G.R → subst (fun X => (tab acc.repl).lookup X) (isoRule acc.repl r).rhs = r.rhs := by
    intro r hr
    rcases isoRule_cases acc.repl r with ⟨_, he⟩ | ⟨_, he⟩
    · rw [he]
      have := (hv r hr).2
      generalize r.rhs = rhs at this
      induction rhs with
      | nil => rfl
      | cons x xs ih =>
        rw [List.map_cons, subst_cons, hsig x (this x (by simp)), ih (fun y hy => this y (List.mem_cons_of_mem _ hy))]
        rfl
    · rw [he]; exact subst_old (fun x hx => hold x ((hv r hr).2 x hx))
  apply lang_of_intro (fun X => (tab acc.repl).lookup X) h.hS
  · exact hexp_old _ hSV
  · rintro A rhs ⟨r', hr', rfl, rfl⟩ hnone
    rcases h.mem_R.mp hr' with ⟨r, hr, rfl⟩ | he
    · rw [hiso r hr, isoRule_lhs]; exact ⟨r, hr, rfl, rfl⟩
    · obtain ⟨p, hp, h1, _⟩ := mem_extraRules he
      rw [h1, hexp_mem p hp] at hnone; cases hnone
  · rintro A rhs e ⟨r', hr', rfl, rfl⟩ hsome
    rcases h.mem_R.mp hr' with ⟨r, hr, rfl⟩ | he
    · exfalso
      rw [isoRule_lhs, hexp_old _ (hv r hr).1] at hsome; cases hsome
    · obtain ⟨p, hp, h1, h2⟩ := mem_extraRules he
      rw [h1, hexp_mem p hp] at hsome
      cases hsome
      rw [h2]; rfl
  · rintro A rhs ⟨r, hr, rfl, rfl⟩
    exact ⟨_, ⟨isoRule acc.repl r, h.mem_R.mpr (Or.inl ⟨r, hr, rfl⟩), isoRule_lhs .., rfl⟩, hiso r hr⟩
  · intro X e hX w hg
    have hm := mem_of_lookup hX
    obtain ⟨p, hp, he⟩ := List.mem_map.mp hm
    simp only [Prod.mk.injEq] at he
    obtain ⟨rfl, rfl⟩ := he
    obtain ⟨r, hr, h1, h2⟩ := extraRules_of_mem (start := G.nextAid) hp
    exact gen_v_iff.mpr ⟨_, ⟨r, h.mem_R.mpr (Or.inr hr), h1, h2⟩, hg⟩

end IsoRes

/-! ### helpers for concrete examples -/

/-- evaluate `upperAscii` on a literal (`String.map` does not reduce in the kernel) -/
theorem upperAscii_eq {s t : String} (h : s.toList.map Char.toUpper = t.toList) : upperAscii s = t := by
  apply String.ext_iff.mpr
  rw [upperAscii, String.toList_map]; exact h

/-- a decidable form of `AliasOK` -/
def aliasOKb (G : CFG) : Bool :=
  G.R.all fun r => G.R.all fun s => decide (r.aid = s.aid → r.rhs = s.rhs)

theorem aliasOK_of_b {G : CFG} (h : aliasOKb G = true) : AliasOK G := by
  intro r s hr hs
  simp only [aliasOKb, List.all_eq_true, decide_eq_true_eq] at h
  exact h r hr s hs

instance (G : CFG) : Decidable (RhsLe2 G) := by unfold RhsLe2; exact inferInstance
instance (G : CFG) : Decidable (NoUnit G) := by unfold NoUnit; exact inferInstance
instance (G : CFG) : Decidable (NoEpsExceptStart G) := by unfold NoEpsExceptStart; exact inferInstance
instance (G : CFG) : Decidable (StartNotOnRhs G) := by unfold StartNotOnRhs; exact inferInstance
instance (G : CFG) : Decidable (AllCnfShaped G) := by unfold AllCnfShaped; exact inferInstance

end C08c
end CFG
end Gamba
