/-
  Gamba.Proofs.C13h — helper lemmas for C13h: the word list printed by the notebook generator's `generate` command
  (`CheckAll.renderWords`) is read back by `parse_word_list` (`CheckText.parseWordList`) as the same set of words,
  provided every symbol is one non-blank character and no word is the one-symbol word `ε` or `_`.
-/
import Gamba.Model.CheckAll
import Gamba.Proofs.TextBasic
import Gamba.Proofs.C12e
import Gamba.Proofs.C12h
namespace Gamba
namespace CheckAll
open Text

/-- the side condition under which `parse_word_list (generate …)` gives the words back: every symbol of every word is a
    single character that is not white space (`Text.isSpace`, the predicate of `Text.splitWs`), and no word is the
    one-symbol word `ε` or `_` (both are read back as the empty word) -/
def Renderable (L : CheckCex.Lang) : Prop :=
  ∀ w, w ∈ L →
    (∀ a, a ∈ w → a.toList.length = 1 ∧ ∀ c, c ∈ a.toList → Text.isSpace c = false) ∧ w ≠ ["ε"] ∧ w ≠ ["_"]

instance (L : CheckCex.Lang) : Decidable (Renderable L) := by unfold Renderable; infer_instance

/-- one rendered word -/
def renderWord (w : List String) : String := if w.isEmpty then "ε" else String.join w

theorem renderWords_eq (L : CheckCex.Lang) : renderWords L = String.intercalate " " (L.map renderWord) := rfl

/-- what `parse_word_list` does with one piece -/
def readWord (t : List Char) : List String := if t = ['ε'] ∨ t = ['_'] then [] else t.map String.singleton

end CheckAll

namespace C13h
open Text CheckAll

/-- a symbol that is one non-blank character -/
def SymOk (a : String) : Prop := a.toList.length = 1 ∧ ∀ c, c ∈ a.toList → Text.isSpace c = false

theorem SymOk.singleton {a : String} (h : SymOk a) : ∃ c, a.toList = [c] ∧ Text.isSpace c = false ∧ a = String.singleton c := by
  obtain ⟨h1, h2⟩ := h
  match hl : a.toList, h1 with
  | [c], _ =>
    refine ⟨c, rfl, h2 c (by rw [hl]; simp), ?_⟩
    apply String.toList_injective
    rw [hl, String.toList_singleton]

theorem flatMap_toList {w : List String} (h : ∀ a, a ∈ w → SymOk a) :
    (w.flatMap String.toList).map String.singleton = w ∧ ∀ c, c ∈ w.flatMap String.toList → Text.isSpace c = false := by
  induction w with
  | nil => exact ⟨rfl, by simp⟩
  | cons a w ih =>
    obtain ⟨c, hc, hs, ha⟩ := (h a (by simp)).singleton
    obtain ⟨ih1, ih2⟩ := ih (fun b hb => h b (List.mem_cons_of_mem _ hb))
    rw [List.flatMap_cons, hc]
    refine ⟨?_, ?_⟩
    · simp only [List.singleton_append, List.map_cons, ih1, ← ha]
    · intro d hd
      simp only [List.singleton_append, List.mem_cons] at hd
      rcases hd with rfl | hd
      · exact hs
      · exact ih2 d hd

/-- a rendered word is a token, and is read back as the word -/
theorem renderWord_spec {w : List String} (h : ∀ a, a ∈ w → SymOk a) (h1 : w ≠ ["ε"]) (h2 : w ≠ ["_"]) :
    Token (renderWord w).toList ∧ readWord (renderWord w).toList = w := by
  unfold renderWord
  cases w with
  | nil =>
    refine ⟨⟨by decide, by decide⟩, ?_⟩
    simp [readWord]
  | cons a w =>
    simp only [List.isEmpty_cons, Bool.false_eq_true, ↓reduceIte]
    rw [String.toList_join]
    obtain ⟨hm, hs⟩ := flatMap_toList h
    refine ⟨⟨?_, hs⟩, ?_⟩
    · intro he
      rw [he] at hm
      cases hm
    · unfold readWord
      rw [if_neg, hm]
      rintro (he | he) <;> rw [he] at hm
      · exact h1 hm.symm
      · exact h2 hm.symm

theorem renderable_word {L : CheckCex.Lang} (h : Renderable L) {w : List String} (hw : w ∈ L) :
    Token (renderWord w).toList ∧ readWord (renderWord w).toList = w :=
  renderWord_spec (h w hw).1 (h w hw).2.1 (h w hw).2.2

/-- `generate(...).split()` is the list of rendered words -/
theorem splitWs_renderWords {L : CheckCex.Lang} (h : Renderable L) :
    splitWs (renderWords L).toList = L.map fun w => (renderWord w).toList := by
  rw [renderWords_eq, Text.toList_intercalate, toList_space, splitWs_intercalate, List.map_map]
  · rfl
  · intro t ht
    simp only [List.map_map, List.mem_map, Function.comp] at ht
    obtain ⟨w, hw, rfl⟩ := ht
    exact (renderable_word h hw).1

theorem mem_parseWordList_renderWords {L : CheckCex.Lang} (h : Renderable L) (w : List String) :
    w ∈ CheckText.parseWordList (renderWords L) ↔ w ∈ L := by
  rw [C12e.mem_parseWordList, splitWs_renderWords h]
  constructor
  · rintro ⟨t, ht, rfl⟩
    obtain ⟨v, hv, rfl⟩ := List.mem_map.mp ht
    have := (renderable_word h hv).2
    unfold readWord at this
    rw [this]; exact hv
  · intro hw
    refine ⟨(renderWord w).toList, List.mem_map.mpr ⟨w, hw, rfl⟩, ?_⟩
    have := (renderable_word h hw).2
    unfold readWord at this
    exact this.symm

theorem renderWords_nil : renderWords [] = "" := rfl

theorem parseWordList_renderWords_nil : CheckText.parseWordList (renderWords []) = [] := by
  show CheckText.parseWordList "" = []
  decide

end C13h
end Gamba
