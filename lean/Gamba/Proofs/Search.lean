/-
  Gamba.Proofs.Search — the generic back-pointer path search (`findPath` / `searchLoop` / `searchTargets` /
  `makePath` of Gamba.Model.Simulate) is sound, complete and terminating, for an arbitrary successor function.
  Used by the NFA (C15a) and PDA versions of `*_find_epsilon_path`.
-/
import Gamba.Model.Simulate
import Gamba.Spec.Trace
namespace Gamba

/-! ### `ChainOf` toolbox -/
section Chain
variable {α β : Type}

theorem ChainOf.tail {r : α → α → Prop} {a : α} {l : List α} (h : ChainOf r (a :: l)) : ChainOf r l := by
  cases h with
  | single => exact ChainOf.nil
  | cons _ h => exact h

theorem ChainOf.rel {r : α → α → Prop} {a b : α} {l : List α} (h : ChainOf r (a :: b :: l)) : r a b := by
  cases h with
  | cons h _ => exact h

/-- glueing two chains: the last element of the first must be related to the first element of the second -/
theorem ChainOf.append {r : α → α → Prop} {l1 l2 : List α} (h1 : ChainOf r l1) (h2 : ChainOf r l2)
    (h : ∀ a b, l1.getLast? = some a → l2.head? = some b → r a b) : ChainOf r (l1 ++ l2) := by
  induction l1 with
  | nil => exact h2
  | cons x l1 ih =>
    cases l1 with
    | nil =>
      cases l2 with
      | nil => exact h1
      | cons y l2 => exact ChainOf.cons (h x y rfl rfl) h2
    | cons x' l1 =>
      refine ChainOf.cons h1.rel (ih h1.tail ?_)
      intro a b ha hb
      exact h a b (by rw [List.getLast?_cons_cons]; exact ha) hb

theorem ChainOf.map {r : α → α → Prop} {r' : β → β → Prop} (g : α → β) {l : List α} (h : ChainOf r l)
    (hg : ∀ a b, r a b → r' (g a) (g b)) : ChainOf r' (l.map g) := by
  induction h with
  | nil => exact ChainOf.nil
  | single a => exact ChainOf.single _
  | cons hr _ ih => exact ChainOf.cons (hg _ _ hr) ih

theorem ChainOf.of_append_left {r : α → α → Prop} {l1 l2 : List α} (h : ChainOf r (l1 ++ l2)) : ChainOf r l1 := by
  induction l1 with
  | nil => exact ChainOf.nil
  | cons x l1 ih =>
    cases l1 with
    | nil => exact ChainOf.single x
    | cons y l1 => exact ChainOf.cons h.rel (ih h.tail)

theorem ChainOf.of_append_right {r : α → α → Prop} {l1 l2 : List α} (h : ChainOf r (l1 ++ l2)) : ChainOf r l2 := by
  induction l1 with
  | nil => exact h
  | cons x l1 ih => exact ih h.tail

/-- the two elements around a cut of a chain are related -/
theorem ChainOf.rel_mid {r : α → α → Prop} {l1 l2 : List α} {a b : α} (h : ChainOf r (l1 ++ a :: b :: l2)) : r a b :=
  (ChainOf.of_append_right h).rel

end Chain

section Search
variable {α : Type} [DecidableEq α]

/-- reachable from a member of `R` by `succ`-steps -/
inductive Reach (succ : α → List α) (R : List α) : α → Prop
  | base {x : α} : x ∈ R → Reach succ R x
  | step {x y : α} : Reach succ R x → y ∈ succ x → Reach succ R y

/-- what a path is: starts in `R`, consecutive elements are successors, ends in `f` -/
def IsPath (succ : α → List α) (R : List α) (f : α) (p : List α) : Prop :=
  (∃ r, p.head? = some r ∧ r ∈ R) ∧ ChainOf (fun x y => y ∈ succ x) p ∧ p.getLast? = some f

omit [DecidableEq α] in
/-- a path witnesses reachability of each of its elements -/
theorem IsPath.reach {succ : α → List α} {R : List α} {f : α} {p : List α} (h : IsPath succ R f p) :
    ∀ x, x ∈ p → Reach succ R x := by
  obtain ⟨⟨r, hr, hrR⟩, hc, _⟩ := h
  cases p with
  | nil => intro x hx; cases hx
  | cons a p =>
    simp only [List.head?_cons, Option.some.injEq] at hr
    subst hr
    have key : ∀ (p : List α) (a : α), Reach succ R a → ChainOf (fun x y => y ∈ succ x) (a :: p) →
        ∀ x, x ∈ a :: p → Reach succ R x := by
      intro p
      induction p with
      | nil =>
        intro a ha _ x hx
        rw [List.mem_singleton] at hx
        subst hx; exact ha
      | cons b p ih =>
        intro a ha hc x hx
        rcases List.mem_cons.mp hx with rfl | hx
        · exact ha
        · exact ih b (Reach.step ha hc.rel) hc.tail x hx
    exact key p a (Reach.base hrR) hc

/-- the back-pointer table is well-founded: every entry `(q, p)` was appended when `q` was new and `p` old -/
inductive BPWF (succ : α → List α) (R : List α) : Dict α α → Prop
  | nil : BPWF succ R []
  | snoc {bp : Dict α α} {q p : α} : BPWF succ R bp → q ∉ R → q ∉ bp.map (·.1) →
      (p ∈ R ∨ p ∈ bp.map (·.1)) → q ∈ succ p → BPWF succ R (bp ++ [(q, p)])

theorem lookup_eq_none_of_not_key {bp : Dict α α} {q : α} (h : q ∉ bp.map (·.1)) : bp.lookup q = none := by
  induction bp with
  | nil => rfl
  | cons e bp ih =>
    obtain ⟨k, v⟩ := e
    simp only [List.map_cons, List.mem_cons, not_or] at h
    rw [List.lookup_cons]
    have : (q == k) = false := by
      rw [beq_eq_false_iff_ne]; exact h.1
    rw [this]
    exact ih h.2

/-- extending the table at the end does not change a successful `makePath` -/
theorem makePath_append_ok (R : List α) (bp : Dict α α) (e : α × α) :
    ∀ (fuel : Nat) (q : α) (path res : List α), makePath R bp fuel q path = .ok res →
      makePath R (bp ++ [e]) fuel q path = .ok res := by
  intro fuel
  induction fuel with
  | zero => intro q path res h; simp [makePath] at h
  | succ n ih =>
    intro q path res h
    simp only [makePath] at h ⊢
    by_cases hq : q ∈ R
    · simp only [hq, if_true] at h ⊢; exact h
    · simp only [hq, if_false] at h ⊢
      cases hl : bp.lookup q with
      | none => rw [hl] at h; cases h
      | some p =>
        rw [hl] at h
        have : (bp ++ [e]).lookup q = some p := by
          rw [List.lookup_append, hl]; rfl
        rw [this]
        exact ih p (q :: path) res h

theorem makePath_spec {succ : α → List α} {R : List α} {bp : Dict α α} (h : BPWF succ R bp) :
    ∀ q, (q ∈ R ∨ q ∈ bp.map (·.1)) → ∀ fuel, bp.length + 1 ≤ fuel → ∀ path,
      ∃ pre, makePath R bp fuel q path = .ok (pre ++ q :: path) ∧
        (∃ r, (pre ++ [q]).head? = some r ∧ r ∈ R) ∧ ChainOf (fun x y => y ∈ succ x) (pre ++ [q]) := by
  induction h with
  | nil =>
    intro q hq fuel hfuel path
    rcases hq with hq | hq
    · obtain ⟨n, rfl⟩ : ∃ n, fuel = n + 1 := ⟨fuel - 1, by omega⟩
      exact ⟨[], by simp [makePath, hq], ⟨q, rfl, hq⟩, ChainOf.single q⟩
    · simp at hq
  | @snoc bp q0 p0 hwf hqR hqk hp hsucc ih =>
    intro q hq fuel hfuel path
    rw [List.length_append, List.length_singleton] at hfuel
    obtain ⟨n, rfl⟩ : ∃ n, fuel = n + 1 := ⟨fuel - 1, by omega⟩
    by_cases hR : q ∈ R
    · exact ⟨[], by simp [makePath, hR], ⟨q, rfl, hR⟩, ChainOf.single q⟩
    · have hq' : q ∈ bp.map (·.1) ∨ q = q0 := by
        rcases hq with hq | hq
        · exact absurd hq hR
        · simpa using hq
      rcases hq' with hq' | rfl
      · obtain ⟨pre, hm, hgood⟩ := ih q (Or.inr hq') (n + 1) (by omega) path
        exact ⟨pre, makePath_append_ok R bp _ _ _ _ _ hm, hgood⟩
      · obtain ⟨pre, hm, ⟨r, hr, hrR⟩, hc⟩ := ih p0 hp n (by omega) (q :: path)
        refine ⟨pre ++ [p0], ?_, ⟨r, ?_, hrR⟩, ?_⟩
        · have hl : (bp ++ [(q, p0)]).lookup q = some p0 := by
            rw [List.lookup_append, lookup_eq_none_of_not_key hqk]
            simp [List.lookup]
          simp only [makePath, hR, if_false, hl]
          rw [makePath_append_ok R bp _ _ _ _ _ hm]
          simp
        · rw [List.append_assoc, List.head?_append]
          rw [List.head?_append] at hr
          cases hpre : pre.head? with
          | none => rw [hpre] at hr; simpa using hr
          | some x => rw [hpre] at hr; simpa using hr
        · refine ChainOf.append hc (ChainOf.single q) ?_
          intro a b ha hb
          simp only [List.getLast?_append, List.getLast?_singleton, Option.some_or, Option.some.injEq] at ha
          simp only [List.head?_cons, Option.some.injEq] at hb
          subst ha hb
          exact hsucc

omit [DecidableEq α] in
theorem BPWF.reach {succ : α → List α} {R : List α} {bp : Dict α α} (h : BPWF succ R bp) :
    ∀ x, x ∈ bp.map (·.1) → Reach succ R x := by
  induction h with
  | nil => intro x hx; simp at hx
  | @snoc bp q p _ _ _ hp hs ih =>
    intro x hx
    simp only [List.map_append, List.map_cons, List.map_nil, List.mem_append, List.mem_singleton] at hx
    rcases hx with hx | rfl
    · exact ih x hx
    · rcases hp with hp | hp
      · exact Reach.step (Reach.base hp) hs
      · exact Reach.step (ih p hp) hs

/-- the part of the loop invariant that `searchTargets` maintains on its own -/
structure SearchInv (succ : α → List α) (R : List α) (st : SearchState α) : Prop where
  nodup : st.visited.Nodup
  vis_iff : ∀ x, x ∈ st.visited ↔ x ∈ R ∨ x ∈ st.bp.map (·.1)
  todo_sub : ∀ x, x ∈ st.todo → x ∈ st.visited
  wf : BPWF succ R st.bp

omit [DecidableEq α] in
theorem SearchInv.reach {succ : α → List α} {R : List α} {st : SearchState α} (h : SearchInv succ R st) :
    ∀ x, x ∈ st.visited → Reach succ R x := by
  intro x hx
  rcases (h.vis_iff x).mp hx with hx | hx
  · exact Reach.base hx
  · exact h.wf.reach x hx

theorem searchTargets_spec (succ : α → List α) (R : List α) (f src : α) :
    ∀ (qs : List α) (st : SearchState α), (∀ q, q ∈ qs → q ∈ succ src) → src ∈ st.visited →
      SearchInv succ R st → f ∉ st.visited →
      SearchInv succ R (searchTargets f src qs st).1 ∧
      (∀ x, x ∈ st.visited → x ∈ (searchTargets f src qs st).1.visited) ∧
      (∀ x, x ∈ st.todo → x ∈ (searchTargets f src qs st).1.todo) ∧
      (∀ x, x ∈ (searchTargets f src qs st).1.visited → x ∈ st.visited ∨ x ∈ (searchTargets f src qs st).1.todo) ∧
      (∃ k, (searchTargets f src qs st).1.todo.length = st.todo.length + k ∧
            (searchTargets f src qs st).1.visited.length = st.visited.length + k) ∧
      ((searchTargets f src qs st).2 = false →
          f ∉ (searchTargets f src qs st).1.visited ∧ ∀ q, q ∈ qs → q ∈ (searchTargets f src qs st).1.visited) ∧
      ((searchTargets f src qs st).2 = true → f ∈ (searchTargets f src qs st).1.visited) := by
  intro qs
  induction qs with
  | nil =>
    intro st _ _ hinv hf
    simp only [searchTargets]
    exact ⟨hinv, fun x hx => hx, fun x hx => hx, fun x hx => Or.inl hx, ⟨0, rfl, rfl⟩,
      fun _ => ⟨hf, fun q hq => by cases hq⟩, fun h => by cases h⟩
  | cons q qs ih =>
    intro st hqs hsrc hinv hf
    have hqs' : ∀ q', q' ∈ qs → q' ∈ succ src := fun q' hq' => hqs q' (List.mem_cons_of_mem _ hq')
    by_cases hqv : q ∈ st.visited
    · have heq : searchTargets f src (q :: qs) st = searchTargets f src qs st := by
        simp only [searchTargets, hqv, if_true]
      rw [heq]
      obtain ⟨h1, h2, h3, h4, h5, h6, h7⟩ := ih st hqs' hsrc hinv hf
      refine ⟨h1, h2, h3, h4, h5, ?_, h7⟩
      intro hfalse
      obtain ⟨h6a, h6b⟩ := h6 hfalse
      refine ⟨h6a, ?_⟩
      intro q' hq'
      rcases List.mem_cons.mp hq' with rfl | hq'
      · exact h2 _ hqv
      · exact h6b q' hq'
    · -- `q` is new
      let st' : SearchState α :=
        { visited := st.visited ++ [q], todo := st.todo ++ [q], bp := st.bp ++ [(q, src)] }
      have hqR : q ∉ R := fun h => hqv ((hinv.vis_iff q).mpr (Or.inl h))
      have hqk : q ∉ st.bp.map (·.1) := fun h => hqv ((hinv.vis_iff q).mpr (Or.inr h))
      have hinv' : SearchInv succ R st' := by
        refine ⟨?_, ?_, ?_, ?_⟩
        · show (st.visited ++ [q]).Nodup
          rw [List.nodup_append]
          refine ⟨hinv.nodup, by simp, ?_⟩
          intro a ha b hb
          rw [List.mem_singleton] at hb
          subst hb
          intro hab; subst hab; exact hqv ha
        · intro x
          show x ∈ st.visited ++ [q] ↔ x ∈ R ∨ x ∈ (st.bp ++ [(q, src)]).map (·.1)
          simp only [List.mem_append, List.mem_singleton, List.map_append, List.map_cons, List.map_nil,
            hinv.vis_iff x]
          constructor
          · rintro ((h | h) | h)
            · exact Or.inl h
            · exact Or.inr (Or.inl h)
            · exact Or.inr (Or.inr h)
          · rintro (h | h | h)
            · exact Or.inl (Or.inl h)
            · exact Or.inl (Or.inr h)
            · exact Or.inr h
        · intro x hx
          show x ∈ st.visited ++ [q]
          have hx' : x ∈ st.todo ++ [q] := hx
          rw [List.mem_append] at hx' ⊢
          rcases hx' with hx' | hx'
          · exact Or.inl (hinv.todo_sub x hx')
          · exact Or.inr hx'
        · exact BPWF.snoc hinv.wf hqR hqk ((hinv.vis_iff src).mp hsrc) (hqs q (List.mem_cons_self ..))
      by_cases hqf : q = f
      · have heq : searchTargets f src (q :: qs) st = (st', true) := by
          simp only [searchTargets, hqv, if_false]
          rw [if_pos hqf]
        rw [heq]
        refine ⟨hinv', ?_, ?_, ?_, ⟨1, ?_, ?_⟩, ?_, ?_⟩
        · intro x hx; exact List.mem_append_left _ hx
        · intro x hx; exact List.mem_append_left _ hx
        · intro x hx
          have hx' : x ∈ st.visited ++ [q] := hx
          rw [List.mem_append] at hx'
          rcases hx' with hx' | hx'
          · exact Or.inl hx'
          · exact Or.inr (List.mem_append_right _ hx')
        · show (st.todo ++ [q]).length = _; simp
        · show (st.visited ++ [q]).length = _; simp
        · intro h; cases h
        · intro _
          show f ∈ st.visited ++ [q]
          rw [hqf]; simp
      · have heq : searchTargets f src (q :: qs) st = searchTargets f src qs st' := by
          simp only [searchTargets, hqv, if_false]
          rw [if_neg hqf]
        rw [heq]
        have hf' : f ∉ st'.visited := by
          show f ∉ st.visited ++ [q]
          rw [List.mem_append, List.mem_singleton]
          rintro (h | h)
          · exact hf h
          · exact hqf h.symm
        have hsrc' : src ∈ st'.visited := List.mem_append_left _ hsrc
        obtain ⟨h1, h2, h3, h4, ⟨k, h5a, h5b⟩, h6, h7⟩ := ih st' hqs' hsrc' hinv' hf'
        refine ⟨h1, ?_, ?_, ?_, ⟨k + 1, ?_, ?_⟩, ?_, h7⟩
        · intro x hx; exact h2 x (List.mem_append_left _ hx)
        · intro x hx; exact h3 x (List.mem_append_left _ hx)
        · intro x hx
          rcases h4 x hx with hx' | hx'
          · have hx'' : x ∈ st.visited ++ [q] := hx'
            rw [List.mem_append] at hx''
            rcases hx'' with hx'' | hx''
            · exact Or.inl hx''
            · exact Or.inr (h3 x (List.mem_append_right _ hx''))
          · exact Or.inr hx'
        · rw [h5a]; show (st.todo ++ [q]).length + k = _; simp; omega
        · rw [h5b]; show (st.visited ++ [q]).length + k = _; simp; omega
        · intro hfalse
          obtain ⟨h6a, h6b⟩ := h6 hfalse
          refine ⟨h6a, ?_⟩
          intro q' hq'
          rcases List.mem_cons.mp hq' with rfl | hq'
          · exact h2 _ (List.mem_append_right _ (List.mem_singleton.mpr rfl))
          · exact h6b q' hq'

omit [DecidableEq α] in
/-- popping from `todo` keeps the core invariant -/
theorem SearchInv.pop {succ : α → List α} {R : List α} {st : SearchState α} (h : SearchInv succ R st)
    {i : Nat} {src : α} {rest : List α} (hp : pickAt st.todo i = some (src, rest)) :
    SearchInv succ R { st with todo := rest } :=
  ⟨h.nodup, h.vis_iff, fun x hx => h.todo_sub x ((pickAt_mem_iff hp x).mpr (Or.inr hx)), h.wf⟩

theorem pickAt_eq_none_iff {β : Type} {l : List β} {i : Nat} : pickAt l i = none ↔ l = [] := by
  cases l with
  | nil => simp [pickAt]
  | cons x l => simp [pickAt]

/-- a path returned by the loop is genuine -/
theorem searchLoop_sound (succ : α → List α) (R : List α) (f : α) :
    ∀ (fuel : Nat) (s : Sched) (st : SearchState α), SearchInv succ R st → f ∉ st.visited →
      ∀ p, searchLoop succ R f fuel s st = .ok (some p) → IsPath succ R f p := by
  intro fuel
  induction fuel with
  | zero =>
    intro s st _ _ p h
    simp only [searchLoop] at h
    split at h <;> cases h
  | succ n ih =>
    intro s st hinv hf p h
    simp only [searchLoop] at h
    cases hp : pickAt st.todo s.next.1 with
    | none => rw [hp] at h; cases h
    | some sr =>
      obtain ⟨src, rest⟩ := sr
      rw [hp] at h
      simp only at h
      have hsrc : src ∈ st.visited := hinv.todo_sub _ (pickAt_mem hp)
      obtain ⟨h1, _, _, _, _, h6, h7⟩ := searchTargets_spec succ R f src (succ src) { st with todo := rest }
        (fun q hq => hq) hsrc (hinv.pop hp) hf
      cases hfound : (searchTargets f src (succ src) { st with todo := rest }).2 with
      | false =>
        rw [hfound] at h
        simp only [Bool.false_eq_true, if_false] at h
        exact ih _ _ h1 (h6 hfound).1 p h
      | true =>
        rw [hfound] at h
        simp only [if_true] at h
        have hfv := h7 hfound
        have hfk : f ∈ R ∨ f ∈ (searchTargets f src (succ src) { st with todo := rest }).1.bp.map (·.1) :=
          (h1.vis_iff f).mp hfv
        obtain ⟨pre, hm, hhead, hchain⟩ := makePath_spec h1.wf f hfk _ (Nat.le_refl _) []
        rw [hm] at h
        have : p = pre ++ [f] := by
          cases h; rfl
        subst this
        exact ⟨hhead, hchain, by simp⟩

/-- `none` means the search space was exhausted without meeting `f` -/
theorem searchLoop_none (succ : α → List α) (R : List α) (f : α) :
    ∀ (fuel : Nat) (s : Sched) (st : SearchState α), SearchInv succ R st → f ∉ st.visited →
      (∀ x, x ∈ st.visited → x ∉ st.todo → ∀ y, y ∈ succ x → y ∈ st.visited) →
      searchLoop succ R f fuel s st = .ok none → ¬ Reach succ R f := by
  have final : ∀ st : SearchState α, SearchInv succ R st → f ∉ st.visited →
      (∀ x, x ∈ st.visited → x ∉ st.todo → ∀ y, y ∈ succ x → y ∈ st.visited) → st.todo = [] →
      ¬ Reach succ R f := by
    intro st hinv hf hcl hempty hreach
    have : ∀ x, Reach succ R x → x ∈ st.visited := by
      intro x hx
      induction hx with
      | base hx => exact (hinv.vis_iff _).mpr (Or.inl hx)
      | step _ hs ih => exact hcl _ ih (by rw [hempty]; simp) _ hs
    exact hf (this f hreach)
  intro fuel
  induction fuel with
  | zero =>
    intro s st hinv hf hcl h
    simp only [searchLoop] at h
    split at h
    · rename_i he
      exact final st hinv hf hcl (List.isEmpty_iff.mp he)
    · cases h
  | succ n ih =>
    intro s st hinv hf hcl h
    simp only [searchLoop] at h
    cases hp : pickAt st.todo s.next.1 with
    | none => exact final st hinv hf hcl (pickAt_eq_none_iff.mp hp)
    | some sr =>
      obtain ⟨src, rest⟩ := sr
      rw [hp] at h
      simp only at h
      have hsrc : src ∈ st.visited := hinv.todo_sub _ (pickAt_mem hp)
      obtain ⟨h1, h2, h3, h4, _, h6, h7⟩ := searchTargets_spec succ R f src (succ src) { st with todo := rest }
        (fun q hq => hq) hsrc (hinv.pop hp) hf
      cases hfound : (searchTargets f src (succ src) { st with todo := rest }).2 with
      | false =>
        rw [hfound] at h
        simp only [Bool.false_eq_true, if_false] at h
        obtain ⟨h6a, h6b⟩ := h6 hfound
        refine ih _ _ h1 h6a ?_ h
        intro x hx hxt y hy
        rcases h4 x hx with hx' | hx'
        · by_cases hxs : x = src
          · subst hxs; exact h6b y hy
          · have hxt' : x ∉ st.todo := by
              intro hmem
              rcases (pickAt_mem_iff hp x).mp hmem with h' | h'
              · exact hxs h'
              · exact hxt (h3 x h')
            exact h2 y (hcl x hx' hxt' y hy)
        · exact absurd hx' hxt
      | true =>
        rw [hfound] at h
        simp only [if_true] at h
        cases hm : makePath R (searchTargets f src (succ src) { st with todo := rest }).1.bp
            ((searchTargets f src (succ src) { st with todo := rest }).1.bp.length + 1) f [] with
        | error e => rw [hm] at h; cases h
        | ok v => rw [hm] at h; cases h

/-- termination: the potential `|todo| + |U ∖ visited|` decreases with every pop -/
theorem searchLoop_total (succ : α → List α) (R : List α) (f : α) (U : List α)
    (hU : ∀ x, Reach succ R x → x ∈ U) :
    ∀ (fuel : Nat) (s : Sched) (st : SearchState α), SearchInv succ R st → f ∉ st.visited →
      st.todo.length + (U.length - st.visited.length) ≤ fuel →
      ∃ r, searchLoop succ R f fuel s st = .ok r := by
  have hlen : ∀ st : SearchState α, SearchInv succ R st → st.visited.length ≤ U.length := by
    intro st hinv
    exact List.Nodup.length_le_of_subset hinv.nodup (fun x hx => hU x (hinv.reach x hx))
  intro fuel
  induction fuel with
  | zero =>
    intro s st hinv hf hfuel
    have : st.todo = [] := List.eq_nil_of_length_eq_zero (by omega)
    refine ⟨none, ?_⟩
    simp [searchLoop, this]
  | succ n ih =>
    intro s st hinv hf hfuel
    simp only [searchLoop]
    cases hp : pickAt st.todo s.next.1 with
    | none => exact ⟨none, rfl⟩
    | some sr =>
      obtain ⟨src, rest⟩ := sr
      simp only
      have hsrc : src ∈ st.visited := hinv.todo_sub _ (pickAt_mem hp)
      obtain ⟨h1, _, _, _, ⟨k, h5a, h5b⟩, h6, h7⟩ := searchTargets_spec succ R f src (succ src)
        { st with todo := rest } (fun q hq => hq) hsrc (hinv.pop hp) hf
      cases hfound : (searchTargets f src (succ src) { st with todo := rest }).2 with
      | false =>
        simp only [Bool.false_eq_true, if_false]
        refine ih _ _ h1 (h6 hfound).1 ?_
        have hl1 := hlen _ h1
        have hl0 := hlen _ hinv
        have hpl := pickAt_length hp
        simp only at h5a h5b
        omega
      | true =>
        simp only [if_true]
        have hfk := (h1.vis_iff f).mp (h7 hfound)
        obtain ⟨pre, hm, _, _⟩ := makePath_spec h1.wf f hfk _ (Nat.le_refl _) []
        rw [hm]
        exact ⟨some (pre ++ [f]), rfl⟩

theorem searchInv_init (succ : α → List α) (R : List α) :
    SearchInv succ R { visited := dedup R, todo := dedup R, bp := [] } :=
  ⟨nodup_dedup R, fun x => by simp, fun x hx => hx, BPWF.nil⟩

/-- any returned path is a genuine path: starts in R, consecutive elements are successors, ends in f -/
theorem findPath_sound (succ : α → List α) (fuel : Nat) (s : Sched) (R : List α) (f : α) (p : List α)
    (h : findPath succ fuel s R f = .ok (some p)) :
    (∃ r, p.head? = some r ∧ r ∈ R) ∧ ChainOf (fun x y => y ∈ succ x) p ∧ p.getLast? = some f := by
  unfold findPath at h
  by_cases hf : f ∈ R
  · simp only [hf, if_true] at h
    cases h
    exact ⟨⟨f, rfl, hf⟩, ChainOf.single f, rfl⟩
  · simp only [hf, if_false] at h
    exact searchLoop_sound succ R f fuel s _ (searchInv_init succ R) (by simpa using hf) p h

/-- `none` only if f is not reachable -/
theorem findPath_none (succ : α → List α) (fuel : Nat) (s : Sched) (R : List α) (f : α)
    (h : findPath succ fuel s R f = .ok none) : ¬ Reach succ R f := by
  unfold findPath at h
  by_cases hf : f ∈ R
  · simp only [hf, if_true] at h
    cases h
  · simp only [hf, if_false] at h
    exact searchLoop_none succ R f fuel s _ (searchInv_init succ R) (by simpa using hf)
      (fun x hx hxt => absurd hx hxt) h

/-- termination: if every state reachable from R lies in a list U (finite universe), fuel ≥ U.length + 1
    suffices: the search never yields `.error` (neither out of fuel nor a missing back-pointer) -/
theorem findPath_total (succ : α → List α) (s : Sched) (R : List α) (f : α) (U : List α)
    (hU : ∀ x, Reach succ R x → x ∈ U) (fuel : Nat) (hf : U.length + 1 ≤ fuel) :
    ∃ r, findPath succ fuel s R f = .ok r := by
  unfold findPath
  by_cases hfR : f ∈ R
  · simp only [hfR, if_true]
    exact ⟨_, rfl⟩
  · simp only [hfR, if_false]
    apply searchLoop_total succ R f U hU fuel s _ (searchInv_init succ R) (by simpa using hfR)
    have : (dedup R).length ≤ U.length :=
      List.Nodup.length_le_of_subset (nodup_dedup R) (fun x hx => hU x (Reach.base (mem_dedup.mp hx)))
    simp only
    omega

/-- combined: with enough fuel the result is `some` genuine path exactly when `f` is reachable -/
theorem findPath_complete (succ : α → List α) (s : Sched) (R : List α) (f : α) (U : List α)
    (hU : ∀ x, Reach succ R x → x ∈ U) (fuel : Nat) (hf : U.length + 1 ≤ fuel) (hr : Reach succ R f) :
    ∃ p, findPath succ fuel s R f = .ok (some p) ∧ IsPath succ R f p := by
  obtain ⟨r, hr'⟩ := findPath_total succ s R f U hU fuel hf
  cases r with
  | none => exact absurd hr (findPath_none succ fuel s R f hr')
  | some p => exact ⟨p, hr', findPath_sound succ fuel s R f p hr'⟩

end Search
end Gamba
