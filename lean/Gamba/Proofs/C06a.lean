/-
  Gamba.Proofs.C06a — `regexp_to_nfa` (Thompson composition with generated names q0, q1, … and the
  generator's shared alphabet accumulator) yields a valid NFA for the denoted language.
-/
import Gamba.Model.NFA
import Gamba.Model.GNFA
import Gamba.Spec.Automata
import Gamba.Spec.Regexp
import Gamba.Proofs.NFABasic
import Gamba.Proofs.C05
import Gamba.Proofs.C14a
import Gamba.Proofs.C18
namespace Gamba

/-- symbols of the expression are not the ε symbol (the empty string) -/
def Regexp.NoEps : Regexp String → Prop
  | .zero | .one => True
  | .sym a => a ≠ ""
  | .star r => Regexp.NoEps r
  | .sum r s | .cat r s => Regexp.NoEps r ∧ Regexp.NoEps s

instance Regexp.NoEps.decidable : (r : Regexp String) → Decidable r.NoEps
  | .zero => isTrue trivial
  | .one => isTrue trivial
  | .sym a => inferInstanceAs (Decidable (a ≠ ""))
  | .star r => Regexp.NoEps.decidable r
  | .sum r s => @instDecidableAnd _ _ (Regexp.NoEps.decidable r) (Regexp.NoEps.decidable s)
  | .cat r s => @instDecidableAnd _ _ (Regexp.NoEps.decidable r) (Regexp.NoEps.decidable s)

namespace C06a

theorem noEps_symbols {r : Regexp String} (h : r.NoEps) : "" ∉ r.symbols := by
  induction r with
  | zero => simp [Regexp.symbols]
  | one => simp [Regexp.symbols]
  | sym a => simp only [Regexp.symbols, List.mem_singleton]; exact fun e => h e.symm
  | star r ih => exact ih h
  | sum r s ih1 ih2 =>
    simp only [Regexp.symbols, mem_sunion, not_or]; exact ⟨ih1 h.1, ih2 h.2⟩
  | cat r s ih1 ih2 =>
    simp only [Regexp.symbols, mem_sunion, not_or]; exact ⟨ih1 h.1, ih2 h.2⟩

/-! ### names -/

theorem qname_inj {i j : Nat} (h : "q" ++ toString i = "q" ++ toString j) : i = j :=
  nat_toString_injective ((String.append_right_inj "q").mp h)

/-- when no state of `Q` carries an index `≥ c`, the generator returns `q<c>` at once -/
theorem genFresh_eq (Q : List String) (c : Nat)
    (h : ∀ q, q ∈ Q → ∃ i, q = "q" ++ toString i ∧ i < c) :
    genFresh Q c = ("q" ++ toString c, c + 1) := by
  unfold genFresh genFreshAux
  split
  · rename_i hm
    obtain ⟨i, hi, hlt⟩ := h _ hm
    have := qname_inj hi
    omega
  · rfl

/-! ### equations of the generator -/

theorem gen_star {r : Regexp String} {st st1 : GenState} {g : GenNFA} {R : NFA String String}
    (h : regexpGenerate r st = .ok (g, st1))
    (hR : ({ g.N with Sigma := g.eff st1 } : NFA String String).repetition
            (genFresh g.N.Q st1.counter).1 = .ok R) :
    regexpGenerate (.star r) st =
      .ok ({ N := R, shared := g.shared }, { st1 with counter := (genFresh g.N.Q st1.counter).2 }) := by
  simp only [regexpGenerate, h, bind, Except.bind, hR, pure, Except.pure]

theorem gen_sum {r s : Regexp String} {st st1 st2 : GenState} {g1 g2 : GenNFA} {R : NFA String String}
    (h1 : regexpGenerate r st = .ok (g1, st1)) (h2 : regexpGenerate s st1 = .ok (g2, st2))
    (hd : sdisjoint g1.N.Q g2.N.Q = true)
    (hR : ({ g1.N with Sigma := g1.eff st2 } : NFA String String).union { g2.N with Sigma := g2.eff st2 }
            (genFresh (sunion g1.N.Q g2.N.Q) st2.counter).1 = .ok R) :
    regexpGenerate (.sum r s) st =
      .ok ({ N := R, shared := false },
           { st2 with counter := (genFresh (sunion g1.N.Q g2.N.Q) st2.counter).2 }) := by
  simp only [regexpGenerate, h1, h2, bind, Except.bind, hd, hR, pure, Except.pure]
  rfl

theorem gen_cat {r s : Regexp String} {st st1 st2 : GenState} {g1 g2 : GenNFA} {R : NFA String String}
    (h1 : regexpGenerate r st = .ok (g1, st1)) (h2 : regexpGenerate s st1 = .ok (g2, st2))
    (hR : ({ g1.N with Sigma := g1.eff st2 } : NFA String String).concat { g2.N with Sigma := g2.eff st2 }
            = .ok R) :
    regexpGenerate (.cat r s) st = .ok ({ N := R, shared := false }, st2) := by
  simp only [regexpGenerate, h1, h2, bind, Except.bind, hR, pure, Except.pure]

/-! ### the invariant of the generator -/

/-- the operand with its effective alphabet w.r.t. a (later) generator state -/
def effN (g : GenNFA) (st : GenState) : NFA String String := { g.N with Sigma := g.eff st }

structure GenInv (r : Regexp String) (st : GenState) (g : GenNFA) (st' : GenState) : Prop where
  le : st.counter ≤ st'.counter
  names : ∀ q, q ∈ g.N.Q → ∃ i, q = "q" ++ toString i ∧ st.counter ≤ i ∧ i < st'.counter
  sigma : ∀ a, a ∈ st'.Sigma ↔ a ∈ st.Sigma ∨ a ∈ r.symbols
  eps : g.N.eps = ""
  keys : (g.N.delta.map (·.1)).Nodup
  valid : ∀ st'' : GenState, (∀ a, a ∈ st'.Sigma → a ∈ st''.Sigma) → "" ∉ st''.Sigma →
    (effN g st'').valid = true ∧ (∀ a, a ∈ r.symbols → a ∈ g.eff st'') ∧
      (∀ a, a ∈ g.eff st'' → a ∈ st''.Sigma)
  lang : ∀ w, g.N.Accepts w ↔ r.Lang w

theorem effN_accepts (g : GenNFA) (st : GenState) (w : List String) :
    (effN g st).Accepts w ↔ g.N.Accepts w :=
  NFA.Accepts_congr (N := effN g st) (N' := g.N) rfl rfl rfl (fun _ => Iff.rfl) w

/-! ### leaves -/

theorem inv_zero (st : GenState) :
    ∃ g st', regexpGenerate .zero st = .ok (g, st') ∧ GenInv .zero st g st' := by
  refine ⟨_, _, rfl, ?_⟩
  refine ⟨?_, ?_, ?_, rfl, by simp, ?_, ?_⟩
  · simp
  · intro q hq
    simp only [List.mem_singleton] at hq
    exact ⟨st.counter, hq, Nat.le_refl _, by simp⟩
  · intro a; simp [Regexp.symbols]
  · intro st'' _ he
    refine ⟨?_, by simp [Regexp.symbols], fun a ha => ha⟩
    rw [NFA.valid_iff]
    refine ⟨by simp [effN], by simp [effN], he, by simp [effN]⟩
  · intro w
    simp only [Regexp.lang_zero, iff_false]
    rintro ⟨f, hf, _⟩
    cases hf

theorem inv_one (st : GenState) :
    ∃ g st', regexpGenerate .one st = .ok (g, st') ∧ GenInv .one st g st' := by
  refine ⟨_, _, rfl, ?_⟩
  refine ⟨?_, ?_, ?_, rfl, by simp, ?_, ?_⟩
  · simp
  · intro q hq
    simp only [List.mem_singleton] at hq
    exact ⟨st.counter, hq, Nat.le_refl _, by simp⟩
  · intro a; simp [Regexp.symbols]
  · intro st'' _ he
    refine ⟨?_, by simp [Regexp.symbols], fun a ha => ha⟩
    rw [NFA.valid_iff]
    refine ⟨by simp [effN], by simp [effN], he, by simp [effN]⟩
  · intro w
    rw [Regexp.lang_one]
    constructor
    · rintro ⟨f, _, hr⟩
      exact (NFA.Run.of_no_succ (fun a q' hs => by obtain ⟨T, hl, _⟩ := hs; cases hl) hr).1
    · rintro rfl
      exact ⟨_, List.mem_singleton.mpr rfl, NFA.Run.nil _⟩

theorem sym_succ {N : NFA String String} {p q a : String} (hN : N.delta = [((p, a), [q])])
    {x b y : String} : N.Succ x b y ↔ x = p ∧ b = a ∧ y = q := by
  unfold NFA.Succ
  rw [hN]
  simp only [List.lookup_cons, List.lookup_nil]
  constructor
  · rintro ⟨T, hl, hm⟩
    split at hl
    · rename_i hb
      simp only [beq_iff_eq, Prod.mk.injEq] at hb
      cases hl
      exact ⟨hb.1, hb.2, List.mem_singleton.mp hm⟩
    · cases hl
  · rintro ⟨rfl, rfl, rfl⟩
    exact ⟨_, by simp, List.mem_singleton.mpr rfl⟩

theorem sym_accepts {N : NFA String String} {p q a : String} (hN : N.delta = [((p, a), [q])])
    (hq0 : N.q0 = p) (hF : N.F = [q]) (hpq : p ≠ q) (ha : a ≠ N.eps) (w : List String) :
    N.Accepts w ↔ w = [a] := by
  constructor
  · rintro ⟨f, hf, hr⟩
    rw [hF, List.mem_singleton] at hf
    subst hf
    rw [hq0] at hr
    cases hr with
    | nil => exact absurd rfl hpq
    | eps hs _ => exact absurd ((sym_succ hN).mp hs).2.1.symm ha
    | sym hb hs hr' =>
      obtain ⟨_, rfl, rfl⟩ := (sym_succ hN).mp hs
      have := NFA.Run.of_no_succ (fun b q' hs' => hpq ((sym_succ hN).mp hs').1.symm) hr'
      rw [this.1]
  · rintro rfl
    refine ⟨q, by rw [hF]; exact List.mem_singleton.mpr rfl, ?_⟩
    rw [hq0]
    exact NFA.Run.single_sym ha ((sym_succ hN).mpr ⟨rfl, rfl, rfl⟩)

theorem gen_sym {a : String} (ha : a ≠ "") (st : GenState) :
    regexpGenerate (.sym a) st =
      .ok ({ N := { Q := ["q" ++ toString st.counter, "q" ++ toString (st.counter + 1)], Sigma := [],
                    delta := [(("q" ++ toString st.counter, a), ["q" ++ toString (st.counter + 1)])],
                    q0 := "q" ++ toString st.counter, F := ["q" ++ toString (st.counter + 1)], eps := "" },
             shared := true },
           { counter := st.counter + 2, Sigma := sinsert st.Sigma a }) := by
  simp only [regexpGenerate, freshQ, if_neg ha]

theorem inv_sym {a : String} (ha : a ≠ "") (st : GenState) :
    ∃ g st', regexpGenerate (.sym a) st = .ok (g, st') ∧ GenInv (.sym a) st g st' := by
  refine ⟨_, _, gen_sym ha st, ?_⟩
  have hne : "q" ++ toString st.counter ≠ "q" ++ toString (st.counter + 1) := by
    intro h; have := qname_inj h; omega
  refine ⟨?_, ?_, ?_, rfl, by simp, ?_, ?_⟩
  · simp
  · intro q hq
    simp only [List.mem_cons, List.not_mem_nil, or_false] at hq
    rcases hq with rfl | rfl
    · exact ⟨st.counter, rfl, Nat.le_refl _, by simp⟩
    · exact ⟨st.counter + 1, rfl, by simp, by simp⟩
  · intro b; simp [Regexp.symbols]
  · intro st'' hsub he
    have haS : a ∈ st''.Sigma := hsub a (by simp)
    refine ⟨?_, ?_, fun b hb => hb⟩
    · rw [NFA.valid_iff]
      refine ⟨by simp [effN], by simp [effN], he, ?_⟩
      intro q b T hm
      simp only [effN, List.mem_singleton, Prod.mk.injEq] at hm
      obtain ⟨⟨rfl, rfl⟩, rfl⟩ := hm
      exact ⟨by simp [effN], Or.inl haS, by simp [effN]⟩
    · intro b hb
      simp only [Regexp.symbols, List.mem_singleton] at hb
      subst hb; exact haS
  · intro w
    rw [Regexp.lang_sym]
    exact sym_accepts rfl rfl rfl hne (fun h => ha h) w

/-! ### languages of the raw Thompson blocks -/

theorem repetitionRaw_lang (N1 : NFA String String) (q0 : String) (h1 : N1.valid = true)
    (hk1 : (N1.delta.map (·.1)).Nodup) (hq : q0 ∉ N1.Q) (w : List String) :
    (N1.repetitionRaw q0).Accepts w ↔
      ∃ ws : List (List String), w = ws.flatten ∧ ∀ u, u ∈ ws → N1.Accepts u :=
  repetition_lang_of_Succ N1 (N1.repetitionRaw q0) q0 h1 hq rfl rfl (fun _ => mem_sinsert)
    (NFA.repetitionRaw_Succ_iff N1 q0 h1 hk1 hq) w

theorem unionRaw_lang (N1 N2 : NFA String String) (q0 : String) (h1 : N1.valid = true)
    (h2 : N2.valid = true) (hk1 : (N1.delta.map (·.1)).Nodup) (hk2 : (N2.delta.map (·.1)).Nodup)
    (hd : ∀ q, q ∈ N1.Q → q ∉ N2.Q) (hq1 : q0 ∉ N1.Q) (hq2 : q0 ∉ N2.Q) (he : N2.eps = N1.eps)
    (w : List String) :
    (N1.unionRaw N2 q0).Accepts w ↔ (N1.Accepts w ∨ N2.Accepts w) :=
  union_lang_of_Succ N1 N2 (N1.unionRaw N2 q0) q0 h1 h2 hd hq1 hq2 he rfl rfl (fun _ => mem_sunion)
    (NFA.unionRaw_Succ_iff N1 N2 q0 h1 h2 hk1 hk2 hd hq1 hq2 he) w

theorem concatRaw_lang (N1 N2 : NFA String String) (h1 : N1.valid = true)
    (h2 : N2.valid = true) (hk1 : (N1.delta.map (·.1)).Nodup) (hk2 : (N2.delta.map (·.1)).Nodup)
    (hd : ∀ q, q ∈ N1.Q → q ∉ N2.Q) (he : N2.eps = N1.eps) (w : List String) :
    (N1.concatRaw N2).Accepts w ↔ ∃ u v, w = u ++ v ∧ N1.Accepts u ∧ N2.Accepts v :=
  concat_lang_of_Succ N1 N2 (N1.concatRaw N2) h1 h2 hd he rfl rfl (fun _ => Iff.rfl)
    (NFA.concatRaw_Succ_iff N1 N2 h1 h2 hk1 hk2 hd he) w

theorem lang_star_flatten {r : Regexp String} {w : List String} :
    (Regexp.star r).Lang w ↔ ∃ ws : List (List String), w = ws.flatten ∧ ∀ u, u ∈ ws → r.Lang u := by
  constructor
  · intro h
    generalize he : Regexp.star r = e at h
    induction h with
    | one => cases he
    | sym => cases he
    | sumL => cases he
    | sumR => cases he
    | cat => cases he
    | starNil => exact ⟨[], rfl, fun u hu => by cases hu⟩
    | @starApp r' u v hu _ _ ih =>
      cases he
      obtain ⟨ws, rfl, hws⟩ := ih rfl
      refine ⟨u :: ws, rfl, ?_⟩
      intro x hx
      rcases List.mem_cons.mp hx with rfl | hx
      · exact hu
      · exact hws x hx
  · rintro ⟨ws, rfl, hws⟩
    induction ws with
    | nil => exact Regexp.Lang.starNil
    | cons u ws ih =>
      rw [List.flatten_cons]
      exact Regexp.Lang.starApp (hws u List.mem_cons_self)
        (ih (fun x hx => hws x (List.mem_cons_of_mem _ hx)))

/-! ### star -/

theorem eff_rep (g : GenNFA) (st1 st'' : GenState) (q0 : String) :
    GenNFA.eff { N := (effN g st1).repetitionRaw q0, shared := g.shared } st'' = g.eff st'' := by
  obtain ⟨N, sh⟩ := g
  cases sh <;> rfl

theorem effN_rep (g : GenNFA) (st1 st'' : GenState) (q0 : String) :
    effN { N := (effN g st1).repetitionRaw q0, shared := g.shared } st'' =
      (effN g st'').repetitionRaw q0 := by
  obtain ⟨N, sh⟩ := g
  cases sh <;> rfl

theorem inv_star {r : Regexp String} {st st1 : GenState} {g : GenNFA}
    (h : regexpGenerate r st = .ok (g, st1)) (inv : GenInv r st g st1) (he : "" ∉ st1.Sigma) :
    ∃ g' st', regexpGenerate (.star r) st = .ok (g', st') ∧ GenInv (.star r) st g' st' := by
  have hv1 : (effN g st1).valid = true := (inv.valid st1 (fun _ h => h) he).1
  have hgen : genFresh g.N.Q st1.counter = ("q" ++ toString st1.counter, st1.counter + 1) :=
    genFresh_eq _ _ (fun q hq => by obtain ⟨i, hi, _, hlt⟩ := inv.names q hq; exact ⟨i, hi, hlt⟩)
  have hfresh : ∀ c, st1.counter ≤ c → "q" ++ toString c ∉ g.N.Q := by
    intro c hc hm
    obtain ⟨i, hi, _, hlt⟩ := inv.names _ hm
    have := qname_inj hi
    omega
  have hR := NFA.repetition_ok (effN g st1) (genFresh g.N.Q st1.counter).1 hv1
  refine ⟨_, _, gen_star h hR, ?_⟩
  rw [hgen]
  refine ⟨?_, ?_, ?_, inv.eps, NFA.repetitionRaw_keys_nodup _ _, ?_, ?_⟩
  · have := inv.le; simp only; omega
  · intro q hq
    simp only [NFA.repetitionRaw, effN, mem_sinsert] at hq
    rcases hq with hq | rfl
    · obtain ⟨i, hi, h1, h2⟩ := inv.names q hq
      exact ⟨i, hi, h1, Nat.lt_succ_of_lt h2⟩
    · exact ⟨st1.counter, rfl, inv.le, Nat.lt_succ_self _⟩
  · exact inv.sigma
  · intro st'' hsub he''
    rw [effN_rep, eff_rep]
    obtain ⟨hv, h1, h2⟩ := inv.valid st'' hsub he''
    exact ⟨NFA.repetitionRaw_valid _ _ hv, h1, h2⟩
  · intro w
    show ((effN g st1).repetitionRaw _).Accepts w ↔ _
    rw [repetitionRaw_lang _ _ hv1 inv.keys (hfresh _ (Nat.le_refl _)), lang_star_flatten]
    simp only [effN_accepts, inv.lang]

/-! ### sum and cat -/

theorem effN_unshared (R : NFA String String) (st'' : GenState) :
    effN { N := R, shared := false } st'' = R := rfl

theorem names_disjoint {r s : Regexp String} {st st1 st2 : GenState} {g1 g2 : GenNFA}
    (inv1 : GenInv r st g1 st1) (inv2 : GenInv s st1 g2 st2) :
    ∀ q, q ∈ g1.N.Q → q ∉ g2.N.Q := by
  intro q hq1 hq2
  obtain ⟨i, hi, _, hlt⟩ := inv1.names q hq1
  obtain ⟨j, hj, hle, _⟩ := inv2.names q hq2
  have := qname_inj (hi.symm.trans hj)
  omega

theorem inv_sum {r s : Regexp String} {st st1 st2 : GenState} {g1 g2 : GenNFA}
    (h1 : regexpGenerate r st = .ok (g1, st1)) (inv1 : GenInv r st g1 st1)
    (h2 : regexpGenerate s st1 = .ok (g2, st2)) (inv2 : GenInv s st1 g2 st2) (he : "" ∉ st2.Sigma) :
    ∃ g' st', regexpGenerate (.sum r s) st = .ok (g', st') ∧ GenInv (.sum r s) st g' st' := by
  have hsub12 : ∀ a, a ∈ st1.Sigma → a ∈ st2.Sigma := fun a ha => (inv2.sigma a).mpr (Or.inl ha)
  obtain ⟨hv1, hs1, ht1⟩ := inv1.valid st2 hsub12 he
  obtain ⟨hv2, hs2, ht2⟩ := inv2.valid st2 (fun _ h => h) he
  have hd := names_disjoint inv1 inv2
  have hnames : ∀ q, q ∈ sunion g1.N.Q g2.N.Q → ∃ i, q = "q" ++ toString i ∧ st.counter ≤ i ∧ i < st2.counter := by
    intro q hq
    rcases mem_sunion.mp hq with hq | hq
    · obtain ⟨i, hi, h1, h2⟩ := inv1.names q hq
      exact ⟨i, hi, h1, Nat.lt_of_lt_of_le h2 inv2.le⟩
    · obtain ⟨i, hi, h1, h2⟩ := inv2.names q hq
      exact ⟨i, hi, Nat.le_trans inv1.le h1, h2⟩
  have hgen : genFresh (sunion g1.N.Q g2.N.Q) st2.counter = ("q" ++ toString st2.counter, st2.counter + 1) :=
    genFresh_eq _ _ (fun q hq => by obtain ⟨i, hi, _, hlt⟩ := hnames q hq; exact ⟨i, hi, hlt⟩)
  have hfresh : "q" ++ toString st2.counter ∉ sunion g1.N.Q g2.N.Q := by
    intro hm
    obtain ⟨i, hi, _, hlt⟩ := hnames _ hm
    have := qname_inj hi
    omega
  have hq1 : "q" ++ toString st2.counter ∉ (effN g1 st2).Q := fun h => hfresh (mem_sunion.mpr (Or.inl h))
  have hq2 : "q" ++ toString st2.counter ∉ (effN g2 st2).Q := fun h => hfresh (mem_sunion.mpr (Or.inr h))
  have heps : (effN g2 st2).eps = (effN g1 st2).eps := inv2.eps.trans inv1.eps.symm
  have hR := NFA.union_ok (effN g1 st2) (effN g2 st2) (genFresh (sunion g1.N.Q g2.N.Q) st2.counter).1
    hv1 hv2 hd heps
  refine ⟨_, _, gen_sum h1 h2 (sdisjoint_iff.mpr hd) hR, ?_⟩
  rw [hgen]
  refine ⟨?_, ?_, ?_, inv1.eps, NFA.unionRaw_keys_nodup _ _ _, ?_, ?_⟩
  · have := inv1.le; have := inv2.le; simp only; omega
  · intro q hq
    simp only [NFA.unionRaw, effN, mem_sinsert] at hq
    rcases hq with hq | rfl
    · obtain ⟨i, hi, h1, h2⟩ := hnames q hq
      exact ⟨i, hi, h1, Nat.lt_succ_of_lt h2⟩
    · exact ⟨st2.counter, rfl, Nat.le_trans inv1.le inv2.le, Nat.lt_succ_self _⟩
  · intro a
    simp only [Regexp.symbols, mem_sunion]
    rw [inv2.sigma, inv1.sigma, or_assoc]
  · intro st'' hsub he''
    rw [effN_unshared]
    refine ⟨NFA.unionRaw_valid _ _ _ hv1 hv2 heps, ?_, ?_⟩
    · intro a ha
      simp only [Regexp.symbols, mem_sunion] at ha
      show a ∈ sunion (g1.eff st2) (g2.eff st2)
      exact mem_sunion.mpr (ha.imp (hs1 a) (hs2 a))
    · intro a ha
      have ha : a ∈ sunion (g1.eff st2) (g2.eff st2) := ha
      rcases mem_sunion.mp ha with ha | ha
      · exact hsub a (ht1 a ha)
      · exact hsub a (ht2 a ha)
  · intro w
    show ((effN g1 st2).unionRaw (effN g2 st2) _).Accepts w ↔ _
    rw [unionRaw_lang _ _ _ hv1 hv2 inv1.keys inv2.keys hd hq1 hq2 heps, Regexp.lang_sum,
      effN_accepts, effN_accepts, inv1.lang, inv2.lang]

theorem inv_cat {r s : Regexp String} {st st1 st2 : GenState} {g1 g2 : GenNFA}
    (h1 : regexpGenerate r st = .ok (g1, st1)) (inv1 : GenInv r st g1 st1)
    (h2 : regexpGenerate s st1 = .ok (g2, st2)) (inv2 : GenInv s st1 g2 st2) (he : "" ∉ st2.Sigma) :
    ∃ g' st', regexpGenerate (.cat r s) st = .ok (g', st') ∧ GenInv (.cat r s) st g' st' := by
  have hsub12 : ∀ a, a ∈ st1.Sigma → a ∈ st2.Sigma := fun a ha => (inv2.sigma a).mpr (Or.inl ha)
  obtain ⟨hv1, hs1, ht1⟩ := inv1.valid st2 hsub12 he
  obtain ⟨hv2, hs2, ht2⟩ := inv2.valid st2 (fun _ h => h) he
  have hd := names_disjoint inv1 inv2
  have heps : (effN g2 st2).eps = (effN g1 st2).eps := inv2.eps.trans inv1.eps.symm
  have hR := NFA.concat_ok (effN g1 st2) (effN g2 st2) hv1 hv2 hd heps
  refine ⟨_, _, gen_cat h1 h2 hR, ?_⟩
  refine ⟨Nat.le_trans inv1.le inv2.le, ?_, ?_, inv1.eps, NFA.concatRaw_keys_nodup _ _, ?_, ?_⟩
  · intro q hq
    simp only [NFA.concatRaw, effN, mem_sinsert, mem_sunion] at hq
    have hq0 : (effN g1 st2).q0 ∈ (effN g1 st2).Q := NFA.valid_q0 hv1
    have hq : q ∈ g1.N.Q ∨ q ∈ g2.N.Q := by
      rcases hq with hq | rfl
      · exact hq
      · exact Or.inl hq0
    rcases hq with hq | hq
    · obtain ⟨i, hi, h1, h2⟩ := inv1.names q hq
      exact ⟨i, hi, h1, Nat.lt_of_lt_of_le h2 inv2.le⟩
    · obtain ⟨i, hi, h1, h2⟩ := inv2.names q hq
      exact ⟨i, hi, Nat.le_trans inv1.le h1, h2⟩
  · intro a
    simp only [Regexp.symbols, mem_sunion]
    rw [inv2.sigma, inv1.sigma, or_assoc]
  · intro st'' hsub he''
    rw [effN_unshared]
    refine ⟨NFA.concatRaw_valid _ _ hv1 hv2 heps, ?_, ?_⟩
    · intro a ha
      simp only [Regexp.symbols, mem_sunion] at ha
      show a ∈ sunion (g1.eff st2) (g2.eff st2)
      exact mem_sunion.mpr (ha.imp (hs1 a) (hs2 a))
    · intro a ha
      have ha : a ∈ sunion (g1.eff st2) (g2.eff st2) := ha
      rcases mem_sunion.mp ha with ha | ha
      · exact hsub a (ht1 a ha)
      · exact hsub a (ht2 a ha)
  · intro w
    show ((effN g1 st2).concatRaw (effN g2 st2)).Accepts w ↔ _
    rw [concatRaw_lang _ _ hv1 hv2 inv1.keys inv2.keys hd heps, Regexp.lang_cat]
    simp only [effN_accepts, inv1.lang, inv2.lang]

/-! ### the generator -/

theorem regexpGenerate_inv (r : Regexp String) (hr : r.NoEps) (st : GenState) (he : "" ∉ st.Sigma) :
    ∃ g st', regexpGenerate r st = .ok (g, st') ∧ GenInv r st g st' := by
  induction r generalizing st with
  | zero => exact inv_zero st
  | one => exact inv_one st
  | sym a => exact inv_sym hr st
  | star r ih =>
    obtain ⟨g, st1, h, inv⟩ := ih hr st he
    refine inv_star h inv ?_
    intro h1
    rcases (inv.sigma "").mp h1 with h1 | h1
    · exact he h1
    · exact noEps_symbols hr h1
  | sum r s ih1 ih2 =>
    obtain ⟨g1, st1, h1, inv1⟩ := ih1 hr.1 st he
    have he1 : "" ∉ st1.Sigma := by
      intro h
      rcases (inv1.sigma "").mp h with h | h
      · exact he h
      · exact noEps_symbols hr.1 h
    obtain ⟨g2, st2, h2, inv2⟩ := ih2 hr.2 st1 he1
    refine inv_sum h1 inv1 h2 inv2 ?_
    intro h
    rcases (inv2.sigma "").mp h with h | h
    · exact he1 h
    · exact noEps_symbols hr.2 h
  | cat r s ih1 ih2 =>
    obtain ⟨g1, st1, h1, inv1⟩ := ih1 hr.1 st he
    have he1 : "" ∉ st1.Sigma := by
      intro h
      rcases (inv1.sigma "").mp h with h | h
      · exact he h
      · exact noEps_symbols hr.1 h
    obtain ⟨g2, st2, h2, inv2⟩ := ih2 hr.2 st1 he1
    refine inv_cat h1 inv1 h2 inv2 ?_
    intro h
    rcases (inv2.sigma "").mp h with h | h
    · exact he1 h
    · exact noEps_symbols hr.2 h

theorem regexpToNfa_eq {r : Regexp String} {g : GenNFA} {st : GenState}
    (h : regexpGenerate r { counter := 0, Sigma := [] } = .ok (g, st)) :
    regexpToNfa r = .ok (effN g st) := by
  simp only [regexpToNfa, h, bind, Except.bind, pure, Except.pure, effN]

end C06a
end Gamba
