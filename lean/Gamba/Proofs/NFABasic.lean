/-
  Gamba.Proofs.NFABasic — reusable facts about `NFA.valid`, `NFA.Succ`, `NFA.Run`, `NFA.Accepts`
  (the NFA counterpart of `Gamba.Proofs.DFABasic`).  The ε-closure / acceptance-algorithm lemmas and
  `NFA.valid_q0`, `NFA.valid_eps`, `NFA.valid_Succ`, `NFA.mem_succ_iff` live in `Gamba.Proofs.C01`.
-/
import Gamba.Model.NFA
import Gamba.Spec.Automata
import Gamba.Proofs.DFABasic
import Gamba.Proofs.C01
namespace Gamba

variable {σ τ : Type} [DecidableEq σ] [DecidableEq τ]

/-! ### `NFA.valid` unpacked -/

/-- the "closed" conjunct of `NFA.valid` -/
theorem NFA.deltaClosed_iff (Q : List σ) (Sigma : List τ) (eps : τ) (delta : Dict (σ × τ) (List σ)) :
    delta.all (fun e => decide (e.1.1 ∈ Q) && (decide (e.1.2 ∈ Sigma) || decide (e.1.2 = eps)) &&
        ssubset e.2 Q) = true ↔
      ∀ q a T, ((q, a), T) ∈ delta → q ∈ Q ∧ (a ∈ Sigma ∨ a = eps) ∧ ∀ x, x ∈ T → x ∈ Q := by
  simp only [List.all_eq_true, Bool.and_eq_true, Bool.or_eq_true, decide_eq_true_eq, ssubset_iff]
  constructor
  · intro h q a T he
    have := h _ he
    exact ⟨this.1.1, this.1.2, this.2⟩
  · intro h e he
    obtain ⟨⟨q, a⟩, T⟩ := e
    have := h q a T he
    exact ⟨⟨this.1, this.2.1⟩, this.2.2⟩

/-- `NFA.valid` as its four conjuncts: `q0 ∈ Q`, `F ⊆ Q`, `ε ∉ Σ`, `δ` closed. -/
theorem NFA.valid_iff (N : NFA σ τ) :
    N.valid = true ↔
      N.q0 ∈ N.Q ∧ (∀ f, f ∈ N.F → f ∈ N.Q) ∧ N.eps ∉ N.Sigma ∧
      (∀ q a T, ((q, a), T) ∈ N.delta → q ∈ N.Q ∧ (a ∈ N.Sigma ∨ a = N.eps) ∧ ∀ x, x ∈ T → x ∈ N.Q) := by
  unfold NFA.valid
  rw [Bool.and_eq_true, Bool.and_eq_true, Bool.and_eq_true, NFA.deltaClosed_iff, ssubset_iff,
    decide_eq_true_eq, decide_eq_true_eq]
  constructor
  · rintro ⟨⟨⟨h1, h2⟩, h3⟩, h4⟩; exact ⟨h1, h2, h3, h4⟩
  · rintro ⟨h1, h2, h3, h4⟩; exact ⟨⟨⟨h1, h2⟩, h3⟩, h4⟩

theorem NFA.valid_F {N : NFA σ τ} (h : N.valid = true) {f : σ} (hf : f ∈ N.F) : f ∈ N.Q :=
  ((NFA.valid_iff N).mp h).2.1 f hf

theorem NFA.valid_closed {N : NFA σ τ} (h : N.valid = true) {q : σ} {a : τ} {T : List σ}
    (he : ((q, a), T) ∈ N.delta) : q ∈ N.Q ∧ (a ∈ N.Sigma ∨ a = N.eps) ∧ ∀ x, x ∈ T → x ∈ N.Q :=
  ((NFA.valid_iff N).mp h).2.2.2 q a T he

/-- a transition of a valid NFA: source, symbol and target are all declared -/
theorem NFA.valid_Succ_all {N : NFA σ τ} (h : N.valid = true) {q q' : σ} {a : τ}
    (hs : N.Succ q a q') : q ∈ N.Q ∧ (a ∈ N.Sigma ∨ a = N.eps) ∧ q' ∈ N.Q := by
  obtain ⟨T, hl, hm⟩ := hs
  obtain ⟨h1, h2, h3⟩ := NFA.valid_closed h (mem_of_lookup_eq_some hl)
  exact ⟨h1, h2, h3 q' hm⟩

theorem NFA.valid_Succ_src {N : NFA σ τ} (h : N.valid = true) {q q' : σ} {a : τ}
    (hs : N.Succ q a q') : q ∈ N.Q := (NFA.valid_Succ_all h hs).1

/-- `Succ` only depends on `δ` -/
theorem NFA.Succ_congr {N N' : NFA σ τ} (hd : N.delta = N'.delta) {q q' : σ} {a : τ} :
    N.Succ q a q' ↔ N'.Succ q a q' := by
  unfold NFA.Succ; rw [hd]

/-! ### `Run`: basic shapes -/

theorem NFA.Run.single_eps {N : NFA σ τ} {q q' : σ} (h : N.Succ q N.eps q') : N.Run q [] q' :=
  NFA.Run.eps h (NFA.Run.nil _)

theorem NFA.Run.single_sym {N : NFA σ τ} {q q' : σ} {a : τ} (ha : a ≠ N.eps) (h : N.Succ q a q') :
    N.Run q [a] q' :=
  NFA.Run.sym ha h (NFA.Run.nil _)

/-- runs compose -/
theorem NFA.Run.append {N : NFA σ τ} {q m r : σ} {u v : List τ}
    (h1 : N.Run q u m) (h2 : N.Run m v r) : N.Run q (u ++ v) r := by
  induction h1 with
  | nil q => exact h2
  | eps hs _ ih => exact NFA.Run.eps hs (ih h2)
  | sym ha hs _ ih => exact NFA.Run.sym ha hs (ih h2)

/-- a run over `u ++ v` passes through some state after reading `u` -/
theorem NFA.Run.split {N : NFA σ τ} {q r : σ} {u v : List τ}
    (h : N.Run q (u ++ v) r) : ∃ m, N.Run q u m ∧ N.Run m v r := by
  generalize hw : u ++ v = w at h
  induction h generalizing u with
  | nil q =>
    obtain ⟨rfl, rfl⟩ := List.append_eq_nil_iff.mp hw
    exact ⟨q, NFA.Run.nil _, NFA.Run.nil _⟩
  | eps hs _ ih =>
    obtain ⟨m, h1, h2⟩ := ih hw
    exact ⟨m, NFA.Run.eps hs h1, h2⟩
  | @sym q q' r a w ha hs hr ih =>
    cases u with
    | nil =>
      simp only [List.nil_append] at hw
      subst hw
      exact ⟨q, NFA.Run.nil _, NFA.Run.sym ha hs hr⟩
    | cons b u =>
      simp only [List.cons_append, List.cons.injEq] at hw
      obtain ⟨rfl, hw⟩ := hw
      obtain ⟨m, h1, h2⟩ := ih hw
      exact ⟨m, NFA.Run.sym ha hs h1, h2⟩

theorem NFA.Run_append_iff {N : NFA σ τ} {q r : σ} {u v : List τ} :
    N.Run q (u ++ v) r ↔ ∃ m, N.Run q u m ∧ N.Run m v r :=
  ⟨NFA.Run.split, fun ⟨_, h1, h2⟩ => h1.append h2⟩

/-! ### runs and sub-automata -/

/-- embedding: every transition of `N1` is a transition of `N` (same ε): runs of `N1` are runs of `N` -/
theorem NFA.Run.mono {N1 N : NFA σ τ} (he : N.eps = N1.eps)
    (hs : ∀ q a q', N1.Succ q a q' → N.Succ q a q') {q r : σ} {w : List τ}
    (h : N1.Run q w r) : N.Run q w r := by
  induction h with
  | nil q => exact NFA.Run.nil _
  | eps h1 _ ih => exact NFA.Run.eps (he ▸ hs _ _ _ h1) ih
  | sym ha h1 _ ih => exact NFA.Run.sym (he ▸ ha) (hs _ _ _ h1) ih

/-- an invariant of the transition relation is an invariant of runs -/
theorem NFA.Run.invariant {N : NFA σ τ} (P : σ → Prop)
    (hP : ∀ q a q', P q → N.Succ q a q' → P q') {q r : σ} {w : List τ}
    (h : N.Run q w r) (hq : P q) : P r := by
  induction h with
  | nil q => exact hq
  | eps h1 _ ih => exact ih (hP _ _ _ hq h1)
  | sym _ h1 _ ih => exact ih (hP _ _ _ hq h1)

/-- confinement: if from the states satisfying `P` the automaton `N` can only do transitions of `N1`,
    and these stay inside `P`, then a run of `N` from a `P`-state is a run of `N1` (and ends in `P`) -/
theorem NFA.Run.confined {N1 N : NFA σ τ} (he : N.eps = N1.eps) (P : σ → Prop)
    (hs : ∀ q a q', P q → N.Succ q a q' → N1.Succ q a q' ∧ P q') {q r : σ} {w : List τ}
    (h : N.Run q w r) (hq : P q) : N1.Run q w r ∧ P r := by
  induction h with
  | nil q => exact ⟨NFA.Run.nil _, hq⟩
  | eps h1 _ ih =>
    obtain ⟨h2, h3⟩ := hs _ _ _ hq h1
    obtain ⟨h4, h5⟩ := ih h3
    exact ⟨NFA.Run.eps (he ▸ h2) h4, h5⟩
  | sym ha h1 _ ih =>
    obtain ⟨h2, h3⟩ := hs _ _ _ hq h1
    obtain ⟨h4, h5⟩ := ih h3
    exact ⟨NFA.Run.sym (he ▸ ha) h2 h4, h5⟩

/-- `Run` only depends on `δ` and `ε` -/
theorem NFA.Run_congr {N N' : NFA σ τ} (hd : N.delta = N'.delta) (he : N.eps = N'.eps)
    {q r : σ} {w : List τ} : N.Run q w r ↔ N'.Run q w r :=
  ⟨NFA.Run.mono he.symm (fun _ _ _ h => (NFA.Succ_congr hd).mp h),
   NFA.Run.mono he (fun _ _ _ h => (NFA.Succ_congr hd).mpr h)⟩

/-- in a valid NFA a run stays inside `Q` and reads only symbols of `Σ`
    (the start state need not be declared when the run is empty) -/
theorem NFA.Run.mem {N : NFA σ τ} (hv : N.valid = true) {q r : σ} {w : List τ}
    (h : N.Run q w r) (hq : q ∈ N.Q) : r ∈ N.Q ∧ ∀ a, a ∈ w → a ∈ N.Sigma := by
  induction h with
  | nil q => exact ⟨hq, fun a ha => by cases ha⟩
  | eps h1 _ ih => exact ih (NFA.valid_Succ hv h1)
  | sym ha h1 _ ih =>
    obtain ⟨_, hs, hq'⟩ := NFA.valid_Succ_all hv h1
    obtain ⟨hr, hw⟩ := ih hq'
    refine ⟨hr, ?_⟩
    intro b hb
    rcases List.mem_cons.mp hb with rfl | hb
    · rcases hs with hs | hs
      · exact hs
      · exact absurd hs ha
    · exact hw b hb

/-- accepted words of a valid NFA are over `Σ` -/
theorem NFA.Accepts.over {N : NFA σ τ} (hv : N.valid = true) {w : List τ} (h : N.Accepts w) :
    ∀ a, a ∈ w → a ∈ N.Sigma := by
  obtain ⟨f, _, hr⟩ := h
  exact (hr.mem hv (NFA.valid_q0 hv)).2

/-- a state without outgoing transitions can only do the empty run -/
theorem NFA.Run.of_no_succ {N : NFA σ τ} {q r : σ} {w : List τ}
    (hn : ∀ a q', ¬ N.Succ q a q') (h : N.Run q w r) : w = [] ∧ r = q := by
  cases h with
  | nil => exact ⟨rfl, rfl⟩
  | eps h1 _ => exact absurd h1 (hn _ _)
  | sym _ h1 _ => exact absurd h1 (hn _ _)

/-- `Accepts` only depends on `δ`, `ε`, `q0` and `F` -/
theorem NFA.Accepts_congr {N N' : NFA σ τ} (hd : N.delta = N'.delta) (he : N.eps = N'.eps)
    (hq : N.q0 = N'.q0) (hF : ∀ f, f ∈ N.F ↔ f ∈ N'.F) (w : List τ) : N.Accepts w ↔ N'.Accepts w := by
  unfold NFA.Accepts
  constructor
  · rintro ⟨f, hf, hr⟩; exact ⟨f, (hF f).mp hf, hq ▸ (NFA.Run_congr hd he).mp hr⟩
  · rintro ⟨f, hf, hr⟩; exact ⟨f, (hF f).mpr hf, hq ▸ (NFA.Run_congr hd he).mpr hr⟩

end Gamba
