/-
  Gamba.Proofs.C13d — the library's own derivation answer key (`Keys.printDerivation` of the derivation returned
  by `cfg_derive_word`) is accepted by the library's derivation checker (`Check.derivationCheck`).
  Helper lemmas: completeness of `Check.hasDerivation` for leftmost / rightmost steps, invariants along a
  derivation chain, and the text round trip `' => '.join(...)` / `split('=>')` / `strip()`.
-/
import Gamba.Model.Check
import Gamba.Model.Keys
import Gamba.Spec.CFG
import Gamba.Spec.Trace
import Gamba.Proofs.TextBasic
namespace Gamba

/-- the "simple" grammar format of the notebooks: variables are single upper-case characters, terminals single
    characters that are not upper-case, not white space, and not '=' or '>' -/
structure CFG.SimpleNames (G : CFG) : Prop where
  vars : ∀ A, A ∈ G.V → ∃ c, A = String.singleton c ∧ c.isUpper = true
  terms : ∀ a, a ∈ G.Sigma →
    ∃ c, a = String.singleton c ∧ c.isUpper = false ∧ Text.isSpace c = false ∧ c ≠ '=' ∧ c ≠ '>'

namespace C13d
open Text

/-! ### sorted lists of positions -/

theorem head_of_sorted_min {l : List Nat} (hs : l.Pairwise (· < ·)) {k : Nat} (hk : k ∈ l)
    (hmin : ∀ j, j ∈ l → k ≤ j) : l.head? = some k := by
  cases l with
  | nil => cases hk
  | cons x rest =>
    have h1 := hmin x (List.mem_cons_self ..)
    rcases List.mem_cons.mp hk with rfl | hk
    · rfl
    · have := (List.pairwise_cons.mp hs).1 k hk
      omega

theorem last_of_sorted_max {l : List Nat} (hs : l.Pairwise (· < ·)) {k : Nat} (hk : k ∈ l)
    (hmax : ∀ j, j ∈ l → j ≤ k) : l.getLast? = some k := by
  rcases List.eq_nil_or_concat l with rfl | ⟨init, y, rfl⟩
  · cases hk
  · have h1 := hmax y (by simp)
    simp only [List.concat_eq_append] at hk hs ⊢
    rcases List.mem_append.mp hk with hk | hk
    · have := (List.pairwise_append.mp hs).2.2 k hk y (by simp)
      omega
    · simp only [List.mem_singleton] at hk
      subst hk
      simp

theorem mem_take_one {α : Type} {l : List α} {x : α} : x ∈ l.take 1 ↔ l.head? = some x := by
  cases l with
  | nil => simp
  | cons y l => simp [eq_comm]

theorem mem_reverse_take_one {α : Type} {l : List α} {x : α} : x ∈ l.reverse.take 1 ↔ l.getLast? = some x := by
  rw [mem_take_one, List.head?_reverse]

theorem filter_isVar_nil {l : List Sym} (h : ∀ x, x ∈ l → x.isVar = false) : l.filter Sym.isVar = [] := by
  rw [List.filter_eq_nil_iff]
  intro x hx
  simp [h x hx]

/-! ### `hasDerivation` accepts every leftmost / rightmost step -/

theorem getElem?_mid (pre post : List Sym) (x : Sym) : (pre ++ x :: post)[pre.length]? = some x := by
  simp

theorem hasDerivation_of_lstep {G : CFG} {e1 e2 : List Sym} (h : G.LStep e1 e2) :
    Check.hasDerivation G e1 e2 1 = true := by
  cases h with
  | @mk A rhs pre post hr hpre =>
    obtain ⟨r, hrR, rfl, rfl⟩ := hr
    unfold Check.hasDerivation
    simp only [List.any_eq_true, Bool.and_eq_true, decide_eq_true_eq]
    refine ⟨r, hrR, ?_, pre.length, ?_, ?_⟩
    · rw [mem_take_one, List.filter_append, filter_isVar_nil hpre, List.nil_append,
        List.filter_cons_of_pos (by rfl)]
      rfl
    · rw [mem_take_one]
      apply head_of_sorted_min (List.Pairwise.filter _ List.pairwise_lt_range)
      · simp
      · intro j hj
        simp only [List.mem_filter, List.mem_range, beq_iff_eq] at hj
        apply Nat.le_of_not_lt
        intro hlt
        have h2 := hj.2
        rw [List.getElem?_append_left hlt] at h2
        have := hpre _ (List.mem_of_getElem? h2)
        cases this
    · simp

theorem hasDerivation_of_rstep {G : CFG} {e1 e2 : List Sym} (h : G.RStep e1 e2) :
    Check.hasDerivation G e1 e2 2 = true := by
  cases h with
  | @mk A rhs pre post hr hpost =>
    obtain ⟨r, hrR, rfl, rfl⟩ := hr
    unfold Check.hasDerivation
    simp only [List.any_eq_true, Bool.and_eq_true, decide_eq_true_eq]
    refine ⟨r, hrR, ?_, pre.length, ?_, ?_⟩
    · rw [mem_reverse_take_one, List.filter_append, List.filter_cons_of_pos (by rfl), filter_isVar_nil hpost]
      simp
    · rw [mem_reverse_take_one]
      apply last_of_sorted_max (List.Pairwise.filter _ List.pairwise_lt_range)
      · simp
      · intro j hj
        simp only [List.mem_filter, List.mem_range, beq_iff_eq] at hj
        apply Nat.le_of_not_lt
        intro hlt
        have h2 := hj.2
        rw [List.getElem?_append_right (Nat.le_of_lt hlt)] at h2
        have h3 : j - pre.length = (j - pre.length - 1) + 1 := by omega
        rw [h3, List.getElem?_cons_succ] at h2
        have := hpost _ (List.mem_of_getElem? h2)
        cases this
    · simp

/-! ### invariants along a chain -/

theorem chain_forall_of_head {α : Type} {R : α → α → Prop} {P : α → Prop} (hstep : ∀ a b, R a b → P a → P b)
    {l : List α} (hc : ChainOf R l) (hh : ∀ a, l.head? = some a → P a) : ∀ e, e ∈ l → P e := by
  induction hc with
  | nil => intro e he; cases he
  | single a =>
    intro e he
    simp only [List.mem_singleton] at he
    subst he
    exact hh e rfl
  | @cons a b l hr _ ih =>
    have ha : P a := hh a rfl
    intro e he
    rcases List.mem_cons.mp he with rfl | he
    · exact ha
    · exact ih (fun x hx => by
        simp only [List.head?_cons, Option.some.injEq] at hx
        subst hx
        exact hstep _ _ hr ha) e he

theorem chain_forall_of_last {α : Type} {R : α → α → Prop} {P : α → Prop} (hstep : ∀ a b, R a b → P a)
    {l : List α} (hc : ChainOf R l) (hl : ∀ a, l.getLast? = some a → P a) : ∀ e, e ∈ l → P e := by
  induction hc with
  | nil => intro e he; cases he
  | single a =>
    intro e he
    simp only [List.mem_singleton] at he
    subst he
    exact hl e rfl
  | @cons a b l hr _ ih =>
    intro e he
    rcases List.mem_cons.mp he with rfl | he
    · exact hstep _ _ hr
    · exact ih (fun x hx => hl x (by rw [List.getLast?_cons_cons]; exact hx)) e he

theorem chain_zip_tail {α : Type} {R : α → α → Prop} {l : List α} (hc : ChainOf R l) :
    ∀ p, p ∈ l.zip l.tail → R p.1 p.2 := by
  induction hc with
  | nil => intro p hp; simp at hp
  | single a => intro p hp; simp at hp
  | @cons a b l hr _ ih =>
    intro p hp
    simp only [List.tail_cons, List.zip_cons_cons, List.mem_cons] at hp ih
    rcases hp with rfl | hp
    · exact hr
    · exact ih p hp

/-! ### declared symbols -/

/-- the symbol is declared in the grammar -/
def SymOk (G : CFG) : Sym → Prop
  | .v A => A ∈ G.V
  | .t a => a ∈ G.Sigma

def FormOk (G : CFG) (el : List Sym) : Prop := ∀ x, x ∈ el → SymOk G x

theorem rhs_ok {G : CFG} (hv : G.valid = true) {A : String} {rhs : List Sym} (hr : G.HasRule A rhs) :
    FormOk G rhs := by
  obtain ⟨r, hrR, rfl, rfl⟩ := hr
  unfold CFG.valid at hv
  rw [List.all_eq_true] at hv
  have := hv r hrR
  simp only [Bool.and_eq_true, List.all_eq_true] at this
  intro x hx
  have h2 := this.2 x hx
  cases x with
  | t a => simpa [SymOk] using h2
  | v B => simpa [SymOk] using h2

theorem formOk_replace {G : CFG} (hv : G.valid = true) {A : String} {rhs pre post : List Sym}
    (hr : G.HasRule A rhs) (h : FormOk G (pre ++ .v A :: post)) : FormOk G (pre ++ rhs ++ post) := by
  intro x hx
  simp only [List.mem_append] at hx
  rcases hx with (hx | hx) | hx
  · exact h x (by simp [hx])
  · exact rhs_ok hv hr x hx
  · exact h x (by simp [hx])

theorem formOk_lstep {G : CFG} (hv : G.valid = true) {a b : List Sym} (h : G.LStep a b) (ha : FormOk G a) :
    FormOk G b := by
  cases h with
  | mk hr _ => exact formOk_replace hv hr ha

theorem formOk_rstep {G : CFG} (hv : G.valid = true) {a b : List Sym} (h : G.RStep a b) (ha : FormOk G a) :
    FormOk G b := by
  cases h with
  | mk hr _ => exact formOk_replace hv hr ha

theorem ne_nil_of_lstep {G : CFG} {a b : List Sym} (h : G.LStep a b) : a ≠ [] := by
  cases h with
  | mk _ _ => simp

theorem ne_nil_of_rstep {G : CFG} {a b : List Sym} (h : G.RStep a b) : a ≠ [] := by
  cases h with
  | mk _ _ => simp

/-- every sentential form of a valid derivation of a non-empty word is a non-empty list of declared symbols,
    and consecutive forms pass `hasDerivation` -/
theorem validDerivation_facts {G : CFG} (hv : G.valid = true) (hS : G.S ∈ G.V) {w : List String} (hw : w ≠ [])
    {leftmost : Bool} {d : List (List Sym)} (h : G.ValidDerivation leftmost w d) :
    (∀ e, e ∈ d → FormOk G e) ∧ (∀ e, e ∈ d → e ≠ []) ∧
    (∀ p, p ∈ d.zip d.tail → Check.hasDerivation G p.1 p.2 (if leftmost then 1 else 2) = true) := by
  obtain ⟨h1, h2, h3⟩ := h
  have hstart : ∀ a, d.head? = some a → FormOk G a := by
    intro a ha
    rw [h1] at ha
    injection ha with ha
    subst ha
    intro x hx
    simp only [List.mem_singleton] at hx
    subst hx
    exact hS
  have hend : ∀ a, d.getLast? = some a → a ≠ [] := by
    intro a ha
    rw [h3] at ha
    injection ha with ha
    subst ha
    simpa using hw
  cases leftmost with
  | true =>
    simp only [if_true] at h2 ⊢
    exact ⟨chain_forall_of_head (P := FormOk G) (fun a b => formOk_lstep hv) h2 hstart,
      chain_forall_of_last (P := fun e => e ≠ []) (fun a b => ne_nil_of_lstep) h2 hend,
      fun p hp => hasDerivation_of_lstep (chain_zip_tail h2 p hp)⟩
  | false =>
    simp only [Bool.false_eq_true, if_false] at h2 ⊢
    exact ⟨chain_forall_of_head (P := FormOk G) (fun a b => formOk_rstep hv) h2 hstart,
      chain_forall_of_last (P := fun e => e ≠ []) (fun a b => ne_nil_of_rstep) h2 hend,
      fun p hp => hasDerivation_of_rstep (chain_zip_tail h2 p hp)⟩

/-! ### characters of printed forms -/

/-- a character that may occur in a printed sentential form -/
def CharOk (c : Char) : Prop := isSpace c = false ∧ c ≠ '='

theorem charOk_of_isUpper {c : Char} (h : c.isUpper = true) : CharOk c := by
  constructor
  · simp only [isSpace, Bool.or_eq_false_iff, beq_eq_false_iff_ne, ne_eq]
    refine ⟨⟨⟨⟨⟨?_, ?_⟩, ?_⟩, ?_⟩, ?_⟩, ?_⟩ <;> rintro rfl <;> revert h <;> decide
  · rintro rfl; revert h; decide

/-- the printed form of a sentential form: `''.join(element)` -/
def pr (el : List Sym) : List Char := el.flatMap fun x => x.name.toList

theorem sym_print {G : CFG} (hn : G.SimpleNames) {x : Sym} (hx : SymOk G x) :
    ∃ c, x.name.toList = [c] ∧ CharOk c ∧ Check.parseChar c = x := by
  cases x with
  | v A =>
    obtain ⟨c, rfl, hc⟩ := hn.vars A hx
    exact ⟨c, by simp [Sym.name], charOk_of_isUpper hc, by simp [Check.parseChar, hc]⟩
  | t a =>
    obtain ⟨c, rfl, hc, hs, he, _⟩ := hn.terms a hx
    exact ⟨c, by simp [Sym.name], ⟨hs, he⟩, by simp [Check.parseChar, hc]⟩

theorem form_print {G : CFG} (hn : G.SimpleNames) {el : List Sym} (h : FormOk G el) :
    (∀ c, c ∈ pr el → CharOk c) ∧ (pr el).map Check.parseChar = el ∧ (el ≠ [] → pr el ≠ []) := by
  induction el with
  | nil => exact ⟨by simp [pr], by simp [pr], fun h => absurd rfl h⟩
  | cons x xs ih =>
    obtain ⟨c, h1, h2, h3⟩ := sym_print hn (h x (List.mem_cons_self ..))
    obtain ⟨i1, i2, _⟩ := ih (fun y hy => h y (List.mem_cons_of_mem _ hy))
    have e : pr (x :: xs) = c :: pr xs := by simp [pr, h1]
    rw [e]
    refine ⟨?_, ?_, fun _ => by simp⟩
    · intro d hd
      rcases List.mem_cons.mp hd with rfl | hd
      · exact h2
      · exact i1 d hd
    · rw [List.map_cons, h3, i2]

/-! ### `split('=>')` -/

theorem splitArrow_ne_nil (l : List Char) : splitArrow l ≠ [] := by
  fun_induction splitArrow l <;> simp_all

theorem splitArrow_arrow (cs : List Char) : splitArrow ('=' :: '>' :: cs) = [] :: splitArrow cs := by
  rw [splitArrow]

theorem splitArrow_cons_ne {c : Char} (hc : c ≠ '=') {cs q : List Char} {qs : List (List Char)}
    (h : splitArrow cs = q :: qs) : splitArrow (c :: cs) = (c :: q) :: qs := by
  rw [splitArrow.eq_3]
  · rw [h]
  · intro cs' he
    exact absurd he hc

theorem splitArrow_append {p : List Char} (hp : ∀ c, c ∈ p → c ≠ '=') {rest q : List Char} {qs : List (List Char)}
    (h : splitArrow rest = q :: qs) : splitArrow (p ++ rest) = (p ++ q) :: qs := by
  induction p with
  | nil => simpa using h
  | cons c p ih =>
    rw [List.cons_append, splitArrow_cons_ne (hp c (List.mem_cons_self ..))
      (ih (fun d hd => hp d (List.mem_cons_of_mem _ hd)))]
    rfl

theorem splitArrow_of_no_eq {p : List Char} (hp : ∀ c, c ∈ p → c ≠ '=') : splitArrow p = [p] := by
  have := splitArrow_append hp (rest := []) (q := []) (qs := []) (by rw [splitArrow])
  simpa using this

/-! ### `' => '.join`, `split('=>')`, `strip()` -/

/-- a printed non-empty form: no white space, no '=' -/
def Piece (p : List Char) : Prop := p ≠ [] ∧ ∀ c, c ∈ p → CharOk c

theorem Piece.head {p : List Char} (h : Piece p) : ∀ c, p.head? = some c → isSpace c = false :=
  fun c hc => (h.2 c (List.mem_of_mem_head? hc)).1
theorem Piece.last {p : List Char} (h : Piece p) : ∀ c, p.getLast? = some c → isSpace c = false :=
  fun c hc => (h.2 c (List.mem_of_getLast? hc)).1

theorem space_ne_eq {c : Char} (h : isSpace c = true) : c ≠ '=' := by
  rintro rfl; revert h; decide

theorem head?_append_ne_nil {α : Type} {p : List α} (hp : p ≠ []) (q : List α) : (p ++ q).head? = p.head? := by
  cases p with
  | nil => exact absurd rfl hp
  | cons x xs => rfl

theorem strip_padded {p : List Char} (h : Piece p) {sp1 sp2 : List Char} (h1 : ∀ c, c ∈ sp1 → isSpace c = true)
    (h2 : ∀ c, c ∈ sp2 → isSpace c = true) : strip (sp1 ++ (p ++ sp2)) = p := by
  rw [strip_eq, dropWhileSpace_spaces_append h1, dropWhileSpace_of_head, rstrip_append_spaces _ h2,
    rstrip_of_getLast h.last]
  intro c hc
  rw [head?_append_ne_nil h.1] at hc
  exact h.head c hc

/-- the separator `' => '` -/
def sep : List Char := [' ', '=', '>', ' ']

theorem joinWith_cons_cons (s p p' : List Char) (ps : List (List Char)) :
    Keys.joinWith s (p :: p' :: ps) = p ++ s ++ Keys.joinWith s (p' :: ps) := by
  rw [Keys.joinWith]
  intro h; cases h

theorem map_strip_splitArrow {ps : List (List Char)} (hne : ps ≠ []) (h : ∀ p, p ∈ ps → Piece p)
    {sp : List Char} (hsp : ∀ c, c ∈ sp → isSpace c = true) :
    (splitArrow (sp ++ Keys.joinWith sep ps)).map strip = ps := by
  induction ps generalizing sp with
  | nil => exact absurd rfl hne
  | cons p ps ih =>
    have hp := h p (List.mem_cons_self ..)
    cases ps with
    | nil =>
      have hno : ∀ c, c ∈ sp ++ p → c ≠ '=' := by
        intro c hc
        rcases List.mem_append.mp hc with hc | hc
        · exact space_ne_eq (hsp c hc)
        · exact (hp.2 c hc).2
      have e : Keys.joinWith sep [p] = p := by rw [Keys.joinWith]
      rw [e, splitArrow_of_no_eq hno, List.map_cons, List.map_nil]
      have := strip_padded hp hsp (sp2 := []) (by simp)
      rw [List.append_nil] at this
      rw [this]
    | cons p' ps =>
      have hno : ∀ c, c ∈ sp ++ (p ++ [' ']) → c ≠ '=' := by
        intro c hc
        simp only [List.mem_append, List.mem_singleton] at hc
        rcases hc with hc | hc | rfl
        · exact space_ne_eq (hsp c hc)
        · exact (hp.2 c hc).2
        · decide
      have e : sp ++ Keys.joinWith sep (p :: p' :: ps) =
          (sp ++ (p ++ [' '])) ++ ('=' :: '>' :: ([' '] ++ Keys.joinWith sep (p' :: ps))) := by
        rw [joinWith_cons_cons]; simp [sep]
      rw [e, splitArrow_append hno (splitArrow_arrow _), List.map_cons, List.append_nil,
        strip_padded hp hsp (by simp [isSpace_space]),
        ih (by simp) (fun x hx => h x (List.mem_cons_of_mem _ hx)) (by simp [isSpace_space])]

theorem joinWith_head {s p : List Char} (hp : p ≠ []) (ps : List (List Char)) :
    (Keys.joinWith s (p :: ps)).head? = p.head? := by
  cases ps with
  | nil => rw [Keys.joinWith]
  | cons p' ps => rw [joinWith_cons_cons, List.append_assoc, head?_append_ne_nil hp]

theorem joinWith_last {s : List Char} {ps : List (List Char)} (hne : ps ≠ []) (h : ∀ p, p ∈ ps → Piece p) :
    ∃ init c, Keys.joinWith s ps = init ++ [c] ∧ isSpace c = false := by
  induction ps with
  | nil => exact absurd rfl hne
  | cons p ps ih =>
    cases ps with
    | nil =>
      have hp := h p (List.mem_cons_self ..)
      rcases List.eq_nil_or_concat p with e | ⟨init, c, e⟩
      · exact absurd e hp.1
      · refine ⟨init, c, ?_, ?_⟩
        · rw [Keys.joinWith, e, List.concat_eq_append]
        · exact (hp.2 c (by rw [e]; simp)).1
    | cons p' ps =>
      obtain ⟨init, c, e, hc⟩ := ih (by simp) (fun x hx => h x (List.mem_cons_of_mem _ hx))
      exact ⟨p ++ s ++ init, c, by rw [joinWith_cons_cons, e]; simp, hc⟩

theorem strip_joinWith {s : List Char} {ps : List (List Char)} (hne : ps ≠ []) (h : ∀ p, p ∈ ps → Piece p) :
    strip (Keys.joinWith s ps) = Keys.joinWith s ps := by
  apply strip_eq_self
  · cases ps with
    | nil => exact absurd rfl hne
    | cons p ps =>
      have hp := h p (List.mem_cons_self ..)
      rw [joinWith_head hp.1]
      exact hp.head
  · obtain ⟨init, c, e, hc⟩ := joinWith_last (s := s) hne h
    rw [e]
    intro d hd
    simp only [List.getLast?_append, List.getLast?_singleton, Option.some_or, Option.some.injEq] at hd
    subst hd
    exact hc

/-- the text round trip: splitting the printed derivation gives back the printed forms -/
theorem words_of_print {ps : List (List Char)} (hne : ps ≠ []) (h : ∀ p, p ∈ ps → Piece p) :
    (splitArrow (strip (Keys.joinWith sep ps))).map strip = ps := by
  rw [strip_joinWith hne h]
  exact map_strip_splitArrow hne h (sp := []) (by simp)

/-! ### the checker on the printed derivation -/

theorem derivationCheck_print {G : CFG} (hn : G.SimpleNames) {w : List String} {kind : Nat} {d : List (List Sym)}
    (hok : ∀ e, e ∈ d → FormOk G e) (hnn : ∀ e, e ∈ d → e ≠ [])
    (hfirst : d.head? = some [.v G.S])
    (hsteps : ∀ p, p ∈ d.zip d.tail → Check.hasDerivation G p.1 p.2 kind = true)
    (hlast : d.getLast? = some (w.map Sym.t)) :
    Check.derivationCheck G (Keys.printDerivation d) w kind = true := by
  have hne : d ≠ [] := by
    intro h; rw [h] at hfirst; cases hfirst
  have hwords : (splitArrow (strip (Keys.printDerivation d).toList)).map strip = d.map pr := by
    have e : (Keys.printDerivation d).toList = Keys.joinWith sep (d.map pr) := by
      unfold Keys.printDerivation
      rw [String.toList_ofList]
      rfl
    rw [e]
    apply words_of_print (by simpa using hne)
    intro p hp
    obtain ⟨el, hel, rfl⟩ := List.mem_map.mp hp
    obtain ⟨h1, _, h3⟩ := form_print hn (hok el hel)
    exact ⟨h3 (hnn el hel), h1⟩
  have helems : (d.map pr).map (fun w => w.map Check.parseChar) = d := by
    rw [List.map_map]
    conv => rhs; rw [← List.map_id d]
    apply List.map_congr_left
    intro el hel
    exact (form_print hn (hok el hel)).2.1
  unfold Check.derivationCheck
  simp only [hwords, helems, Bool.and_eq_true]
  refine ⟨⟨⟨?_, ?_⟩, ?_⟩, ?_⟩
  · rw [List.all_eq_true]
    intro el hel
    rw [List.all_eq_true]
    intro x hx
    have := hok el hel x hx
    cases x with
    | t a => simpa [SymOk] using this
    | v A => simpa [SymOk] using this
  · cases d with
    | nil => exact absurd rfl hne
    | cons a l =>
      simp only [List.head?_cons, Option.some.injEq] at hfirst
      simp [hfirst]
  · rw [List.all_eq_true]
    intro p hp
    exact hsteps p hp
  · rw [hlast]
    simp

end C13d
end Gamba
