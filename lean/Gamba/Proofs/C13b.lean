/-
  Gamba.Proofs.C13b — helper lemmas for "the library's own NFA→DFA answer key passes the library's checker"
  (`Check.nfaToDfaCheck` applied to `Keys.dfaAsNfa (N.toDfa s)`).
-/
import Gamba.Model.Check
import Gamba.Model.Keys
import Gamba.Proofs.C03
import Gamba.Proofs.TextBasic
namespace Gamba
set_option linter.unusedSectionVars false

/-- state names made of word characters only, non-empty (what the notebooks use) -/
def WordName (q : String) : Prop := q ≠ "" ∧ ∀ c, c ∈ q.toList → Text.isWordChar c = true

theorem WordName.toList_ne_nil {q : String} (h : WordName q) : q.toList ≠ [] := by
  intro hc
  apply h.1
  have := Text.str_toList q
  rw [hc] at this
  exact this.symm

theorem WordName.comma_not_mem {q : String} (h : WordName q) : ',' ∉ q.toList := by
  intro hc
  exact Text.isWordChar_ne_comma (h.2 _ hc) rfl

namespace C13b
open Check

/-! ### text level: `print_state_set` followed by `extract_states` -/

/-- the characters between the braces -/
def body (S : List String) : List Char := [','].intercalate ((sortStrings (dedup S)).map String.toList)

theorem printStateSet_toList (S : List String) :
    (printStateSet S).toList = '{' :: body S ++ ['}'] := by
  unfold printStateSet body
  rw [String.toList_append, String.toList_append, Text.toList_intercalate]
  rfl

theorem braced_print (S : List String) : braced (printStateSet S).toList = true := by
  rw [printStateSet_toList]
  have : ('{' :: (body S ++ ['}'])).getLast? = some '}' := by
    rw [← List.cons_append, List.getLast?_append]; rfl
  simp [braced, this]

theorem inner_print (S : List String) : Text.inner (printStateSet S).toList = body S := by
  rw [printStateSet_toList]
  simp [Text.inner]

theorem body_ne_nil {S : List String} (hS : ∀ q, q ∈ S → WordName q) (hne : sortStrings (dedup S) ≠ []) :
    body S ≠ [] := by
  unfold body
  cases hL : sortStrings (dedup S) with
  | nil => exact absurd hL hne
  | cons x xs =>
    have hx : x ∈ S := by
      have : x ∈ sortStrings (dedup S) := by rw [hL]; exact List.mem_cons_self
      simpa using this
    have hxne := (hS x hx).toList_ne_nil
    cases xs with
    | nil => simpa using hxne
    | cons y ys =>
      rw [List.map_cons, List.map_cons, List.intercalate_cons_cons]
      intro hc
      simp at hc

theorem isStateSetLabel_print {S : List String} (hS : ∀ q, q ∈ S → WordName q) :
    isStateSetLabel (printStateSet S) = true := by
  unfold isStateSetLabel
  rw [braced_print, inner_print, Bool.true_and, List.all_eq_true]
  intro c hc
  rcases Text.mem_intercalate hc with h | ⟨x, hx, hcx⟩
  · rw [List.mem_singleton.mp h]; rfl
  · obtain ⟨q, hq, rfl⟩ := List.mem_map.mp hx
    have hq' : q ∈ S := by simpa using hq
    have := (hS q hq').2 c hcx
    simp [isWordChar, this]

/-- `extract_states(print_state_set(S)) == sorted(set(S))` for word names -/
theorem extractSet_print {S : List String} (hS : ∀ q, q ∈ S → WordName q) :
    extractSet (printStateSet S) = sortStrings (dedup S) := by
  unfold extractSet
  rw [braced_print, if_pos rfl, inner_print]
  by_cases hne : sortStrings (dedup S) = []
  · have : body S = [] := by unfold body; rw [hne]; rfl
    rw [this, hne]; rfl
  · have hb := body_ne_nil hS hne
    have hemp : (body S).isEmpty = false := by
      cases h : body S with
      | nil => exact absurd h hb
      | cons _ _ => rfl
    simp only [hemp, Bool.false_eq_true, if_false]
    unfold body
    rw [Text.splitOn_intercalate]
    · rw [Text.map_str_map_toList]
      exact dedup_eq_self_of_nodup (nodup_sortStrings_dedup S)
    · simpa using hne
    · intro p hp
      obtain ⟨q, hq, rfl⟩ := List.mem_map.mp hp
      have hq' : q ∈ S := by simpa using hq
      exact (hS q hq').comma_not_mem

theorem mem_extractSet_print {S : List String} (hS : ∀ q, q ∈ S → WordName q) (x : String) :
    x ∈ extractSet (printStateSet S) ↔ x ∈ S := by
  rw [extractSet_print hS]; simp

/-- equal names ⇒ same members -/
theorem print_eq_mem {S T : List String} (hS : ∀ q, q ∈ S → WordName q) (hT : ∀ q, q ∈ T → WordName q)
    (h : printStateSet S = printStateSet T) (x : String) : x ∈ S ↔ x ∈ T := by
  rw [← mem_extractSet_print hS, h, mem_extractSet_print hT]

/-! ### generic helpers -/

theorem allM_ok_true {α : Type} {f : α → Except Err Bool} (l : List α) (h : ∀ x, x ∈ l → f x = .ok true) :
    l.allM f = .ok true := by
  induction l with
  | nil => rfl
  | cons x l ih =>
    rw [List.allM_cons, h x List.mem_cons_self]
    exact ih (fun y hy => h y (List.mem_cons_of_mem _ hy))

/-- a successful lookup in a re-keyed dict comes from an entry that is also the *first* entry for its own key -/
theorem lookup_map_first {κ ν κ' ν' : Type} {i : BEq κ} [LawfulBEq κ] {i' : BEq κ'} [LawfulBEq κ']
    (g : κ → κ') (h : ν → ν') (d : List (κ × ν)) {k' : κ'} {v' : ν'}
    (hl : (d.map fun e => (g e.1, h e.2)).lookup k' = some v') :
    ∃ k v, (k, v) ∈ d ∧ d.lookup k = some v ∧ g k = k' ∧ h v = v' := by
  induction d with
  | nil => simp at hl
  | cons e d ih =>
    obtain ⟨k1, v1⟩ := e
    rw [List.map_cons, List.lookup_cons] at hl
    by_cases hk : k' = g k1
    · subst hk
      simp only [beq_self_eq_true, Option.some.injEq] at hl
      exact ⟨k1, v1, List.mem_cons_self, by simp, rfl, hl⟩
    · have hb : (k' == g k1) = false := beq_eq_false_iff_ne.mpr hk
      simp only [hb] at hl
      obtain ⟨k, v, h0, h1, h2, h3⟩ := ih hl
      refine ⟨k, v, List.mem_cons_of_mem _ h0, ?_, h2, h3⟩
      have hne : k ≠ k1 := fun hc => hk (by rw [← h2, hc])
      rw [List.lookup_cons, beq_eq_false_iff_ne.mpr hne]
      exact h1

theorem lookup_map_none {κ ν κ' ν' : Type} {i : BEq κ} [LawfulBEq κ] {i' : BEq κ'} [LawfulBEq κ']
    (g : κ → κ') (h : ν → ν') (d : List (κ × ν)) {k : κ}
    (hl : (d.map fun e => (g e.1, h e.2)).lookup (g k) = none) : d.lookup k = none := by
  induction d with
  | nil => rfl
  | cons e d ih =>
    obtain ⟨k1, v1⟩ := e
    rw [List.map_cons, List.lookup_cons] at hl
    by_cases hk : g k = g k1
    · rw [hk] at hl; simp at hl
    · have hne : k ≠ k1 := fun hc => hk (by rw [hc])
      rw [beq_eq_false_iff_ne.mpr hk] at hl
      rw [List.lookup_cons, beq_eq_false_iff_ne.mpr hne]
      exact ih hl

/-- the same two facts for pair keys, phrased with `C03.dget` (the lookup used by the loop invariant `OInv`) -/
theorem dget_map_first {κ₁ κ₂ ν κ' ν' : Type} [DecidableEq κ₁] [DecidableEq κ₂] {i' : BEq κ'} [LawfulBEq κ']
    (g : κ₁ × κ₂ → κ') (h : ν → ν') (d : List ((κ₁ × κ₂) × ν)) {k' : κ'} {v' : ν'}
    (hl : (d.map fun e => (g e.1, h e.2)).lookup k' = some v') :
    ∃ q a v, ((q, a), v) ∈ d ∧ C03.dget d q a = some v ∧ g (q, a) = k' ∧ h v = v' := by
  obtain ⟨⟨q, a⟩, v, h0, h1, h2, h3⟩ := lookup_map_first g h d hl
  exact ⟨q, a, v, h0, h1, h2, h3⟩

theorem dget_map_none {κ₁ κ₂ ν κ' ν' : Type} [DecidableEq κ₁] [DecidableEq κ₂] {i' : BEq κ'} [LawfulBEq κ']
    (g : κ₁ × κ₂ → κ') (h : ν → ν') (d : List ((κ₁ × κ₂) × ν)) {q : κ₁} {a : κ₂}
    (hl : (d.map fun e => (g e.1, h e.2)).lookup (g (q, a)) = none) : C03.dget d q a = none :=
  lookup_map_none g h d hl

/-! ### ε-reachability depends only on the members of the start set -/

section
variable {σ τ : Type} [DecidableEq σ] [DecidableEq τ]

theorem epsReach_mono {N : NFA σ τ} {A B : List σ} (h : ∀ x, x ∈ A → x ∈ B) {q : σ}
    (hr : N.EpsReach A q) : N.EpsReach B q := by
  induction hr with
  | base hm => exact NFA.EpsReach.base (h _ hm)
  | step _ hs ih => exact NFA.EpsReach.step ih hs

/-- members of `closure (move E a)` (no canonical filtering) -/
theorem mem_closureT_moveSet {N : NFA σ τ} (hv : N.valid = true) (s : Sched) (E : List σ) (a : τ) (q : σ) :
    q ∈ N.closureT s (N.moveSet E a) ↔ ∃ p, p ∈ E ∧ ∃ q1, N.Succ p a q1 ∧ N.EpsReach [q1] q := by
  rw [NFA.mem_closureT hv]
  constructor
  · intro he
    obtain ⟨x, hx, he'⟩ := he.exists_base
    obtain ⟨p, hp, hs⟩ := (N.mem_moveSet _ _ _).mp hx
    exact ⟨p, hp, x, hs, he'⟩
  · rintro ⟨p, hp, q1, hs, he⟩
    exact NFA.EpsReach.trans (NFA.EpsReach.base ((N.mem_moveSet _ _ _).mpr ⟨p, hp, hs⟩)) he

/-- the accumulator reached by the subset construction, with its loop invariant -/
theorem toDfaSets_acc {N : NFA σ τ} (hv : N.valid = true) (s : Sched) :
    ∃ acc, N.toDfaSets s = .ok (acc.toDFA N.Sigma (N.canon (N.closureT s [N.q0]))) ∧
      N.OInv s (N.canon (N.closureT s [N.q0])) acc ∧ acc.todo = [] := by
  have h0 := NFA.OInv.initial hv s
  obtain ⟨acc, hacc⟩ := NFA.subsetLoop_terminates hv s _ (2 ^ N.Q.length + 1) _ h0 (by
    simp only [List.length_singleton]
    have : 0 < 2 ^ N.Q.length := Nat.pow_pos (by decide)
    generalize 2 ^ N.Q.length = M at *
    omega)
  obtain ⟨h1, ht⟩ := NFA.subsetLoop_inv hv s _ _ _ _ h0 hacc
  have hfin := h1.final hv ht
  refine ⟨acc, ?_, h1, ht⟩
  rw [NFA.toDfaSets_eq hv, hacc]
  show DFA.checked _ = _
  unfold DFA.checked
  rw [if_pos hfin.1]

end

/-! ### a sufficient condition for the checker to print "OK" -/

theorem nfaToDfaCheck_of (N answer : NFA String String) (s : Sched) (hv : N.valid = true)
    (h1 : answer.Q ≠ [])
    (h2 : ∀ a, a ∈ N.Sigma ↔ a ∈ answer.Sigma)
    (h3 : ∀ q, q ∈ answer.Q → isStateSetLabel q = true ∧ ∀ x, x ∈ extractSet q → x ∈ N.Q)
    (h4 : ∀ x, x ∈ extractSet answer.q0 ↔ N.EpsReach [N.q0] x)
    (h5 : ∀ q, q ∈ answer.Q → (q ∈ answer.F ↔ ∃ x, x ∈ extractSet q ∧ x ∈ N.F))
    (h6 : ∀ q, q ∈ answer.Q → ∀ a, a ∈ answer.Sigma → ∃ q1, answer.succ q a = [q1] ∧
      ∀ x, x ∈ extractSet q1 ↔ x ∈ N.closureT s (N.moveSet (extractSet q) a))
    (h7 : ∀ e, e ∈ answer.delta → e.1.2 ≠ answer.eps) :
    nfaToDfaCheck N answer s = .ok true := by
  unfold nfaToDfaCheck
  simp only [NFA.closure_eq_ok hv]
  rw [allM_ok_true]
  · show Except.ok _ = Except.ok true
    congr 1
    simp only [Bool.and_eq_true]
    refine ⟨⟨⟨⟨⟨⟨⟨?_, ?_⟩, ?_⟩, ?_⟩, ?_⟩, trivial⟩, ?_⟩, ?_⟩
    · cases hQ : answer.Q with
      | nil => exact absurd hQ h1
      | cons _ _ => rfl
    · exact seq_iff.mpr h2
    · rw [List.all_eq_true]
      intro q hq
      rw [Bool.and_eq_true, ssubset_iff]
      exact h3 q hq
    · exact seq_iff.mpr (fun x => (h4 x).trans (NFA.mem_closureT hv s _ x).symm)
    · rw [List.all_eq_true]
      intro q hq
      rw [beq_iff_eq]
      cases hd : sdisjoint (extractSet q) N.F with
      | true =>
        rw [sdisjoint_iff] at hd
        simp only [Bool.not_true, decide_eq_false_iff_not]
        intro hf
        obtain ⟨x, hx1, hx2⟩ := (h5 q hq).mp hf
        exact hd x hx1 hx2
      | false =>
        rw [sdisjoint_false_iff] at hd
        simp only [Bool.not_false, decide_eq_true_eq]
        exact (h5 q hq).mpr hd
    · rw [List.all_eq_true]
      intro e he
      have := h7 e he
      simp [this]
    · rw [List.all_eq_true]
      rintro ⟨q, a⟩ hqa
      obtain ⟨q', hq', hm⟩ := List.mem_flatMap.mp hqa
      obtain ⟨a', ha', he⟩ := List.mem_map.mp hm
      cases he
      obtain ⟨q1, hs, _⟩ := h6 q hq' a ha'
      simp only [hs, dedup, List.not_mem_nil, if_false]
      rfl
  · rintro ⟨q, a⟩ hqa
    obtain ⟨q', hq', hm⟩ := List.mem_flatMap.mp hqa
    obtain ⟨a', ha', he⟩ := List.mem_map.mp hm
    cases he
    obtain ⟨q1, hs, hx⟩ := h6 q hq' a ha'
    simp only [hs, dedup, List.not_mem_nil, if_false]
    show Except.ok _ = _
    rw [seq_iff.mpr hx]

/-! ### the answer key of the NFA→DFA exercise -/

/-- re-keying / re-valuing of δ done by `mapStates printStateSet` followed by `dfaAsNfa` -/
def gKey (k : List String × String) : String × String := (printStateSet k.1, k.2)
def hVal (v : List String) : List String := [printStateSet v]

theorem answer_delta (D : DFA (List String) String) (eps : String) :
    (Keys.dfaAsNfa (D.mapStates printStateSet) eps).delta = D.delta.map fun e => (gKey e.1, hVal e.2) := by
  show List.map _ (List.map _ D.delta) = _
  rw [List.map_map]
  rfl

theorem own_ok (N : NFA String String) (hv : N.valid = true)
    (hn : ∀ q, q ∈ N.Q → WordName q) (s s' : Sched) (eps : String) (he : eps ∉ N.Sigma) :
    ∃ D, N.toDfa s = .ok D ∧ nfaToDfaCheck N (Keys.dfaAsNfa D eps) s' = .ok true := by
  obtain ⟨acc, hacc, hI, ht⟩ := toDfaSets_acc hv s
  refine ⟨(acc.toDFA N.Sigma (N.canon (N.closureT s [N.q0]))).mapStates printStateSet, ?_, ?_⟩
  · unfold NFA.toDfa
    rw [hacc]
    rfl
  have hsubQ : ∀ S, S ∈ acc.Q → ∀ q, q ∈ S → q ∈ N.Q := by
    intro S hS q hq
    obtain ⟨u, _, hsub⟩ := hI.sub S hS
    exact hsub.mem_Q hq
  have hW : ∀ S, S ∈ acc.Q → ∀ q, q ∈ S → WordName q := fun S hS q hq => hn q (hsubQ S hS q hq)
  have hnt : ∀ S, S ∉ acc.todo := by intro S; rw [ht]; simp
  apply nfaToDfaCheck_of N _ s' hv
  · show acc.Q.map printStateSet ≠ []
    intro hc
    have := hI.q0
    rw [List.map_eq_nil_iff] at hc
    rw [hc] at this
    cases this
  · intro a; exact Iff.rfl
  · intro q hq
    obtain ⟨S, hS, rfl⟩ := List.mem_map.mp hq
    refine ⟨isStateSetLabel_print (hW S hS), ?_⟩
    intro x hx
    exact hsubQ S hS x ((mem_extractSet_print (hW S hS) x).mp hx)
  · intro x
    show x ∈ extractSet (printStateSet (N.canon (N.closureT s [N.q0]))) ↔ _
    rw [mem_extractSet_print (hW _ hI.q0), N.mem_canon, NFA.mem_closureT hv]
    constructor
    · exact fun h => h.2
    · intro h
      refine ⟨NFA.EpsReach.mem_Q hv (S := [N.q0]) ?_ h, h⟩
      intro y hy
      rw [List.mem_singleton.mp hy]
      exact NFA.valid_q0 hv
  · intro q hq
    obtain ⟨S, hS, rfl⟩ := List.mem_map.mp hq
    show printStateSet S ∈ acc.F.map printStateSet ↔ _
    constructor
    · intro hf
      obtain ⟨S', hS', hname⟩ := List.mem_map.mp hf
      obtain ⟨hS'Q, hd⟩ := (hI.fin S').mp hS'
      obtain ⟨x, hx1, hx2⟩ := sdisjoint_false_iff.mp hd
      refine ⟨x, ?_, hx2⟩
      rw [mem_extractSet_print (hW S hS)]
      exact (print_eq_mem (hW S' hS'Q) (hW S hS) hname x).mp hx1
    · rintro ⟨x, hx1, hx2⟩
      rw [mem_extractSet_print (hW S hS)] at hx1
      exact List.mem_map_of_mem ((hI.fin S).mpr ⟨hS, sdisjoint_false_iff.mpr ⟨x, hx1, hx2⟩⟩)
  · intro q hq a ha
    obtain ⟨S, hS, rfl⟩ := List.mem_map.mp hq
    have ha' : a ∈ N.Sigma := ha
    have hl := (hI.dlt S hS (hnt S) a ha').1
    have key : ∃ S', S' ∈ acc.Q ∧ printStateSet S' = printStateSet S ∧ N.stepT s S' a ∈ acc.Q ∧
        (Keys.dfaAsNfa ((acc.toDFA N.Sigma (N.canon (N.closureT s [N.q0]))).mapStates printStateSet) eps).succ
          (printStateSet S) a = [printStateSet (N.stepT s S' a)] := by
      unfold NFA.succ
      rw [answer_delta]
      show ∃ S', S' ∈ acc.Q ∧ printStateSet S' = printStateSet S ∧ N.stepT s S' a ∈ acc.Q ∧
        (List.lookup (gKey (S, a)) (List.map (fun e => (gKey e.1, hVal e.2)) acc.delta)).getD [] = _
      generalize hlk : List.lookup (gKey (S, a)) (List.map (fun e => (gKey e.1, hVal e.2)) acc.delta) = o
      cases o with
      | none =>
        have := dget_map_none gKey hVal acc.delta hlk
        rw [hl] at this
        cases this
      | some v' =>
        obtain ⟨S', a1, v, hk0, hk1, hk2, hk3⟩ := dget_map_first gKey hVal acc.delta hlk
        simp only [gKey, Prod.mk.injEq] at hk2
        obtain ⟨hname, rfl⟩ := hk2
        have hS' : S' ∈ acc.Q := (hI.closed _ hk0).1
        obtain ⟨hl', hstep⟩ := hI.dlt S' hS' (hnt S') a1 ha'
        rw [hk1] at hl'
        cases hl'
        exact ⟨S', hS', hname, hstep, by rw [← hk3]; rfl⟩
    obtain ⟨S', hS', hname, hstep, hsucc⟩ := key
    refine ⟨printStateSet (N.stepT s S' a), hsucc, ?_⟩
    intro x
    rw [mem_extractSet_print (hW _ hstep), NFA.mem_stepT hv, mem_closureT_moveSet hv]
    constructor
    · rintro ⟨p, hp, r⟩
      exact ⟨p, (mem_extractSet_print (hW S hS) p).mpr ((print_eq_mem (hW S' hS') (hW S hS) hname p).mp hp), r⟩
    · rintro ⟨p, hp, r⟩
      exact ⟨p, (print_eq_mem (hW S' hS') (hW S hS) hname p).mpr ((mem_extractSet_print (hW S hS) p).mp hp), r⟩
  · intro e hem
    rw [answer_delta] at hem
    obtain ⟨e0, he0, rfl⟩ := List.mem_map.mp hem
    show e0.1.2 ≠ eps
    intro hc
    exact he (hc ▸ (hI.closed e0 he0).2.1)

/-! ### the hypothesis on the names is needed -/

/-- a one-symbol NFA whose initial state is called `a,b` -/
def cexN : NFA String String :=
  { Q := ["a,b", "c"], Sigma := ["x"], delta := [(("a,b", "x"), ["c"])], q0 := "a,b", F := ["c"], eps := "eps" }

def cexD : DFA (List String) String :=
  { Q := [["a,b"], ["c"], []], Sigma := ["x"],
    delta := [((["a,b"], "x"), ["c"]), ((["c"], "x"), []), (([], "x"), [])], q0 := ["a,b"], F := [["c"]] }

def cexDnamed : DFA String String :=
  { Q := ["{a,b}", "{c}", "{}"], Sigma := ["x"],
    delta := [(("{a,b}", "x"), "{c}"), (("{c}", "x"), "{}"), (("{}", "x"), "{}")], q0 := "{a,b}", F := ["{c}"] }

theorem cexN_toDfaSets : cexN.toDfaSets [] = .ok cexD := by rfl

theorem cexD_named : cexD.mapStates printStateSet = cexDnamed := by
  simp [DFA.mapStates, cexD, cexDnamed, printStateSet, sortStrings, dedup]

theorem cexN_rejected :
    ∃ D, cexN.toDfa [] = .ok D ∧ nfaToDfaCheck cexN (Keys.dfaAsNfa D "eps") [] = .ok false := by
  refine ⟨cexDnamed, ?_, by rfl⟩
  unfold NFA.toDfa
  rw [cexN_toDfaSets]
  show Except.ok (cexD.mapStates printStateSet) = _
  rw [cexD_named]

end C13b
end Gamba
