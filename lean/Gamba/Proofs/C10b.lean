/-
  Gamba.Proofs.C10b — Sipser's Lemma 2.27 for the model of the triple construction (`SPDA.tripleCfg`):
  for a PDA in push/pop form the variable `A_pq` generates exactly the words that take the PDA from
  `(p, [])` to `(q, [])`.
-/
import Gamba.Model.PDA
import Gamba.Model.CFG
import Gamba.Spec.PDA
import Gamba.Spec.CFG
import Gamba.Proofs.CFGBasic
import Gamba.Proofs.C09
import Gamba.Proofs.C02pda
namespace Gamba

/-- names `p'q` are unambiguous on the state set -/
def SPDA.VarInj (P : SPDA) : Prop :=
  ∀ p q p' q', p ∈ P.Q → q ∈ P.Q → p' ∈ P.Q → q' ∈ P.Q → pdaVar p q = pdaVar p' q' → p = p' ∧ q = q'

namespace C10b

/-! ### generic PDA lemmas: moves, frames, step-counted runs -/
section generic
variable {σ τ γ : Type} [DecidableEq σ] [DecidableEq τ] [DecidableEq γ]

theorem move_iff {P : PDA σ τ γ} {a : τ} {c c' : PConf σ γ} :
    P.Move a c c' ↔ ∃ p q u v T st, P.delta.lookup (p, a, u) = some T ∧ (q, v) ∈ T ∧
      c = (p, st ++ P.stk u) ∧ c' = (q, st ++ P.stk v) := by
  constructor
  · intro h
    cases h with
    | mk h1 h2 => exact ⟨_, _, _, _, _, _, h1, h2, rfl, rfl⟩
  · rintro ⟨p, q, u, v, T, st, h1, h2, rfl, rfl⟩
    exact .mk h1 h2

/-- a move never looks below what it needs -/
theorem move_frame {P : PDA σ τ γ} {a : τ} {p q : σ} {st st' : List γ} (base : List γ)
    (h : P.Move a (p, st) (q, st')) : P.Move a (p, base ++ st) (q, base ++ st') := by
  obtain ⟨p', q', u, v, T, s0, h1, h2, hc, hc'⟩ := move_iff.mp h
  cases hc
  cases hc'
  rw [← List.append_assoc, ← List.append_assoc]
  exact .mk h1 h2

theorem run_frame {P : PDA σ τ γ} (base : List γ) {c c' : PConf σ γ} {w : List τ} (h : P.Run c w c') :
    P.Run (c.1, base ++ c.2) w (c'.1, base ++ c'.2) := by
  induction h with
  | nil c => exact .nil _
  | eps hm _ ih => exact .eps (move_frame base hm) ih
  | sym ha hm _ ih => exact .sym ha (move_frame base hm) ih

/-- the word consumed by a move reading `a` -/
def wd (P : PDA σ τ γ) (a : τ) : List τ := if a = P.eps then [] else [a]

theorem run_of_move {P : PDA σ τ γ} {a : τ} {c c' c'' : PConf σ γ} {w : List τ}
    (h : P.Move a c c') (h2 : P.Run c' w c'') : P.Run c (wd P a ++ w) c'' := by
  unfold wd
  split
  · next he => subst he; exact .eps h h2
  · next he => exact .sym he h h2

/-- runs with a move count -/
inductive RunN (P : PDA σ τ γ) : Nat → PConf σ γ → List τ → PConf σ γ → Prop
  | nil (c : PConf σ γ) : RunN P 0 c [] c
  | step {n : Nat} {c c' c'' : PConf σ γ} {a : τ} {w : List τ} :
      P.Move a c c' → RunN P n c' w c'' → RunN P (n + 1) c (wd P a ++ w) c''

theorem runN_run {P : PDA σ τ γ} {n : Nat} {c c' : PConf σ γ} {w : List τ} (h : RunN P n c w c') :
    P.Run c w c' := by
  induction h with
  | nil c => exact .nil c
  | step hm _ ih => exact run_of_move hm ih

theorem run_runN {P : PDA σ τ γ} {c c' : PConf σ γ} {w : List τ} (h : P.Run c w c') :
    ∃ n, RunN P n c w c' := by
  induction h with
  | nil c => exact ⟨0, .nil c⟩
  | eps hm _ ih =>
    obtain ⟨n, hn⟩ := ih
    have := RunN.step hm hn
    simp only [wd, if_true, List.nil_append] at this
    exact ⟨_, this⟩
  | sym ha hm _ ih =>
    obtain ⟨n, hn⟩ := ih
    have := RunN.step hm hn
    simp only [wd, if_neg ha, List.cons_append, List.nil_append] at this
    exact ⟨_, this⟩

theorem runN_zero {P : PDA σ τ γ} {c c' : PConf σ γ} {w : List τ} (h : RunN P 0 c w c') :
    w = [] ∧ c' = c := by
  cases h; exact ⟨rfl, rfl⟩

theorem runN_succ {P : PDA σ τ γ} {n : Nat} {c c'' : PConf σ γ} {w : List τ} (h : RunN P (n + 1) c w c'') :
    ∃ a c' w', P.Move a c c' ∧ RunN P n c' w' c'' ∧ w = wd P a ++ w' := by
  cases h with
  | step hm hr => exact ⟨_, _, _, hm, hr, rfl⟩

/-- membership form of a transition `p --a, u→v--> q` -/
def Trans (P : PDA σ τ γ) (p : σ) (a : τ) (u : γ) (q : σ) (v : γ) : Prop :=
  ∃ T, ((p, a, u), T) ∈ P.delta ∧ (q, v) ∈ T

theorem trans_valid {P : PDA σ τ γ} (hv : P.valid = true) {p q : σ} {a : τ} {u v : γ} (h : Trans P p a u q v) :
    p ∈ P.Q ∧ q ∈ P.Q ∧ (u ∈ P.Gamma ∨ u = P.epsG) ∧ (v ∈ P.Gamma ∨ v = P.epsG) := by
  obtain ⟨T, hm, ht⟩ := h
  simp only [PDA.valid, Bool.and_eq_true, List.all_eq_true, decide_eq_true_eq, Bool.or_eq_true] at hv
  have h1 := hv.2 _ hm
  have h2 := h1.2 _ ht
  exact ⟨h1.1.1.1, h2.1, h1.1.2, h2.2⟩

omit [DecidableEq σ] [DecidableEq τ] in
theorem trans_pp {P : PDA σ τ γ} (hpp : P.isPushPop = true) {p q : σ} {a : τ} {u v : γ} (h : Trans P p a u q v) :
    (u = P.epsG ∧ v ≠ P.epsG) ∨ (u ≠ P.epsG ∧ v = P.epsG) := by
  obtain ⟨T, hm, ht⟩ := h
  simp only [PDA.isPushPop, List.all_eq_true, Bool.or_eq_true, Bool.and_eq_true, decide_eq_true_eq] at hpp
  exact hpp _ hm _ ht

theorem move_push {P : PDA σ τ γ} (hk : (P.delta.map (·.1)).Nodup) {p q : σ} {a : τ} {v : γ}
    (h : Trans P p a P.epsG q v) (hv : v ≠ P.epsG) (st : List γ) : P.Move a (p, st) (q, st ++ [v]) := by
  obtain ⟨T, hm, ht⟩ := h
  have := PDA.Move.mk (st := st) (C09.lookup_of_mem_nodup hk hm) ht
  simpa [PDA.stk, hv] using this

theorem move_pop {P : PDA σ τ γ} (hk : (P.delta.map (·.1)).Nodup) {p q : σ} {a : τ} {u : γ}
    (h : Trans P p a u q P.epsG) (hu : u ≠ P.epsG) (st : List γ) : P.Move a (p, st ++ [u]) (q, st) := by
  obtain ⟨T, hm, ht⟩ := h
  have := PDA.Move.mk (st := st) (C09.lookup_of_mem_nodup hk hm) ht
  simpa [PDA.stk, hu] using this

/-- in push/pop form every move is a push or a pop of a proper stack symbol -/
theorem move_cases {P : PDA σ τ γ} (hv : P.valid = true) (hpp : P.isPushPop = true) {a : τ} {p q : σ}
    {st st' : List γ} (h : P.Move a (p, st) (q, st')) :
    (∃ v, Trans P p a P.epsG q v ∧ v ≠ P.epsG ∧ v ∈ P.Gamma ∧ st' = st ++ [v]) ∨
    (∃ u, Trans P p a u q P.epsG ∧ u ≠ P.epsG ∧ u ∈ P.Gamma ∧ st = st' ++ [u]) := by
  obtain ⟨p', q', u, v, T, s0, h1, h2, hc, hc'⟩ := move_iff.mp h
  cases hc
  cases hc'
  have ht : Trans P p a u q v := ⟨T, C09.lookup_mem h1, h2⟩
  obtain ⟨_, _, hu, hv'⟩ := trans_valid hv ht
  rcases trans_pp hpp ht with ⟨rfl, hne⟩ | ⟨hne, rfl⟩
  · left
    refine ⟨v, ht, hne, ?_, ?_⟩
    · rcases hv' with h | h
      · exact h
      · exact absurd h hne
    · simp [PDA.stk, hne]
  · right
    refine ⟨u, ht, hne, ?_, ?_⟩
    · rcases hu with h | h
      · exact h
      · exact absurd h hne
    · simp [PDA.stk, hne]

/-- the first time the bottom symbol `u` is popped: before that the run never touches `u` -/
theorem runN_firstpop {P : PDA σ τ γ} (hv : P.valid = true) (hk : (P.delta.map (·.1)).Nodup)
    (hpp : P.isPushPop = true) (u : γ) :
    ∀ (m : Nat) (r : σ) (st : List γ) (w : List τ) (q : σ), RunN P m (r, u :: st) w (q, []) →
      ∃ m1 m2 w1 b w2 s q', m = m1 + 1 + m2 ∧ w = w1 ++ wd P b ++ w2 ∧ RunN P m1 (r, st) w1 (s, []) ∧
        Trans P s b u q' P.epsG ∧ u ≠ P.epsG ∧ u ∈ P.Gamma ∧ RunN P m2 (q', []) w2 (q, []) := by
  intro m
  induction m with
  | zero =>
    intro r st w q h
    have := (runN_zero h).2
    simp at this
  | succ m ih =>
    intro r st w q h
    obtain ⟨a, ⟨r1, st1⟩, w', hm, hr, rfl⟩ := runN_succ h
    rcases move_cases hv hpp hm with ⟨v, ht, hne, hvG, rfl⟩ | ⟨u', ht, hne, huG, hst⟩
    · -- push
      rw [List.cons_append] at hr
      obtain ⟨m1, m2, w1, b, w2, s, q', rfl, rfl, h1, h2, h3, h3', h4⟩ := ih r1 (st ++ [v]) w' q hr
      refine ⟨m1 + 1, m2, wd P a ++ w1, b, w2, s, q', by omega, by simp [List.append_assoc], ?_, h2, h3, h3', h4⟩
      exact .step (move_push hk ht hne st) h1
    · -- pop
      cases st1 with
      | nil =>
        simp only [List.nil_append, List.cons.injEq] at hst
        obtain ⟨rfl, rfl⟩ := hst
        exact ⟨0, m, [], a, w', r, r1, by omega, by simp, .nil _, ht, hne, huG, hr⟩
      | cons x st1 =>
        simp only [List.cons_append, List.cons.injEq] at hst
        obtain ⟨rfl, rfl⟩ := hst
        obtain ⟨m1, m2, w1, b, w2, s, q', rfl, rfl, h1, h2, h3, h3', h4⟩ := ih r1 st1 w' q hr
        refine ⟨m1 + 1, m2, wd P a ++ w1, b, w2, s, q', by omega, by simp [List.append_assoc], ?_, h2, h3, h3', h4⟩
        exact .step (move_pop hk ht hne st1) h1

end generic

/-! ### the rules of the triple grammar -/

/-- the terminal form of an input symbol (`term` in `tripleRules`) -/
def tm (P : SPDA) (a : String) : List Sym := (wd P a).map Sym.t

def rhsSym (x : Bool × String) : Sym := if x.1 then Sym.v x.2 else Sym.t x.2

theorem hasRule_raw (P : SPDA) (qa A : String) (rhs : List Sym) :
    (P.tripleCfg qa).HasRule A rhs ↔ ∃ r, r ∈ P.tripleRules ∧ r.1 = A ∧ r.2.map rhsSym = rhs := by
  unfold CFG.HasRule SPDA.tripleCfg
  simp only [List.mem_map]
  constructor
  · rintro ⟨_, ⟨⟨r, i⟩, hmem, rfl⟩, rfl, rfl⟩
    exact ⟨r, List.fst_mem_of_mem_zipIdx hmem, rfl, rfl⟩
  · rintro ⟨r, hr, rfl, rfl⟩
    obtain ⟨i, hi⟩ := List.getElem?_of_mem hr
    exact ⟨_, ⟨(r, i), List.mk_mem_zipIdx_iff_getElem?.mpr hi, rfl⟩, rfl, rfl⟩

theorem map_term (P : SPDA) (a : String) :
    (if a = P.eps then [] else [(false, a)]).map rhsSym = tm P a := by
  unfold tm wd
  split <;> simp [rhsSym]

theorem hasRule_iff (P : SPDA) (qa A : String) (rhs : List Sym) :
    (P.tripleCfg qa).HasRule A rhs ↔
      (∃ u p a r s b q v, u ∈ P.Gamma ∧ Trans P p a P.eps r u ∧ Trans P s b u q v ∧ u ≠ P.eps ∧
          A = pdaVar p q ∧ rhs = tm P a ++ [.v (pdaVar r s)] ++ tm P b) ∨
      (∃ p q r, p ∈ P.Q ∧ q ∈ P.Q ∧ r ∈ P.Q ∧ A = pdaVar p q ∧ rhs = [.v (pdaVar p r), .v (pdaVar r q)]) ∨
      (∃ p, p ∈ P.Q ∧ A = pdaVar p p ∧ rhs = []) := by
  rw [hasRule_raw]
  unfold SPDA.tripleRules
  simp only [List.mem_append, List.mem_flatMap, List.mem_map, List.mem_filter, decide_eq_true_eq]
  constructor
  · rintro ⟨x, hx, rfl, rfl⟩
    rcases hx with (⟨u, hu, t1, ⟨⟨⟨e1, he1, t1', ht1', rfl⟩, h1⟩, h2⟩, t2, ⟨⟨⟨e2, he2, t2', ht2', rfl⟩, h3⟩, h4⟩, rfl⟩ |
      ⟨p, hp, q, hq, r, hr, rfl⟩) | ⟨p, hp, rfl⟩
    · left
      obtain ⟨⟨p, a, u1⟩, T1⟩ := e1
      obtain ⟨⟨s, b, u2⟩, T2⟩ := e2
      obtain ⟨r, v1⟩ := t1'
      obtain ⟨q, v2⟩ := t2'
      simp only at h1 h2 h3 h4 ht1' ht2'
      subst h1 h2 h4
      refine ⟨_, p, a, r, s, b, q, v2, hu, ⟨T1, he1, ht1'⟩, ⟨T2, he2, ht2'⟩, h3, rfl, ?_⟩
      simp only [List.map_append, map_term, List.map_cons, List.map_nil, rhsSym, if_true]
    · right; left
      exact ⟨p, q, r, hp, hq, hr, rfl, by simp [rhsSym]⟩
    · right; right
      exact ⟨p, hp, rfl, rfl⟩
  · rintro (⟨u, p, a, r, s, b, q, v, hu, ⟨T1, he1, ht1⟩, ⟨T2, he2, ht2⟩, hne, rfl, rfl⟩ |
      ⟨p, q, r, hp, hq, hr, rfl, rfl⟩ | ⟨p, hp, rfl, rfl⟩)
    · refine ⟨_, .inl (.inl ⟨u, hu, (p, a, P.eps, r, u), ⟨⟨⟨_, he1, _, ht1, rfl⟩, rfl⟩, rfl⟩,
        (s, b, u, q, v), ⟨⟨⟨_, he2, _, ht2, rfl⟩, hne⟩, rfl⟩, rfl⟩), rfl, ?_⟩
      simp only [List.map_append, map_term, List.map_cons, List.map_nil, rhsSym, if_true]
    · exact ⟨_, .inl (.inr ⟨p, hp, q, hq, r, hr, rfl⟩), rfl, by simp [rhsSym]⟩
    · exact ⟨_, .inr ⟨p, hp, rfl⟩, rfl, rfl⟩

/-! ### soundness -/

/-- what a single symbol of a sentential form may generate -/
def SymOK (P : SPDA) : Sym → List String → Prop
  | .t a, w => w = [a]
  | .v A, w => ∀ p q, p ∈ P.Q → q ∈ P.Q → A = pdaVar p q → P.Run (p, []) w (q, [])

inductive FormOK (P : SPDA) : List Sym → List String → Prop
  | nil : FormOK P [] []
  | cons {x : Sym} {f : List Sym} {u w : List String} : SymOK P x u → FormOK P f w → FormOK P (x :: f) (u ++ w)

theorem formOK_nil {P : SPDA} {w : List String} (h : FormOK P [] w) : w = [] := by
  cases h; rfl

theorem formOK_cons {P : SPDA} {x : Sym} {f : List Sym} {w : List String} (h : FormOK P (x :: f) w) :
    ∃ u w', w = u ++ w' ∧ SymOK P x u ∧ FormOK P f w' := by
  cases h with
  | cons h1 h2 => exact ⟨_, _, rfl, h1, h2⟩

theorem formOK_tm {P : SPDA} {a : String} {f : List Sym} {w : List String} (h : FormOK P (tm P a ++ f) w) :
    ∃ w', w = wd P a ++ w' ∧ FormOK P f w' := by
  by_cases he : a = P.eps
  · simp only [tm, wd, if_pos he, List.map_nil, List.nil_append] at h ⊢
    exact ⟨w, rfl, h⟩
  · simp only [tm, wd, if_neg he, List.map_cons, List.map_nil, List.cons_append, List.nil_append] at h ⊢
    obtain ⟨u, w', rfl, h1, h2⟩ := formOK_cons h
    cases h1
    exact ⟨w', rfl, h2⟩

theorem rule_sound (P : SPDA) (hv : P.valid = true) (hk : (P.delta.map (·.1)).Nodup) (hpp : P.isPushPop = true)
    (hinj : P.VarInj) (qa : String) {A : String} {rhs : List Sym} {u : List String}
    (hr : (P.tripleCfg qa).HasRule A rhs) (hf : FormOK P rhs u) : SymOK P (.v A) u := by
  intro p q hp hq hA
  rcases (hasRule_iff P qa A rhs).mp hr with
    ⟨x, p', a, r, s, b, q', v, hx, ht1, ht2, hne, rfl, rfl⟩ | ⟨p', q', r, hp', hq', hr', rfl, rfl⟩ |
      ⟨p', hp', rfl, rfl⟩
  · obtain ⟨hp', hr', _, _⟩ := trans_valid hv ht1
    obtain ⟨hs', hq', _, _⟩ := trans_valid hv ht2
    obtain ⟨rfl, rfl⟩ := hinj _ _ _ _ hp' hq' hp hq hA
    rw [List.append_assoc] at hf
    obtain ⟨w1, rfl, hf1⟩ := formOK_tm hf
    obtain ⟨u1, w2, rfl, hs, hf2⟩ := formOK_cons hf1
    rw [← List.append_nil (tm P b)] at hf2
    obtain ⟨w3, rfl, hf3⟩ := formOK_tm hf2
    cases formOK_nil hf3
    have hrun := hs r s hr' hs' rfl
    have hxe : x ≠ P.epsG := fun h => PDA.valid_epsG hv (h ▸ hx)
    have hpush : Trans P p' a P.epsG r x := by
      rcases trans_pp hpp ht1 with ⟨h1, _⟩ | ⟨_, h2⟩
      · rw [← h1]; exact ht1
      · exact absurd h2 hxe
    have hpop : Trans P s b x q' P.epsG := by
      rcases trans_pp hpp ht2 with ⟨h1, _⟩ | ⟨_, h2⟩
      · exact absurd h1 hxe
      · rw [← h2]; exact ht2
    have hmid := run_frame [x] hrun
    simp only [List.append_nil] at hmid
    have h1 := move_push hk hpush hxe []
    have h2 := move_pop hk hpop hxe []
    simp only [List.nil_append] at h1 h2
    exact run_of_move h1 (hmid.append (run_of_move h2 (.nil _)))
  · obtain ⟨rfl, rfl⟩ := hinj _ _ _ _ hp' hq' hp hq hA
    obtain ⟨u1, w1, rfl, hs1, hf1⟩ := formOK_cons hf
    obtain ⟨u2, w2, rfl, hs2, hf2⟩ := formOK_cons hf1
    cases formOK_nil hf2
    rw [List.append_nil]
    exact (hs1 _ _ hp' hr' rfl).append (hs2 _ _ hr' hq' rfl)
  · obtain ⟨rfl, rfl⟩ := hinj _ _ _ _ hp' hp' hp hq hA
    cases formOK_nil hf
    exact .nil _

theorem gen_formOK (P : SPDA) (hv : P.valid = true) (hk : (P.delta.map (·.1)).Nodup) (hpp : P.isPushPop = true)
    (hinj : P.VarInj) (qa : String) {f : List Sym} {w : List String} (h : (P.tripleCfg qa).Gen f w) :
    FormOK P f w := by
  induction h with
  | nil => exact .nil
  | @t a ss w _ ih => exact FormOK.cons (x := .t a) (u := [a]) rfl ih
  | v hr _ _ ih1 ih2 => exact .cons (rule_sound P hv hk hpp hinj qa hr ih1) ih2

theorem sound (P : SPDA) (hv : P.valid = true) (hk : (P.delta.map (·.1)).Nodup) (hpp : P.isPushPop = true)
    (hinj : P.VarInj) (qa : String) (p q : String) (hp : p ∈ P.Q) (hq : q ∈ P.Q) (w : List String)
    (h : (P.tripleCfg qa).Gen [.v (pdaVar p q)] w) : P.Run (p, []) w (q, []) := by
  obtain ⟨u, w', rfl, hs, hf'⟩ := formOK_cons (gen_formOK P hv hk hpp hinj qa h)
  cases formOK_nil hf'
  rw [List.append_nil]
  exact hs p q hp hq rfl

/-! ### completeness -/

theorem gen_tm (P : SPDA) (G : CFG) (a : String) : G.Gen (tm P a) (wd P a) := CFG.gen_map_t _

theorem complete_aux (P : SPDA) (hv : P.valid = true) (hk : (P.delta.map (·.1)).Nodup) (hpp : P.isPushPop = true)
    (heq : P.epsG = P.eps) (qa : String) :
    ∀ (n : Nat) (p q : String) (w : List String), p ∈ P.Q → q ∈ P.Q → RunN P n (p, []) w (q, []) →
      (P.tripleCfg qa).Gen [.v (pdaVar p q)] w := by
  intro n
  induction n using Nat.strongRecOn with
  | ind n ih =>
    intro p q w hp hq h
    cases n with
    | zero =>
      obtain ⟨rfl, hc⟩ := runN_zero h
      cases hc
      exact CFG.gen_v_iff.mpr ⟨[], (hasRule_iff P qa _ _).mpr (.inr (.inr ⟨p, hp, rfl, rfl⟩)), .nil⟩
    | succ n =>
      obtain ⟨a, ⟨r, st1⟩, w', hm, hr, rfl⟩ := runN_succ h
      rcases move_cases hv hpp hm with ⟨x, ht, hne, hxG, rfl⟩ | ⟨u', _, _, _, hst⟩
      · rw [List.nil_append] at hr
        obtain ⟨m1, m2, w1, b, w2, s, q', rfl, rfl, h1, h2, _, _, h4⟩ :=
          runN_firstpop hv hk hpp x n r [] w' q hr
        obtain ⟨_, hrQ, _, _⟩ := trans_valid hv ht
        obtain ⟨hsQ, hq'Q, _, _⟩ := trans_valid hv h2
        have g1 := ih m1 (by omega) r s w1 hrQ hsQ h1
        have g2 := ih m2 (by omega) q' q w2 hq'Q hq h4
        have hrule1 : (P.tripleCfg qa).HasRule (pdaVar p q') (tm P a ++ [.v (pdaVar r s)] ++ tm P b) :=
          (hasRule_iff P qa _ _).mpr (.inl ⟨x, p, a, r, s, b, q', P.epsG, hxG, heq ▸ ht, h2, heq ▸ hne, rfl, rfl⟩)
        have g3 : (P.tripleCfg qa).Gen [.v (pdaVar p q')] (wd P a ++ w1 ++ wd P b) :=
          CFG.gen_v_iff.mpr ⟨_, hrule1, CFG.gen_append (CFG.gen_append (gen_tm P _ a) g1) (gen_tm P _ b)⟩
        have hrule2 : (P.tripleCfg qa).HasRule (pdaVar p q) [.v (pdaVar p q'), .v (pdaVar q' q)] :=
          (hasRule_iff P qa _ _).mpr (.inr (.inl ⟨p, q, q', hp, hq, hq'Q, rfl, rfl⟩))
        refine CFG.gen_v_iff.mpr ⟨_, hrule2, CFG.gen_vv_iff.mpr ⟨_, _, ?_, g3, g2⟩⟩
        simp only [List.append_assoc]
      · simp at hst

theorem complete (P : SPDA) (hv : P.valid = true) (hk : (P.delta.map (·.1)).Nodup) (hpp : P.isPushPop = true)
    (heq : P.epsG = P.eps) (qa : String) (p q : String) (hp : p ∈ P.Q) (hq : q ∈ P.Q) (w : List String)
    (h : P.Run (p, []) w (q, [])) : (P.tripleCfg qa).Gen [.v (pdaVar p q)] w := by
  obtain ⟨n, hn⟩ := run_runN h
  exact complete_aux P hv hk hpp heq qa n p q w hp hq hn

/-! ### a concrete push/pop PDA for the non-vacuity examples: `{aⁿbⁿ | n ≥ 1}` with the bottom marker `$` -/

def exPDA : SPDA :=
  { Q := ["q0", "q1", "q2", "q3"], Sigma := ["a", "b"], Gamma := ["$", "x"],
    delta := [(("q0", "", ""), [("q1", "$")]),
              (("q1", "a", ""), [("q1", "x")]),
              (("q1", "b", "x"), [("q2", "")]),
              (("q2", "b", "x"), [("q2", "")]),
              (("q2", "", "$"), [("q3", "")])],
    q0 := "q0", F := ["q3"], eps := "", epsG := "" }

theorem varInj_of_decide (P : SPDA)
    (h : ∀ p, p ∈ P.Q → ∀ q, q ∈ P.Q → ∀ p', p' ∈ P.Q → ∀ q', q' ∈ P.Q →
      pdaVar p q = pdaVar p' q' → p = p' ∧ q = q') : P.VarInj :=
  fun p q p' q' hp hq hp' hq' he => h p hp q hq p' hp' q' hq' he

theorem exPDA_varInj : exPDA.VarInj := varInj_of_decide _ (by decide)

theorem exPDA_trans {p a u q v : String} (h : Trans exPDA p a u q v) :
    (p, a, u, q, v) ∈ [("q0", "", "", "q1", "$"), ("q1", "a", "", "q1", "x"), ("q1", "b", "x", "q2", ""),
      ("q2", "b", "x", "q2", ""), ("q2", "", "$", "q3", "")] := by
  obtain ⟨T, hm, ht⟩ := h
  simp [exPDA] at hm
  rcases hm with ⟨⟨rfl, rfl, rfl⟩, rfl⟩ | ⟨⟨rfl, rfl, rfl⟩, rfl⟩ | ⟨⟨rfl, rfl, rfl⟩, rfl⟩ | ⟨⟨rfl, rfl, rfl⟩, rfl⟩ |
    ⟨⟨rfl, rfl, rfl⟩, rfl⟩ <;> simp at ht <;> simp [ht]

/-- reachable configurations of `exPDA`: the marker `$` sits at the bottom, only `x` above it -/
def exInv (c : PConf String String) : Prop :=
  (c.1 = "q0" ∧ c.2 = []) ∨ ((c.1 = "q1" ∨ c.1 = "q2") ∧ ∃ t, c.2 = "$" :: t ∧ ∀ y, y ∈ t → y = "x") ∨
    (c.1 = "q3" ∧ c.2 = [])

theorem exInv_move {a : String} {c c' : PConf String String} (h : exPDA.Move a c c') (hi : exInv c) : exInv c' := by
  obtain ⟨p, st⟩ := c
  obtain ⟨q, st'⟩ := c'
  rcases move_cases (by decide) (by decide) h with ⟨v, ht, hne, _, rfl⟩ | ⟨u, ht, hne, _, rfl⟩
  · have := exPDA_trans ht
    simp [exPDA] at this hne
    rcases this with ⟨rfl, rfl, rfl, rfl⟩ | ⟨rfl, rfl, rfl, rfl⟩
    · simp [exInv] at hi
      subst hi
      simp [exInv]
    · simp [exInv] at hi
      obtain ⟨t, rfl, hall⟩ := hi
      refine .inr (.inl ⟨.inl rfl, t ++ ["x"], rfl, ?_⟩)
      intro y hy
      rcases List.mem_append.mp hy with h1 | h1
      · exact hall y h1
      · simpa using h1
  · have := exPDA_trans ht
    simp [exPDA] at this hne
    have hx : ∀ (p' : String), (p' = "q1" ∨ p' = "q2") → exInv (p', st' ++ ["x"]) → exInv ("q2", st') := by
      intro p' hp' hi'
      rcases hp' with rfl | rfl <;>
      · simp [exInv] at hi'
        obtain ⟨t, ht', hall⟩ := hi'
        cases st' with
        | nil => simp at ht'
        | cons y st'' =>
          simp only [List.cons_append, List.cons.injEq] at ht'
          obtain ⟨rfl, rfl⟩ := ht'
          exact .inr (.inl ⟨.inr rfl, st'', rfl, fun z hz => hall z (List.mem_append_left _ hz)⟩)
    rcases this with ⟨rfl, rfl, rfl, rfl⟩ | ⟨rfl, rfl, rfl, rfl⟩ | ⟨rfl, rfl, rfl, rfl⟩
    · exact hx _ (.inl rfl) hi
    · exact hx _ (.inr rfl) hi
    · simp [exInv] at hi
      obtain ⟨t, ht', hall⟩ := hi
      cases st' with
      | nil => simp [exInv]
      | cons y st'' =>
        simp only [List.cons_append, List.cons.injEq] at ht'
        obtain ⟨rfl, rfl⟩ := ht'
        have := hall "$" (by simp)
        simp at this

theorem exInv_run {c c' : PConf String String} {w : List String} (h : exPDA.Run c w c') (hi : exInv c) : exInv c' := by
  induction h with
  | nil c => exact hi
  | eps hm _ ih => exact ih (exInv_move hm hi)
  | sym _ hm _ ih => exact ih (exInv_move hm hi)

/-- `exPDA` reaches its accepting state only with the empty stack -/
theorem exPDA_hes (w : List String) (st : List String) (h : exPDA.Run (exPDA.q0, []) w ("q3", st)) : st = [] := by
  have := exInv_run h (.inl ⟨rfl, rfl⟩)
  simpa [exInv] using this

/-! ### why completeness needs `P.epsG = P.eps`: a PDA whose two ε fields differ -/

/-- `p --a, ε→x--> r --b, x→ε--> p` with `epsG = ""` but `eps = "e"`: `tripleRules` finds no push transition -/
def exBad : SPDA :=
  { Q := ["p", "r"], Sigma := ["a", "b"], Gamma := ["x"],
    delta := [(("p", "a", ""), [("r", "x")]), (("r", "b", "x"), [("p", "")])],
    q0 := "p", F := ["p"], eps := "e", epsG := "" }

theorem exBad_varInj : exBad.VarInj := varInj_of_decide _ (by decide)

theorem exBad_run : exBad.Run ("p", []) ["a", "b"] ("p", []) := by
  have m1 : exBad.Move "a" ("p", []) ("r", [] ++ ["x"]) :=
    move_push (by decide) ⟨[("r", "x")], by decide, by decide⟩ (by decide) []
  have m2 : exBad.Move "b" ("r", [] ++ ["x"]) ("p", []) :=
    move_pop (by decide) ⟨[("p", "")], by decide, by decide⟩ (by decide) []
  exact .sym (by decide) m1 (.sym (by decide) m2 (.nil _))

theorem exBad_rules (qa A : String) (rhs : List Sym) (h : (exBad.tripleCfg qa).HasRule A rhs) :
    ∀ x, x ∈ rhs → x.isVar = true := by
  rcases (hasRule_iff exBad qa A rhs).mp h with
    ⟨x, p', a, r, s, b, q', v, _, ⟨T, hm, _⟩, _⟩ | ⟨p', q', r, _, _, _, _, rfl⟩ | ⟨p', _, _, rfl⟩
  · simp [exBad] at hm
  · simp [Sym.isVar]
  · simp

theorem exBad_gen (qa : String) {f : List Sym} {w : List String} (h : (exBad.tripleCfg qa).Gen f w) :
    (∀ x, x ∈ f → x.isVar = true) → w = [] := by
  induction h with
  | nil => intro _; rfl
  | t _ _ => intro hf; have := hf _ List.mem_cons_self; simp [Sym.isVar] at this
  | v hr _ _ ih1 ih2 =>
    intro hf
    rw [ih1 (exBad_rules qa _ _ hr), ih2 (fun x hx => hf x (List.mem_cons_of_mem _ hx))]
    rfl

theorem exBad_not_gen (qa : String) : ¬ (exBad.tripleCfg qa).Gen [.v (pdaVar "p" "p")] ["a", "b"] := by
  intro h
  have := exBad_gen qa h (by simp [Sym.isVar])
  simp at this

end C10b
end Gamba
