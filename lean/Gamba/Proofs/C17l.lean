/-
  Gamba.Proofs.C17l — layout independence of the line parser (C17): the result of `parseRaw` does not
  depend on comment / blank lines, on white space, on how the labels of an edge are distributed over
  lines, and (up to `Raw.Equiv`) on the order of the lines.  Helpers for Props/C17l.lean.
-/
import Gamba.Proofs.C16b
namespace Gamba
namespace Parse
open Text

/-! ### the parser on a list of lines -/

/-- `parseRaw` on the list of lines of the text -/
def parseLines (k : Kind) (ok : Word → Bool) (ls : List Word) : Except Err Raw :=
  ls.foldlM (parseLine k ok) {}

/-- a line that `parseLine` ignores: blank, or first word starting with `%` -/
def isSkipLine (l : Word) : Bool :=
  match splitWs (strip l) with
  | [] => true
  | w0 :: _ => w0.head? == some '%'

/-- `" ".join(words)` -/
def unwords (ws : List Word) : Word := [' '].intercalate ws

/-- the word lists of the lines that are neither blank nor comments -/
def normLines (ls : List Word) : List (List Word) :=
  (ls.filter fun l => !isSkipLine l).map fun l => splitWs (strip l)

theorem parseLine_skip (k : Kind) (ok : Word → Bool) (st : Raw) {l : Word} (h : isSkipLine l = true) :
    parseLine k ok st l = .ok st := by
  unfold isSkipLine at h
  unfold parseLine
  split at h
  · rename_i e; simp only [e]
  · rename_i w0 rest e
    simp only [e, h, ↓reduceIte]

theorem parseLine_eq' (k : Kind) (ok : Word → Bool) (st : Raw) (l : Word) :
    parseLine k ok st l = parseWords k ok st (splitWs (strip l)) := by
  rw [parseLine_eq, splitWs_strip]

theorem foldlM_parseLine_norm (k : Kind) (ok : Word → Bool) (st : Raw) (ls : List Word) :
    ls.foldlM (parseLine k ok) st = parseWordLines k ok st (normLines ls) := by
  induction ls generalizing st with
  | nil => rfl
  | cons l ls ih =>
    rw [List.foldlM_cons]
    by_cases h : isSkipLine l = true
    · have : normLines (l :: ls) = normLines ls := by simp [normLines, h]
      rw [this, parseLine_skip k ok st h, ← ih]; rfl
    · have : normLines (l :: ls) = splitWs (strip l) :: normLines ls := by simp [normLines, h]
      rw [this, parseWordLines_cons, parseLine_eq']
      cases parseWords k ok st (splitWs (strip l)) with
      | error e => rfl
      | ok st' => exact ih st'

/-- the parser only sees the words of the lines that are neither blank nor comments -/
theorem parseLines_eq_norm (k : Kind) (ok : Word → Bool) (ls : List Word) :
    parseLines k ok ls = parseWordLines k ok {} (normLines ls) :=
  foldlM_parseLine_norm k ok {} ls

theorem normLines_append (a b : List Word) : normLines (a ++ b) = normLines a ++ normLines b := by
  simp [normLines]

theorem normLines_cons_skip {l : Word} (h : isSkipLine l = true) (ls : List Word) :
    normLines (l :: ls) = normLines ls := by
  simp [normLines, h]

theorem normLines_cons_of_not_skip {l : Word} (h : isSkipLine l = false) (ls : List Word) :
    normLines (l :: ls) = splitWs (strip l) :: normLines ls := by
  simp [normLines, h]

theorem isSkipLine_congr {l l' : Word} (h : splitWs (strip l) = splitWs (strip l')) :
    isSkipLine l = isSkipLine l' := by
  unfold isSkipLine; rw [h]

theorem normLines_congr {ls ls' : List Word}
    (h : ls.map (fun l => splitWs (strip l)) = ls'.map (fun l => splitWs (strip l))) :
    normLines ls = normLines ls' := by
  induction ls generalizing ls' with
  | nil =>
    cases ls' with
    | nil => rfl
    | cons _ _ => simp at h
  | cons l ls ih =>
    cases ls' with
    | nil => simp at h
    | cons l' ls' =>
      simp only [List.map_cons, List.cons.injEq] at h
      obtain ⟨h1, h2⟩ := h
      have hs := isSkipLine_congr h1
      cases hk : isSkipLine l with
      | true =>
        rw [normLines_cons_skip hk, normLines_cons_skip (hs ▸ hk), ih h2]
      | false =>
        rw [normLines_cons_of_not_skip hk, normLines_cons_of_not_skip (hs ▸ hk), ih h2, h1]

/-! ### every line is one of four actions on the record -/

inductive Act
  | skip
  | fail
  | set (key : String) (vals : List String)
  | trans (ts : List (String × Word × String))

/-- a declaration line: the entry appended to `items`, and the field it writes (if any) -/
def setRaw (key : String) (vals : List String) (st : Raw) : Raw :=
  { states := if key = "states" then vals else st.states,
    final := if key = "final" then vals else st.final,
    initial := if key = "initial" then vals else st.initial,
    transitions := st.transitions,
    items := st.items ++ [(key, vals)] }

def applyAct (st : Raw) : Act → Except Err Raw
  | .skip => .ok st
  | .fail => .error .runtimeError
  | .set key vals => if (st.items.lookup key).isSome then .error .runtimeError else .ok (setRaw key vals st)
  | .trans ts => .ok { st with transitions := st.transitions ++ ts }

/-- the action of a line, a function of its words only -/
def act (k : Kind) (ok : Word → Bool) : List Word → Act
  | [] => .skip
  | w0 :: rest =>
    if w0.head? == some '%' then .skip
    else if str w0 = "states" ∨ str w0 = "final" ∨ str w0 = "initial" then
      if hasDup (rest.map str) then .fail
      else if str w0 = "states" ∧ rest.isEmpty then .fail
      else if !rest.all ok then .fail
      else .set (str w0) (rest.map str)
    else if str w0 ∈ keywords k then .set (str w0) (rest.map str)
    else
      match rest with
      | [] => .fail
      | [_] => .fail
      | q :: labels =>
        if !ok w0 || !ok q then .fail
        else if !labels.all (labelOk k) then .fail
        else .trans (labels.map fun l => (str w0, l, str q))

theorem parseWords_eq_act (k : Kind) (ok : Word → Bool) (st : Raw) (ws : List Word) :
    parseWords k ok st ws = applyAct st (act k ok ws) := by
  cases ws with
  | nil => rfl
  | cons w0 rest =>
    unfold parseWords act
    by_cases h0 : (w0.head? == some '%') = true
    · simp only [h0, ↓reduceIte]; rfl
    · simp only [h0, Bool.false_eq_true, ↓reduceIte]
      by_cases h1 : str w0 = "states" ∨ str w0 = "final" ∨ str w0 = "initial"
      · simp only [h1, ↓reduceIte]
        by_cases hl : (st.items.lookup (str w0)).isSome = true
        · simp only [hl, ↓reduceIte]
          split
          · rfl
          · split
            · rfl
            · split
              · rfl
              · simp only [applyAct, hl, ↓reduceIte]
        · simp only [hl, Bool.false_eq_true, ↓reduceIte]
          split
          · rfl
          · split
            · rfl
            · split
              · rfl
              · simp only [applyAct, hl, Bool.false_eq_true, ↓reduceIte, setRaw]
                have e1 : ("final" = "states") = False := by decide
                have e2 : ("initial" = "states") = False := by decide
                have e3 : ("initial" = "final") = False := by decide
                have e4 : ("states" = "final") = False := by decide
                have e5 : ("states" = "initial") = False := by decide
                have e6 : ("final" = "initial") = False := by decide
                rcases h1 with h | h | h <;> simp only [h, e1, e2, e3, e4, e5, e6, ↓reduceIte]
      · simp only [h1, ↓reduceIte]
        by_cases h2 : str w0 ∈ keywords k
        · simp only [h2, ↓reduceIte, applyAct]
          split
          · rfl
          · simp only [not_or] at h1
            simp only [setRaw, h1.1, h1.2.1, h1.2.2, ↓reduceIte]
        · simp only [h2, ↓reduceIte]
          match rest with
          | [] => rfl
          | [_] => rfl
          | q :: l :: labels =>
            simp only
            split
            · rfl
            · split
              · rfl
              · rfl

/-! ### equivalence of records, of results -/

/-- same declarations (as a lookup table), same `states` / `initial` / `final`, the same transition entries
    up to their order -/
def Raw.Equiv (A B : Raw) : Prop :=
  A.states = B.states ∧ A.initial = B.initial ∧ A.final = B.final ∧
  (∀ key, A.items.lookup key = B.items.lookup key) ∧ A.transitions.Perm B.transitions

theorem Raw.Equiv.refl (A : Raw) : Raw.Equiv A A := ⟨rfl, rfl, rfl, fun _ => rfl, List.Perm.refl _⟩

theorem Raw.Equiv.symm {A B : Raw} (h : Raw.Equiv A B) : Raw.Equiv B A :=
  ⟨h.1.symm, h.2.1.symm, h.2.2.1.symm, fun key => (h.2.2.2.1 key).symm, h.2.2.2.2.symm⟩

theorem Raw.Equiv.trans {A B C : Raw} (h : Raw.Equiv A B) (h' : Raw.Equiv B C) : Raw.Equiv A C :=
  ⟨h.1.trans h'.1, h.2.1.trans h'.2.1, h.2.2.1.trans h'.2.2.1, fun key => (h.2.2.2.1 key).trans (h'.2.2.2.1 key),
   h.2.2.2.2.trans h'.2.2.2.2⟩

/-- both fail, or both succeed with equivalent records -/
def ExEquiv : Except Err Raw → Except Err Raw → Prop
  | .ok a, .ok b => Raw.Equiv a b
  | .error _, .error _ => True
  | _, _ => False

theorem ExEquiv.refl (x : Except Err Raw) : ExEquiv x x := by
  cases x with
  | error e => trivial
  | ok a => exact Raw.Equiv.refl a

theorem ExEquiv.symm {x y : Except Err Raw} (h : ExEquiv x y) : ExEquiv y x := by
  cases x <;> cases y <;> simp only [ExEquiv] at h ⊢
  exact h.symm

theorem ExEquiv.trans {x y z : Except Err Raw} (h : ExEquiv x y) (h' : ExEquiv y z) : ExEquiv x z := by
  cases x <;> cases y <;> cases z <;> simp only [ExEquiv] at h h' ⊢
  exact h.trans h'

theorem ExEquiv.of_eq {x y : Except Err Raw} (h : x = y) : ExEquiv x y := h ▸ ExEquiv.refl x

theorem ExEquiv.ok_left {A : Raw} {y : Except Err Raw} (h : ExEquiv (.ok A) y) : ∃ B, y = .ok B ∧ Raw.Equiv A B := by
  cases y with
  | error e => exact absurd h (by simp [ExEquiv])
  | ok B => exact ⟨B, rfl, h⟩

theorem ExEquiv.bind {x y : Except Err Raw} {f g : Raw → Except Err Raw} (h : ExEquiv x y)
    (hfg : ∀ a b, Raw.Equiv a b → ExEquiv (f a) (g b)) : ExEquiv (x.bind f) (y.bind g) := by
  cases x <;> cases y <;> simp only [ExEquiv] at h
  · trivial
  · exact hfg _ _ h

/-! ### each action respects the equivalence; any two actions commute -/

theorem setRaw_equiv (key : String) (vals : List String) {a b : Raw} (h : Raw.Equiv a b) :
    Raw.Equiv (setRaw key vals a) (setRaw key vals b) := by
  obtain ⟨h1, h2, h3, h4, h5⟩ := h
  refine ⟨?_, ?_, ?_, ?_, h5⟩
  · simp only [setRaw, h1]
  · simp only [setRaw, h2]
  · simp only [setRaw, h3]
  · intro key'
    simp only [setRaw, List.lookup_append, h4 key']

theorem applyAct_congr {a b : Raw} (h : Raw.Equiv a b) (x : Act) : ExEquiv (applyAct a x) (applyAct b x) := by
  cases x with
  | skip => exact h
  | fail => trivial
  | set key vals =>
    simp only [applyAct, ← h.2.2.2.1 key]
    split
    · trivial
    · exact setRaw_equiv key vals h
  | trans ts =>
    obtain ⟨h1, h2, h3, h4, h5⟩ := h
    exact ⟨h1, h2, h3, h4, h5.append_right ts⟩

theorem applyAct_fail_right (st : Raw) (x : Act) :
    ∃ e, (applyAct st x).bind (fun s => applyAct s .fail) = .error e := by
  cases applyAct st x with
  | error e => exact ⟨e, rfl⟩
  | ok s => exact ⟨.runtimeError, rfl⟩

theorem lookup_singleton_ne {k k' : String} (h : k ≠ k') (v : List String) :
    List.lookup k [(k', v)] = none := by
  have : (k == k') = false := by simp [h]
  simp [List.lookup, this]

theorem lookup_singleton_self (k : String) (v : List String) : List.lookup k [(k, v)] = some v := by
  simp [List.lookup]

theorem setRaw_comm {k1 k2 : String} (hne : k1 ≠ k2) (v1 v2 : List String) (st : Raw) :
    Raw.Equiv (setRaw k2 v2 (setRaw k1 v1 st)) (setRaw k1 v1 (setRaw k2 v2 st)) := by
  refine ⟨?_, ?_, ?_, ?_, List.Perm.refl _⟩
  · simp only [setRaw]
    by_cases a : k1 = "states" <;> by_cases b : k2 = "states" <;> simp only [a, b, ↓reduceIte]
    exact absurd (a.trans b.symm) hne
  · simp only [setRaw]
    by_cases a : k1 = "initial" <;> by_cases b : k2 = "initial" <;> simp only [a, b, ↓reduceIte]
    exact absurd (a.trans b.symm) hne
  · simp only [setRaw]
    by_cases a : k1 = "final" <;> by_cases b : k2 = "final" <;> simp only [a, b, ↓reduceIte]
    exact absurd (a.trans b.symm) hne
  · intro key
    simp only [setRaw, List.lookup_append]
    by_cases ha : key = k1
    · subst ha
      rw [lookup_singleton_self, lookup_singleton_ne hne]
      cases List.lookup key st.items <;> rfl
    · rw [lookup_singleton_ne ha]
      cases List.lookup key st.items <;> cases List.lookup key [(k2, v2)] <;> rfl

theorem setRaw_lookup_self (key : String) (vals : List String) (st : Raw) :
    ((setRaw key vals st).items.lookup key).isSome = true := by
  simp only [setRaw, List.lookup_append, lookup_singleton_self]
  cases List.lookup key st.items <;> rfl

theorem setRaw_lookup_isSome {key key' : String} (vals : List String) (st : Raw)
    (h : (st.items.lookup key').isSome = true) : ((setRaw key vals st).items.lookup key').isSome = true := by
  simp only [setRaw, List.lookup_append]
  cases hl : List.lookup key' st.items with
  | none => rw [hl] at h; cases h
  | some v => rfl

theorem setRaw_lookup_ne {key key' : String} (hne : key' ≠ key) (vals : List String) (st : Raw) :
    (setRaw key vals st).items.lookup key' = st.items.lookup key' := by
  simp only [setRaw, List.lookup_append, lookup_singleton_ne hne]
  cases List.lookup key' st.items <;> rfl

/-- any two line actions commute up to `ExEquiv` (in particular: one order fails iff the other does) -/
theorem applyAct_comm (st : Raw) (x y : Act) :
    ExEquiv ((applyAct st x).bind fun s => applyAct s y) ((applyAct st y).bind fun s => applyAct s x) := by
  cases x with
  | skip =>
    show ExEquiv (applyAct st y) ((applyAct st y).bind fun s => Except.ok s)
    cases h : applyAct st y with
    | error e => trivial
    | ok s => exact Raw.Equiv.refl s
  | fail =>
    obtain ⟨e, he⟩ := applyAct_fail_right st y
    rw [he]; trivial
  | set k1 v1 =>
    cases y with
    | skip =>
      show ExEquiv ((applyAct st (.set k1 v1)).bind fun s => Except.ok s) (applyAct st (.set k1 v1))
      cases h : applyAct st (.set k1 v1) with
      | error e => trivial
      | ok s => exact Raw.Equiv.refl s
    | fail =>
      obtain ⟨e, he⟩ := applyAct_fail_right st (.set k1 v1)
      rw [he]; trivial
    | set k2 v2 =>
      by_cases hk : k1 = k2
      · subst hk
        simp only [applyAct]
        by_cases h1 : (st.items.lookup k1).isSome = true
        · simp only [h1, ↓reduceIte]; trivial
        · simp only [h1, Bool.false_eq_true, ↓reduceIte, Except.bind, setRaw_lookup_self]
          trivial
      · simp only [applyAct]
        by_cases h1 : (st.items.lookup k1).isSome = true
        · by_cases h2 : (st.items.lookup k2).isSome = true
          · simp only [h1, h2, ↓reduceIte, Except.bind]; trivial
          · simp only [h1, h2, Bool.false_eq_true, ↓reduceIte, Except.bind, setRaw_lookup_isSome v2 st h1]
            trivial
        · by_cases h2 : (st.items.lookup k2).isSome = true
          · simp only [h1, h2, Bool.false_eq_true, ↓reduceIte, Except.bind, setRaw_lookup_isSome v1 st h2]
            trivial
          · simp only [h1, h2, Bool.false_eq_true, ↓reduceIte, Except.bind,
              setRaw_lookup_ne (Ne.symm hk) v1 st, setRaw_lookup_ne hk v2 st]
            exact setRaw_comm hk v1 v2 st
    | trans ts =>
      simp only [applyAct]
      split
      · rename_i h1
        simp only [Except.bind, h1, ↓reduceIte]; trivial
      · rename_i h1
        simp only [Except.bind, h1, Bool.false_eq_true, ↓reduceIte, ExEquiv]
        exact Raw.Equiv.refl _
  | trans ts =>
    cases y with
    | skip => exact Raw.Equiv.refl _
    | fail => trivial
    | set k2 v2 =>
      simp only [applyAct]
      split
      · rename_i h1
        simp only [Except.bind, h1, ↓reduceIte]; trivial
      · rename_i h1
        simp only [Except.bind, h1, Bool.false_eq_true, ↓reduceIte, ExEquiv]
        exact Raw.Equiv.refl _
    | trans ts' =>
      simp only [applyAct, Except.bind, ExEquiv]
      refine ⟨rfl, rfl, rfl, fun _ => rfl, ?_⟩
      simp only [List.append_assoc]
      exact List.Perm.append_left _ List.perm_append_comm

/-! ### the order of the lines -/

theorem parseWords_congr (k : Kind) (ok : Word → Bool) {a b : Raw} (h : Raw.Equiv a b) (ws : List Word) :
    ExEquiv (parseWords k ok a ws) (parseWords k ok b ws) := by
  rw [parseWords_eq_act, parseWords_eq_act]; exact applyAct_congr h _

theorem parseWords_comm (k : Kind) (ok : Word → Bool) (st : Raw) (w1 w2 : List Word) :
    ExEquiv ((parseWords k ok st w1).bind fun s => parseWords k ok s w2)
      ((parseWords k ok st w2).bind fun s => parseWords k ok s w1) := by
  simp only [parseWords_eq_act]; exact applyAct_comm st _ _

theorem parseWordLines_congr (k : Kind) (ok : Word → Bool) {a b : Raw} (h : Raw.Equiv a b) (wls : List (List Word)) :
    ExEquiv (parseWordLines k ok a wls) (parseWordLines k ok b wls) := by
  induction wls generalizing a b with
  | nil => exact h
  | cons w wls ih =>
    rw [parseWordLines_cons, parseWordLines_cons]
    exact ExEquiv.bind (parseWords_congr k ok h w) (fun a' b' h' => ih h')

/-- permuting the word lists of the lines: failure is preserved, success gives an equivalent record -/
theorem parseWordLines_perm (k : Kind) (ok : Word → Bool) {wls wls' : List (List Word)} (hp : wls.Perm wls')
    {a b : Raw} (h : Raw.Equiv a b) : ExEquiv (parseWordLines k ok a wls) (parseWordLines k ok b wls') := by
  induction hp generalizing a b with
  | nil => exact h
  | cons w _ ih =>
    rw [parseWordLines_cons, parseWordLines_cons]
    exact ExEquiv.bind (parseWords_congr k ok h w) (fun a' b' h' => ih h')
  | swap w1 w2 l =>
    -- the lists are `w2 :: w1 :: l` and `w1 :: w2 :: l`
    rw [parseWordLines_cons, parseWordLines_cons]
    have e1 : ((parseWords k ok a w2).bind fun st' => parseWordLines k ok st' (w1 :: l)) =
        ((parseWords k ok a w2).bind fun s => parseWords k ok s w1).bind fun st' => parseWordLines k ok st' l := by
      cases parseWords k ok a w2 with
      | error e => rfl
      | ok s => exact parseWordLines_cons k ok s w1 l
    have e2 : ((parseWords k ok b w1).bind fun st' => parseWordLines k ok st' (w2 :: l)) =
        ((parseWords k ok b w1).bind fun s => parseWords k ok s w2).bind fun st' => parseWordLines k ok st' l := by
      cases parseWords k ok b w1 with
      | error e => rfl
      | ok s => exact parseWordLines_cons k ok s w2 l
    rw [e1, e2]
    refine ExEquiv.bind ?_ (fun a' b' h' => parseWordLines_congr k ok h' l)
    refine (parseWords_comm k ok a w2 w1).trans ?_
    exact ExEquiv.bind (parseWords_congr k ok h w1) (fun a' b' h' => parseWords_congr k ok h' w2)
  | trans _ _ ih1 ih2 =>
    exact (ih1 h).trans (ih2 (Raw.Equiv.refl b))

theorem normLines_perm {ls ls' : List Word} (hp : ls.Perm ls') : (normLines ls).Perm (normLines ls') :=
  (hp.filter _).map _

/-- the master statement: two lists of lines whose non-comment, non-blank lines have the same words up to the
    order of the lines parse alike -/
theorem parseLines_layout (k : Kind) (ok : Word → Bool) {ls ls' : List Word}
    (hp : (normLines ls).Perm (normLines ls')) : ExEquiv (parseLines k ok ls) (parseLines k ok ls') := by
  rw [parseLines_eq_norm, parseLines_eq_norm]
  exact parseWordLines_perm k ok hp (Raw.Equiv.refl _)

/-! ### several labels on one line, or one line per group of labels -/

theorem act_split_labels (k : Kind) (ok : Word → Bool) (st : Raw) (p q : Word) (ls1 ls2 : List Word)
    (hp : str p ∉ ["states", "final", "initial"] ++ keywords k) (h1 : ls1 ≠ []) (h2 : ls2 ≠ []) :
    parseWords k ok st (p :: q :: (ls1 ++ ls2)) =
      (parseWords k ok st (p :: q :: ls1)).bind fun s => parseWords k ok s (p :: q :: ls2) := by
  simp only [List.mem_append, List.mem_cons, List.not_mem_nil, or_false, not_or] at hp
  obtain ⟨⟨n1, n2, n3⟩, n4⟩ := hp
  obtain ⟨a, as, rfl⟩ := List.exists_cons_of_ne_nil h1
  obtain ⟨b, bs, rfl⟩ := List.exists_cons_of_ne_nil h2
  simp only [parseWords, List.cons_append, n1, n2, n3, n4, or_self, ↓reduceIte]
  by_cases h0 : (p.head? == some '%') = true
  · simp only [h0, ↓reduceIte, Except.bind]
  · simp only [h0, Bool.false_eq_true, ↓reduceIte]
    by_cases hs : (!ok p || !ok q) = true
    · simp only [hs, ↓reduceIte, Except.bind]
    · simp only [hs, Bool.false_eq_true, ↓reduceIte]
      by_cases ha : (!(a :: as).all (labelOk k)) = true
      · have : (!(a :: (as ++ b :: bs)).all (labelOk k)) = true := by
          simp only [List.all_cons, List.all_append, Bool.not_eq_true', Bool.and_eq_false_iff] at ha ⊢
          rcases ha with ha | ha
          · exact Or.inl ha
          · exact Or.inr (Or.inl ha)
        simp only [ha, this, ↓reduceIte, Except.bind]
      · simp only [ha, Bool.false_eq_true, ↓reduceIte, Except.bind]
        have ha' : (a :: as).all (labelOk k) = true := by simpa using ha
        have e : (a :: (as ++ b :: bs)).all (labelOk k) = (b :: bs).all (labelOk k) := by
          simp only [List.all_cons, List.all_append] at ha' ⊢
          rw [← Bool.and_assoc, ha', Bool.true_and]
        rw [e]
        by_cases hb : (!(b :: bs).all (labelOk k)) = true
        · simp only [hb, ↓reduceIte]
        · simp only [hb, Bool.false_eq_true, ↓reduceIte, List.map_cons, List.map_append, List.append_assoc,
            List.cons_append]

theorem splitWs_strip_unwords {ws : List Word} (h : ∀ w, w ∈ ws → Token w) : splitWs (strip (unwords ws)) = ws := by
  rw [splitWs_strip]; exact splitWs_intercalate h

/-! ### the DFA builder on a list of lines -/

/-- everything `parse_dfa` does after the line parser -/
def dfaOfRaw (A0 : Raw) (stateOk : Word → Bool) : Except Err (DFA String String) := do
  let A ← commonChecks A0 [] stateOk
  let keys := A.transitions.map fun t => (t.1, str t.2.1)
  if parseDfa.hasDupPairs keys then .error .runtimeError else
  let used := dedup (A.transitions.map fun t => str t.2.1)
  let Sigma ← getSymbolSet A "input_symbols" used
  if !wordsOk Sigma then .error .runtimeError else
  if !(A.states.all fun p => Sigma.all fun a => decide ((p, a) ∈ keys)) then .error .runtimeError else
  DFA.checked { Q := A.states, Sigma := Sigma, delta := A.transitions.map fun t => ((t.1, str t.2.1), t.2.2),
                q0 := initialOf A, F := A.final }

/-- `parseDfa` on the list of lines of the text -/
def parseDfaLines (ls : List Word) (stateOk : Word → Bool := isWord) : Except Err (DFA String String) := do
  let A0 ← parseLines .dfa stateOk ls
  dfaOfRaw A0 stateOk

theorem dfaOfRaw_ok_unpack {A0 : Raw} {ok : Word → Bool} {D : DFA String String} (h : dfaOfRaw A0 ok = .ok D) :
    ∃ A Sigma, commonChecks A0 [] ok = .ok A ∧
      parseDfa.hasDupPairs (A.transitions.map fun t => (t.1, str t.2.1)) = false ∧
      getSymbolSet A "input_symbols" (dedup (A.transitions.map fun t => str t.2.1)) = .ok Sigma ∧
      wordsOk Sigma = true ∧
      (A.states.all fun p => Sigma.all fun a => decide ((p, a) ∈ A.transitions.map fun t => (t.1, str t.2.1))) = true ∧
      DFA.checked { Q := A.states, Sigma := Sigma, delta := A.transitions.map fun t => ((t.1, str t.2.1), t.2.2),
                    q0 := initialOf A, F := A.final } = .ok D := by
  unfold dfaOfRaw at h
  simp only [bind, Except.bind] at h
  repeat' split at h
  all_goals first | cases h | skip
  rename_i A h1 h2 _ Sigma h3 h4 h5
  exact ⟨A, Sigma, h1, by simpa using h2, h3, by simpa using h4, by simpa using h5, h⟩

theorem dfaOfRaw_eq_of {A0 A : Raw} {ok : Word → Bool} {Sigma : List String}
    (h1 : commonChecks A0 [] ok = .ok A)
    (h2 : parseDfa.hasDupPairs (A.transitions.map fun t => (t.1, str t.2.1)) = false)
    (h3 : getSymbolSet A "input_symbols" (dedup (A.transitions.map fun t => str t.2.1)) = .ok Sigma)
    (h4 : wordsOk Sigma = true)
    (h5 : (A.states.all fun p => Sigma.all fun a => decide ((p, a) ∈ A.transitions.map fun t => (t.1, str t.2.1))) = true) :
    dfaOfRaw A0 ok =
      DFA.checked { Q := A.states, Sigma := Sigma, delta := (A.transitions.map fun t => ((t.1, str t.2.1), t.2.2)),
                    q0 := initialOf A, F := A.final } := by
  unfold dfaOfRaw
  simp only [bind, Except.bind, h1, h2, h3, h4, h5]
  simp

theorem usedStates_mem_congr {A B : Raw} (h : Raw.Equiv A B) (q : String) : q ∈ usedStates A ↔ q ∈ usedStates B := by
  obtain ⟨_, h2, h3, _, h5⟩ := h
  simp only [usedStates, mem_dedup, List.mem_append, List.mem_flatMap, h2, h3]
  constructor
  · rintro (hq | ⟨t, ht, hq⟩)
    · exact Or.inl hq
    · exact Or.inr ⟨t, h5.mem_iff.mp ht, hq⟩
  · rintro (hq | ⟨t, ht, hq⟩)
    · exact Or.inl hq
    · exact Or.inr ⟨t, h5.mem_iff.mpr ht, hq⟩

/-- the shared builder checks respect the equivalence; the state list is the same when it was declared, and
    otherwise the same up to order -/
theorem commonChecks_congr {A0 B0 A : Raw} {ok : Word → Bool} (h : Raw.Equiv A0 B0)
    (hc : commonChecks A0 [] ok = .ok A) :
    ∃ B, commonChecks B0 [] ok = .ok B ∧ B.states.Perm A.states ∧ (A0.states ≠ [] → B.states = A.states) ∧
      B.initial = A.initial ∧ B.final = A.final ∧ (∀ key, B.items.lookup key = A.items.lookup key) ∧
      B.transitions.Perm A.transitions := by
  obtain ⟨rfl, c1, c2, c3⟩ := commonChecks_ok hc
  have hu := usedStates_mem_congr h
  obtain ⟨h1, h2, h3, h4, h5⟩ := h
  have hS : (if B0.states.isEmpty then dedup (usedStates B0 ++ []) else B0.states).Perm
      (if A0.states.isEmpty then dedup (usedStates A0 ++ []) else A0.states) := by
    rw [← h1]
    split
    · rw [List.perm_ext_iff_of_nodup (nodup_dedup _) (nodup_dedup _)]
      intro q
      simp only [mem_dedup, List.append_nil, hu q]
    · exact List.Perm.refl _
  have hS' : A0.states ≠ [] → (if B0.states.isEmpty then dedup (usedStates B0 ++ []) else B0.states) =
      (if A0.states.isEmpty then dedup (usedStates A0 ++ []) else A0.states) := by
    intro hne
    have he : A0.states.isEmpty = false := by cases hA : A0.states <;> simp_all
    rw [← h1, he]; rfl
  refine ⟨{ B0 with states := if B0.states.isEmpty then dedup (usedStates B0 ++ []) else B0.states }, ?_,
    hS, hS', h2.symm, h3.symm, fun key => (h4 key).symm, h5.symm⟩
  unfold commonChecks
  simp only
  have e1 : ssubset (usedStates B0) (if B0.states.isEmpty then dedup (usedStates B0 ++ []) else B0.states) = true := by
    rw [ssubset_iff]
    intro q hq
    exact hS.mem_iff.mpr (c1 q ((hu q).mpr hq))
  have e2 : ((if B0.states.isEmpty then dedup (usedStates B0 ++ []) else B0.states).all fun s => ok s.toList) = true := by
    rw [List.all_eq_true]
    intro q hq
    exact c2 q (hS.mem_iff.mp hq)
  have e3 : B0.initial.length = 1 := by rw [← h2]; exact c3
  generalize (if B0.states.isEmpty then dedup (usedStates B0 ++ []) else B0.states) = S at e1 e2 ⊢
  simp [e1, e2, e3]

theorem getSymbolSet_congr {A B : Raw} {key : String} {used used' S : List String}
    (hl : B.items.lookup key = A.items.lookup key) (hu : ∀ a, a ∈ used' ↔ a ∈ used)
    (h : getSymbolSet A key used = .ok S) :
    ∃ S', getSymbolSet B key used' = .ok S' ∧ ∀ a, a ∈ S' ↔ a ∈ S := by
  unfold getSymbolSet at h ⊢
  rw [hl]
  cases hk : A.items.lookup key with
  | none =>
    rw [hk] at h
    cases h
    exact ⟨used', rfl, hu⟩
  | some declared =>
    rw [hk] at h
    simp only at h ⊢
    split at h
    · cases h
    · rename_i hc
      cases h
      refine ⟨dedup declared, ?_, fun _ => Iff.rfl⟩
      have : ¬((!used'.isEmpty) = true ∧ (!ssubset used' declared) = true) := by
        intro ⟨c1, c2⟩
        apply hc
        constructor
        · cases hused : used with
          | nil =>
            exfalso
            cases hused' : used' with
            | nil => rw [hused'] at c1; simp at c1
            | cons x xs =>
              have : x ∈ used := (hu x).mp (by rw [hused']; simp)
              rw [hused] at this; cases this
          | cons x xs => rfl
        · simp only [Bool.not_eq_true', ← Bool.not_eq_true, ssubset_iff] at c2 ⊢
          intro hs
          exact c2 (fun a ha => hs a ((hu a).mp ha))
      simp only [this, ↓reduceIte]

/-- the builder respects the equivalence of raw records -/
theorem dfaOfRaw_congr {A0 B0 : Raw} {ok : Word → Bool} {D : DFA String String} (h : Raw.Equiv A0 B0)
    (hD : dfaOfRaw A0 ok = .ok D) :
    ∃ D', dfaOfRaw B0 ok = .ok D' ∧ D'.Q.Perm D.Q ∧ (A0.states ≠ [] → D'.Q = D.Q) ∧ D'.q0 = D.q0 ∧ D'.F = D.F ∧
      (∀ a, a ∈ D'.Sigma ↔ a ∈ D.Sigma) ∧ (∀ key, D'.delta.lookup key = D.delta.lookup key) ∧
      D'.delta.Perm D.delta := by
  obtain ⟨A, Sigma, h1, h2, h3, h4, h5, h6⟩ := dfaOfRaw_ok_unpack hD
  obtain ⟨rfl, hv⟩ := DFA.checked_ok h6
  obtain ⟨B, g1, gS, gS', gi, gf, gl, gt⟩ := commonChecks_congr h h1
  have hkeys : (B.transitions.map fun t => (t.1, str t.2.1)).Perm (A.transitions.map fun t => (t.1, str t.2.1)) :=
    gt.map _
  have hdelta : (B.transitions.map fun t => ((t.1, str t.2.1), t.2.2)).Perm
      (A.transitions.map fun t => ((t.1, str t.2.1), t.2.2)) := gt.map _
  have g2 : parseDfa.hasDupPairs (B.transitions.map fun t => (t.1, str t.2.1)) = false := by
    rw [hasDupPairs_eq_false_iff] at h2 ⊢
    exact hkeys.nodup_iff.mpr h2
  have hused : ∀ a, a ∈ dedup (B.transitions.map fun t => str t.2.1) ↔ a ∈ dedup (A.transitions.map fun t => str t.2.1) := by
    intro a
    simp only [mem_dedup]
    exact (gt.map _).mem_iff
  obtain ⟨Sigma', g3, hSig⟩ := getSymbolSet_congr (gl "input_symbols") hused h3
  have g4 : wordsOk Sigma' = true := by
    simp only [wordsOk, List.all_eq_true] at h4 ⊢
    intro a ha
    exact h4 a ((hSig a).mp ha)
  have g5 : (B.states.all fun p => Sigma'.all fun a => decide ((p, a) ∈ B.transitions.map fun t => (t.1, str t.2.1))) = true := by
    simp only [List.all_eq_true, decide_eq_true_eq] at h5 ⊢
    intro p hp a ha
    exact hkeys.mem_iff.mpr (h5 p (gS.mem_iff.mp hp) a ((hSig a).mp ha))
  have hnd : ((B.transitions.map fun t => ((t.1, str t.2.1), t.2.2)).map (·.1)).Nodup := by
    rw [List.map_map]
    exact hasDupPairs_eq_false_iff.mp g2
  have hlook : ∀ key, (B.transitions.map fun t => ((t.1, str t.2.1), t.2.2)).lookup key =
      (A.transitions.map fun t => ((t.1, str t.2.1), t.2.2)).lookup key :=
    fun key => lookup_eq_of_perm hdelta hnd key
  have hq0 : initialOf B = initialOf A := by simp only [initialOf, gi]
  have hvalid : DFA.valid
      { Q := B.states, Sigma := Sigma', q0 := initialOf B, F := B.final,
        delta := (B.transitions.map fun t => ((t.1, str t.2.1), t.2.2)) : DFA String String } = true := by
    obtain ⟨v1, v2, v3, v4⟩ := (DFA.valid_iff _).mp hv
    rw [DFA.valid_iff]
    refine ⟨?_, ?_, ?_, ?_⟩
    · show initialOf B ∈ B.states
      rw [hq0]; exact gS.mem_iff.mpr v1
    · intro f hf
      have hf' : f ∈ B.final := hf
      rw [gf] at hf'
      exact gS.mem_iff.mpr (v2 f hf')
    · intro q a r he
      obtain ⟨w1, w2, w3⟩ := v3 q a r (hdelta.mem_iff.mp he)
      exact ⟨gS.mem_iff.mpr w1, (hSig a).mpr w2, gS.mem_iff.mpr w3⟩
    · intro q a hq ha
      obtain ⟨r, hr⟩ := v4 q a (gS.mem_iff.mp hq) ((hSig a).mp ha)
      exact ⟨r, (hlook (q, a)).trans hr⟩
  refine ⟨_, (dfaOfRaw_eq_of g1 g2 g3 g4 g5).trans (by simp only [DFA.checked, hvalid]; rfl), gS, ?_, hq0, gf, hSig,
    hlook, hdelta⟩
  intro hne
  exact gS' hne

theorem parseDfaLines_ok_unpack {ls : List Word} {ok : Word → Bool} {D : DFA String String}
    (h : parseDfaLines ls ok = .ok D) : ∃ A0, parseLines .dfa ok ls = .ok A0 ∧ dfaOfRaw A0 ok = .ok D := by
  unfold parseDfaLines at h
  simp only [bind, Except.bind] at h
  split at h
  · cases h
  · rename_i A0 h0
    exact ⟨A0, h0, h⟩

theorem parseDfaLines_eq_of {ls : List Word} {ok : Word → Bool} {A0 : Raw} (h : parseLines .dfa ok ls = .ok A0) :
    parseDfaLines ls ok = dfaOfRaw A0 ok := by
  unfold parseDfaLines
  simp only [bind, Except.bind, h]

/-- the DFA builder on two layouts of the same lines -/
theorem parseDfaLines_layout (ok : Word → Bool) {ls ls' : List Word} (hp : (normLines ls).Perm (normLines ls'))
    {D : DFA String String} (h : parseDfaLines ls ok = .ok D) :
    ∃ A0 D', parseLines .dfa ok ls = .ok A0 ∧ parseDfaLines ls' ok = .ok D' ∧ D'.Q.Perm D.Q ∧
      (A0.states ≠ [] → D'.Q = D.Q) ∧ D'.q0 = D.q0 ∧ D'.F = D.F ∧
      (∀ a, a ∈ D'.Sigma ↔ a ∈ D.Sigma) ∧ (∀ key, D'.delta.lookup key = D.delta.lookup key) ∧
      D'.delta.Perm D.delta := by
  obtain ⟨A0, h0, hD⟩ := parseDfaLines_ok_unpack h
  have he := parseLines_layout .dfa ok hp
  rw [h0] at he
  obtain ⟨B0, hB, hE⟩ := he.ok_left
  obtain ⟨D', hD', r⟩ := dfaOfRaw_congr hE hD
  exact ⟨A0, D', h0, (parseDfaLines_eq_of hB).trans hD', r⟩

theorem normLines_all_skip {cs : List Word} (h : ∀ c, c ∈ cs → isSkipLine c = true) : normLines cs = [] := by
  induction cs with
  | nil => rfl
  | cons c cs ih =>
    rw [normLines_cons_skip (h c (by simp)), ih (fun x hx => h x (List.mem_cons_of_mem _ hx))]

/-! ### an explicit `states` line fixes the state list -/

/-- a `states` declaration has been read -/
def StatesSet (st : Raw) : Prop := st.states ≠ [] ∧ (st.items.lookup "states").isSome = true

theorem applyAct_keeps_states {st s : Raw} {x : Act} (hI : StatesSet st) (h : applyAct st x = .ok s) : StatesSet s := by
  cases x with
  | skip => cases h; exact hI
  | fail => cases h
  | set key vals =>
    simp only [applyAct] at h
    split at h
    · cases h
    · rename_i hk
      cases h
      have hne : key ≠ "states" := by
        intro e; subst e; exact hk hI.2
      refine ⟨?_, setRaw_lookup_isSome vals st hI.2⟩
      simp only [setRaw, hne, ↓reduceIte]
      exact hI.1
  | trans ts => cases h; exact hI

theorem act_states (k : Kind) (ok : Word → Bool) (rest : List Word) :
    act k ok ("states".toList :: rest) = .fail ∨
      (act k ok ("states".toList :: rest) = .set "states" (rest.map str) ∧ rest ≠ []) := by
  have e0 : ("states".toList.head? == some '%') = false := by decide
  have e1 : str "states".toList = "states" := str_toList _
  simp only [act, e0, e1, Bool.false_eq_true, ↓reduceIte, true_or, true_and]
  split
  · exact Or.inl rfl
  · split
    · exact Or.inl rfl
    · split
      · exact Or.inl rfl
      · rename_i h _
        refine Or.inr ⟨rfl, ?_⟩
        intro e; subst e; exact h rfl

theorem parseWords_sets_states (k : Kind) (ok : Word → Bool) {st s : Raw} {rest : List Word}
    (h : parseWords k ok st ("states".toList :: rest) = .ok s) : StatesSet s := by
  rw [parseWords_eq_act] at h
  rcases act_states k ok rest with e | ⟨e, hne⟩
  · rw [e] at h; cases h
  · rw [e] at h
    simp only [applyAct] at h
    split at h
    · cases h
    · cases h
      refine ⟨?_, setRaw_lookup_self _ _ _⟩
      simp only [setRaw, ↓reduceIte]
      intro e'
      exact hne (List.map_eq_nil_iff.mp e')

theorem parseWordLines_keeps_states (k : Kind) (ok : Word → Bool) {wls : List (List Word)} {st s : Raw}
    (hI : StatesSet st) (h : parseWordLines k ok st wls = .ok s) : StatesSet s := by
  induction wls generalizing st with
  | nil => cases h; exact hI
  | cons w wls ih =>
    rw [parseWordLines_cons] at h
    cases hw : parseWords k ok st w with
    | error e => rw [hw] at h; cases h
    | ok st' =>
      rw [hw] at h
      rw [parseWords_eq_act] at hw
      exact ih (applyAct_keeps_states hI hw) h

theorem parseWordLines_states_ne (k : Kind) (ok : Word → Bool) {wls : List (List Word)} {st s : Raw} {rest : List Word}
    (hm : "states".toList :: rest ∈ wls) (h : parseWordLines k ok st wls = .ok s) : StatesSet s := by
  induction wls generalizing st with
  | nil => cases hm
  | cons w wls ih =>
    rw [parseWordLines_cons] at h
    cases hw : parseWords k ok st w with
    | error e => rw [hw] at h; cases h
    | ok st' =>
      rw [hw] at h
      rcases List.mem_cons.mp hm with rfl | hm'
      · exact parseWordLines_keeps_states k ok (parseWords_sets_states k ok hw) h
      · exact ih hm' h

/-- a text with a `states` line that parses has a non-empty declared state list -/
theorem parseLines_states_ne (k : Kind) (ok : Word → Bool) {ls : List Word} {A : Raw} {l : Word} {rest : List Word}
    (hl : l ∈ ls) (hw : splitWs (strip l) = "states".toList :: rest) (h : parseLines k ok ls = .ok A) :
    A.states ≠ [] := by
  rw [parseLines_eq_norm] at h
  have hns : isSkipLine l = false := by
    unfold isSkipLine; rw [hw]; show ("states".toList.head? == some '%') = false; decide
  have hm : "states".toList :: rest ∈ normLines ls := by
    unfold normLines
    rw [← hw]
    exact List.mem_map.mpr ⟨l, List.mem_filter.mpr ⟨hl, by simp [hns]⟩, rfl⟩
  exact (parseWordLines_states_ne k ok hm h).1

theorem foldlM_parseLine_split_labels (k : Kind) (ok : Word → Bool) (st : Raw) (post : List Word) (p q : Word)
    (ls1 ls2 : List Word) (hp : Token p) (hq : Token q) (hl1 : ∀ w, w ∈ ls1 → Token w) (hl2 : ∀ w, w ∈ ls2 → Token w)
    (hne1 : ls1 ≠ []) (hne2 : ls2 ≠ []) (hkw : str p ∉ ["states", "final", "initial"] ++ keywords k) :
    (unwords (p :: q :: (ls1 ++ ls2)) :: post).foldlM (parseLine k ok) st =
      (unwords (p :: q :: ls1) :: unwords (p :: q :: ls2) :: post).foldlM (parseLine k ok) st := by
  have t12 : ∀ w, w ∈ p :: q :: (ls1 ++ ls2) → Token w := by
    intro w hw
    simp only [List.mem_cons, List.mem_append] at hw
    rcases hw with rfl | rfl | hw | hw
    · exact hp
    · exact hq
    · exact hl1 w hw
    · exact hl2 w hw
  have t1 : ∀ w, w ∈ p :: q :: ls1 → Token w := fun w hw => t12 w (by
    simp only [List.mem_cons, List.mem_append] at hw ⊢; rcases hw with h | h | h <;> simp [h])
  have t2 : ∀ w, w ∈ p :: q :: ls2 → Token w := fun w hw => t12 w (by
    simp only [List.mem_cons, List.mem_append] at hw ⊢; rcases hw with h | h | h <;> simp [h])
  simp only [List.foldlM_cons, parseLine_eq', splitWs_strip_unwords t12, splitWs_strip_unwords t1,
    splitWs_strip_unwords t2]
  rw [act_split_labels k ok st p q ls1 ls2 hkw hne1 hne2]
  cases parseWords k ok st (p :: q :: ls1) with
  | error e => rfl
  | ok s => rfl

theorem foldlM_append_congr {k : Kind} {ok : Word → Bool} (pre : List Word) {a b : List Word}
    (h : ∀ st, a.foldlM (parseLine k ok) st = b.foldlM (parseLine k ok) st) :
    parseLines k ok (pre ++ a) = parseLines k ok (pre ++ b) := by
  unfold parseLines
  rw [List.foldlM_append, List.foldlM_append]
  congr 1
  funext st
  exact h st

/-! ### the NFA builder on a list of lines -/

/-- everything `parse_nfa` does after the line parser -/
def nfaOfRaw (A0 : Raw) (stateOk : Word → Bool) : Except Err (NFA String String) := do
  let A ← commonChecks A0 [] stateOk
  let eps ← parseSymbol A "epsilon" 'ε' "_"
  let used := dedup ((A.transitions.map fun t => str t.2.1).filter (· ≠ eps))
  let Sigma ← getSymbolSet A "input_symbols" used
  if !wordsOk Sigma then .error .runtimeError else
  NFA.checked { Q := A.states, Sigma := Sigma, delta := groupNfa (A.transitions.map fun t => (t.1, str t.2.1, t.2.2)),
                q0 := initialOf A, F := A.final, eps := eps }

/-- `parseNfa` on the list of lines of the text -/
def parseNfaLines (ls : List Word) (stateOk : Word → Bool := isWord) : Except Err (NFA String String) := do
  let A0 ← parseLines .nfa stateOk ls
  nfaOfRaw A0 stateOk

theorem nfaOfRaw_ok_unpack {A0 : Raw} {ok : Word → Bool} {N : NFA String String} (h : nfaOfRaw A0 ok = .ok N) :
    ∃ A eps Sigma, commonChecks A0 [] ok = .ok A ∧ parseSymbol A "epsilon" 'ε' "_" = .ok eps ∧
      getSymbolSet A "input_symbols" (dedup ((A.transitions.map fun t => str t.2.1).filter (· ≠ eps))) = .ok Sigma ∧
      wordsOk Sigma = true ∧
      NFA.checked { Q := A.states, Sigma := Sigma,
                    delta := groupNfa (A.transitions.map fun t => (t.1, str t.2.1, t.2.2)),
                    q0 := initialOf A, F := A.final, eps := eps } = .ok N := by
  unfold nfaOfRaw at h
  simp only [bind, Except.bind] at h
  repeat' split at h
  all_goals first | cases h | skip
  rename_i A h1 _ eps h2 _ Sigma h3 h4
  exact ⟨A, eps, Sigma, h1, h2, h3, by simpa using h4, h⟩

theorem nfaOfRaw_eq_of {A0 A : Raw} {ok : Word → Bool} {eps : String} {Sigma : List String}
    (h1 : commonChecks A0 [] ok = .ok A) (h2 : parseSymbol A "epsilon" 'ε' "_" = .ok eps)
    (h3 : getSymbolSet A "input_symbols" (dedup ((A.transitions.map fun t => str t.2.1).filter (· ≠ eps))) = .ok Sigma)
    (h4 : wordsOk Sigma = true) :
    nfaOfRaw A0 ok =
      NFA.checked { Q := A.states, Sigma := Sigma,
                    delta := groupNfa (A.transitions.map fun t => (t.1, str t.2.1, t.2.2)),
                    q0 := initialOf A, F := A.final, eps := eps } := by
  unfold nfaOfRaw
  simp only [bind, Except.bind, h1, h2, h3, h4]
  simp

theorem parseSymbol_congr {A B : Raw} {key : String} {value : Char} {dflt : String}
    (hl : B.items.lookup key = A.items.lookup key) (ht : B.transitions.Perm A.transitions) :
    parseSymbol B key value dflt = parseSymbol A key value dflt := by
  unfold parseSymbol
  rw [hl]
  have : (B.transitions.any fun t => t.2.1.contains value) = (A.transitions.any fun t => t.2.1.contains value) := by
    rw [Bool.eq_iff_iff, List.any_eq_true, List.any_eq_true]
    constructor
    · rintro ⟨t, ht', h⟩; exact ⟨t, ht.mem_iff.mp ht', h⟩
    · rintro ⟨t, ht', h⟩; exact ⟨t, ht.mem_iff.mpr ht', h⟩
  rw [this]

/-- the NFA builder respects the equivalence of raw records; the transition table has the same successor sets -/
theorem nfaOfRaw_congr {A0 B0 : Raw} {ok : Word → Bool} {N : NFA String String} (h : Raw.Equiv A0 B0)
    (hN : nfaOfRaw A0 ok = .ok N) :
    ∃ N', nfaOfRaw B0 ok = .ok N' ∧ N'.Q.Perm N.Q ∧ (A0.states ≠ [] → N'.Q = N.Q) ∧ N'.q0 = N.q0 ∧ N'.F = N.F ∧
      N'.eps = N.eps ∧ (∀ a, a ∈ N'.Sigma ↔ a ∈ N.Sigma) ∧
      ∀ p a x, x ∈ (N'.delta.lookup (p, a)).getD [] ↔ x ∈ (N.delta.lookup (p, a)).getD [] := by
  obtain ⟨A, eps, Sigma, h1, h2, h3, h4, h6⟩ := nfaOfRaw_ok_unpack hN
  obtain ⟨rfl, hv⟩ := NFA.checked_ok h6
  obtain ⟨B, g1, gS, gS', gi, gf, gl, gt⟩ := commonChecks_congr h h1
  have g2 : parseSymbol B "epsilon" 'ε' "_" = .ok eps := (parseSymbol_congr (gl "epsilon") gt).trans h2
  have hts : (B.transitions.map fun t => (t.1, str t.2.1, t.2.2)).Perm
      (A.transitions.map fun t => (t.1, str t.2.1, t.2.2)) := gt.map _
  have hused : ∀ a, a ∈ dedup ((B.transitions.map fun t => str t.2.1).filter (· ≠ eps)) ↔
      a ∈ dedup ((A.transitions.map fun t => str t.2.1).filter (· ≠ eps)) := by
    intro a
    simp only [mem_dedup]
    exact ((gt.map _).filter _).mem_iff
  obtain ⟨Sigma', g3, hSig⟩ := getSymbolSet_congr (gl "input_symbols") hused h3
  have g4 : wordsOk Sigma' = true := by
    simp only [wordsOk, List.all_eq_true] at h4 ⊢
    intro a ha
    exact h4 a ((hSig a).mp ha)
  have hq0 : initialOf B = initialOf A := by simp only [initialOf, gi]
  have hsucc : ∀ p a x, x ∈ ((groupNfa (B.transitions.map fun t => (t.1, str t.2.1, t.2.2))).lookup (p, a)).getD [] ↔
      x ∈ ((groupNfa (A.transitions.map fun t => (t.1, str t.2.1, t.2.2))).lookup (p, a)).getD [] := by
    intro p a x
    rw [mem_groupNfa_lookup, mem_groupNfa_lookup]
    exact hts.mem_iff
  have hvalid : NFA.valid
      { Q := B.states, Sigma := Sigma', q0 := initialOf B, F := B.final, eps := eps,
        delta := groupNfa (B.transitions.map fun t => (t.1, str t.2.1, t.2.2)) : NFA String String } = true := by
    obtain ⟨v1, v2, v3, v4⟩ := (NFA.valid_iff _).mp hv
    rw [NFA.valid_iff]
    refine ⟨?_, ?_, ?_, ?_⟩
    · show initialOf B ∈ B.states
      rw [hq0]; exact gS.mem_iff.mpr v1
    · intro f hf
      have hf' : f ∈ B.final := hf
      rw [gf] at hf'
      exact gS.mem_iff.mpr (v2 f hf')
    · intro he
      exact v3 ((hSig _).mp he)
    · intro q a T he
      obtain ⟨⟨x0, hx0⟩, hall⟩ := groupNfa_mem he
      have key : ∀ x, (q, a, x) ∈ (B.transitions.map fun t => (t.1, str t.2.1, t.2.2)) →
          q ∈ A.states ∧ (a ∈ Sigma ∨ a = eps) ∧ x ∈ A.states := by
        intro x hx
        have hxA := (mem_groupNfa_lookup _ q a x).mpr (hts.mem_iff.mp hx)
        cases hlk : (groupNfa (A.transitions.map fun t => (t.1, str t.2.1, t.2.2))).lookup (q, a) with
        | none => rw [hlk] at hxA; simp at hxA
        | some T' =>
          rw [hlk] at hxA
          simp only [Option.getD_some] at hxA
          obtain ⟨w1, w2, w3⟩ := v4 q a T' (mem_of_lookup_eq_some hlk)
          exact ⟨w1, w2, w3 x hxA⟩
      obtain ⟨w1, w2, _⟩ := key x0 hx0
      refine ⟨gS.mem_iff.mpr w1, ?_, fun x hx => gS.mem_iff.mpr (key x (hall x hx)).2.2⟩
      rcases w2 with w2 | w2
      · exact Or.inl ((hSig a).mpr w2)
      · exact Or.inr w2
  refine ⟨
    { Q := B.states, Sigma := Sigma', q0 := initialOf B, F := B.final, eps := eps,
      delta := groupNfa (B.transitions.map fun t => (t.1, str t.2.1, t.2.2)) },
    (nfaOfRaw_eq_of g1 g2 g3 g4).trans (by simp only [NFA.checked, hvalid]; rfl), gS, ?_, hq0, gf, rfl, hSig, hsucc⟩
  intro hne
  exact gS' hne

theorem parseNfaLines_ok_unpack {ls : List Word} {ok : Word → Bool} {N : NFA String String}
    (h : parseNfaLines ls ok = .ok N) : ∃ A0, parseLines .nfa ok ls = .ok A0 ∧ nfaOfRaw A0 ok = .ok N := by
  unfold parseNfaLines at h
  simp only [bind, Except.bind] at h
  split at h
  · cases h
  · rename_i A0 h0
    exact ⟨A0, h0, h⟩

theorem parseNfaLines_eq_of {ls : List Word} {ok : Word → Bool} {A0 : Raw} (h : parseLines .nfa ok ls = .ok A0) :
    parseNfaLines ls ok = nfaOfRaw A0 ok := by
  unfold parseNfaLines
  simp only [bind, Except.bind, h]

/-- the NFA builder on two layouts of the same lines -/
theorem parseNfaLines_layout (ok : Word → Bool) {ls ls' : List Word} (hp : (normLines ls).Perm (normLines ls'))
    {N : NFA String String} (h : parseNfaLines ls ok = .ok N) :
    ∃ A0 N', parseLines .nfa ok ls = .ok A0 ∧ parseNfaLines ls' ok = .ok N' ∧ N'.Q.Perm N.Q ∧
      (A0.states ≠ [] → N'.Q = N.Q) ∧ N'.q0 = N.q0 ∧ N'.F = N.F ∧ N'.eps = N.eps ∧
      (∀ a, a ∈ N'.Sigma ↔ a ∈ N.Sigma) ∧
      ∀ p a x, x ∈ (N'.delta.lookup (p, a)).getD [] ↔ x ∈ (N.delta.lookup (p, a)).getD [] := by
  obtain ⟨A0, h0, hN⟩ := parseNfaLines_ok_unpack h
  have he := parseLines_layout .nfa ok hp
  rw [h0] at he
  obtain ⟨B0, hB, hE⟩ := he.ok_left
  obtain ⟨N', hN', r⟩ := nfaOfRaw_congr hE hN
  exact ⟨A0, N', h0, (parseNfaLines_eq_of hB).trans hN', r⟩

end Parse
end Gamba
