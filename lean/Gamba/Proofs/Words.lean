/- Gamba.Proofs.Words — membership characterisation of the word enumerators of `Gamba.Model.Basic`. -/
import Gamba.Model.Basic
namespace Gamba

theorem mem_wordsOfLength {τ : Type} (Sigma : List τ) (n : Nat) (w : List τ) :
    w ∈ wordsOfLength Sigma n ↔ w.length = n ∧ ∀ a, a ∈ w → a ∈ Sigma := by
  induction n generalizing w with
  | zero =>
    simp only [wordsOfLength, List.mem_singleton]
    constructor
    · rintro rfl; simp
    · rintro ⟨h, _⟩; exact List.eq_nil_of_length_eq_zero h
  | succ n ih =>
    simp only [wordsOfLength, List.mem_flatMap, List.mem_map]
    constructor
    · rintro ⟨u, hu, a, ha, rfl⟩
      obtain ⟨hl, hs⟩ := (ih u).mp hu
      refine ⟨by simp [hl], ?_⟩
      intro b hb
      rcases List.mem_append.mp hb with hb | hb
      · exact hs b hb
      · rw [List.mem_singleton.mp hb]; exact ha
    · rintro ⟨hl, hs⟩
      rcases List.eq_nil_or_concat w with rfl | ⟨u, a, rfl⟩
      · simp at hl
      · refine ⟨u, (ih u).mpr ⟨?_, ?_⟩, a, hs a (by simp), (List.concat_eq_append ..).symm⟩
        · simp at hl; exact hl
        · intro b hb; exact hs b (by simp [hb])

theorem mem_wordsUpTo {τ : Type} (Sigma : List τ) (n : Nat) (w : List τ) :
    w ∈ wordsUpTo Sigma n ↔ w.length ≤ n ∧ ∀ a, a ∈ w → a ∈ Sigma := by
  simp only [wordsUpTo, List.mem_flatMap, List.mem_range, mem_wordsOfLength]
  constructor
  · rintro ⟨m, hm, hl, hs⟩; exact ⟨by omega, hs⟩
  · rintro ⟨hl, hs⟩; exact ⟨w.length, by omega, rfl, hs⟩

end Gamba
