/-
  Gamba.Proofs.C20 — helper lemmas for property C20: the two DFA isomorphism tests
  `DFA.isomorphic1` (worklist + matching/inverse dicts) and `DFA.isomorphic` (matching matrix).

  Semantic core: `JR` = the pairs of states jointly reachable by a common word;
  `D1.Iso D2 ↔ RChar` (`JR` is functional, injective and respects finality).
-/
import Gamba.Model.Iso
import Gamba.Spec.Iso
import Gamba.Proofs.DFABasic
import Gamba.Proofs.C14a
namespace Gamba
variable {σ σ₂ τ : Type} [DecidableEq σ] [DecidableEq σ₂] [DecidableEq τ]

/-! ### jointly reachable pairs -/

/-- `(p, q)` is reached in `D1 × D2` by a common word over `Σ` -/
def DFA.JR (D1 : DFA σ τ) (D2 : DFA σ₂ τ) (p : σ) (q : σ₂) : Prop :=
  ∃ w, (∀ a, a ∈ w → a ∈ D1.Sigma) ∧ p = D1.runT D1.q0 w ∧ q = D2.runT D2.q0 w

/-- the characterisation of isomorphism of reachable parts by the relation `JR` -/
def DFA.RChar (D1 : DFA σ τ) (D2 : DFA σ₂ τ) : Prop :=
  (∀ p q q', D1.JR D2 p q → D1.JR D2 p q' → q = q') ∧
  (∀ p p' q, D1.JR D2 p q → D1.JR D2 p' q → p = p') ∧
  (∀ p q, D1.JR D2 p q → (p ∈ D1.F ↔ q ∈ D2.F))

theorem DFA.JR_start (D1 : DFA σ τ) (D2 : DFA σ₂ τ) : D1.JR D2 D1.q0 D2.q0 :=
  ⟨[], fun _ h => (by cases h), rfl, rfl⟩

theorem DFA.JR_next {D1 : DFA σ τ} {D2 : DFA σ₂ τ} {p : σ} {q : σ₂} (h : D1.JR D2 p q) {a : τ}
    (ha : a ∈ D1.Sigma) : D1.JR D2 (D1.next p a) (D2.next q a) := by
  obtain ⟨w, hw, rfl, rfl⟩ := h
  refine ⟨w ++ [a], ?_, ?_, ?_⟩
  · intro b hb
    rcases List.mem_append.mp hb with hb | hb
    · exact hw b hb
    · rw [List.mem_singleton.mp hb]; exact ha
  · rw [DFA.runT_append]; rfl
  · rw [DFA.runT_append]; rfl

theorem DFA.JR_mem {D1 : DFA σ τ} {D2 : DFA σ₂ τ} (h1 : D1.valid = true) (h2 : D2.valid = true)
    (hS : ∀ a, a ∈ D1.Sigma ↔ a ∈ D2.Sigma) {p : σ} {q : σ₂} (h : D1.JR D2 p q) :
    p ∈ D1.Q ∧ q ∈ D2.Q := by
  obtain ⟨w, hw, rfl, rfl⟩ := h
  exact ⟨DFA.runT_mem h1 (DFA.valid_q0 h1) hw,
    DFA.runT_mem h2 (DFA.valid_q0 h2) (fun a ha => (hS a).mp (hw a ha))⟩

/-- `JR` is the least relation containing the initial pair and closed under `Σ`-successors -/
theorem DFA.JR_of_closed {D1 : DFA σ τ} {D2 : DFA σ₂ τ} (S : σ → σ₂ → Prop)
    (h0 : S D1.q0 D2.q0)
    (hc : ∀ p q, S p q → ∀ a, a ∈ D1.Sigma → S (D1.next p a) (D2.next q a))
    {p : σ} {q : σ₂} (h : D1.JR D2 p q) : S p q := by
  have key : ∀ (w : List τ), (∀ a, a ∈ w → a ∈ D1.Sigma) → ∀ p q, S p q →
      S (D1.runT p w) (D2.runT q w) := by
    intro w
    induction w with
    | nil => intro _ p q h; exact h
    | cons a w ih =>
      intro hw p q h
      rw [DFA.runT_cons, DFA.runT_cons]
      exact ih (fun b hb => hw b (List.mem_cons_of_mem _ hb)) _ _
        (hc p q h a (hw a List.mem_cons_self))
  obtain ⟨w, hw, rfl, rfl⟩ := h
  exact key w hw _ _ h0

theorem DFA.JR_symm {D1 : DFA σ τ} {D2 : DFA σ₂ τ} (hS : ∀ a, a ∈ D1.Sigma ↔ a ∈ D2.Sigma)
    {p : σ} {q : σ₂} (h : D1.JR D2 p q) : D2.JR D1 q p := by
  obtain ⟨w, hw, hp, hq⟩ := h
  exact ⟨w, fun a ha => (hS a).mp (hw a ha), hq, hp⟩

theorem DFA.RChar_symm {D1 : DFA σ τ} {D2 : DFA σ₂ τ} (hS : ∀ a, a ∈ D1.Sigma ↔ a ∈ D2.Sigma)
    (h : D1.RChar D2) : D2.RChar D1 := by
  have hS' : ∀ a, a ∈ D2.Sigma ↔ a ∈ D1.Sigma := fun a => (hS a).symm
  obtain ⟨hf, hi, hF⟩ := h
  refine ⟨?_, ?_, ?_⟩
  · intro p q q' h1 h2; exact hi q q' p (DFA.JR_symm hS' h1) (DFA.JR_symm hS' h2)
  · intro p p' q h1 h2; exact hf q p p' (DFA.JR_symm hS' h1) (DFA.JR_symm hS' h2)
  · intro p q h1; exact (hF q p (DFA.JR_symm hS' h1)).symm

theorem DFA.Reachable_iff {D : DFA σ τ} (h : D.valid = true) (q : σ) :
    D.Reachable q ↔ ∃ w, (∀ a, a ∈ w → a ∈ D.Sigma) ∧ q = D.runT D.q0 w := by
  unfold DFA.Reachable
  constructor
  · rintro ⟨w, hw, hr⟩; exact ⟨w, hw, (DFA.Run_iff_runT h (DFA.valid_q0 h) hw q).mp hr⟩
  · rintro ⟨w, hw, hr⟩; exact ⟨w, hw, (DFA.Run_iff_runT h (DFA.valid_q0 h) hw q).mpr hr⟩

theorem DFA.JR_reachable_left {D1 : DFA σ τ} {D2 : DFA σ₂ τ} (h1 : D1.valid = true)
    {p : σ} {q : σ₂} (h : D1.JR D2 p q) : D1.Reachable p := by
  obtain ⟨w, hw, hp, _⟩ := h
  exact (DFA.Reachable_iff h1 p).mpr ⟨w, hw, hp⟩

theorem DFA.Reachable_next {D : DFA σ τ} (h : D.valid = true) {p : σ} (hp : D.Reachable p) {a : τ}
    (ha : a ∈ D.Sigma) : D.Reachable (D.next p a) := by
  rw [DFA.Reachable_iff h] at hp ⊢
  obtain ⟨w, hw, rfl⟩ := hp
  refine ⟨w ++ [a], ?_, ?_⟩
  · intro b hb
    rcases List.mem_append.mp hb with hb | hb
    · exact hw b hb
    · rw [List.mem_singleton.mp hb]; exact ha
  · rw [DFA.runT_append]; rfl

/-- an isomorphism map sends `runT q0 w` to `runT q0' w` -/
theorem DFA.IsIsoMap.JR_eq {D1 : DFA σ τ} {D2 : DFA σ₂ τ} (h1 : D1.valid = true) {f : σ → σ₂}
    (hf : D1.IsIsoMap D2 f) {p : σ} {q : σ₂} (h : D1.JR D2 p q) : q = f p := by
  obtain ⟨_, _, _, h0, hstep, _⟩ := hf
  have key : ∀ (w : List τ), (∀ a, a ∈ w → a ∈ D1.Sigma) → ∀ p, D1.Reachable p →
      f (D1.runT p w) = D2.runT (f p) w := by
    intro w
    induction w with
    | nil => intro _ p _; rfl
    | cons a w ih =>
      intro hw p hp
      have ha := hw a List.mem_cons_self
      rw [DFA.runT_cons, DFA.runT_cons,
        ih (fun b hb => hw b (List.mem_cons_of_mem _ hb)) _ (DFA.Reachable_next h1 hp ha),
        hstep p a hp ha]
  obtain ⟨w, hw, rfl, rfl⟩ := h
  have hq0 : D1.Reachable D1.q0 := (DFA.Reachable_iff h1 _).mpr ⟨[], fun _ h => (by cases h), rfl⟩
  rw [key w hw _ hq0, h0]

open Classical in
/-- the map read off `JR` (any value on states without a partner) -/
noncomputable def DFA.isoFun (D1 : DFA σ τ) (D2 : DFA σ₂ τ) (p : σ) : σ₂ :=
  if h : ∃ q, D1.JR D2 p q then h.choose else D2.q0

theorem DFA.isoFun_JR {D1 : DFA σ τ} {D2 : DFA σ₂ τ} {p : σ} {q : σ₂} (h : D1.JR D2 p q) :
    D1.JR D2 p (D1.isoFun D2 p) := by
  have he : ∃ q, D1.JR D2 p q := ⟨q, h⟩
  unfold DFA.isoFun
  rw [dif_pos he]
  exact he.choose_spec

/-- **semantic core**: isomorphism of the reachable parts ⇔ `JR` is a finality-preserving partial bijection -/
theorem DFA.Iso_iff_RChar (D1 : DFA σ τ) (D2 : DFA σ₂ τ) (h1 : D1.valid = true) (h2 : D2.valid = true)
    (hS : ∀ a, a ∈ D1.Sigma ↔ a ∈ D2.Sigma) : D1.Iso D2 ↔ D1.RChar D2 := by
  constructor
  · rintro ⟨f, hf⟩
    have hf' := hf
    obtain ⟨hinj, _, _, _, _, hfin⟩ := hf'
    refine ⟨?_, ?_, ?_⟩
    · intro p q q' hq hq'
      rw [hf.JR_eq h1 hq, hf.JR_eq h1 hq']
    · intro p p' q hp hp'
      apply hinj p p' (DFA.JR_reachable_left h1 hp) (DFA.JR_reachable_left h1 hp')
      rw [← hf.JR_eq h1 hp, ← hf.JR_eq h1 hp']
    · intro p q hp
      rw [hf.JR_eq h1 hp]
      exact hfin p (DFA.JR_reachable_left h1 hp)
  · rintro ⟨hfun, hinj, hfin⟩
    refine ⟨D1.isoFun D2, ?_⟩
    have hval : ∀ p q, D1.JR D2 p q → D1.isoFun D2 p = q :=
      fun p q h => hfun p _ _ (DFA.isoFun_JR h) h
    have hreach : ∀ p, D1.Reachable p → D1.JR D2 p (D1.isoFun D2 p) := by
      intro p hp
      obtain ⟨w, hw, hp⟩ := (DFA.Reachable_iff h1 p).mp hp
      exact DFA.isoFun_JR (q := D2.runT D2.q0 w) ⟨w, hw, hp, rfl⟩
    refine ⟨?_, ?_, ?_, ?_, ?_, ?_⟩
    · intro p q hp hq he
      have hjp := hreach p hp
      have hjq := hreach q hq
      rw [he] at hjp
      exact hinj p q _ hjp hjq
    · intro p hp
      have hj := DFA.JR_symm hS (hreach p hp)
      exact DFA.JR_reachable_left h2 hj
    · intro r hr
      obtain ⟨w, hw, hr⟩ := (DFA.Reachable_iff h2 r).mp hr
      have hw1 : ∀ a, a ∈ w → a ∈ D1.Sigma := fun a ha => (hS a).mpr (hw a ha)
      have hj : D1.JR D2 (D1.runT D1.q0 w) r := ⟨w, hw1, rfl, hr⟩
      exact ⟨_, DFA.JR_reachable_left h1 hj, hval _ _ hj⟩
    · exact hval _ _ (DFA.JR_start D1 D2)
    · intro p a hp ha
      exact hval _ _ (DFA.JR_next (hreach p hp) ha)
    · intro p hp
      exact hfin p _ (hreach p hp)

/-! ### generic list / dict lemmas -/
namespace C20

theorem countP_lt_of {α : Type} (f g : α → Bool) (l : List α)
    (hle : ∀ x, x ∈ l → g x = true → f x = true) {x : α} (hx : x ∈ l) (hfx : f x = true)
    (hgx : g x = false) : l.countP g < l.countP f := by
  induction l with
  | nil => cases hx
  | cons y l ih =>
    rw [List.countP_cons, List.countP_cons]
    have hle' : ∀ x, x ∈ l → g x = true → f x = true := fun x hx => hle x (List.mem_cons_of_mem _ hx)
    rcases List.mem_cons.mp hx with rfl | hx'
    · have := List.countP_mono_left hle'
      simp only [hfx, hgx, if_true]
      simp only [Bool.false_eq_true, if_false]
      omega
    · have := ih hle' hx'
      have hy := hle y List.mem_cons_self
      have hc : (if g y = true then 1 else 0) ≤ (if f y = true then 1 else 0) := by
        by_cases hgy : g y = true
        · rw [if_pos hgy, if_pos (hy hgy)]; exact Nat.le_refl _
        · rw [if_neg hgy]; exact Nat.zero_le _
      omega

theorem countP_lt_length {α : Type} (g : α → Bool) (l : List α) {x : α} (hx : x ∈ l)
    (hgx : g x = false) : l.countP g < l.length := by
  have := countP_lt_of (fun _ => true) g l (fun _ _ _ => rfl) hx rfl hgx
  rw [List.countP_true] at this
  exact this

theorem length_prod {α β : Type} (l1 : List α) (l2 : List β) :
    (l1.flatMap fun p => l2.map fun q => (p, q)).length = l1.length * l2.length := by
  induction l1 with
  | nil => simp
  | cons a l ih =>
    rw [List.flatMap_cons, List.length_append, ih, List.length_map, List.length_cons, Nat.succ_mul]
    omega

theorem mem_prod {α β : Type} (l1 : List α) (l2 : List β) (p : α) (q : β) :
    (p, q) ∈ (l1.flatMap fun p => l2.map fun q => (p, q)) ↔ p ∈ l1 ∧ q ∈ l2 := by
  simp only [List.mem_flatMap, List.mem_map, Prod.mk.injEq]
  constructor
  · rintro ⟨a, ha, b, hb, rfl, rfl⟩; exact ⟨ha, hb⟩
  · rintro ⟨ha, hb⟩; exact ⟨p, ha, q, hb, rfl, rfl⟩

theorem pickAt_none {α : Type} {l : List α} {i : Nat} (h : pickAt l i = none) : l = [] := by
  cases l with
  | nil => rfl
  | cons x l => simp [pickAt] at h

section
variable {κ ν : Type} [DecidableEq κ] [BEq κ] [LawfulBEq κ]

theorem lookup_cons_ite (d : List (κ × ν)) (k1 : κ) (v1 : ν) (k : κ) :
    List.lookup k ((k1, v1) :: d) = if k = k1 then some v1 else d.lookup k := by
  rw [List.lookup_cons]
  by_cases h : k = k1
  · subst h; simp
  · have hb : (k == k1) = false := by simp [h]
    rw [hb]; simp [h]

theorem lookup_set (d : Dict κ ν) (k : κ) (v : ν) (k' : κ) :
    (d.set k v).lookup k' = if k' = k then some v else d.lookup k' := by
  induction d with
  | nil => simp only [Dict.set, lookup_cons_ite, List.lookup_nil]
  | cons e d ih =>
    obtain ⟨k1, v1⟩ := e
    simp only [Dict.set]
    by_cases h1 : k1 = k
    · subst h1
      simp only [if_true, lookup_cons_ite]
      split <;> simp_all
    · simp only [h1, if_false, lookup_cons_ite, ih]
      by_cases h2 : k' = k1
      · subst h2; simp [h1]
      · simp [h2]
end

end C20

/-! ### `isomorphic1` -/
namespace C20

/-- termination measure of `iso1Loop`: pairs that may still be inserted + pairs waiting -/
def meas1 (prod : List (σ × σ₂)) (M : Dict σ σ₂) (T : List (σ × σ₂)) : Nat :=
  prod.countP (fun e => (M.lookup e.1).isNone && decide (e ∉ T)) + T.length

theorem meas1_sinsert (prod : List (σ × σ₂)) (M : Dict σ σ₂) (T : List (σ × σ₂)) (e : σ × σ₂)
    (he : e ∈ prod) (hM : M.lookup e.1 = none) : meas1 prod M (sinsert T e) ≤ meas1 prod M T := by
  unfold meas1 sinsert
  by_cases hT : e ∈ T
  · rw [if_pos hT]; exact Nat.le_refl _
  · rw [if_neg hT, List.length_append]
    have := countP_lt_of (fun e => (M.lookup e.1).isNone && decide (e ∉ T))
      (fun e' => (M.lookup e'.1).isNone && decide (e' ∉ T ++ [e])) prod
      (by intro x _ hx
          simp only [Bool.and_eq_true, decide_eq_true_eq, List.mem_append, not_or] at hx ⊢
          exact ⟨hx.1, hx.2.1⟩)
      he (by simp [hM, hT]) (by simp)
    simp only [List.length_singleton]
    omega

theorem meas1_pop (prod : List (σ × σ₂)) (M : Dict σ σ₂) (T rest : List (σ × σ₂)) (i : Nat)
    (q1 : σ) (q2 : σ₂) (hp : pickAt T i = some ((q1, q2), rest)) :
    meas1 prod (M.set q1 q2) rest < meas1 prod M T := by
  unfold meas1
  have hl := pickAt_length hp
  have : prod.countP (fun e => ((M.set q1 q2).lookup e.1).isNone && decide (e ∉ rest)) ≤
      prod.countP (fun e => (M.lookup e.1).isNone && decide (e ∉ T)) := by
    apply List.countP_mono_left
    intro x _ hx
    simp only [Bool.and_eq_true, decide_eq_true_eq, lookup_set] at hx ⊢
    obtain ⟨hx1, hx2⟩ := hx
    by_cases h : x.1 = q1
    · rw [if_pos h] at hx1; simp at hx1
    · rw [if_neg h] at hx1
      refine ⟨hx1, ?_⟩
      intro hxT
      rcases (pickAt_mem_iff hp x).mp hxT with rfl | hr
      · exact h rfl
      · exact hx2 hr
  omega

theorem iso1Inner_none (D1 : DFA σ τ) (D2 : DFA σ₂ τ) (q1 : σ) (q2 : σ₂) (M : Dict σ σ₂) :
    ∀ (as : List τ) (T : List (σ × σ₂)), iso1Inner D1 D2 q1 q2 M as T = none →
      ∃ a, a ∈ as ∧ ∃ m, M.lookup (D1.next q1 a) = some m ∧ D2.next q2 a ≠ m := by
  intro as
  induction as with
  | nil => intro T h; simp [iso1Inner] at h
  | cons a as ih =>
    intro T h
    simp only [iso1Inner] at h
    split at h
    · obtain ⟨b, hb, hm⟩ := ih _ h
      exact ⟨b, List.mem_cons_of_mem _ hb, hm⟩
    · rename_i m hm
      split at h
      · rename_i hne
        exact ⟨a, List.mem_cons_self, m, hm, hne⟩
      · obtain ⟨b, hb, hm⟩ := ih _ h
        exact ⟨b, List.mem_cons_of_mem _ hb, hm⟩

theorem iso1Inner_some (D1 : DFA σ τ) (D2 : DFA σ₂ τ) (q1 : σ) (q2 : σ₂) (M : Dict σ σ₂)
    (prod : List (σ × σ₂)) :
    ∀ (as : List τ) (T T' : List (σ × σ₂)),
      (∀ a, a ∈ as → (D1.next q1 a, D2.next q2 a) ∈ prod) →
      iso1Inner D1 D2 q1 q2 M as T = some T' →
      (∀ e, e ∈ T → e ∈ T') ∧
      (∀ e, e ∈ T' → e ∈ T ∨ ∃ a, a ∈ as ∧ e = (D1.next q1 a, D2.next q2 a)) ∧
      (∀ a, a ∈ as → M.lookup (D1.next q1 a) = some (D2.next q2 a) ∨
        (D1.next q1 a, D2.next q2 a) ∈ T') ∧
      meas1 prod M T' ≤ meas1 prod M T := by
  intro as
  induction as with
  | nil =>
    intro T T' _ h
    simp only [iso1Inner, Option.some.injEq] at h
    subst h
    exact ⟨fun _ h => h, fun _ h => Or.inl h, fun _ h => (by cases h), Nat.le_refl _⟩
  | cons a as ih =>
    intro T T' hprod h
    have hprod' : ∀ b, b ∈ as → (D1.next q1 b, D2.next q2 b) ∈ prod :=
      fun b hb => hprod b (List.mem_cons_of_mem _ hb)
    simp only [iso1Inner] at h
    split at h
    · rename_i hm
      obtain ⟨i1, i2, i3, i4⟩ := ih _ _ hprod' h
      refine ⟨?_, ?_, ?_, ?_⟩
      · intro e he; exact i1 e (mem_sinsert.mpr (Or.inl he))
      · intro e he
        rcases i2 e he with h' | ⟨b, hb, rfl⟩
        · rcases mem_sinsert.mp h' with h'' | rfl
          · exact Or.inl h''
          · exact Or.inr ⟨a, List.mem_cons_self, rfl⟩
        · exact Or.inr ⟨b, List.mem_cons_of_mem _ hb, rfl⟩
      · intro b hb
        rcases List.mem_cons.mp hb with rfl | hb
        · exact Or.inr (i1 _ (mem_sinsert.mpr (Or.inr rfl)))
        · exact i3 b hb
      · exact Nat.le_trans i4 (meas1_sinsert prod M T _ (hprod a List.mem_cons_self) hm)
    · rename_i m hm
      split at h
      · cases h
      · rename_i hne
        have hne' : D2.next q2 a = m := Classical.not_not.mp hne
        obtain ⟨i1, i2, i3, i4⟩ := ih _ _ hprod' h
        refine ⟨i1, ?_, ?_, i4⟩
        · intro e he
          rcases i2 e he with h' | ⟨b, hb, rfl⟩
          · exact Or.inl h'
          · exact Or.inr ⟨b, List.mem_cons_of_mem _ hb, rfl⟩
        · intro b hb
          rcases List.mem_cons.mp hb with rfl | hb
          · exact Or.inl (by rw [hm, hne'])
          · exact i3 b hb

/-- loop invariant of `iso1Loop` -/
structure Inv1 (D1 : DFA σ τ) (D2 : DFA σ₂ τ) (M : Dict σ σ₂) (I : Dict σ₂ σ)
    (T : List (σ × σ₂)) : Prop where
  todo : ∀ p q, (p, q) ∈ T → D1.JR D2 p q
  mat : ∀ p q, M.lookup p = some q → D1.JR D2 p q ∧ (p ∈ D1.F ↔ q ∈ D2.F)
  inv : ∀ p q, I.lookup q = some p ↔ M.lookup p = some q
  closed : ∀ p q, M.lookup p = some q → ∀ a, a ∈ D1.Sigma →
    M.lookup (D1.next p a) = some (D2.next q a) ∨ (D1.next p a, D2.next q a) ∈ T
  start : M.lookup D1.q0 = some D2.q0 ∨ (D1.q0, D2.q0) ∈ T

theorem Inv1.final {D1 : DFA σ τ} {D2 : DFA σ₂ τ} {M : Dict σ σ₂} {I : Dict σ₂ σ}
    (h : Inv1 D1 D2 M I []) : D1.RChar D2 := by
  have hall : ∀ p q, D1.JR D2 p q → M.lookup p = some q := by
    intro p q hj
    refine DFA.JR_of_closed (fun p q => M.lookup p = some q) ?_ ?_ hj
    · rcases h.start with h' | h'
      · exact h'
      · cases h'
    · intro p q hpq a ha
      rcases h.closed p q hpq a ha with h' | h'
      · exact h'
      · cases h'
  refine ⟨?_, ?_, ?_⟩
  · intro p q q' hq hq'
    have := hall p q hq
    rw [hall p q' hq'] at this
    exact (Option.some.inj this).symm
  · intro p p' q hp hp'
    have a1 := (h.inv p q).mpr (hall p q hp)
    have a2 := (h.inv p' q).mpr (hall p' q hp')
    rw [a1] at a2
    exact Option.some.inj a2
  · intro p q hj
    exact (h.mat p q (hall p q hj)).2

theorem iso1Loop_succ (D1 : DFA σ τ) (D2 : DFA σ₂ τ) (fuel : Nat) (s : Sched) (st : Iso1State σ σ₂) :
    iso1Loop D1 D2 (fuel + 1) s st =
      match pickAt st.todo s.next.1 with
      | none => .ok true
      | some ((q1, q2), rest) =>
        if (decide (q1 ∈ D1.F) != decide (q2 ∈ D2.F)) = true then .ok false
        else if (st.matching.lookup q1).getD q2 ≠ q2 ∨ (st.inverse.lookup q2).getD q1 ≠ q1 then .ok false
        else
          match iso1Inner D1 D2 q1 q2 (st.matching.set q1 q2) D1.Sigma rest with
          | none => .ok false
          | some todo => iso1Loop D1 D2 fuel s.next.2
              { matching := st.matching.set q1 q2, inverse := st.inverse.set q2 q1, todo := todo } := by
  rfl

/-- one surviving iteration of `iso1Loop` re-establishes the invariant -/
theorem Inv1.step {D1 : DFA σ τ} {D2 : DFA σ₂ τ} {M : Dict σ σ₂} {I : Dict σ₂ σ}
    {T rest T' : List (σ × σ₂)} {i : Nat} {q1 : σ} {q2 : σ₂}
    (hinv : Inv1 D1 D2 M I T) (hp : pickAt T i = some ((q1, q2), rest))
    (hF : q1 ∈ D1.F ↔ q2 ∈ D2.F)
    (hM1 : ∀ m, M.lookup q1 = some m → m = q2) (hI1 : ∀ m, I.lookup q2 = some m → m = q1)
    (i1 : ∀ e, e ∈ rest → e ∈ T')
    (i2 : ∀ e, e ∈ T' → e ∈ rest ∨ ∃ a, a ∈ D1.Sigma ∧ e = (D1.next q1 a, D2.next q2 a))
    (i3 : ∀ a, a ∈ D1.Sigma → (M.set q1 q2).lookup (D1.next q1 a) = some (D2.next q2 a) ∨
        (D1.next q1 a, D2.next q2 a) ∈ T') :
    Inv1 D1 D2 (M.set q1 q2) (I.set q2 q1) T' := by
  have hj : D1.JR D2 q1 q2 := hinv.todo _ _ (pickAt_mem hp)
  have L : ∀ p q, (M.set q1 q2).lookup p = some q ↔ M.lookup p = some q ∨ (p = q1 ∧ q = q2) := by
    intro p q
    rw [lookup_set]
    by_cases h : p = q1
    · subst h
      rw [if_pos rfl]
      constructor
      · intro h'; exact Or.inr ⟨rfl, (Option.some.inj h').symm⟩
      · rintro (h' | ⟨_, rfl⟩)
        · rw [hM1 q h']
        · rfl
    · rw [if_neg h]
      constructor
      · exact Or.inl
      · rintro (h' | ⟨h', _⟩)
        · exact h'
        · exact absurd h' h
  have L' : ∀ p q, (I.set q2 q1).lookup q = some p ↔ I.lookup q = some p ∨ (p = q1 ∧ q = q2) := by
    intro p q
    rw [lookup_set]
    by_cases h : q = q2
    · subst h
      rw [if_pos rfl]
      constructor
      · intro h'; exact Or.inr ⟨(Option.some.inj h').symm, rfl⟩
      · rintro (h' | ⟨rfl, _⟩)
        · rw [hI1 p h']
        · rfl
    · rw [if_neg h]
      constructor
      · exact Or.inl
      · rintro (h' | ⟨_, h'⟩)
        · exact h'
        · exact absurd h' h
  have hT : ∀ e, e ∈ T → e = (q1, q2) ∨ e ∈ T' := by
    intro e he
    rcases (pickAt_mem_iff hp e).mp he with h | h
    · exact Or.inl h
    · exact Or.inr (i1 e h)
  refine ⟨?_, ?_, ?_, ?_, ?_⟩
  · intro p q he
    rcases i2 _ he with h | ⟨a, ha, h⟩
    · exact hinv.todo p q ((pickAt_mem_iff hp _).mpr (Or.inr h))
    · simp only [Prod.mk.injEq] at h
      obtain ⟨rfl, rfl⟩ := h
      exact DFA.JR_next hj ha
  · intro p q h
    rcases (L p q).mp h with h | ⟨rfl, rfl⟩
    · exact hinv.mat p q h
    · exact ⟨hj, hF⟩
  · intro p q
    rw [L, L', hinv.inv]
  · intro p q h a ha
    rcases (L p q).mp h with h | ⟨rfl, rfl⟩
    · rcases hinv.closed p q h a ha with h' | h'
      · exact Or.inl ((L _ _).mpr (Or.inl h'))
      · rcases hT _ h' with h'' | h''
        · simp only [Prod.mk.injEq] at h''
          exact Or.inl ((L _ _).mpr (Or.inr h''))
        · exact Or.inr h''
    · exact i3 a ha
  · rcases hinv.start with h | h
    · exact Or.inl ((L _ _).mpr (Or.inl h))
    · rcases hT _ h with h' | h'
      · simp only [Prod.mk.injEq] at h'
        exact Or.inl ((L _ _).mpr (Or.inr h'))
      · exact Or.inr h'

/-- total correctness of the worklist loop of `dfa_isomorphic1` -/
theorem iso1Loop_spec (D1 : DFA σ τ) (D2 : DFA σ₂ τ)
    (prod : List (σ × σ₂)) (hprod : ∀ p q, D1.JR D2 p q → (p, q) ∈ prod) :
    ∀ (fuel : Nat) (s : Sched) (st : Iso1State σ σ₂),
      Inv1 D1 D2 st.matching st.inverse st.todo → meas1 prod st.matching st.todo < fuel →
      ∃ b, iso1Loop D1 D2 fuel s st = .ok b ∧ (b = true ↔ D1.RChar D2) := by
  intro fuel
  induction fuel with
  | zero => intro s st _ hm; omega
  | succ fuel ih =>
    intro s st hinv hm
    rw [iso1Loop_succ]
    cases hp : pickAt st.todo s.next.1 with
    | none =>
      have hnil := pickAt_none hp
      rw [hnil] at hinv
      exact ⟨true, rfl, by simp only [true_iff]; exact hinv.final⟩
    | some x =>
      obtain ⟨⟨q1, q2⟩, rest⟩ := x
      simp only []
      have hj : D1.JR D2 q1 q2 := hinv.todo _ _ (pickAt_mem hp)
      by_cases hF : (decide (q1 ∈ D1.F) != decide (q2 ∈ D2.F)) = true
      · rw [if_pos hF]
        refine ⟨false, rfl, ?_⟩
        simp only [Bool.false_eq_true, false_iff]
        intro hR
        have := hR.2.2 q1 q2 hj
        simp [this] at hF
      · rw [if_neg hF]
        have hF' : q1 ∈ D1.F ↔ q2 ∈ D2.F := by
          by_cases h : q1 ∈ D1.F <;> by_cases h' : q2 ∈ D2.F <;> simp [h, h'] at hF ⊢
        by_cases hC : (st.matching.lookup q1).getD q2 ≠ q2 ∨ (st.inverse.lookup q2).getD q1 ≠ q1
        · rw [if_pos hC]
          refine ⟨false, rfl, ?_⟩
          simp only [Bool.false_eq_true, false_iff]
          intro hR
          rcases hC with hC | hC
          · cases hl : st.matching.lookup q1 with
            | none => rw [hl] at hC; exact hC rfl
            | some m =>
              rw [hl] at hC
              exact hC (hR.1 q1 _ _ (hinv.mat q1 m hl).1 hj)
          · cases hl : st.inverse.lookup q2 with
            | none => rw [hl] at hC; exact hC rfl
            | some m =>
              rw [hl] at hC
              exact hC (hR.2.1 _ _ q2 (hinv.mat m q2 ((hinv.inv m q2).mp hl)).1 hj)
        · rw [if_neg hC]
          have hM1 : ∀ m, st.matching.lookup q1 = some m → m = q2 := by
            intro m hl
            apply Classical.byContradiction
            intro hne
            exact hC (Or.inl (by rw [hl]; exact hne))
          have hI1 : ∀ m, st.inverse.lookup q2 = some m → m = q1 := by
            intro m hl
            apply Classical.byContradiction
            intro hne
            exact hC (Or.inr (by rw [hl]; exact hne))
          cases hi : iso1Inner D1 D2 q1 q2 (st.matching.set q1 q2) D1.Sigma rest with
          | none =>
            refine ⟨false, rfl, ?_⟩
            simp only [Bool.false_eq_true, false_iff]
            intro hR
            obtain ⟨a, ha, m, hm', hne⟩ := iso1Inner_none D1 D2 q1 q2 _ _ _ hi
            apply hne
            have hj' := DFA.JR_next hj ha
            rw [lookup_set] at hm'
            by_cases h : D1.next q1 a = q1
            · rw [if_pos h] at hm'
              rw [h] at hj'
              rw [← Option.some.inj hm']
              exact hR.1 q1 _ _ hj' hj
            · rw [if_neg h] at hm'
              exact hR.1 _ _ _ hj' (hinv.mat _ m hm').1
          | some T' =>
            simp only []
            have hsucc : ∀ a, a ∈ D1.Sigma → (D1.next q1 a, D2.next q2 a) ∈ prod :=
              fun a ha => hprod _ _ (DFA.JR_next hj ha)
            obtain ⟨i1, i2, i3, i4⟩ := iso1Inner_some D1 D2 q1 q2 _ prod _ _ _ hsucc hi
            apply ih
            · exact hinv.step hp hF' hM1 hI1 i1 i2 i3
            · have := meas1_pop prod st.matching st.todo rest s.next.1 q1 q2 hp
              simp only []
              omega

end C20

theorem DFA.isomorphic1_RChar (D1 : DFA σ τ) (D2 : DFA σ₂ τ) (h1 : D1.valid = true)
    (h2 : D2.valid = true) (hS : ∀ a, a ∈ D1.Sigma ↔ a ∈ D2.Sigma) (s : Sched) :
    ∃ b, D1.isomorphic1 D2 s = .ok b ∧ (b = true ↔ D1.RChar D2) := by
  unfold DFA.isomorphic1
  have hseq : seq D1.Sigma D2.Sigma = true := seq_iff.mpr hS
  rw [hseq]
  simp only [Bool.not_true, Bool.false_eq_true, if_false]
  apply C20.iso1Loop_spec D1 D2 (D1.Q.flatMap fun p => D2.Q.map fun q => (p, q))
  · intro p q hj
    exact (C20.mem_prod _ _ _ _).mpr (DFA.JR_mem h1 h2 hS hj)
  · refine ⟨?_, ?_, ?_, ?_, ?_⟩
    · intro p q h
      simp only [List.mem_singleton, Prod.mk.injEq] at h
      obtain ⟨rfl, rfl⟩ := h
      exact DFA.JR_start D1 D2
    · intro p q h; simp at h
    · intro p q; simp
    · intro p q h; simp at h
    · exact Or.inr List.mem_cons_self
  · unfold C20.meas1
    have hmem : (D1.q0, D2.q0) ∈ (D1.Q.flatMap fun p => D2.Q.map fun q => (p, q)) :=
      (C20.mem_prod _ _ _ _).mpr ⟨DFA.valid_q0 h1, DFA.valid_q0 h2⟩
    have := C20.countP_lt_length
      (fun e => (List.lookup e.1 ([] : Dict σ σ₂)).isNone && decide (e ∉ [(D1.q0, D2.q0)])) _ hmem
      (by simp)
    rw [C20.length_prod] at this
    simp only [List.length_singleton]
    omega

/-! ### `isomorphic` (matching matrix) -/
namespace C20

def meas2 (prod : List (σ × σ₂)) (m t : List (σ × σ₂)) : Nat :=
  prod.countP (fun e => decide (e ∉ m)) + t.length

theorem meas2_add (prod : List (σ × σ₂)) (m t : List (σ × σ₂)) (e : σ × σ₂)
    (he : e ∈ prod) (hm : e ∉ m) : meas2 prod (m ++ [e]) (sinsert t e) ≤ meas2 prod m t := by
  unfold meas2
  have h1 : (sinsert t e).length ≤ t.length + 1 := by
    unfold sinsert
    split
    · omega
    · simp
  have := countP_lt_of (fun e => decide (e ∉ m)) (fun e' => decide (e' ∉ m ++ [e])) prod
    (by intro x _ hx
        simp only [decide_eq_true_eq, List.mem_append, not_or] at hx ⊢
        exact hx.1)
    he (by simp [hm]) (by simp)
  omega

theorem meas2_pop (prod : List (σ × σ₂)) (m t rest : List (σ × σ₂)) (i : Nat) (x : σ × σ₂)
    (hp : pickAt t i = some (x, rest)) : meas2 prod m rest < meas2 prod m t := by
  unfold meas2
  have := pickAt_length hp
  omega

/-- the pair of successor states -/
abbrev succP (D1 : DFA σ τ) (D2 : DFA σ₂ τ) (q1 : σ) (q2 : σ₂) (a : τ) : σ × σ₂ :=
  (D1.next q1 a, D2.next q2 a)

theorem iso2Inner_none (D1 : DFA σ τ) (D2 : DFA σ₂ τ) (q1 : σ) (q2 : σ₂) :
    ∀ (as : List τ) (m t : List (σ × σ₂)), iso2Inner D1 D2 q1 q2 as m t = none →
      ∃ a, a ∈ as ∧ ¬ (D1.next q1 a ∈ D1.F ↔ D2.next q2 a ∈ D2.F) := by
  intro as
  induction as with
  | nil => intro m t h; simp [iso2Inner] at h
  | cons a as ih =>
    intro m t h
    simp only [iso2Inner] at h
    split at h
    · obtain ⟨b, hb, hm⟩ := ih _ _ h
      exact ⟨b, List.mem_cons_of_mem _ hb, hm⟩
    · split at h
      · obtain ⟨b, hb, hm⟩ := ih _ _ h
        exact ⟨b, List.mem_cons_of_mem _ hb, hm⟩
      · rename_i hne
        refine ⟨a, List.mem_cons_self, ?_⟩
        intro hiff
        apply hne
        simp [hiff]

theorem iso2Inner_some (D1 : DFA σ τ) (D2 : DFA σ₂ τ) (q1 : σ) (q2 : σ₂) (prod : List (σ × σ₂)) :
    ∀ (as : List τ) (m t m' t' : List (σ × σ₂)),
      (∀ a, a ∈ as → succP D1 D2 q1 q2 a ∈ prod) →
      iso2Inner D1 D2 q1 q2 as m t = some (m', t') →
      (∀ e, e ∈ m → e ∈ m') ∧ (∀ e, e ∈ t → e ∈ t') ∧
      (∀ e, e ∈ m' → e ∈ m ∨ (e ∈ t' ∧ ∃ a, a ∈ as ∧ e = succP D1 D2 q1 q2 a ∧
          (e.1 ∈ D1.F ↔ e.2 ∈ D2.F))) ∧
      (∀ e, e ∈ t' → e ∈ t ∨ e ∈ m') ∧
      (∀ a, a ∈ as → succP D1 D2 q1 q2 a ∈ m') ∧
      meas2 prod m' t' ≤ meas2 prod m t := by
  intro as
  induction as with
  | nil =>
    intro m t m' t' _ h
    simp only [iso2Inner, Option.some.injEq, Prod.mk.injEq] at h
    obtain ⟨rfl, rfl⟩ := h
    exact ⟨fun _ h => h, fun _ h => h, fun _ h => Or.inl h, fun _ h => Or.inl h,
      fun _ h => (by cases h), Nat.le_refl _⟩
  | cons a as ih =>
    intro m t m' t' hprod h
    have hprod' : ∀ b, b ∈ as → succP D1 D2 q1 q2 b ∈ prod :=
      fun b hb => hprod b (List.mem_cons_of_mem _ hb)
    simp only [iso2Inner] at h
    split at h
    · rename_i hmem
      obtain ⟨i1, i2, i3, i4, i5, i6⟩ := ih _ _ _ _ hprod' h
      refine ⟨i1, i2, ?_, i4, ?_, i6⟩
      · intro e he
        rcases i3 e he with h' | ⟨h', b, hb, h''⟩
        · exact Or.inl h'
        · exact Or.inr ⟨h', b, List.mem_cons_of_mem _ hb, h''⟩
      · intro b hb
        rcases List.mem_cons.mp hb with rfl | hb
        · exact i1 _ hmem
        · exact i5 b hb
    · rename_i hmem
      split at h
      · rename_i hfin
        have hfin' : D1.next q1 a ∈ D1.F ↔ D2.next q2 a ∈ D2.F := by
          by_cases h : D1.next q1 a ∈ D1.F <;> by_cases h' : D2.next q2 a ∈ D2.F <;>
            simp [h, h'] at hfin ⊢
        obtain ⟨i1, i2, i3, i4, i5, i6⟩ := ih _ _ _ _ hprod' h
        refine ⟨?_, ?_, ?_, ?_, ?_, ?_⟩
        · intro e he; exact i1 e (List.mem_append_left _ he)
        · intro e he; exact i2 e (mem_sinsert.mpr (Or.inl he))
        · intro e he
          rcases i3 e he with h' | ⟨h', b, hb, h''⟩
          · rcases List.mem_append.mp h' with h'' | h''
            · exact Or.inl h''
            · rw [List.mem_singleton] at h''
              subst h''
              exact Or.inr ⟨i2 _ (mem_sinsert.mpr (Or.inr rfl)), a, List.mem_cons_self, rfl, hfin'⟩
          · exact Or.inr ⟨h', b, List.mem_cons_of_mem _ hb, h''⟩
        · intro e he
          rcases i4 e he with h' | h'
          · rcases mem_sinsert.mp h' with h'' | rfl
            · exact Or.inl h''
            · exact Or.inr (i1 _ (List.mem_append_right _ List.mem_cons_self))
          · exact Or.inr h'
        · intro b hb
          rcases List.mem_cons.mp hb with rfl | hb
          · exact i1 _ (List.mem_append_right _ List.mem_cons_self)
          · exact i5 b hb
        · exact Nat.le_trans i6 (meas2_add prod m t _ (hprod a List.mem_cons_self) hmem)
      · cases h

/-- loop invariant of `iso2Loop` -/
structure Inv2 (D1 : DFA σ τ) (D2 : DFA σ₂ τ) (m t : List (σ × σ₂)) : Prop where
  sub : ∀ p q, (p, q) ∈ m → D1.JR D2 p q ∧ (p ∈ D1.F ↔ q ∈ D2.F)
  todo : ∀ e, e ∈ t → e ∈ m
  start : (D1.q0, D2.q0) ∈ m
  closed : ∀ p q, (p, q) ∈ m → (p, q) ∈ t ∨ ∀ a, a ∈ D1.Sigma → (D1.next p a, D2.next q a) ∈ m

theorem Inv2.final {D1 : DFA σ τ} {D2 : DFA σ₂ τ} {m : List (σ × σ₂)} (h : Inv2 D1 D2 m []) :
    (∀ p q, (p, q) ∈ m ↔ D1.JR D2 p q) ∧ ∀ p q, D1.JR D2 p q → (p ∈ D1.F ↔ q ∈ D2.F) := by
  have hall : ∀ p q, D1.JR D2 p q → (p, q) ∈ m := by
    intro p q hj
    refine DFA.JR_of_closed (fun p q => (p, q) ∈ m) h.start ?_ hj
    intro p q hpq a ha
    rcases h.closed p q hpq with h' | h'
    · cases h'
    · exact h' a ha
  exact ⟨fun p q => ⟨fun hm => (h.sub p q hm).1, hall p q⟩, fun p q hj => (h.sub p q (hall p q hj)).2⟩

theorem iso2Loop_succ (D1 : DFA σ τ) (D2 : DFA σ₂ τ) (fuel : Nat) (s : Sched)
    (m t : List (σ × σ₂)) :
    iso2Loop D1 D2 (fuel + 1) s m t =
      match pickAt t s.next.1 with
      | none => .ok (some m)
      | some ((q1, q2), rest) =>
        match iso2Inner D1 D2 q1 q2 D1.Sigma m rest with
        | none => .ok none
        | some (m', t') => iso2Loop D1 D2 fuel s.next.2 m' t' := by
  rfl

/-- what `iso2Loop` returns -/
def Post2 (D1 : DFA σ τ) (D2 : DFA σ₂ τ) : Option (List (σ × σ₂)) → Prop
  | none => ∃ p q, D1.JR D2 p q ∧ ¬ (p ∈ D1.F ↔ q ∈ D2.F)
  | some m => (∀ p q, (p, q) ∈ m ↔ D1.JR D2 p q) ∧ ∀ p q, D1.JR D2 p q → (p ∈ D1.F ↔ q ∈ D2.F)

theorem iso2Loop_spec (D1 : DFA σ τ) (D2 : DFA σ₂ τ)
    (prod : List (σ × σ₂)) (hprod : ∀ p q, D1.JR D2 p q → (p, q) ∈ prod) :
    ∀ (fuel : Nat) (s : Sched) (m t : List (σ × σ₂)),
      Inv2 D1 D2 m t → meas2 prod m t < fuel →
      ∃ r, iso2Loop D1 D2 fuel s m t = .ok r ∧ Post2 D1 D2 r := by
  intro fuel
  induction fuel with
  | zero => intro s m t _ hm; omega
  | succ fuel ih =>
    intro s m t hinv hm
    rw [iso2Loop_succ]
    cases hp : pickAt t s.next.1 with
    | none =>
      have hnil := pickAt_none hp
      rw [hnil] at hinv
      exact ⟨some m, rfl, hinv.final⟩
    | some x =>
      obtain ⟨⟨q1, q2⟩, rest⟩ := x
      simp only []
      have hmem : (q1, q2) ∈ m := hinv.todo _ (pickAt_mem hp)
      have hj : D1.JR D2 q1 q2 := (hinv.sub _ _ hmem).1
      cases hi : iso2Inner D1 D2 q1 q2 D1.Sigma m rest with
      | none =>
        obtain ⟨a, ha, hne⟩ := iso2Inner_none D1 D2 q1 q2 _ _ _ hi
        exact ⟨none, rfl, _, _, DFA.JR_next hj ha, hne⟩
      | some mt =>
        obtain ⟨m', t'⟩ := mt
        simp only []
        have hsucc : ∀ a, a ∈ D1.Sigma → succP D1 D2 q1 q2 a ∈ prod :=
          fun a ha => hprod _ _ (DFA.JR_next hj ha)
        obtain ⟨i1, i2, i3, i4, i5, i6⟩ := iso2Inner_some D1 D2 q1 q2 prod _ _ _ _ _ hsucc hi
        apply ih
        · refine ⟨?_, ?_, ?_, ?_⟩
          · intro p q he
            rcases i3 _ he with h | ⟨_, a, ha, h, hfin⟩
            · exact hinv.sub p q h
            · simp only [succP, Prod.mk.injEq] at h
              obtain ⟨rfl, rfl⟩ := h
              exact ⟨DFA.JR_next hj ha, hfin⟩
          · intro e he
            rcases i4 e he with h | h
            · exact i1 e (hinv.todo e ((pickAt_mem_iff hp e).mpr (Or.inr h)))
            · exact h
          · exact i1 _ hinv.start
          · intro p q he
            rcases i3 _ he with h | ⟨h, _⟩
            · rcases hinv.closed p q h with h' | h'
              · rcases (pickAt_mem_iff hp _).mp h' with h'' | h''
                · simp only [Prod.mk.injEq] at h''
                  obtain ⟨rfl, rfl⟩ := h''
                  exact Or.inr i5
                · exact Or.inl (i2 _ h'')
              · exact Or.inr (fun a ha => i1 _ (h' a ha))
            · exact Or.inl h
        · have := meas2_pop prod m t rest s.next.1 _ hp
          omega

/-- on a duplicate-free list, "at most one element passes the filter" -/
theorem filter_length_le_one {α : Type} (l : List α) (hn : l.Nodup) (P : α → Bool) :
    (l.filter P).length ≤ 1 ↔ ∀ x y, x ∈ l → y ∈ l → P x = true → P y = true → x = y := by
  induction l with
  | nil => simp
  | cons a l ih =>
    obtain ⟨hna, hnl⟩ := List.nodup_cons.mp hn
    rw [List.filter_cons]
    by_cases hPa : P a = true
    · rw [if_pos hPa, List.length_cons]
      constructor
      · intro hlen
        have hnil : l.filter P = [] := List.eq_nil_of_length_eq_zero (by omega)
        have hno : ∀ x, x ∈ l → P x = true → False := by
          intro x hx hPx
          have : x ∈ l.filter P := List.mem_filter.mpr ⟨hx, hPx⟩
          rw [hnil] at this
          cases this
        intro x y hx hy hPx hPy
        rcases List.mem_cons.mp hx with rfl | hx
        · rcases List.mem_cons.mp hy with rfl | hy
          · rfl
          · exact (hno y hy hPy).elim
        · exact (hno x hx hPx).elim
      · intro hall
        have hnil : l.filter P = [] := by
          rw [List.filter_eq_nil_iff]
          intro x hx hPx
          have := hall a x List.mem_cons_self (List.mem_cons_of_mem _ hx) hPa hPx
          subst this
          exact hna hx
        rw [hnil]
        exact Nat.le_refl _
    · rw [if_neg hPa, ih hnl]
      constructor
      · intro hall x y hx hy hPx hPy
        rcases List.mem_cons.mp hx with rfl | hx
        · exact absurd hPx hPa
        · rcases List.mem_cons.mp hy with rfl | hy
          · exact absurd hPy hPa
          · exact hall x y hx hy hPx hPy
      · intro hall x y hx hy
        exact hall x y (List.mem_cons_of_mem _ hx) (List.mem_cons_of_mem _ hy)

end C20

theorem DFA.isomorphic_RChar (D1 : DFA σ τ) (D2 : DFA σ₂ τ) (h1 : D1.valid = true)
    (h2 : D2.valid = true) (hS : ∀ a, a ∈ D1.Sigma ↔ a ∈ D2.Sigma) (s : Sched) :
    ∃ b, D1.isomorphic D2 s = .ok b ∧ (b = true ↔ D1.RChar D2) := by
  unfold DFA.isomorphic
  have hseq : seq D1.Sigma D2.Sigma = true := seq_iff.mpr hS
  rw [hseq]
  simp only [Bool.not_true, Bool.false_eq_true, if_false]
  by_cases hF : (decide (D1.q0 ∈ D1.F) != decide (D2.q0 ∈ D2.F)) = true
  · rw [if_pos hF]
    refine ⟨false, rfl, ?_⟩
    simp only [Bool.false_eq_true, false_iff]
    intro hR
    have := hR.2.2 _ _ (DFA.JR_start D1 D2)
    simp [this] at hF
  · rw [if_neg hF]
    have hF' : D1.q0 ∈ D1.F ↔ D2.q0 ∈ D2.F := by
      by_cases h : D1.q0 ∈ D1.F <;> by_cases h' : D2.q0 ∈ D2.F <;> simp [h, h'] at hF ⊢
    have hprod : ∀ p q, D1.JR D2 p q → (p, q) ∈ (D1.Q.flatMap fun p => D2.Q.map fun q => (p, q)) :=
      fun p q hj => (C20.mem_prod _ _ _ _).mpr (DFA.JR_mem h1 h2 hS hj)
    have hinv : C20.Inv2 D1 D2 [(D1.q0, D2.q0)] [(D1.q0, D2.q0)] := by
      refine ⟨?_, fun _ h => h, List.mem_cons_self, fun _ _ h => Or.inl h⟩
      intro p q h
      simp only [List.mem_singleton, Prod.mk.injEq] at h
      obtain ⟨rfl, rfl⟩ := h
      exact ⟨DFA.JR_start D1 D2, hF'⟩
    have hmeas : C20.meas2 (D1.Q.flatMap fun p => D2.Q.map fun q => (p, q))
        [(D1.q0, D2.q0)] [(D1.q0, D2.q0)] < D1.Q.length * D2.Q.length + 1 := by
      unfold C20.meas2
      have := C20.countP_lt_length (fun e => decide (e ∉ [(D1.q0, D2.q0)])) _
        (hprod _ _ (DFA.JR_start D1 D2)) (by simp)
      rw [C20.length_prod] at this
      simp only [List.length_singleton]
      omega
    obtain ⟨r, hr, hpost⟩ := C20.iso2Loop_spec D1 D2 _ hprod _ s _ _ hinv hmeas
    rw [hr]
    cases r with
    | none =>
      refine ⟨false, rfl, ?_⟩
      simp only [Bool.false_eq_true, false_iff]
      intro hR
      obtain ⟨p, q, hj, hne⟩ := hpost
      exact hne (hR.2.2 p q hj)
    | some m =>
      obtain ⟨hm, hfin⟩ := hpost
      refine ⟨_, rfl, ?_⟩
      have hnd := nodup_dedup m
      have hmd : ∀ p q, (p, q) ∈ dedup m ↔ D1.JR D2 p q := fun p q => by rw [mem_dedup]; exact hm p q
      simp only [Bool.and_eq_true, List.all_eq_true, decide_eq_true_eq,
        C20.filter_length_le_one _ hnd]
      constructor
      · rintro ⟨H1, H2⟩
        refine ⟨?_, ?_, hfin⟩
        · intro p q q' hq hq'
          have := H1 p (DFA.JR_mem h1 h2 hS hq).1 (p, q) (p, q') ((hmd _ _).mpr hq) ((hmd _ _).mpr hq')
            (by simp) (by simp)
          exact (Prod.mk.inj this).2
        · intro p p' q hp hp'
          have := H2 q (DFA.JR_mem h1 h2 hS hp).2 (p, q) (p', q) ((hmd _ _).mpr hp) ((hmd _ _).mpr hp')
            (by simp) (by simp)
          exact (Prod.mk.inj this).1
      · rintro ⟨hfun, hinj, _⟩
        constructor
        · intro q1 _ x y hx hy hPx hPy
          obtain ⟨x1, x2⟩ := x
          obtain ⟨y1, y2⟩ := y
          dsimp only at hPx hPy
          subst hPx hPy
          rw [hfun _ _ _ ((hmd _ _).mp hx) ((hmd _ _).mp hy)]
        · intro q2 _ x y hx hy hPx hPy
          obtain ⟨x1, x2⟩ := x
          obtain ⟨y1, y2⟩ := y
          dsimp only at hPx hPy
          subst hPx hPy
          rw [hinj _ _ _ ((hmd _ _).mp hx) ((hmd _ _).mp hy)]

/-! ### concrete automata for the non-vacuity examples of Props/C20 -/
namespace C20

/-- a 2-cycle over {a}, both states accepting: accepts a* -/
def exCyc : DFA String String :=
  { Q := ["p", "q"], Sigma := ["a"], delta := [(("p", "a"), "q"), (("q", "a"), "p")], q0 := "p", F := ["p", "q"] }

/-- one accepting state with a loop: accepts a* as well -/
def exOne : DFA String String :=
  { Q := ["r"], Sigma := ["a"], delta := [(("r", "a"), "r")], q0 := "r", F := ["r"] }

/-- words over {a,b} ending in `a` -/
def exA : DFA String String :=
  { Q := ["p", "q"], Sigma := ["a", "b"],
    delta := [(("p", "a"), "q"), (("p", "b"), "p"), (("q", "a"), "q"), (("q", "b"), "p")],
    q0 := "p", F := ["q"] }

/-- a renamed copy of `exA` (alphabet listed in another order) with an extra unreachable state `z` -/
def exB : DFA String String :=
  { Q := ["z", "y", "x"], Sigma := ["b", "a"],
    delta := [(("z", "a"), "x"), (("z", "b"), "z"), (("x", "a"), "y"), (("x", "b"), "x"),
              (("y", "a"), "y"), (("y", "b"), "x")],
    q0 := "x", F := ["y", "z"] }

theorem exCyc_valid : exCyc.valid = true := by decide
theorem exOne_valid : exOne.valid = true := by decide
theorem exA_valid : exA.valid = true := by decide
theorem exB_valid : exB.valid = true := by decide
theorem exCycOne_sigma : ∀ a, a ∈ exCyc.Sigma ↔ a ∈ exOne.Sigma := fun _ => Iff.rfl
theorem exAB_sigma : ∀ a, a ∈ exA.Sigma ↔ a ∈ exB.Sigma := by
  intro a; simp only [exA, exB, List.mem_cons, List.not_mem_nil, or_false]; exact Or.comm
theorem exRename_inj : ∀ p q : String, p ∈ exA.Q → q ∈ exA.Q → p ++ "'" = q ++ "'" → p = q :=
  fun _ _ _ _ h => (String.append_left_inj "'").mp h

/-- `exA` and `exB` (renamed, alphabet reordered, one extra unreachable accepting state) are isomorphic -/
theorem exAB_iso : exA.Iso exB := by
  obtain ⟨b, hb, hiff⟩ := DFA.isomorphic1_RChar exA exB exA_valid exB_valid exAB_sigma []
  have hrun : exA.isomorphic1 exB [] = .ok true := rfl
  rw [hrun] at hb
  exact (DFA.Iso_iff_RChar exA exB exA_valid exB_valid exAB_sigma).mpr
    (hiff.mp (Except.ok.inj hb).symm)

/-- equal languages (both accept `a*`) do not make the 2-cycle and the 1-loop isomorphic -/
theorem exCycOne_not_iso : ¬ exCyc.Iso exOne := by
  obtain ⟨b, hb, hiff⟩ := DFA.isomorphic1_RChar exCyc exOne exCyc_valid exOne_valid exCycOne_sigma []
  have hrun : exCyc.isomorphic1 exOne [] = .ok false := rfl
  rw [hrun] at hb
  intro h
  have := hiff.mpr ((DFA.Iso_iff_RChar exCyc exOne exCyc_valid exOne_valid exCycOne_sigma).mp h)
  rw [← Except.ok.inj hb] at this
  cases this

end C20

end Gamba
