/-
  Gamba.Proofs.TextBasic — generic facts about the text primitives of Model/Text.lean
  (`splitOn`, `splitWs`, `strip`), the `String` / `List Char` bridges, `sortStrings`, and the
  line parser of Model/Parse.lean (`parseLine` on each kind of line, `parseRaw` on a list of lines,
  the printed transition lines `transLines`).  Shared by the four round-trip proofs (DFA / NFA / PDA / TM).
-/
import Gamba.Model.Parse
import Gamba.Proofs.DFABasic
namespace Gamba
namespace Text

/-! ### character classes -/

theorem isSpace_space : isSpace ' ' = true := by decide
theorem isSpace_newline : isSpace '\n' = true := by decide

theorem not_isSpace_of_isWordChar {c : Char} (h : isWordChar c = true) : isSpace c = false := by
  simp only [isSpace, Bool.or_eq_false_iff, beq_eq_false_iff_ne, ne_eq]
  refine ⟨⟨⟨⟨⟨?_, ?_⟩, ?_⟩, ?_⟩, ?_⟩, ?_⟩ <;> rintro rfl <;> revert h <;> decide

theorem isWordChar_ne_percent {c : Char} (h : isWordChar c = true) : c ≠ '%' := by
  rintro rfl; revert h; decide

theorem isWordChar_ne_comma {c : Char} (h : isWordChar c = true) : c ≠ ',' := by
  rintro rfl; revert h; decide

theorem ne_newline_of_not_isSpace {c : Char} (h : isSpace c = false) : c ≠ '\n' := by
  rintro rfl; revert h; decide

theorem ne_space_of_not_isSpace {c : Char} (h : isSpace c = false) : c ≠ ' ' := by
  rintro rfl; revert h; decide

/-- a *token*: a non-empty run of non-whitespace characters (what `split()` returns) -/
def Token (w : List Char) : Prop := w ≠ [] ∧ ∀ c, c ∈ w → isSpace c = false

theorem Token.ne_nil {w : List Char} (h : Token w) : w ≠ [] := h.1
theorem Token.not_space {w : List Char} (h : Token w) {c : Char} (hc : c ∈ w) : isSpace c = false := h.2 c hc
theorem Token.newline_not_mem {w : List Char} (h : Token w) : '\n' ∉ w :=
  fun hm => absurd (h.2 _ hm) (by decide)
theorem Token.space_not_mem {w : List Char} (h : Token w) : ' ' ∉ w :=
  fun hm => absurd (h.2 _ hm) (by decide)

/-! ### `List.intercalate` -/

theorem intercalate_nil_sep {α : Type} (xs : List (List α)) : ([] : List α).intercalate xs = xs.flatten := by
  induction xs with
  | nil => rfl
  | cons x xs ih =>
    cases xs with
    | nil => simp
    | cons y ys => rw [List.intercalate_cons_cons, ih]; simp

theorem intercalate_cons_of_ne_nil {α : Type} (sep x : List α) {xs : List (List α)} (h : xs ≠ []) :
    sep.intercalate (x :: xs) = x ++ sep ++ sep.intercalate xs := by
  cases xs with
  | nil => exact absurd rfl h
  | cons y ys => exact List.intercalate_cons_cons

theorem intercalate_append_of_ne_nil {α : Type} (sep : List α) {xs ys : List (List α)} (hx : xs ≠ []) (hy : ys ≠ []) :
    sep.intercalate (xs ++ ys) = sep.intercalate xs ++ sep ++ sep.intercalate ys := by
  induction xs with
  | nil => exact absurd rfl hx
  | cons x xs ih =>
    cases xs with
    | nil => simp [intercalate_cons_of_ne_nil sep x hy]
    | cons x' xs' =>
      rw [List.cons_append, intercalate_cons_of_ne_nil sep x (by simp), ih (by simp),
        intercalate_cons_of_ne_nil sep x (by simp)]
      simp [List.append_assoc]

theorem mem_intercalate {α : Type} {sep : List α} {xs : List (List α)} {c : α} (h : c ∈ sep.intercalate xs) :
    c ∈ sep ∨ ∃ x, x ∈ xs ∧ c ∈ x := by
  induction xs with
  | nil => simp at h
  | cons x xs ih =>
    cases xs with
    | nil => simp at h; exact Or.inr ⟨x, by simp, h⟩
    | cons y ys =>
      rw [List.intercalate_cons_cons] at h
      simp only [List.mem_append] at h
      rcases h with (h | h) | h
      · exact Or.inr ⟨x, by simp, h⟩
      · exact Or.inl h
      · rcases ih h with h | ⟨z, hz, hc⟩
        · exact Or.inl h
        · exact Or.inr ⟨z, List.mem_cons_of_mem _ hz, hc⟩

/-! ### `splitOn` -/

theorem splitOn_ne_nil (sep : Char) (l : List Char) : splitOn sep l ≠ [] := by
  induction l with
  | nil => simp [splitOn]
  | cons c cs ih =>
    simp only [splitOn]
    split
    · simp
    · split <;> simp

theorem splitOn_cons_sep (sep : Char) (l : List Char) : splitOn sep (sep :: l) = [] :: splitOn sep l := by
  simp [splitOn]

theorem splitOn_cons_ne {sep c : Char} (h : c ≠ sep) (l : List Char) :
    ∃ p ps, splitOn sep l = p :: ps ∧ splitOn sep (c :: l) = (c :: p) :: ps := by
  cases hs : splitOn sep l with
  | nil => exact absurd hs (splitOn_ne_nil sep l)
  | cons p ps => exact ⟨p, ps, rfl, by simp [splitOn, h, hs]⟩

theorem splitOn_of_not_mem {sep : Char} {l : List Char} (h : sep ∉ l) : splitOn sep l = [l] := by
  induction l with
  | nil => rfl
  | cons c cs ih =>
    have hc : c ≠ sep := fun e => h (e ▸ List.mem_cons_self)
    have := ih (fun hm => h (List.mem_cons_of_mem _ hm))
    simp [splitOn, hc, this]

/-- the first piece ends at the first separator -/
theorem splitOn_append_sep {sep : Char} {p : List Char} (h : sep ∉ p) (rest : List Char) :
    splitOn sep (p ++ sep :: rest) = p :: splitOn sep rest := by
  induction p with
  | nil => simp [splitOn]
  | cons c cs ih =>
    have hc : c ≠ sep := fun e => h (e ▸ List.mem_cons_self)
    have := ih (fun hm => h (List.mem_cons_of_mem _ hm))
    simp [splitOn, hc, this]

/-- `sep.join(pieces).split(sep) == pieces` when no piece contains `sep` -/
theorem splitOn_intercalate {sep : Char} {pieces : List (List Char)} (hne : pieces ≠ [])
    (h : ∀ p, p ∈ pieces → sep ∉ p) : splitOn sep ([sep].intercalate pieces) = pieces := by
  induction pieces with
  | nil => exact absurd rfl hne
  | cons p ps ih =>
    cases ps with
    | nil => simp [splitOn_of_not_mem (h p (by simp))]
    | cons q qs =>
      rw [List.intercalate_cons_cons, List.append_assoc, List.singleton_append,
        splitOn_append_sep (h p (by simp)), ih (by simp) (fun r hr => h r (List.mem_cons_of_mem _ hr))]

/-- every piece followed by `sep`: one extra empty piece at the end -/
theorem splitOn_flatMap_terminated {sep : Char} {pieces : List (List Char)} (h : ∀ p, p ∈ pieces → sep ∉ p) :
    splitOn sep (pieces.flatMap (· ++ [sep])) = pieces ++ [[]] := by
  induction pieces with
  | nil => rfl
  | cons p ps ih =>
    rw [List.flatMap_cons, List.append_assoc, List.singleton_append,
      splitOn_append_sep (h p (by simp)), ih (fun r hr => h r (List.mem_cons_of_mem _ hr))]
    rfl

/-! ### `splitWs` -/

theorem splitWs_space_cons {c : Char} (h : isSpace c = true) (cs : List Char) : splitWs (c :: cs) = splitWs cs := by
  simp [splitWs, h]

theorem splitWs_all_space {sp : List Char} (h : ∀ c, c ∈ sp → isSpace c = true) : splitWs sp = [] := by
  induction sp with
  | nil => rfl
  | cons c cs ih =>
    rw [splitWs_space_cons (h c (by simp)), ih (fun d hd => h d (List.mem_cons_of_mem _ hd))]

theorem splitWs_ne_nil_of_head {c : Char} (h : isSpace c = false) (cs : List Char) : splitWs (c :: cs) ≠ [] := by
  rw [splitWs]
  simp only [h, Bool.false_eq_true, ↓reduceIte]
  split
  · simp
  · split
    · split <;> simp
    · simp

theorem splitWs_singleton {c : Char} (h : isSpace c = false) : splitWs [c] = [[c]] := by
  simp [splitWs, h]

theorem splitWs_cons_space {c d : Char} (hc : isSpace c = false) (hd : isSpace d = true) (cs : List Char) :
    splitWs (c :: d :: cs) = [c] :: splitWs cs := by
  rw [splitWs]
  simp only [hc, Bool.false_eq_true, ↓reduceIte, hd, splitWs_space_cons hd]
  split <;> simp_all

theorem splitWs_cons_nonspace {c d : Char} (hc : isSpace c = false) (hd : isSpace d = false) (cs : List Char) :
    ∃ p ps, splitWs (d :: cs) = p :: ps ∧ splitWs (c :: d :: cs) = (c :: p) :: ps := by
  cases hs : splitWs (d :: cs) with
  | nil => exact absurd hs (splitWs_ne_nil_of_head hd cs)
  | cons p ps =>
    refine ⟨p, ps, rfl, ?_⟩
    rw [splitWs]
    simp only [hc, Bool.false_eq_true, ↓reduceIte, hs, hd]

/-- a token followed by nothing or by whitespace is the first word -/
theorem splitWs_token_append {w : List Char} (hw : Token w) {rest : List Char}
    (hr : ∀ d, rest.head? = some d → isSpace d = true) : splitWs (w ++ rest) = w :: splitWs rest := by
  obtain ⟨hne, hns⟩ := hw
  induction w with
  | nil => exact absurd rfl hne
  | cons c w ih =>
    have hc : isSpace c = false := hns c (by simp)
    cases w with
    | nil =>
      cases rest with
      | nil => simp [splitWs_singleton hc, splitWs]
      | cons d r =>
        have hd := hr d rfl
        simp [splitWs_cons_space hc hd, splitWs_space_cons hd]
    | cons c' w' =>
      have hc' : isSpace c' = false := hns c' (by simp)
      have ih' := ih (by simp) (fun d hd => hns d (List.mem_cons_of_mem _ hd))
      obtain ⟨p, ps, h1, h2⟩ := splitWs_cons_nonspace hc hc' (w' ++ rest)
      simp only [List.cons_append] at ih' ⊢
      rw [h2]
      rw [ih'] at h1
      cases h1
      rfl

theorem splitWs_token {w : List Char} (hw : Token w) : splitWs w = [w] := by
  have := splitWs_token_append hw (rest := []) (by simp)
  simpa [splitWs] using this

/-- `" ".join(words).split() == words` for tokens -/
theorem splitWs_intercalate {ws : List (List Char)} (h : ∀ w, w ∈ ws → Token w) :
    splitWs ([' '].intercalate ws) = ws := by
  induction ws with
  | nil => rfl
  | cons w ws ih =>
    cases ws with
    | nil => simp [splitWs_token (h w (by simp))]
    | cons v vs =>
      rw [List.intercalate_cons_cons, List.append_assoc,
        splitWs_token_append (h w (by simp)) (by simp [isSpace_space]), List.singleton_append,
        splitWs_space_cons isSpace_space, ih (fun r hr => h r (List.mem_cons_of_mem _ hr))]

/-- a keyword, one space, then the space-joined arguments (possibly none: a trailing space) -/
theorem splitWs_token_space_intercalate {w : List Char} (hw : Token w) {ws : List (List Char)}
    (h : ∀ v, v ∈ ws → Token v) : splitWs (w ++ ' ' :: [' '].intercalate ws) = w :: ws := by
  rw [splitWs_token_append hw (by simp [isSpace_space]), splitWs_space_cons isSpace_space, splitWs_intercalate h]

theorem splitWs_append_spaces (l : List Char) {sp : List Char} (h : ∀ c, c ∈ sp → isSpace c = true) :
    splitWs (l ++ sp) = splitWs l := by
  induction l with
  | nil => simp [splitWs_all_space h, splitWs]
  | cons c cs ih =>
    by_cases hc : isSpace c = true
    · rw [List.cons_append, splitWs_space_cons hc, splitWs_space_cons hc, ih]
    · cases cs with
      | nil =>
        simp only [List.nil_append] at ih
        simp [splitWs, hc, ih]
      | cons d ds =>
        simp only [List.cons_append] at ih ⊢
        rw [splitWs, splitWs.eq_2 c (d :: ds), ih]

theorem splitWs_spaces_append {sp : List Char} (h : ∀ c, c ∈ sp → isSpace c = true) (l : List Char) :
    splitWs (sp ++ l) = splitWs l := by
  induction sp with
  | nil => rfl
  | cons c cs ih =>
    rw [List.cons_append, splitWs_space_cons (h c (by simp)), ih (fun d hd => h d (List.mem_cons_of_mem _ hd))]

/-- every word returned by `split()` is a token -/
theorem splitWs_token_of_mem {l : List Char} {w : List Char} (h : w ∈ splitWs l) : Token w := by
  induction l generalizing w with
  | nil => simp [splitWs] at h
  | cons c cs ih =>
    by_cases hc : isSpace c = true
    · rw [splitWs_space_cons hc] at h; exact ih h
    · have hc' : isSpace c = false := by simpa using hc
      cases cs with
      | nil =>
        rw [splitWs_singleton hc'] at h
        simp only [List.mem_singleton] at h
        subst h
        exact ⟨by simp, by simpa using hc'⟩
      | cons d ds =>
        by_cases hd : isSpace d = true
        · rw [splitWs_cons_space hc' hd] at h
          rcases List.mem_cons.mp h with rfl | h
          · exact ⟨by simp, by simpa using hc'⟩
          · exact ih (by rw [splitWs_space_cons hd]; exact h)
        · have hd' : isSpace d = false := by simpa using hd
          obtain ⟨p, ps, h1, h2⟩ := splitWs_cons_nonspace hc' hd' ds
          rw [h2] at h
          rcases List.mem_cons.mp h with rfl | h
          · have hp := ih (w := p) (by rw [h1]; simp)
            refine ⟨by simp, ?_⟩
            intro x hx
            rcases List.mem_cons.mp hx with rfl | hx
            · exact hc'
            · exact hp.2 x hx
          · exact ih (by rw [h1]; exact List.mem_cons_of_mem _ h)

/-! ### `dropWhileSpace`, `strip` -/

/-- `s.rstrip()` -/
def rstrip (l : List Char) : List Char := (dropWhileSpace l.reverse).reverse

theorem strip_eq (l : List Char) : strip l = rstrip (dropWhileSpace l) := rfl

theorem dropWhileSpace_of_head {l : List Char} (h : ∀ c, l.head? = some c → isSpace c = false) :
    dropWhileSpace l = l := by
  cases l with
  | nil => rfl
  | cons c cs => simp [dropWhileSpace, h c rfl]

theorem dropWhileSpace_space_cons {c : Char} (h : isSpace c = true) (cs : List Char) :
    dropWhileSpace (c :: cs) = dropWhileSpace cs := by
  simp [dropWhileSpace, h]

theorem dropWhileSpace_all_space {sp : List Char} (h : ∀ c, c ∈ sp → isSpace c = true) : dropWhileSpace sp = [] := by
  induction sp with
  | nil => rfl
  | cons c cs ih =>
    rw [dropWhileSpace_space_cons (h c (by simp)), ih (fun d hd => h d (List.mem_cons_of_mem _ hd))]

theorem dropWhileSpace_spaces_append {sp : List Char} (h : ∀ c, c ∈ sp → isSpace c = true) (l : List Char) :
    dropWhileSpace (sp ++ l) = dropWhileSpace l := by
  induction sp with
  | nil => rfl
  | cons c cs ih =>
    rw [List.cons_append, dropWhileSpace_space_cons (h c (by simp)), ih (fun d hd => h d (List.mem_cons_of_mem _ hd))]

theorem dropWhileSpace_append {a : List Char} (h : ∃ c, c ∈ a ∧ isSpace c = false) (b : List Char) :
    dropWhileSpace (a ++ b) = dropWhileSpace a ++ b := by
  induction a with
  | nil => obtain ⟨c, hc, _⟩ := h; cases hc
  | cons x xs ih =>
    by_cases hx : isSpace x = true
    · rw [List.cons_append, dropWhileSpace_space_cons hx, dropWhileSpace_space_cons hx]
      apply ih
      obtain ⟨c, hc, hs⟩ := h
      rcases List.mem_cons.mp hc with rfl | hc
      · rw [hx] at hs; cases hs
      · exact ⟨c, hc, hs⟩
    · simp [dropWhileSpace, hx]

/-- `dropWhileSpace` removes a whitespace prefix and nothing else -/
theorem dropWhileSpace_spec (l : List Char) :
    ∃ sp, (∀ c, c ∈ sp → isSpace c = true) ∧ l = sp ++ dropWhileSpace l ∧
      ∀ c, (dropWhileSpace l).head? = some c → isSpace c = false := by
  induction l with
  | nil => exact ⟨[], by simp, rfl, by simp [dropWhileSpace]⟩
  | cons c cs ih =>
    by_cases hc : isSpace c = true
    · obtain ⟨sp, h1, h2, h3⟩ := ih
      refine ⟨c :: sp, ?_, ?_, ?_⟩
      · intro d hd
        rcases List.mem_cons.mp hd with rfl | hd
        · exact hc
        · exact h1 d hd
      · rw [dropWhileSpace_space_cons hc, List.cons_append, ← h2]
      · rw [dropWhileSpace_space_cons hc]; exact h3
    · refine ⟨[], by simp, by simp [dropWhileSpace, hc], ?_⟩
      simp [dropWhileSpace, hc]

theorem rstrip_spec (l : List Char) :
    ∃ sp, (∀ c, c ∈ sp → isSpace c = true) ∧ l = rstrip l ++ sp ∧
      ∀ c, (rstrip l).getLast? = some c → isSpace c = false := by
  obtain ⟨sp, h1, h2, h3⟩ := dropWhileSpace_spec l.reverse
  refine ⟨sp.reverse, by simpa using h1, ?_, ?_⟩
  · have := congrArg List.reverse h2
    simpa [rstrip] using this
  · intro c hc
    apply h3
    simpa [rstrip, List.getLast?_reverse] using hc

theorem rstrip_of_getLast {l : List Char} (h : ∀ c, l.getLast? = some c → isSpace c = false) : rstrip l = l := by
  unfold rstrip
  rw [dropWhileSpace_of_head (by simpa [List.head?_reverse] using h), List.reverse_reverse]

theorem rstrip_append_spaces (l : List Char) {sp : List Char} (h : ∀ c, c ∈ sp → isSpace c = true) :
    rstrip (l ++ sp) = rstrip l := by
  unfold rstrip
  rw [List.reverse_append, dropWhileSpace_spaces_append (by simpa using h)]

/-- `rstrip` only touches the last piece, as soon as that piece has a non-whitespace character -/
theorem rstrip_append (a : List Char) {b : List Char} (h : ∃ c, c ∈ b ∧ isSpace c = false) :
    rstrip (a ++ b) = a ++ rstrip b := by
  unfold rstrip
  rw [List.reverse_append, dropWhileSpace_append (by simpa using h)]
  simp

/-- `strip` is the identity on texts that neither start nor end with whitespace -/
theorem strip_eq_self {l : List Char} (h1 : ∀ c, l.head? = some c → isSpace c = false)
    (h2 : ∀ c, l.getLast? = some c → isSpace c = false) : strip l = l := by
  rw [strip_eq, dropWhileSpace_of_head h1, rstrip_of_getLast h2]

/-- `strip` of a text that starts with a non-space character only strips the right end -/
theorem strip_eq_rstrip {l : List Char} (h1 : ∀ c, l.head? = some c → isSpace c = false) : strip l = rstrip l := by
  rw [strip_eq, dropWhileSpace_of_head h1]

/-- `strip` removes a whitespace prefix and a whitespace suffix, nothing else -/
theorem strip_spec (l : List Char) :
    ∃ sp1 sp2, (∀ c, c ∈ sp1 → isSpace c = true) ∧ (∀ c, c ∈ sp2 → isSpace c = true) ∧ l = sp1 ++ strip l ++ sp2 := by
  obtain ⟨sp1, h1, h2, _⟩ := dropWhileSpace_spec l
  obtain ⟨sp2, h3, h4, _⟩ := rstrip_spec (dropWhileSpace l)
  refine ⟨sp1, sp2, h1, h3, ?_⟩
  rw [strip_eq, List.append_assoc, ← h4, ← h2]

/-- `s.strip().split() == s.split()` -/
theorem splitWs_strip (l : List Char) : splitWs (strip l) = splitWs l := by
  obtain ⟨sp1, sp2, h1, h2, h3⟩ := strip_spec l
  conv => rhs; rw [h3]
  rw [splitWs_append_spaces _ h2, splitWs_spaces_append h1]

theorem splitWs_rstrip (l : List Char) : splitWs (rstrip l) = splitWs l := by
  obtain ⟨sp, h1, h2, _⟩ := rstrip_spec l
  conv => rhs; rw [h2]
  rw [splitWs_append_spaces _ h1]

/-! ### `String` / `List Char` bridges -/

@[simp] theorem str_toList (s : String) : str s.toList = s := String.ofList_toList
@[simp] theorem toList_str (l : List Char) : (str l).toList = l := String.toList_ofList

theorem str_inj {a b : List Char} : str a = str b ↔ a = b := by
  constructor
  · intro h; have := congrArg String.toList h; simpa using this
  · rintro rfl; rfl

theorem str_eq_iff {l : List Char} {s : String} : str l = s ↔ l = s.toList := by
  constructor
  · rintro rfl; simp
  · rintro rfl; simp

@[simp] theorem map_str_map_toList (l : List String) : (l.map String.toList).map str = l := by
  induction l with
  | nil => rfl
  | cons s l ih => simp_all

theorem toList_append (a b : String) : (a ++ b).toList = a.toList ++ b.toList := String.toList_append

theorem toList_intercalate (sep : String) (l : List String) :
    (sep.intercalate l).toList = sep.toList.intercalate (l.map String.toList) := String.toList_intercalate

theorem toList_newline : "\n".toList = ['\n'] := rfl
theorem toList_space : " ".toList = [' '] := rfl

/-- `"\n".join(lines).split("\n") == lines` (no line contains a newline; at least one line) -/
theorem splitOn_intercalate_newline {lines : List String} (hne : lines ≠ [])
    (h : ∀ l, l ∈ lines → '\n' ∉ l.toList) :
    splitOn '\n' ("\n".intercalate lines).toList = lines.map String.toList := by
  rw [toList_intercalate, toList_newline, splitOn_intercalate (by simpa using hne)]
  intro p hp
  obtain ⟨l, hl, rfl⟩ := List.mem_map.mp hp
  exact h l hl

theorem toList_join_terminated (lines : List String) :
    ("".intercalate (lines.map (· ++ "\n"))).toList = (lines.map String.toList).flatMap (· ++ ['\n']) := by
  rw [toList_intercalate]
  have : "".toList = [] := rfl
  rw [this, intercalate_nil_sep]
  induction lines with
  | nil => rfl
  | cons l ls ih =>
    simp only [List.map_cons, List.flatten_cons, List.flatMap_cons, ih, String.toList_append, toList_newline]

/-- `"".join(l + "\n" for l in lines).split("\n") == lines + [""]` -/
theorem splitOn_join_terminated {lines : List String} (h : ∀ l, l ∈ lines → '\n' ∉ l.toList) :
    splitOn '\n' ("".intercalate (lines.map (· ++ "\n"))).toList = lines.map String.toList ++ [[]] := by
  rw [toList_join_terminated, splitOn_flatMap_terminated]
  intro p hp
  obtain ⟨l, hl, rfl⟩ := List.mem_map.mp hp
  exact h l hl

end Text

/-! ### `dedup`, `sortStrings` -/

theorem dedup_eq_self_of_nodup {α : Type} [DecidableEq α] {l : List α} (h : l.Nodup) : dedup l = l := by
  induction l with
  | nil => rfl
  | cons x l ih =>
    obtain ⟨hx, hl⟩ := List.nodup_cons.mp h
    simp [dedup, ih hl, hx]

theorem dedup_length_le {α : Type} [DecidableEq α] (l : List α) : (dedup l).length ≤ l.length := by
  induction l with
  | nil => simp [dedup]
  | cons x l ih =>
    simp only [dedup]
    split <;> simp <;> omega

theorem nodup_of_dedup_length {α : Type} [DecidableEq α] {l : List α} (h : (dedup l).length = l.length) : l.Nodup := by
  induction l with
  | nil => simp
  | cons x l ih =>
    simp only [dedup] at h
    split at h
    · have := dedup_length_le l
      simp at h; omega
    · rename_i hx
      simp at h
      exact List.nodup_cons.mpr ⟨fun hm => hx (mem_dedup.mpr hm), ih h⟩

theorem dedup_length_eq_iff {α : Type} [DecidableEq α] {l : List α} : (dedup l).length = l.length ↔ l.Nodup :=
  ⟨nodup_of_dedup_length, fun h => by rw [dedup_eq_self_of_nodup h]⟩

theorem dedup_eq_nil {α : Type} [DecidableEq α] {l : List α} : dedup l = [] ↔ l = [] := by
  constructor
  · intro h
    cases l with
    | nil => rfl
    | cons x l =>
      have : x ∈ dedup (x :: l) := mem_dedup.mpr (by simp)
      rw [h] at this; cases this
  · rintro rfl; rfl

theorem sortStrings_perm (l : List String) : (sortStrings l).Perm l := List.mergeSort_perm _ _

@[simp] theorem mem_sortStrings {l : List String} {s : String} : s ∈ sortStrings l ↔ s ∈ l :=
  (sortStrings_perm l).mem_iff

theorem nodup_sortStrings {l : List String} (h : l.Nodup) : (sortStrings l).Nodup :=
  (sortStrings_perm l).nodup_iff.mpr h

theorem nodup_sortStrings_dedup (l : List String) : (sortStrings (dedup l)).Nodup :=
  nodup_sortStrings (nodup_dedup l)

@[simp] theorem length_sortStrings (l : List String) : (sortStrings l).length = l.length :=
  (sortStrings_perm l).length_eq

theorem sortStrings_eq_nil {l : List String} : sortStrings l = [] ↔ l = [] := by
  constructor
  · intro h
    have := length_sortStrings l
    rw [h] at this
    exact List.eq_nil_of_length_eq_zero this.symm
  · rintro rfl; simp [sortStrings]

theorem mem_sortStrings_dedup {l : List String} {s : String} : s ∈ sortStrings (dedup l) ↔ s ∈ l := by simp

/-! ### `isWord`, `joinSp` -/
namespace Parse
open Text

theorem isWord_iff {w : List Char} : isWord w = true ↔ w ≠ [] ∧ ∀ c, c ∈ w → isWordChar c = true := by
  cases w <;> simp [isWord]

theorem isWord_ne_nil {w : List Char} (h : isWord w = true) : w ≠ [] := (isWord_iff.mp h).1

theorem isWord_token {w : List Char} (h : isWord w = true) : Token w :=
  ⟨(isWord_iff.mp h).1, fun c hc => not_isSpace_of_isWordChar ((isWord_iff.mp h).2 c hc)⟩

theorem isWord_head_ne_percent {w : List Char} (h : isWord w = true) : w.head? ≠ some '%' := by
  cases w with
  | nil => simp
  | cons c cs =>
    simp only [List.head?_cons, ne_eq, Option.some.injEq]
    exact isWordChar_ne_percent ((isWord_iff.mp h).2 c (by simp))

theorem isWord_newline_not_mem {w : List Char} (h : isWord w = true) : '\n' ∉ w :=
  (isWord_token h).newline_not_mem

theorem isWord_space_not_mem {w : List Char} (h : isWord w = true) : ' ' ∉ w :=
  (isWord_token h).space_not_mem

theorem isWord_comma_not_mem {w : List Char} (h : isWord w = true) : ',' ∉ w :=
  fun hm => isWordChar_ne_comma ((isWord_iff.mp h).2 _ hm) rfl

theorem toList_joinSp (l : List String) : (joinSp l).toList = [' '].intercalate (l.map String.toList) := by
  rw [joinSp, Text.toList_intercalate, toList_space]

/-- `(kw ++ " " ++ " ".join(names)).split() == [kw] + names` -/
theorem splitWs_kw_joinSp {kw : String} (hk : Token kw.toList) {names : List String}
    (h : ∀ n, n ∈ names → Token n.toList) :
    splitWs (kw ++ " " ++ joinSp names).toList = kw.toList :: names.map String.toList := by
  rw [String.toList_append, String.toList_append, toList_space, toList_joinSp, List.append_assoc,
    List.singleton_append, splitWs_token_space_intercalate hk]
  intro v hv
  obtain ⟨n, hn, rfl⟩ := List.mem_map.mp hv
  exact h n hn

/-- no newline inside `kw ++ " " ++ " ".join(names)` -/
theorem newline_not_mem_kw_joinSp {kw : String} (hk : '\n' ∉ kw.toList) {names : List String}
    (h : ∀ n, n ∈ names → '\n' ∉ n.toList) : '\n' ∉ (kw ++ " " ++ joinSp names).toList := by
  rw [String.toList_append, String.toList_append, toList_space, toList_joinSp]
  simp only [List.mem_append, List.mem_singleton, not_or]
  refine ⟨⟨hk, by decide⟩, ?_⟩
  intro hm
  rcases mem_intercalate hm with hm | ⟨x, hx, hc⟩
  · simp at hm
  · obtain ⟨n, hn, rfl⟩ := List.mem_map.mp hx
    exact h n hn hc

theorem hasDup_eq_false_iff {ws : List String} : hasDup ws = false ↔ ws.Nodup := by
  simp [hasDup, dedup_length_eq_iff]

end Parse

/-! ### the line parser as a function of the words of each line -/
namespace Parse
open Text

/-- `parseLine` as a function of the words of the line -/
def parseWords (k : Kind) (stateOk : Word → Bool) (st : Raw) (words : List Word) : Except Err Raw :=
  match words with
  | [] => .ok st
  | w0 :: rest =>
    let restS := rest.map str
    if w0.head? == some '%' then .ok st
    else if str w0 = "states" ∨ str w0 = "final" ∨ str w0 = "initial" then
      let key := str w0
      if st.items.lookup key |>.isSome then .error .runtimeError
      else if hasDup restS then .error .runtimeError
      else if key = "states" ∧ rest.isEmpty then .error .runtimeError
      else if !rest.all stateOk then .error .runtimeError
      else
        let st' := { st with items := st.items ++ [(key, restS)] }
        if key = "states" then .ok { st' with states := restS }
        else if key = "final" then .ok { st' with final := restS }
        else .ok { st' with initial := restS }
    else if str w0 ∈ keywords k then
      if st.items.lookup (str w0) |>.isSome then .error .runtimeError
      else .ok { st with items := st.items ++ [(str w0, restS)] }
    else
      match rest with
      | [] => .error .runtimeError
      | [_] => .error .runtimeError
      | q :: labels =>
        if !stateOk w0 || !stateOk q then .error .runtimeError
        else if !labels.all (labelOk k) then .error .runtimeError
        else .ok { st with transitions := st.transitions ++ labels.map fun l => (str w0, l, str q) }

/-- `strip` is irrelevant: the line parser only sees `line.split()` -/
theorem parseLine_eq (k : Kind) (ok : Word → Bool) (st : Raw) (line : Word) :
    parseLine k ok st line = parseWords k ok st (splitWs line) := by
  unfold parseLine
  rw [splitWs_strip]
  rfl

theorem parseLine_congr (k : Kind) (ok : Word → Bool) (st : Raw) {l1 l2 : Word} (h : splitWs l1 = splitWs l2) :
    parseLine k ok st l1 = parseLine k ok st l2 := by
  rw [parseLine_eq, parseLine_eq, h]

theorem parseLine_blank (k : Kind) (ok : Word → Bool) (st : Raw) {line : Word} (h : splitWs line = []) :
    parseLine k ok st line = .ok st := by
  rw [parseLine_eq, h]; rfl

@[simp] theorem parseWords_nil (k : Kind) (ok : Word → Bool) (st : Raw) : parseWords k ok st [] = .ok st := rfl

theorem keywords_ne (k : Kind) {kw : String} (h : kw ∈ keywords k) :
    kw ≠ "states" ∧ kw ≠ "final" ∧ kw ≠ "initial" ∧ kw.toList.head? ≠ some '%' := by
  cases k <;> simp only [keywords, List.mem_cons, List.not_mem_nil, or_false] at h
  · subst h; decide
  · rcases h with h | h <;> subst h <;> decide
  · rcases h with h | h | h <;> subst h <;> decide
  · rcases h with h | h | h | h | h <;> subst h <;> decide

theorem map_str_comp_toList (l : List String) : l.map (str ∘ String.toList) = l := by
  induction l with
  | nil => rfl
  | cons s l ih => simp_all

/-- a `states` line -/
theorem parseWords_states (k : Kind) (ok : Word → Bool) (st : Raw) {w0 : Word} {names : List String}
    (h0 : str w0 = "states")
    (hnew : st.items.lookup "states" = none) (hnd : names.Nodup) (hne : names ≠ [])
    (hok : ∀ n, n ∈ names → ok n.toList = true) :
    parseWords k ok st (w0 :: names.map String.toList) =
      .ok { st with items := st.items ++ [("states", names)], states := names } := by
  have hh : (w0.head? == some '%') = false := by rw [str_eq_iff] at h0; subst h0; decide
  have h1 : hasDup names = false := hasDup_eq_false_iff.mpr hnd
  have h2 : (names.map String.toList).all ok = true := by
    simp only [List.all_map, List.all_eq_true]; exact fun n hn => hok n hn
  have h3 : (names.map String.toList).isEmpty = false := by cases names <;> simp_all
  simp [parseWords, hh, h0, hnew, h1, h2, h3, map_str_comp_toList]

/-- a `final` line (possibly without any name) -/
theorem parseWords_final (k : Kind) (ok : Word → Bool) (st : Raw) {w0 : Word} {names : List String}
    (h0 : str w0 = "final")
    (hnew : st.items.lookup "final" = none) (hnd : names.Nodup)
    (hok : ∀ n, n ∈ names → ok n.toList = true) :
    parseWords k ok st (w0 :: names.map String.toList) =
      .ok { st with items := st.items ++ [("final", names)], final := names } := by
  have hh : (w0.head? == some '%') = false := by rw [str_eq_iff] at h0; subst h0; decide
  have h1 : hasDup names = false := hasDup_eq_false_iff.mpr hnd
  have h2 : (names.map String.toList).all ok = true := by
    simp only [List.all_map, List.all_eq_true]; exact fun n hn => hok n hn
  have e1 : ("final" = "states") = False := by decide
  simp [parseWords, hh, h0, hnew, h1, h2, map_str_comp_toList, e1]

/-- an `initial` line -/
theorem parseWords_initial (k : Kind) (ok : Word → Bool) (st : Raw) {w0 : Word} {names : List String}
    (h0 : str w0 = "initial")
    (hnew : st.items.lookup "initial" = none) (hnd : names.Nodup)
    (hok : ∀ n, n ∈ names → ok n.toList = true) :
    parseWords k ok st (w0 :: names.map String.toList) =
      .ok { st with items := st.items ++ [("initial", names)], initial := names } := by
  have hh : (w0.head? == some '%') = false := by rw [str_eq_iff] at h0; subst h0; decide
  have h1 : hasDup names = false := hasDup_eq_false_iff.mpr hnd
  have h2 : (names.map String.toList).all ok = true := by
    simp only [List.all_map, List.all_eq_true]; exact fun n hn => hok n hn
  have e1 : ("initial" = "states") = False := by decide
  have e2 : ("initial" = "final") = False := by decide
  simp [parseWords, hh, h0, hnew, h1, h2, map_str_comp_toList, e1, e2]

/-- a keyword line of kind `k` (`input_symbols`, `epsilon`, …): the arguments are stored unchecked -/
theorem parseWords_keyword (k : Kind) (ok : Word → Bool) (st : Raw) {w0 : Word} {kw : String} {args : List String}
    (h0 : str w0 = kw) (hk : kw ∈ keywords k) (hnew : st.items.lookup kw = none) :
    parseWords k ok st (w0 :: args.map String.toList) = .ok { st with items := st.items ++ [(kw, args)] } := by
  obtain ⟨n1, n2, n3, n4⟩ := keywords_ne k hk
  have hh : (w0.head? == some '%') = false := by
    rw [str_eq_iff] at h0; subst h0
    simpa using n4
  simp [parseWords, hh, h0, hnew, n1, n2, n3, hk, map_str_comp_toList]

/-- a transition line `p q l₁ … lₙ` (n ≥ 1) -/
theorem parseWords_trans (k : Kind) (ok : Word → Bool) (st : Raw) {p q : String} {l : Word} {labels : List Word}
    (hp : p ∉ ["states", "final", "initial"] ++ keywords k) (hpc : p.toList.head? ≠ some '%')
    (hpo : ok p.toList = true) (hqo : ok q.toList = true) (hl : ∀ x, x ∈ l :: labels → labelOk k x = true) :
    parseWords k ok st (p.toList :: q.toList :: l :: labels) =
      .ok { st with transitions := st.transitions ++ (l :: labels).map fun x => (p, x, q) } := by
  have hh : (p.toList.head? == some '%') = false := by simpa using hpc
  simp only [List.mem_append, List.mem_cons, List.not_mem_nil, or_false, not_or] at hp
  obtain ⟨⟨n1, n2, n3⟩, n4⟩ := hp
  have h2 : (l :: labels).all (labelOk k) = true := List.all_eq_true.mpr hl
  simp only [List.all_cons, Bool.and_eq_true] at h2
  simp [parseWords, hh, n1, n2, n3, n4, hpo, hqo, h2.1, h2.2]

/-! ### `parseRaw` as a fold over the non-blank lines' words -/

/-- the word lists of the non-blank lines -/
def lineWords (ls : List Word) : List (List Word) := (ls.map splitWs).filter fun w => !w.isEmpty

def parseWordLines (k : Kind) (ok : Word → Bool) (st : Raw) (wls : List (List Word)) : Except Err Raw :=
  wls.foldlM (parseWords k ok) st

@[simp] theorem parseWordLines_nil (k : Kind) (ok : Word → Bool) (st : Raw) : parseWordLines k ok st [] = .ok st := rfl

theorem parseWordLines_cons (k : Kind) (ok : Word → Bool) (st : Raw) (w : List Word) (ws : List (List Word)) :
    parseWordLines k ok st (w :: ws) = (parseWords k ok st w).bind fun st' => parseWordLines k ok st' ws := by
  simp only [parseWordLines, List.foldlM_cons]; rfl

theorem parseWordLines_cons_ok (k : Kind) (ok : Word → Bool) {st st' : Raw} {w : List Word}
    (h : parseWords k ok st w = .ok st') (ws : List (List Word)) :
    parseWordLines k ok st (w :: ws) = parseWordLines k ok st' ws := by
  rw [parseWordLines_cons, h]; rfl

theorem parseWordLines_append (k : Kind) (ok : Word → Bool) (st : Raw) (ws1 ws2 : List (List Word)) :
    parseWordLines k ok st (ws1 ++ ws2) = (parseWordLines k ok st ws1).bind fun st' => parseWordLines k ok st' ws2 := by
  simp only [parseWordLines, List.foldlM_append]; rfl

theorem parseWordLines_append_ok (k : Kind) (ok : Word → Bool) {st st' : Raw} {ws1 : List (List Word)}
    (h : parseWordLines k ok st ws1 = .ok st') (ws2 : List (List Word)) :
    parseWordLines k ok st (ws1 ++ ws2) = parseWordLines k ok st' ws2 := by
  rw [parseWordLines_append, h]; rfl

theorem foldlM_parseLine_eq (k : Kind) (ok : Word → Bool) (st : Raw) (ls : List Word) :
    ls.foldlM (parseLine k ok) st = parseWordLines k ok st (lineWords ls) := by
  induction ls generalizing st with
  | nil => rfl
  | cons l ls ih =>
    rw [List.foldlM_cons, parseLine_eq]
    cases hw : splitWs l with
    | nil =>
      have : lineWords (l :: ls) = lineWords ls := by simp [lineWords, hw]
      rw [this, ← ih]; rfl
    | cons w ws =>
      have : lineWords (l :: ls) = (w :: ws) :: lineWords ls := by simp [lineWords, hw]
      rw [this, parseWordLines_cons]
      cases parseWords k ok st (w :: ws) with
      | error e => rfl
      | ok st' => exact ih st'

/-- `parseRaw` only depends on the words of the non-blank lines -/
theorem parseRaw_eq (k : Kind) (ok : Word → Bool) (text : Word) :
    parseRaw k ok text = parseWordLines k ok {} (lineWords (splitOn '\n' text)) :=
  foldlM_parseLine_eq k ok {} _

theorem lineWords_append (a b : List Word) : lineWords (a ++ b) = lineWords a ++ lineWords b := by
  simp [lineWords]

theorem lineWords_cons_blank {l : Word} (h : splitWs l = []) (ls : List Word) : lineWords (l :: ls) = lineWords ls := by
  simp [lineWords, h]

theorem lineWords_cons_of_ne {l : Word} (h : splitWs l ≠ []) (ls : List Word) :
    lineWords (l :: ls) = splitWs l :: lineWords ls := by
  cases hw : splitWs l with
  | nil => exact absurd hw h
  | cons w ws => simp [lineWords, hw]

theorem lineWords_all_blank {ls : List Word} (h : ∀ l, l ∈ ls → splitWs l = []) : lineWords ls = [] := by
  induction ls with
  | nil => rfl
  | cons l ls ih => rw [lineWords_cons_blank (h l (by simp)), ih (fun x hx => h x (List.mem_cons_of_mem _ hx))]

theorem lineWords_of_ne {ls : List Word} (h : ∀ l, l ∈ ls → splitWs l ≠ []) : lineWords ls = ls.map splitWs := by
  induction ls with
  | nil => rfl
  | cons l ls ih =>
    rw [lineWords_cons_of_ne (h l (by simp)), ih (fun x hx => h x (List.mem_cons_of_mem _ hx))]; rfl

/-- the empty piece after the final newline does not matter -/
theorem lineWords_append_nil (ls : List Word) : lineWords (ls ++ [[]]) = lineWords ls := by
  rw [lineWords_append]; simp [lineWords, splitWs]

end Parse

/-! ### stripping the whole text does not change what the line parser sees -/
namespace Text

theorem mem_of_mem_splitOn {sep : Char} {l p : List Char} {c : Char} (hp : p ∈ splitOn sep l) (hc : c ∈ p) : c ∈ l := by
  induction l generalizing p with
  | nil => simp [splitOn] at hp; subst hp; cases hc
  | cons x xs ih =>
    by_cases hx : x = sep
    · subst hx
      rw [splitOn_cons_sep] at hp
      rcases List.mem_cons.mp hp with rfl | hp
      · cases hc
      · exact List.mem_cons_of_mem _ (ih hp hc)
    · obtain ⟨q, qs, h1, h2⟩ := splitOn_cons_ne hx xs
      rw [h2] at hp
      rcases List.mem_cons.mp hp with rfl | hp
      · rcases List.mem_cons.mp hc with rfl | hc
        · simp
        · exact List.mem_cons_of_mem _ (ih (by rw [h1]; simp) hc)
      · exact List.mem_cons_of_mem _ (ih (by rw [h1]; exact List.mem_cons_of_mem _ hp) hc)

/-- `splitOn` of a concatenation: the last piece of the left part is glued to the first piece of the right part -/
theorem splitOn_append_spec (sep : Char) (a : List Char) :
    ∃ init last, splitOn sep a = init ++ [last] ∧
      ∀ b hb tb, splitOn sep b = hb :: tb → splitOn sep (a ++ b) = init ++ (last ++ hb) :: tb := by
  induction a with
  | nil => exact ⟨[], [], rfl, fun b hb tb h => by simpa using h⟩
  | cons x xs ih =>
    obtain ⟨init, last, h1, h2⟩ := ih
    by_cases hx : x = sep
    · subst hx
      refine ⟨[] :: init, last, by rw [splitOn_cons_sep, h1]; rfl, ?_⟩
      intro b hb tb h
      rw [List.cons_append, splitOn_cons_sep, h2 b hb tb h]; rfl
    · cases init with
      | nil =>
        refine ⟨[], x :: last, by simp [splitOn, hx, h1], ?_⟩
        intro b hb tb h
        have := h2 b hb tb h
        simp only [List.nil_append] at this
        simp [splitOn, hx, this]
      | cons i is =>
        refine ⟨(x :: i) :: is, last, by simp [splitOn, hx, h1], ?_⟩
        intro b hb tb h
        have := h2 b hb tb h
        simp only [List.cons_append] at this
        simp [splitOn, hx, this]

end Text

namespace Parse
open Text

theorem lineWords_splitOn_space_cons {c : Char} (hc : isSpace c = true) (t : Word) :
    lineWords (splitOn '\n' (c :: t)) = lineWords (splitOn '\n' t) := by
  by_cases hn : c = '\n'
  · subst hn
    rw [splitOn_cons_sep, lineWords_cons_blank (by rfl)]
  · obtain ⟨p, ps, h1, h2⟩ := splitOn_cons_ne hn t
    rw [h1, h2]
    simp only [lineWords, List.map_cons, splitWs_space_cons hc]

theorem lineWords_splitOn_spaces_append {sp : Word} (h : ∀ c, c ∈ sp → isSpace c = true) (t : Word) :
    lineWords (splitOn '\n' (sp ++ t)) = lineWords (splitOn '\n' t) := by
  induction sp with
  | nil => rfl
  | cons c cs ih =>
    rw [List.cons_append, lineWords_splitOn_space_cons (h c (by simp)), ih (fun d hd => h d (List.mem_cons_of_mem _ hd))]

theorem lineWords_splitOn_append_spaces (t : Word) {sp : Word} (h : ∀ c, c ∈ sp → isSpace c = true) :
    lineWords (splitOn '\n' (t ++ sp)) = lineWords (splitOn '\n' t) := by
  obtain ⟨init, last, h1, h2⟩ := splitOn_append_spec '\n' t
  cases hs : splitOn '\n' sp with
  | nil => exact absurd hs (splitOn_ne_nil _ _)
  | cons hb tb =>
    have hblank : ∀ p, p ∈ hb :: tb → splitWs p = [] := by
      intro p hp
      apply splitWs_all_space
      intro c hc
      exact h c (mem_of_mem_splitOn (by rw [hs]; exact hp) hc)
    rw [h2 sp hb tb hs, h1, lineWords_append, lineWords_append]
    congr 1
    have e : splitWs (last ++ hb) = splitWs last :=
      splitWs_append_spaces _ (fun c hc => h c (mem_of_mem_splitOn (by rw [hs]; simp) hc))
    have e2 : lineWords tb = [] := lineWords_all_blank (fun l hl => hblank l (List.mem_cons_of_mem _ hl))
    simp only [lineWords, List.map_cons, List.map_nil, e] at e2 ⊢
    simp [List.filter_cons, e2]

/-- `print_dfa`'s final `.strip()` is invisible to the parser -/
theorem lineWords_splitOn_strip (t : Word) : lineWords (splitOn '\n' (strip t)) = lineWords (splitOn '\n' t) := by
  obtain ⟨sp1, sp2, h1, h2, h3⟩ := strip_spec t
  conv => rhs; rw [h3]
  rw [lineWords_splitOn_append_spaces _ h2, lineWords_splitOn_spaces_append h1]

theorem parseRaw_strip (k : Kind) (ok : Word → Bool) (text : Word) : parseRaw k ok (strip text) = parseRaw k ok text := by
  rw [parseRaw_eq, parseRaw_eq, lineWords_splitOn_strip]

end Parse

/-! ### the printed transition lines -/

/-- `List.flatMap` over the (distinct) keys of `filter (key · = k)` is a rearrangement of the list -/
theorem flatMap_filter_perm {α κ : Type} [DecidableEq κ] (key : α → κ) (ks : List κ) (ts : List α)
    (hnd : ks.Nodup) (hall : ∀ t, t ∈ ts → key t ∈ ks) :
    (ks.flatMap fun k => ts.filter fun t => decide (key t = k)).Perm ts := by
  induction ks generalizing ts with
  | nil =>
    cases ts with
    | nil => exact List.Perm.refl _
    | cons t ts => exact absurd (hall t (by simp)) (by simp)
  | cons k ks ih =>
    obtain ⟨hk, hnd'⟩ := List.nodup_cons.mp hnd
    rw [List.flatMap_cons]
    have hrest : (ks.flatMap fun k' => ts.filter fun t => decide (key t = k')) =
        (ks.flatMap fun k' => (ts.filter fun t => !decide (key t = k)).filter fun t => decide (key t = k')) := by
      rw [List.flatMap_def, List.flatMap_def]
      congr 1
      apply List.map_congr_left
      intro k' hk'
      rw [List.filter_filter]
      apply List.filter_congr
      intro t _
      by_cases h : key t = k'
      · have : k' ≠ k := fun e => hk (e ▸ hk')
        simp [h, this]
      · simp [h]
    rw [hrest]
    have ih' := ih (ts.filter fun t => !decide (key t = k)) hnd' (by
      intro t ht
      obtain ⟨ht1, ht2⟩ := List.mem_filter.mp ht
      have := hall t ht1
      simp only [Bool.not_eq_eq_eq_not, Bool.not_true, decide_eq_false_iff_not] at ht2
      rcases List.mem_cons.mp this with h | h
      · exact absurd h ht2
      · exact h)
    exact (List.Perm.append_left _ ih').trans (List.filter_append_perm _ ts)

/-- lookups in two association lists that are rearrangements of each other, with distinct keys, agree -/
theorem lookup_eq_of_perm {κ ν : Type} [BEq κ] [LawfulBEq κ] {l1 l2 : List (κ × ν)} (hp : l1.Perm l2)
    (hnd : (l1.map (·.1)).Nodup) (k : κ) : l1.lookup k = l2.lookup k := by
  have key : ∀ (l : List (κ × ν)), (l.map (·.1)).Nodup → ∀ v, (l.lookup k = some v ↔ (k, v) ∈ l) := by
    intro l hl v
    constructor
    · exact mem_of_lookup_eq_some
    · intro hm
      apply lookup_eq_some_of_unique hm
      intro v' hm'
      induction l with
      | nil => cases hm
      | cons e l ih =>
        obtain ⟨he, hl'⟩ := List.nodup_cons.mp (by simpa only [List.map_cons] using hl)
        rcases List.mem_cons.mp hm with rfl | hm2
        · rcases List.mem_cons.mp hm' with h | hm3
          · cases h; rfl
          · exact absurd (List.mem_map.mpr ⟨(k, v'), hm3, rfl⟩ : k ∈ l.map (·.1)) he
        · rcases List.mem_cons.mp hm' with rfl | hm3
          · exact absurd (List.mem_map.mpr ⟨(k, v), hm2, rfl⟩ : k ∈ l.map (·.1)) he
          · exact ih hl' hm2 hm3
  have hnd2 : (l2.map (·.1)).Nodup := (hp.map _).nodup_iff.mp hnd
  cases h1 : l1.lookup k with
  | some v => exact ((key l2 hnd2 v).mpr (hp.mem_iff.mp ((key l1 hnd v).mp h1))).symm
  | none =>
    cases h2 : l2.lookup k with
    | none => rfl
    | some v =>
      have := (key l1 hnd v).mpr (hp.mem_iff.mpr ((key l2 hnd2 v).mp h2))
      rw [h1] at this; cases this

namespace Parse
open Text

/-- the `p q` prefix that identifies a printed transition line -/
def pairKey (t : String × String × String) : String := t.1 ++ " " ++ t.2.1

theorem transLines_eq (ts : List (String × String × String)) :
    transLines ts = (sortStrings (dedup (ts.map pairKey))).map fun key =>
      key ++ " " ++ joinSp ((ts.filter fun t => decide (pairKey t = key)).map (·.2.2)) := rfl

/-- what a printable transition `(p, q, label)` of kind `k` must satisfy -/
structure TransOk (k : Kind) (t : String × String × String) : Prop where
  src : isWord t.1.toList = true
  srcKw : t.1 ∉ ["states", "final", "initial"] ++ keywords k
  dst : isWord t.2.1.toList = true
  lblTok : Token t.2.2.toList
  lblOk : labelOk k t.2.2.toList = true

theorem splitWs_pairKey {t : String × String × String} (h1 : Token t.1.toList) (h2 : Token t.2.1.toList) :
    splitWs (pairKey t).toList = [t.1.toList, t.2.1.toList] := by
  unfold pairKey
  rw [String.toList_append, String.toList_append, toList_space, List.append_assoc, List.singleton_append]
  have := splitWs_token_space_intercalate h1 (ws := [t.2.1.toList]) (by simpa using h2)
  simpa using this

theorem pairKey_inj {t t' : String × String × String} (h1 : Token t.1.toList) (h2 : Token t.2.1.toList)
    (h1' : Token t'.1.toList) (h2' : Token t'.2.1.toList) (h : pairKey t = pairKey t') :
    t.1 = t'.1 ∧ t.2.1 = t'.2.1 := by
  have e := splitWs_pairKey h1 h2
  rw [h, splitWs_pairKey h1' h2'] at e
  simp only [List.cons.injEq, String.toList_inj, and_true] at e
  exact ⟨e.1.symm, e.2.symm⟩

theorem splitWs_transLine {t : String × String × String} (h1 : Token t.1.toList) (h2 : Token t.2.1.toList)
    {labels : List String} (hl : ∀ l, l ∈ labels → Token l.toList) :
    splitWs (pairKey t ++ " " ++ joinSp labels).toList = t.1.toList :: t.2.1.toList :: labels.map String.toList := by
  unfold pairKey
  simp only [String.toList_append, toList_space, toList_joinSp, List.append_assoc, List.singleton_append]
  rw [splitWs_token_append h1 (by simp [isSpace_space]), List.cons_append, splitWs_space_cons isSpace_space]
  have := splitWs_token_space_intercalate h2 (ws := labels.map String.toList) (by
    intro v hv
    obtain ⟨l, hl', rfl⟩ := List.mem_map.mp hv
    exact hl l hl')
  simpa using this

theorem newline_not_mem_transLine {t : String × String × String} (h1 : Token t.1.toList) (h2 : Token t.2.1.toList)
    {labels : List String} (hl : ∀ l, l ∈ labels → Token l.toList) :
    '\n' ∉ (pairKey t ++ " " ++ joinSp labels).toList := by
  apply newline_not_mem_kw_joinSp
  · unfold pairKey
    simp only [String.toList_append, toList_space, List.mem_append, List.mem_singleton, not_or]
    exact ⟨⟨h1.newline_not_mem, by decide⟩, h2.newline_not_mem⟩
  · intro n hn; exact (hl n hn).newline_not_mem

/-- a transition line `p q l₁ … lₙ` (n ≥ 1), second form -/
theorem parseWords_trans' (k : Kind) (ok : Word → Bool) (st : Raw) {p q : String} {labels : List Word}
    (hp : p ∉ ["states", "final", "initial"] ++ keywords k) (hpc : p.toList.head? ≠ some '%')
    (hpo : ok p.toList = true) (hqo : ok q.toList = true) (hne : labels ≠ [])
    (hl : ∀ x, x ∈ labels → labelOk k x = true) :
    parseWords k ok st (p.toList :: q.toList :: labels) =
      .ok { st with transitions := st.transitions ++ labels.map fun x => (p, x, q) } := by
  cases labels with
  | nil => exact absurd rfl hne
  | cons l ls => exact parseWords_trans k ok st hp hpc hpo hqo hl

/-- the transitions read back from `transLines ts`, in printing order -/
def transOf (ts : List (String × String × String)) : List (String × Word × String) :=
  (sortStrings (dedup (ts.map pairKey))).flatMap fun key =>
    (ts.filter fun t => decide (pairKey t = key)).map fun t => (t.1, t.2.2.toList, t.2.1)

theorem transOf_perm (ts : List (String × String × String)) :
    (transOf ts).Perm (ts.map fun t => (t.1, t.2.2.toList, t.2.1)) := by
  unfold transOf
  rw [← List.map_flatMap]
  apply List.Perm.map
  apply flatMap_filter_perm pairKey _ ts (nodup_sortStrings_dedup _)
  intro t ht
  simp only [mem_sortStrings, mem_dedup, List.mem_map]
  exact ⟨t, ht, rfl⟩

theorem mem_transOf {ts : List (String × String × String)} {x : String × Word × String} :
    x ∈ transOf ts ↔ ∃ t, t ∈ ts ∧ x = (t.1, t.2.2.toList, t.2.1) := by
  rw [(transOf_perm ts).mem_iff, List.mem_map]
  constructor
  · rintro ⟨t, ht, rfl⟩; exact ⟨t, ht, rfl⟩
  · rintro ⟨t, ht, rfl⟩; exact ⟨t, ht, rfl⟩

theorem parseWordLines_transLines_aux (k : Kind) (ts : List (String × String × String))
    (h : ∀ t, t ∈ ts → TransOk k t) (ks : List String) (hks : ∀ key, key ∈ ks → ∃ t, t ∈ ts ∧ pairKey t = key) (st : Raw) :
    parseWordLines k isWord st (lineWords ((ks.map fun key =>
        key ++ " " ++ joinSp ((ts.filter fun t => decide (pairKey t = key)).map (·.2.2))).map String.toList)) =
      .ok { st with transitions := st.transitions ++ ks.flatMap fun key =>
        (ts.filter fun t => decide (pairKey t = key)).map fun t => (t.1, t.2.2.toList, t.2.1) } := by
  induction ks generalizing st with
  | nil => simp [lineWords]
  | cons key ks ih =>
    obtain ⟨t0, ht0, hkey⟩ := hks key (by simp)
    subst hkey
    have h0 := h t0 ht0
    have hlab : ∀ l, l ∈ (ts.filter fun t => decide (pairKey t = pairKey t0)).map (·.2.2) → Token l.toList := by
      intro l hl
      obtain ⟨t, ht, rfl⟩ := List.mem_map.mp hl
      exact (h t (List.mem_filter.mp ht).1).lblTok
    have hsplit := splitWs_transLine (isWord_token h0.src) (isWord_token h0.dst) hlab
    simp only [List.map_cons]
    rw [lineWords_cons_of_ne (by rw [hsplit]; simp), hsplit]
    have hmem0 : t0 ∈ ts.filter fun t => decide (pairKey t = pairKey t0) := by
      simp [List.mem_filter, ht0]
    have hstep := parseWords_trans' k isWord st (p := t0.1) (q := t0.2.1)
      (labels := ((ts.filter fun t => decide (pairKey t = pairKey t0)).map (·.2.2)).map String.toList)
      h0.srcKw (isWord_head_ne_percent h0.src) h0.src h0.dst
      (by
        intro e
        have := List.map_eq_nil_iff.mp (List.map_eq_nil_iff.mp e)
        rw [this] at hmem0; cases hmem0)
      (by
        intro x hx
        simp only [List.map_map, List.mem_map, Function.comp] at hx
        obtain ⟨t, ht, rfl⟩ := hx
        exact (h t (List.mem_filter.mp ht).1).lblOk)
    rw [parseWordLines_cons_ok k isWord hstep, ih (fun key hk => hks key (List.mem_cons_of_mem _ hk))]
    simp only [List.flatMap_cons, List.append_assoc, List.map_map]
    congr 4
    apply List.map_congr_left
    intro t ht
    have ht' := List.mem_filter.mp ht
    have hk : pairKey t = pairKey t0 := by simpa using ht'.2
    have ht1 := h t ht'.1
    obtain ⟨e1, e2⟩ := pairKey_inj (isWord_token ht1.src) (isWord_token ht1.dst)
      (isWord_token h0.src) (isWord_token h0.dst) hk
    simp [e1, e2]

/-- parsing the printed transition lines appends exactly `transOf ts` -/
theorem parseWordLines_transLines (k : Kind) (ts : List (String × String × String))
    (h : ∀ t, t ∈ ts → TransOk k t) (st : Raw) :
    parseWordLines k isWord st (lineWords ((transLines ts).map String.toList)) =
      .ok { st with transitions := st.transitions ++ transOf ts } := by
  rw [transLines_eq]
  apply parseWordLines_transLines_aux k ts h
  intro key hk
  simp only [mem_sortStrings, mem_dedup, List.mem_map] at hk
  exact hk

theorem newline_not_mem_transLines {k : Kind} {ts : List (String × String × String)}
    (h : ∀ t, t ∈ ts → TransOk k t) : ∀ l, l ∈ transLines ts → '\n' ∉ l.toList := by
  intro l hl
  rw [transLines_eq] at hl
  obtain ⟨key, hk, rfl⟩ := List.mem_map.mp hl
  simp only [mem_sortStrings, mem_dedup, List.mem_map] at hk
  obtain ⟨t0, ht0, rfl⟩ := hk
  have h0 := h t0 ht0
  apply newline_not_mem_transLine (isWord_token h0.src) (isWord_token h0.dst)
  intro l hl
  obtain ⟨t, ht, rfl⟩ := List.mem_map.mp hl
  exact (h t (List.mem_filter.mp ht).1).lblTok

theorem transLines_eq_nil {ts : List (String × String × String)} : transLines ts = [] ↔ ts = [] := by
  rw [transLines_eq, List.map_eq_nil_iff, sortStrings_eq_nil, dedup_eq_nil, List.map_eq_nil_iff]

end Parse

namespace Parse
open Text

/-- the line parser on a text printed as `"\n".join(lines)` -/
theorem parseRaw_intercalate_newline (k : Kind) (ok : Word → Bool) {lines : List String} (hne : lines ≠ [])
    (h : ∀ l, l ∈ lines → '\n' ∉ l.toList) :
    parseRaw k ok ("\n".intercalate lines).toList = parseWordLines k ok {} (lineWords (lines.map String.toList)) := by
  rw [parseRaw_eq, splitOn_intercalate_newline hne h]

/-- the line parser on a text printed as `"".join(l + "\n" for l in lines)` (print_nfa / print_pda / print_tm) -/
theorem parseRaw_join_terminated (k : Kind) (ok : Word → Bool) {lines : List String}
    (h : ∀ l, l ∈ lines → '\n' ∉ l.toList) :
    parseRaw k ok ("".intercalate (lines.map (· ++ "\n"))).toList =
      parseWordLines k ok {} (lineWords (lines.map String.toList)) := by
  rw [parseRaw_eq, splitOn_join_terminated h, lineWords_append_nil]

end Parse

end Gamba
