/-
  Gamba.Proofs.TextBasic — generic facts about the text primitives of Model/Text.lean
  (`splitOn`, `splitWs`, `strip`), the `String` / `List Char` bridges, `sortStrings`, and the
  line parser of Model/Parse.lean (`parseLine` on each kind of line, `parseRaw` on a list of lines,
  the printed transition lines `transLines`).  Shared by the four round-trip proofs (DFA / NFA / PDA / TM).
-/
import Gamba.Model.Parse
import Gamba.Proofs.DFABasic
namespace Gamba
namespace Text

/-! ### character classes -/

theorem isSpace_space : isSpace ' ' = true := by decide
theorem isSpace_newline : isSpace '\n' = true := by decide

theorem not_isSpace_of_isWordChar {c : Char} (h : isWordChar c = true) : isSpace c = false := by
  simp only [isSpace, Bool.or_eq_false_iff, beq_eq_false_iff_ne, ne_eq]
  refine ⟨⟨⟨⟨⟨?_, ?_⟩, ?_⟩, ?_⟩, ?_⟩, ?_⟩ <;> rintro rfl <;> revert h <;> decide

theorem isWordChar_ne_percent {c : Char} (h : isWordChar c = true) : c ≠ '%' := by
  rintro rfl; revert h; decide

theorem isWordChar_ne_comma {c : Char} (h : isWordChar c = true) : c ≠ ',' := by
  rintro rfl; revert h; decide

theorem ne_newline_of_not_isSpace {c : Char} (h : isSpace c = false) : c ≠ '\n' := by
  rintro rfl; revert h; decide

theorem ne_space_of_not_isSpace {c : Char} (h : isSpace c = false) : c ≠ ' ' := by
  rintro rfl; revert h; decide

/-- a *token*: a non-empty run of non-whitespace characters (what `split()` returns) -/
def Token (w : List Char) : Prop := w ≠ [] ∧ ∀ c, c ∈ w → isSpace c = false

theorem Token.ne_nil {w : List Char} (h : Token w) : w ≠ [] := h.1
theorem Token.not_space {w : List Char} (h : Token w) {c : Char} (hc : c ∈ w) : isSpace c = false := h.2 c hc
theorem Token.newline_not_mem {w : List Char} (h : Token w) : '\n' ∉ w :=
  fun hm => absurd (h.2 _ hm) (by decide)
theorem Token.space_not_mem {w : List Char} (h : Token w) : ' ' ∉ w :=
  fun hm => absurd (h.2 _ hm) (by decide)

/-! ### `List.intercalate` -/

theorem intercalate_nil_sep {α : Type} (xs : List (List α)) : ([] : List α).intercalate xs = xs.flatten := by
  induction xs with
  | nil => rfl
  | cons x xs ih =>
    cases xs with
    | nil => simp
    | cons y ys => rw [List.intercalate_cons_cons, ih]; simp

theorem intercalate_cons_of_ne_nil {α : Type} (sep x : List α) {xs : List (List α)} (h : xs ≠ []) :
    sep.intercalate (x :: xs) = x ++ sep ++ sep.intercalate xs := by
  cases xs with
  | nil => exact absurd rfl h
  | cons y ys => exact List.intercalate_cons_cons

theorem intercalate_append_of_ne_nil {α : Type} (sep : List α) {xs ys : List (List α)} (hx : xs ≠ []) (hy : ys ≠ []) :
    sep.intercalate (xs ++ ys) = sep.intercalate xs ++ sep ++ sep.intercalate ys := by
  induction xs with
  | nil => exact absurd rfl hx
  | cons x xs ih =>
    cases xs with
    | nil => simp [intercalate_cons_of_ne_nil sep x hy]
    | cons x' xs' =>
      rw [List.cons_append, intercalate_cons_of_ne_nil sep x (by simp), ih (by simp),
        intercalate_cons_of_ne_nil sep x (by simp)]
      simp [List.append_assoc]

theorem mem_intercalate {α : Type} {sep : List α} {xs : List (List α)} {c : α} (h : c ∈ sep.intercalate xs) :
    c ∈ sep ∨ ∃ x, x ∈ xs ∧ c ∈ x := by
  induction xs with
  | nil => simp at h
  | cons x xs ih =>
    cases xs with
    | nil => simp at h; exact Or.inr ⟨x, by simp, h⟩
    | cons y ys =>
      rw [List.intercalate_cons_cons] at h
      simp only [List.mem_append] at h
      rcases h with (h | h) | h
      · exact Or.inr ⟨x, by simp, h⟩
      · exact Or.inl h
      · rcases ih h with h | ⟨z, hz, hc⟩
        · exact Or.inl h
        · exact Or.inr ⟨z, List.mem_cons_of_mem _ hz, hc⟩

/-! ### `splitOn` -/

theorem splitOn_ne_nil (sep : Char) (l : List Char) : splitOn sep l ≠ [] := by
  induction l with
  | nil => simp [splitOn]
  | cons c cs ih =>
    simp only [splitOn]
    split
    · simp
    · split <;> simp

theorem splitOn_cons_sep (sep : Char) (l : List Char) : splitOn sep (sep :: l) = [] :: splitOn sep l := by
  simp [splitOn]

theorem splitOn_cons_ne {sep c : Char} (h : c ≠ sep) (l : List Char) :
    ∃ p ps, splitOn sep l = p :: ps ∧ splitOn sep (c :: l) = (c :: p) :: ps := by
  cases hs : splitOn sep l with
  | nil => exact absurd hs (splitOn_ne_nil sep l)
  | cons p ps => exact ⟨p, ps, rfl, by simp [splitOn, h, hs]⟩

theorem splitOn_of_not_mem {sep : Char} {l : List Char} (h : sep ∉ l) : splitOn sep l = [l] := by
  induction l with
  | nil => rfl
  | cons c cs ih =>
    have hc : c ≠ sep := fun e => h (e ▸ List.mem_cons_self)
    have := ih (fun hm => h (List.mem_cons_of_mem _ hm))
    simp [splitOn, hc, this]

/-- the first piece ends at the first separator -/
theorem splitOn_append_sep {sep : Char} {p : List Char} (h : sep ∉ p) (rest : List Char) :
    splitOn sep (p ++ sep :: rest) = p :: splitOn sep rest := by
  induction p with
  | nil => simp [splitOn]
  | cons c cs ih =>
    have hc : c ≠ sep := fun e => h (e ▸ List.mem_cons_self)
    have := ih (fun hm => h (List.mem_cons_of_mem _ hm))
    simp [splitOn, hc, this]

/-- `sep.join(pieces).split(sep) == pieces` when no piece contains `sep` -/
theorem splitOn_intercalate {sep : Char} {pieces : List (List Char)} (hne : pieces ≠ [])
    (h : ∀ p, p ∈ pieces → sep ∉ p) : splitOn sep ([sep].intercalate pieces) = pieces := by
  induction pieces with
  | nil => exact absurd rfl hne
  | cons p ps ih =>
    cases ps with
    | nil => simp [splitOn_of_not_mem (h p (by simp))]
    | cons q qs =>
      rw [List.intercalate_cons_cons, List.append_assoc, List.singleton_append,
        splitOn_append_sep (h p (by simp)), ih (by simp) (fun r hr => h r (List.mem_cons_of_mem _ hr))]

/-- every piece followed by `sep`: one extra empty piece at the end -/
theorem splitOn_flatMap_terminated {sep : Char} {pieces : List (List Char)} (h : ∀ p, p ∈ pieces → sep ∉ p) :
    splitOn sep (pieces.flatMap (· ++ [sep])) = pieces ++ [[]] := by
  induction pieces with
  | nil => rfl
  | cons p ps ih =>
    rw [List.flatMap_cons, List.append_assoc, List.singleton_append,
      splitOn_append_sep (h p (by simp)), ih (fun r hr => h r (List.mem_cons_of_mem _ hr))]
    rfl

/-! ### `splitWs` -/

theorem splitWs_space_cons {c : Char} (h : isSpace c = true) (cs : List Char) : splitWs (c :: cs) = splitWs cs := by
  simp [splitWs, h]

theorem splitWs_all_space {sp : List Char} (h : ∀ c, c ∈ sp → isSpace c = true) : splitWs sp = [] := by
  induction sp with
  | nil => rfl
  | cons c cs ih =>
    rw [splitWs_space_cons (h c (by simp)), ih (fun d hd => h d (List.mem_cons_of_mem _ hd))]

theorem splitWs_ne_nil_of_head {c : Char} (h : isSpace c = false) (cs : List Char) : splitWs (c :: cs) ≠ [] := by
  rw [splitWs]
  simp only [h, Bool.false_eq_true, ↓reduceIte]
  split
  · simp
  · split
    · split <;> simp
    · simp

theorem splitWs_singleton {c : Char} (h : isSpace c = false) : splitWs [c] = [[c]] := by
  simp [splitWs, h]

theorem splitWs_cons_space {c d : Char} (hc : isSpace c = false) (hd : isSpace d = true) (cs : List Char) :
    splitWs (c :: d :: cs) = [c] :: splitWs cs := by
  rw [splitWs]
  simp only [hc, Bool.false_eq_true, ↓reduceIte, hd, splitWs_space_cons hd]
  split <;> simp_all

theorem splitWs_cons_nonspace {c d : Char} (hc : isSpace c = false) (hd : isSpace d = false) (cs : List Char) :
    ∃ p ps, splitWs (d :: cs) = p :: ps ∧ splitWs (c :: d :: cs) = (c :: p) :: ps := by
  cases hs : splitWs (d :: cs) with
  | nil => exact absurd hs (splitWs_ne_nil_of_head hd cs)
  | cons p ps =>
    refine ⟨p, ps, rfl, ?_⟩
    rw [splitWs]
    simp only [hc, Bool.false_eq_true, ↓reduceIte, hs, hd]

/-- a token followed by nothing or by whitespace is the first word -/
theorem splitWs_token_append {w : List Char} (hw : Token w) {rest : List Char}
    (hr : ∀ d, rest.head? = some d → isSpace d = true) : splitWs (w ++ rest) = w :: splitWs rest := by
  obtain ⟨hne, hns⟩ := hw
  induction w with
  | nil => exact absurd rfl hne
  | cons c w ih =>
    have hc : isSpace c = false := hns c (by simp)
    cases w with
    | nil =>
      cases rest with
      | nil => simp [splitWs_singleton hc, splitWs]
      | cons d r =>
        have hd := hr d rfl
        simp [splitWs_cons_space hc hd, splitWs_space_cons hd]
    | cons c' w' =>
      have hc' : isSpace c' = false := hns c' (by simp)
      have ih' := ih (by simp) (fun d hd => hns d (List.mem_cons_of_mem _ hd))
      obtain ⟨p, ps, h1, h2⟩ := splitWs_cons_nonspace hc hc' (w' ++ rest)
      simp only [List.cons_append] at ih' ⊢
      rw [h2]
      rw [ih'] at h1
      cases h1
      rfl

theorem splitWs_token {w : List Char} (hw : Token w) : splitWs w = [w] := by
  have := splitWs_token_append hw (rest := []) (by simp)
  simpa [splitWs] using this

/-- `" ".join(words).split() == words` for tokens -/
theorem splitWs_intercalate {ws : List (List Char)} (h : ∀ w, w ∈ ws → Token w) :
    splitWs ([' '].intercalate ws) = ws := by
  induction ws with
  | nil => rfl
  | cons w ws ih =>
    cases ws with
    | nil => simp [splitWs_token (h w (by simp))]
    | cons v vs =>
      rw [List.intercalate_cons_cons, List.append_assoc,
        splitWs_token_append (h w (by simp)) (by simp [isSpace_space]), List.singleton_append,
        splitWs_space_cons isSpace_space, ih (fun r hr => h r (List.mem_cons_of_mem _ hr))]

/-- a keyword, one space, then the space-joined arguments (possibly none: a trailing space) -/
theorem splitWs_token_space_intercalate {w : List Char} (hw : Token w) {ws : List (List Char)}
    (h : ∀ v, v ∈ ws → Token v) : splitWs (w ++ ' ' :: [' '].intercalate ws) = w :: ws := by
  rw [splitWs_token_append hw (by simp [isSpace_space]), splitWs_space_cons isSpace_space, splitWs_intercalate h]

theorem splitWs_append_spaces (l : List Char) {sp : List Char} (h : ∀ c, c ∈ sp → isSpace c = true) :
    splitWs (l ++ sp) = splitWs l := by
  induction l with
  | nil => simp [splitWs_all_space h, splitWs]
  | cons c cs ih =>
    by_cases hc : isSpace c = true
    · rw [List.cons_append, splitWs_space_cons hc, splitWs_space_cons hc, ih]
    · cases cs with
      | nil =>
        simp only [List.nil_append] at ih
        simp [splitWs, hc, ih]
      | cons d ds =>
        simp only [List.cons_append] at ih ⊢
        rw [splitWs, splitWs.eq_2 c (d :: ds), ih]

theorem splitWs_spaces_append {sp : List Char} (h : ∀ c, c ∈ sp → isSpace c = true) (l : List Char) :
    splitWs (sp ++ l) = splitWs l := by
  induction sp with
  | nil => rfl
  | cons c cs ih =>
    rw [List.cons_append, splitWs_space_cons (h c (by simp)), ih (fun d hd => h d (List.mem_cons_of_mem _ hd))]

/-- every word returned by `split()` is a token -/
theorem splitWs_token_of_mem {l : List Char} {w : List Char} (h : w ∈ splitWs l) : Token w := by
  induction l generalizing w with
  | nil => simp [splitWs] at h
  | cons c cs ih =>
    by_cases hc : isSpace c = true
    · rw [splitWs_space_cons hc] at h; exact ih h
    · have hc' : isSpace c = false := by simpa using hc
      cases cs with
      | nil =>
        rw [splitWs_singleton hc'] at h
        simp only [List.mem_singleton] at h
        subst h
        exact ⟨by simp, by simpa using hc'⟩
      | cons d ds =>
        by_cases hd : isSpace d = true
        · rw [splitWs_cons_space hc' hd] at h
          rcases List.mem_cons.mp h with rfl | h
          · exact ⟨by simp, by simpa using hc'⟩
          · exact ih (by rw [splitWs_space_cons hd]; exact h)
        · have hd' : isSpace d = false := by simpa using hd
          obtain ⟨p, ps, h1, h2⟩ := splitWs_cons_nonspace hc' hd' ds
          rw [h2] at h
          rcases List.mem_cons.mp h with rfl | h
          · have hp := ih (w := p) (by rw [h1]; simp)
            refine ⟨by simp, ?_⟩
            intro x hx
            rcases List.mem_cons.mp hx with rfl | hx
            · exact hc'
            · exact hp.2 x hx
          · exact ih (by rw [h1]; exact List.mem_cons_of_mem _ h)

/-! ### `dropWhileSpace`, `strip` -/

/-- `s.rstrip()` -/
def rstrip (l : List Char) : List Char := (dropWhileSpace l.reverse).reverse

theorem strip_eq (l : List Char) : strip l = rstrip (dropWhileSpace l) := rfl

theorem dropWhileSpace_of_head {l : List Char} (h : ∀ c, l.head? = some c → isSpace c = false) :
    dropWhileSpace l = l := by
  cases l with
  | nil => rfl
  | cons c cs => simp [dropWhileSpace, h c rfl]

theorem dropWhileSpace_space_cons {c : Char} (h : isSpace c = true) (cs : List Char) :
    dropWhileSpace (c :: cs) = dropWhileSpace cs := by
  simp [dropWhileSpace, h]

theorem dropWhileSpace_all_space {sp : List Char} (h : ∀ c, c ∈ sp → isSpace c = true) : dropWhileSpace sp = [] := by
  induction sp with
  | nil => rfl
  | cons c cs ih =>
    rw [dropWhileSpace_space_cons (h c (by simp)), ih (fun d hd => h d (List.mem_cons_of_mem _ hd))]

theorem dropWhileSpace_spaces_append {sp : List Char} (h : ∀ c, c ∈ sp → isSpace c = true) (l : List Char) :
    dropWhileSpace (sp ++ l) = dropWhileSpace l := by
  induction sp with
  | nil => rfl
  | cons c cs ih =>
    rw [List.cons_append, dropWhileSpace_space_cons (h c (by simp)), ih (fun d hd => h d (List.mem_cons_of_mem _ hd))]

theorem dropWhileSpace_append {a : List Char} (h : ∃ c, c ∈ a ∧ isSpace c = false) (b : List Char) :
    dropWhileSpace (a ++ b) = dropWhileSpace a ++ b := by
  induction a with
  | nil => obtain ⟨c, hc, _⟩ := h; cases hc
  | cons x xs ih =>
    by_cases hx : isSpace x = true
    · rw [List.cons_append, dropWhileSpace_space_cons hx, dropWhileSpace_space_cons hx]
      apply ih
      obtain ⟨c, hc, hs⟩ := h
      rcases List.mem_cons.mp hc with rfl | hc
      · rw [hx] at hs; cases hs
      · exact ⟨c, hc, hs⟩
    · simp [dropWhileSpace, hx]

/-- `dropWhileSpace` removes a whitespace prefix and nothing else -/
theorem dropWhileSpace_spec (l : List Char) :
    ∃ sp, (∀ c, c ∈ sp → isSpace c = true) ∧ l = sp ++ dropWhileSpace l ∧
      ∀ c, (dropWhileSpace l).head? = some c → isSpace c = false := by
  induction l with
  | nil => exact ⟨[], by simp, rfl, by simp [dropWhileSpace]⟩
  | cons c cs ih =>
    by_cases hc : isSpace c = true
    · obtain ⟨sp, h1, h2, h3⟩ := ih
      refine ⟨c :: sp, ?_, ?_, ?_⟩
      · intro d hd
        rcases List.mem_cons.mp hd with rfl | hd
        · exact hc
        · exact h1 d hd
      · rw [dropWhileSpace_space_cons hc, List.cons_append, ← h2]
      · rw [dropWhileSpace_space_cons hc]; exact h3
    · refine ⟨[], by simp, by simp [dropWhileSpace, hc], ?_⟩
      simp [dropWhileSpace, hc]

theorem rstrip_spec (l : List Char) :
    ∃ sp, (∀ c, c ∈ sp → isSpace c = true) ∧ l = rstrip l ++ sp ∧
      ∀ c, (rstrip l).getLast? = some c → isSpace c = false := by
  obtain ⟨sp, h1, h2, h3⟩ := dropWhileSpace_spec l.reverse
  refine ⟨sp.reverse, by simpa using h1, ?_, ?_⟩
  · have := congrArg List.reverse h2
    simpa [rstrip] using this
  · intro c hc
    apply h3
    simpa [rstrip, List.getLast?_reverse] using hc

theorem rstrip_of_getLast {l : List Char} (h : ∀ c, l.getLast? = some c → isSpace c = false) : rstrip l = l := by
  unfold rstrip
  rw [dropWhileSpace_of_head (by simpa [List.head?_reverse] using h), List.reverse_reverse]

theorem rstrip_append_spaces (l : List Char) {sp : List Char} (h : ∀ c, c ∈ sp → isSpace c = true) :
    rstrip (l ++ sp) = rstrip l := by
  unfold rstrip
  rw [List.reverse_append, dropWhileSpace_spaces_append (by simpa using h)]

/-- `rstrip` only touches the last piece, as soon as that piece has a non-whitespace character -/
theorem rstrip_append (a : List Char) {b : List Char} (h : ∃ c, c ∈ b ∧ isSpace c = false) :
    rstrip (a ++ b) = a ++ rstrip b := by
  unfold rstrip
  rw [List.reverse_append, dropWhileSpace_append (by simpa using h)]
  simp

/-- `strip` is the identity on texts that neither start nor end with whitespace -/
theorem strip_eq_self {l : List Char} (h1 : ∀ c, l.head? = some c → isSpace c = false)
    (h2 : ∀ c, l.getLast? = some c → isSpace c = false) : strip l = l := by
  rw [strip_eq, dropWhileSpace_of_head h1, rstrip_of_getLast h2]

/-- `strip` of a text that starts with a non-space character only strips the right end -/
theorem strip_eq_rstrip {l : List Char} (h1 : ∀ c, l.head? = some c → isSpace c = false) : strip l = rstrip l := by
  rw [strip_eq, dropWhileSpace_of_head h1]

/-- `strip` removes a whitespace prefix and a whitespace suffix, nothing else -/
theorem strip_spec (l : List Char) :
    ∃ sp1 sp2, (∀ c, c ∈ sp1 → isSpace c = true) ∧ (∀ c, c ∈ sp2 → isSpace c = true) ∧ l = sp1 ++ strip l ++ sp2 := by
  obtain ⟨sp1, h1, h2, _⟩ := dropWhileSpace_spec l
  obtain ⟨sp2, h3, h4, _⟩ := rstrip_spec (dropWhileSpace l)
  refine ⟨sp1, sp2, h1, h3, ?_⟩
  rw [strip_eq, List.append_assoc, ← h4, ← h2]

/-- `s.strip().split() == s.split()` -/
theorem splitWs_strip (l : List Char) : splitWs (strip l) = splitWs l := by
  obtain ⟨sp1, sp2, h1, h2, h3⟩ := strip_spec l
  conv => rhs; rw [h3]
  rw [splitWs_append_spaces _ h2, splitWs_spaces_append h1]

theorem splitWs_rstrip (l : List Char) : splitWs (rstrip l) = splitWs l := by
  obtain ⟨sp, h1, h2, _⟩ := rstrip_spec l
  conv => rhs; rw [h2]
  rw [splitWs_append_spaces _ h1]

/-! ### `String` / `List Char` bridges -/

@[simp] theorem str_toList (s : String) : str s.toList = s := String.ofList_toList
@[simp] theorem toList_str (l : List Char) : (str l).toList = l := String.toList_ofList

theorem str_inj {a b : List Char} : str a = str b ↔ a = b := by
  constructor
  · intro h; have := congrArg String.toList h; simpa using this
  · rintro rfl; rfl

theorem str_eq_iff {l : List Char} {s : String} : str l = s ↔ l = s.toList := by
  constructor
  · rintro rfl; simp
  · rintro rfl; simp

@[simp] theorem map_str_map_toList (l : List String) : (l.map String.toList).map str = l := by
  induction l with
  | nil => rfl
  | cons s l ih => simp_all

theorem toList_append (a b : String) : (a ++ b).toList = a.toList ++ b.toList := String.toList_append

theorem toList_intercalate (sep : String) (l : List String) :
    (sep.intercalate l).toList = sep.toList.intercalate (l.map String.toList) := String.toList_intercalate

theorem toList_newline : "\n".toList = ['\n'] := rfl
theorem toList_space : " ".toList = [' '] := rfl

/-- `"\n".join(lines).split("\n") == lines` (no line contains a newline; at least one line) -/
theorem splitOn_intercalate_newline {lines : List String} (hne : lines ≠ [])
    (h : ∀ l, l ∈ lines → '\n' ∉ l.toList) :
    splitOn '\n' ("\n".intercalate lines).toList = lines.map String.toList := by
  rw [toList_intercalate, toList_newline, splitOn_intercalate (by simpa using hne)]
  intro p hp
  obtain ⟨l, hl, rfl⟩ := List.mem_map.mp hp
  exact h l hl

theorem toList_join_terminated (lines : List String) :
    ("".intercalate (lines.map (· ++ "\n"))).toList = (lines.map String.toList).flatMap (· ++ ['\n']) := by
  rw [toList_intercalate]
  have : "".toList = [] := rfl
  rw [this, intercalate_nil_sep]
  induction lines with
  | nil => rfl
  | cons l ls ih =>
    simp only [List.map_cons, List.flatten_cons, List.flatMap_cons, ih, String.toList_append, toList_newline]

/-- `"".join(l + "\n" for l in lines).split("\n") == lines + [""]` -/
theorem splitOn_join_terminated {lines : List String} (h : ∀ l, l ∈ lines → '\n' ∉ l.toList) :
    splitOn '\n' ("".intercalate (lines.map (· ++ "\n"))).toList = lines.map String.toList ++ [[]] := by
  rw [toList_join_terminated, splitOn_flatMap_terminated]
  intro p hp
  obtain ⟨l, hl, rfl⟩ := List.mem_map.mp hp
  exact h l hl

end Text

/-! ### `dedup`, `sortStrings` -/

theorem dedup_eq_self_of_nodup {α : Type} [DecidableEq α] {l : List α} (h : l.Nodup) : dedup l = l := by
  induction l with
  | nil => rfl
  | cons x l ih =>
    obtain ⟨hx, hl⟩ := List.nodup_cons.mp h
    simp [dedup, ih hl, hx]

theorem dedup_length_le {α : Type} [DecidableEq α] (l : List α) : (dedup l).length ≤ l.length := by
  induction l with
  | nil => simp [dedup]
  | cons x l ih =>
    simp only [dedup]
    split <;> simp <;> omega

theorem nodup_of_dedup_length {α : Type} [DecidableEq α] {l : List α} (h : (dedup l).length = l.length) : l.Nodup := by
  induction l with
  | nil => simp
  | cons x l ih =>
    simp only [dedup] at h
    split at h
    · have := dedup_length_le l
      simp at h; omega
    · rename_i hx
      simp at h
      exact List.nodup_cons.mpr ⟨fun hm => hx (mem_dedup.mpr hm), ih h⟩

theorem dedup_length_eq_iff {α : Type} [DecidableEq α] {l : List α} : (dedup l).length = l.length ↔ l.Nodup :=
  ⟨nodup_of_dedup_length, fun h => by rw [dedup_eq_self_of_nodup h]⟩

theorem dedup_eq_nil {α : Type} [DecidableEq α] {l : List α} : dedup l = [] ↔ l = [] := by
  constructor
  · intro h
    cases l with
    | nil => rfl
    | cons x l =>
      have : x ∈ dedup (x :: l) := mem_dedup.mpr (by simp)
      rw [h] at this; cases this
  · rintro rfl; rfl

theorem sortStrings_perm (l : List String) : (sortStrings l).Perm l := List.mergeSort_perm _ _

@[simp] theorem mem_sortStrings {l : List String} {s : String} : s ∈ sortStrings l ↔ s ∈ l :=
  (sortStrings_perm l).mem_iff

theorem nodup_sortStrings {l : List String} (h : l.Nodup) : (sortStrings l).Nodup :=
  (sortStrings_perm l).nodup_iff.mpr h

theorem nodup_sortStrings_dedup (l : List String) : (sortStrings (dedup l)).Nodup :=
  nodup_sortStrings (nodup_dedup l)

@[simp] theorem length_sortStrings (l : List String) : (sortStrings l).length = l.length :=
  (sortStrings_perm l).length_eq

theorem sortStrings_eq_nil {l : List String} : sortStrings l = [] ↔ l = [] := by
  constructor
  · intro h
    have := length_sortStrings l
    rw [h] at this
    exact List.eq_nil_of_length_eq_zero this.symm
  · rintro rfl; simp [sortStrings]

theorem mem_sortStrings_dedup {l : List String} {s : String} : s ∈ sortStrings (dedup l) ↔ s ∈ l := by simp

/-! ### `isWord`, `joinSp` -/
namespace Parse
open Text

theorem isWord_iff {w : List Char} : isWord w = true ↔ w ≠ [] ∧ ∀ c, c ∈ w → isWordChar c = true := by
  cases w <;> simp [isWord]

theorem isWord_ne_nil {w : List Char} (h : isWord w = true) : w ≠ [] := (isWord_iff.mp h).1

theorem isWord_token {w : List Char} (h : isWord w = true) : Token w :=
  ⟨(isWord_iff.mp h).1, fun c hc => not_isSpace_of_isWordChar ((isWord_iff.mp h).2 c hc)⟩

theorem isWord_head_ne_percent {w : List Char} (h : isWord w = true) : w.head? ≠ some '%' := by
  cases w with
  | nil => simp
  | cons c cs =>
    simp only [List.head?_cons, ne_eq, Option.some.injEq]
    exact isWordChar_ne_percent ((isWord_iff.mp h).2 c (by simp))

theorem isWord_newline_not_mem {w : List Char} (h : isWord w = true) : '\n' ∉ w :=
  (isWord_token h).newline_not_mem

theorem isWord_space_not_mem {w : List Char} (h : isWord w = true) : ' ' ∉ w :=
  (isWord_token h).space_not_mem

theorem isWord_comma_not_mem {w : List Char} (h : isWord w = true) : ',' ∉ w :=
  fun hm => isWordChar_ne_comma ((isWord_iff.mp h).2 _ hm) rfl

theorem toList_joinSp (l : List String) : (joinSp l).toList = [' '].intercalate (l.map String.toList) := by
  rw [joinSp, Text.toList_intercalate, toList_space]

/-- `(kw ++ " " ++ " ".join(names)).split() == [kw] + names` -/
theorem splitWs_kw_joinSp {kw : String} (hk : Token kw.toList) {names : List String}
    (h : ∀ n, n ∈ names → Token n.toList) :
    splitWs (kw ++ " " ++ joinSp names).toList = kw.toList :: names.map String.toList := by
  rw [String.toList_append, String.toList_append, toList_space, toList_joinSp, List.append_assoc,
    List.singleton_append, splitWs_token_space_intercalate hk]
  intro v hv
  obtain ⟨n, hn, rfl⟩ := List.mem_map.mp hv
  exact h n hn

/-- no newline inside `kw ++ " " ++ " ".join(names)` -/
theorem newline_not_mem_kw_joinSp {kw : String} (hk : '\n' ∉ kw.toList) {names : List String}
    (h : ∀ n, n ∈ names → '\n' ∉ n.toList) : '\n' ∉ (kw ++ " " ++ joinSp names).toList := by
  rw [String.toList_append, String.toList_append, toList_space, toList_joinSp]
  simp only [List.mem_append, List.mem_singleton, not_or]
  refine ⟨⟨hk, by decide⟩, ?_⟩
  intro hm
  rcases mem_intercalate hm with hm | ⟨x, hx, hc⟩
  · simp at hm
  · obtain ⟨n, hn, rfl⟩ := List.mem_map.mp hx
    exact h n hn hc

theorem hasDup_eq_false_iff {ws : List String} : hasDup ws = false ↔ ws.Nodup := by
  simp [hasDup, dedup_length_eq_iff]

end Parse

end Gamba
