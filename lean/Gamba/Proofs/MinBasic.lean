/-
  Gamba.Proofs.MinBasic — the generic quotient lemma shared by the three minimisation routines
  (`minimizeTable`, `quotient`, `hopcroft`): partitions, Nerode equivalence, congruences, and the
  properties of `DFA.ofBlocks` on a congruence / on the Nerode partition.

  BEq remark: the state type of `D.ofBlocks blocks` is `List σ`; `DFA.next`/`DFA.Run` at that type use the
  `BEq (List σ × τ)` instance assembled inside the generic definitions.  All lookup lemmas here are
  therefore stated for an arbitrary lawful instance `[i : BEq (List σ × τ)]` (use them as
  `rw [DFA.ofBlocks_lookup (i := _)]`, or go through `DFA.ofBlocks_next`).
-/
import Gamba.Model.DFA
import Gamba.Model.Minimize
import Gamba.Spec.Automata
import Gamba.Proofs.DFABasic
namespace Gamba
set_option linter.unusedSectionVars false
variable {σ τ : Type} [DecidableEq σ] [DecidableEq τ]

/-! ### definitions -/

/-- `blocks` is a partition of `D.Q` into non-empty, pairwise disjoint blocks -/
structure DFA.IsPartition (D : DFA σ τ) (blocks : List (List σ)) : Prop where
  nonempty : ∀ B, B ∈ blocks → B ≠ []
  sub : ∀ B, B ∈ blocks → ∀ q, q ∈ B → q ∈ D.Q
  cover : ∀ q, q ∈ D.Q → ∃ B, B ∈ blocks ∧ q ∈ B
  disj : ∀ B C, B ∈ blocks → C ∈ blocks → ∀ q, q ∈ B → q ∈ C → B = C

/-- two states are Nerode-equivalent: no word over Σ distinguishes them -/
def DFA.Equiv (D : DFA σ τ) (p q : σ) : Prop :=
  ∀ w, (∀ a, a ∈ w → a ∈ D.Sigma) → (D.runT p w ∈ D.F ↔ D.runT q w ∈ D.F)

/-- the blocks are exactly the Nerode classes -/
def DFA.IsNerode (D : DFA σ τ) (blocks : List (List σ)) : Prop :=
  D.IsPartition blocks ∧
    ∀ B C, B ∈ blocks → C ∈ blocks → ∀ p q, p ∈ B → q ∈ C → (B = C ↔ D.Equiv p q)

/-- the partition is a congruence: blocks respect `F` and `δ` -/
structure DFA.IsCongr (D : DFA σ τ) (blocks : List (List σ)) : Prop where
  part : D.IsPartition blocks
  fin : ∀ B, B ∈ blocks → ∀ p q, p ∈ B → q ∈ B → (p ∈ D.F ↔ q ∈ D.F)
  step : ∀ B, B ∈ blocks → ∀ p q, p ∈ B → q ∈ B → ∀ a, a ∈ D.Sigma →
    blockOf blocks (D.next p a) = blockOf blocks (D.next q a)

/-! ### Nerode equivalence -/

theorem DFA.Equiv.refl (D : DFA σ τ) (p : σ) : D.Equiv p p := fun _ _ => Iff.rfl

theorem DFA.Equiv.symm {D : DFA σ τ} {p q : σ} (h : D.Equiv p q) : D.Equiv q p :=
  fun w hw => (h w hw).symm

theorem DFA.Equiv.trans {D : DFA σ τ} {p q r : σ} (h1 : D.Equiv p q) (h2 : D.Equiv q r) :
    D.Equiv p r := fun w hw => (h1 w hw).trans (h2 w hw)

/-- Nerode-equivalent states agree on `F` (take `w = []`) -/
theorem DFA.Equiv.fin {D : DFA σ τ} {p q : σ} (h : D.Equiv p q) : p ∈ D.F ↔ q ∈ D.F :=
  h [] (fun _ ha => by cases ha)

/-- Nerode equivalence is a congruence for `δ` -/
theorem DFA.Equiv.next {D : DFA σ τ} {p q : σ} (h : D.Equiv p q) {a : τ} (ha : a ∈ D.Sigma) :
    D.Equiv (D.next p a) (D.next q a) := by
  intro w hw
  have := h (a :: w) (by
    intro b hb
    rcases List.mem_cons.mp hb with rfl | hb
    · exact ha
    · exact hw b hb)
  simpa only [DFA.runT_cons] using this

theorem DFA.Equiv.runT {D : DFA σ τ} {p q : σ} (h : D.Equiv p q) {u : List τ}
    (hu : ∀ a, a ∈ u → a ∈ D.Sigma) : D.Equiv (D.runT p u) (D.runT q u) := by
  induction u generalizing p q with
  | nil => exact h
  | cons a u ih =>
    exact ih (h.next (hu a List.mem_cons_self)) (fun b hb => hu b (List.mem_cons_of_mem _ hb))

/-- `¬ Equiv` unfolded: there is a separating word -/
theorem DFA.not_equiv_iff (D : DFA σ τ) (p q : σ) :
    ¬ D.Equiv p q ↔ ∃ w, (∀ a, a ∈ w → a ∈ D.Sigma) ∧ ¬ (D.runT p w ∈ D.F ↔ D.runT q w ∈ D.F) := by
  constructor
  · intro h
    apply Classical.byContradiction
    intro hn
    apply h
    intro w hw
    apply Classical.byContradiction
    intro hc
    exact hn ⟨w, hw, hc⟩
  · rintro ⟨w, hw, hc⟩ h
    exact hc (h w hw)

/-- one-step characterisation of inequivalence -/
theorem DFA.not_equiv_of_next {D : DFA σ τ} {p q : σ} {a : τ} (ha : a ∈ D.Sigma)
    (h : ¬ D.Equiv (D.next p a) (D.next q a)) : ¬ D.Equiv p q := fun he => h (he.next ha)

theorem DFA.not_equiv_of_fin {D : DFA σ τ} {p q : σ} (h : ¬ (p ∈ D.F ↔ q ∈ D.F)) : ¬ D.Equiv p q :=
  fun he => h he.fin

/-- for a valid DFA, `Dist` is "some word over Σ separates the `runT` targets" -/
theorem DFA.dist_iff_runT (D : DFA σ τ) (hv : D.valid = true) (p q : σ) (hp : p ∈ D.Q) (hq : q ∈ D.Q) :
    D.Dist p q ↔ ∃ w, (∀ a, a ∈ w → a ∈ D.Sigma) ∧ ¬ (D.runT p w ∈ D.F ↔ D.runT q w ∈ D.F) := by
  unfold DFA.Dist
  constructor
  · rintro ⟨w, hw, p', q', hp', hq', hn⟩
    refine ⟨w, hw, ?_⟩
    rw [← hp'.eq_runT, ← hq'.eq_runT]
    exact hn
  · rintro ⟨w, hw, hn⟩
    exact ⟨w, hw, _, _, DFA.Run_runT hv hp hw, DFA.Run_runT hv hq hw, hn⟩

theorem DFA.equiv_iff_not_dist (D : DFA σ τ) (hv : D.valid = true) (p q : σ) (hp : p ∈ D.Q) (hq : q ∈ D.Q) :
    D.Equiv p q ↔ ¬ D.Dist p q := by
  rw [DFA.dist_iff_runT D hv p q hp hq, ← DFA.not_equiv_iff]
  exact ⟨fun h hn => hn h, fun h => Classical.byContradiction h⟩

theorem DFA.dist_iff_not_equiv (D : DFA σ τ) (hv : D.valid = true) (p q : σ) (hp : p ∈ D.Q) (hq : q ∈ D.Q) :
    D.Dist p q ↔ ¬ D.Equiv p q := by
  rw [DFA.dist_iff_runT D hv p q hp hq, ← DFA.not_equiv_iff]

/-! ### `blockOf` -/

/-- `blockOf` returns a block of the list that contains `q`, as soon as some block does -/
theorem blockOf_spec {blocks : List (List σ)} {q : σ} (h : ∃ B, B ∈ blocks ∧ q ∈ B) :
    blockOf blocks q ∈ blocks ∧ q ∈ blockOf blocks q := by
  unfold blockOf
  cases hf : blocks.find? (fun B => decide (q ∈ B)) with
  | none =>
    obtain ⟨B, hB, hq⟩ := h
    have := List.find?_eq_none.mp hf B hB
    simp only [decide_eq_true_eq] at this
    exact absurd hq this
  | some B' =>
    have h1 := List.find?_some hf
    simp only [decide_eq_true_eq] at h1
    exact ⟨List.mem_of_find?_eq_some hf, h1⟩

/-- if no block contains `q`, `blockOf` returns `[]` -/
theorem blockOf_eq_nil {blocks : List (List σ)} {q : σ} (h : ∀ B, B ∈ blocks → q ∉ B) :
    blockOf blocks q = [] := by
  unfold blockOf
  have : blocks.find? (fun B => decide (q ∈ B)) = none := by
    rw [List.find?_eq_none]
    intro B hB
    simp only [decide_eq_true_eq]
    exact h B hB
  rw [this]; rfl

/-- with pairwise disjoint blocks, `blockOf blocks q` is THE block containing `q` -/
theorem blockOf_eq_of_mem {blocks : List (List σ)}
    (hd : ∀ B C, B ∈ blocks → C ∈ blocks → ∀ q, q ∈ B → q ∈ C → B = C)
    {B : List σ} {q : σ} (hB : B ∈ blocks) (hq : q ∈ B) : blockOf blocks q = B := by
  obtain ⟨h1, h2⟩ := blockOf_spec ⟨B, hB, hq⟩
  exact hd _ _ h1 hB q h2 hq

theorem DFA.IsPartition.blockOf_mem {D : DFA σ τ} {blocks : List (List σ)} (hP : D.IsPartition blocks)
    {q : σ} (hq : q ∈ D.Q) : blockOf blocks q ∈ blocks ∧ q ∈ blockOf blocks q :=
  blockOf_spec (hP.cover q hq)

theorem DFA.IsPartition.blockOf_eq {D : DFA σ τ} {blocks : List (List σ)} (hP : D.IsPartition blocks)
    {B : List σ} {q : σ} (hB : B ∈ blocks) (hq : q ∈ B) : blockOf blocks q = B :=
  blockOf_eq_of_mem hP.disj hB hq

/-- two states have the same `blockOf` iff they lie in a common block -/
theorem DFA.IsPartition.blockOf_eq_iff {D : DFA σ τ} {blocks : List (List σ)} (hP : D.IsPartition blocks)
    {p q : σ} (hp : p ∈ D.Q) (_hq : q ∈ D.Q) :
    blockOf blocks p = blockOf blocks q ↔ ∃ B, B ∈ blocks ∧ p ∈ B ∧ q ∈ B := by
  constructor
  · intro h
    obtain ⟨h1, h2⟩ := hP.blockOf_mem hp
    obtain ⟨_, h4⟩ := hP.blockOf_mem _hq
    exact ⟨_, h1, h2, h ▸ h4⟩
  · rintro ⟨B, hB, hpB, hqB⟩
    rw [hP.blockOf_eq hB hpB, hP.blockOf_eq hB hqB]

/-! ### `ofBlocks`: components and `δ` -/

@[simp] theorem DFA.ofBlocks_Q (D : DFA σ τ) (blocks : List (List σ)) : (D.ofBlocks blocks).Q = blocks := rfl
@[simp] theorem DFA.ofBlocks_Sigma (D : DFA σ τ) (blocks : List (List σ)) :
    (D.ofBlocks blocks).Sigma = D.Sigma := rfl
@[simp] theorem DFA.ofBlocks_q0 (D : DFA σ τ) (blocks : List (List σ)) :
    (D.ofBlocks blocks).q0 = blockOf blocks D.q0 := rfl

theorem DFA.ofBlocks_mem_F (D : DFA σ τ) (blocks : List (List σ)) (B : List σ) :
    B ∈ (D.ofBlocks blocks).F ↔ B ∈ blocks ∧ ∃ x, x ∈ B ∧ x ∈ D.F := by
  simp only [DFA.ofBlocks, List.mem_filter, Bool.not_eq_true', sdisjoint_false_iff]

/-- the target of block `B` under `a` in `ofBlocks`: the block of the successor of the HEAD of `B` -/
def DFA.repNext (D : DFA σ τ) (blocks : List (List σ)) (B : List σ) (a : τ) : List σ :=
  match B with
  | [] => []
  | v :: _ => blockOf blocks (D.next v a)

theorem DFA.repNext_eq (D : DFA σ τ) (blocks : List (List σ)) {B : List σ} (hB : B ≠ []) (a : τ) :
    ∃ v, v ∈ B ∧ D.repNext blocks B a = blockOf blocks (D.next v a) := by
  cases B with
  | nil => exact absurd rfl hB
  | cons v B => exact ⟨v, List.mem_cons_self, rfl⟩

theorem flatMap_congr' {α β : Type} {l : List α} {f g : α → List β} (h : ∀ x, x ∈ l → f x = g x) :
    l.flatMap f = l.flatMap g := by
  induction l with
  | nil => rfl
  | cons x l ih =>
    simp only [List.flatMap_cons]
    rw [h x List.mem_cons_self, ih (fun y hy => h y (List.mem_cons_of_mem _ hy))]

theorem DFA.ofBlocks_delta_eq (D : DFA σ τ) (blocks : List (List σ)) (hne : ∀ B, B ∈ blocks → B ≠ []) :
    (D.ofBlocks blocks).delta =
      blocks.flatMap (fun B => D.Sigma.map (fun a => ((B, a), D.repNext blocks B a))) := by
  simp only [DFA.ofBlocks]
  apply flatMap_congr'
  intro B hB
  cases B with
  | nil => exact absurd rfl (hne _ hB)
  | cons v B => rfl

/-- membership in the `δ` of `ofBlocks` (no hypothesis on the blocks) -/
theorem DFA.ofBlocks_mem_delta (D : DFA σ τ) (blocks : List (List σ)) {B : List σ} {a : τ} {C : List σ}
    (h : ((B, a), C) ∈ (D.ofBlocks blocks).delta) :
    B ∈ blocks ∧ B ≠ [] ∧ a ∈ D.Sigma ∧ C = D.repNext blocks B a := by
  simp only [DFA.ofBlocks, List.mem_flatMap] at h
  obtain ⟨B', hB', hm⟩ := h
  cases B' with
  | nil => simp at hm
  | cons v B' =>
    simp only [List.mem_map, Prod.mk.injEq] at hm
    obtain ⟨a', ha', ⟨hB, rfl⟩, rfl⟩ := hm
    subst hB
    exact ⟨hB', by simp, ha', rfl⟩

theorem DFA.ofBlocks_lookup [i : BEq (List σ × τ)] [LawfulBEq (List σ × τ)]
    (D : DFA σ τ) (blocks : List (List σ)) (hne : ∀ B, B ∈ blocks → B ≠ []) (B : List σ) (a : τ) :
    @List.lookup _ _ i (B, a) (D.ofBlocks blocks).delta =
      if B ∈ blocks ∧ a ∈ D.Sigma then some (D.repNext blocks B a) else none := by
  rw [DFA.ofBlocks_delta_eq D blocks hne,
    lookup_flatMap_keys blocks D.Sigma (fun B a => D.repNext blocks B a)]
  congr

theorem DFA.ofBlocks_next (D : DFA σ τ) (blocks : List (List σ)) (hne : ∀ B, B ∈ blocks → B ≠ [])
    {B : List σ} {a : τ} (hB : B ∈ blocks) (ha : a ∈ D.Sigma) :
    (D.ofBlocks blocks).next B a = D.repNext blocks B a := by
  apply DFA.next_of_lookup
  exact (DFA.ofBlocks_lookup (i := @instBEqProd _ _ instBEqOfDecidableEq instBEqOfDecidableEq) D blocks hne B a).trans (if_pos ⟨hB, ha⟩)

/-- the quotient on a partition of the states of a valid DFA is valid -/
theorem DFA.ofBlocks_valid (D : DFA σ τ) (hv : D.valid = true) (blocks : List (List σ))
    (hP : D.IsPartition blocks) : (D.ofBlocks blocks).valid = true := by
  rw [DFA.valid_iff]
  refine ⟨?_, ?_, ?_, ?_⟩
  · exact (hP.blockOf_mem (DFA.valid_q0 hv)).1
  · intro B hB
    exact ((DFA.ofBlocks_mem_F D blocks B).mp hB).1
  · intro B a C he
    obtain ⟨hB, hBne, ha, rfl⟩ := DFA.ofBlocks_mem_delta D blocks he
    refine ⟨hB, ha, ?_⟩
    obtain ⟨v, hv', hr⟩ := DFA.repNext_eq D blocks hBne a
    rw [hr]
    exact (hP.blockOf_mem (DFA.valid_next_mem hv (hP.sub B hB v hv') ha)).1
  · intro B a hB ha
    refine ⟨D.repNext blocks B a, ?_⟩
    exact (DFA.ofBlocks_lookup (i := @instBEqProd _ _ instBEqOfDecidableEq instBEqOfDecidableEq) D blocks hP.nonempty B a).trans (if_pos ⟨hB, ha⟩)

/-! ### `ofBlocks` on a congruence -/

/-- on a congruence, any member of the block gives the same target block as the head -/
theorem DFA.IsCongr.next_blockOf {D : DFA σ τ} {blocks : List (List σ)} (hC : D.IsCongr blocks)
    {q : σ} (hq : q ∈ D.Q) {a : τ} (ha : a ∈ D.Sigma) :
    (D.ofBlocks blocks).next (blockOf blocks q) a = blockOf blocks (D.next q a) := by
  obtain ⟨hB, hqB⟩ := hC.part.blockOf_mem hq
  rw [DFA.ofBlocks_next D blocks hC.part.nonempty hB ha]
  obtain ⟨v, hvB, hr⟩ := DFA.repNext_eq D blocks (hC.part.nonempty _ hB) a
  rw [hr]
  exact hC.step _ hB v q hvB hqB a ha

theorem DFA.IsCongr.next_block {D : DFA σ τ} {blocks : List (List σ)} (hC : D.IsCongr blocks)
    {B : List σ} (hB : B ∈ blocks) {q : σ} (hq : q ∈ B) {a : τ} (ha : a ∈ D.Sigma) :
    (D.ofBlocks blocks).next B a = blockOf blocks (D.next q a) := by
  have := hC.next_blockOf (hC.part.sub B hB q hq) ha
  rwa [hC.part.blockOf_eq hB hq] at this

/-- the run of the quotient follows the run of `D` -/
theorem DFA.IsCongr.runT_blockOf {D : DFA σ τ} (hv : D.valid = true) {blocks : List (List σ)}
    (hC : D.IsCongr blocks) {q : σ} (hq : q ∈ D.Q) {w : List τ} (hw : ∀ a, a ∈ w → a ∈ D.Sigma) :
    (D.ofBlocks blocks).runT (blockOf blocks q) w = blockOf blocks (D.runT q w) := by
  induction w generalizing q with
  | nil => rfl
  | cons a w ih =>
    have ha := hw a List.mem_cons_self
    rw [DFA.runT_cons, DFA.runT_cons, hC.next_blockOf hq ha]
    exact ih (DFA.valid_next_mem hv hq ha) (fun b hb => hw b (List.mem_cons_of_mem _ hb))

theorem DFA.IsCongr.runT_block {D : DFA σ τ} (hv : D.valid = true) {blocks : List (List σ)}
    (hC : D.IsCongr blocks) {B : List σ} (hB : B ∈ blocks) {q : σ} (hq : q ∈ B) {w : List τ}
    (hw : ∀ a, a ∈ w → a ∈ D.Sigma) :
    (D.ofBlocks blocks).runT B w = blockOf blocks (D.runT q w) := by
  have := hC.runT_blockOf hv (hC.part.sub B hB q hq) hw
  rwa [hC.part.blockOf_eq hB hq] at this

/-- a block is final in the quotient iff (all / some of) its members are final -/
theorem DFA.IsCongr.blockOf_mem_F {D : DFA σ τ} {blocks : List (List σ)} (hC : D.IsCongr blocks)
    {q : σ} (hq : q ∈ D.Q) : blockOf blocks q ∈ (D.ofBlocks blocks).F ↔ q ∈ D.F := by
  obtain ⟨hB, hqB⟩ := hC.part.blockOf_mem hq
  rw [DFA.ofBlocks_mem_F]
  constructor
  · rintro ⟨_, x, hx, hxF⟩
    exact (hC.fin _ hB x q hx hqB).mp hxF
  · intro hF
    exact ⟨hB, q, hqB, hF⟩

theorem DFA.IsCongr.block_mem_F {D : DFA σ τ} {blocks : List (List σ)} (hC : D.IsCongr blocks)
    {B : List σ} (hB : B ∈ blocks) {q : σ} (hq : q ∈ B) : B ∈ (D.ofBlocks blocks).F ↔ q ∈ D.F := by
  have := hC.blockOf_mem_F (hC.part.sub B hB q hq)
  rwa [hC.part.blockOf_eq hB hq] at this

/-- the quotient by a congruence: valid, same alphabet, states = blocks, same language -/
theorem DFA.ofBlocks_congr (D : DFA σ τ) (hv : D.valid = true) (blocks : List (List σ))
    (hC : D.IsCongr blocks) :
    (D.ofBlocks blocks).valid = true ∧ (D.ofBlocks blocks).Sigma = D.Sigma ∧
    (D.ofBlocks blocks).Q = blocks ∧
    (∀ w, (∀ a, a ∈ w → a ∈ D.Sigma) → ((D.ofBlocks blocks).Accepts w ↔ D.Accepts w)) := by
  have hv' := DFA.ofBlocks_valid D hv blocks hC.part
  refine ⟨hv', rfl, rfl, ?_⟩
  intro w hw
  rw [DFA.Accepts_iff_runT hv' (by exact hw), DFA.Accepts_iff_runT hv hw, DFA.ofBlocks_q0,
    hC.runT_blockOf hv (DFA.valid_q0 hv) hw,
    hC.blockOf_mem_F (DFA.runT_mem hv (DFA.valid_q0 hv) hw)]

/-- states of the quotient are distinguishable as soon as (some of) their members are inequivalent -/
theorem DFA.IsCongr.dist_of_not_equiv {D : DFA σ τ} (hv : D.valid = true) {blocks : List (List σ)}
    (hC : D.IsCongr blocks) {B C : List σ} (hB : B ∈ blocks) (hCm : C ∈ blocks) {p q : σ}
    (hp : p ∈ B) (hq : q ∈ C) (hne : ¬ D.Equiv p q) : (D.ofBlocks blocks).Dist B C := by
  have hv' := DFA.ofBlocks_valid D hv blocks hC.part
  obtain ⟨w, hw, hsep⟩ := (DFA.not_equiv_iff D p q).mp hne
  rw [DFA.dist_iff_runT _ hv' B C hB hCm]
  refine ⟨w, hw, ?_⟩
  rw [hC.runT_block hv hB hp hw, hC.runT_block hv hCm hq hw,
    hC.blockOf_mem_F (DFA.runT_mem hv (hC.part.sub B hB p hp) hw),
    hC.blockOf_mem_F (DFA.runT_mem hv (hC.part.sub C hCm q hq) hw)]
  exact hsep

/-- conversely, distinguishable blocks of a congruence have inequivalent members -/
theorem DFA.IsCongr.not_equiv_of_dist {D : DFA σ τ} (hv : D.valid = true) {blocks : List (List σ)}
    (hC : D.IsCongr blocks) {B C : List σ} (hB : B ∈ blocks) (hCm : C ∈ blocks) {p q : σ}
    (hp : p ∈ B) (hq : q ∈ C) (hd : (D.ofBlocks blocks).Dist B C) : ¬ D.Equiv p q := by
  have hv' := DFA.ofBlocks_valid D hv blocks hC.part
  rw [DFA.dist_iff_runT _ hv' B C hB hCm] at hd
  obtain ⟨w, hw, hsep⟩ := hd
  rw [hC.runT_block hv hB hp hw, hC.runT_block hv hCm hq hw,
    hC.blockOf_mem_F (DFA.runT_mem hv (hC.part.sub B hB p hp) hw),
    hC.blockOf_mem_F (DFA.runT_mem hv (hC.part.sub C hCm q hq) hw)] at hsep
  exact fun he => hsep (he w hw)

/-! ### the Nerode partition -/

theorem DFA.IsNerode.equiv_of_mem {D : DFA σ τ} {blocks : List (List σ)} (hN : D.IsNerode blocks)
    {B : List σ} (hB : B ∈ blocks) {p q : σ} (hp : p ∈ B) (hq : q ∈ B) : D.Equiv p q :=
  (hN.2 B B hB hB p q hp hq).mp rfl

/-- the Nerode partition is a congruence -/
theorem DFA.IsNerode.isCongr {D : DFA σ τ} (hv : D.valid = true) {blocks : List (List σ)}
    (hN : D.IsNerode blocks) : D.IsCongr blocks := by
  refine ⟨hN.1, ?_, ?_⟩
  · intro B hB p q hp hq
    exact (hN.equiv_of_mem hB hp hq).fin
  · intro B hB p q hp hq a ha
    have he : D.Equiv (D.next p a) (D.next q a) := (hN.equiv_of_mem hB hp hq).next ha
    obtain ⟨h1, h2⟩ := hN.1.blockOf_mem (DFA.valid_next_mem hv (hN.1.sub B hB p hp) ha)
    obtain ⟨h3, h4⟩ := hN.1.blockOf_mem (DFA.valid_next_mem hv (hN.1.sub B hB q hq) ha)
    exact (hN.2 _ _ h1 h3 _ _ h2 h4).mpr he

/-- a congruence whose distinct blocks have inequivalent members is the Nerode partition -/
theorem DFA.IsCongr.isNerode {D : DFA σ τ} (hv : D.valid = true) {blocks : List (List σ)}
    (hC : D.IsCongr blocks)
    (hsep : ∀ B C, B ∈ blocks → C ∈ blocks → ∀ p q, p ∈ B → q ∈ C → D.Equiv p q → B = C) :
    D.IsNerode blocks := by
  refine ⟨hC.part, ?_⟩
  intro B C hB hCm p q hp hq
  constructor
  · rintro rfl
    intro w hw
    have h1 := hC.runT_block hv hB hp hw
    have h2 := hC.runT_block hv hB hq hw
    rw [← hC.blockOf_mem_F (DFA.runT_mem hv (hC.part.sub B hB p hp) hw),
      ← hC.blockOf_mem_F (DFA.runT_mem hv (hC.part.sub B hB q hq) hw), ← h1, ← h2]
  · exact hsep B C hB hCm p q hp hq

/-- the quotient by the Nerode partition: valid, same language, pairwise distinguishable states,
    one state per class -/
theorem DFA.ofBlocks_nerode (D : DFA σ τ) (hv : D.valid = true) (blocks : List (List σ))
    (hN : D.IsNerode blocks) :
    (D.ofBlocks blocks).valid = true ∧ (D.ofBlocks blocks).Sigma = D.Sigma ∧
    (D.ofBlocks blocks).Q = blocks ∧
    (∀ w, (∀ a, a ∈ w → a ∈ D.Sigma) → ((D.ofBlocks blocks).Accepts w ↔ D.Accepts w)) ∧
    (∀ B C, B ∈ blocks → C ∈ blocks → B ≠ C → (D.ofBlocks blocks).Dist B C) := by
  have hC := hN.isCongr hv
  obtain ⟨h1, h2, h3, h4⟩ := DFA.ofBlocks_congr D hv blocks hC
  refine ⟨h1, h2, h3, h4, ?_⟩
  intro B C hB hCm hne
  cases hBl : B with
  | nil => exact absurd hBl (hN.1.nonempty B hB)
  | cons p B' =>
    cases hCl : C with
    | nil => exact absurd hCl (hN.1.nonempty C hCm)
    | cons q C' =>
      have hp : p ∈ B := hBl ▸ List.mem_cons_self
      have hq : q ∈ C := hCl ▸ List.mem_cons_self
      have hneq : ¬ D.Equiv p q := fun he => hne ((hN.2 B C hB hCm p q hp hq).mpr he)
      rw [← hBl, ← hCl]
      exact hC.dist_of_not_equiv hv hB hCm hp hq hneq

/-- an unreachable-state-free statement of minimality: two blocks of the Nerode quotient are equal iff
    they are not distinguishable in the quotient -/
theorem DFA.ofBlocks_nerode_dist_iff (D : DFA σ τ) (hv : D.valid = true) (blocks : List (List σ))
    (hN : D.IsNerode blocks) {B C : List σ} (hB : B ∈ blocks) (hCm : C ∈ blocks) :
    (D.ofBlocks blocks).Dist B C ↔ B ≠ C := by
  constructor
  · intro hd hBC
    subst hBC
    have hv' := (DFA.ofBlocks_nerode D hv blocks hN).1
    exact ((DFA.equiv_iff_not_dist _ hv' B B hB hB).mp (DFA.Equiv.refl _ B)) hd
  · exact (DFA.ofBlocks_nerode D hv blocks hN).2.2.2.2 B C hB hCm

end Gamba
