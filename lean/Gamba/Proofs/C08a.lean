/-
  Gamba.Proofs.C08a — helper lemmas for the first two phases of the Chomsky-normal-form conversion:
  `freshVariable`, `addStart`, `nullable`, `removeEps`.
-/
import Gamba.Model.CFG
import Gamba.Spec.CFG
import Gamba.Proofs.CFGBasic
import Gamba.Proofs.C14a
namespace Gamba
namespace CFG

/-! ### fresh variables -/

theorem freshIndexed_mem (V : List String) (hint : String) (fuel i : Nat)
    (h : freshIndexed V hint fuel i ∈ V) :
    ∀ j, i ≤ j → j ≤ i + fuel → hint ++ toString j ∈ V := by
  induction fuel generalizing i with
  | zero =>
    intro j h1 h2
    have : j = i := by omega
    subst this
    exact h
  | succ fuel ih =>
    intro j h1 h2
    unfold freshIndexed at h
    split at h
    · rename_i hi
      by_cases hj : j = i
      · subst hj; exact hi
      · exact ih (i + 1) h j (by omega) (by omega)
    · rename_i hi
      exact absurd h hi

theorem freshIndexed_not_mem (V : List String) (hint : String) :
    freshIndexed V hint (V.length + 1) 0 ∉ V := by
  intro h
  have hall := freshIndexed_mem V hint (V.length + 1) 0 h
  let cands := (List.range (V.length + 2)).map (fun j => hint ++ toString j)
  have hsub : cands ⊆ V := by
    intro s hs
    obtain ⟨j, hj, rfl⟩ := List.mem_map.mp hs
    rw [List.mem_range] at hj
    exact hall j (Nat.zero_le _) (by omega)
  have hnd : cands.Nodup := by
    refine List.Pairwise.map (R := (· ≠ ·)) _ ?_ (List.nodup_range (n := V.length + 2))
    intro a b hab he
    exact hab (nat_toString_injective ((String.append_right_inj hint).mp he))
  have hlen := hnd.length_le_of_subset hsub
  simp only [cands, List.length_map, List.length_range] at hlen
  omega

theorem upperLetters_nodup : upperLetters.Nodup := by decide

theorem freshVariable_not_mem (V : List String) (hint : String) : freshVariable V hint ∉ V := by
  unfold freshVariable
  simp only
  split
  · split
    · exact freshIndexed_not_mem V hint
    · assumption
  · rename_i hn
    split
    · assumption
    · cases hf : upperLetters.find? (fun x => decide (x ∉ V)) with
      | some x =>
        have := List.find?_some hf
        simpa using this
      | none =>
        exfalso
        rw [List.find?_eq_none] at hf
        have hsub : upperLetters ⊆ dedup V := by
          intro x hx
          have := hf x hx
          simp only [decide_not, Bool.not_eq_eq_eq_not, Bool.not_true, decide_eq_false_iff_not,
            Decidable.not_not] at this
          exact mem_dedup.mpr this
        have hlen := upperLetters_nodup.length_le_of_subset hsub
        have h26 : upperLetters.length = 26 := by decide
        omega

/-! ### `valid` as a proposition -/

/-- a symbol is declared -/
def SymOK (G : CFG) : Sym → Prop
  | .v A => A ∈ G.V
  | .t a => a ∈ G.Sigma

theorem valid_iff (G : CFG) :
    G.valid = true ↔ ∀ r, r ∈ G.R → r.lhs ∈ G.V ∧ ∀ x, x ∈ r.rhs → G.SymOK x := by
  simp only [valid, List.all_eq_true, Bool.and_eq_true, decide_eq_true_eq]
  constructor
  · intro h r hr
    refine ⟨(h r hr).1, ?_⟩
    intro x hx
    have := (h r hr).2 x hx
    cases x <;> simpa [SymOK] using this
  · intro h r hr
    refine ⟨(h r hr).1, ?_⟩
    intro x hx
    have := (h r hr).2 x hx
    cases x <;> simpa [SymOK] using this

theorem valid_iff_hasRule (G : CFG) :
    G.valid = true ↔ ∀ A rhs, G.HasRule A rhs → A ∈ G.V ∧ ∀ x, x ∈ rhs → G.SymOK x := by
  rw [valid_iff]
  constructor
  · rintro h A rhs ⟨r, hr, rfl, rfl⟩; exact h r hr
  · intro h r hr; exact h r.lhs r.rhs ⟨r, hr, rfl, rfl⟩

/-! ### `nextAid` -/

theorem le_foldl_max (l : List Nat) (a : Nat) : a ≤ l.foldl max a ∧ ∀ x, x ∈ l → x ≤ l.foldl max a := by
  induction l generalizing a with
  | nil => simp
  | cons y l ih =>
    simp only [List.foldl_cons, List.mem_cons]
    have h := ih (max a y)
    refine ⟨by omega, ?_⟩
    rintro x (rfl | hx)
    · omega
    · exact h.2 x hx

theorem aid_lt_nextAid (G : CFG) {r : CRule} (hr : r ∈ G.R) : r.aid < G.nextAid := by
  unfold nextAid
  have := (le_foldl_max (G.R.map (·.aid)) 0).2 r.aid (List.mem_map.mpr ⟨r, hr, rfl⟩)
  omega

/-! ### phase 1 -/

theorem addStart_S (G : CFG) (hint : String) : (G.addStart hint).S = freshVariable G.V hint := rfl
theorem addStart_V (G : CFG) (hint : String) :
    (G.addStart hint).V = G.V ++ [freshVariable G.V hint] := rfl
theorem addStart_R (G : CFG) (hint : String) :
    (G.addStart hint).R =
      { lhs := freshVariable G.V hint, aid := G.nextAid, rhs := [.v G.S] } :: G.R := rfl
theorem addStart_Sigma (G : CFG) (hint : String) : (G.addStart hint).Sigma = G.Sigma := rfl

theorem addStart_symOK (G : CFG) (hint : String) {x : Sym} (h : G.SymOK x) :
    (G.addStart hint).SymOK x := by
  cases x with
  | v A => simp only [SymOK, addStart_V, List.mem_append] at *; exact Or.inl h
  | t a => exact h

theorem addStart_valid (G : CFG) (hint : String) (hv : G.valid = true) (hS : G.S ∈ G.V) :
    (G.addStart hint).valid = true := by
  rw [valid_iff] at hv ⊢
  intro r hr
  rw [addStart_R, List.mem_cons] at hr
  rcases hr with rfl | hr
  · refine ⟨by simp [addStart_V], ?_⟩
    intro x hx
    simp only [List.mem_singleton] at hx
    subst hx
    simp only [SymOK, addStart_V, List.mem_append]
    exact Or.inl hS
  · obtain ⟨h1, h2⟩ := hv r hr
    refine ⟨by rw [addStart_V]; exact List.mem_append_left _ h1, ?_⟩
    intro x hx
    exact addStart_symOK G hint (h2 x hx)

theorem addStart_hasRule_old (G : CFG) (hint : String) {A : String} {rhs : List Sym}
    (h : G.HasRule A rhs) : (G.addStart hint).HasRule A rhs := by
  obtain ⟨r, hr, h1, h2⟩ := h
  exact ⟨r, by rw [addStart_R]; exact List.mem_cons_of_mem _ hr, h1, h2⟩

/-- forms over the old variables generate the same words in the extended grammar -/
theorem addStart_gen_old (G : CFG) (hint : String) (hv : G.valid = true)
    {f : List Sym} {w : List String} (h : (G.addStart hint).Gen f w)
    (hf : ∀ x, x ∈ f → G.SymOK x) : G.Gen f w := by
  induction h with
  | nil => exact .nil
  | t _ ih => exact .t (ih fun x hx => hf x (List.mem_cons_of_mem _ hx))
  | @v A rhs ss u w hr _ _ ih1 ih2 =>
    have hA : A ∈ G.V := hf (.v A) (List.mem_cons_self ..)
    obtain ⟨r, hrR, h1, h2⟩ := hr
    rw [addStart_R, List.mem_cons] at hrR
    rcases hrR with rfl | hrR
    · exfalso
      simp only at h1
      subst h1
      exact freshVariable_not_mem G.V hint hA
    · have hr' : G.HasRule A rhs := ⟨r, hrR, h1, h2⟩
      have hok := ((valid_iff_hasRule G).mp hv A rhs hr').2
      exact .v hr' (ih1 hok) (ih2 fun x hx => hf x (List.mem_cons_of_mem _ hx))

theorem addStart_lang (G : CFG) (hint : String) (hv : G.valid = true) (hS : G.S ∈ G.V)
    (w : List String) : (G.addStart hint).Lang w ↔ G.Lang w := by
  unfold Lang
  constructor
  · intro h
    obtain ⟨rhs, ⟨r, hrR, h1, h2⟩, hg⟩ := gen_v_iff.mp h
    rw [addStart_R, List.mem_cons] at hrR
    rcases hrR with rfl | hrR
    · simp only at h2
      subst h2
      refine addStart_gen_old G hint hv hg ?_
      intro x hx
      simp only [List.mem_singleton] at hx
      subst hx
      exact hS
    · exfalso
      have := ((valid_iff G).mp hv r hrR).1
      rw [h1, addStart_S] at this
      exact freshVariable_not_mem G.V hint this
  · intro h
    refine gen_v_iff.mpr ⟨[.v G.S], ⟨_, by rw [addStart_R]; exact List.mem_cons_self .., rfl, rfl⟩, ?_⟩
    exact gen_mono (fun A rhs => addStart_hasRule_old G hint) h

theorem addStart_startNotOnRhs (G : CFG) (hint : String) (hv : G.valid = true) (hS : G.S ∈ G.V) :
    StartNotOnRhs (G.addStart hint) := by
  intro r hr hmem
  have hvalid := (valid_iff _).mp hv
  rw [addStart_R, List.mem_cons] at hr
  rw [addStart_S] at hmem
  rcases hr with rfl | hr
  · simp only [List.mem_singleton, Sym.v.injEq] at hmem
    exact freshVariable_not_mem G.V hint (hmem ▸ hS)
  · have := (hvalid r hr).2 _ hmem
    exact freshVariable_not_mem G.V hint this

theorem addStart_aliasOK (G : CFG) (hint : String) (h : AliasOK G) : AliasOK (G.addStart hint) := by
  intro r s hr hs he
  rw [addStart_R, List.mem_cons] at hr hs
  rcases hr with rfl | hr <;> rcases hs with rfl | hs
  · rfl
  · have := aid_lt_nextAid G hs
    simp only at he
    omega
  · have := aid_lt_nextAid G hr
    simp only at he
    omega
  · exact h r s hr hs he

/-! ### nullable variables -/

/-- every symbol of the form is a variable of `N` (the test of `nullablePass`) -/
def allIn (N : List String) (rhs : List Sym) : Bool :=
  rhs.all (fun x => match x with | .v A => decide (A ∈ N) | .t _ => false)

theorem allIn_iff {N : List String} {rhs : List Sym} :
    allIn N rhs = true ↔ ∀ x, x ∈ rhs → ∃ A, x = .v A ∧ A ∈ N := by
  simp only [allIn, List.all_eq_true]
  constructor
  · intro h x hx
    have := h x hx
    cases x with
    | v A => exact ⟨A, rfl, by simpa using this⟩
    | t a => simp at this
  · intro h x hx
    obtain ⟨A, rfl, hA⟩ := h x hx
    simpa using hA

def passStep (acc : List String × Bool) (r : CRule) : List String × Bool :=
  if r.lhs ∉ acc.1 ∧ allIn acc.1 r.rhs then (acc.1 ++ [r.lhs], true) else acc

theorem nullablePass_eq (R : List CRule) (N : List String) :
    nullablePass R N = R.foldl passStep (N, false) := rfl

/-- soundness invariant: everything in the set generates the empty word -/
def NullSound (G : CFG) (N : List String) : Prop := ∀ A, A ∈ N → G.Gen [.v A] []

theorem gen_nil_of_allIn {G : CFG} {N : List String} (hN : NullSound G N) {rhs : List Sym}
    (h : allIn N rhs = true) : G.Gen rhs [] := by
  induction rhs with
  | nil => exact .nil
  | cons x rhs ih =>
    rw [allIn_iff] at h
    obtain ⟨A, rfl, hA⟩ := h x (List.mem_cons_self ..)
    have ih' := ih (allIn_iff.mpr fun y hy => h y (List.mem_cons_of_mem _ hy))
    obtain ⟨rhs', hr, hg⟩ := gen_v_iff.mp (hN A hA)
    exact Gen.v (u := []) hr hg ih'

theorem passStep_sound {G : CFG} {acc : List String × Bool} {r : CRule} (hr : r ∈ G.R)
    (h : NullSound G acc.1) : NullSound G (passStep acc r).1 := by
  unfold passStep
  split
  · rename_i hc
    intro A hA
    simp only [List.mem_append, List.mem_singleton] at hA
    rcases hA with hA | rfl
    · exact h A hA
    · exact gen_v_iff.mpr ⟨r.rhs, ⟨r, hr, rfl, rfl⟩, gen_nil_of_allIn h hc.2⟩
  · exact h

theorem foldl_passStep_sound {G : CFG} (R : List CRule) (hR : ∀ r, r ∈ R → r ∈ G.R)
    (acc : List String × Bool) (h : NullSound G acc.1) : NullSound G (R.foldl passStep acc).1 := by
  induction R generalizing acc with
  | nil => exact h
  | cons r R ih =>
    simp only [List.foldl_cons]
    exact ih (fun r hr => hR r (List.mem_cons_of_mem _ hr)) _
      (passStep_sound (hR r (List.mem_cons_self ..)) h)

theorem nullableLoop_sound {G : CFG} (fuel : Nat) (N : List String) (h : NullSound G N) :
    NullSound G (nullableLoop G.R fuel N) := by
  induction fuel generalizing N with
  | zero => exact h
  | succ fuel ih =>
    have hp : NullSound G (nullablePass G.R N).1 := by
      rw [nullablePass_eq]; exact foldl_passStep_sound G.R (fun _ h => h) _ h
    unfold nullableLoop
    cases hq : nullablePass G.R N with
    | mk n' changed =>
      rw [hq] at hp
      simp only
      split
      · exact ih n' hp
      · exact hp

theorem nullable_sound (G : CFG) : NullSound G G.nullable :=
  nullableLoop_sound _ _ (fun _ h => by cases h)

/-- closedness: a rule whose rhs consists of variables of the set has its lhs in the set -/
def NullClosed (R : List CRule) (N : List String) : Prop :=
  ∀ r, r ∈ R → allIn N r.rhs = true → r.lhs ∈ N

/-- all symbols of a form generating `[]` are variables in any closed set -/
theorem closed_complete {G : CFG} {N : List String} (hN : NullClosed G.R N) {f : List Sym}
    {w : List String} (h : G.Gen f w) (hw : w = []) : allIn N f = true := by
  induction h with
  | nil => rfl
  | t _ _ => cases hw
  | @v A rhs ss u w hr _ _ ih1 ih2 =>
    obtain ⟨hu, hw'⟩ := List.append_eq_nil_iff.mp hw
    have h1 := ih1 hu
    have h2 := allIn_iff.mp (ih2 hw')
    obtain ⟨r, hrR, rfl, rfl⟩ := hr
    have hA := hN r hrR h1
    rw [allIn_iff]
    intro x hx
    rcases List.mem_cons.mp hx with rfl | hx
    · exact ⟨_, rfl, hA⟩
    · exact h2 x hx

/-- structural invariant of the accumulated list -/
def NullInv (R : List CRule) (N : List String) : Prop := N.Nodup ∧ ∀ A, A ∈ N → A ∈ R.map (·.lhs)

theorem NullInv.length_le {R : List CRule} {N : List String} (h : NullInv R N) :
    N.length ≤ R.length := by
  have := h.1.length_le_of_subset (fun A hA => h.2 A hA)
  simpa using this

theorem passStep_inv {R : List CRule} {acc : List String × Bool} {r : CRule} (hr : r ∈ R)
    (h : NullInv R acc.1) : NullInv R (passStep acc r).1 := by
  unfold passStep
  split
  · rename_i hc
    refine ⟨?_, ?_⟩
    · rw [List.nodup_append]
      refine ⟨h.1, by simp, ?_⟩
      intro a ha b hb
      simp only [List.mem_singleton] at hb
      subst hb
      rintro rfl
      exact hc.1 ha
    · intro A hA
      simp only [List.mem_append, List.mem_singleton] at hA
      rcases hA with hA | rfl
      · exact h.2 A hA
      · exact List.mem_map.mpr ⟨r, hr, rfl⟩
  · exact h

theorem foldl_passStep_inv {R0 : List CRule} (R : List CRule) (hR : ∀ r, r ∈ R → r ∈ R0)
    (acc : List String × Bool) (h : NullInv R0 acc.1) : NullInv R0 (R.foldl passStep acc).1 := by
  induction R generalizing acc with
  | nil => exact h
  | cons r R ih =>
    simp only [List.foldl_cons]
    exact ih (fun r hr => hR r (List.mem_cons_of_mem _ hr)) _
      (passStep_inv (hR r (List.mem_cons_self ..)) h)

/-- the flag, once set, stays set; the list only grows -/
theorem foldl_passStep_true (R : List CRule) (N : List String) :
    (R.foldl passStep (N, true)).2 = true ∧ N.length ≤ (R.foldl passStep (N, true)).1.length := by
  induction R generalizing N with
  | nil => simp
  | cons r R ih =>
    simp only [List.foldl_cons]
    by_cases hc : r.lhs ∉ N ∧ allIn N r.rhs = true
    · have hs : passStep (N, true) r = (N ++ [r.lhs], true) := by
        unfold passStep; rw [if_pos hc]
      rw [hs]
      have := ih (N ++ [r.lhs])
      simp only [List.length_append, List.length_singleton] at this
      exact ⟨this.1, by omega⟩
    · have hs : passStep (N, true) r = (N, true) := by
        unfold passStep; rw [if_neg hc]
      rw [hs]
      exact ih N

/-- outcome of one pass: either nothing happened and the set is closed, or it grew -/
theorem foldl_passStep_false (R : List CRule) (N : List String) :
    ((R.foldl passStep (N, false)).2 = false ∧ (R.foldl passStep (N, false)).1 = N ∧
        ∀ r, r ∈ R → allIn N r.rhs = true → r.lhs ∈ N) ∨
      ((R.foldl passStep (N, false)).2 = true ∧ N.length < (R.foldl passStep (N, false)).1.length) := by
  induction R generalizing N with
  | nil => left; simp
  | cons r R ih =>
    simp only [List.foldl_cons]
    by_cases hc : r.lhs ∉ N ∧ allIn N r.rhs = true
    · right
      have hs : passStep (N, false) r = (N ++ [r.lhs], true) := by
        unfold passStep; rw [if_pos hc]
      rw [hs]
      have := foldl_passStep_true R (N ++ [r.lhs])
      simp only [List.length_append, List.length_singleton] at this
      exact ⟨this.1, by omega⟩
    · have hs : passStep (N, false) r = (N, false) := by
        unfold passStep; rw [if_neg hc]
      rw [hs]
      rcases ih N with ⟨h1, h2, h3⟩ | h
      · left
        refine ⟨h1, h2, ?_⟩
        intro r' hr' hall
        rcases List.mem_cons.mp hr' with rfl | hr'
        · apply Classical.byContradiction
          intro hn
          exact hc ⟨hn, hall⟩
        · exact h3 r' hr' hall
      · exact Or.inr h

theorem nullableLoop_closed (R : List CRule) (fuel : Nat) (N : List String) (hinv : NullInv R N)
    (hfuel : R.length + 1 ≤ fuel + N.length) : NullClosed R (nullableLoop R fuel N) := by
  induction fuel generalizing N with
  | zero => have := hinv.length_le; omega
  | succ fuel ih =>
    have hinv' : NullInv R (nullablePass R N).1 := by
      rw [nullablePass_eq]; exact foldl_passStep_inv R (fun _ h => h) _ hinv
    have hcase := foldl_passStep_false R N
    rw [← nullablePass_eq] at hcase
    unfold nullableLoop
    cases hq : nullablePass R N with
    | mk n' changed =>
      rw [hq] at hinv' hcase
      simp only at hinv' hcase ⊢
      rcases hcase with ⟨h1, h2, h3⟩ | ⟨h1, h2⟩
      · subst h1 h2
        simp only [Bool.false_eq_true, if_false]
        exact h3
      · subst h1
        simp only [if_true]
        exact ih n' hinv' (by omega)

theorem nullable_closed (G : CFG) : NullClosed G.R G.nullable :=
  nullableLoop_closed G.R _ [] ⟨List.nodup_nil, fun _ h => by cases h⟩ (by simp)

theorem mem_nullable_iff (G : CFG) (A : String) : A ∈ G.nullable ↔ G.Gen [.v A] [] := by
  constructor
  · exact nullable_sound G A
  · intro h
    obtain ⟨B, hB, hmem⟩ := allIn_iff.mp (closed_complete (nullable_closed G) h rfl) (.v A)
      (List.mem_singleton.mpr rfl)
    cases hB
    exact hmem

/-- a form generates `[]` iff it consists of nullable variables -/
theorem gen_nil_iff_allIn (G : CFG) (f : List Sym) : G.Gen f [] ↔ allIn G.nullable f = true :=
  ⟨fun h => closed_complete (nullable_closed G) h rfl, gen_nil_of_allIn (nullable_sound G)⟩

/-! ### ε-rule removal: deleting nullable variables from a form -/

/-- `Del W α β`: `β` is obtained from `α` by deleting some occurrences of variables in `W` -/
inductive Del (W : List String) : List Sym → List Sym → Prop
  | nil : Del W [] []
  | keep (x : Sym) {α β : List Sym} : Del W α β → Del W (x :: α) (x :: β)
  | drop {A : String} {α β : List Sym} : A ∈ W → Del W α β → Del W (.v A :: α) β

theorem mem_expandNullable_iff (W : List String) (α β : List Sym) :
    β ∈ expandNullable W α ↔ Del W α β := by
  induction α generalizing β with
  | nil =>
    simp only [expandNullable, List.mem_singleton]
    constructor
    · rintro rfl; exact .nil
    · intro h; cases h; rfl
  | cons x α ih =>
    have hkeep : β ∈ (expandNullable W α).map (x :: ·) ↔ ∃ β', β = x :: β' ∧ Del W α β' := by
      simp only [List.mem_map]
      constructor
      · rintro ⟨β', h, rfl⟩; exact ⟨β', rfl, (ih β').mp h⟩
      · rintro ⟨β', rfl, h⟩; exact ⟨β', (ih β').mpr h, rfl⟩
    cases x with
    | t a =>
      simp only [expandNullable]
      rw [hkeep]
      constructor
      · rintro ⟨β', rfl, h⟩; exact .keep _ h
      · intro h; cases h with
        | keep _ h => exact ⟨_, rfl, h⟩
    | v A =>
      simp only [expandNullable]
      split
      · rename_i hA
        rw [List.mem_append, hkeep, ih]
        constructor
        · rintro (⟨β', rfl, h⟩ | h)
          · exact .keep _ h
          · exact .drop hA h
        · intro h; cases h with
          | keep _ h => exact Or.inl ⟨_, rfl, h⟩
          | drop _ h => exact Or.inr h
      · rename_i hA
        rw [hkeep]
        constructor
        · rintro ⟨β', rfl, h⟩; exact .keep _ h
        · intro h; cases h with
          | keep _ h => exact ⟨_, rfl, h⟩
          | drop hA' _ => exact absurd hA' hA

theorem Del.mem {W : List String} {α β : List Sym} (h : Del W α β) : ∀ x, x ∈ β → x ∈ α := by
  induction h with
  | nil => intro x hx; exact hx
  | keep y _ ih =>
    intro x hx
    rcases List.mem_cons.mp hx with rfl | hx
    · exact List.mem_cons_self ..
    · exact List.mem_cons_of_mem _ (ih x hx)
  | drop _ _ ih => intro x hx; exact List.mem_cons_of_mem _ (ih x hx)

theorem Del.nil_iff {W : List String} {α : List Sym} : Del W α [] ↔ allIn W α = true := by
  induction α with
  | nil => exact ⟨fun _ => rfl, fun _ => .nil⟩
  | cons x α ih =>
    rw [allIn_iff]
    constructor
    · intro h
      cases h with
      | drop hA h =>
        intro y hy
        rcases List.mem_cons.mp hy with rfl | hy
        · exact ⟨_, rfl, hA⟩
        · exact allIn_iff.mp (ih.mp h) y hy
    · intro h
      obtain ⟨A, rfl, hA⟩ := h x (List.mem_cons_self ..)
      exact .drop hA (ih.mpr (allIn_iff.mpr fun y hy => h y (List.mem_cons_of_mem _ hy)))

/-- re-inserting variables that generate `[]` -/
theorem Del.gen {G : CFG} {W : List String} (hW : NullSound G W) {α β : List Sym} (h : Del W α β)
    {w : List String} (hg : G.Gen β w) : G.Gen α w := by
  induction h generalizing w with
  | nil => exact hg
  | @keep x α β _ ih =>
    obtain ⟨w1, w2, rfl, g1, g2⟩ := gen_split (f1 := [x]) (f2 := β) hg
    exact gen_append (f1 := [x]) g1 (ih g2)
  | @drop A α β hA _ ih =>
    exact gen_append (f1 := [.v A]) (w1 := []) (hW A hA) (ih hg)

/-! ### ε-rule removal: the rule set of the result -/

theorem renumber_aux_mem (start : Nat) (rs : List CRule) (k : Nat) (r' : CRule) :
    r' ∈ (rs.zipIdx k).map (fun (p : CRule × Nat) => ({ p.1 with aid := start + p.2 } : CRule)) ↔
      ∃ i, ∃ h : i < rs.length, r' = { rs[i] with aid := start + (k + i) } := by
  induction rs generalizing k with
  | nil => simp
  | cons r rs ih =>
    rw [List.zipIdx_cons, List.map_cons, List.mem_cons, ih]
    constructor
    · rintro (rfl | ⟨i, hi, rfl⟩)
      · exact ⟨0, by simp, rfl⟩
      · refine ⟨i + 1, by simpa using hi, ?_⟩
        simp only [List.getElem_cons_succ]
        congr 2; omega
    · rintro ⟨i, hi, rfl⟩
      cases i with
      | zero => left; rfl
      | succ i =>
        right
        refine ⟨i, by simpa using hi, ?_⟩
        simp only [List.getElem_cons_succ]
        congr 2; omega

theorem mem_renumber (start : Nat) (rs : List CRule) (r' : CRule) :
    r' ∈ renumber start rs ↔ ∃ i, ∃ h : i < rs.length, r' = { rs[i] with aid := start + i } := by
  have := renumber_aux_mem start rs 0 r'
  simp only [Nat.zero_add] at this
  exact this

theorem renumber_pairs (start : Nat) (rs : List CRule) (A : String) (β : List Sym) :
    (∃ r, r ∈ renumber start rs ∧ r.lhs = A ∧ r.rhs = β) ↔ ∃ r, r ∈ rs ∧ r.lhs = A ∧ r.rhs = β := by
  constructor
  · rintro ⟨r, hr, h1, h2⟩
    obtain ⟨i, hi, rfl⟩ := (mem_renumber _ _ _).mp hr
    exact ⟨rs[i], List.getElem_mem hi, h1, h2⟩
  · rintro ⟨r, hr, h1, h2⟩
    obtain ⟨i, hi, rfl⟩ := List.getElem_of_mem hr
    exact ⟨_, (mem_renumber _ _ _).mpr ⟨i, hi, rfl⟩, h1, h2⟩

theorem renumber_aid_inj (start : Nat) (rs : List CRule) {r s : CRule}
    (hr : r ∈ renumber start rs) (hs : s ∈ renumber start rs) (h : r.aid = s.aid) : r = s := by
  obtain ⟨i, hi, rfl⟩ := (mem_renumber _ _ _).mp hr
  obtain ⟨j, hj, rfl⟩ := (mem_renumber _ _ _).mp hs
  simp only at h
  have : i = j := by omega
  subst this
  rfl

theorem dedupRules_pairs (seen rs : List CRule) (A : String) (β : List Sym) :
    (∃ r, r ∈ dedupRules seen rs ∧ r.lhs = A ∧ r.rhs = β) ↔
      (∃ r, r ∈ seen ∧ r.lhs = A ∧ r.rhs = β) ∨ (∃ r, r ∈ rs ∧ r.lhs = A ∧ r.rhs = β) := by
  induction rs generalizing seen with
  | nil => simp [dedupRules]
  | cons r rs ih =>
    unfold dedupRules
    split
    · rename_i hany
      rw [ih]
      simp only [List.any_eq_true, sameRule, Bool.and_eq_true, decide_eq_true_eq] at hany
      obtain ⟨s, hs, h1, h2⟩ := hany
      constructor
      · rintro (h | ⟨r', hr', h⟩)
        · exact Or.inl h
        · exact Or.inr ⟨r', List.mem_cons_of_mem _ hr', h⟩
      · rintro (h | ⟨r', hr', h3, h4⟩)
        · exact Or.inl h
        · rcases List.mem_cons.mp hr' with rfl | hr'
          · exact Or.inl ⟨s, hs, h1 ▸ h3, h2 ▸ h4⟩
          · exact Or.inr ⟨r', hr', h3, h4⟩
    · rw [ih]
      simp only [List.mem_append, List.mem_cons, List.not_mem_nil, or_false]
      constructor
      · rintro (⟨r', hr' | rfl, h⟩ | ⟨r', hr', h⟩)
        · exact Or.inl ⟨r', hr', h⟩
        · exact Or.inr ⟨r', Or.inl rfl, h⟩
        · exact Or.inr ⟨r', Or.inr hr', h⟩
      · rintro (⟨r', hr', h⟩ | ⟨r', rfl | hr', h⟩)
        · exact Or.inl ⟨r', Or.inl hr', h⟩
        · exact Or.inl ⟨r', Or.inr rfl, h⟩
        · exact Or.inr ⟨r', hr', h⟩

theorem removeEps_S (G : CFG) : G.removeEps.S = G.S := rfl
theorem removeEps_V (G : CFG) : G.removeEps.V = G.V := rfl
theorem removeEps_Sigma (G : CFG) : G.removeEps.Sigma = G.Sigma := rfl

theorem epsFilter_iff (W : List String) (S A : String) (β : List Sym) :
    (!(β.isEmpty && decide (A ∈ W) && decide (A ≠ S))) = true ↔ ¬ (β = [] ∧ A ∈ W ∧ A ≠ S) := by
  simp only [Bool.not_eq_true', Bool.and_eq_false_iff, List.isEmpty_eq_false_iff,
    decide_eq_false_iff_not, ne_eq]
  constructor
  · rintro ((h | h) | h) ⟨h1, h2, h3⟩
    · exact h h1
    · exact h h2
    · exact h h3
  · intro h
    by_cases h1 : β = []
    · by_cases h2 : A ∈ W
      · by_cases h3 : A = S
        · exact Or.inr (fun hn => hn h3)
        · exact absurd ⟨h1, h2, h3⟩ h
      · exact Or.inl (Or.inr h2)
    · exact Or.inl (Or.inl h1)

/-- the productions of `removeEps G` -/
theorem removeEps_hasRule (G : CFG) (A : String) (β : List Sym) :
    G.removeEps.HasRule A β ↔
      ∃ α, G.HasRule A α ∧ Del G.nullable α β ∧ ¬ (β = [] ∧ A ∈ G.nullable ∧ A ≠ G.S) := by
  unfold HasRule removeEps
  simp only
  rw [renumber_pairs, dedupRules_pairs]
  simp only [List.not_mem_nil, false_and, exists_false, false_or, List.mem_flatMap, List.mem_map,
    List.mem_filter, mem_expandNullable_iff, epsFilter_iff]
  constructor
  · rintro ⟨r, ⟨r0, hr0, β', ⟨hdel, hfil⟩, rfl⟩, rfl, rfl⟩
    exact ⟨r0.rhs, ⟨r0, hr0, rfl, rfl⟩, hdel, hfil⟩
  · rintro ⟨α, ⟨r0, hr0, rfl, rfl⟩, hdel, hfil⟩
    exact ⟨⟨r0.lhs, 0, β⟩, ⟨r0, hr0, β, ⟨hdel, hfil⟩, rfl⟩, rfl, rfl⟩

theorem removeEps_aliasOK (G : CFG) : AliasOK G.removeEps := by
  intro r s hr hs h
  rw [renumber_aid_inj _ _ hr hs h]

theorem removeEps_valid (G : CFG) (hv : G.valid = true) : G.removeEps.valid = true := by
  rw [valid_iff_hasRule] at hv ⊢
  intro A β h
  obtain ⟨α, hα, hdel, _⟩ := (removeEps_hasRule G A β).mp h
  obtain ⟨h1, h2⟩ := hv A α hα
  refine ⟨h1, ?_⟩
  intro x hx
  have := h2 x (hdel.mem x hx)
  cases x <;> exact this

theorem removeEps_noEps (G : CFG) : NoEpsExceptStart G.removeEps := by
  intro r hr he
  have h : G.removeEps.HasRule r.lhs [] := ⟨r, hr, rfl, he⟩
  obtain ⟨α, hα, hdel, hfil⟩ := (removeEps_hasRule G _ _).mp h
  have hnull : r.lhs ∈ G.nullable :=
    (mem_nullable_iff G _).mpr
      (gen_v_iff.mpr ⟨α, hα, gen_nil_of_allIn (nullable_sound G) (Del.nil_iff.mp hdel)⟩)
  rw [removeEps_S]
  apply Classical.byContradiction
  intro hne
  exact hfil ⟨rfl, hnull, hne⟩

theorem removeEps_startNotOnRhs (G : CFG) (h : StartNotOnRhs G) : StartNotOnRhs G.removeEps := by
  intro r hr hmem
  have hrule : G.removeEps.HasRule r.lhs r.rhs := ⟨r, hr, rfl, rfl⟩
  obtain ⟨α, ⟨r0, hr0, _, rfl⟩, hdel, _⟩ := (removeEps_hasRule G _ _).mp hrule
  exact h r0 hr0 (hdel.mem _ hmem)

/-! ### ε-rule removal: the language -/

theorem removeEps_gen_sound (G : CFG) {f : List Sym} {w : List String} (h : G.removeEps.Gen f w) :
    G.Gen f w := by
  induction h with
  | nil => exact .nil
  | t _ ih => exact .t ih
  | v hr _ _ ih1 ih2 =>
    obtain ⟨α, hα, hdel, _⟩ := (removeEps_hasRule G _ _).mp hr
    exact .v hα (hdel.gen (nullable_sound G) ih1) ih2

/-- completeness on forms: delete exactly the variables that generate `[]` in the derivation -/
theorem removeEps_gen_complete (G : CFG) {f : List Sym} {w : List String} (h : G.Gen f w) :
    ∃ f', Del G.nullable f f' ∧ G.removeEps.Gen f' w := by
  induction h with
  | nil => exact ⟨[], .nil, .nil⟩
  | @t a ss w _ ih =>
    obtain ⟨f', hd, hg⟩ := ih
    exact ⟨.t a :: f', .keep _ hd, .t hg⟩
  | @v A rhs ss u w hr h1 _ ih1 ih2 =>
    obtain ⟨rhs', hd1, hg1⟩ := ih1
    obtain ⟨ss', hd2, hg2⟩ := ih2
    by_cases hu : u = []
    · subst hu
      have hA : A ∈ G.nullable := (mem_nullable_iff G A).mpr (gen_v_iff.mpr ⟨rhs, hr, h1⟩)
      exact ⟨ss', .drop hA hd2, by simpa using hg2⟩
    · refine ⟨.v A :: ss', .keep _ hd2, .v ?_ hg1 hg2⟩
      refine (removeEps_hasRule G A rhs').mpr ⟨rhs, hr, hd1, ?_⟩
      rintro ⟨rfl, _, _⟩
      exact hu (gen_nil_iff.mp hg1)

theorem removeEps_lang (G : CFG) (w : List String) : G.removeEps.Lang w ↔ G.Lang w := by
  unfold Lang
  rw [removeEps_S]
  constructor
  · exact removeEps_gen_sound G
  · intro h
    obtain ⟨f', hd, hg⟩ := removeEps_gen_complete G h
    cases hd with
    | keep _ hd' =>
      cases hd'
      exact hg
    | drop hS hd' =>
      cases hd'
      rw [gen_nil_iff.mp hg]
      obtain ⟨rhs, hr, hgr⟩ := gen_v_iff.mp ((mem_nullable_iff G G.S).mp hS)
      have hall := (gen_nil_iff_allIn G rhs).mp hgr
      refine gen_v_iff.mpr ⟨[], (removeEps_hasRule G G.S []).mpr ⟨rhs, hr, Del.nil_iff.mpr hall, ?_⟩, .nil⟩
      rintro ⟨_, _, h3⟩
      exact h3 rfl

end CFG
end Gamba
