/-
  Gamba.Proofs.C16a — the DFA text format: unpacking `parseDfa`, the builder checks, and the
  round trip `parseDfa (printDfa D)`.
-/
import Gamba.Proofs.TextBasic
namespace Gamba
open Parse Text

/-! ### the constructor checks -/

theorem DFA.checked_ok {σ τ : Type} [DecidableEq σ] [DecidableEq τ] {X D : DFA σ τ} (h : DFA.checked X = .ok D) :
    D = X ∧ X.valid = true := by
  unfold DFA.checked at h
  split at h
  · cases h; exact ⟨rfl, by assumption⟩
  · cases h

theorem NFA.checked_ok {σ τ : Type} [DecidableEq σ] [DecidableEq τ] {X D : NFA σ τ} (h : NFA.checked X = .ok D) :
    D = X ∧ X.valid = true := by
  unfold NFA.checked at h
  split at h
  · cases h; exact ⟨rfl, by assumption⟩
  · cases h

theorem PDA.checked_ok {σ τ γ : Type} [DecidableEq σ] [DecidableEq τ] [DecidableEq γ] {X D : PDA σ τ γ}
    (h : PDA.checked X = .ok D) : D = X ∧ X.valid = true := by
  unfold PDA.checked at h
  split at h
  · cases h; exact ⟨rfl, by assumption⟩
  · cases h

theorem Parse.TM.checked_ok {X D : TM String String} (h : Parse.TM.checked X = .ok D) : D = X ∧ X.valid = true := by
  unfold Parse.TM.checked at h
  split at h
  · cases h; exact ⟨rfl, by assumption⟩
  · cases h

/-! ### `commonChecks`, `parseDfa` unpacked -/

theorem Parse.commonChecks_ok {A0 A : Raw} {extra : List String} {ok : Word → Bool} (h : commonChecks A0 extra ok = .ok A) :
    A = { A0 with states := if A0.states.isEmpty then dedup (usedStates A0 ++ extra) else A0.states } ∧
    (∀ q, q ∈ usedStates A0 → q ∈ A.states) ∧ (∀ q, q ∈ A.states → ok q.toList = true) ∧ A0.initial.length = 1 := by
  unfold commonChecks at h
  simp only at h
  generalize (if A0.states.isEmpty then dedup (usedStates A0 ++ extra) else A0.states) = S at h ⊢
  split at h
  · cases h
  · split at h
    · cases h
    · split at h
      · cases h
      · rename_i h1 h2 h3
        cases h
        refine ⟨rfl, ?_, ?_, ?_⟩
        · simpa [ssubset_iff] using h1
        · simpa using h2
        · simpa using h3

/-- the checks pass as soon as the declared states are non-empty, cover the used ones, and are all well-formed -/
theorem Parse.commonChecks_eq_ok {A0 : Raw} {ok : Word → Bool} (extra : List String) (hne : A0.states ≠ [])
    (h1 : ∀ q, q ∈ usedStates A0 → q ∈ A0.states) (h2 : ∀ q, q ∈ A0.states → ok q.toList = true)
    (h3 : A0.initial.length = 1) : commonChecks A0 extra ok = .ok A0 := by
  unfold commonChecks
  have he : A0.states.isEmpty = false := by cases hA : A0.states <;> simp_all
  have e1 : ssubset (usedStates A0) A0.states = true := ssubset_iff.mpr h1
  have e2 : (A0.states.all fun s => ok s.toList) = true := List.all_eq_true.mpr h2
  simp [he, e1, e2, h3]

theorem Parse.parseDfa_ok_unpack {text : List Char} {D : DFA String String} (h : Parse.parseDfa text = .ok D) :
    ∃ A0 A Sigma, parseRaw .dfa isWord text = .ok A0 ∧ commonChecks A0 [] isWord = .ok A ∧
      parseDfa.hasDupPairs (A.transitions.map fun t => (t.1, str t.2.1)) = false ∧
      getSymbolSet A "input_symbols" (dedup (A.transitions.map fun t => str t.2.1)) = .ok Sigma ∧
      wordsOk Sigma = true ∧
      (A.states.all fun p => Sigma.all fun a => decide ((p, a) ∈ A.transitions.map fun t => (t.1, str t.2.1))) = true ∧
      DFA.checked { Q := A.states, Sigma := Sigma, delta := A.transitions.map fun t => ((t.1, str t.2.1), t.2.2),
                    q0 := initialOf A, F := A.final } = .ok D := by
  unfold parseDfa at h
  simp only [bind, Except.bind] at h
  repeat' split at h
  all_goals first | cases h | skip
  rename_i A0 h0 _ A h1 h2 _ Sigma h3 h4 h5
  exact ⟨A0, A, Sigma, h0, h1, by simpa using h2, h3, by simpa using h4, by simpa using h5, h⟩

theorem Parse.parseDfa_eq_of {text : List Char} {A0 A : Raw} {Sigma : List String}
    (h0 : parseRaw .dfa isWord text = .ok A0) (h1 : commonChecks A0 [] isWord = .ok A)
    (h2 : parseDfa.hasDupPairs (A.transitions.map fun t => (t.1, str t.2.1)) = false)
    (h3 : getSymbolSet A "input_symbols" (dedup (A.transitions.map fun t => str t.2.1)) = .ok Sigma)
    (h4 : wordsOk Sigma = true)
    (h5 : (A.states.all fun p => Sigma.all fun a => decide ((p, a) ∈ A.transitions.map fun t => (t.1, str t.2.1))) = true) :
    Parse.parseDfa text =
      DFA.checked { Q := A.states, Sigma := Sigma, delta := (A.transitions.map fun t => ((t.1, str t.2.1), t.2.2)),
                    q0 := initialOf A, F := A.final } := by
  unfold parseDfa
  simp only [bind, Except.bind, h0, h1, h2, h3, h4, h5]
  simp

theorem Parse.hasDupPairs_eq_false_iff {l : List (String × String)} : parseDfa.hasDupPairs l = false ↔ l.Nodup := by
  simp [parseDfa.hasDupPairs, dedup_length_eq_iff]

/-! ### step 1 of the round trip: the raw parse of `printDfa D` -/

/-- names that survive the DFA text format: `\w+`, not a keyword of the format -/
def Parse.DfaNameOk (s : String) : Prop :=
  Parse.isWord s.toList = true ∧ s ∉ ["states", "final", "initial", "input_symbols"]

namespace Parse

/-- the `(p, q, a)` triples `print_dfa` groups into lines -/
def dfaTrans (D : DFA String String) : List (String × String × String) := D.delta.map fun e => (e.1.1, e.2, e.1.2)

/-- what the line parser reads back from `printDfa D` -/
def dfaRaw (D : DFA String String) : Raw :=
  { states := sortStrings (dedup D.Q), final := sortStrings (dedup D.F), initial := [D.q0],
    items := [("states", sortStrings (dedup D.Q)), ("final", sortStrings (dedup D.F)), ("initial", [D.q0]),
              ("input_symbols", sortStrings (dedup D.Sigma))],
    transitions := transOf (dfaTrans D) }

theorem printDfa_toList (D : DFA String String) :
    (printDfa D).toList = strip ("\n".intercalate
      (["states" ++ " " ++ joinSp (sortStrings (dedup D.Q)), "final" ++ " " ++ joinSp (sortStrings (dedup D.F)),
        "initial" ++ " " ++ joinSp [D.q0], "input_symbols" ++ " " ++ joinSp (sortStrings (dedup D.Sigma))] ++
        transLines (dfaTrans D))).toList := by
  unfold printDfa
  rw [toList_str]
  have e1 : ("states " : String) = "states" ++ " " := by decide
  have e2 : ("final " : String) = "final" ++ " " := by decide
  have e3 : ("initial " : String) = "initial" ++ " " := by decide
  have e4 : ("input_symbols " : String) = "input_symbols" ++ " " := by decide
  have e5 : joinSp [D.q0] = D.q0 := by simp [joinSp]
  rw [e1, e2, e3, e4, e5]
  rfl

theorem dfaTrans_ok {D : DFA String String} (hv : D.valid = true) (hQ : ∀ q, q ∈ D.Q → Parse.DfaNameOk q)
    (hS : ∀ a, a ∈ D.Sigma → Parse.isWord a.toList = true) : ∀ t, t ∈ dfaTrans D → TransOk .dfa t := by
  intro t ht
  obtain ⟨⟨⟨p, a⟩, q⟩, he, rfl⟩ := List.mem_map.mp ht
  obtain ⟨hp, ha, hq⟩ := DFA.valid_closed hv he
  refine ⟨(hQ p hp).1, (hQ p hp).2, (hQ q hq).1, isWord_token (hS a ha), ?_⟩
  have := isWord_ne_nil (hS a ha)
  simp only [labelOk]
  cases h : a.toList with
  | nil => exact absurd h this
  | cons => rfl

theorem parse_print_dfa_raw (D : DFA String String) (hv : D.valid = true) (hQ : ∀ q, q ∈ D.Q → Parse.DfaNameOk q)
    (hS : ∀ a, a ∈ D.Sigma → Parse.isWord a.toList = true) :
    parseRaw .dfa isWord (printDfa D).toList = .ok (dfaRaw D) := by
  obtain ⟨hq0, hF, hcl, htot⟩ := (DFA.valid_iff D).mp hv
  have hts := dfaTrans_ok hv hQ hS
  have tokQ : ∀ n, n ∈ sortStrings (dedup D.Q) → Token n.toList := fun n hn =>
    isWord_token (hQ n (mem_sortStrings_dedup.mp hn)).1
  have tokF : ∀ n, n ∈ sortStrings (dedup D.F) → Token n.toList := fun n hn =>
    isWord_token (hQ n (hF n (mem_sortStrings_dedup.mp hn))).1
  have tokS : ∀ n, n ∈ sortStrings (dedup D.Sigma) → Token n.toList := fun n hn =>
    isWord_token (hS n (mem_sortStrings_dedup.mp hn))
  have tok0 : ∀ n, n ∈ [D.q0] → Token n.toList := fun n hn => by
    simp only [List.mem_singleton] at hn; subst hn; exact isWord_token (hQ _ hq0).1
  have k1 : Token "states".toList := isWord_token (by decide)
  have k2 : Token "final".toList := isWord_token (by decide)
  have k3 : Token "initial".toList := isWord_token (by decide)
  have k4 : Token "input_symbols".toList := isWord_token (by decide)
  rw [printDfa_toList, parseRaw_strip, parseRaw_eq, splitOn_intercalate_newline (by simp)]
  · rw [List.map_append, lineWords_append]
    simp only [List.map_cons, List.map_nil]
    rw [lineWords_of_ne]
    · simp only [List.map_cons, List.map_nil, splitWs_kw_joinSp k1 tokQ, splitWs_kw_joinSp k2 tokF,
        splitWs_kw_joinSp k3 tok0, splitWs_kw_joinSp k4 tokS]
      have okQ : ∀ n, n ∈ sortStrings (dedup D.Q) → isWord n.toList = true := fun n hn =>
        (hQ n (mem_sortStrings_dedup.mp hn)).1
      have okF : ∀ n, n ∈ sortStrings (dedup D.F) → isWord n.toList = true := fun n hn =>
        (hQ n (hF n (mem_sortStrings_dedup.mp hn))).1
      have ok0 : ∀ n, n ∈ [D.q0] → isWord n.toList = true := fun n hn => by
        simp only [List.mem_singleton] at hn; subst hn; exact (hQ _ hq0).1
      have hneQ : sortStrings (dedup D.Q) ≠ [] := by
        intro e
        have : D.q0 ∈ sortStrings (dedup D.Q) := mem_sortStrings_dedup.mpr hq0
        rw [e] at this; cases this
      simp only [List.cons_append, List.nil_append]
      refine (parseWordLines_cons_ok _ _ (parseWords_states .dfa isWord {} (str_toList _) rfl
        (nodup_sortStrings_dedup _) hneQ okQ) _).trans ?_
      refine (parseWordLines_cons_ok _ _ (parseWords_final .dfa isWord _ (str_toList _) (by rfl)
        (nodup_sortStrings_dedup _) okF) _).trans ?_
      refine (parseWordLines_cons_ok _ _ (parseWords_initial .dfa isWord _ (names := [D.q0]) (str_toList _) (by rfl)
        (by simp) ok0) _).trans ?_
      refine (parseWordLines_cons_ok _ _ (parseWords_keyword .dfa isWord _ (args := sortStrings (dedup D.Sigma))
        (str_toList _) (by decide) (by rfl)) _).trans ?_
      rw [parseWordLines_transLines .dfa _ hts]
      rfl
    · intro l hl
      simp only [List.mem_cons, List.not_mem_nil, or_false] at hl
      rcases hl with rfl | rfl | rfl | rfl
      · rw [splitWs_kw_joinSp k1 tokQ]; simp
      · rw [splitWs_kw_joinSp k2 tokF]; simp
      · rw [splitWs_kw_joinSp k3 tok0]; simp
      · rw [splitWs_kw_joinSp k4 tokS]; simp
  · intro l hl
    rcases List.mem_append.mp hl with hl | hl
    · simp only [List.mem_cons, List.not_mem_nil, or_false] at hl
      rcases hl with rfl | rfl | rfl | rfl
      · exact newline_not_mem_kw_joinSp k1.newline_not_mem (fun n hn => (tokQ n hn).newline_not_mem)
      · exact newline_not_mem_kw_joinSp k2.newline_not_mem (fun n hn => (tokF n hn).newline_not_mem)
      · exact newline_not_mem_kw_joinSp k3.newline_not_mem (fun n hn => (tok0 n hn).newline_not_mem)
      · exact newline_not_mem_kw_joinSp k4.newline_not_mem (fun n hn => (tokS n hn).newline_not_mem)
    · exact newline_not_mem_transLines hts l hl

/-! ### step 2: the builder checks on that raw parse -/

theorem dfaRaw_delta_perm (D : DFA String String) :
    ((dfaRaw D).transitions.map fun t => ((t.1, str t.2.1), t.2.2)).Perm D.delta := by
  have h := (transOf_perm (dfaTrans D)).map (fun t => ((t.1, str t.2.1), t.2.2))
  have e : ((dfaTrans D).map (fun t => (t.1, t.2.2.toList, t.2.1))).map (fun t => ((t.1, str t.2.1), t.2.2)) =
      D.delta := by
    rw [dfaTrans, List.map_map, List.map_map]
    conv => rhs; rw [← List.map_id D.delta]
    apply List.map_congr_left
    intro e _
    simp
  rw [e] at h
  exact h

theorem dfaRaw_keys_perm (D : DFA String String) :
    ((dfaRaw D).transitions.map fun t => (t.1, str t.2.1)).Perm (D.delta.map (·.1)) := by
  have := (dfaRaw_delta_perm D).map (·.1)
  rw [List.map_map] at this
  exact this

/-- the round trip, with the parsed DFA described explicitly -/
theorem parse_print_dfa_explicit (D : DFA String String) (hv : D.valid = true) (hk : (D.delta.map (·.1)).Nodup)
    (hQ : ∀ q, q ∈ D.Q → Parse.DfaNameOk q) (hS : ∀ a, a ∈ D.Sigma → Parse.isWord a.toList = true) :
    ∃ D', Parse.parseDfa (Parse.printDfa D).toList = .ok D' ∧ D'.valid = true ∧
      D'.Q = sortStrings (dedup D.Q) ∧ D'.Sigma = dedup (sortStrings (dedup D.Sigma)) ∧ D'.q0 = D.q0 ∧
      D'.F = sortStrings (dedup D.F) ∧ D'.delta.Perm D.delta := by
  obtain ⟨hq0, hF, hcl, htot⟩ := (DFA.valid_iff D).mp hv
  have h0 := parse_print_dfa_raw D hv hQ hS
  have hperm := dfaRaw_delta_perm D
  have hkeys := dfaRaw_keys_perm D
  have hmemT : ∀ t, t ∈ (dfaRaw D).transitions → ((t.1, str t.2.1), t.2.2) ∈ D.delta := by
    intro t ht
    exact hperm.mem_iff.mp (List.mem_map.mpr ⟨t, ht, rfl⟩)
  -- the shared builder checks
  have h1 : commonChecks (dfaRaw D) [] isWord = .ok (dfaRaw D) := by
    apply commonChecks_eq_ok
    · intro e
      have : D.q0 ∈ sortStrings (dedup D.Q) := mem_sortStrings_dedup.mpr hq0
      have e' : sortStrings (dedup D.Q) = [] := e
      rw [e'] at this; cases this
    · intro q hq
      show q ∈ sortStrings (dedup D.Q)
      rw [mem_sortStrings_dedup]
      simp only [usedStates, mem_dedup, List.mem_append, List.mem_flatMap] at hq
      rcases hq with (hq | hq) | ⟨t, ht, hq⟩
      · have : q ∈ [D.q0] := hq
        simp only [List.mem_singleton] at this; subst this; exact hq0
      · have : q ∈ sortStrings (dedup D.F) := hq
        exact hF q (mem_sortStrings_dedup.mp this)
      · have := hcl _ _ _ (hmemT t ht)
        simp only [List.mem_cons, List.not_mem_nil, or_false] at hq
        rcases hq with rfl | rfl
        · exact this.1
        · exact this.2.2
    · intro q hq
      have : q ∈ sortStrings (dedup D.Q) := hq
      exact (hQ q (mem_sortStrings_dedup.mp this)).1
    · rfl
  have h2 : parseDfa.hasDupPairs ((dfaRaw D).transitions.map fun t => (t.1, str t.2.1)) = false :=
    hasDupPairs_eq_false_iff.mpr (hkeys.nodup_iff.mpr hk)
  have h3 : getSymbolSet (dfaRaw D) "input_symbols" (dedup ((dfaRaw D).transitions.map fun t => str t.2.1)) =
      .ok (dedup (sortStrings (dedup D.Sigma))) := by
    have hl : (dfaRaw D).items.lookup "input_symbols" = some (sortStrings (dedup D.Sigma)) := by rfl
    have hsub : ssubset (dedup ((dfaRaw D).transitions.map fun t => str t.2.1)) (sortStrings (dedup D.Sigma)) = true := by
      rw [ssubset_iff]
      intro a ha
      rw [mem_dedup] at ha
      obtain ⟨t, ht, rfl⟩ := List.mem_map.mp ha
      exact mem_sortStrings_dedup.mpr (hcl _ _ _ (hmemT t ht)).2.1
    unfold getSymbolSet
    rw [hl]
    simp [hsub]
  have h4 : wordsOk (dedup (sortStrings (dedup D.Sigma))) = true := by
    simp only [wordsOk, List.all_eq_true]
    intro a ha
    exact hS a (by simpa using ha)
  have h5 : ((dfaRaw D).states.all fun p => (dedup (sortStrings (dedup D.Sigma))).all fun a =>
      decide ((p, a) ∈ (dfaRaw D).transitions.map fun t => (t.1, str t.2.1))) = true := by
    simp only [List.all_eq_true, decide_eq_true_eq]
    intro p hp a ha
    have hp' : p ∈ D.Q := by
      have : p ∈ sortStrings (dedup D.Q) := hp
      exact mem_sortStrings_dedup.mp this
    have ha' : a ∈ D.Sigma := by simpa using ha
    obtain ⟨r, hr⟩ := htot p a hp' ha'
    rw [hkeys.mem_iff]
    exact List.mem_map.mpr ⟨((p, a), r), mem_of_lookup_eq_some hr, rfl⟩
  have hparse := parseDfa_eq_of h0 h1 h2 h3 h4 h5
  -- the constructor check
  have hnd' : (((dfaRaw D).transitions.map fun t => ((t.1, str t.2.1), t.2.2)).map (·.1)).Nodup :=
    ((hperm.map (·.1)).nodup_iff).mpr hk
  have hvalid : DFA.valid
      { Q := (dfaRaw D).states, Sigma := dedup (sortStrings (dedup D.Sigma)),
        delta := ((dfaRaw D).transitions.map fun t => ((t.1, str t.2.1), t.2.2)), q0 := initialOf (dfaRaw D),
        F := (dfaRaw D).final : DFA String String } = true := by
    rw [DFA.valid_iff]
    refine ⟨?_, ?_, ?_, ?_⟩
    · show D.q0 ∈ sortStrings (dedup D.Q)
      exact mem_sortStrings_dedup.mpr hq0
    · intro f hf
      have : f ∈ sortStrings (dedup D.F) := hf
      show f ∈ sortStrings (dedup D.Q)
      exact mem_sortStrings_dedup.mpr (hF f (mem_sortStrings_dedup.mp this))
    · intro q a r he
      have := hcl q a r (hperm.mem_iff.mp he)
      refine ⟨?_, ?_, ?_⟩
      · show q ∈ sortStrings (dedup D.Q); exact mem_sortStrings_dedup.mpr this.1
      · show a ∈ dedup (sortStrings (dedup D.Sigma)); simpa using this.2.1
      · show r ∈ sortStrings (dedup D.Q); exact mem_sortStrings_dedup.mpr this.2.2
    · intro q a hq ha
      have hq' : q ∈ D.Q := by
        have : q ∈ sortStrings (dedup D.Q) := hq
        exact mem_sortStrings_dedup.mp this
      have ha' : a ∈ D.Sigma := by
        have : a ∈ dedup (sortStrings (dedup D.Sigma)) := ha
        simpa using this
      obtain ⟨r, hr⟩ := htot q a hq' ha'
      exact ⟨r, by rw [← hr]; exact lookup_eq_of_perm hperm hnd' (q, a)⟩
  refine ⟨_, hparse.trans (by simp only [DFA.checked, hvalid]; rfl), hvalid, rfl, rfl, rfl, rfl, hperm⟩

end Parse
end Gamba
