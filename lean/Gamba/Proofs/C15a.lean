/-
  Gamba.Proofs.C15a — `dfa_simulate_word` / `nfa_simulate_word` produce genuine traces
  (helper lemmas for Gamba.Props.C15a).
-/
import Gamba.Proofs.Search
import Gamba.Proofs.C02reg
namespace Gamba

/-! ### more `ChainOf` / list helpers -/
section Chain
variable {α : Type}

/-- glue two chains that overlap in one element -/
theorem ChainOf.append_overlap {r : α → α → Prop} {l1 l2 : List α} {a : α}
    (h1 : ChainOf r (l1 ++ [a])) (h2 : ChainOf r (a :: l2)) : ChainOf r (l1 ++ a :: l2) := by
  induction l1 with
  | nil => exact h2
  | cons x l1 ih =>
    cases l1 with
    | nil => exact ChainOf.cons h1.rel h2
    | cons y l1 => exact ChainOf.cons h1.rel (ih h1.tail)

theorem getLast?_cons_of_head? {x : α} {l : List α} {y : α} (h : l.head? = some y) :
    (x :: l).getLast? = l.getLast? := by
  cases l with
  | nil => cases h
  | cons z l => rw [List.getLast?_cons_cons]

theorem getLast?_append_of_head? {l1 l2 : List α} {y : α} (h : l2.head? = some y) :
    (l1 ++ l2).getLast? = l2.getLast? := by
  cases l2 with
  | nil => cases h
  | cons z l2 =>
    rw [List.getLast?_append]
    cases hl : (z :: l2).getLast? with
    | none => simp at hl
    | some v => rfl

end Chain

section
variable {σ τ : Type} [DecidableEq σ] [DecidableEq τ]

/-! ### DFA -/

theorem DFA.simulateFrom_spec {D : DFA σ τ} (hv : D.valid = true) (w : List τ)
    (hw : ∀ a, a ∈ w → a ∈ D.Sigma) : ∀ q, q ∈ D.Q →
    ∃ tr, D.simulateFrom q w = .ok tr ∧ tr.head? = some (q, w) ∧ ChainOf D.TraceStep tr ∧
      tr.length = w.length + 1 ∧ tr.getLast? = some (D.runT q w, []) := by
  induction w with
  | nil =>
    intro q _
    exact ⟨[(q, [])], rfl, rfl, ChainOf.single _, rfl, rfl⟩
  | cons a w ih =>
    intro q hq
    have ha := hw a List.mem_cons_self
    obtain ⟨rest, hrest, hhead, hchain, hlen, hlast⟩ :=
      ih (fun b hb => hw b (List.mem_cons_of_mem _ hb)) (D.next q a) (DFA.valid_next_mem hv hq ha)
    refine ⟨(q, a :: w) :: rest, ?_, rfl, ?_, ?_, ?_⟩
    · simp only [DFA.simulateFrom, DFA.step_eq_ok hv hq ha]
      show (do let rest ← D.simulateFrom (D.next q a) w; pure ((q, a :: w) :: rest)) = _
      rw [hrest]
      rfl
    · obtain ⟨rest', rfl⟩ := List.head?_eq_some_iff.mp hhead
      exact ChainOf.cons ⟨a, rfl, DFA.valid_lookup_next hv hq ha⟩ hchain
    · simp [hlen]
    · rw [getLast?_cons_of_head? hhead, hlast]
      rfl

/-! ### NFA: ε-reachability as generic reachability -/

theorem NFA.epsReach_iff_reach (N : NFA σ τ) (S : List σ) (q : σ) :
    N.EpsReach S q ↔ Reach (fun q => N.succ q N.eps) S q := by
  constructor
  · intro h
    induction h with
    | base h => exact Reach.base h
    | step _ hs ih => exact Reach.step ih ((N.mem_succ_iff _ _ _).mpr hs)
  · intro h
    induction h with
    | base h => exact NFA.EpsReach.base h
    | step _ hs ih => exact NFA.EpsReach.step ih ((N.mem_succ_iff _ _ _).mp hs)

theorem NFA.EpsReach.exists_source {N : NFA σ τ} {S : List σ} {q : σ} (h : N.EpsReach S q) :
    ∃ q1, q1 ∈ S ∧ N.EpsReach [q1] q := by
  induction h with
  | base h => exact ⟨_, h, NFA.EpsReach.base (List.mem_singleton.mpr rfl)⟩
  | step _ hs ih =>
    obtain ⟨q1, hq1, hr⟩ := ih
    exact ⟨q1, hq1, NFA.EpsReach.step hr hs⟩

theorem NFA.mem_doTransition (N : NFA σ τ) (a : τ) (R : List σ) (q : σ) :
    q ∈ N.doTransition a R ↔ ∃ p, p ∈ R ∧ N.Succ p a q := by
  simp only [NFA.doTransition, mem_sunions, List.mem_map]
  constructor
  · rintro ⟨l, ⟨p, hp, rfl⟩, hq⟩
    exact ⟨p, hp, (N.mem_succ_iff _ _ _).mp hq⟩
  · rintro ⟨p, hp, hs⟩
    exact ⟨_, ⟨p, hp, rfl⟩, (N.mem_succ_iff _ _ _).mpr hs⟩

/-- on a valid NFA the ε-path search always terminates, and finds a genuine ε-path whenever there is one -/
theorem NFA.findEpsPath_complete {N : NFA σ τ} (hv : N.valid = true) (s : Sched) (S : List σ) (f : σ)
    (h : N.EpsReach S f) :
    ∃ p, N.findEpsPath s S f = .ok (some p) ∧ IsPath (fun q => N.succ q N.eps) S f p := by
  unfold NFA.findEpsPath
  apply findPath_complete _ s S f (N.Q ++ S)
  · intro x hx
    rw [List.mem_append]
    induction hx with
    | base h => exact Or.inr h
    | step _ hs _ => exact Or.inl (NFA.valid_Succ hv ((N.mem_succ_iff _ _ _).mp hs))
  · rw [List.length_append]; exact Nat.le_refl _
  · exact (N.epsReach_iff_reach S f).mp h

theorem NFA.findEpsPath_total {N : NFA σ τ} (hv : N.valid = true) (s : Sched) (S : List σ) (f : σ) :
    ∃ r, N.findEpsPath s S f = .ok r := by
  unfold NFA.findEpsPath
  apply findPath_total _ s S f (N.Q ++ S)
  · intro x hx
    rw [List.mem_append]
    induction hx with
    | base h => exact Or.inr h
    | step _ hs _ => exact Or.inl (NFA.valid_Succ hv ((N.mem_succ_iff _ _ _).mp hs))
  · rw [List.length_append]; exact Nat.le_refl _

theorem NFA.findTransition_some {N : NFA σ τ} {R : List σ} {a : τ} {t src : σ}
    (h : N.findTransition R a t = some src) : src ∈ R ∧ N.Succ src a t := by
  unfold NFA.findTransition at h
  refine ⟨List.mem_of_find?_eq_some h, ?_⟩
  have := List.find?_some h
  rw [decide_eq_true_eq] at this
  exact (N.mem_succ_iff _ _ _).mp this

theorem NFA.findTransition_isSome {N : NFA σ τ} {R : List σ} {a : τ} {t : σ}
    (h : ∃ p, p ∈ R ∧ N.Succ p a t) : ∃ src, N.findTransition R a t = some src := by
  obtain ⟨p, hp, hs⟩ := h
  cases hf : N.findTransition R a t with
  | some src => exact ⟨src, rfl⟩
  | none =>
    unfold NFA.findTransition at hf
    rw [List.find?_eq_none] at hf
    exact absurd (by rw [decide_eq_true_eq]; exact (N.mem_succ_iff _ _ _).mpr hs) (hf p hp)

/-! ### the forward history -/

/-- `HistOK N rev H C`: `H` is the history below the closed set `C`, for the symbols `rev` still to be undone -/
inductive NFA.HistOK (N : NFA σ τ) : List τ → List (List σ) → List σ → Prop
  | base {C : List σ} : (∀ q, q ∈ C → N.EpsReach [N.q0] q) → NFA.HistOK N [] [[N.q0]] C
  | step {a : τ} {rev : List τ} {S1 S2 C : List σ} {H : List (List σ)} :
      a ≠ N.eps → (∀ q, q ∈ C → N.EpsReach S1 q) → (∀ q, q ∈ S1 → ∃ p, p ∈ S2 ∧ N.Succ p a q) →
      NFA.HistOK N rev H S2 → NFA.HistOK N (a :: rev) (S1 :: S2 :: H) C

theorem NFA.history_spec {N : NFA σ τ} (hv : N.valid = true) (s : Sched) (w : List τ)
    (hw : ∀ a, a ∈ w → a ≠ N.eps) :
    ∀ (rev : List τ) (R : List σ) (Hr : List (List σ)), N.HistOK rev Hr R → N.EpsClosed R →
      ∃ C Hr', N.history s w R (R :: Hr) = .ok (C :: Hr') ∧ N.HistOK (w.reverse ++ rev) Hr' C ∧
        ∀ r, r ∈ C ↔ ∃ q, q ∈ R ∧ N.Run q w r := by
  induction w with
  | nil =>
    intro rev R Hr hok hcl
    refine ⟨R, Hr, rfl, hok, ?_⟩
    intro r
    constructor
    · intro hr; exact ⟨r, hr, NFA.Run.nil r⟩
    · rintro ⟨q, hq, hr⟩; exact NFA.Run.nil_closed hcl hr hq
  | cons a w ih =>
    intro rev R Hr hok hcl
    have ha : a ≠ N.eps := hw a List.mem_cons_self
    have hok' : N.HistOK (a :: rev) (N.doTransition a R :: R :: Hr) (N.closureT s (N.doTransition a R)) :=
      NFA.HistOK.step ha (fun q hq => (NFA.mem_closureT hv s _ q).mp hq)
        (fun q hq => (N.mem_doTransition a R q).mp hq) hok
    have hcl' : N.EpsClosed (N.closureT s (N.doTransition a R)) := by
      intro q hq q' hs
      exact (NFA.mem_closureT hv s _ q').mpr (NFA.EpsReach.step ((NFA.mem_closureT hv s _ q).mp hq) hs)
    obtain ⟨C, Hr', hh, hok'', hC⟩ :=
      ih (fun b hb => hw b (List.mem_cons_of_mem _ hb)) (a :: rev) _ _ hok' hcl'
    refine ⟨C, Hr', ?_, ?_, ?_⟩
    · simp only [NFA.history, NFA.closure_eq_ok hv]
      exact hh
    · have : (a :: w).reverse ++ rev = w.reverse ++ a :: rev := by simp
      rw [this]; exact hok''
    · intro r
      rw [hC r]
      constructor
      · rintro ⟨q2, hq2, hr⟩
        obtain ⟨q1, hq1, he⟩ := ((NFA.mem_closureT hv s _ q2).mp hq2).exists_source
        obtain ⟨p, hp, hs⟩ := (N.mem_doTransition a R q1).mp hq1
        exact ⟨p, hp, NFA.Run.sym ha hs (NFA.Run.of_epsReach he hr)⟩
      · rintro ⟨q, hq, hr⟩
        obtain ⟨p, hp, q', hs, hr'⟩ := NFA.Run.cons_inv hcl hr hq
        exact ⟨q', (NFA.mem_closureT hv s _ q').mpr
          (NFA.EpsReach.base ((N.mem_doTransition a R q').mpr ⟨p, hp, hs⟩)), hr'⟩

/-! ### the backward reconstruction -/

/-- invariant of `result` in `rebuild` -/
def NFA.ResInv (N : NFA σ τ) (front : σ) (word : List τ) (result : List (σ × List τ)) : Prop :=
  result.head? = some (front, word) ∧ ChainOf N.TraceStep result ∧
    ∃ f, result.getLast? = some (f, []) ∧ f ∈ N.F

/-- prepending an ε-path ending in `front` keeps the invariant, with the start of the path as new front -/
theorem NFA.ResInv.extend {N : NFA σ τ} {S : List σ} {front : σ} {word : List τ} {result : List (σ × List τ)}
    {p : List σ} (hp : IsPath (fun q => N.succ q N.eps) S front p) (hr : N.ResInv front word result) :
    p.headD front ∈ S ∧ N.ResInv (p.headD front) word (p.dropLast.map (fun r => (r, word)) ++ result) := by
  obtain ⟨⟨r0, hr0, hr0S⟩, hchain, hlast⟩ := hp
  obtain ⟨hhead, hrc, f, hf, hfF⟩ := hr
  obtain ⟨pre, rfl⟩ := List.getLast?_eq_some_iff.mp hlast
  obtain ⟨rest, rfl⟩ := List.head?_eq_some_iff.mp hhead
  rw [List.dropLast_concat]
  have hchain' : ChainOf N.TraceStep ((pre ++ [front]).map (fun r => (r, word))) :=
    ChainOf.map _ hchain (fun a b hab => Or.inl ⟨rfl, (N.mem_succ_iff _ _ _).mp hab⟩)
  rw [List.map_append] at hchain'
  have hc2 : ChainOf N.TraceStep (pre.map (fun r => (r, word)) ++ (front, word) :: rest) :=
    ChainOf.append_overlap hchain' hrc
  have hl2 : (pre.map (fun r => (r, word)) ++ (front, word) :: rest).getLast? = some (f, []) := by
    rw [getLast?_append_of_head? (y := (front, word)) rfl]; exact hf
  cases pre with
  | nil =>
    simp only [List.nil_append, List.head?_cons, Option.some.injEq] at hr0
    subst hr0
    exact ⟨hr0S, rfl, hc2, f, hl2, hfF⟩
  | cons x pre =>
    simp only [List.cons_append, List.head?_cons, Option.some.injEq] at hr0
    subst hr0
    exact ⟨hr0S, rfl, hc2, f, hl2, hfF⟩

theorem NFA.rebuild_spec {N : NFA σ τ} (hv : N.valid = true) (s : Sched) {rev : List τ} {H : List (List σ)}
    {C : List σ} (hok : N.HistOK rev H C) :
    ∀ (front : σ) (word : List τ) (result : List (σ × List τ)), front ∈ C → N.ResInv front word result →
      ∃ tr, N.rebuild s rev H front word result = .ok tr ∧ N.ResInv N.q0 (rev.reverse ++ word) tr := by
  induction hok with
  | @base C hC =>
    intro front word result hfront hres
    obtain ⟨p, hp, hpath⟩ := NFA.findEpsPath_complete hv s [N.q0] front (hC front hfront)
    obtain ⟨hmem, hinv⟩ := hres.extend hpath
    refine ⟨p.dropLast.map (fun r => (r, word)) ++ result, ?_, ?_⟩
    · simp only [NFA.rebuild, hp]
      rfl
    · rw [List.mem_singleton] at hmem
      rw [hmem] at hinv
      exact hinv
  | @step a rev S1 S2 C H ha hC hS1 _ ih =>
    intro front word result hfront hres
    obtain ⟨p, hp, hpath⟩ := NFA.findEpsPath_complete hv s S1 front (hC front hfront)
    obtain ⟨hmem, hinv⟩ := hres.extend hpath
    obtain ⟨front2, hft⟩ := NFA.findTransition_isSome (hS1 _ hmem)
    obtain ⟨hf2, hsucc⟩ := NFA.findTransition_some hft
    have hinv2 : N.ResInv front2 (a :: word)
        ((front2, a :: word) :: (p.dropLast.map (fun r => (r, word)) ++ result)) := by
      obtain ⟨hh, hc, f, hl, hfF⟩ := hinv
      refine ⟨rfl, ?_, f, ?_, hfF⟩
      · obtain ⟨rest, hrest⟩ := List.head?_eq_some_iff.mp hh
        rw [hrest]
        rw [hrest] at hc
        exact ChainOf.cons (Or.inr ⟨a, rfl, ha, hsucc⟩) hc
      · rw [getLast?_cons_of_head? hh]; exact hl
    obtain ⟨tr, htr, htinv⟩ := ih front2 (a :: word) _ hf2 hinv2
    refine ⟨tr, ?_, ?_⟩
    · simp only [NFA.rebuild, hp]
      show (match N.findTransition S2 a (p.headD front) with
        | none => Except.error Err.runtimeError
        | some front2 => N.rebuild s rev H front2 (a :: word)
            ((front2, a :: word) :: (p.dropLast.map (fun r => (r, word)) ++ result))) = _
      rw [hft]
      exact htr
    · have : (a :: rev).reverse ++ word = rev.reverse ++ a :: word := by simp
      rw [this]; exact htinv

/-- everything about `simulate` at once: it returns (no fuel / key / runtime error), what it returns is a valid trace,
    and it returns a trace exactly for the accepted words -/
theorem NFA.simulate_spec {N : NFA σ τ} (hv : N.valid = true) (s : Sched) (w : List τ)
    (hw : ∀ a, a ∈ w → a ∈ N.Sigma) :
    ∃ r, N.simulate s w = .ok r ∧ (∀ tr, r = some tr → N.ValidTrace w tr) ∧ (r.isSome = true ↔ N.Accepts w) := by
  have hw' : ∀ a, a ∈ w → a ≠ N.eps := by
    intro a ha h
    exact NFA.valid_eps hv (h ▸ hw a ha)
  have hok0 : N.HistOK [] [[N.q0]] (N.closureT s [N.q0]) :=
    NFA.HistOK.base (fun q hq => (NFA.mem_closureT hv s _ q).mp hq)
  have hcl0 : N.EpsClosed (N.closureT s [N.q0]) := by
    intro q hq q' hs
    exact (NFA.mem_closureT hv s _ q').mpr (NFA.EpsReach.step ((NFA.mem_closureT hv s _ q).mp hq) hs)
  obtain ⟨C, Hr, hh, hok, hC⟩ := NFA.history_spec hv s w hw' [] _ _ hok0 hcl0
  rw [List.append_nil] at hok
  have hC' : ∀ r, r ∈ C ↔ N.Run N.q0 w r := by
    intro r
    rw [hC r]
    constructor
    · rintro ⟨q, hq, hr⟩
      exact NFA.Run.of_epsReach ((NFA.mem_closureT hv s _ q).mp hq) hr
    · intro hr
      exact ⟨N.q0, (NFA.mem_closureT hv s _ _).mpr (NFA.EpsReach.base (List.mem_singleton.mpr rfl)), hr⟩
  cases hpick : pickAt (C.filter fun r => decide (r ∈ N.F)) s.next.1 with
  | none =>
    refine ⟨none, ?_, ?_, ?_⟩
    · simp only [NFA.simulate, NFA.closure_eq_ok hv]
      show (do let H ← N.history s w _ _; _) = _
      rw [hh]
      show (match pickAt (C.filter fun r => decide (r ∈ N.F)) s.next.1 with
        | none => pure none
        | some (front, _) => _) = _
      rw [hpick]
      rfl
    · intro tr h; cases h
    · constructor
      · intro h; cases h
      · rintro ⟨f, hfF, hr⟩
        have hempty := pickAt_eq_none_iff.mp hpick
        have : f ∈ C.filter fun r => decide (r ∈ N.F) := by
          rw [List.mem_filter, decide_eq_true_eq]
          exact ⟨(hC' f).mpr hr, hfF⟩
        rw [hempty] at this
        cases this
  | some fr =>
    obtain ⟨front, rest⟩ := fr
    have hfm := pickAt_mem hpick
    rw [List.mem_filter, decide_eq_true_eq] at hfm
    obtain ⟨hfC, hfF⟩ := hfm
    have hres0 : N.ResInv front [] [(front, [])] := ⟨rfl, ChainOf.single _, front, rfl, hfF⟩
    obtain ⟨tr, htr, hhead, hchain, hlast⟩ := NFA.rebuild_spec hv s hok front [] _ hfC hres0
    refine ⟨some tr, ?_, ?_, ?_⟩
    · simp only [NFA.simulate, NFA.closure_eq_ok hv]
      show (do let H ← N.history s w _ _; _) = _
      rw [hh]
      show (match pickAt (C.filter fun r => decide (r ∈ N.F)) s.next.1 with
        | none => pure none
        | some (front, _) => do
          let r ← N.rebuild s w.reverse Hr front [] [(front, [])]
          pure (some r)) = _
      rw [hpick]
      show (do let r ← N.rebuild s w.reverse Hr front [] [(front, [])]; pure (some r)) = _
      rw [htr]
      rfl
    · intro tr' h
      cases h
      rw [List.reverse_reverse, List.append_nil] at hhead
      exact ⟨hhead, hchain, hlast⟩
    · constructor
      · intro _
        exact ⟨front, hfF, (hC' front).mp hfC⟩
      · intro _; rfl

end

/-! ### examples -/

/-- the witness of the repaired back-pointer defect: `a -ε-> b -ε-> c`, `c -ε-> {b, f}` (an ε-cycle `b ⇄ c`),
    plus `f -x-> a` so that non-empty words are accepted too, and `f -y-> g` (a dead end) so that some are rejected -/
def C15.exNFA : NFA String String :=
  { Q := ["a", "b", "c", "f", "g"], Sigma := ["x", "y"],
    delta := [(("a", ""), ["b"]), (("b", ""), ["c"]), (("c", ""), ["b", "f"]), (("f", "x"), ["a"]),
              (("f", "y"), ["g"])],
    q0 := "a", F := ["f"], eps := "" }

def C15.exDFA : DFA String String :=
  { Q := ["p", "q"], Sigma := ["0", "1"],
    delta := [(("p", "0"), "p"), (("p", "1"), "q"), (("q", "0"), "q"), (("q", "1"), "p")],
    q0 := "p", F := ["q"] }

end Gamba
