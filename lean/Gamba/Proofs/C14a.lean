/-
  Gamba.Proofs.C14a — helper lemmas for the DFA closure constructions
  (product, complement, mapStates, noPrefix, makeTotal, freshState).
-/
import Gamba.Model.DFA
import Gamba.Model.NFA
import Gamba.Spec.Automata
import Gamba.Proofs.DFABasic
namespace Gamba

/-! ### product -/
section Product
variable {σ σ₂ τ : Type} [DecidableEq σ] [DecidableEq σ₂] [DecidableEq τ]

theorem DFA.product_mem_Q (D1 : DFA σ τ) (D2 : DFA σ₂ τ) (t : ProductType) (p : σ) (q : σ₂) :
    (p, q) ∈ (D1.product D2 t).Q ↔ p ∈ D1.Q ∧ q ∈ D2.Q := by
  simp only [DFA.product, List.mem_flatMap, List.mem_map, Prod.mk.injEq]
  constructor
  · rintro ⟨p', hp', q', hq', rfl, rfl⟩; exact ⟨hp', hq'⟩
  · rintro ⟨hp, hq⟩; exact ⟨p, hp, q, hq, rfl, rfl⟩

theorem DFA.product_mem_F (D1 : DFA σ τ) (D2 : DFA σ₂ τ) (t : ProductType) (p : σ) (q : σ₂) :
    (p, q) ∈ (D1.product D2 t).F ↔
      (p ∈ D1.Q ∧ q ∈ D2.Q) ∧ t.accept (decide (p ∈ D1.F)) (decide (q ∈ D2.F)) = true := by
  have hQ := DFA.product_mem_Q D1 D2 t p q
  simp only [DFA.product] at hQ ⊢
  rw [List.mem_filter, hQ]

theorem DFA.product_delta_eq (D1 : DFA σ τ) (D2 : DFA σ₂ τ) (t : ProductType) :
    (D1.product D2 t).delta =
      (D1.product D2 t).Q.flatMap (fun k => D1.Sigma.map (fun a =>
        ((k, a), (D1.next k.1 a, D2.next k.2 a)))) := by
  simp only [DFA.product]

theorem DFA.product_lookup [i : BEq ((σ × σ₂) × τ)] [LawfulBEq ((σ × σ₂) × τ)]
    (D1 : DFA σ τ) (D2 : DFA σ₂ τ) (t : ProductType) (p : σ) (q : σ₂) (a : τ) :
    @List.lookup _ _ i ((p, q), a) (D1.product D2 t).delta =
      if (p ∈ D1.Q ∧ q ∈ D2.Q) ∧ a ∈ D1.Sigma then some (D1.next p a, D2.next q a) else none := by
  rw [DFA.product_delta_eq,
    lookup_flatMap_keys (D1.product D2 t).Q D1.Sigma (fun k a => (D1.next k.1 a, D2.next k.2 a))]
  simp only [DFA.product_mem_Q]

theorem DFA.product_next (D1 : DFA σ τ) (D2 : DFA σ₂ τ) (t : ProductType) {p : σ} {q : σ₂} {a : τ}
    (hp : p ∈ D1.Q) (hq : q ∈ D2.Q) (ha : a ∈ D1.Sigma) :
    (D1.product D2 t).next (p, q) a = (D1.next p a, D2.next q a) := by
  apply DFA.next_of_lookup
  rw [DFA.product_lookup (i := _), if_pos ⟨⟨hp, hq⟩, ha⟩]

theorem DFA.product_valid (D1 : DFA σ τ) (D2 : DFA σ₂ τ) (t : ProductType)
    (h1 : D1.valid = true) (h2 : D2.valid = true) (hS : ∀ a, a ∈ D1.Sigma ↔ a ∈ D2.Sigma) :
    (D1.product D2 t).valid = true := by
  rw [DFA.valid_iff]
  refine ⟨?_, ?_, ?_, ?_⟩
  · exact (DFA.product_mem_Q D1 D2 t _ _).mpr ⟨DFA.valid_q0 h1, DFA.valid_q0 h2⟩
  · rintro ⟨p, q⟩ hf
    exact (DFA.product_mem_Q D1 D2 t p q).mpr ((DFA.product_mem_F D1 D2 t p q).mp hf).1
  · rintro ⟨p, q⟩ a ⟨p', q'⟩ he
    rw [DFA.product_delta_eq] at he
    obtain ⟨k, hk, hk'⟩ := List.mem_flatMap.mp he
    obtain ⟨a', ha', he'⟩ := List.mem_map.mp hk'
    simp only [Prod.mk.injEq] at he'
    obtain ⟨⟨rfl, rfl⟩, rfl, rfl⟩ := he'
    obtain ⟨hp, hq⟩ := (DFA.product_mem_Q D1 D2 t _ _).mp hk
    refine ⟨hk, ha', (DFA.product_mem_Q D1 D2 t _ _).mpr ⟨?_, ?_⟩⟩
    · exact DFA.valid_next_mem h1 hp ha'
    · exact DFA.valid_next_mem h2 hq ((hS _).mp ha')
  · rintro ⟨p, q⟩ a hk ha
    obtain ⟨hp, hq⟩ := (DFA.product_mem_Q D1 D2 t _ _).mp hk
    exact ⟨_, by rw [DFA.product_lookup (i := _), if_pos ⟨⟨hp, hq⟩, ha⟩]⟩

theorem DFA.product_runT (D1 : DFA σ τ) (D2 : DFA σ₂ τ) (t : ProductType)
    (h1 : D1.valid = true) (h2 : D2.valid = true) (hS : ∀ a, a ∈ D1.Sigma ↔ a ∈ D2.Sigma)
    {p : σ} {q : σ₂} (hp : p ∈ D1.Q) (hq : q ∈ D2.Q) (w : List τ) (hw : ∀ a, a ∈ w → a ∈ D1.Sigma) :
    (D1.product D2 t).runT (p, q) w = (D1.runT p w, D2.runT q w) := by
  induction w generalizing p q with
  | nil => rfl
  | cons a w ih =>
    have ha := hw a List.mem_cons_self
    rw [DFA.runT_cons, DFA.product_next D1 D2 t hp hq ha, DFA.runT_cons, DFA.runT_cons]
    exact ih (DFA.valid_next_mem h1 hp ha) (DFA.valid_next_mem h2 hq ((hS a).mp ha))
      (fun b hb => hw b (List.mem_cons_of_mem _ hb))

/-- acceptance of the product in terms of the two component runs -/
theorem DFA.product_accepts_iff (D1 : DFA σ τ) (D2 : DFA σ₂ τ) (t : ProductType)
    (h1 : D1.valid = true) (h2 : D2.valid = true) (hS : ∀ a, a ∈ D1.Sigma ↔ a ∈ D2.Sigma)
    (w : List τ) (hw : ∀ a, a ∈ w → a ∈ D1.Sigma) :
    (D1.product D2 t).Accepts w ↔
      t.accept (decide (D1.runT D1.q0 w ∈ D1.F)) (decide (D2.runT D2.q0 w ∈ D2.F)) = true := by
  have hw2 : ∀ a, a ∈ w → a ∈ D2.Sigma := fun a ha => (hS a).mp (hw a ha)
  have hP := DFA.product_valid D1 D2 t h1 h2 hS
  have hwP : ∀ a, a ∈ w → a ∈ (D1.product D2 t).Sigma := hw
  rw [DFA.Accepts_iff_runT hP hwP]
  have hq0 : (D1.product D2 t).q0 = (D1.q0, D2.q0) := rfl
  rw [hq0, DFA.product_runT D1 D2 t h1 h2 hS (DFA.valid_q0 h1) (DFA.valid_q0 h2) w hw,
    DFA.product_mem_F]
  constructor
  · exact fun h => h.2
  · exact fun h => ⟨⟨DFA.runT_mem h1 (DFA.valid_q0 h1) hw, DFA.runT_mem h2 (DFA.valid_q0 h2) hw2⟩, h⟩

end Product

variable {σ τ : Type} [DecidableEq σ] [DecidableEq τ]

/-! ### complement -/
section Complement

theorem DFA.complement_valid (D : DFA σ τ) (h : D.valid = true) : D.complement.valid = true := by
  rw [DFA.valid_iff] at h ⊢
  obtain ⟨h1, _, h3, h4⟩ := h
  refine ⟨h1, ?_, h3, h4⟩
  intro f hf
  have hf' : f ∈ sdiff D.Q D.F := hf
  exact (mem_sdiff.mp hf').1

theorem DFA.complement_runT (D : DFA σ τ) (q : σ) (w : List τ) :
    D.complement.runT q w = D.runT q w := by
  induction w generalizing q with
  | nil => rfl
  | cons a w ih => exact ih (D.next q a)

theorem DFA.complement_accepts_iff (D : DFA σ τ) (h : D.valid = true) (w : List τ)
    (hw : ∀ a, a ∈ w → a ∈ D.Sigma) : D.complement.Accepts w ↔ ¬ D.Accepts w := by
  have hw' : ∀ a, a ∈ w → a ∈ D.complement.Sigma := hw
  rw [DFA.Accepts_iff_runT (DFA.complement_valid D h) hw', DFA.Accepts_iff_runT h hw,
    DFA.complement_runT]
  have hq0 : D.complement.q0 = D.q0 := rfl
  have hF : D.complement.F = sdiff D.Q D.F := rfl
  rw [hq0, hF, mem_sdiff]
  constructor
  · exact fun h => h.2
  · exact fun h' => ⟨DFA.runT_mem h (DFA.valid_q0 h) hw, h'⟩

end Complement

/-! ### mapStates -/
section MapStates
variable {σ' : Type} [DecidableEq σ']

omit [DecidableEq σ'] in
theorem lookup_map_rename [i : BEq (σ' × τ)] [LawfulBEq (σ' × τ)] (f : σ → σ') (Q : List σ)
    (hf : ∀ p q, p ∈ Q → q ∈ Q → f p = f q → p = q)
    (l : List ((σ × τ) × σ)) (hl : ∀ e, e ∈ l → e.1.1 ∈ Q) {q : σ} (hq : q ∈ Q) (a : τ) :
    @List.lookup _ _ i (f q, a) (l.map (fun e => ((f e.1.1, e.1.2), f e.2))) =
      (l.lookup (q, a)).map f := by
  induction l with
  | nil => rfl
  | cons e l ih =>
    obtain ⟨⟨q1, a1⟩, r1⟩ := e
    have hq1 : q1 ∈ Q := hl _ List.mem_cons_self
    have ih' := ih (fun e he => hl e (List.mem_cons_of_mem _ he))
    rw [List.map_cons, List.lookup_cons, List.lookup_cons]
    by_cases hk : (q, a) = (q1, a1)
    · simp only [Prod.mk.injEq] at hk
      obtain ⟨rfl, rfl⟩ := hk
      simp only [beq_self_eq_true, Option.map_some]
    · have hb1 : ((q, a) == (q1, a1)) = false := beq_eq_false_iff_ne.mpr hk
      have hb2 : ((f q, a) == (f q1, a1)) = false := by
        apply beq_eq_false_iff_ne.mpr
        intro he
        simp only [Prod.mk.injEq] at he
        apply hk
        rw [hf q q1 hq hq1 he.1, he.2]
      rw [hb1, hb2]
      exact ih'

omit [DecidableEq σ'] in
theorem DFA.mapStates_lookup [i : BEq (σ' × τ)] [LawfulBEq (σ' × τ)] (f : σ → σ') (D : DFA σ τ)
    (h : D.valid = true) (hf : ∀ p q, p ∈ D.Q → q ∈ D.Q → f p = f q → p = q)
    {q : σ} (hq : q ∈ D.Q) (a : τ) :
    @List.lookup _ _ i (f q, a) (D.mapStates f).delta = (D.delta.lookup (q, a)).map f := by
  apply lookup_map_rename f D.Q hf D.delta _ hq a
  rintro ⟨⟨q1, a1⟩, r1⟩ he
  exact (DFA.valid_closed h he).1

theorem DFA.mapStates_next (f : σ → σ') (D : DFA σ τ)
    (h : D.valid = true) (hf : ∀ p q, p ∈ D.Q → q ∈ D.Q → f p = f q → p = q)
    {q : σ} (hq : q ∈ D.Q) {a : τ} (ha : a ∈ D.Sigma) :
    (D.mapStates f).next (f q) a = f (D.next q a) := by
  apply DFA.next_of_lookup
  rw [DFA.mapStates_lookup (i := _) f D h hf hq a, DFA.valid_lookup_next h hq ha]
  rfl

theorem DFA.mapStates_valid' (f : σ → σ') (D : DFA σ τ) (h : D.valid = true)
    (hf : ∀ p q, p ∈ D.Q → q ∈ D.Q → f p = f q → p = q) : (D.mapStates f).valid = true := by
  rw [DFA.valid_iff]
  refine ⟨?_, ?_, ?_, ?_⟩
  · exact List.mem_map_of_mem (DFA.valid_q0 h)
  · intro x hx
    obtain ⟨y, hy, rfl⟩ := List.mem_map.mp hx
    exact List.mem_map_of_mem (DFA.valid_F h hy)
  · intro q' a r' he
    obtain ⟨⟨⟨q1, a1⟩, r1⟩, he1, he2⟩ := List.mem_map.mp he
    simp only [Prod.mk.injEq] at he2
    obtain ⟨⟨rfl, rfl⟩, rfl⟩ := he2
    obtain ⟨hq, ha, hr⟩ := DFA.valid_closed h he1
    exact ⟨List.mem_map_of_mem hq, ha, List.mem_map_of_mem hr⟩
  · intro q' a hq' ha
    obtain ⟨q, hq, rfl⟩ := List.mem_map.mp hq'
    refine ⟨f (D.next q a), ?_⟩
    rw [DFA.mapStates_lookup (i := _) f D h hf hq a, DFA.valid_lookup_next h hq ha]
    rfl

theorem DFA.mapStates_runT (f : σ → σ') (D : DFA σ τ)
    (h : D.valid = true) (hf : ∀ p q, p ∈ D.Q → q ∈ D.Q → f p = f q → p = q)
    {q : σ} (hq : q ∈ D.Q) (w : List τ) (hw : ∀ a, a ∈ w → a ∈ D.Sigma) :
    (D.mapStates f).runT (f q) w = f (D.runT q w) := by
  induction w generalizing q with
  | nil => rfl
  | cons a w ih =>
    have ha := hw a List.mem_cons_self
    rw [DFA.runT_cons, DFA.mapStates_next f D h hf hq ha, DFA.runT_cons]
    exact ih (DFA.valid_next_mem h hq ha) (fun b hb => hw b (List.mem_cons_of_mem _ hb))

theorem DFA.mapStates_accepts_iff (f : σ → σ') (D : DFA σ τ) (h : D.valid = true)
    (hf : ∀ p q, p ∈ D.Q → q ∈ D.Q → f p = f q → p = q) (w : List τ)
    (hw : ∀ a, a ∈ w → a ∈ D.Sigma) : (D.mapStates f).Accepts w ↔ D.Accepts w := by
  have hw' : ∀ a, a ∈ w → a ∈ (D.mapStates f).Sigma := hw
  rw [DFA.Accepts_iff_runT (DFA.mapStates_valid' f D h hf) hw', DFA.Accepts_iff_runT h hw]
  have hq0 : (D.mapStates f).q0 = f D.q0 := rfl
  have hF : (D.mapStates f).F = D.F.map f := rfl
  rw [hq0, hF, DFA.mapStates_runT f D h hf (DFA.valid_q0 h) w hw]
  have hr := DFA.runT_mem h (DFA.valid_q0 h) hw
  constructor
  · intro hm
    obtain ⟨y, hy, hfy⟩ := List.mem_map.mp hm
    rw [← hf y _ (DFA.valid_F h hy) hr hfy]
    exact hy
  · exact fun hm => List.mem_map_of_mem hm

end MapStates

/-! ### noPrefix -/
section NoPrefix

theorem noPrefix_lookup_of_mem (l : List ((σ × τ) × σ)) (F : List σ) {q : σ} (hq : q ∈ F) (a : τ) :
    ((l.filter fun e => decide (e.1.1 ∉ F)).map fun e => (e.1, [e.2])).lookup (q, a) = none := by
  rw [lookup_eq_none_iff_forall]
  intro T hT
  obtain ⟨e, he, he'⟩ := List.mem_map.mp hT
  have := (List.mem_filter.mp he).2
  simp only [decide_eq_true_eq] at this
  simp only [Prod.mk.injEq] at he'
  apply this
  rw [he'.1]
  exact hq

theorem noPrefix_lookup_of_not_mem (l : List ((σ × τ) × σ)) (F : List σ) {q : σ} (hq : q ∉ F) (a : τ) :
    ((l.filter fun e => decide (e.1.1 ∉ F)).map fun e => (e.1, [e.2])).lookup (q, a) =
      (l.lookup (q, a)).map (fun r => [r]) := by
  induction l with
  | nil => rfl
  | cons e l ih =>
    obtain ⟨⟨q1, a1⟩, r1⟩ := e
    by_cases h1 : q1 ∈ F
    · have hne : (q, a) ≠ (q1, a1) := by
        intro he
        simp only [Prod.mk.injEq] at he
        exact hq (he.1 ▸ h1)
      rw [List.filter_cons_of_neg (by simpa using h1), ih, List.lookup_cons,
        beq_eq_false_iff_ne.mpr hne]
    · rw [List.filter_cons_of_pos (by simpa using h1), List.map_cons, List.lookup_cons,
        List.lookup_cons, ih]
      cases hb : ((q, a) == (q1, a1)) <;> rfl

theorem DFA.noPrefix_Succ_iff (D : DFA σ τ) (eps : τ) (q : σ) (a : τ) (q' : σ) :
    (D.noPrefix eps).Succ q a q' ↔ q ∉ D.F ∧ D.delta.lookup (q, a) = some q' := by
  unfold NFA.Succ
  have hd : (D.noPrefix eps).delta =
      (D.delta.filter fun e => decide (e.1.1 ∉ D.F)).map fun e => (e.1, [e.2]) := rfl
  rw [hd]
  by_cases hq : q ∈ D.F
  · rw [noPrefix_lookup_of_mem _ _ hq]
    constructor
    · rintro ⟨T, hT, _⟩; cases hT
    · rintro ⟨hn, _⟩; exact absurd hq hn
  · rw [noPrefix_lookup_of_not_mem _ _ hq]
    cases hl : D.delta.lookup (q, a) with
    | none =>
      constructor
      · rintro ⟨T, hT, _⟩; cases hT
      · rintro ⟨_, h⟩; cases h
    | some r =>
      simp only [Option.map_some, Option.some.injEq]
      constructor
      · rintro ⟨T, rfl, hm⟩
        exact ⟨hq, (List.mem_singleton.mp hm).symm⟩
      · rintro ⟨_, rfl⟩
        exact ⟨_, rfl, List.mem_singleton.mpr rfl⟩

theorem DFA.noPrefix_no_eps (D : DFA σ τ) (eps : τ) (h : D.valid = true) (he : eps ∉ D.Sigma)
    (q q' : σ) : ¬ (D.noPrefix eps).Succ q (D.noPrefix eps).eps q' := by
  intro hs
  have heps : (D.noPrefix eps).eps = eps := rfl
  rw [heps, DFA.noPrefix_Succ_iff] at hs
  exact he (DFA.valid_lookup h hs.2).2.1

theorem DFA.noPrefix_Run_nil (D : DFA σ τ) (eps : τ) (h : D.valid = true) (he : eps ∉ D.Sigma)
    (q r : σ) : (D.noPrefix eps).Run q [] r ↔ r = q := by
  constructor
  · intro hr
    cases hr with
    | nil => rfl
    | eps hs _ => exact absurd hs (DFA.noPrefix_no_eps D eps h he _ _)
  · rintro rfl; exact NFA.Run.nil _

theorem DFA.noPrefix_Run_cons (D : DFA σ τ) (eps : τ) (h : D.valid = true) (he : eps ∉ D.Sigma)
    (q r : σ) (a : τ) (w : List τ) (ha : a ∈ D.Sigma) :
    (D.noPrefix eps).Run q (a :: w) r ↔
      q ∉ D.F ∧ ∃ q', D.delta.lookup (q, a) = some q' ∧ (D.noPrefix eps).Run q' w r := by
  constructor
  · intro hr
    cases hr with
    | eps hs _ => exact absurd hs (DFA.noPrefix_no_eps D eps h he _ _)
    | sym _ hs hr' =>
      rw [DFA.noPrefix_Succ_iff] at hs
      exact ⟨hs.1, _, hs.2, hr'⟩
  · rintro ⟨hq, q', hl, hr'⟩
    refine NFA.Run.sym ?_ ((DFA.noPrefix_Succ_iff D eps q a q').mpr ⟨hq, hl⟩) hr'
    intro hae
    have heps : (D.noPrefix eps).eps = eps := rfl
    rw [heps] at hae
    exact he (hae ▸ ha)

/-- runs of `noPrefix`: the `D`-run all of whose proper prefixes end outside `F` -/
theorem DFA.noPrefix_Run_iff (D : DFA σ τ) (eps : τ) (h : D.valid = true) (he : eps ∉ D.Sigma)
    {q : σ} (hq : q ∈ D.Q) (w : List τ) (hw : ∀ a, a ∈ w → a ∈ D.Sigma) (r : σ) :
    (D.noPrefix eps).Run q w r ↔
      (r = D.runT q w ∧ ∀ u v, w = u ++ v → v ≠ [] → D.runT q u ∉ D.F) := by
  induction w generalizing q with
  | nil =>
    rw [DFA.noPrefix_Run_nil D eps h he]
    constructor
    · rintro rfl
      refine ⟨rfl, ?_⟩
      intro u v huv hv
      have := List.append_eq_nil_iff.mp huv.symm
      exact absurd this.2 hv
    · exact fun h' => h'.1
  | cons a w ih =>
    have ha := hw a List.mem_cons_self
    have hw' : ∀ b, b ∈ w → b ∈ D.Sigma := fun b hb => hw b (List.mem_cons_of_mem _ hb)
    have hn := DFA.valid_next_mem h hq ha
    rw [DFA.noPrefix_Run_cons D eps h he q r a w ha]
    constructor
    · rintro ⟨hqF, q', hl, hr'⟩
      have hq' : q' = D.next q a := (DFA.next_of_lookup hl).symm
      subst hq'
      obtain ⟨hr, hall⟩ := (ih hn hw').mp hr'
      refine ⟨hr, ?_⟩
      intro u v huv hv
      cases u with
      | nil => exact hqF
      | cons b u' =>
        simp only [List.cons_append, List.cons.injEq] at huv
        obtain ⟨rfl, huv⟩ := huv
        exact hall u' v huv hv
    · rintro ⟨hr, hall⟩
      refine ⟨hall [] (a :: w) rfl (by simp), D.next q a, DFA.valid_lookup_next h hq ha, ?_⟩
      apply (ih hn hw').mpr
      refine ⟨hr, ?_⟩
      intro u v huv hv
      exact hall (a :: u) v (by rw [huv]; rfl) hv

theorem DFA.noPrefix_valid' (D : DFA σ τ) (eps : τ) (h : D.valid = true) (he : eps ∉ D.Sigma) :
    (D.noPrefix eps).valid = true := by
  unfold NFA.valid
  simp only [Bool.and_eq_true, decide_eq_true_eq, List.all_eq_true, Bool.or_eq_true, ssubset_iff]
  refine ⟨⟨⟨DFA.valid_q0 h, fun x hx => DFA.valid_F h hx⟩, he⟩, ?_⟩
  intro e' he'
  obtain ⟨⟨⟨q1, a1⟩, r1⟩, he1, rfl⟩ := List.mem_map.mp he'
  obtain ⟨hq, ha, hr⟩ := DFA.valid_closed h (List.mem_filter.mp he1).1
  refine ⟨⟨hq, Or.inl ha⟩, ?_⟩
  intro x hx
  rw [List.mem_singleton.mp hx]
  exact hr

theorem DFA.noPrefix_accepts_iff (D : DFA σ τ) (eps : τ) (h : D.valid = true) (he : eps ∉ D.Sigma)
    (w : List τ) (hw : ∀ a, a ∈ w → a ∈ D.Sigma) :
    (D.noPrefix eps).Accepts w ↔
      (D.Accepts w ∧ ∀ u v, w = u ++ v → v ≠ [] → ¬ D.Accepts u) := by
  have hpre : ∀ u v, w = u ++ v → ∀ a, a ∈ u → a ∈ D.Sigma := by
    intro u v huv a ha
    exact hw a (by rw [huv]; exact List.mem_append_left _ ha)
  unfold NFA.Accepts
  have hq0 : (D.noPrefix eps).q0 = D.q0 := rfl
  have hF : (D.noPrefix eps).F = D.F := rfl
  rw [hq0, hF, DFA.Accepts_iff_runT h hw]
  constructor
  · rintro ⟨f, hf, hr⟩
    obtain ⟨rfl, hall⟩ := (DFA.noPrefix_Run_iff D eps h he (DFA.valid_q0 h) w hw f).mp hr
    refine ⟨hf, ?_⟩
    intro u v huv hv
    rw [DFA.Accepts_iff_runT h (hpre u v huv)]
    exact hall u v huv hv
  · rintro ⟨hf, hall⟩
    refine ⟨_, hf, (DFA.noPrefix_Run_iff D eps h he (DFA.valid_q0 h) w hw _).mpr ⟨rfl, ?_⟩⟩
    intro u v huv hv
    rw [← DFA.Accepts_iff_runT h (hpre u v huv)]
    exact hall u v huv hv

end NoPrefix

/-! ### makeTotal -/
section MakeTotal

/-- "partial valid": `valid` without the totality conjunct -/
def DFA.pvalid (D : DFA σ τ) : Bool :=
  decide (D.q0 ∈ D.Q) && ssubset D.F D.Q &&
  D.delta.all (fun e => decide (e.1.1 ∈ D.Q) && decide (e.1.2 ∈ D.Sigma) && decide (e.2 ∈ D.Q))

theorem DFA.pvalid_iff (D : DFA σ τ) :
    D.pvalid = true ↔
      D.q0 ∈ D.Q ∧ (∀ f, f ∈ D.F → f ∈ D.Q) ∧
      (∀ q a r, ((q, a), r) ∈ D.delta → q ∈ D.Q ∧ a ∈ D.Sigma ∧ r ∈ D.Q) := by
  unfold DFA.pvalid
  rw [Bool.and_eq_true, Bool.and_eq_true, DFA.deltaClosed_iff, ssubset_iff, decide_eq_true_eq]
  constructor
  · rintro ⟨⟨h1, h2⟩, h3⟩; exact ⟨h1, h2, h3⟩
  · rintro ⟨h1, h2, h3⟩; exact ⟨⟨h1, h2⟩, h3⟩

theorem DFA.valid_pvalid {D : DFA σ τ} (h : D.valid = true) : D.pvalid = true := by
  rw [DFA.valid_iff] at h
  rw [DFA.pvalid_iff]
  exact ⟨h.1, h.2.1, h.2.2.1⟩

/-- the transitions added by `makeTotal` -/
def DFA.missing (D : DFA σ τ) (trap : σ) : List ((σ × τ) × σ) :=
  (sinsert D.Q trap).flatMap fun q =>
    (D.Sigma.filter fun a => !D.delta.has (q, a)).map fun a => ((q, a), trap)

theorem DFA.makeTotal_delta (D : DFA σ τ) (trap : σ) :
    (D.makeTotal trap).delta = D.delta ++ D.missing trap := rfl

theorem DFA.mem_missing (D : DFA σ τ) (trap : σ) (q : σ) (a : τ) (r : σ) :
    ((q, a), r) ∈ D.missing trap ↔
      (q ∈ D.Q ∨ q = trap) ∧ a ∈ D.Sigma ∧ D.delta.lookup (q, a) = none ∧ r = trap := by
  unfold DFA.missing
  simp only [List.mem_flatMap, List.mem_map, List.mem_filter, mem_sinsert, Prod.mk.injEq,
    Dict.has_eq_isSome, Bool.not_eq_true', Option.isSome_eq_false_iff, Option.isNone_iff_eq_none]
  constructor
  · rintro ⟨q1, hq1, a1, ⟨ha1, hn⟩, ⟨rfl, rfl⟩, rfl⟩
    exact ⟨hq1, ha1, hn, rfl⟩
  · rintro ⟨hq, ha, hn, rfl⟩
    exact ⟨q, hq, a, ⟨ha, hn⟩, ⟨rfl, rfl⟩, rfl⟩

theorem DFA.makeTotal_lookup_of_some (D : DFA σ τ) (trap : σ) {q : σ} {a : τ} {r : σ}
    (hl : D.delta.lookup (q, a) = some r) : (D.makeTotal trap).delta.lookup (q, a) = some r := by
  rw [DFA.makeTotal_delta, List.lookup_append, hl]
  rfl

theorem DFA.makeTotal_lookup_of_none (D : DFA σ τ) (trap : σ) {q : σ} {a : τ} {r : σ}
    (hn : D.delta.lookup (q, a) = none) (hl : (D.makeTotal trap).delta.lookup (q, a) = some r) :
    (q ∈ D.Q ∨ q = trap) ∧ a ∈ D.Sigma ∧ r = trap := by
  rw [DFA.makeTotal_delta, List.lookup_append, hn, Option.none_or] at hl
  have := (DFA.mem_missing D trap q a r).mp (mem_of_lookup_eq_some hl)
  exact ⟨this.1, this.2.1, this.2.2.2⟩

theorem DFA.makeTotal_lookup_total (D : DFA σ τ) (trap : σ) {q : σ} {a : τ}
    (hq : q ∈ D.Q ∨ q = trap) (ha : a ∈ D.Sigma) :
    ∃ r, (D.makeTotal trap).delta.lookup (q, a) = some r := by
  cases hl : D.delta.lookup (q, a) with
  | some r => exact ⟨r, DFA.makeTotal_lookup_of_some D trap hl⟩
  | none =>
    refine ⟨trap, ?_⟩
    rw [DFA.makeTotal_delta, List.lookup_append, hl, Option.none_or]
    apply lookup_eq_some_of_unique
    · exact (DFA.mem_missing D trap q a trap).mpr ⟨hq, ha, hl, rfl⟩
    · intro v hv
      exact ((DFA.mem_missing D trap q a v).mp hv).2.2.2

theorem DFA.makeTotal_mem_Q (D : DFA σ τ) (trap : σ) (q : σ) :
    q ∈ (D.makeTotal trap).Q ↔ q ∈ D.Q ∨ q = trap := by
  have : (D.makeTotal trap).Q = sinsert D.Q trap := rfl
  rw [this, mem_sinsert]

theorem DFA.makeTotal_valid' (D : DFA σ τ) (trap : σ) (h : D.pvalid = true) :
    (D.makeTotal trap).valid = true := by
  obtain ⟨h1, h2, h3⟩ := (DFA.pvalid_iff D).mp h
  rw [DFA.valid_iff]
  refine ⟨?_, ?_, ?_, ?_⟩
  · exact (DFA.makeTotal_mem_Q D trap _).mpr (Or.inl h1)
  · intro f hf
    exact (DFA.makeTotal_mem_Q D trap _).mpr (Or.inl (h2 f hf))
  · intro q a r he
    rw [DFA.makeTotal_delta, List.mem_append] at he
    simp only [DFA.makeTotal_mem_Q]
    rcases he with he | he
    · obtain ⟨hq, ha, hr⟩ := h3 q a r he
      exact ⟨Or.inl hq, ha, Or.inl hr⟩
    · obtain ⟨hq, ha, _, hr⟩ := (DFA.mem_missing D trap q a r).mp he
      exact ⟨hq, ha, Or.inr hr⟩
  · intro q a hq ha
    exact DFA.makeTotal_lookup_total D trap ((DFA.makeTotal_mem_Q D trap q).mp hq) ha

/-- the trap state is a sink -/
theorem DFA.makeTotal_trap_run (D : DFA σ τ) (trap : σ) (h : D.pvalid = true) (ht : trap ∉ D.Q)
    {q : σ} {w : List τ} {r : σ} (hr : (D.makeTotal trap).Run q w r) (hq : q = trap) : r = trap := by
  obtain ⟨_, _, h3⟩ := (DFA.pvalid_iff D).mp h
  induction hr with
  | nil q => exact hq
  | @cons q q' r a w hl _ ih =>
    apply ih
    subst hq
    cases hD : D.delta.lookup (q, a) with
    | some r' => exact absurd (h3 _ _ _ (mem_of_lookup_eq_some hD)).1 ht
    | none => exact (DFA.makeTotal_lookup_of_none D q hD hl).2.2

theorem DFA.makeTotal_Run_of_Run (D : DFA σ τ) (trap : σ)
    {q : σ} {w : List τ} {r : σ} (hr : D.Run q w r) : (D.makeTotal trap).Run q w r := by
  induction hr with
  | nil q => exact DFA.Run.nil _
  | cons hl _ ih => exact DFA.Run.cons (DFA.makeTotal_lookup_of_some D trap hl) ih

theorem DFA.Run_of_makeTotal_Run (D : DFA σ τ) (trap : σ) (h : D.pvalid = true) (ht : trap ∉ D.Q)
    {q : σ} {w : List τ} {r : σ} (hr : (D.makeTotal trap).Run q w r) (hq : q ∈ D.Q) (hrQ : r ∈ D.Q) :
    D.Run q w r := by
  obtain ⟨_, _, h3⟩ := (DFA.pvalid_iff D).mp h
  induction hr with
  | nil q => exact DFA.Run.nil _
  | @cons q q' r a w hl hr' ih =>
    cases hD : D.delta.lookup (q, a) with
    | some r' =>
      have hl' := DFA.makeTotal_lookup_of_some D trap hD
      rw [hl] at hl'
      cases hl'
      exact DFA.Run.cons hD (ih (h3 _ _ _ (mem_of_lookup_eq_some hD)).2.2 hrQ)
    | none =>
      have hq' := (DFA.makeTotal_lookup_of_none D trap hD hl).2.2
      have := DFA.makeTotal_trap_run D trap h ht hr' hq'
      exact absurd (this ▸ hrQ) ht

theorem DFA.makeTotal_accepts_iff (D : DFA σ τ) (trap : σ) (h : D.pvalid = true) (ht : trap ∉ D.Q)
    (w : List τ) : (D.makeTotal trap).Accepts w ↔ D.Accepts w := by
  obtain ⟨h1, h2, _⟩ := (DFA.pvalid_iff D).mp h
  unfold DFA.Accepts
  have hq0 : (D.makeTotal trap).q0 = D.q0 := rfl
  have hF : (D.makeTotal trap).F = D.F := rfl
  rw [hq0, hF]
  constructor
  · rintro ⟨f, hf, hr⟩
    exact ⟨f, hf, DFA.Run_of_makeTotal_Run D trap h ht hr h1 (h2 f hf)⟩
  · rintro ⟨f, hf, hr⟩
    exact ⟨f, hf, DFA.makeTotal_Run_of_Run D trap hr⟩

end MakeTotal

/-! ### freshState -/
section Fresh

theorem nat_toString_injective {m n : Nat} (h : toString m = toString n) : m = n := by
  have h' : Nat.repr m = Nat.repr n := h
  have h'' : Nat.toDigits 10 m = Nat.toDigits 10 n := by
    rw [← Nat.toList_repr, ← Nat.toList_repr, h']
  rw [← @Nat.ofDigitChars_ten_toDigits m, ← @Nat.ofDigitChars_ten_toDigits n, h'']

theorem freshStateAux_mem (Q : List String) (hint : String) (fuel i : Nat)
    (h : freshStateAux Q hint fuel i ∈ Q) :
    ∀ j, i ≤ j → j ≤ i + fuel → hint ++ toString j ∈ Q := by
  induction fuel generalizing i with
  | zero =>
    intro j h1 h2
    have : j = i := by omega
    subst this
    exact h
  | succ fuel ih =>
    intro j h1 h2
    unfold freshStateAux at h
    split at h
    · rename_i hi
      by_cases hj : j = i
      · subst hj; exact hi
      · exact ih (i + 1) h j (by omega) (by omega)
    · rename_i hi
      exact absurd h hi

theorem freshState_not_mem (Q : List String) (hint : String) : freshState Q hint ∉ Q := by
  intro h
  have hall := freshStateAux_mem Q hint (Q.length + 1) 1 h
  let cands := (List.range' 1 (Q.length + 2)).map (fun j => hint ++ toString j)
  have hsub : cands ⊆ Q := by
    intro s hs
    obtain ⟨j, hj, rfl⟩ := List.mem_map.mp hs
    rw [List.mem_range'_1] at hj
    exact hall j hj.1 (by omega)
  have hnd : cands.Nodup := by
    refine List.Pairwise.map (R := (· ≠ ·)) _ ?_ (List.nodup_range' (s := 1) (n := Q.length + 2))
    intro a b hab he
    exact hab (nat_toString_injective ((String.append_right_inj hint).mp he))
  have hlen := hnd.length_le_of_subset hsub
  simp only [cands, List.length_map, List.length_range'] at hlen
  omega

end Fresh

/-! ### concrete automata for the non-vacuity examples of Props/C14a -/
namespace C14a

/-- words over {a,b} ending in `a` -/
def exD1 : DFA String String :=
  { Q := ["p", "q"], Sigma := ["a", "b"],
    delta := [(("p", "a"), "q"), (("p", "b"), "p"), (("q", "a"), "q"), (("q", "b"), "p")],
    q0 := "p", F := ["q"] }

/-- words over {a,b} of even length -/
def exD2 : DFA String String :=
  { Q := ["e", "o"], Sigma := ["b", "a"],
    delta := [(("e", "a"), "o"), (("e", "b"), "o"), (("o", "a"), "e"), (("o", "b"), "e")],
    q0 := "e", F := ["e"] }

/-- a partial DFA (no transitions out of `q`, none on `b`) accepting exactly `a` -/
def exP : DFA String String :=
  { Q := ["p", "q"], Sigma := ["a", "b"], delta := [(("p", "a"), "q")], q0 := "p", F := ["q"] }

theorem exD1_valid : exD1.valid = true := by decide
theorem exD2_valid : exD2.valid = true := by decide
theorem exD12_sigma : ∀ a, a ∈ exD1.Sigma ↔ a ∈ exD2.Sigma := by
  intro a; simp only [exD1, exD2, List.mem_cons, List.not_mem_nil, or_false]; exact Or.comm
theorem exP_pvalid : exP.pvalid = true := by decide
theorem exP_not_valid : exP.valid = false := by decide

theorem exRename_inj : ∀ p q : String, p ∈ exD1.Q → q ∈ exD1.Q → p ++ "'" = q ++ "'" → p = q :=
  fun _ _ _ _ h => (String.append_left_inj "'").mp h

end C14a

end Gamba
