/-
  Gamba.Proofs.C12g — helper lemmas for "the counterexample word a checker reports is genuine"
  (`Gamba.Model.CheckCex`): order independence of `compareLanguages`, the generic passage from the two enumerated
  languages to semantic acceptance predicates, the unpacking of every `xxxLangs` function, and the
  `accepts / rejects` report.
-/
import Gamba.Model.CheckCex
import Gamba.Props.C14c
import Gamba.Props.C02reg
import Gamba.Props.C02cfg
import Gamba.Props.C04b
import Gamba.Props.C05
import Gamba.Props.C12a
import Gamba.Props.C12c
import Gamba.Props.C12d
import Gamba.Props.C12e
import Gamba.Props.C12f
namespace Gamba
namespace C12g
open Parse

/-! ### `compareLanguages`: existence of a report from the set-level facts -/

section
variable {τ : Type} [DecidableEq τ]

/-- an extra word exists ⇒ a word with polarity `true` is reported -/
theorem compare_true_of_extra {A1 A2 : List (List τ)} {v : List τ} (h1 : v ∈ A1) (h2 : v ∉ A2) :
    ∃ w, compareLanguages A1 A2 = some (w, true) := by
  unfold compareLanguages
  cases hf : firstShortest (sdiff (dedup A1) A2) with
  | some w => exact ⟨w, rfl⟩
  | none =>
    have e := (firstShortest_eq_none _).mp hf
    have : v ∈ sdiff (dedup A1) A2 := by simp [h1, h2]
    rw [e] at this; cases this

/-- no extra word but a missing one ⇒ a word with polarity `false` is reported -/
theorem compare_false_of_missing {A1 A2 : List (List τ)} {v : List τ} (hsub : ∀ u, u ∈ A1 → u ∈ A2)
    (h1 : v ∈ A2) (h2 : v ∉ A1) : ∃ w, compareLanguages A1 A2 = some (w, false) := by
  unfold compareLanguages
  have e1 : sdiff (dedup A1) A2 = [] := by
    apply List.eq_nil_iff_forall_not_mem.mpr
    intro u hu
    simp only [mem_sdiff, mem_dedup] at hu
    exact hu.2 (hsub u hu.1)
  rw [e1]
  simp only [firstShortest]
  cases hf : firstShortest (sdiff (dedup A2) A1) with
  | some w => exact ⟨w, rfl⟩
  | none =>
    have e := (firstShortest_eq_none _).mp hf
    have : v ∈ sdiff (dedup A2) A1 := by simp [h1, h2]
    rw [e] at this; cases this

/-- polarity and length of the reported word only depend on the two SETS -/
theorem compare_order_independent {A1 A1' A2 A2' : List (List τ)} (e1 : ∀ w, w ∈ A1' ↔ w ∈ A1)
    (e2 : ∀ w, w ∈ A2' ↔ w ∈ A2) {w : List τ} {b : Bool} (h : compareLanguages A1 A2 = some (w, b)) :
    ∃ w', compareLanguages A1' A2' = some (w', b) ∧ w'.length = w.length := by
  cases b with
  | true =>
    obtain ⟨m1, m2, mn⟩ := compare_extra A1 A2 w h
    obtain ⟨w', hw'⟩ := compare_true_of_extra (A1 := A1') (A2 := A2') ((e1 w).mpr m1) (fun hc => m2 ((e2 w).mp hc))
    obtain ⟨m1', m2', mn'⟩ := compare_extra A1' A2' w' hw'
    refine ⟨w', hw', Nat.le_antisymm ?_ ?_⟩
    · exact mn' w ((e1 w).mpr m1) (fun hc => m2 ((e2 w).mp hc))
    · exact mn w' ((e1 w').mp m1') (fun hc => m2' ((e2 w').mpr hc))
  | false =>
    obtain ⟨m1, m2, mn, ms⟩ := compare_missing A1 A2 w h
    obtain ⟨w', hw'⟩ := compare_false_of_missing (A1 := A1') (A2 := A2')
      (fun u hu => (e2 u).mpr (ms u ((e1 u).mp hu))) ((e2 w).mpr m1) (fun hc => m2 ((e1 w).mp hc))
    obtain ⟨m1', m2', mn', _⟩ := compare_missing A1' A2' w' hw'
    refine ⟨w', hw', Nat.le_antisymm ?_ ?_⟩
    · exact mn' w ((e2 w).mpr m1) (fun hc => m2 ((e1 w).mp hc))
    · exact mn w' ((e2 w').mp m1') (fun hc => m2' ((e1 w').mpr hc))

theorem compare_order_independent_none {A1 A1' A2 A2' : List (List τ)} (e1 : ∀ w, w ∈ A1' ↔ w ∈ A1)
    (e2 : ∀ w, w ∈ A2' ↔ w ∈ A2) (h : compareLanguages A1 A2 = none) : compareLanguages A1' A2' = none := by
  rw [compare_none_iff] at h ⊢
  intro w
  rw [e1 w, e2 w]
  exact h w

end

/-! ### from the enumerations to semantic predicates -/

/-- both languages are "the words of length ≤ len with property `P`" -/
theorem genuine_of_compare {A1 A2 : List (List String)} {len : Nat} {P1 P2 : List String → Prop}
    (h1 : ∀ w, w ∈ A1 ↔ w.length ≤ len ∧ P1 w) (h2 : ∀ w, w ∈ A2 ↔ w.length ≤ len ∧ P2 w)
    {w : List String} {b : Bool} (h : compareLanguages A1 A2 = some (w, b)) :
    w.length ≤ len ∧
    (b = true → P1 w ∧ ¬ P2 w ∧ ∀ v, v.length ≤ len → P1 v → ¬ P2 v → w.length ≤ v.length) ∧
    (b = false → P2 w ∧ ¬ P1 w ∧ (∀ v, v.length ≤ len → P2 v → ¬ P1 v → w.length ≤ v.length) ∧
      ∀ v, v.length ≤ len → P1 v → P2 v) := by
  cases b with
  | true =>
    obtain ⟨m1, m2, mn⟩ := compare_extra A1 A2 w h
    have hw := (h1 w).mp m1
    refine ⟨hw.1, fun _ => ⟨hw.2, fun hp => m2 ((h2 w).mpr ⟨hw.1, hp⟩), fun v hl p1 p2 => ?_⟩, fun hb => Bool.noConfusion hb⟩
    exact mn v ((h1 v).mpr ⟨hl, p1⟩) (fun hc => p2 ((h2 v).mp hc).2)
  | false =>
    obtain ⟨m1, m2, mn, ms⟩ := compare_missing A1 A2 w h
    have hw := (h2 w).mp m1
    refine ⟨hw.1, fun hb => Bool.noConfusion hb,
      fun _ => ⟨hw.2, fun hp => m2 ((h1 w).mpr ⟨hw.1, hp⟩), fun v hl p2 p1 => ?_, fun v hl p1 => ?_⟩⟩
    · exact mn v ((h2 v).mpr ⟨hl, p2⟩) (fun hc => p1 ((h1 v).mp hc).2)
    · exact ((h2 v).mp (ms v ((h1 v).mpr ⟨hl, p1⟩))).2

/-- the expected side is a word list `M` (which may contain words longer than `len`) -/
theorem genuine_of_compare_list {A1 M : List (List String)} {len : Nat} {P1 : List String → Prop}
    (h1 : ∀ w, w ∈ A1 ↔ w.length ≤ len ∧ P1 w)
    {w : List String} {b : Bool} (h : compareLanguages A1 M = some (w, b)) :
    (b = true → w.length ≤ len ∧ P1 w ∧ w ∉ M ∧ ∀ v, v.length ≤ len → P1 v → v ∉ M → w.length ≤ v.length) ∧
    (b = false → w ∈ M ∧ (len < w.length ∨ ¬ P1 w) ∧
      (∀ v, v ∈ M → (len < v.length ∨ ¬ P1 v) → w.length ≤ v.length) ∧
      ∀ v, v.length ≤ len → P1 v → v ∈ M) := by
  cases b with
  | true =>
    obtain ⟨m1, m2, mn⟩ := compare_extra A1 M w h
    have hw := (h1 w).mp m1
    refine ⟨fun _ => ⟨hw.1, hw.2, m2, fun v hl p1 p2 => mn v ((h1 v).mpr ⟨hl, p1⟩) p2⟩, fun hb => Bool.noConfusion hb⟩
  | false =>
    obtain ⟨m1, m2, mn, ms⟩ := compare_missing A1 M w h
    have key : ∀ v, (len < v.length ∨ ¬ P1 v) ↔ v ∉ A1 := by
      intro v
      rw [h1 v]
      constructor
      · rintro (hl | hp) ⟨h3, h4⟩
        · omega
        · exact hp h4
      · intro hn
        by_cases hl : v.length ≤ len
        · exact Or.inr (fun hp => hn ⟨hl, hp⟩)
        · exact Or.inl (by omega)
    refine ⟨fun hb => Bool.noConfusion hb, fun _ => ⟨m1, (key w).mpr m2, fun v hv hd => mn v hv ((key v).mp hd),
      fun v hl p1 => ms v ((h1 v).mpr ⟨hl, p1⟩)⟩⟩

/-! ### the enumerations of valid automata, without the alphabet clause -/

theorem dfa_words_iff {σ : Type} [DecidableEq σ] {D : DFA σ String} (hv : D.valid = true) (len : Nat) (w : List String) :
    w ∈ D.wordsUpTo len ↔ w.length ≤ len ∧ D.Accepts w := by
  rw [dfa_words_exact D hv len w]
  exact ⟨fun h => ⟨h.1, h.2.2⟩, fun h => ⟨h.1, DFA.Accepts.over hv h.2, h.2⟩⟩

theorem nfa_words_iff {N : NFA String String} (hv : N.valid = true) {s : Sched} {len : Nat} {L : List (List String)}
    (hL : N.wordsUpTo s len = .ok L) (w : List String) : w ∈ L ↔ w.length ≤ len ∧ N.Accepts w := by
  obtain ⟨L', e, m⟩ := nfa_words_exact N hv s len
  rw [hL] at e
  cases e
  rw [m w]
  exact ⟨fun h => ⟨h.1, h.2.2⟩, fun h => ⟨h.1, NFA.Accepts.over hv h.2, h.2⟩⟩

theorem reverse_words_iff {D : DFA String String} (hv : D.valid = true) (len : Nat) (w : List String) :
    w ∈ langReverse (D.wordsUpTo len) ↔ w.length ≤ len ∧ D.Accepts w.reverse := by
  rw [langReverse_spec, dfa_words_iff hv, List.length_reverse]

open Classical in
theorem product_words_iff {D1 D2 : DFA String String} (h1 : D1.valid = true) (h2 : D2.valid = true)
    (t : ProductType) (len : Nat) (w : List String) :
    w ∈ CheckCex.expectedProduct t (D1.wordsUpTo len) (D2.wordsUpTo len) ↔
      w.length ≤ len ∧ t.accept (decide (D1.Accepts w)) (decide (D2.Accepts w)) = true := by
  cases t with
  | union =>
    simp only [CheckCex.expectedProduct, langUnion_spec, dfa_words_iff h1, dfa_words_iff h2, ProductType.accept,
      Bool.or_eq_true, decide_eq_true_eq]
    constructor
    · rintro (⟨a, b⟩ | ⟨a, b⟩)
      · exact ⟨a, Or.inl b⟩
      · exact ⟨a, Or.inr b⟩
    · rintro ⟨a, b | b⟩
      · exact Or.inl ⟨a, b⟩
      · exact Or.inr ⟨a, b⟩
  | intersection =>
    simp only [CheckCex.expectedProduct, langInter_spec, dfa_words_iff h1, dfa_words_iff h2, ProductType.accept,
      Bool.and_eq_true, decide_eq_true_eq]
    constructor
    · rintro ⟨⟨a, b⟩, _, c⟩; exact ⟨a, b, c⟩
    · rintro ⟨a, b, c⟩; exact ⟨⟨a, b⟩, a, c⟩
  | symmetricDifference =>
    simp only [CheckCex.expectedProduct, langSymDiff_spec, dfa_words_iff h1, dfa_words_iff h2, ProductType.accept,
      Bool.or_eq_true, Bool.and_eq_true, Bool.not_eq_true', decide_eq_true_eq, decide_eq_false_iff_not]
    constructor
    · rintro (⟨⟨a, b⟩, c⟩ | ⟨c, a, b⟩)
      · exact ⟨a, Or.inl ⟨b, fun hc => c ⟨a, hc⟩⟩⟩
      · exact ⟨a, Or.inr ⟨fun hc => c ⟨a, hc⟩, b⟩⟩
    · rintro ⟨a, ⟨b, c⟩ | ⟨b, c⟩⟩
      · exact Or.inl ⟨⟨a, b⟩, fun hc => c hc.2⟩
      · exact Or.inr ⟨fun hc => b hc.2, a, c⟩

/-! ### `report` and the `xxxLangs` functions unpacked -/

open CheckCex in
theorem report_some {P : Option (Lang × Lang)} {w : List String} {b : Bool} (h : report P = some (w, b)) :
    ∃ A1 A2, P = some (A1, A2) ∧ compareLanguages A1 A2 = some (w, b) := by
  cases P with
  | none => cases h
  | some p => exact ⟨p.1, p.2, rfl, h⟩

open CheckCex in
theorem report_none_of {P : Option (Lang × Lang)} (h : ∀ A1 A2, P = some (A1, A2) → ∀ w, w ∈ A1 ↔ w ∈ A2) :
    report P = none := by
  cases P with
  | none => rfl
  | some p => exact (compare_none_iff p.1 p.2).mpr (h p.1 p.2 rfl)

open CheckCex in
theorem dfaLanguageFileLangs_some {answer refText : String} {len : Nat} {A1 A2 : Lang}
    (h : dfaLanguageFileLangs answer refText len = some (A1, A2)) :
    ∃ A D, parseDfa answer.toList = .ok A ∧ parseDfa refText.toList = .ok D ∧
      A1 = A.wordsUpTo len ∧ A2 = D.wordsUpTo len := by
  unfold dfaLanguageFileLangs at h
  split at h
  · rename_i A D h1 h2
    cases h
    exact ⟨A, D, h1, h2, rfl, rfl⟩
  · cases h

open CheckCex in
theorem nfaLanguageFileLangs_some {answer refText : String} {s : Sched} {len : Nat} {A1 A2 : Lang}
    (h : nfaLanguageFileLangs answer refText s len = some (A1, A2)) :
    ∃ A N, parseNfa answer.toList = .ok A ∧ parseNfa refText.toList = .ok N ∧
      A.wordsUpTo s len = .ok A1 ∧ N.wordsUpTo s len = .ok A2 := by
  unfold nfaLanguageFileLangs at h
  split at h
  · rename_i A N h1 h2
    split at h
    · rename_i L1 L2 h3 h4
      cases h
      exact ⟨A, N, h1, h2, h3, h4⟩
    · cases h
  · cases h

open CheckCex in
theorem dfaLanguageWordsLangs_some {answer wordList : String} {len : Nat} {A1 A2 : Lang}
    (h : dfaLanguageWordsLangs answer wordList len = some (A1, A2)) :
    ∃ A, parseDfa answer.toList = .ok A ∧ A1 = A.wordsUpTo len ∧ A2 = CheckText.parseWordList wordList := by
  unfold dfaLanguageWordsLangs at h
  split at h
  · rename_i A h1
    cases h
    exact ⟨A, h1, rfl, rfl⟩
  · cases h

open CheckCex in
theorem nfaLanguageWordsLangs_some {answer wordList : String} {s : Sched} {len : Nat} {A1 A2 : Lang}
    (h : nfaLanguageWordsLangs answer wordList s len = some (A1, A2)) :
    ∃ A, parseNfa answer.toList = .ok A ∧ A.wordsUpTo s len = .ok A1 ∧ A2 = CheckText.parseWordList wordList := by
  unfold nfaLanguageWordsLangs at h
  split at h
  · rename_i A h1
    split at h
    · rename_i L h2
      cases h
      exact ⟨A, h1, h2, rfl⟩
    · cases h
  · cases h

open CheckCex in
theorem cfgLanguageWordsLangs_some {answer wordList : String} {len : Nat} {A1 A2 : Lang}
    (h : cfgLanguageWordsLangs answer wordList len = some (A1, A2)) :
    ∃ G eps, CfgText.parseSimpleCfg answer.toList = .ok (G, eps) ∧ A1 = G.wordsUpTo len ∧
      A2 = CheckText.parseWordList wordList := by
  unfold cfgLanguageWordsLangs at h
  split at h
  · rename_i G eps h1
    cases h
    exact ⟨G, eps, h1, rfl, rfl⟩
  · cases h

open CheckCex in
theorem dfa2regexpLangs_some {dfa answer : String} {len : Nat} {A1 A2 : Lang}
    (h : dfa2regexpLangs dfa answer len = some (A1, A2)) :
    ∃ D r, parseDfa dfa.toList = .ok D ∧ RegexpText.parseSimple answer = some r ∧
      A1 = r.wordsUpTo len ∧ A2 = D.wordsUpTo len := by
  unfold dfa2regexpLangs at h
  split at h
  · rename_i D r h1 h2
    cases h
    exact ⟨D, r, h1, h2, rfl, rfl⟩
  · cases h

open CheckCex in
theorem chomskyLangs_some {cfg answer : String} {len : Nat} {A1 A2 : Lang}
    (h : chomskyLangs cfg answer len = some (A1, A2)) :
    ∃ G eps G1 eps1, CfgText.parseSimpleCfg cfg.toList = .ok (G, eps) ∧
      CfgText.parseSimpleCfg answer.toList = .ok (G1, eps1) ∧ A1 = G1.wordsUpTo len ∧ A2 = G.wordsUpTo len := by
  unfold chomskyLangs at h
  split at h
  · rename_i G eps G1 eps1 h1 h2
    cases h
    exact ⟨G, eps, G1, eps1, h1, h2, rfl, rfl⟩
  · cases h

open CheckCex in
theorem reverseLangs_some {dfa answer : String} {s : Sched} {len : Nat} {A1 A2 : Lang}
    (h : reverseLangs dfa answer s len = some (A1, A2)) :
    ∃ D A, parseDfa dfa.toList = .ok D ∧ parseNfa answer.toList = .ok A ∧
      A.wordsUpTo s len = .ok A1 ∧ A2 = langReverse (D.wordsUpTo len) := by
  unfold reverseLangs at h
  split at h
  · rename_i D A h1 h2
    split at h
    · rename_i L1 h3
      cases h
      exact ⟨D, A, h1, h2, h3, rfl⟩
    · cases h
  · cases h

open CheckCex in
theorem minimalLangs_some {dfa answer : String} {len : Nat} {A1 A2 : Lang}
    (h : minimalLangs dfa answer len = some (A1, A2)) :
    ∃ D A, ∃ M : DFA (List String) String,
      parseDfa dfa.toList = .ok D ∧ parseDfa answer.toList CheckText.wordOrSetStateOk = .ok A ∧
      D.quotient = .ok M ∧ A1 = A.wordsUpTo len ∧ A2 = M.wordsUpTo len := by
  unfold minimalLangs at h
  split at h
  · rename_i D A h1 h2
    split at h
    · rename_i M h3
      cases h
      exact ⟨D, A, M, h1, h2, h3, rfl, rfl⟩
    · cases h
  · cases h

open CheckCex in
theorem productLangs_some {t : ProductType} {answer dfa1 dfa2 : String} {len : Nat} {A1 A2 : Lang}
    (h : productLangs t answer dfa1 dfa2 len = some (A1, A2)) :
    ∃ D1 D2 A, parseDfa dfa1.toList = .ok D1 ∧ parseDfa dfa2.toList = .ok D2 ∧
      parseDfa answer.toList CheckText.productStateOk = .ok A ∧ (∀ a, a ∈ D1.Sigma ↔ a ∈ D2.Sigma) ∧
      A1 = A.wordsUpTo len ∧ A2 = expectedProduct t (D1.wordsUpTo len) (D2.wordsUpTo len) := by
  unfold productLangs at h
  split at h
  · rename_i D1 D2 A h1 h2 h3
    split at h
    · cases h
    · rename_i hS
      simp only [Bool.not_eq_true, Bool.not_eq_false'] at hS
      split at h
      · cases h
      · cases h
        exact ⟨D1, D2, A, h1, h2, h3, seq_iff.mp hS, rfl, rfl⟩
  · cases h

/-- the quotient automaton of a parsed DFA: valid, and it accepts exactly the words of the DFA -/
theorem quotient_lang {D : DFA String String} {M : DFA (List String) String} (hv : D.valid = true) (hQ : D.Q.Nodup) (hM : D.quotient = .ok M) :
    M.valid = true ∧ ∀ w, M.Accepts w ↔ D.Accepts w := by
  obtain ⟨M', hM', hMv, hMS, _, hML, _⟩ := quotient_spec D hv hQ
  rw [hM] at hM'
  cases hM'
  refine ⟨hMv, fun w => ⟨fun h => ?_, fun h => ?_⟩⟩
  · exact (hML w (hMS ▸ DFA.Accepts.over hMv h)).mp h
  · exact (hML w (DFA.Accepts.over hv h)).mpr h

/-! ### `accepts / rejects` -/

section
variable {α β ε : Type}

/-- position by position: the `i`-th result of a successful `mapM` is the result on the `i`-th argument, and every
    argument has a position -/
theorem mapM_ok_zip {f : α → Except ε β} {l : List α} {bs : List β} (h : l.mapM f = .ok bs) :
    (∀ p, p ∈ l.zip bs → f p.1 = .ok p.2) ∧ ∀ x, x ∈ l → ∃ b, (x, b) ∈ l.zip bs := by
  induction l generalizing bs with
  | nil => exact ⟨fun p hp => by simp at hp, fun x hx => by cases hx⟩
  | cons x l ih =>
    cases hx : f x with
    | error e => rw [C12e.mapM_cons_error hx] at h; cases h
    | ok b0 =>
      rw [C12e.mapM_cons_ok hx] at h
      cases hl : l.mapM f with
      | error e => rw [hl] at h; cases h
      | ok bs' =>
        rw [hl] at h
        cases h
        obtain ⟨i1, i2⟩ := ih hl
        refine ⟨fun p hp => ?_, fun y hy => ?_⟩
        · rw [List.zip_cons_cons] at hp
          rcases List.mem_cons.mp hp with rfl | hp
          · exact hx
          · exact i1 p hp
        · rw [List.zip_cons_cons]
          rcases List.mem_cons.mp hy with rfl | hy
          · exact ⟨b0, List.mem_cons_self⟩
          · obtain ⟨b, hb⟩ := i2 y hy
            exact ⟨b, List.mem_cons_of_mem _ hb⟩

end

open CheckCex in
/-- the reported word of `check_automaton_accepts_rejects` in terms of the acceptance test -/
theorem acceptsRejectsReport_some {acc : List String → Except Err Bool} {accepted rejected : String}
    {w : List String} {b : Bool} (h : acceptsRejectsReport acc accepted rejected = some (w, b)) :
    (b = false → w ∈ CheckText.parseWordList accepted ∧ acc w = .ok false) ∧
    (b = true → w ∈ CheckText.parseWordList rejected ∧ acc w = .ok true ∧
      ∀ v, v ∈ CheckText.parseWordList accepted → acc v = .ok true) := by
  unfold acceptsRejectsReport at h
  split at h
  · rename_i a r ha hr
    split at h
    · rename_i p hp
      cases h
      have hm := List.mem_of_find?_eq_some hp
      have hb := List.find?_some hp
      have hacc := (mapM_ok_zip ha).1 p hm
      simp only [Bool.not_eq_true'] at hb
      rw [hb] at hacc
      exact ⟨fun _ => ⟨(List.of_mem_zip hm).1, hacc⟩, fun hc => Bool.noConfusion hc⟩
    · rename_i hnone
      split at h
      · rename_i p hp
        cases h
        have hm := List.mem_of_find?_eq_some hp
        have hb := List.find?_some hp
        have hacc := (mapM_ok_zip hr).1 p hm
        rw [hb] at hacc
        refine ⟨fun hc => Bool.noConfusion hc, fun _ => ⟨(List.of_mem_zip hm).1, hacc, fun v hv => ?_⟩⟩
        obtain ⟨bv, hbv⟩ := (mapM_ok_zip ha).2 v hv
        have hfv := (mapM_ok_zip ha).1 _ hbv
        rw [List.find?_eq_none] at hnone
        have := hnone _ hbv
        simp only [Bool.not_eq_true', Bool.not_eq_false] at this
        rw [hfv]
        exact congrArg Except.ok this
      · cases h
  · cases h

open CheckCex in
theorem dfaAcceptsRejectsReport_some {dfa accepted rejected : String} {w : List String} {b : Bool}
    (h : dfaAcceptsRejectsReport dfa accepted rejected = some (w, b)) :
    ∃ D, parseDfa dfa.toList = .ok D ∧ acceptsRejectsReport D.accepts accepted rejected = some (w, b) := by
  unfold dfaAcceptsRejectsReport at h
  split at h
  · rename_i D h1; exact ⟨D, h1, h⟩
  · cases h

open CheckCex in
theorem cfgAcceptsRejectsReport_some {cfg accepted rejected : String} {w : List String} {b : Bool}
    (h : cfgAcceptsRejectsReport cfg accepted rejected = some (w, b)) :
    ∃ G eps, CfgText.parseSimpleCfg cfg.toList = .ok (G, eps) ∧
      acceptsRejectsReport G.accepts accepted rejected = some (w, b) := by
  unfold cfgAcceptsRejectsReport at h
  split at h
  · rename_i G eps h1; exact ⟨G, eps, h1, h⟩
  · cases h

open CheckCex in
/-- verdict `OK` ⇒ nothing is reported -/
theorem acceptsRejectsReport_none_of_ok {acc : List String → Except Err Bool} {accepted rejected : String}
    (h : CheckText.acceptsRejectsWith acc accepted rejected = .ok) :
    acceptsRejectsReport acc accepted rejected = none := by
  obtain ⟨ha, hr⟩ := (C12e.acceptsRejectsWith_ok_iff acc accepted rejected).mp h
  cases hrep : acceptsRejectsReport acc accepted rejected with
  | none => rfl
  | some p =>
    obtain ⟨w, b⟩ := p
    obtain ⟨hf, ht⟩ := acceptsRejectsReport_some hrep
    cases b with
    | false =>
      obtain ⟨hm, hacc⟩ := hf rfl
      rw [ha w hm] at hacc
      cases hacc
    | true =>
      obtain ⟨hm, hacc, _⟩ := ht rfl
      rw [hr w hm] at hacc
      cases hacc

/-! ### the object-level checks: `true` ⇒ the two enumerations are equal as sets -/

theorem reverseCheck_true_compare {D : DFA String String} {A : NFA String String} {s : Sched} {len : Nat}
    {L : List (List String)} (h : Check.reverseCheck D A s len = .ok true) (hL : A.wordsUpTo s len = .ok L) :
    ∀ w, w ∈ L ↔ w ∈ langReverse (D.wordsUpTo len) := by
  unfold Check.reverseCheck at h
  rw [hL] at h
  simp only [bind, Except.bind, pure, Except.pure, Except.ok.injEq, Bool.and_eq_true,
    C12a.compare_isNone_iff] at h
  exact h.2

theorem minimalCheck_true_compare {D A : DFA String String} {M : DFA (List String) String} {len : Nat}
    (h : Check.minimalCheck D A len = .ok true) (hM : D.quotient = .ok M) :
    ∀ w, w ∈ A.wordsUpTo len ↔ w ∈ M.wordsUpTo len := by
  unfold Check.minimalCheck at h
  rw [hM] at h
  simp only [bind, Except.bind, pure, Except.pure, Except.ok.injEq, Bool.and_eq_true,
    C12a.compare_isNone_iff] at h
  exact h.2

theorem chomskyCheck_true_compare {G G1 : CFG} {phase : Nat} {start : String} {len : Nat}
    (h : Check.chomskyCheck G G1 phase start len = true) :
    ∀ w, w ∈ G1.wordsUpTo len ↔ w ∈ G.wordsUpTo len := by
  unfold Check.chomskyCheck at h
  simp only [Bool.and_eq_true, C12a.compare_isNone_iff] at h
  exact h.1.1.1.1.1

theorem productCheck_true_compare {t : ProductType} {D1 D2 A : DFA String String} {len : Nat}
    (h : Check.productCheck t D1 D2 A len = some true) :
    ∀ w, w ∈ A.wordsUpTo len ↔ w ∈ CheckCex.expectedProduct t (D1.wordsUpTo len) (D2.wordsUpTo len) := by
  obtain ⟨_, _, hL⟩ := C12a.productCheck_true h
  cases t <;> exact hL

end C12g
end Gamba
