/-
  Gamba.Proofs.C16c — the PDA and TM text formats: unpacking `parsePda` / `parseTm` ("the parsers build exactly
  what was written"), and the round trips `parsePda (printPda P)`, `parseTm (printTm T)`.
-/
import Gamba.Proofs.TextBasic
import Gamba.Proofs.C16a
namespace Gamba
open Parse Text

/-! ### association lists: `Dict.set` and folds of `Dict.set` -/
namespace C16c
section
variable {κ ν : Type} [DecidableEq κ] [BEq κ] [LawfulBEq κ]

theorem lookup_set (d : Dict κ ν) (k : κ) (v : ν) (k' : κ) :
    (d.set k v).lookup k' = if k' = k then some v else d.lookup k' := by
  induction d with
  | nil =>
    by_cases h : k' = k
    · subst h; simp [Dict.set]
    · have : (k' == k) = false := by simpa using h
      simp [Dict.set, List.lookup, h, this]
  | cons e d ih =>
    obtain ⟨k0, v0⟩ := e
    simp only [Dict.set]
    by_cases h0 : k0 = k
    · subst h0
      by_cases h : k' = k0
      · subst h; simp
      · have : (k' == k0) = false := by simpa using h
        simp [List.lookup, h, this]
    · simp only [h0, ↓reduceIte, List.lookup_cons, ih]
      by_cases h : k' = k
      · subst h
        have : (k' == k0) = false := by simpa using fun e => h0 e.symm
        simp [this]
      · simp [h]

omit [BEq κ] [LawfulBEq κ] in
theorem mem_set {d : Dict κ ν} {k : κ} {v : ν} {e : κ × ν} (h : e ∈ d.set k v) : e = (k, v) ∨ e ∈ d := by
  induction d with
  | nil => simp [Dict.set] at h; exact Or.inl h
  | cons e0 d ih =>
    obtain ⟨k0, v0⟩ := e0
    simp only [Dict.set] at h
    split at h
    · rcases List.mem_cons.mp h with h | h
      · exact Or.inl h
      · exact Or.inr (List.mem_cons_of_mem _ h)
    · rcases List.mem_cons.mp h with h | h
      · exact Or.inr (h ▸ List.mem_cons_self)
      · rcases ih h with h | h
        · exact Or.inl h
        · exact Or.inr (List.mem_cons_of_mem _ h)

omit [BEq κ] [LawfulBEq κ] in
theorem set_of_not_mem {d : Dict κ ν} {k : κ} (v : ν) (h : k ∉ d.map (·.1)) : d.set k v = d ++ [(k, v)] := by
  induction d with
  | nil => rfl
  | cons e d ih =>
    obtain ⟨k0, v0⟩ := e
    simp only [List.map_cons, List.mem_cons, not_or] at h
    have : ¬ k0 = k := fun e => h.1 e.symm
    simp [Dict.set, this, ih h.2]

/-- a dict written key by key (`d[key t] = val t` for `t` in `ts`): the LAST write of a key wins -/
theorem lookup_foldl_set {α : Type} (key : α → κ) (val : α → ν) (ts : List α) (d0 : Dict κ ν) (k : κ) (v : ν) :
    (ts.foldl (fun d t => d.set (key t) (val t)) d0).lookup k = some v ↔
      (∃ pre t post, ts = pre ++ t :: post ∧ key t = k ∧ val t = v ∧ ∀ t', t' ∈ post → key t' ≠ k) ∨
      (d0.lookup k = some v ∧ ∀ t, t ∈ ts → key t ≠ k) := by
  induction ts generalizing d0 with
  | nil => simp
  | cons t ts ih =>
    rw [List.foldl_cons, ih, lookup_set]
    constructor
    · rintro (⟨pre, t', post, rfl, h1, h2, h3⟩ | ⟨h1, h2⟩)
      · exact Or.inl ⟨t :: pre, t', post, rfl, h1, h2, h3⟩
      · split at h1
        · rename_i hk
          cases h1
          exact Or.inl ⟨[], t, ts, rfl, hk.symm, rfl, h2⟩
        · rename_i hk
          refine Or.inr ⟨h1, ?_⟩
          intro t' ht'
          rcases List.mem_cons.mp ht' with rfl | ht'
          · exact fun e => hk e.symm
          · exact h2 t' ht'
    · rintro (⟨pre, t', post, he, h1, h2, h3⟩ | ⟨h1, h2⟩)
      · cases pre with
        | nil =>
          simp only [List.nil_append, List.cons.injEq] at he
          obtain ⟨rfl, rfl⟩ := he
          exact Or.inr ⟨by simp [h1, h2], h3⟩
        | cons x pre =>
          simp only [List.cons_append, List.cons.injEq] at he
          obtain ⟨rfl, rfl⟩ := he
          exact Or.inl ⟨pre, t', post, rfl, h1, h2, h3⟩
      · have hk : ¬ k = key t := fun e => h2 t (by simp) e.symm
        exact Or.inr ⟨by simp [hk, h1], fun t' ht' => h2 t' (List.mem_cons_of_mem _ ht')⟩

theorem lookup_foldl_set_none {α : Type} (key : α → κ) (val : α → ν) (ts : List α) (d0 : Dict κ ν) (k : κ) :
    (ts.foldl (fun d t => d.set (key t) (val t)) d0).lookup k = none ↔
      d0.lookup k = none ∧ ∀ t, t ∈ ts → key t ≠ k := by
  induction ts generalizing d0 with
  | nil => simp
  | cons t ts ih =>
    rw [List.foldl_cons, ih, lookup_set]
    constructor
    · rintro ⟨h1, h2⟩
      split at h1
      · cases h1
      · rename_i hk
        refine ⟨h1, ?_⟩
        intro t' ht'
        rcases List.mem_cons.mp ht' with rfl | ht'
        · exact fun e => hk e.symm
        · exact h2 t' ht'
    · rintro ⟨h1, h2⟩
      have hk : ¬ k = key t := fun e => h2 t (by simp) e.symm
      exact ⟨by simp [hk, h1], fun t' ht' => h2 t' (List.mem_cons_of_mem _ ht')⟩

omit [BEq κ] [LawfulBEq κ] in
/-- distinct keys: the fold is the list itself -/
theorem foldl_set_of_nodup {α : Type} (key : α → κ) (val : α → ν) (ts : List α) (d0 : Dict κ ν)
    (h : (d0.map (·.1) ++ ts.map key).Nodup) :
    ts.foldl (fun d t => d.set (key t) (val t)) d0 = d0 ++ ts.map fun t => (key t, val t) := by
  induction ts generalizing d0 with
  | nil => simp
  | cons t ts ih =>
    have hnot : key t ∉ d0.map (·.1) := by
      intro hm
      have := (List.nodup_append.mp h).2.2 _ hm (key t) (by simp)
      exact this rfl
    rw [List.foldl_cons, set_of_not_mem _ hnot, ih]
    · simp
    · simpa [List.append_assoc] using h

/-- a `defaultdict(set)` filled entry by entry (`d[key t].add(val t)`) -/
theorem mem_lookup_foldl_add {α μ : Type} [DecidableEq μ] (key : α → κ) (val : α → μ) (ts : List α)
    (d0 : Dict κ (List μ)) (k : κ) (x : μ) :
    x ∈ ((ts.foldl (fun d t => d.set (key t) (sinsert ((d.lookup (key t)).getD []) (val t))) d0).lookup k).getD [] ↔
      x ∈ (d0.lookup k).getD [] ∨ ∃ t, t ∈ ts ∧ key t = k ∧ val t = x := by
  induction ts generalizing d0 with
  | nil => simp
  | cons t ts ih =>
    rw [List.foldl_cons, ih, lookup_set]
    by_cases hk : k = key t
    · subst hk
      simp only [↓reduceIte, Option.getD_some, mem_sinsert, List.mem_cons]
      constructor
      · rintro ((h | h) | ⟨t', h1, h2, h3⟩)
        · exact Or.inl h
        · exact Or.inr ⟨t, Or.inl rfl, rfl, h.symm⟩
        · exact Or.inr ⟨t', Or.inr h1, h2, h3⟩
      · rintro (h | ⟨t', (rfl | h1), h2, h3⟩)
        · exact Or.inl (Or.inl h)
        · exact Or.inl (Or.inr h3.symm)
        · exact Or.inr ⟨t', h1, h2, h3⟩
    · simp only [hk, ↓reduceIte, List.mem_cons]
      constructor
      · rintro (h | ⟨t', h1, h2, h3⟩)
        · exact Or.inl h
        · exact Or.inr ⟨t', Or.inr h1, h2, h3⟩
      · rintro (h | ⟨t', (rfl | h1), h2, h3⟩)
        · exact Or.inl h
        · exact absurd h2.symm hk
        · exact Or.inr ⟨t', h1, h2, h3⟩

/-- every entry of such a dict comes from the written entries -/
theorem mem_foldl_add {α μ : Type} [DecidableEq μ] (key : α → κ) (val : α → μ) (ts : List α)
    (d0 : Dict κ (List μ)) {e : κ × List μ}
    (he : e ∈ ts.foldl (fun d t => d.set (key t) (sinsert ((d.lookup (key t)).getD []) (val t))) d0) :
    ∀ x, x ∈ e.2 → (∃ e0, e0 ∈ d0 ∧ e0.1 = e.1 ∧ x ∈ e0.2) ∨ ∃ t, t ∈ ts ∧ key t = e.1 ∧ val t = x := by
  induction ts generalizing d0 with
  | nil => intro x hx; exact Or.inl ⟨e, he, rfl, hx⟩
  | cons t ts ih =>
    rw [List.foldl_cons] at he
    intro x hx
    rcases ih _ he x hx with ⟨e0, h0, h1, h2⟩ | ⟨t', h1, h2, h3⟩
    · rcases mem_set h0 with rfl | h0
      · simp only [mem_sinsert] at h2
        rcases h2 with h2 | h2
        · cases hl : List.lookup (key t) d0 with
          | none => rw [hl] at h2; cases h2
          | some vs =>
            rw [hl] at h2
            exact Or.inl ⟨(key t, vs), mem_of_lookup_eq_some hl, h1, h2⟩
        · exact Or.inr ⟨t, by simp, h1, h2.symm⟩
      · exact Or.inl ⟨e0, h0, h1, h2⟩
    · exact Or.inr ⟨t', List.mem_cons_of_mem _ h1, h2, h3⟩

omit [LawfulBEq κ] in
/-- every key of such a dict is an initial key or a written key -/
theorem mem_foldl_add_key {α μ : Type} [DecidableEq μ] (key : α → κ) (val : α → μ) (ts : List α)
    (d0 : Dict κ (List μ)) {e : κ × List μ}
    (he : e ∈ ts.foldl (fun d t => d.set (key t) (sinsert ((d.lookup (key t)).getD []) (val t))) d0) :
    (∃ e0, e0 ∈ d0 ∧ e0.1 = e.1) ∨ ∃ t, t ∈ ts ∧ key t = e.1 := by
  induction ts generalizing d0 with
  | nil => exact Or.inl ⟨e, he, rfl⟩
  | cons t ts ih =>
    rw [List.foldl_cons] at he
    rcases ih _ he with ⟨e0, h0, h1⟩ | ⟨t', h1, h2⟩
    · rcases mem_set h0 with rfl | h0
      · exact Or.inr ⟨t, by simp, h1⟩
      · exact Or.inl ⟨e0, h0, h1⟩
    · exact Or.inr ⟨t', List.mem_cons_of_mem _ h1, h2⟩

omit [DecidableEq κ] in
/-- with distinct keys, `(k, v)` is an entry exactly when `lookup k = some v` -/
theorem mem_iff_lookup_of_nodup {l : List (κ × ν)} (h : (l.map (·.1)).Nodup) (k : κ) (v : ν) :
    (k, v) ∈ l ↔ l.lookup k = some v := by
  constructor
  · intro hm
    apply lookup_eq_some_of_unique hm
    intro v' hm'
    induction l with
    | nil => cases hm
    | cons e l ih =>
      obtain ⟨he, hl'⟩ := List.nodup_cons.mp (by simpa only [List.map_cons] using h)
      rcases List.mem_cons.mp hm with rfl | hm2
      · rcases List.mem_cons.mp hm' with h | hm3
        · cases h; rfl
        · exact absurd (List.mem_map.mpr ⟨(k, v'), hm3, rfl⟩ : k ∈ l.map (·.1)) he
      · rcases List.mem_cons.mp hm' with rfl | hm3
        · exact absurd (List.mem_map.mpr ⟨(k, v), hm2, rfl⟩ : k ∈ l.map (·.1)) he
        · exact ih hl' hm2 hm3
  · exact mem_of_lookup_eq_some

end
end C16c

/-! ### every transition entry read by the line parser carries a well-formed label -/
namespace Parse

theorem parseWords_labels {k : Kind} {ok : Word → Bool} {st st' : Raw} {words : List Word}
    (h : parseWords k ok st words = .ok st') (hinv : ∀ t, t ∈ st.transitions → labelOk k t.2.1 = true) :
    ∀ t, t ∈ st'.transitions → labelOk k t.2.1 = true := by
  unfold parseWords at h
  dsimp only at h
  repeat' split at h
  all_goals first | cases h | skip
  all_goals try exact hinv
  rename_i hl
  intro t ht
  rcases List.mem_append.mp ht with ht | ht
  · exact hinv t ht
  · obtain ⟨l, hl', rfl⟩ := List.mem_map.mp ht
    simp only [Bool.not_eq_true, Bool.not_eq_false', List.all_eq_true] at hl
    exact hl l hl'

theorem parseWordLines_labels {k : Kind} {ok : Word → Bool} {wls : List (List Word)} {st st' : Raw}
    (h : parseWordLines k ok st wls = .ok st') (hinv : ∀ t, t ∈ st.transitions → labelOk k t.2.1 = true) :
    ∀ t, t ∈ st'.transitions → labelOk k t.2.1 = true := by
  induction wls generalizing st with
  | nil => simp only [parseWordLines_nil, Except.ok.injEq] at h; subst h; exact hinv
  | cons w ws ih =>
    rw [parseWordLines_cons] at h
    cases hw : parseWords k ok st w with
    | error e => rw [hw] at h; cases h
    | ok st1 =>
      rw [hw] at h
      exact ih h (parseWords_labels hw hinv)

/-- every transition entry returned by the line parser carries a label of the kind's label syntax -/
theorem parseRaw_labels {k : Kind} {ok : Word → Bool} {text : Word} {A0 : Raw} (h : parseRaw k ok text = .ok A0) :
    ∀ t, t ∈ A0.transitions → labelOk k t.2.1 = true := by
  rw [parseRaw_eq] at h
  exact parseWordLines_labels h (by intro t ht; cases ht)

theorem bind_ok {α β : Type} {x : Except Err α} {f : α → Except Err β} {b : β} (h : x.bind f = .ok b) :
    ∃ a, x = .ok a ∧ f a = .ok b := by
  cases x with
  | error e => cases h
  | ok a => exact ⟨a, rfl, h⟩

/-! ### `parsePda`, `parseTm` unpacked -/

/-- the `i`-th character of a label, as a one-character string -/
def ch (l : Word) (i : Nat) : String := String.singleton (l.getD i ' ')

def pdaDelta (ts : List (String × Word × String)) : Dict (String × String × String) (List (String × String)) :=
  ts.foldl (fun d t => d.set (t.1, ch t.2.1 0, ch t.2.1 2)
    (sinsert ((d.lookup (t.1, ch t.2.1 0, ch t.2.1 2)).getD []) (t.2.2, ch t.2.1 3))) []

def tmDir (l : Word) : Dir := if l.getD 3 ' ' == 'L' then Dir.L else Dir.R

def tmDelta (ts : List (String × Word × String)) : Dict (String × String) (String × String × Dir) :=
  ts.foldl (fun d t => d.set (t.1, ch t.2.1 0) (t.2.2, ch t.2.1 1, tmDir t.2.1)) []

def getState (A0 : Raw) (key dflt : String) : Except Err String :=
  match A0.items.lookup key with
  | some [v] => Except.ok v
  | some _ => Except.error Err.runtimeError
  | none => Except.ok dflt

def tmSigma (A : Raw) (tape : List String) (blank : String) : List String :=
  match A.items.lookup "input_symbols" with
  | some declared => dedup declared
  | none => tape.filter (· ≠ blank)

def pdaUsedIn (A : Raw) (eps : String) : List String := dedup ((A.transitions.map fun t => ch t.2.1 0).filter (· ≠ eps))
def pdaUsedSt (A : Raw) (eps : String) : List String :=
  dedup ((A.transitions.flatMap fun t => [ch t.2.1 2, ch t.2.1 3]).filter (· ≠ eps))
def tmUsedTape (A : Raw) : List String := dedup (A.transitions.flatMap fun t => [ch t.2.1 0, ch t.2.1 1])

theorem parsePda_eq (text : Word) :
    parsePda text = (parseRaw .pda isWord text).bind fun A0 => (commonChecks A0 [] isWord).bind fun A =>
      (parseSymbol A "epsilon" 'ε' "_").bind fun eps =>
      (getSymbolSet A "input_symbols" (pdaUsedIn A eps)).bind fun Sigma =>
      (getSymbolSet A "stack_symbols" (pdaUsedSt A eps)).bind fun Gamma =>
      if !wordsOk Sigma then .error .runtimeError else
      PDA.checked { Q := A.states, Sigma := Sigma, Gamma := Gamma, delta := pdaDelta A.transitions, q0 := initialOf A,
                    F := A.final, eps := eps, epsG := eps } := rfl

theorem parseTm_eq (text : Word) :
    parseTm text = (parseRaw .tm isWord text).bind fun A0 =>
      (getState A0 "accept" (tmFresh A0.states "accept")).bind fun qa =>
      (getState A0 "reject" (tmFresh A0.states "reject")).bind fun qr =>
      (commonChecks A0 [qa, qr] isWord).bind fun A =>
      (parseSymbol A "blank" '□' "_").bind fun blank =>
      (getSymbolSet A "tape_symbols" (tmUsedTape A)).bind fun tape =>
      TM.checked { Q := A.states, Sigma := tmSigma A tape blank, Gamma := sinsert tape blank, delta := tmDelta A.transitions,
                   q0 := initialOf A, qAccept := qa, qReject := qr, blank := blank } := rfl

theorem labelOk_pda {l : Word} (h : labelOk .pda l = true) :
    ∃ a u v, l = [a, ',', u, v] ∧ isWordChar a = true ∧ isLabelSym false u = true ∧ isLabelSym false v = true := by
  simp only [labelOk] at h
  split at h
  · simp only [Bool.and_eq_true] at h
    exact ⟨_, _, _, rfl, h.1.1, h.1.2, h.2⟩
  · cases h

theorem labelOk_tm {l : Word} (h : labelOk .tm l = true) :
    ∃ a b d, l = [a, b, ',', d] ∧ isLabelSym true a = true ∧ isLabelSym true b = true ∧ (d = 'L' ∨ d = 'R') := by
  simp only [labelOk] at h
  split at h
  · simp only [Bool.and_eq_true, Bool.or_eq_true, beq_iff_eq] at h
    exact ⟨_, _, _, rfl, h.1.1, h.1.2, h.2⟩
  · cases h

theorem eq_singleton_of_length {s : String} (h : s.length = 1) : ∃ c, s = String.singleton c := by
  rw [← String.length_toList] at h
  match hs : s.toList, h with
  | [c], _ => exact ⟨c, by rw [← String.toList_inj, hs]; simp⟩

theorem dedup_dedup {α : Type} [DecidableEq α] (l : List α) : dedup (dedup l) = dedup l :=
  dedup_eq_self_of_nodup (nodup_dedup l)

theorem initial_eq_of_length {A : Raw} (h : A.initial.length = 1) : A.initial = [initialOf A] := by
  unfold initialOf
  match hA : A.initial, h with
  | [x], _ => rfl

theorem getSymbolSet_declared {A : Raw} {key : String} {used S d : List String} (h : getSymbolSet A key used = .ok S)
    (hd : A.items.lookup key = some d) : S = dedup d := by
  unfold getSymbolSet at h
  rw [hd] at h
  simp only at h
  split at h
  · cases h
  · cases h; rfl

theorem getSymbolSet_undeclared {A : Raw} {key : String} {used S : List String} (h : getSymbolSet A key used = .ok S)
    (hd : A.items.lookup key = none) : S = used := by
  unfold getSymbolSet at h
  rw [hd] at h
  cases h; rfl

/-- C17 for PDAs: `parse_pda` builds exactly what was written -/
theorem parsePda_builds' (text : List Char) (P : SPDA) (h : Parse.parsePda text = .ok P) :
    ∃ A0, Parse.parseRaw .pda Parse.isWord text = .ok A0 ∧
      P.Q = (if A0.states.isEmpty then Parse.usedStates A0 else A0.states) ∧ A0.initial = [P.q0] ∧ P.F = A0.final ∧
      P.epsG = P.eps ∧
      (∀ p a u q v, (q, v) ∈ (P.delta.lookup (p, a, u)).getD [] ↔
          ∃ l, (p, l, q) ∈ A0.transitions ∧ l = a.toList ++ [','] ++ u.toList ++ v.toList ∧
            a.length = 1 ∧ u.length = 1 ∧ v.length = 1) ∧
      (∀ v, A0.items.lookup "epsilon" = some [v] → P.eps = v) ∧
      (∀ d, A0.items.lookup "input_symbols" = some d → ∀ a, a ∈ P.Sigma ↔ a ∈ d) ∧
      (∀ d, A0.items.lookup "stack_symbols" = some d → ∀ x, x ∈ P.Gamma ↔ x ∈ d) ∧
      (A0.items.lookup "input_symbols" = none → ∀ a, a ∈ P.Sigma ↔
          a ≠ P.eps ∧ ∃ p l q c, (p, l, q) ∈ A0.transitions ∧ l.head? = some c ∧ a = String.singleton c) := by
  rw [parsePda_eq] at h
  obtain ⟨A0, h0, h⟩ := bind_ok h
  obtain ⟨A, h1, h⟩ := bind_ok h
  obtain ⟨eps, h2, h⟩ := bind_ok h
  obtain ⟨Sigma, h3, h⟩ := bind_ok h
  obtain ⟨Gamma, h4, h⟩ := bind_ok h
  split at h
  · cases h
  obtain ⟨rfl, hv⟩ := PDA.checked_ok h
  obtain ⟨rfl, hu, hok, hi⟩ := commonChecks_ok h1
  have hlab := parseRaw_labels h0
  refine ⟨A0, h0, ?_, ?_, rfl, rfl, ?_, ?_, ?_, ?_, ?_⟩
  · simp only [List.append_nil]
    rw [usedStates, dedup_dedup]
  · exact initial_eq_of_length hi
  · intro p a u q v
    show (q, v) ∈ ((pdaDelta A0.transitions).lookup (p, a, u)).getD [] ↔ _
    unfold pdaDelta
    rw [C16c.mem_lookup_foldl_add (fun t : String × Word × String => (t.1, ch t.2.1 0, ch t.2.1 2))
      (fun t => (t.2.2, ch t.2.1 3))]
    simp only [List.lookup_nil, Option.getD_none, List.not_mem_nil, false_or, Prod.mk.injEq]
    constructor
    · rintro ⟨⟨p', l, q'⟩, ht, ⟨rfl, rfl, rfl⟩, rfl, rfl⟩
      obtain ⟨a', u', v', rfl, _⟩ := labelOk_pda (hlab _ ht)
      exact ⟨_, ht, by simp [ch], by simp [ch], by simp [ch], by simp [ch]⟩
    · rintro ⟨l, ht, rfl, ha, hu', hv'⟩
      obtain ⟨a', rfl⟩ := eq_singleton_of_length ha
      obtain ⟨u', rfl⟩ := eq_singleton_of_length hu'
      obtain ⟨v', rfl⟩ := eq_singleton_of_length hv'
      exact ⟨_, ht, by simp [ch], by simp [ch]⟩
  · intro v hv'
    unfold parseSymbol at h2
    have : List.lookup "epsilon" A0.items = some [v] := hv'
    simp only [this] at h2
    cases h2; rfl
  · intro d hd a
    rw [getSymbolSet_declared h3 hd, mem_dedup]
  · intro d hd a
    rw [getSymbolSet_declared h4 hd, mem_dedup]
  · intro hd a
    rw [getSymbolSet_undeclared h3 hd]
    simp only [pdaUsedIn, mem_dedup, List.mem_filter, List.mem_map, ne_eq, decide_eq_true_eq]
    constructor
    · rintro ⟨⟨⟨p, l, q⟩, ht, rfl⟩, hne⟩
      obtain ⟨a', u', v', rfl, _⟩ := labelOk_pda (hlab _ ht)
      exact ⟨hne, p, _, q, a', ht, rfl, rfl⟩
    · rintro ⟨hne, p, l, q, c, ht, hc, rfl⟩
      refine ⟨⟨(p, l, q), ht, ?_⟩, hne⟩
      obtain ⟨a', u', v', rfl, _⟩ := labelOk_pda (hlab _ ht)
      simp only [List.head?_cons, Option.some.injEq] at hc
      subst hc; rfl

theorem getState_declared {A0 : Raw} {key dflt v w : String} (h : getState A0 key dflt = .ok w)
    (hd : A0.items.lookup key = some [v]) : w = v := by
  unfold getState at h
  rw [hd] at h
  cases h; rfl

/-- C17 for TMs: `parse_tm` builds exactly what was written; when several transition entries have the same
    (state, read symbol) the LAST one wins (`delta[(p, a)] = …` overwrites) -/
theorem parseTm_builds' (text : List Char) (T : TM String String) (h : Parse.parseTm text = .ok T) :
    ∃ A0, Parse.parseRaw .tm Parse.isWord text = .ok A0 ∧ A0.initial = [T.q0] ∧
      (∀ v, A0.items.lookup "accept" = some [v] → T.qAccept = v) ∧
      (∀ v, A0.items.lookup "reject" = some [v] → T.qReject = v) ∧
      (A0.items.lookup "input_symbols" = none → ∀ a, a ∈ T.Sigma ↔ (a ∈ T.Gamma ∧ a ≠ T.blank)) ∧
      (∀ d, A0.items.lookup "input_symbols" = some d → ∀ a, a ∈ T.Sigma ↔ a ∈ d) ∧ T.blank ∈ T.Gamma ∧
      (∀ p x q y d, T.delta.lookup (p, x) = some (q, y, d) ↔
        ∃ a b pre post, x = String.singleton a ∧ y = String.singleton b ∧
          A0.transitions = pre ++ (p, [a, b, ','] ++ (dirStr d).toList, q) :: post ∧
          ∀ t, t ∈ post → ¬ (t.1 = p ∧ t.2.1.head? = some a)) ∧
      (∀ v, A0.items.lookup "blank" = some [v] → T.blank = v) ∧
      (∀ d, A0.items.lookup "tape_symbols" = some d → ∀ x, x ∈ T.Gamma ↔ x ∈ d ∨ x = T.blank) := by
  rw [parseTm_eq] at h
  obtain ⟨A0, h0, h⟩ := bind_ok h
  obtain ⟨qa, ha, h⟩ := bind_ok h
  obtain ⟨qr, hr, h⟩ := bind_ok h
  obtain ⟨A, h1, h⟩ := bind_ok h
  obtain ⟨blank, h2, h⟩ := bind_ok h
  obtain ⟨tape, h3, h⟩ := bind_ok h
  obtain ⟨rfl, hv⟩ := TM.checked_ok h
  obtain ⟨rfl, hu, hok, hi⟩ := commonChecks_ok h1
  have hlab := parseRaw_labels h0
  refine ⟨A0, h0, initial_eq_of_length hi, fun v hd => getState_declared ha hd, fun v hd => getState_declared hr hd,
    ?_, ?_, by simp, ?_, ?_, ?_⟩
  · intro hd a
    show a ∈ tmSigma _ tape blank ↔ a ∈ sinsert tape blank ∧ a ≠ blank
    have : List.lookup "input_symbols" A0.items = none := hd
    simp only [tmSigma, this, List.mem_filter, mem_sinsert, ne_eq, decide_eq_true_eq]
    constructor
    · rintro ⟨h1, h2⟩; exact ⟨Or.inl h1, h2⟩
    · rintro ⟨h1 | h1, h2⟩
      · exact ⟨h1, h2⟩
      · exact absurd h1 h2
  · intro d hd a
    show a ∈ tmSigma _ tape blank ↔ _
    have : List.lookup "input_symbols" A0.items = some d := hd
    simp only [tmSigma, this, mem_dedup]
  · intro p x q y d
    show (tmDelta A0.transitions).lookup (p, x) = some (q, y, d) ↔ _
    unfold tmDelta
    rw [C16c.lookup_foldl_set (fun t : String × Word × String => (t.1, ch t.2.1 0))
      (fun t => (t.2.2, ch t.2.1 1, tmDir t.2.1))]
    simp only [List.lookup_nil, false_and, or_false, reduceCtorEq]
    constructor
    · rintro ⟨pre, ⟨p', l, q'⟩, post, he, hk, hv', hpost⟩
      simp only [Prod.mk.injEq] at hk hv'
      obtain ⟨rfl, rfl⟩ := hk
      obtain ⟨rfl, rfl, rfl⟩ := hv'
      have ht : (p', l, q') ∈ A0.transitions := by rw [he]; simp
      obtain ⟨a, b, dc, rfl, _, _, hdc⟩ := labelOk_tm (hlab _ ht)
      refine ⟨a, b, pre, post, rfl, rfl, ?_, ?_⟩
      · rw [he]
        rcases hdc with rfl | rfl <;> simp [tmDir, dirStr]
      · rintro ⟨p2, l2, q2⟩ ht2 ⟨hp2, hh⟩
        apply hpost _ ht2
        cases l2 with
        | nil => cases hh
        | cons c cs =>
          simp only [List.head?_cons, Option.some.injEq] at hh hp2
          subst hh hp2; rfl
    · rintro ⟨a, b, pre, post, rfl, rfl, he, hpost⟩
      refine ⟨pre, _, post, he, rfl, ?_, ?_⟩
      · simp only [Prod.mk.injEq, true_and]
        exact ⟨rfl, by cases d <;> simp [tmDir, dirStr]⟩
      · rintro ⟨p2, l2, q2⟩ ht2 hk
        apply hpost _ ht2
        have ht : (p2, l2, q2) ∈ A0.transitions := by rw [he]; simp [ht2]
        obtain ⟨a2, b2, dc, rfl, _⟩ := labelOk_tm (hlab _ ht)
        simp only [ch, List.getD_cons_zero, Prod.mk.injEq, String.singleton_inj] at hk
        simp [hk.1, hk.2]
  · intro v hv'
    unfold parseSymbol at h2
    have : List.lookup "blank" A0.items = some [v] := hv'
    simp only [this] at h2
    cases h2; rfl
  · intro d hd x
    rw [getSymbolSet_declared h3 hd]
    simp

end Parse

/-! ### names and symbols that survive the PDA / TM text formats -/

/-- state names of the PDA format: `\w+`, not a keyword of the format -/
def Parse.PdaNameOk (s : String) : Prop :=
  Parse.isWord s.toList = true ∧ s ∉ ["states", "final", "initial", "input_symbols", "stack_symbols", "epsilon"]

/-- state names of the TM format: `\w+`, not a keyword of the format -/
def Parse.TmNameOk (s : String) : Prop :=
  Parse.isWord s.toList = true ∧
    s ∉ ["states", "final", "initial", "input_symbols", "tape_symbols", "blank", "accept", "reject"]

/-- a one-character string whose character satisfies `p` -/
def Parse.Char1 (p : Char → Bool) (s : String) : Prop := ∃ c, s = String.singleton c ∧ p c = true

namespace Parse

theorem not_isSpace_of_isLabelSym {tm : Bool} {c : Char} (h : isLabelSym tm c = true) : isSpace c = false := by
  simp only [isLabelSym, Bool.or_eq_true, Bool.and_eq_true, beq_iff_eq] at h
  rcases h with (h | h) | h
  · exact not_isSpace_of_isWordChar h
  · have e : "~!@#$%^&*".toList = ['~', '!', '@', '#', '$', '%', '^', '&', '*'] := by rfl
    rw [e] at h
    simp only [List.contains_eq_mem, List.mem_cons, List.not_mem_nil, or_false, decide_eq_true_eq] at h
    rcases h with rfl | rfl | rfl | rfl | rfl | rfl | rfl | rfl | rfl <;> decide
  · obtain ⟨_, rfl⟩ := h; decide

theorem isLabelSym_of_isWordChar {tm : Bool} {c : Char} (h : isWordChar c = true) : isLabelSym tm c = true := by
  simp [isLabelSym, h]

theorem Char1.token {b : Bool} {s : String} (h : Char1 (isLabelSym b) s) : Token s.toList := by
  obtain ⟨c, rfl, hc⟩ := h
  refine ⟨by simp, ?_⟩
  intro d hd
  simp only [String.toList_singleton, List.mem_singleton] at hd
  subst hd
  exact not_isSpace_of_isLabelSym hc

theorem Char1.of_wordChar {b : Bool} {s : String} (h : Char1 isWordChar s) : Char1 (isLabelSym b) s := by
  obtain ⟨c, rfl, hc⟩ := h
  exact ⟨c, rfl, isLabelSym_of_isWordChar hc⟩

theorem Char1.isWord {s : String} (h : Char1 isWordChar s) : Parse.isWord s.toList = true := by
  obtain ⟨c, rfl, hc⟩ := h
  simp [Parse.isWord, hc]

theorem joinSp_singleton (s : String) : joinSp [s] = s := by simp [joinSp]

end Parse

/-! ### TM validity unpacked -/

theorem TM.valid_iff' (T : TM String String) : T.valid = true ↔
    T.q0 ∈ T.Q ∧ T.qAccept ∈ T.Q ∧ T.qReject ∈ T.Q ∧ T.qReject ≠ T.qAccept ∧ T.blank ∉ T.Sigma ∧ T.blank ∈ T.Gamma ∧
      (∀ a, a ∈ T.Sigma → a ∈ T.Gamma) ∧
      ∀ e, e ∈ T.delta → e.1.1 ∈ T.Q ∧ e.1.2 ∈ T.Gamma ∧ e.2.1 ∈ T.Q ∧ e.2.2.1 ∈ T.Gamma := by
  simp only [TM.valid, Bool.and_eq_true, decide_eq_true_eq, ssubset_iff, List.all_eq_true, and_assoc]

namespace Parse

/-! ### the TM round trip, step 1: the raw parse of `printTm T` -/

/-- the `(p, q, label)` triples `print_tm` groups into lines -/
def tmTrans (T : TM String String) : List (String × String × String) :=
  T.delta.map fun e => (e.1.1, e.2.1, e.1.2 ++ e.2.2.1 ++ "," ++ dirStr e.2.2.2)

/-- what the line parser reads back from `printTm T` -/
def tmRaw (T : TM String String) : Raw :=
  { states := sortStrings (dedup T.Q), final := [], initial := [T.q0],
    items := [("states", sortStrings (dedup T.Q)), ("initial", [T.q0]), ("accept", [T.qAccept]), ("reject", [T.qReject]),
              ("input_symbols", sortStrings (dedup T.Sigma)), ("tape_symbols", sortStrings (dedup T.Gamma)),
              ("blank", [T.blank])],
    transitions := transOf (tmTrans T) }

theorem printTm_toList (T : TM String String) :
    (printTm T).toList = ("".intercalate ((
      ["states" ++ " " ++ joinSp (sortStrings (dedup T.Q)), "initial" ++ " " ++ joinSp [T.q0],
        "accept" ++ " " ++ joinSp [T.qAccept], "reject" ++ " " ++ joinSp [T.qReject],
        "input_symbols" ++ " " ++ joinSp (sortStrings (dedup T.Sigma)),
        "tape_symbols" ++ " " ++ joinSp (sortStrings (dedup T.Gamma)), "blank" ++ " " ++ joinSp [T.blank]] ++
        transLines (tmTrans T)).map (· ++ "\n"))).toList := by
  unfold printTm
  have e1 : ("states " : String) = "states" ++ " " := by decide
  have e2 : ("initial " : String) = "initial" ++ " " := by decide
  have e3 : ("accept " : String) = "accept" ++ " " := by decide
  have e4 : ("reject " : String) = "reject" ++ " " := by decide
  have e5 : ("input_symbols " : String) = "input_symbols" ++ " " := by decide
  have e6 : ("tape_symbols " : String) = "tape_symbols" ++ " " := by decide
  have e7 : ("blank " : String) = "blank" ++ " " := by decide
  rw [e1, e2, e3, e4, e5, e6, e7, joinSp_singleton, joinSp_singleton, joinSp_singleton, joinSp_singleton]
  rfl

theorem tm_label_toList {a b : String} {ca cb : Char} (ha : a = String.singleton ca) (hb : b = String.singleton cb)
    (d : Dir) : (a ++ b ++ "," ++ dirStr d).toList = [ca, cb, ','] ++ (dirStr d).toList := by
  subst ha hb
  simp [String.toList_append]

theorem tmTrans_ok {T : TM String String} (hv : T.valid = true) (hQ : ∀ q, q ∈ T.Q → Parse.TmNameOk q)
    (hG : ∀ x, x ∈ T.Gamma → Parse.Char1 (Parse.isLabelSym true) x) : ∀ t, t ∈ tmTrans T → TransOk .tm t := by
  intro t ht
  obtain ⟨⟨⟨p, a⟩, q, b, d⟩, he, rfl⟩ := List.mem_map.mp ht
  obtain ⟨_, _, _, _, _, _, _, hcl⟩ := (TM.valid_iff' T).mp hv
  obtain ⟨hp, ha, hq, hb⟩ := hcl _ he
  obtain ⟨ca, ha1, ha2⟩ := hG a ha
  obtain ⟨cb, hb1, hb2⟩ := hG b hb
  have hl := tm_label_toList ha1 hb1 d
  refine ⟨(hQ p hp).1, (hQ p hp).2, (hQ q hq).1, ?_, ?_⟩
  · show Token (a ++ b ++ "," ++ dirStr d).toList
    rw [hl]
    refine ⟨by simp, ?_⟩
    intro c hc
    cases d <;> simp only [dirStr, List.cons_append, List.nil_append, List.mem_cons] at hc
    all_goals
      have e : "L".toList = ['L'] ∧ "R".toList = ['R'] := ⟨rfl, rfl⟩
      simp only [e.1, e.2, List.mem_cons, List.not_mem_nil, or_false] at hc
      rcases hc with rfl | rfl | rfl | rfl
      · exact not_isSpace_of_isLabelSym ha2
      · exact not_isSpace_of_isLabelSym hb2
      · decide
      · decide
  · show labelOk .tm (a ++ b ++ "," ++ dirStr d).toList = true
    rw [hl]
    cases d <;> simp [dirStr, labelOk, ha2, hb2]

theorem parse_print_tm_raw (T : TM String String) (hv : T.valid = true) (hQ : ∀ q, q ∈ T.Q → Parse.TmNameOk q)
    (hG : ∀ x, x ∈ T.Gamma → Parse.Char1 (Parse.isLabelSym true) x) :
    parseRaw .tm isWord (printTm T).toList = .ok (tmRaw T) := by
  obtain ⟨hq0, hqa, hqr, _, _, hbG, hSG, hcl⟩ := (TM.valid_iff' T).mp hv
  have hts := tmTrans_ok hv hQ hG
  have tokQ : ∀ n, n ∈ sortStrings (dedup T.Q) → Token n.toList := fun n hn =>
    isWord_token (hQ n (mem_sortStrings_dedup.mp hn)).1
  have tokS : ∀ n, n ∈ sortStrings (dedup T.Sigma) → Token n.toList := fun n hn =>
    (hG n (hSG n (mem_sortStrings_dedup.mp hn))).token
  have tokG : ∀ n, n ∈ sortStrings (dedup T.Gamma) → Token n.toList := fun n hn =>
    (hG n (mem_sortStrings_dedup.mp hn)).token
  have tok1 : ∀ q, q ∈ T.Q → ∀ n, n ∈ [q] → Token n.toList := fun q hq n hn => by
    simp only [List.mem_singleton] at hn; subst hn; exact isWord_token (hQ _ hq).1
  have tokB : ∀ n, n ∈ [T.blank] → Token n.toList := fun n hn => by
    simp only [List.mem_singleton] at hn; subst hn; exact (hG _ hbG).token
  have k1 : Token "states".toList := isWord_token (by decide)
  have k2 : Token "initial".toList := isWord_token (by decide)
  have k3 : Token "accept".toList := isWord_token (by decide)
  have k4 : Token "reject".toList := isWord_token (by decide)
  have k5 : Token "input_symbols".toList := isWord_token (by decide)
  have k6 : Token "tape_symbols".toList := isWord_token (by decide)
  have k7 : Token "blank".toList := isWord_token (by decide)
  rw [printTm_toList, parseRaw_join_terminated]
  · rw [List.map_append, lineWords_append]
    simp only [List.map_cons, List.map_nil]
    rw [lineWords_of_ne]
    · simp only [List.map_cons, List.map_nil, splitWs_kw_joinSp k1 tokQ, splitWs_kw_joinSp k2 (tok1 _ hq0),
        splitWs_kw_joinSp k3 (tok1 _ hqa), splitWs_kw_joinSp k4 (tok1 _ hqr), splitWs_kw_joinSp k5 tokS,
        splitWs_kw_joinSp k6 tokG, splitWs_kw_joinSp k7 tokB]
      have okQ : ∀ n, n ∈ sortStrings (dedup T.Q) → isWord n.toList = true := fun n hn =>
        (hQ n (mem_sortStrings_dedup.mp hn)).1
      have ok0 : ∀ n, n ∈ [T.q0] → isWord n.toList = true := fun n hn => by
        simp only [List.mem_singleton] at hn; subst hn; exact (hQ _ hq0).1
      have hneQ : sortStrings (dedup T.Q) ≠ [] := by
        intro e
        have : T.q0 ∈ sortStrings (dedup T.Q) := mem_sortStrings_dedup.mpr hq0
        rw [e] at this; cases this
      simp only [List.cons_append, List.nil_append]
      refine (parseWordLines_cons_ok _ _ (parseWords_states .tm isWord {} (str_toList _) rfl
        (nodup_sortStrings_dedup _) hneQ okQ) _).trans ?_
      refine (parseWordLines_cons_ok _ _ (parseWords_initial .tm isWord _ (names := [T.q0]) (str_toList _) (by rfl)
        (by simp) ok0) _).trans ?_
      refine (parseWordLines_cons_ok _ _ (parseWords_keyword .tm isWord _ (args := [T.qAccept])
        (str_toList _) (by decide) (by rfl)) _).trans ?_
      refine (parseWordLines_cons_ok _ _ (parseWords_keyword .tm isWord _ (args := [T.qReject])
        (str_toList _) (by decide) (by rfl)) _).trans ?_
      refine (parseWordLines_cons_ok _ _ (parseWords_keyword .tm isWord _ (args := sortStrings (dedup T.Sigma))
        (str_toList _) (by decide) (by rfl)) _).trans ?_
      refine (parseWordLines_cons_ok _ _ (parseWords_keyword .tm isWord _ (args := sortStrings (dedup T.Gamma))
        (str_toList _) (by decide) (by rfl)) _).trans ?_
      refine (parseWordLines_cons_ok _ _ (parseWords_keyword .tm isWord _ (args := [T.blank])
        (str_toList _) (by decide) (by rfl)) _).trans ?_
      rw [parseWordLines_transLines .tm _ hts]
      rfl
    · intro l hl
      simp only [List.mem_cons, List.not_mem_nil, or_false] at hl
      rcases hl with rfl | rfl | rfl | rfl | rfl | rfl | rfl
      · rw [splitWs_kw_joinSp k1 tokQ]; simp
      · rw [splitWs_kw_joinSp k2 (tok1 _ hq0)]; simp
      · rw [splitWs_kw_joinSp k3 (tok1 _ hqa)]; simp
      · rw [splitWs_kw_joinSp k4 (tok1 _ hqr)]; simp
      · rw [splitWs_kw_joinSp k5 tokS]; simp
      · rw [splitWs_kw_joinSp k6 tokG]; simp
      · rw [splitWs_kw_joinSp k7 tokB]; simp
  · intro l hl
    rcases List.mem_append.mp hl with hl | hl
    · simp only [List.mem_cons, List.not_mem_nil, or_false] at hl
      rcases hl with rfl | rfl | rfl | rfl | rfl | rfl | rfl
      · exact newline_not_mem_kw_joinSp k1.newline_not_mem (fun n hn => (tokQ n hn).newline_not_mem)
      · exact newline_not_mem_kw_joinSp k2.newline_not_mem (fun n hn => (tok1 _ hq0 n hn).newline_not_mem)
      · exact newline_not_mem_kw_joinSp k3.newline_not_mem (fun n hn => (tok1 _ hqa n hn).newline_not_mem)
      · exact newline_not_mem_kw_joinSp k4.newline_not_mem (fun n hn => (tok1 _ hqr n hn).newline_not_mem)
      · exact newline_not_mem_kw_joinSp k5.newline_not_mem (fun n hn => (tokS n hn).newline_not_mem)
      · exact newline_not_mem_kw_joinSp k6.newline_not_mem (fun n hn => (tokG n hn).newline_not_mem)
      · exact newline_not_mem_kw_joinSp k7.newline_not_mem (fun n hn => (tokB n hn).newline_not_mem)
    · exact newline_not_mem_transLines hts l hl

/-! ### step 2: the TM builder on that raw parse -/

theorem ch_tm_label {a b : String} {ca cb : Char} (ha : a = String.singleton ca) (hb : b = String.singleton cb)
    (d : Dir) : ch (a ++ b ++ "," ++ dirStr d).toList 0 = a ∧ ch (a ++ b ++ "," ++ dirStr d).toList 1 = b ∧
      tmDir (a ++ b ++ "," ++ dirStr d).toList = d := by
  rw [tm_label_toList ha hb d]
  subst ha hb
  cases d <;> simp [ch, tmDir, dirStr]

/-- the entries of the rebuilt transition table are those of `T`, in printing order -/
theorem tmRaw_delta_perm (T : TM String String) (hv : T.valid = true)
    (hG : ∀ x, x ∈ T.Gamma → Parse.Char1 (Parse.isLabelSym true) x) :
    ((transOf (tmTrans T)).map fun t => ((t.1, ch t.2.1 0), (t.2.2, ch t.2.1 1, tmDir t.2.1))).Perm T.delta := by
  have h := (transOf_perm (tmTrans T)).map (fun t => ((t.1, ch t.2.1 0), (t.2.2, ch t.2.1 1, tmDir t.2.1)))
  have e : ((tmTrans T).map (fun t => (t.1, t.2.2.toList, t.2.1))).map
      (fun t => ((t.1, ch t.2.1 0), (t.2.2, ch t.2.1 1, tmDir t.2.1))) = T.delta := by
    rw [tmTrans, List.map_map, List.map_map]
    conv => rhs; rw [← List.map_id T.delta]
    apply List.map_congr_left
    rintro ⟨⟨p, a⟩, q, b, d⟩ he
    obtain ⟨_, _, _, _, _, _, _, hcl⟩ := (TM.valid_iff' T).mp hv
    obtain ⟨_, ha, _, hb⟩ := hcl _ he
    obtain ⟨ca, ha1, _⟩ := hG a ha
    obtain ⟨cb, hb1, _⟩ := hG b hb
    obtain ⟨e1, e2, e3⟩ := ch_tm_label ha1 hb1 d
    simp only [Function.comp, id, e1, e2, e3]
  rw [e] at h
  exact h

theorem tmDelta_eq_of_nodup (ts : List (String × Word × String)) (h : (ts.map fun t => (t.1, ch t.2.1 0)).Nodup) :
    tmDelta ts = ts.map fun t => ((t.1, ch t.2.1 0), (t.2.2, ch t.2.1 1, tmDir t.2.1)) := by
  unfold tmDelta
  rw [C16c.foldl_set_of_nodup (fun t : String × Word × String => (t.1, ch t.2.1 0))
    (fun t => (t.2.2, ch t.2.1 1, tmDir t.2.1)) ts [] (by simpa using h)]
  simp

/-- the round trip, with the parsed TM described explicitly -/
theorem parse_print_tm_explicit (T : TM String String) (hv : T.valid = true) (hk : (T.delta.map (·.1)).Nodup)
    (hQ : ∀ q, q ∈ T.Q → Parse.TmNameOk q)
    (hG : ∀ x, x ∈ T.Gamma → Parse.Char1 (Parse.isLabelSym true) x) :
    ∃ T', Parse.parseTm (Parse.printTm T).toList = .ok T' ∧ T'.valid = true ∧
      T'.Q = sortStrings (dedup T.Q) ∧ T'.Sigma = dedup (sortStrings (dedup T.Sigma)) ∧
      T'.Gamma = sinsert (dedup (sortStrings (dedup T.Gamma))) T.blank ∧ T'.q0 = T.q0 ∧ T'.qAccept = T.qAccept ∧
      T'.qReject = T.qReject ∧ T'.blank = T.blank ∧ T'.delta.Perm T.delta := by
  obtain ⟨hq0, hqa, hqr, hne, hbS, hbG, hSG, hcl⟩ := (TM.valid_iff' T).mp hv
  have h0 := parse_print_tm_raw T hv hQ hG
  have hperm := tmRaw_delta_perm T hv hG
  have hnd : ((transOf (tmTrans T)).map fun t => (t.1, ch t.2.1 0)).Nodup := by
    have := ((hperm.map (·.1)).nodup_iff).mpr hk
    rw [List.map_map] at this
    exact this
  have hdelta := tmDelta_eq_of_nodup _ hnd
  have hmemT : ∀ t, t ∈ (tmRaw T).transitions →
      ((t.1, ch t.2.1 0), (t.2.2, ch t.2.1 1, tmDir t.2.1)) ∈ T.delta := by
    intro t ht
    exact hperm.mem_iff.mp (List.mem_map.mpr ⟨t, ht, rfl⟩)
  have ha : getState (tmRaw T) "accept" (tmFresh (tmRaw T).states "accept") = .ok T.qAccept := by rfl
  have hr : getState (tmRaw T) "reject" (tmFresh (tmRaw T).states "reject") = .ok T.qReject := by rfl
  have h1 : commonChecks (tmRaw T) [T.qAccept, T.qReject] isWord = .ok (tmRaw T) := by
    apply commonChecks_eq_ok
    · intro e
      have : T.q0 ∈ sortStrings (dedup T.Q) := mem_sortStrings_dedup.mpr hq0
      have e' : sortStrings (dedup T.Q) = [] := e
      rw [e'] at this; cases this
    · intro q hq
      show q ∈ sortStrings (dedup T.Q)
      rw [mem_sortStrings_dedup]
      simp only [usedStates, mem_dedup, List.mem_append, List.mem_flatMap] at hq
      rcases hq with (hq | hq) | ⟨t, ht, hq⟩
      · have : q ∈ [T.q0] := hq
        simp only [List.mem_singleton] at this; subst this; exact hq0
      · have : q ∈ ([] : List String) := hq
        cases this
      · have := hcl _ (hmemT t ht)
        simp only [List.mem_cons, List.not_mem_nil, or_false] at hq
        rcases hq with rfl | rfl
        · exact this.1
        · exact this.2.2.1
    · intro q hq
      have : q ∈ sortStrings (dedup T.Q) := hq
      exact (hQ q (mem_sortStrings_dedup.mp this)).1
    · rfl
  have h2 : parseSymbol (tmRaw T) "blank" '□' "_" = .ok T.blank := by rfl
  have h3 : getSymbolSet (tmRaw T) "tape_symbols" (tmUsedTape (tmRaw T)) =
      .ok (dedup (sortStrings (dedup T.Gamma))) := by
    have hl : (tmRaw T).items.lookup "tape_symbols" = some (sortStrings (dedup T.Gamma)) := by rfl
    have hsub : ssubset (tmUsedTape (tmRaw T)) (sortStrings (dedup T.Gamma)) = true := by
      rw [ssubset_iff]
      intro a ha
      simp only [tmUsedTape, mem_dedup, List.mem_flatMap] at ha
      obtain ⟨t, ht, ha⟩ := ha
      have := hcl _ (hmemT t ht)
      simp only [List.mem_cons, List.not_mem_nil, or_false] at ha
      rcases ha with rfl | rfl
      · exact mem_sortStrings_dedup.mpr this.2.1
      · exact mem_sortStrings_dedup.mpr this.2.2.2
    unfold getSymbolSet
    rw [hl]
    simp [hsub]
  have hS : tmSigma (tmRaw T) (dedup (sortStrings (dedup T.Gamma))) T.blank = dedup (sortStrings (dedup T.Sigma)) := by
    rfl
  have hvalid : TM.valid
      { Q := (tmRaw T).states, Sigma := dedup (sortStrings (dedup T.Sigma)),
        Gamma := sinsert (dedup (sortStrings (dedup T.Gamma))) T.blank,
        delta := tmDelta (tmRaw T).transitions, q0 := initialOf (tmRaw T), qAccept := T.qAccept, qReject := T.qReject,
        blank := T.blank : TM String String } = true := by
    rw [TM.valid_iff']
    refine ⟨?_, ?_, ?_, hne, ?_, ?_, ?_, ?_⟩
    · show T.q0 ∈ sortStrings (dedup T.Q); exact mem_sortStrings_dedup.mpr hq0
    · show T.qAccept ∈ sortStrings (dedup T.Q); exact mem_sortStrings_dedup.mpr hqa
    · show T.qReject ∈ sortStrings (dedup T.Q); exact mem_sortStrings_dedup.mpr hqr
    · show T.blank ∉ dedup (sortStrings (dedup T.Sigma)); simpa using hbS
    · show T.blank ∈ sinsert (dedup (sortStrings (dedup T.Gamma))) T.blank; simp
    · intro a ha
      have : a ∈ dedup (sortStrings (dedup T.Sigma)) := ha
      show a ∈ sinsert (dedup (sortStrings (dedup T.Gamma))) T.blank
      simp only [mem_dedup, mem_sortStrings] at this
      simp [hSG a this]
    · intro e he
      have he' : e ∈ tmDelta (transOf (tmTrans T)) := he
      rw [hdelta] at he'
      have := hcl e (hperm.mem_iff.mp he')
      refine ⟨?_, ?_, ?_, ?_⟩
      · show e.1.1 ∈ sortStrings (dedup T.Q); exact mem_sortStrings_dedup.mpr this.1
      · show e.1.2 ∈ sinsert (dedup (sortStrings (dedup T.Gamma))) T.blank; simp [this.2.1]
      · show e.2.1 ∈ sortStrings (dedup T.Q); exact mem_sortStrings_dedup.mpr this.2.2.1
      · show e.2.2.1 ∈ sinsert (dedup (sortStrings (dedup T.Gamma))) T.blank; simp [this.2.2.2]
  refine ⟨_, ?_, hvalid, rfl, rfl, rfl, rfl, rfl, rfl, rfl, ?_⟩
  · rw [parseTm_eq, h0]
    simp only [Except.bind, ha, hr, h1, h2, h3, hS]
    simp only [TM.checked, hvalid]
    rfl
  · show (tmDelta (transOf (tmTrans T))).Perm T.delta
    rw [hdelta]; exact hperm

end Parse

/-! ### PDA validity unpacked -/

theorem PDA.valid_iff' (P : SPDA) : P.valid = true ↔
    P.q0 ∈ P.Q ∧ P.eps ∉ P.Sigma ∧ P.epsG ∉ P.Gamma ∧ (∀ f, f ∈ P.F → f ∈ P.Q) ∧
      ∀ e, e ∈ P.delta → e.1.1 ∈ P.Q ∧ (e.1.2.1 ∈ P.Sigma ∨ e.1.2.1 = P.eps) ∧ (e.1.2.2 ∈ P.Gamma ∨ e.1.2.2 = P.epsG) ∧
        ∀ t, t ∈ e.2 → t.1 ∈ P.Q ∧ (t.2 ∈ P.Gamma ∨ t.2 = P.epsG) := by
  simp only [PDA.valid, Bool.and_eq_true, Bool.or_eq_true, decide_eq_true_eq, ssubset_iff, List.all_eq_true, and_assoc]

namespace Parse

/-! ### the PDA round trip, step 1: the raw parse of `printPda P` -/

/-- the `(p, q, label)` triples `print_pda` groups into lines -/
def pdaTrans (P : SPDA) : List (String × String × String) :=
  P.delta.flatMap fun e => e.2.map fun t => (e.1.1, t.1, e.1.2.1 ++ "," ++ e.1.2.2 ++ t.2)

/-- what the line parser reads back from `printPda P` -/
def pdaRaw (P : SPDA) : Raw :=
  { states := sortStrings (dedup P.Q), final := sortStrings (dedup P.F), initial := [P.q0],
    items := [("states", sortStrings (dedup P.Q)), ("final", sortStrings (dedup P.F)), ("initial", [P.q0]),
              ("input_symbols", sortStrings (dedup P.Sigma)), ("stack_symbols", sortStrings (dedup P.Gamma)),
              ("epsilon", [P.eps])],
    transitions := transOf (pdaTrans P) }

theorem printPda_toList (P : SPDA) :
    (printPda P).toList = ("".intercalate ((
      ["states" ++ " " ++ joinSp (sortStrings (dedup P.Q)), "final" ++ " " ++ joinSp (sortStrings (dedup P.F)),
        "initial" ++ " " ++ joinSp [P.q0], "input_symbols" ++ " " ++ joinSp (sortStrings (dedup P.Sigma)),
        "stack_symbols" ++ " " ++ joinSp (sortStrings (dedup P.Gamma)), "epsilon" ++ " " ++ joinSp [P.eps]] ++
        transLines (pdaTrans P)).map (· ++ "\n"))).toList := by
  unfold printPda
  have e1 : ("states " : String) = "states" ++ " " := by decide
  have e2 : ("final " : String) = "final" ++ " " := by decide
  have e3 : ("initial " : String) = "initial" ++ " " := by decide
  have e4 : ("input_symbols " : String) = "input_symbols" ++ " " := by decide
  have e5 : ("stack_symbols " : String) = "stack_symbols" ++ " " := by decide
  have e6 : ("epsilon " : String) = "epsilon" ++ " " := by decide
  rw [e1, e2, e3, e4, e5, e6, joinSp_singleton, joinSp_singleton]
  rfl

theorem pda_label_toList {a u v : String} {ca cu cv : Char} (ha : a = String.singleton ca)
    (hu : u = String.singleton cu) (hv : v = String.singleton cv) :
    (a ++ "," ++ u ++ v).toList = [ca, ',', cu, cv] := by
  subst ha hu hv
  simp [String.toList_append]

theorem ch_pda_label {a u v : String} {ca cu cv : Char} (ha : a = String.singleton ca)
    (hu : u = String.singleton cu) (hv : v = String.singleton cv) :
    ch (a ++ "," ++ u ++ v).toList 0 = a ∧ ch (a ++ "," ++ u ++ v).toList 2 = u ∧ ch (a ++ "," ++ u ++ v).toList 3 = v := by
  rw [pda_label_toList ha hu hv]
  subst ha hu hv
  simp [ch]

/-- the symbol hypotheses of the PDA round trip, gathered -/
structure PdaSymsOk (P : SPDA) : Prop where
  valid : P.valid = true
  heq : P.epsG = P.eps
  hS : ∀ a, a ∈ P.Sigma → Parse.Char1 Text.isWordChar a
  hG : ∀ x, x ∈ P.Gamma → Parse.Char1 (Parse.isLabelSym false) x
  he : Parse.Char1 Text.isWordChar P.eps

/-- every printed entry: its components are in the automaton and are single characters of the right classes -/
theorem PdaSymsOk.entry {P : SPDA} (h : PdaSymsOk P) {p a u : String} {vs : List (String × String)} {q v : String}
    (he : ((p, a, u), vs) ∈ P.delta) (ht : (q, v) ∈ vs) :
    p ∈ P.Q ∧ q ∈ P.Q ∧ (a ∈ P.Sigma ∨ a = P.eps) ∧ (u ∈ P.Gamma ∨ u = P.eps) ∧ (v ∈ P.Gamma ∨ v = P.eps) ∧
      Char1 isWordChar a ∧ Char1 (isLabelSym false) u ∧ Char1 (isLabelSym false) v := by
  obtain ⟨_, _, _, _, hcl⟩ := (PDA.valid_iff' P).mp h.valid
  obtain ⟨hp, ha, hu, hts⟩ := hcl _ he
  obtain ⟨hq, hv⟩ := hts _ ht
  rw [h.heq] at hu hv
  simp only at ha hu hv hp hq
  refine ⟨hp, hq, ha, hu, hv, ?_, ?_, ?_⟩
  · rcases ha with ha | ha
    · exact h.hS a ha
    · rw [ha]; exact h.he
  · rcases hu with hu | hu
    · exact h.hG u hu
    · rw [hu]; exact h.he.of_wordChar
  · rcases hv with hv | hv
    · exact h.hG v hv
    · rw [hv]; exact h.he.of_wordChar

theorem mem_pdaTrans {P : SPDA} {t : String × String × String} :
    t ∈ pdaTrans P ↔ ∃ p a u vs q v, ((p, a, u), vs) ∈ P.delta ∧ (q, v) ∈ vs ∧ t = (p, q, a ++ "," ++ u ++ v) := by
  simp only [pdaTrans, List.mem_flatMap, List.mem_map]
  constructor
  · rintro ⟨⟨⟨p, a, u⟩, vs⟩, he, ⟨q, v⟩, ht, rfl⟩
    exact ⟨p, a, u, vs, q, v, he, ht, rfl⟩
  · rintro ⟨p, a, u, vs, q, v, he, ht, rfl⟩
    exact ⟨((p, a, u), vs), he, (q, v), ht, rfl⟩

theorem pdaTrans_ok {P : SPDA} (h : PdaSymsOk P) (hQ : ∀ q, q ∈ P.Q → Parse.PdaNameOk q) :
    ∀ t, t ∈ pdaTrans P → TransOk .pda t := by
  intro t ht
  obtain ⟨p, a, u, vs, q, v, he, hqv, rfl⟩ := mem_pdaTrans.mp ht
  obtain ⟨hp, hq, _, _, _, ⟨ca, ha1, ha2⟩, ⟨cu, hu1, hu2⟩, ⟨cv, hv1, hv2⟩⟩ := h.entry he hqv
  have hl := pda_label_toList ha1 hu1 hv1
  refine ⟨(hQ p hp).1, (hQ p hp).2, (hQ q hq).1, ?_, ?_⟩
  · show Token (a ++ "," ++ u ++ v).toList
    rw [hl]
    refine ⟨by simp, ?_⟩
    intro c hc
    simp only [List.mem_cons, List.not_mem_nil, or_false] at hc
    rcases hc with rfl | rfl | rfl | rfl
    · exact not_isSpace_of_isWordChar ha2
    · decide
    · exact not_isSpace_of_isLabelSym hu2
    · exact not_isSpace_of_isLabelSym hv2
  · show labelOk .pda (a ++ "," ++ u ++ v).toList = true
    rw [hl]
    simp [labelOk, ha2, hu2, hv2]

theorem parse_print_pda_raw (P : SPDA) (h : PdaSymsOk P) (hQ : ∀ q, q ∈ P.Q → Parse.PdaNameOk q) :
    parseRaw .pda isWord (printPda P).toList = .ok (pdaRaw P) := by
  obtain ⟨hq0, _, _, hF, hcl⟩ := (PDA.valid_iff' P).mp h.valid
  have hts := pdaTrans_ok h hQ
  have tokQ : ∀ n, n ∈ sortStrings (dedup P.Q) → Token n.toList := fun n hn =>
    isWord_token (hQ n (mem_sortStrings_dedup.mp hn)).1
  have tokF : ∀ n, n ∈ sortStrings (dedup P.F) → Token n.toList := fun n hn =>
    isWord_token (hQ n (hF n (mem_sortStrings_dedup.mp hn))).1
  have tokS : ∀ n, n ∈ sortStrings (dedup P.Sigma) → Token n.toList := fun n hn =>
    isWord_token (h.hS n (mem_sortStrings_dedup.mp hn)).isWord
  have tokG : ∀ n, n ∈ sortStrings (dedup P.Gamma) → Token n.toList := fun n hn =>
    (h.hG n (mem_sortStrings_dedup.mp hn)).token
  have tok0 : ∀ n, n ∈ [P.q0] → Token n.toList := fun n hn => by
    simp only [List.mem_singleton] at hn; subst hn; exact isWord_token (hQ _ hq0).1
  have tokE : ∀ n, n ∈ [P.eps] → Token n.toList := fun n hn => by
    simp only [List.mem_singleton] at hn; subst hn; exact isWord_token h.he.isWord
  have k1 : Token "states".toList := isWord_token (by decide)
  have k2 : Token "final".toList := isWord_token (by decide)
  have k3 : Token "initial".toList := isWord_token (by decide)
  have k4 : Token "input_symbols".toList := isWord_token (by decide)
  have k5 : Token "stack_symbols".toList := isWord_token (by decide)
  have k6 : Token "epsilon".toList := isWord_token (by decide)
  rw [printPda_toList, parseRaw_join_terminated]
  · rw [List.map_append, lineWords_append]
    simp only [List.map_cons, List.map_nil]
    rw [lineWords_of_ne]
    · simp only [List.map_cons, List.map_nil, splitWs_kw_joinSp k1 tokQ, splitWs_kw_joinSp k2 tokF,
        splitWs_kw_joinSp k3 tok0, splitWs_kw_joinSp k4 tokS, splitWs_kw_joinSp k5 tokG, splitWs_kw_joinSp k6 tokE]
      have okQ : ∀ n, n ∈ sortStrings (dedup P.Q) → isWord n.toList = true := fun n hn =>
        (hQ n (mem_sortStrings_dedup.mp hn)).1
      have okF : ∀ n, n ∈ sortStrings (dedup P.F) → isWord n.toList = true := fun n hn =>
        (hQ n (hF n (mem_sortStrings_dedup.mp hn))).1
      have ok0 : ∀ n, n ∈ [P.q0] → isWord n.toList = true := fun n hn => by
        simp only [List.mem_singleton] at hn; subst hn; exact (hQ _ hq0).1
      have hneQ : sortStrings (dedup P.Q) ≠ [] := by
        intro e
        have : P.q0 ∈ sortStrings (dedup P.Q) := mem_sortStrings_dedup.mpr hq0
        rw [e] at this; cases this
      simp only [List.cons_append, List.nil_append]
      refine (parseWordLines_cons_ok _ _ (parseWords_states .pda isWord {} (str_toList _) rfl
        (nodup_sortStrings_dedup _) hneQ okQ) _).trans ?_
      refine (parseWordLines_cons_ok _ _ (parseWords_final .pda isWord _ (str_toList _) (by rfl)
        (nodup_sortStrings_dedup _) okF) _).trans ?_
      refine (parseWordLines_cons_ok _ _ (parseWords_initial .pda isWord _ (names := [P.q0]) (str_toList _) (by rfl)
        (by simp) ok0) _).trans ?_
      refine (parseWordLines_cons_ok _ _ (parseWords_keyword .pda isWord _ (args := sortStrings (dedup P.Sigma))
        (str_toList _) (by decide) (by rfl)) _).trans ?_
      refine (parseWordLines_cons_ok _ _ (parseWords_keyword .pda isWord _ (args := sortStrings (dedup P.Gamma))
        (str_toList _) (by decide) (by rfl)) _).trans ?_
      refine (parseWordLines_cons_ok _ _ (parseWords_keyword .pda isWord _ (args := [P.eps])
        (str_toList _) (by decide) (by rfl)) _).trans ?_
      rw [parseWordLines_transLines .pda _ hts]
      rfl
    · intro l hl
      simp only [List.mem_cons, List.not_mem_nil, or_false] at hl
      rcases hl with rfl | rfl | rfl | rfl | rfl | rfl
      · rw [splitWs_kw_joinSp k1 tokQ]; simp
      · rw [splitWs_kw_joinSp k2 tokF]; simp
      · rw [splitWs_kw_joinSp k3 tok0]; simp
      · rw [splitWs_kw_joinSp k4 tokS]; simp
      · rw [splitWs_kw_joinSp k5 tokG]; simp
      · rw [splitWs_kw_joinSp k6 tokE]; simp
  · intro l hl
    rcases List.mem_append.mp hl with hl | hl
    · simp only [List.mem_cons, List.not_mem_nil, or_false] at hl
      rcases hl with rfl | rfl | rfl | rfl | rfl | rfl
      · exact newline_not_mem_kw_joinSp k1.newline_not_mem (fun n hn => (tokQ n hn).newline_not_mem)
      · exact newline_not_mem_kw_joinSp k2.newline_not_mem (fun n hn => (tokF n hn).newline_not_mem)
      · exact newline_not_mem_kw_joinSp k3.newline_not_mem (fun n hn => (tok0 n hn).newline_not_mem)
      · exact newline_not_mem_kw_joinSp k4.newline_not_mem (fun n hn => (tokS n hn).newline_not_mem)
      · exact newline_not_mem_kw_joinSp k5.newline_not_mem (fun n hn => (tokG n hn).newline_not_mem)
      · exact newline_not_mem_kw_joinSp k6.newline_not_mem (fun n hn => (tokE n hn).newline_not_mem)
    · exact newline_not_mem_transLines hts l hl

/-! ### step 2: the PDA builder on that raw parse -/

/-- the entries read back are exactly the printed ones -/
theorem mem_pdaRaw_trans {P : SPDA} {t : String × Word × String} :
    t ∈ (pdaRaw P).transitions ↔
      ∃ p a u vs q v, ((p, a, u), vs) ∈ P.delta ∧ (q, v) ∈ vs ∧ t = (p, (a ++ "," ++ u ++ v).toList, q) := by
  show t ∈ transOf (pdaTrans P) ↔ _
  rw [mem_transOf]
  constructor
  · rintro ⟨t0, ht0, rfl⟩
    obtain ⟨p, a, u, vs, q, v, he, hqv, rfl⟩ := mem_pdaTrans.mp ht0
    exact ⟨p, a, u, vs, q, v, he, hqv, rfl⟩
  · rintro ⟨p, a, u, vs, q, v, he, hqv, rfl⟩
    exact ⟨_, mem_pdaTrans.mpr ⟨p, a, u, vs, q, v, he, hqv, rfl⟩, rfl⟩

theorem PdaSymsOk.key_val {P : SPDA} (h : PdaSymsOk P) {p a u : String} {vs : List (String × String)} {q v : String}
    (he : ((p, a, u), vs) ∈ P.delta) (ht : (q, v) ∈ vs) :
    ch (a ++ "," ++ u ++ v).toList 0 = a ∧ ch (a ++ "," ++ u ++ v).toList 2 = u ∧ ch (a ++ "," ++ u ++ v).toList 3 = v := by
  obtain ⟨_, _, _, _, _, ⟨ca, ha1, _⟩, ⟨cu, hu1, _⟩, ⟨cv, hv1, _⟩⟩ := h.entry he ht
  exact ch_pda_label ha1 hu1 hv1

/-- the round trip, with the parsed PDA described explicitly -/
theorem parse_print_pda_explicit (P : SPDA) (h : PdaSymsOk P) (hk : (P.delta.map (·.1)).Nodup)
    (hQ : ∀ q, q ∈ P.Q → Parse.PdaNameOk q) :
    ∃ P', Parse.parsePda (Parse.printPda P).toList = .ok P' ∧ P'.valid = true ∧
      P'.Q = sortStrings (dedup P.Q) ∧ P'.Sigma = dedup (sortStrings (dedup P.Sigma)) ∧
      P'.Gamma = dedup (sortStrings (dedup P.Gamma)) ∧ P'.q0 = P.q0 ∧ P'.F = sortStrings (dedup P.F) ∧
      P'.eps = P.eps ∧ P'.epsG = P.eps ∧
      ∀ k t, t ∈ (P'.delta.lookup k).getD [] ↔ t ∈ (P.delta.lookup k).getD [] := by
  obtain ⟨hq0, heS, heG, hF, hcl⟩ := (PDA.valid_iff' P).mp h.valid
  have h0 := parse_print_pda_raw P h hQ
  -- every entry read back, with its key and value
  have hent : ∀ t, t ∈ (pdaRaw P).transitions → ∃ p a u vs q v, ((p, a, u), vs) ∈ P.delta ∧ (q, v) ∈ vs ∧
      t.1 = p ∧ ch t.2.1 0 = a ∧ ch t.2.1 2 = u ∧ ch t.2.1 3 = v ∧ t.2.2 = q := by
    intro t ht
    obtain ⟨p, a, u, vs, q, v, he, hqv, rfl⟩ := mem_pdaRaw_trans.mp ht
    obtain ⟨e1, e2, e3⟩ := h.key_val he hqv
    exact ⟨p, a, u, vs, q, v, he, hqv, rfl, e1, e2, e3, rfl⟩
  have h1 : commonChecks (pdaRaw P) [] isWord = .ok (pdaRaw P) := by
    apply commonChecks_eq_ok
    · intro e
      have : P.q0 ∈ sortStrings (dedup P.Q) := mem_sortStrings_dedup.mpr hq0
      have e' : sortStrings (dedup P.Q) = [] := e
      rw [e'] at this; cases this
    · intro q hq
      show q ∈ sortStrings (dedup P.Q)
      rw [mem_sortStrings_dedup]
      simp only [usedStates, mem_dedup, List.mem_append, List.mem_flatMap] at hq
      rcases hq with (hq | hq) | ⟨t, ht, hq⟩
      · have : q ∈ [P.q0] := hq
        simp only [List.mem_singleton] at this; subst this; exact hq0
      · have : q ∈ sortStrings (dedup P.F) := hq
        exact hF q (mem_sortStrings_dedup.mp this)
      · obtain ⟨p, a, u, vs, q', v, he, hqv, e1, _, _, _, e5⟩ := hent t ht
        have := h.entry he hqv
        simp only [List.mem_cons, List.not_mem_nil, or_false] at hq
        rcases hq with rfl | rfl
        · rw [e1]; exact this.1
        · rw [e5]; exact this.2.1
    · intro q hq
      have : q ∈ sortStrings (dedup P.Q) := hq
      exact (hQ q (mem_sortStrings_dedup.mp this)).1
    · rfl
  have h2 : parseSymbol (pdaRaw P) "epsilon" 'ε' "_" = .ok P.eps := by rfl
  have h3 : getSymbolSet (pdaRaw P) "input_symbols" (pdaUsedIn (pdaRaw P) P.eps) =
      .ok (dedup (sortStrings (dedup P.Sigma))) := by
    have hl : (pdaRaw P).items.lookup "input_symbols" = some (sortStrings (dedup P.Sigma)) := by rfl
    have hsub : ssubset (pdaUsedIn (pdaRaw P) P.eps) (sortStrings (dedup P.Sigma)) = true := by
      rw [ssubset_iff]
      intro a ha
      simp only [pdaUsedIn, mem_dedup, List.mem_filter, List.mem_map, ne_eq, decide_eq_true_eq] at ha
      obtain ⟨⟨t, ht, rfl⟩, hne⟩ := ha
      obtain ⟨p, a, u, vs, q', v, he, hqv, _, e2, _, _, _⟩ := hent t ht
      have := (h.entry he hqv).2.2.1
      rw [e2] at hne ⊢
      rcases this with h' | h'
      · exact mem_sortStrings_dedup.mpr h'
      · exact absurd h' hne
    unfold getSymbolSet
    rw [hl]
    simp [hsub]
  have h4 : getSymbolSet (pdaRaw P) "stack_symbols" (pdaUsedSt (pdaRaw P) P.eps) =
      .ok (dedup (sortStrings (dedup P.Gamma))) := by
    have hl : (pdaRaw P).items.lookup "stack_symbols" = some (sortStrings (dedup P.Gamma)) := by rfl
    have hsub : ssubset (pdaUsedSt (pdaRaw P) P.eps) (sortStrings (dedup P.Gamma)) = true := by
      rw [ssubset_iff]
      intro a ha
      simp only [pdaUsedSt, mem_dedup, List.mem_filter, List.mem_flatMap, ne_eq, decide_eq_true_eq] at ha
      obtain ⟨⟨t, ht, ha⟩, hne⟩ := ha
      obtain ⟨p, a', u, vs, q', v, he, hqv, _, _, e3, e4, _⟩ := hent t ht
      have := h.entry he hqv
      simp only [List.mem_cons, List.not_mem_nil, or_false] at ha
      rcases ha with rfl | rfl
      · rw [e3] at hne ⊢
        rcases this.2.2.2.1 with h' | h'
        · exact mem_sortStrings_dedup.mpr h'
        · exact absurd h' hne
      · rw [e4] at hne ⊢
        rcases this.2.2.2.2.1 with h' | h'
        · exact mem_sortStrings_dedup.mpr h'
        · exact absurd h' hne
    unfold getSymbolSet
    rw [hl]
    simp [hsub]
  have hw : wordsOk (dedup (sortStrings (dedup P.Sigma))) = true := by
    simp only [wordsOk, List.all_eq_true]
    intro a ha
    exact (h.hS a (by simpa using ha)).isWord
  have hvalid : PDA.valid
      { Q := (pdaRaw P).states, Sigma := dedup (sortStrings (dedup P.Sigma)),
        Gamma := dedup (sortStrings (dedup P.Gamma)), delta := pdaDelta (pdaRaw P).transitions,
        q0 := initialOf (pdaRaw P), F := (pdaRaw P).final, eps := P.eps, epsG := P.eps : SPDA } = true := by
    rw [PDA.valid_iff']
    refine ⟨?_, ?_, ?_, ?_, ?_⟩
    · show P.q0 ∈ sortStrings (dedup P.Q); exact mem_sortStrings_dedup.mpr hq0
    · show P.eps ∉ dedup (sortStrings (dedup P.Sigma)); simpa using heS
    · show P.eps ∉ dedup (sortStrings (dedup P.Gamma))
      rw [h.heq] at heG; simpa using heG
    · intro f hf
      have : f ∈ sortStrings (dedup P.F) := hf
      show f ∈ sortStrings (dedup P.Q)
      exact mem_sortStrings_dedup.mpr (hF f (mem_sortStrings_dedup.mp this))
    · intro e he
      have he' : e ∈ pdaDelta (pdaRaw P).transitions := he
      unfold pdaDelta at he'
      have hkey := C16c.mem_foldl_add_key (fun t : String × Word × String => (t.1, ch t.2.1 0, ch t.2.1 2))
        (fun t => (t.2.2, ch t.2.1 3)) _ _ he'
      have hval := C16c.mem_foldl_add (fun t : String × Word × String => (t.1, ch t.2.1 0, ch t.2.1 2))
        (fun t => (t.2.2, ch t.2.1 3)) _ _ he'
      rcases hkey with ⟨e0, h0', _⟩ | ⟨t, ht, hkt⟩
      · cases h0'
      obtain ⟨p, a, u, vs, q, v, hd, hqv, e1, e2, e3, _, _⟩ := hent t ht
      have hE := h.entry hd hqv
      simp only [e1, e2, e3] at hkt
      refine ⟨?_, ?_, ?_, ?_⟩
      · show e.1.1 ∈ sortStrings (dedup P.Q)
        rw [← hkt]; exact mem_sortStrings_dedup.mpr hE.1
      · show e.1.2.1 ∈ dedup (sortStrings (dedup P.Sigma)) ∨ e.1.2.1 = P.eps
        rw [← hkt]; simpa using hE.2.2.1
      · show e.1.2.2 ∈ dedup (sortStrings (dedup P.Gamma)) ∨ e.1.2.2 = P.eps
        rw [← hkt]; simpa using hE.2.2.2.1
      · intro x hx
        rcases hval x hx with ⟨e0, h0', _⟩ | ⟨t', ht', _, hvt⟩
        · cases h0'
        obtain ⟨p', a', u', vs', q', v', hd', hqv', _, _, _, e4, e5⟩ := hent t' ht'
        have hE' := h.entry hd' hqv'
        simp only [e4, e5] at hvt
        show x.1 ∈ sortStrings (dedup P.Q) ∧ (x.2 ∈ dedup (sortStrings (dedup P.Gamma)) ∨ x.2 = P.eps)
        rw [← hvt]
        exact ⟨mem_sortStrings_dedup.mpr hE'.2.1, by simpa using hE'.2.2.2.2.1⟩
  refine ⟨_, ?_, hvalid, rfl, rfl, rfl, rfl, rfl, rfl, rfl, ?_⟩
  · rw [parsePda_eq, h0]
    simp only [Except.bind, h1, h2, h3, h4, hw, Bool.not_true, Bool.false_eq_true, ↓reduceIte]
    simp only [PDA.checked, hvalid]
    rfl
  · intro k t
    show t ∈ ((pdaDelta (pdaRaw P).transitions).lookup k).getD [] ↔ _
    unfold pdaDelta
    rw [C16c.mem_lookup_foldl_add (fun t : String × Word × String => (t.1, ch t.2.1 0, ch t.2.1 2))
      (fun t => (t.2.2, ch t.2.1 3))]
    simp only [List.lookup_nil, Option.getD_none, List.not_mem_nil, false_or]
    constructor
    · rintro ⟨tr, htr, hkey, hval⟩
      obtain ⟨p, a, u, vs, q, v, hd, hqv, e1, e2, e3, e4, e5⟩ := hent tr htr
      simp only [e1, e2, e3] at hkey
      simp only [e4, e5] at hval
      subst hkey hval
      rw [(C16c.mem_iff_lookup_of_nodup hk _ _).mp hd]
      exact hqv
    · intro ht
      cases hl : P.delta.lookup k with
      | none => rw [hl] at ht; cases ht
      | some vs =>
        rw [hl] at ht
        have hd := mem_of_lookup_eq_some hl
        obtain ⟨p, a, u⟩ := k
        obtain ⟨q, v⟩ := t
        obtain ⟨e1, e2, e3⟩ := h.key_val hd ht
        refine ⟨(p, (a ++ "," ++ u ++ v).toList, q), mem_pdaRaw_trans.mpr ⟨p, a, u, vs, q, v, hd, ht, rfl⟩, ?_, ?_⟩
        · simp only [e1, e2]
        · simp only [e3]

end Parse

end Gamba
