/-
  Gamba.Proofs.C04c — Hopcroft's algorithm (`DFA.hopcroft`, the model of `dfa_hopfcroft`):
  partial correctness for every fuel / pop order, and termination within the model's fuel.

  Invariant of the main loop (`HopInv D X st`, `X` = splitters that are "in flight", i.e. popped but
  not yet completely processed):
    * `st.P` is a duplicate-free partition of `D.Q` whose blocks respect `F`;
    * every block and every pending splitter is saturated for Nerode equivalence (`Sat`): this is the
      soundness half (states in different blocks are inequivalent);
    * for every block `B` and symbol `a ∈ Σ`: `Good st.P (X ++ st.W) a (· ∈ B)` — every refinement of the
      current partition that is stable w.r.t. all pending splitters `(Ws, a)` is stable w.r.t. `(B, a)`.
  With `W = []` the last clause says that the partition is stable, hence a congruence.
-/
import Gamba.Model.DFA
import Gamba.Model.Minimize
import Gamba.Spec.Automata
import Gamba.Proofs.DFABasic
import Gamba.Proofs.MinBasic
namespace Gamba
set_option linter.unusedSectionVars false
set_option linter.unusedVariables false
variable {σ τ : Type} [DecidableEq σ] [DecidableEq τ]

/-! ### small list facts -/

/-- adding `(M, b)` for every `b ∈ Σ` to the waiting list -/
def addAll (Sig : List τ) (M : List σ) (W : List (List σ × τ)) : List (List σ × τ) :=
  Sig.foldl (fun W b => sinsert W (M, b)) W

theorem mem_addAll {Sig : List τ} {M : List σ} {W : List (List σ × τ)} {e : List σ × τ} :
    e ∈ addAll Sig M W ↔ e ∈ W ∨ ∃ b, b ∈ Sig ∧ e = (M, b) := by
  unfold addAll
  induction Sig generalizing W with
  | nil => simp
  | cons c Sig ih =>
    rw [List.foldl_cons, ih, mem_sinsert]
    constructor
    · rintro ((h | h) | ⟨b, hb, he⟩)
      · exact Or.inl h
      · exact Or.inr ⟨c, List.mem_cons_self, h⟩
      · exact Or.inr ⟨b, List.mem_cons_of_mem _ hb, he⟩
    · rintro (h | ⟨b, hb, he⟩)
      · exact Or.inl (Or.inl h)
      · rcases List.mem_cons.mp hb with rfl | hb
        · exact Or.inl (Or.inr he)
        · exact Or.inr ⟨b, hb, he⟩

theorem length_sinsert_le {α : Type} [DecidableEq α] (l : List α) (x : α) :
    (sinsert l x).length ≤ l.length + 1 := by
  unfold sinsert; split <;> simp

theorem length_addAll_le (Sig : List τ) (M : List σ) (W : List (List σ × τ)) :
    (addAll Sig M W).length ≤ W.length + Sig.length := by
  unfold addAll
  induction Sig generalizing W with
  | nil => simp
  | cons c Sig ih =>
    rw [List.foldl_cons]
    have h1 := ih (W := sinsert W (M, c))
    have h2 := length_sinsert_le W (M, c)
    simp only [List.length_cons]
    omega

theorem minBlock_cases (P Q : List σ) : minBlock P Q = P ∨ minBlock P Q = Q := by
  unfold minBlock; split
  · exact Or.inl rfl
  · exact Or.inr rfl

theorem length_filter_ne {α : Type} [DecidableEq α] {l : List α} {x : α} (hn : l.Nodup) (hx : x ∈ l) :
    (l.filter (· ≠ x)).length + 1 = l.length := by
  induction l with
  | nil => cases hx
  | cons y l ih =>
    rw [List.nodup_cons] at hn
    by_cases hy : y = x
    · subst hy
      have : l.filter (· ≠ y) = l := by
        rw [List.filter_eq_self]
        intro z hz
        simp only [ne_eq, decide_not, Bool.not_eq_eq_eq_not, Bool.not_true, decide_eq_false_iff_not]
        rintro rfl
        exact hn.1 hz
      rw [List.filter_cons_of_neg (by simp), this]
      simp
    · have hx' : x ∈ l := by
        rcases List.mem_cons.mp hx with rfl | h
        · exact absurd rfl hy
        · exact h
      have := ih hn.2 hx'
      simp only [ne_eq, hy, not_false_eq_true, decide_true, List.filter_cons_of_pos, List.length_cons]
      simp only [ne_eq] at this
      omega

/-! ### partitions: counting -/

theorem length_le_of_disjoint_nonempty (P : List (List σ)) (Qs : List σ)
    (hne : ∀ B, B ∈ P → B ≠ []) (hsub : ∀ B, B ∈ P → ∀ q, q ∈ B → q ∈ Qs)
    (hd : ∀ B C, B ∈ P → C ∈ P → ∀ q, q ∈ B → q ∈ C → B = C) (hn : P.Nodup) :
    P.length ≤ Qs.length := by
  induction P generalizing Qs with
  | nil => simp
  | cons B P ih =>
    rw [List.nodup_cons] at hn
    cases hB : B with
    | nil => exact absurd hB (hne B List.mem_cons_self)
    | cons x B' =>
      have hxB : x ∈ B := hB ▸ List.mem_cons_self
      have hxQ : x ∈ Qs := hsub B List.mem_cons_self x hxB
      have := ih (Qs.erase x) (fun C hC => hne C (List.mem_cons_of_mem _ hC))
        (fun C hC q hq => by
          have hqx : q ≠ x := by
            rintro rfl
            have := hd B C List.mem_cons_self (List.mem_cons_of_mem _ hC) q hxB hq
            exact hn.1 (this ▸ hC)
          exact (List.mem_erase_of_ne hqx).mpr (hsub C (List.mem_cons_of_mem _ hC) q hq))
        (fun C C' hC hC' => hd C C' (List.mem_cons_of_mem _ hC) (List.mem_cons_of_mem _ hC'))
        hn.2
      rw [List.length_erase_of_mem hxQ] at this
      have hpos : 0 < Qs.length := List.length_pos_of_mem hxQ
      simp only [List.length_cons]
      omega

theorem DFA.IsPartition.length_le {D : DFA σ τ} {P : List (List σ)} (hP : D.IsPartition P)
    (hn : P.Nodup) : P.length ≤ D.Q.length :=
  length_le_of_disjoint_nonempty P D.Q hP.nonempty hP.sub hP.disj hn

/-! ### saturation (soundness), stability, `Good` -/

/-- `C` is closed under Nerode equivalence inside `Q` -/
def DFA.Sat (D : DFA σ τ) (C : List σ) : Prop :=
  ∀ x y, x ∈ C → y ∈ D.Q → D.Equiv x y → y ∈ C

/-- the partition `P` is stable w.r.t. the splitter `(C, a)` -/
def DFA.Stab (D : DFA σ τ) (P : List (List σ)) (C : σ → Prop) (a : τ) : Prop :=
  ∀ B, B ∈ P → ∀ p q, p ∈ B → q ∈ B → (C (D.next p a) ↔ C (D.next q a))

/-- every block of `P'` is contained in a block of `P` -/
def Refines (P' P : List (List σ)) : Prop :=
  ∀ B', B' ∈ P' → ∃ B, B ∈ P ∧ ∀ x, x ∈ B' → x ∈ B

theorem Refines.refl (P : List (List σ)) : Refines P P := fun B hB => ⟨B, hB, fun _ h => h⟩

theorem Refines.trans {P1 P2 P3 : List (List σ)} (h12 : Refines P1 P2) (h23 : Refines P2 P3) :
    Refines P1 P3 := by
  intro B1 hB1
  obtain ⟨B2, hB2, h1⟩ := h12 B1 hB1
  obtain ⟨B3, hB3, h2⟩ := h23 B2 hB2
  exact ⟨B3, hB3, fun x hx => h2 x (h1 x hx)⟩

theorem DFA.Stab.mono {D : DFA σ τ} {P P' : List (List σ)} {C : σ → Prop} {a : τ}
    (h : D.Stab P C a) (hr : Refines P' P) : D.Stab P' C a := by
  intro B' hB' p q hp hq
  obtain ⟨B, hB, hsub⟩ := hr B' hB'
  exact h B hB p q (hsub p hp) (hsub q hq)

/-- stability w.r.t. `(C, a)` is owed by the pending splitters `W` (or already holds): every refinement of
    `P` that is stable w.r.t. all pending `(Ws, a)` is stable w.r.t. `(C, a)` -/
def DFA.Good (D : DFA σ τ) (P : List (List σ)) (W : List (List σ × τ)) (a : τ) (C : σ → Prop) : Prop :=
  ∀ P', Refines P' P → (∀ Ws, (Ws, a) ∈ W → D.Stab P' (· ∈ Ws) a) → D.Stab P' C a

theorem DFA.Good.of_pending {D : DFA σ τ} {P : List (List σ)} {W : List (List σ × τ)} {a : τ}
    {Ws : List σ} (h : (Ws, a) ∈ W) : D.Good P W a (· ∈ Ws) :=
  fun _ _ hW => hW Ws h

/-- monotonicity: refine the partition; every pending splitter either stays pending or has become stable -/
theorem DFA.Good.mono {D : DFA σ τ} {P P1 : List (List σ)} {W W1 : List (List σ × τ)} {a : τ}
    {C : σ → Prop} (h : D.Good P W a C) (hr : Refines P1 P)
    (hW : ∀ Ws, (Ws, a) ∈ W → (Ws, a) ∈ W1 ∨ D.Stab P1 (· ∈ Ws) a) : D.Good P1 W1 a C := by
  intro P' hP' hst
  apply h P' (hP'.trans hr)
  intro Ws hWs
  rcases hW Ws hWs with h1 | h1
  · exact hst Ws h1
  · exact h1.mono hP'

/-- difference rule -/
theorem DFA.Good.diff {D : DFA σ τ} {P : List (List σ)} {W : List (List σ × τ)} {a : τ}
    {C C1 C' : σ → Prop} (h : D.Good P W a C) (h1 : D.Good P W a C1)
    (hC' : ∀ x, C' x ↔ C x ∧ ¬ C1 x) : D.Good P W a C' := by
  intro P' hP' hst B hB p q hp hq
  rw [hC', hC', h P' hP' hst B hB p q hp hq, h1 P' hP' hst B hB p q hp hq]

theorem DFA.Good.stab {D : DFA σ τ} {P : List (List σ)} {a : τ} {C : σ → Prop}
    (h : D.Good P [] a C) : D.Stab P C a :=
  h P (Refines.refl P) (fun _ hm => by cases hm)

/-- `(· ∈ Q)` is stable for every partition into subsets of `Q` -/
theorem DFA.good_Q {D : DFA σ τ} (hv : D.valid = true) {P : List (List σ)} {W : List (List σ × τ)}
    {a : τ} (ha : a ∈ D.Sigma) (hsub : ∀ B, B ∈ P → ∀ q, q ∈ B → q ∈ D.Q) :
    D.Good P W a (· ∈ D.Q) := by
  intro P' hP' _ B' hB' p q hp hq
  obtain ⟨B, hB, hs⟩ := hP' B' hB'
  have h1 := DFA.valid_next_mem hv (hsub B hB p (hs p hp)) ha
  have h2 := DFA.valid_next_mem hv (hsub B hB q (hs q hq)) ha
  exact ⟨fun _ => h2, fun _ => h1⟩

/-! ### the loop invariant -/

/-- loop invariant; `X` are the splitters in flight -/
structure DFA.HopInv (D : DFA σ τ) (X : List (List σ × τ)) (st : HopState σ τ) : Prop where
  part : D.IsPartition st.P
  nodup : st.P.Nodup
  fin : ∀ B, B ∈ st.P → ∀ p q, p ∈ B → q ∈ B → (p ∈ D.F ↔ q ∈ D.F)
  satP : ∀ B, B ∈ st.P → D.Sat B
  satW : ∀ e, e ∈ X ++ st.W → e.2 ∈ D.Sigma ∧ D.Sat e.1
  good : ∀ B, B ∈ st.P → ∀ a, a ∈ D.Sigma → D.Good st.P (X ++ st.W) a (· ∈ B)

/-- the measure for termination -/
def DFA.hopMeasure (D : DFA σ τ) (st : HopState σ τ) : Nat :=
  st.W.length + D.Sigma.length * (D.Q.length - st.P.length)

/-- the state after splitting `P` into `P1`, `P2` -/
def DFA.hopSplit (D : DFA σ τ) (acc : HopState σ τ) (P P1 P2 : List σ) : HopState σ τ :=
  { P := (acc.P.filter (· ≠ P)) ++ [P1, P2]
    W := addAll D.Sigma (minBlock P1 P2) acc.W }

theorem DFA.mem_hopSplit_P {D : DFA σ τ} {acc : HopState σ τ} {P P1 P2 B : List σ} :
    B ∈ (D.hopSplit acc P P1 P2).P ↔ (B ∈ acc.P ∧ B ≠ P) ∨ B = P1 ∨ B = P2 := by
  simp [DFA.hopSplit]

/-- splitting a block into two non-empty saturated halves preserves the invariant -/
theorem DFA.HopInv.split {D : DFA σ τ} (hv : D.valid = true) {X : List (List σ × τ)} {acc : HopState σ τ}
    (hI : D.HopInv X acc) {P P1 P2 : List σ} (hP : P ∈ acc.P) (h1 : P1 ≠ []) (h2 : P2 ≠ [])
    (hu : ∀ x, x ∈ P ↔ x ∈ P1 ∨ x ∈ P2) (hdj : ∀ x, x ∈ P1 → x ∉ P2)
    (hs1 : D.Sat P1) (hs2 : D.Sat P2) : D.HopInv X (D.hopSplit acc P P1 P2) := by
  have hsub1 : ∀ x, x ∈ P1 → x ∈ P := fun x hx => (hu x).mpr (Or.inl hx)
  have hsub2 : ∀ x, x ∈ P2 → x ∈ P := fun x hx => (hu x).mpr (Or.inr hx)
  -- a block of the new partition is a subset of a block of the old one
  have hsubB : ∀ B, B ∈ (D.hopSplit acc P P1 P2).P → ∃ B0, B0 ∈ acc.P ∧ ∀ x, x ∈ B → x ∈ B0 := by
    intro B hB
    rcases DFA.mem_hopSplit_P.mp hB with ⟨hB, _⟩ | rfl | rfl
    · exact ⟨B, hB, fun _ h => h⟩
    · exact ⟨P, hP, hsub1⟩
    · exact ⟨P, hP, hsub2⟩
  have hne12 : P1 ≠ P2 := by
    rintro rfl
    cases hP1 : P1 with
    | nil => exact h1 hP1
    | cons x l => exact hdj x (hP1 ▸ List.mem_cons_self) (hP1 ▸ List.mem_cons_self)
  -- the halves are not old blocks other than `P`
  have hnew : ∀ B, B ∈ acc.P → B ≠ P → ∀ Pi, Pi ≠ [] → (∀ x, x ∈ Pi → x ∈ P) → B ≠ Pi := by
    rintro B hB hBP Pi hPi hs rfl
    cases hBl : B with
    | nil => exact hPi hBl
    | cons x l =>
      have hx : x ∈ B := hBl ▸ List.mem_cons_self
      exact hBP (hI.part.disj B P hB hP x hx (hs x hx))
  have hM : ∀ a, a ∈ D.Sigma → (minBlock P1 P2, a) ∈ X ++ (D.hopSplit acc P P1 P2).W := by
    intro a ha
    exact List.mem_append_right _ (mem_addAll.mpr (Or.inr ⟨a, ha, rfl⟩))
  have hWsub : ∀ e, e ∈ X ++ acc.W → e ∈ X ++ (D.hopSplit acc P P1 P2).W := by
    intro e he
    rcases List.mem_append.mp he with h | h
    · exact List.mem_append_left _ h
    · exact List.mem_append_right _ (mem_addAll.mpr (Or.inl h))
  refine ⟨⟨?_, ?_, ?_, ?_⟩, ?_, ?_, ?_, ?_, ?_⟩
  · -- nonempty
    intro B hB
    rcases DFA.mem_hopSplit_P.mp hB with ⟨hB, _⟩ | rfl | rfl
    · exact hI.part.nonempty B hB
    · exact h1
    · exact h2
  · -- sub
    intro B hB q hq
    obtain ⟨B0, hB0, hs⟩ := hsubB B hB
    exact hI.part.sub B0 hB0 q (hs q hq)
  · -- cover
    intro q hq
    obtain ⟨B, hB, hqB⟩ := hI.part.cover q hq
    by_cases hBP : B = P
    · subst hBP
      rcases (hu q).mp hqB with h | h
      · exact ⟨P1, DFA.mem_hopSplit_P.mpr (Or.inr (Or.inl rfl)), h⟩
      · exact ⟨P2, DFA.mem_hopSplit_P.mpr (Or.inr (Or.inr rfl)), h⟩
    · exact ⟨B, DFA.mem_hopSplit_P.mpr (Or.inl ⟨hB, hBP⟩), hqB⟩
  · -- disj
    intro B C hB hC q hqB hqC
    rcases DFA.mem_hopSplit_P.mp hB with ⟨hB', hBP⟩ | hB' | hB' <;>
      rcases DFA.mem_hopSplit_P.mp hC with ⟨hC', hCP⟩ | hC' | hC'
    · exact hI.part.disj B C hB' hC' q hqB hqC
    · exact absurd (hI.part.disj B P hB' hP q hqB (hsub1 q (hC' ▸ hqC))) hBP
    · exact absurd (hI.part.disj B P hB' hP q hqB (hsub2 q (hC' ▸ hqC))) hBP
    · exact absurd (hI.part.disj C P hC' hP q hqC (hsub1 q (hB' ▸ hqB))) hCP
    · rw [hB', hC']
    · exact absurd (hC' ▸ hqC) (hdj q (hB' ▸ hqB))
    · exact absurd (hI.part.disj C P hC' hP q hqC (hsub2 q (hB' ▸ hqB))) hCP
    · exact absurd (hB' ▸ hqB) (hdj q (hC' ▸ hqC))
    · rw [hB', hC']
  · -- nodup
    show ((acc.P.filter (· ≠ P)) ++ [P1, P2]).Nodup
    rw [List.nodup_append]
    refine ⟨List.Nodup.sublist List.filter_sublist hI.nodup, ?_, ?_⟩
    · simp [hne12]
    · intro B hB C hC
      simp only [ne_eq, decide_not, List.mem_filter, Bool.not_eq_eq_eq_not, Bool.not_true,
        decide_eq_false_iff_not] at hB
      simp only [List.mem_cons, List.not_mem_nil, or_false] at hC
      rcases hC with rfl | rfl
      · exact hnew B hB.1 hB.2 _ h1 hsub1
      · exact hnew B hB.1 hB.2 _ h2 hsub2
  · -- fin
    intro B hB p q hp hq
    obtain ⟨B0, hB0, hs⟩ := hsubB B hB
    exact hI.fin B0 hB0 p q (hs p hp) (hs q hq)
  · -- satP
    intro B hB
    rcases DFA.mem_hopSplit_P.mp hB with ⟨hB, _⟩ | rfl | rfl
    · exact hI.satP B hB
    · exact hs1
    · exact hs2
  · -- satW
    intro e he
    rcases List.mem_append.mp he with h | h
    · exact hI.satW e (List.mem_append_left _ h)
    · rcases mem_addAll.mp h with h | ⟨b, hb, rfl⟩
      · exact hI.satW e (List.mem_append_right _ h)
      · refine ⟨hb, ?_⟩
        rcases minBlock_cases P1 P2 with hm | hm <;> simp only [hm]
        · exact hs1
        · exact hs2
  · -- good
    intro B hB a ha
    have hold : ∀ B0, B0 ∈ acc.P →
        D.Good (D.hopSplit acc P P1 P2).P (X ++ (D.hopSplit acc P P1 P2).W) a (· ∈ B0) :=
      fun B0 hB0 => (hI.good B0 hB0 a ha).mono hsubB (fun Ws hWs => Or.inl (hWsub _ hWs))
    have hmin := DFA.Good.of_pending (D := D) (P := (D.hopSplit acc P P1 P2).P) (hM a ha)
    rcases DFA.mem_hopSplit_P.mp hB with ⟨hB, _⟩ | rfl | rfl
    · exact hold B hB
    · rcases minBlock_cases B P2 with hm | hm <;> rw [hm] at hmin
      · exact hmin
      · refine (hold P hP).diff hmin ?_
        intro x
        constructor
        · intro hx; exact ⟨hsub1 x hx, hdj x hx⟩
        · rintro ⟨hx, hn⟩
          rcases (hu x).mp hx with h | h
          · exact h
          · exact absurd h hn
    · rcases minBlock_cases P1 B with hm | hm <;> rw [hm] at hmin
      · refine (hold P hP).diff hmin ?_
        intro x
        constructor
        · intro hx; exact ⟨hsub2 x hx, fun h => hdj x h hx⟩
        · rintro ⟨hx, hn⟩
          rcases (hu x).mp hx with h | h
          · exact absurd h hn
          · exact h
      · exact hmin

/-- splitting does not increase the measure -/
theorem DFA.HopInv.split_measure {D : DFA σ τ} {X : List (List σ × τ)} {acc : HopState σ τ}
    (hI : D.HopInv X acc) {P P1 P2 : List σ} (hP : P ∈ acc.P)
    (hI' : D.HopInv X (D.hopSplit acc P P1 P2)) :
    D.hopMeasure (D.hopSplit acc P P1 P2) ≤ D.hopMeasure acc := by
  have hlen : (D.hopSplit acc P P1 P2).P.length = acc.P.length + 1 := by
    have := length_filter_ne hI.nodup hP
    simp only [DFA.hopSplit, List.length_append, List.length_cons, List.length_nil]
    omega
  have hle := hI'.part.length_le hI'.nodup
  have hW : (D.hopSplit acc P P1 P2).W.length ≤ acc.W.length + D.Sigma.length :=
    length_addAll_le D.Sigma _ acc.W
  unfold DFA.hopMeasure
  rw [hlen] at hle ⊢
  have : D.Q.length - acc.P.length = (D.Q.length - (acc.P.length + 1)) + 1 := by omega
  rw [this, Nat.mul_succ]
  omega

/-! ### one refinement round -/

/-- the body of the `for P in P_cal_copy` loop -/
def DFA.hopStep (D : DFA σ τ) (Ws : List σ) (a : τ) (acc : HopState σ τ) (P : List σ) : HopState σ τ :=
  if P.length = 1 then acc else
  let (P1, P2) := D.hsplit Ws a P
  if P1.isEmpty || P2.isEmpty then acc else
  { P := (acc.P.filter (· ≠ P)) ++ [P1, P2]
    W := D.Sigma.foldl (fun W b => sinsert W (minBlock P1 P2, b)) acc.W }

theorem DFA.hopRefine_eq (D : DFA σ τ) (Ws : List σ) (a : τ) (st : HopState σ τ) :
    D.hopRefine Ws a st = st.P.foldl (D.hopStep Ws a) st := rfl

/-- the block `B` is stable w.r.t. `(Ws, a)` -/
def DFA.StabB (D : DFA σ τ) (Ws : List σ) (a : τ) (B : List σ) : Prop :=
  ∀ p q, p ∈ B → q ∈ B → (D.next p a ∈ Ws ↔ D.next q a ∈ Ws)

theorem DFA.hopStep_cases (D : DFA σ τ) (Ws : List σ) (a : τ) (acc : HopState σ τ) (P : List σ) :
    (D.hopStep Ws a acc P = acc ∧ D.StabB Ws a P) ∨
    ((D.hsplit Ws a P).1 ≠ [] ∧ (D.hsplit Ws a P).2 ≠ [] ∧
      D.hopStep Ws a acc P = D.hopSplit acc P (D.hsplit Ws a P).1 (D.hsplit Ws a P).2) := by
  unfold DFA.hopStep
  by_cases hlen : P.length = 1
  · left
    rw [if_pos hlen]
    refine ⟨rfl, ?_⟩
    intro p q hp hq
    match P, hlen with
    | [x], _ =>
      simp only [List.mem_singleton] at hp hq
      rw [hp, hq]
  · rw [if_neg hlen]
    simp only []
    by_cases h1 : (D.hsplit Ws a P).1 = []
    · left
      rw [h1]
      refine ⟨by simp, ?_⟩
      intro p q hp hq
      simp only [DFA.hsplit, List.filter_eq_nil_iff, decide_eq_true_eq] at h1
      exact ⟨fun h => absurd h (h1 p hp), fun h => absurd h (h1 q hq)⟩
    · by_cases h2 : (D.hsplit Ws a P).2 = []
      · left
        rw [h2]
        refine ⟨by simp, ?_⟩
        intro p q hp hq
        simp only [DFA.hsplit, List.filter_eq_nil_iff, Bool.not_eq_true', decide_eq_false_iff_not,
          Classical.not_not] at h2
        exact ⟨fun _ => h2 q hq, fun _ => h2 p hp⟩
      · right
        refine ⟨h1, h2, ?_⟩
        have e1 : (D.hsplit Ws a P).1.isEmpty = false := by
          cases h : (D.hsplit Ws a P).1 with
          | nil => exact absurd h h1
          | cons _ _ => rfl
        have e2 : (D.hsplit Ws a P).2.isEmpty = false := by
          cases h : (D.hsplit Ws a P).2 with
          | nil => exact absurd h h2
          | cons _ _ => rfl
        rw [e1, e2]
        rfl

theorem DFA.mem_hsplit_1 {D : DFA σ τ} {Ws : List σ} {a : τ} {P : List σ} {x : σ} :
    x ∈ (D.hsplit Ws a P).1 ↔ x ∈ P ∧ D.next x a ∈ Ws := by
  simp [DFA.hsplit]

theorem DFA.mem_hsplit_2 {D : DFA σ τ} {Ws : List σ} {a : τ} {P : List σ} {x : σ} :
    x ∈ (D.hsplit Ws a P).2 ↔ x ∈ P ∧ D.next x a ∉ Ws := by
  simp [DFA.hsplit]

theorem DFA.sat_hsplit_1 {D : DFA σ τ} (hv : D.valid = true) {Ws : List σ} {a : τ} (ha : a ∈ D.Sigma)
    (hW : D.Sat Ws) {P : List σ} (hP : D.Sat P) (hsub : ∀ q, q ∈ P → q ∈ D.Q) :
    D.Sat (D.hsplit Ws a P).1 := by
  intro x y hx hy he
  rw [DFA.mem_hsplit_1] at hx ⊢
  exact ⟨hP x y hx.1 hy he, hW _ _ hx.2 (DFA.valid_next_mem hv hy ha) (he.next ha)⟩

theorem DFA.sat_hsplit_2 {D : DFA σ τ} (hv : D.valid = true) {Ws : List σ} {a : τ} (ha : a ∈ D.Sigma)
    (hW : D.Sat Ws) {P : List σ} (hP : D.Sat P) (hsub : ∀ q, q ∈ P → q ∈ D.Q) :
    D.Sat (D.hsplit Ws a P).2 := by
  intro x y hx hy he
  rw [DFA.mem_hsplit_2] at hx ⊢
  refine ⟨hP x y hx.1 hy he, ?_⟩
  intro hn
  exact hx.2 (hW _ _ hn (DFA.valid_next_mem hv (hsub x hx.1) ha) (he.next ha).symm)

theorem DFA.hop_fold {D : DFA σ τ} (hv : D.valid = true) {Ws : List σ} {a : τ} (L : List (List σ))
    (acc : HopState σ τ) (hI : D.HopInv [(Ws, a)] acc) (hn : L.Nodup) (hL : ∀ P, P ∈ L → P ∈ acc.P)
    (hst : ∀ B, B ∈ acc.P → B ∈ L ∨ D.StabB Ws a B) :
    D.HopInv [(Ws, a)] (L.foldl (D.hopStep Ws a) acc) ∧
    (∀ B, B ∈ (L.foldl (D.hopStep Ws a) acc).P → D.StabB Ws a B) ∧
    D.hopMeasure (L.foldl (D.hopStep Ws a) acc) ≤ D.hopMeasure acc := by
  induction L generalizing acc with
  | nil =>
    refine ⟨hI, ?_, Nat.le_refl _⟩
    intro B hB
    rcases hst B hB with h | h
    · cases h
    · exact h
  | cons P L ih =>
    rw [List.nodup_cons] at hn
    rw [List.foldl_cons]
    have hP : P ∈ acc.P := hL P List.mem_cons_self
    rcases D.hopStep_cases Ws a acc P with ⟨he, hsP⟩ | ⟨h1, h2, he⟩
    · rw [he]
      apply ih acc hI hn.2 (fun Q hQ => hL Q (List.mem_cons_of_mem _ hQ))
      intro B hB
      rcases hst B hB with h | h
      · rcases List.mem_cons.mp h with rfl | h
        · exact Or.inr hsP
        · exact Or.inl h
      · exact Or.inr h
    · rw [he]
      have hWs := hI.satW (Ws, a) List.mem_cons_self
      have hsub := hI.part.sub P hP
      have hI' : D.HopInv [(Ws, a)] (D.hopSplit acc P (D.hsplit Ws a P).1 (D.hsplit Ws a P).2) := by
        apply hI.split hv hP h1 h2
        · intro x
          rw [DFA.mem_hsplit_1, DFA.mem_hsplit_2]
          by_cases hx : D.next x a ∈ Ws <;> simp [hx]
        · intro x hx1 hx2
          rw [DFA.mem_hsplit_1] at hx1
          rw [DFA.mem_hsplit_2] at hx2
          exact hx2.2 hx1.2
        · exact DFA.sat_hsplit_1 hv hWs.1 hWs.2 (hI.satP P hP) hsub
        · exact DFA.sat_hsplit_2 hv hWs.1 hWs.2 (hI.satP P hP) hsub
      have hm := hI.split_measure hP hI'
      have := ih _ hI' hn.2
        (fun Q hQ => DFA.mem_hopSplit_P.mpr (Or.inl ⟨hL Q (List.mem_cons_of_mem _ hQ), by
          rintro rfl; exact hn.1 hQ⟩))
        (by
          intro B hB
          rcases DFA.mem_hopSplit_P.mp hB with ⟨hB', hBP⟩ | rfl | rfl
          · rcases hst B hB' with h | h
            · rcases List.mem_cons.mp h with rfl | h
              · exact absurd rfl hBP
              · exact Or.inl h
            · exact Or.inr h
          · right
            intro p q hp hq
            exact ⟨fun _ => (DFA.mem_hsplit_1.mp hq).2, fun _ => (DFA.mem_hsplit_1.mp hp).2⟩
          · right
            intro p q hp hq
            exact ⟨fun h => absurd h (DFA.mem_hsplit_2.mp hp).2, fun h => absurd h (DFA.mem_hsplit_2.mp hq).2⟩)
      exact ⟨this.1, this.2.1, Nat.le_trans this.2.2 hm⟩

/-- a complete refinement round w.r.t. the popped splitter `(Ws, a)` re-establishes the invariant -/
theorem DFA.hopRefine_inv {D : DFA σ τ} (hv : D.valid = true) {Ws : List σ} {a : τ} {st : HopState σ τ}
    (hI : D.HopInv [(Ws, a)] st) :
    D.HopInv [] (D.hopRefine Ws a st) ∧ D.hopMeasure (D.hopRefine Ws a st) ≤ D.hopMeasure st := by
  rw [DFA.hopRefine_eq]
  obtain ⟨hJ, hS, hm⟩ := DFA.hop_fold hv st.P st hI hI.nodup (fun _ h => h) (fun _ h => Or.inl h)
  refine ⟨⟨hJ.part, hJ.nodup, hJ.fin, hJ.satP, ?_, ?_⟩, hm⟩
  · intro e he
    exact hJ.satW e (List.mem_append_right _ (by simpa using he))
  · intro B hB b hb
    apply (hJ.good B hB b hb).mono (Refines.refl _)
    intro Ws' hWs'
    rcases List.mem_append.mp hWs' with h | h
    · right
      simp only [List.mem_singleton, Prod.mk.injEq] at h
      obtain ⟨rfl, rfl⟩ := h
      intro C hC p q hp hq
      exact hS C hC p q hp hq
    · left
      simpa using h

/-- popping a splitter -/
theorem DFA.HopInv.pop {D : DFA σ τ} {st : HopState σ τ} (hI : D.HopInv [] st) {i : Nat} {Ws : List σ}
    {a : τ} {rest : List (List σ × τ)} (hp : pickAt st.W i = some ((Ws, a), rest)) :
    D.HopInv [(Ws, a)] { st with W := rest } ∧
      D.hopMeasure { st with W := rest } + 1 = D.hopMeasure st := by
  have hmem : ∀ e, e ∈ [(Ws, a)] ++ rest ↔ e ∈ [] ++ st.W := by
    intro e
    rw [List.nil_append, pickAt_mem_iff hp e]
    simp
  refine ⟨⟨hI.part, hI.nodup, hI.fin, hI.satP, ?_, ?_⟩, ?_⟩
  · intro e he
    exact hI.satW e ((hmem e).mp he)
  · intro B hB b hb
    apply (hI.good B hB b hb).mono (Refines.refl _)
    intro Ws' hWs'
    exact Or.inl ((hmem _).mpr hWs')
  · have := pickAt_length hp
    simp only [DFA.hopMeasure]
    omega

/-! ### the main loop -/

theorem DFA.hopLoop_inv {D : DFA σ τ} (hv : D.valid = true) (fuel : Nat) (s : Sched) (st r : HopState σ τ)
    (hI : D.HopInv [] st) (h : D.hopLoop fuel s st = .ok r) : D.HopInv [] r ∧ r.W = [] := by
  induction fuel generalizing s st with
  | zero =>
    simp only [DFA.hopLoop] at h
    split at h
    · rename_i he
      cases h
      exact ⟨hI, List.isEmpty_iff.mp he⟩
    · cases h
  | succ fuel ih =>
    simp only [DFA.hopLoop] at h
    split at h
    · rename_i hp
      cases h
      refine ⟨hI, ?_⟩
      cases hW : r.W with
      | nil => rfl
      | cons x l => rw [hW] at hp; simp [pickAt] at hp
    · rename_i Ws a rest hp
      obtain ⟨hI1, _⟩ := hI.pop hp
      exact ih _ _ (DFA.hopRefine_inv hv hI1).1 h

theorem DFA.hopLoop_terminates {D : DFA σ τ} (hv : D.valid = true) (fuel : Nat) (s : Sched)
    (st : HopState σ τ) (hI : D.HopInv [] st) (hm : D.hopMeasure st ≤ fuel) :
    ∃ r, D.hopLoop fuel s st = .ok r := by
  induction fuel generalizing s st with
  | zero =>
    have hW : st.W = [] := by
      unfold DFA.hopMeasure at hm
      exact List.eq_nil_of_length_eq_zero (by omega)
    exact ⟨st, by simp [DFA.hopLoop, hW]⟩
  | succ fuel ih =>
    simp only [DFA.hopLoop]
    split
    · exact ⟨st, rfl⟩
    · rename_i Ws a rest hp
      obtain ⟨hI1, hm1⟩ := hI.pop hp
      obtain ⟨hI2, hm2⟩ := DFA.hopRefine_inv hv hI1
      apply ih _ _ hI2
      omega

/-! ### the initial state -/

theorem DFA.mem_canonBlock {D : DFA σ τ} {B : List σ} {x : σ} : x ∈ D.canonBlock B ↔ x ∈ D.Q ∧ x ∈ B := by
  simp [DFA.canonBlock]

/-- the state with which `hopcroft` enters the loop -/
def DFA.hopInit (D : DFA σ τ) : HopState σ τ :=
  { P := dedup ([D.canonBlock D.F, D.canonBlock (sdiff D.Q D.F)].filter (fun B => !B.isEmpty))
    W := addAll D.Sigma (minBlock (D.canonBlock D.F) (D.canonBlock (sdiff D.Q D.F))) [] }

theorem DFA.hopcroft_eq (D : DFA σ τ) (s : Sched) :
    D.hopcroft s = (D.hopLoop (D.Sigma.length * (D.Q.length + 2) + 1) s D.hopInit).bind
      (fun st => DFA.checked (D.ofBlocks st.P)) := rfl

theorem DFA.mem_hopInit_P {D : DFA σ τ} {B : List σ} :
    B ∈ D.hopInit.P ↔ (B = D.canonBlock D.F ∨ B = D.canonBlock (sdiff D.Q D.F)) ∧ B ≠ [] := by
  simp only [DFA.hopInit, mem_dedup, List.mem_filter, List.mem_cons, List.not_mem_nil, or_false,
    Bool.not_eq_true', List.isEmpty_eq_false_iff]

theorem DFA.sat_canonF (D : DFA σ τ) : D.Sat (D.canonBlock D.F) := by
  intro x y hx hy he
  rw [DFA.mem_canonBlock] at hx ⊢
  exact ⟨hy, he.fin.mp hx.2⟩

theorem DFA.sat_canonNF (D : DFA σ τ) : D.Sat (D.canonBlock (sdiff D.Q D.F)) := by
  intro x y hx hy he
  rw [DFA.mem_canonBlock, mem_sdiff] at hx ⊢
  exact ⟨hy, hy, fun h => hx.2.2 (he.fin.mpr h)⟩

theorem DFA.hopInit_inv {D : DFA σ τ} (hv : D.valid = true) : D.HopInv [] D.hopInit := by
  have hF : ∀ x, x ∈ D.canonBlock D.F ↔ x ∈ D.Q ∧ x ∈ D.F := fun x => DFA.mem_canonBlock
  have hNF : ∀ x, x ∈ D.canonBlock (sdiff D.Q D.F) ↔ x ∈ D.Q ∧ x ∉ D.F := by
    intro x
    rw [DFA.mem_canonBlock, mem_sdiff]
    exact ⟨fun h => h.2, fun h => ⟨h.1, h⟩⟩
  have hsubP : ∀ B, B ∈ D.hopInit.P → ∀ q, q ∈ B → q ∈ D.Q := by
    intro B hB q hq
    rcases (DFA.mem_hopInit_P.mp hB).1 with rfl | rfl
    · exact ((hF q).mp hq).1
    · exact ((hNF q).mp hq).1
  have hM : ∀ a, a ∈ D.Sigma →
      (minBlock (D.canonBlock D.F) (D.canonBlock (sdiff D.Q D.F)), a) ∈ [] ++ D.hopInit.W := by
    intro a ha
    rw [List.nil_append]
    exact mem_addAll.mpr (Or.inr ⟨a, ha, rfl⟩)
  refine ⟨⟨?_, hsubP, ?_, ?_⟩, nodup_dedup _, ?_, ?_, ?_, ?_⟩
  · intro B hB; exact (DFA.mem_hopInit_P.mp hB).2
  · intro q hq
    by_cases hqF : q ∈ D.F
    · have : q ∈ D.canonBlock D.F := (hF q).mpr ⟨hq, hqF⟩
      exact ⟨_, DFA.mem_hopInit_P.mpr ⟨Or.inl rfl, List.ne_nil_of_mem this⟩, this⟩
    · have : q ∈ D.canonBlock (sdiff D.Q D.F) := (hNF q).mpr ⟨hq, hqF⟩
      exact ⟨_, DFA.mem_hopInit_P.mpr ⟨Or.inr rfl, List.ne_nil_of_mem this⟩, this⟩
  · intro B C hB hC q hqB hqC
    rcases (DFA.mem_hopInit_P.mp hB).1 with hB' | hB' <;>
      rcases (DFA.mem_hopInit_P.mp hC).1 with hC' | hC'
    · rw [hB', hC']
    · rw [hB'] at hqB; rw [hC'] at hqC
      exact absurd ((hF q).mp hqB).2 ((hNF q).mp hqC).2
    · rw [hB'] at hqB; rw [hC'] at hqC
      exact absurd ((hF q).mp hqC).2 ((hNF q).mp hqB).2
    · rw [hB', hC']
  · intro B hB p q hp hq
    rcases (DFA.mem_hopInit_P.mp hB).1 with rfl | rfl
    · exact ⟨fun _ => ((hF q).mp hq).2, fun _ => ((hF p).mp hp).2⟩
    · exact ⟨fun h => absurd h ((hNF p).mp hp).2, fun h => absurd h ((hNF q).mp hq).2⟩
  · intro B hB
    rcases (DFA.mem_hopInit_P.mp hB).1 with rfl | rfl
    · exact D.sat_canonF
    · exact D.sat_canonNF
  · intro e he
    rw [List.nil_append] at he
    rcases mem_addAll.mp he with h | ⟨b, hb, rfl⟩
    · cases h
    · refine ⟨hb, ?_⟩
      rcases minBlock_cases (D.canonBlock D.F) (D.canonBlock (sdiff D.Q D.F)) with hm | hm <;>
        simp only [hm]
      · exact D.sat_canonF
      · exact D.sat_canonNF
  · intro B hB a ha
    have hmin := DFA.Good.of_pending (D := D) (P := D.hopInit.P) (hM a ha)
    have hQ : D.Good D.hopInit.P ([] ++ D.hopInit.W) a (· ∈ D.Q) := DFA.good_Q hv ha hsubP
    rcases (DFA.mem_hopInit_P.mp hB).1 with rfl | rfl <;>
      rcases minBlock_cases (D.canonBlock D.F) (D.canonBlock (sdiff D.Q D.F)) with hm | hm <;>
      rw [hm] at hmin
    · exact hmin
    · refine hQ.diff hmin ?_
      intro x
      rw [hF, hNF]
      constructor
      · rintro ⟨h1, h2⟩; exact ⟨h1, fun h => h.2 h2⟩
      · rintro ⟨h1, h2⟩
        refine ⟨h1, Classical.byContradiction fun h => h2 ⟨h1, h⟩⟩
    · refine hQ.diff hmin ?_
      intro x
      rw [hF, hNF]
      constructor
      · rintro ⟨h1, h2⟩; exact ⟨h1, fun h => h2 h.2⟩
      · rintro ⟨h1, h2⟩
        exact ⟨h1, fun h => h2 ⟨h1, h⟩⟩
    · exact hmin

theorem DFA.hopInit_measure {D : DFA σ τ} :
    D.hopMeasure D.hopInit ≤ D.Sigma.length * (D.Q.length + 2) := by
  unfold DFA.hopMeasure
  have h1 : D.hopInit.W.length ≤ D.Sigma.length := by
    have := length_addAll_le D.Sigma (minBlock (D.canonBlock D.F) (D.canonBlock (sdiff D.Q D.F))) []
    simpa [DFA.hopInit] using this
  have h2 : D.Sigma.length * (D.Q.length - D.hopInit.P.length) ≤ D.Sigma.length * D.Q.length :=
    Nat.mul_le_mul_left _ (Nat.sub_le _ _)
  rw [Nat.mul_add]
  omega

/-! ### the final partition -/

/-- with an empty waiting list the invariant says that the partition is the Nerode partition -/
theorem DFA.HopInv.isNerode {D : DFA σ τ} (hv : D.valid = true) {st : HopState σ τ}
    (hI : D.HopInv [] st) (hW : st.W = []) : D.IsNerode st.P := by
  have hC : D.IsCongr st.P := by
    refine ⟨hI.part, hI.fin, ?_⟩
    intro B hB p q hp hq a ha
    have hpQ := DFA.valid_next_mem hv (hI.part.sub B hB p hp) ha
    obtain ⟨hC1, hC2⟩ := hI.part.blockOf_mem hpQ
    have hg := hI.good _ hC1 a ha
    rw [hW] at hg
    have := (hg.stab B hB p q hp hq).mp hC2
    exact (hI.part.blockOf_eq hC1 this).symm
  apply hC.isNerode hv
  intro B C hB hCm p q hp hq he
  exact hI.part.disj B C hB hCm q (hI.satP B hB p q hp (hI.part.sub C hCm q hq) he) hq

/-- soundness half alone (no stability needed): the blocks of every state satisfying the invariant partition
    `Q`, respect `F`, and states in different blocks are inequivalent -/
theorem DFA.HopInv.sound {D : DFA σ τ} {X : List (List σ × τ)} {st : HopState σ τ} (hI : D.HopInv X st) :
    D.IsPartition st.P ∧ (∀ B, B ∈ st.P → ∀ p q, p ∈ B → q ∈ B → (p ∈ D.F ↔ q ∈ D.F)) ∧
    (∀ B C, B ∈ st.P → C ∈ st.P → ∀ p q, p ∈ B → q ∈ C → D.Equiv p q → B = C) :=
  ⟨hI.part, hI.fin, fun B C hB hCm p q hp hq he =>
    hI.part.disj B C hB hCm q (hI.satP B hB p q hp (hI.part.sub C hCm q hq) he) hq⟩

/-- what a successful run returns -/
theorem DFA.hopcroft_ok {D : DFA σ τ} (hv : D.valid = true) {s : Sched} {M : DFA (List σ) τ}
    (h : D.hopcroft s = .ok M) : ∃ blocks, D.IsNerode blocks ∧ M = D.ofBlocks blocks := by
  rw [DFA.hopcroft_eq] at h
  cases hl : D.hopLoop (D.Sigma.length * (D.Q.length + 2) + 1) s D.hopInit with
  | error e => rw [hl] at h; cases h
  | ok st =>
    rw [hl] at h
    obtain ⟨hI, hW⟩ := DFA.hopLoop_inv hv _ s _ st (DFA.hopInit_inv hv) hl
    refine ⟨st.P, hI.isNerode hv hW, ?_⟩
    simp only [Except.bind, DFA.checked] at h
    split at h
    · cases h; rfl
    · cases h

theorem DFA.hopcroft_spec' (D : DFA σ τ) (hv : D.valid = true) (s : Sched) (M : DFA (List σ) τ)
    (h : D.hopcroft s = .ok M) :
    M.valid = true ∧ M.Sigma = D.Sigma ∧ D.IsNerode M.Q ∧
      (∀ w, (∀ a, a ∈ w → a ∈ D.Sigma) → (M.Accepts w ↔ D.Accepts w)) ∧
      (∀ B C, B ∈ M.Q → C ∈ M.Q → B ≠ C → M.Dist B C) := by
  obtain ⟨blocks, hN, rfl⟩ := DFA.hopcroft_ok hv h
  obtain ⟨h1, h2, h3, h4, h5⟩ := DFA.ofBlocks_nerode D hv blocks hN
  exact ⟨h1, h2, hN, h4, h5⟩

theorem DFA.hopcroft_terminates' (D : DFA σ τ) (hv : D.valid = true) (s : Sched) :
    ∃ M, D.hopcroft s = .ok M := by
  obtain ⟨st, hl⟩ := DFA.hopLoop_terminates hv (D.Sigma.length * (D.Q.length + 2) + 1) s D.hopInit
    (DFA.hopInit_inv hv) (Nat.le_succ_of_le DFA.hopInit_measure)
  obtain ⟨hI, hW⟩ := DFA.hopLoop_inv hv _ s _ st (DFA.hopInit_inv hv) hl
  refine ⟨D.ofBlocks st.P, ?_⟩
  rw [DFA.hopcroft_eq, hl]
  have := DFA.ofBlocks_valid D hv st.P hI.part
  simp only [Except.bind, DFA.checked, this, if_true]

end Gamba
