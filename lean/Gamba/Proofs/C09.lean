/-
  Gamba.Proofs.C09 — helper lemmas for property C09: the PDA acceptance test (`PDA.accepts`, bounded
  ε-closure `PDA.epsClosure`) is sound w.r.t. `Gamba.Spec.PDA`, and complete when no closure is truncated.
-/
import Gamba.Model.PDA
import Gamba.Spec.PDA
namespace Gamba

/-! ### Generic lemmas -/

theorem C09.lookup_mem {κ ν : Type} [BEq κ] [LawfulBEq κ] {d : List (κ × ν)} {k : κ} {v : ν}
    (h : d.lookup k = some v) : (k, v) ∈ d := by
  induction d with
  | nil => simp at h
  | cons e d ih =>
    obtain ⟨k', v'⟩ := e
    rw [List.lookup_cons] at h
    by_cases hk : k = k'
    · subst hk
      simp only [beq_self_eq_true, Option.some.injEq] at h
      subst h
      exact List.mem_cons_self
    · have hb : (k == k') = false := by simp [hk]
      rw [hb] at h
      exact List.mem_cons_of_mem _ (ih h)

/-- with unique keys every binding is the one `lookup` finds -/
theorem C09.lookup_of_mem_nodup {κ ν : Type} [BEq κ] [LawfulBEq κ] {d : List (κ × ν)} {k : κ} {v : ν}
    (hn : (d.map (·.1)).Nodup) (h : (k, v) ∈ d) : d.lookup k = some v := by
  induction d with
  | nil => cases h
  | cons e d ih =>
    obtain ⟨k', v'⟩ := e
    simp only [List.map_cons, List.nodup_cons] at hn
    rw [List.lookup_cons]
    rcases List.mem_cons.mp h with he | hm
    · cases he
      simp
    · have hk : k ≠ k' := by
        intro hkk
        subst hkk
        exact hn.1 (List.mem_map.mpr ⟨(k, v), hm, rfl⟩)
      have hb : (k == k') = false := by simp [hk]
      rw [hb]
      exact ih hn.2 hm

theorem C09.pickAt_eq_none {α : Type} {l : List α} {i : Nat} (h : pickAt l i = none) : l = [] := by
  cases l with
  | nil => rfl
  | cons x l => simp [pickAt] at h

theorem C09.getLast?_eq_some {α : Type} {l : List α} {u : α} (h : l.getLast? = some u) :
    l = l.dropLast ++ [u] := by
  induction l with
  | nil => simp at h
  | cons x l ih =>
    cases l with
    | nil =>
      simp only [List.getLast?_singleton, Option.some.injEq] at h
      subst h
      rfl
    | cons y l =>
      rw [List.getLast?_cons_cons] at h
      have := ih h
      rw [List.dropLast_cons_cons, List.cons_append, ← this]

section
variable {σ τ γ : Type} [DecidableEq σ] [DecidableEq τ] [DecidableEq γ]

/-! ### `valid` unpacked -/

theorem PDA.valid_eps {P : PDA σ τ γ} (hv : P.valid = true) : P.eps ∉ P.Sigma := by
  simp only [PDA.valid, Bool.and_eq_true, decide_eq_true_eq] at hv
  exact hv.1.1.1.2

theorem PDA.valid_epsG {P : PDA σ τ γ} (hv : P.valid = true) : P.epsG ∉ P.Gamma := by
  simp only [PDA.valid, Bool.and_eq_true, decide_eq_true_eq] at hv
  exact hv.1.1.2

/-! ### one move -/

theorem PDA.mem_moves {P : PDA σ τ γ} {a : τ} {c c' : PConf σ γ} :
    c' ∈ P.moves a c ↔ ∃ e, e ∈ P.delta ∧ e.1.1 = c.1 ∧ e.1.2.1 = a ∧ P.canPopPush c.2 e.1.2.2 = true ∧
      ∃ t, t ∈ e.2 ∧ c' = (t.1, P.popPush c.2 e.1.2.2 t.2) := by
  unfold PDA.moves
  rw [List.mem_flatMap]
  constructor
  · rintro ⟨e, he, hc⟩
    split at hc
    · rename_i hcond
      obtain ⟨t, ht, rfl⟩ := List.mem_map.mp hc
      exact ⟨e, he, hcond.1, hcond.2.1, hcond.2.2, t, ht, rfl⟩
    · cases hc
  · rintro ⟨e, he, h1, h2, h3, t, ht, rfl⟩
    refine ⟨e, he, ?_⟩
    rw [if_pos ⟨h1, h2, h3⟩]
    exact List.mem_map.mpr ⟨t, ht, rfl⟩

omit [DecidableEq σ] [DecidableEq τ] in
theorem PDA.popPush_stk (P : PDA σ τ γ) (st : List γ) (u v : γ) :
    P.popPush (st ++ P.stk u) u v = st ++ P.stk v := by
  unfold PDA.popPush PDA.stk
  by_cases hu : u = P.epsG <;> by_cases hv : v = P.epsG <;> simp [hu, hv]

omit [DecidableEq σ] [DecidableEq τ] in
theorem PDA.canPopPush_stk (P : PDA σ τ γ) (st : List γ) (u : γ) :
    P.canPopPush (st ++ P.stk u) u = true := by
  unfold PDA.canPopPush PDA.stk
  by_cases hu : u = P.epsG <;> simp [hu]

omit [DecidableEq σ] [DecidableEq τ] in
theorem PDA.canPopPush_split {P : PDA σ τ γ} {stack : List γ} {u : γ}
    (h : P.canPopPush stack u = true) : ∃ st, stack = st ++ P.stk u := by
  unfold PDA.canPopPush at h
  unfold PDA.stk
  by_cases hu : u = P.epsG
  · exact ⟨stack, by simp [hu]⟩
  · simp only [hu, decide_false, Bool.false_or, beq_iff_eq] at h
    exact ⟨stack.dropLast, by simpa [hu] using C09.getLast?_eq_some h⟩

/-- model move ⇒ spec move, for a δ with unique keys -/
theorem PDA.Move_of_mem_moves {P : PDA σ τ γ} (hk : (P.delta.map (·.1)).Nodup) {a : τ} {c c' : PConf σ γ}
    (h : c' ∈ P.moves a c) : P.Move a c c' := by
  obtain ⟨e, he, h1, h2, h3, t, ht, rfl⟩ := PDA.mem_moves.mp h
  obtain ⟨⟨p, a', u⟩, T⟩ := e
  obtain ⟨q, v⟩ := t
  obtain ⟨p', stack⟩ := c
  simp only at h1 h2 h3 ht
  subst h1 h2
  obtain ⟨st, rfl⟩ := PDA.canPopPush_split h3
  simp only
  rw [PDA.popPush_stk]
  exact PDA.Move.mk (C09.lookup_of_mem_nodup hk he) ht

/-- spec move ⇒ model move (no hypothesis) -/
theorem PDA.mem_moves_of_Move {P : PDA σ τ γ} {a : τ} {c c' : PConf σ γ}
    (h : P.Move a c c') : c' ∈ P.moves a c := by
  cases h with
  | @mk p q u v T st hl hm =>
    refine PDA.mem_moves.mpr ⟨((p, a, u), T), C09.lookup_mem hl, rfl, rfl, ?_, (q, v), hm, ?_⟩
    · exact PDA.canPopPush_stk P st u
    · simp only
      rw [PDA.popPush_stk]

/-! ### the bounded worklist -/

theorem PDA.epsLoop_sound (P : PDA σ τ γ) (hk : (P.delta.map (·.1)).Nodup) (R : List (PConf σ γ))
    (limit : Nat) : ∀ (s : Sched) (result todo : List (PConf σ γ)),
    (∀ c, c ∈ result → P.EpsReach R c) → (∀ c, c ∈ todo → P.EpsReach R c) →
    ∀ c, c ∈ (P.epsLoop limit s result todo).1 → P.EpsReach R c := by
  induction limit with
  | zero =>
    intro s result todo h1 _ c hc
    exact h1 c hc
  | succ limit ih =>
    intro s result todo h1 h2 c hc
    simp only [PDA.epsLoop] at hc
    split at hc
    · exact h1 c hc
    · rename_i src rest hp
      have hmem := pickAt_mem_iff hp
      have hsrc : P.EpsReach R src := h2 src ((hmem src).mpr (Or.inl rfl))
      have hnew : ∀ x, x ∈ dedup ((P.moves P.eps src).filter fun t => decide (t ∉ result)) →
          P.EpsReach R x := by
        intro x hx
        simp only [mem_dedup, List.mem_filter] at hx
        exact PDA.EpsReach.step hsrc (PDA.Move_of_mem_moves hk hx.1)
      refine ih _ _ _ ?_ ?_ c hc
      · intro x hx
        rcases List.mem_append.mp hx with hx | hx
        · exact h1 x hx
        · exact hnew x hx
      · intro x hx
        rcases List.mem_append.mp hx with hx | hx
        · exact h2 x ((hmem x).mpr (Or.inr hx))
        · exact hnew x hx

theorem PDA.epsLoop_mono (P : PDA σ τ γ) (limit : Nat) :
    ∀ (s : Sched) (result todo : List (PConf σ γ)) (c : PConf σ γ), c ∈ result →
    c ∈ (P.epsLoop limit s result todo).1 := by
  induction limit with
  | zero => intro s result todo c hc; exact hc
  | succ limit ih =>
    intro s result todo c hc
    simp only [PDA.epsLoop]
    split
    · exact hc
    · exact ih _ _ _ c (List.mem_append_left _ hc)

/-- if the loop ends with the flag `false`, the result is closed under (model) ε-moves -/
theorem PDA.epsLoop_closed (P : PDA σ τ γ) (limit : Nat) :
    ∀ (s : Sched) (result todo : List (PConf σ γ)),
    (∀ x, x ∈ result → x ∉ todo → ∀ c', c' ∈ P.moves P.eps x → c' ∈ result) →
    (P.epsLoop limit s result todo).2 = false →
    ∀ x, x ∈ (P.epsLoop limit s result todo).1 → ∀ c', c' ∈ P.moves P.eps x →
      c' ∈ (P.epsLoop limit s result todo).1 := by
  induction limit with
  | zero =>
    intro s result todo h4 hf x hx c' hc'
    simp only [PDA.epsLoop] at hf hx ⊢
    have : todo = [] := by simpa using hf
    subst this
    exact h4 x hx (by simp) c' hc'
  | succ limit ih =>
    intro s result todo h4 hf
    simp only [PDA.epsLoop] at hf ⊢
    split
    · rename_i hp
      have : todo = [] := C09.pickAt_eq_none hp
      subst this
      intro x hx c' hc'
      exact h4 x hx (by simp) c' hc'
    · rename_i src rest hp
      rw [hp] at hf
      have hmem := pickAt_mem_iff hp
      refine ih _ _ _ ?_ hf
      intro x hx hnt c' hc'
      simp only [List.mem_append, mem_dedup, List.mem_filter, decide_eq_true_eq, not_or] at hx hnt ⊢
      rcases hx with hx | hx
      · by_cases hxt : x ∈ todo
        · rcases (hmem x).mp hxt with rfl | hr
          · by_cases hq' : c' ∈ result
            · exact Or.inl hq'
            · exact Or.inr ⟨hc', hq'⟩
          · exact absurd hr hnt.1
        · exact Or.inl (h4 x hx hxt c' hc')
      · exact absurd hx hnt.2

/-- each iteration pops a distinct configuration: if the ε-reachable set fits in `U`, `|U|` iterations suffice -/
theorem PDA.epsLoop_not_truncated (P : PDA σ τ γ) (hk : (P.delta.map (·.1)).Nodup)
    (R U : List (PConf σ γ)) (hU : ∀ c, P.EpsReach R c → c ∈ U) (limit : Nat) :
    ∀ (s : Sched) (result todo : List (PConf σ γ)), result.Nodup →
    (∀ c, c ∈ result → P.EpsReach R c) → (∀ c, c ∈ todo → P.EpsReach R c) →
    (U.length - result.length) + todo.length ≤ limit →
    (P.epsLoop limit s result todo).2 = false := by
  induction limit with
  | zero =>
    intro s result todo _ _ _ hm
    have : todo = [] := List.eq_nil_of_length_eq_zero (by omega)
    subst this
    simp [PDA.epsLoop]
  | succ limit ih =>
    intro s result todo hn h1 h2 hm
    simp only [PDA.epsLoop]
    split
    · rfl
    · rename_i src rest hp
      have hlen := pickAt_length hp
      have hmem := pickAt_mem_iff hp
      have hsrc : P.EpsReach R src := h2 src ((hmem src).mpr (Or.inl rfl))
      have hnew : ∀ x, x ∈ dedup ((P.moves P.eps src).filter fun t => decide (t ∉ result)) →
          P.EpsReach R x ∧ x ∉ result := by
        intro x hx
        simp only [mem_dedup, List.mem_filter, decide_eq_true_eq] at hx
        exact ⟨PDA.EpsReach.step hsrc (PDA.Move_of_mem_moves hk hx.1), hx.2⟩
      have hn' : (result ++ dedup ((P.moves P.eps src).filter fun t => decide (t ∉ result))).Nodup := by
        rw [List.nodup_append]
        refine ⟨hn, nodup_dedup _, ?_⟩
        intro a ha b hb hab
        subst hab
        exact (hnew a hb).2 ha
      have h1' : ∀ c, c ∈ result ++ dedup ((P.moves P.eps src).filter fun t => decide (t ∉ result)) →
          P.EpsReach R c := by
        intro x hx
        rcases List.mem_append.mp hx with hx | hx
        · exact h1 x hx
        · exact (hnew x hx).1
      have h2' : ∀ c, c ∈ rest ++ dedup ((P.moves P.eps src).filter fun t => decide (t ∉ result)) →
          P.EpsReach R c := by
        intro x hx
        rcases List.mem_append.mp hx with hx | hx
        · exact h2 x ((hmem x).mpr (Or.inr hx))
        · exact (hnew x hx).1
      apply ih _ _ _ hn' h1' h2'
      have hle : (result ++ dedup ((P.moves P.eps src).filter fun t => decide (t ∉ result))).length
          ≤ U.length := List.Nodup.length_le_of_subset hn' (fun x hx => hU x (h1' x hx))
      rw [List.length_append] at hle ⊢
      rw [List.length_append]
      omega

/-! ### `epsClosure` -/

theorem PDA.epsClosure_sound' (P : PDA σ τ γ) (hk : (P.delta.map (·.1)).Nodup)
    (limit : Nat) (s : Sched) (R : List (PConf σ γ)) (c : PConf σ γ)
    (h : c ∈ (P.epsClosure limit s R).1) : P.EpsReach R c :=
  P.epsLoop_sound hk R limit s _ _ (fun _ hx => .base (mem_dedup.mp hx))
    (fun _ hx => .base (mem_dedup.mp hx)) c h

theorem PDA.epsClosure_base (P : PDA σ τ γ) (limit : Nat) (s : Sched) (R : List (PConf σ γ))
    (c : PConf σ γ) (h : c ∈ R) : c ∈ (P.epsClosure limit s R).1 :=
  P.epsLoop_mono limit s _ _ c (mem_dedup.mpr h)

theorem PDA.epsClosure_closed (P : PDA σ τ γ) (limit : Nat) (s : Sched) (R : List (PConf σ γ))
    (h : (P.epsClosure limit s R).2 = false) (x c' : PConf σ γ)
    (hx : x ∈ (P.epsClosure limit s R).1) (hm : P.Move P.eps x c') : c' ∈ (P.epsClosure limit s R).1 :=
  P.epsLoop_closed limit s _ _ (fun _ hx hn => absurd hx hn) h x hx c' (PDA.mem_moves_of_Move hm)

theorem PDA.epsClosure_complete' (P : PDA σ τ γ) (limit : Nat) (s : Sched) (R : List (PConf σ γ))
    (h : (P.epsClosure limit s R).2 = false) (c : PConf σ γ) (hc : P.EpsReach R c) :
    c ∈ (P.epsClosure limit s R).1 := by
  induction hc with
  | base hm => exact P.epsClosure_base limit s R _ hm
  | step _ hs ih => exact P.epsClosure_closed limit s R h _ _ ih hs

/-! ### runs -/

/-- `S` is closed under ε-moves. -/
def PDA.EpsClosed (P : PDA σ τ γ) (S : List (PConf σ γ)) : Prop :=
  ∀ c, c ∈ S → ∀ c', P.Move P.eps c c' → c' ∈ S

theorem PDA.Run.append {P : PDA σ τ γ} {c c' c'' : PConf σ γ} {u v : List τ}
    (h1 : P.Run c u c') (h2 : P.Run c' v c'') : P.Run c (u ++ v) c'' := by
  induction h1 with
  | nil => exact h2
  | eps hm _ ih => exact PDA.Run.eps hm (ih h2)
  | sym ha hm _ ih => exact PDA.Run.sym ha hm (ih h2)

theorem PDA.Run.of_epsReach {P : PDA σ τ γ} {R : List (PConf σ γ)} {c1 r : PConf σ γ} {w : List τ}
    (h : P.EpsReach R c1) (hr : P.Run c1 w r) : ∃ c0, c0 ∈ R ∧ P.Run c0 w r := by
  induction h with
  | base hm => exact ⟨_, hm, hr⟩
  | step _ hs ih => exact ih (PDA.Run.eps hs hr)

theorem PDA.Run.nil_closed {P : PDA σ τ γ} {S : List (PConf σ γ)} (hc : P.EpsClosed S)
    {c r : PConf σ γ} (h : P.Run c [] r) (hq : c ∈ S) : r ∈ S := by
  generalize hw : ([] : List τ) = w at h
  induction h with
  | nil => exact hq
  | eps hs _ ih => exact ih (hc _ hq _ hs) hw
  | sym => cases hw

theorem PDA.Run.cons_inv {P : PDA σ τ γ} {S : List (PConf σ γ)} (hc : P.EpsClosed S)
    {c r : PConf σ γ} {a : τ} {w : List τ} (h : P.Run c (a :: w) r) (hq : c ∈ S) :
    ∃ p, p ∈ S ∧ ∃ c', P.Move a p c' ∧ P.Run c' w r := by
  generalize hw : a :: w = w' at h
  induction h with
  | nil => cases hw
  | eps hs _ ih => exact ih (hc _ hq _ hs) hw
  | sym _ hs hr _ =>
    cases hw
    exact ⟨_, hq, _, hs, hr⟩

/-! ### `runConfs`, `acceptsT` -/

theorem PDA.runConfs_nil (P : PDA σ τ γ) (limit : Nat) (s : Sched) (acc : List (PConf σ γ) × Bool) :
    P.runConfs limit s acc [] = acc := by
  unfold PDA.runConfs; rfl

theorem PDA.runConfs_cons (P : PDA σ τ γ) (limit : Nat) (s : Sched) (R : List (PConf σ γ)) (tr : Bool)
    (a : τ) (w : List τ) :
    P.runConfs limit s (R, tr) (a :: w) =
      P.runConfs limit s ((P.epsClosure limit s (P.doTransition a R)).1,
        tr || (P.epsClosure limit s (P.doTransition a R)).2) w := by
  rw [PDA.runConfs]

theorem PDA.acceptsT_eq (P : PDA σ τ γ) (limit : Nat) (s : Sched) (w : List τ) :
    P.acceptsT limit s w =
      (((P.runConfs limit s (P.epsClosure limit s [(P.q0, [])]) w).1.any fun c => decide (c.1 ∈ P.F)),
       (P.runConfs limit s (P.epsClosure limit s [(P.q0, [])]) w).2) := by
  unfold PDA.acceptsT; rfl

theorem PDA.mem_doTransition {P : PDA σ τ γ} {a : τ} {R : List (PConf σ γ)} {c : PConf σ γ} :
    c ∈ P.doTransition a R ↔ ∃ c0, c0 ∈ R ∧ c ∈ P.moves a c0 := by
  simp only [PDA.doTransition, mem_dedup, List.mem_flatMap]

/-- the accumulated truncation flag is monotone -/
theorem PDA.runConfs_flag (P : PDA σ τ γ) (limit : Nat) (s : Sched) (w : List τ) :
    ∀ (R : List (PConf σ γ)) (tr : Bool), (P.runConfs limit s (R, tr) w).2 = false → tr = false := by
  induction w with
  | nil => intro R tr h; rw [PDA.runConfs_nil] at h; exact h
  | cons a w ih =>
    intro R tr h
    rw [PDA.runConfs_cons] at h
    have := ih _ _ h
    simp only [Bool.or_eq_false_iff] at this
    exact this.1

theorem PDA.runConfs_sound (P : PDA σ τ γ) (hk : (P.delta.map (·.1)).Nodup)
    (limit : Nat) (s : Sched) (w : List τ) (hw : ∀ a, a ∈ w → a ≠ P.eps) :
    ∀ (R : List (PConf σ γ)) (tr : Bool) (c : PConf σ γ), c ∈ (P.runConfs limit s (R, tr) w).1 →
      ∃ c0, c0 ∈ R ∧ P.Run c0 w c := by
  induction w with
  | nil =>
    intro R tr c hc
    rw [PDA.runConfs_nil] at hc
    exact ⟨c, hc, PDA.Run.nil c⟩
  | cons a w ih =>
    intro R tr c hc
    rw [PDA.runConfs_cons] at hc
    obtain ⟨c1, hc1, hr1⟩ := ih (fun b hb => hw b (List.mem_cons_of_mem _ hb)) _ _ c hc
    obtain ⟨c2, hc2, hr2⟩ := PDA.Run.of_epsReach (P.epsClosure_sound' hk limit s _ c1 hc1) hr1
    obtain ⟨c3, hc3, hm⟩ := PDA.mem_doTransition.mp hc2
    exact ⟨c3, hc3, PDA.Run.sym (hw a List.mem_cons_self) (PDA.Move_of_mem_moves hk hm) hr2⟩

theorem PDA.runConfs_complete (P : PDA σ τ γ) (limit : Nat) (s : Sched) (w : List τ) :
    ∀ (R : List (PConf σ γ)) (tr : Bool), P.EpsClosed R → (P.runConfs limit s (R, tr) w).2 = false →
      ∀ c0 c, c0 ∈ R → P.Run c0 w c → c ∈ (P.runConfs limit s (R, tr) w).1 := by
  induction w with
  | nil =>
    intro R tr hc _ c0 c hc0 hr
    rw [PDA.runConfs_nil]
    exact PDA.Run.nil_closed hc hr hc0
  | cons a w ih =>
    intro R tr hc hf c0 c hc0 hr
    rw [PDA.runConfs_cons] at hf ⊢
    have hfl := P.runConfs_flag limit s w _ _ hf
    simp only [Bool.or_eq_false_iff] at hfl
    obtain ⟨p, hp, c', hm, hr'⟩ := PDA.Run.cons_inv hc hr hc0
    have hc' : c' ∈ (P.epsClosure limit s (P.doTransition a R)).1 :=
      P.epsClosure_base limit s _ c'
        (PDA.mem_doTransition.mpr ⟨p, hp, PDA.mem_moves_of_Move hm⟩)
    exact ih _ _ (fun x hx x' hm' => P.epsClosure_closed limit s _ hfl.2 x x' hx hm') hf c' c hc' hr'

theorem PDA.accepts_sound' (P : PDA σ τ γ) (hk : (P.delta.map (·.1)).Nodup)
    (limit : Nat) (s : Sched) (w : List τ) (hw : ∀ a, a ∈ w → a ≠ P.eps)
    (h : P.accepts limit s w = true) : P.Accepts w := by
  unfold PDA.accepts at h
  rw [PDA.acceptsT_eq] at h
  simp only [List.any_eq_true, decide_eq_true_eq] at h
  obtain ⟨c, hc, hf⟩ := h
  have hc' : c ∈ (P.runConfs limit s ((P.epsClosure limit s [(P.q0, [])]).1,
      (P.epsClosure limit s [(P.q0, [])]).2) w).1 := hc
  obtain ⟨c1, hc1, hr1⟩ := P.runConfs_sound hk limit s w hw _ _ c hc'
  obtain ⟨c2, hc2, hr2⟩ := PDA.Run.of_epsReach (P.epsClosure_sound' hk limit s _ c1 hc1) hr1
  have := List.mem_singleton.mp hc2
  subst this
  exact ⟨c.1, c.2, hf, hr2⟩

theorem PDA.accepts_complete' (P : PDA σ τ γ) (limit : Nat) (s : Sched) (w : List τ)
    (ht : (P.acceptsT limit s w).2 = false) (h : P.Accepts w) : P.accepts limit s w = true := by
  unfold PDA.accepts
  rw [PDA.acceptsT_eq] at ht ⊢
  simp only [List.any_eq_true, decide_eq_true_eq]
  obtain ⟨f, st, hf, hr⟩ := h
  have ht' : (P.runConfs limit s ((P.epsClosure limit s [(P.q0, [])]).1,
      (P.epsClosure limit s [(P.q0, [])]).2) w).2 = false := ht
  have h0 := P.runConfs_flag limit s w _ _ ht'
  have hmem := P.runConfs_complete limit s w _ _
    (fun x hx x' hm' => P.epsClosure_closed limit s _ h0 x x' hx hm') ht' (P.q0, []) (f, st)
    (P.epsClosure_base limit s _ _ (List.mem_singleton.mpr rfl)) hr
  exact ⟨(f, st), hmem, hf⟩

end

/-! ### Concrete objects for the non-vacuity examples of `Gamba.Props.C09` -/

/-- `{aⁿbⁿ | n ≥ 0}` with a bottom marker `$`; ε is the string `"eps"` -/
def C09.exPDA : PDA String String String :=
  { Q := ["s", "p", "q", "f"], Sigma := ["a", "b"], Gamma := ["$", "A"],
    delta := [(("s", "eps", "eps"), [("p", "$")]),
              (("p", "a", "eps"), [("p", "A")]),
              (("p", "eps", "eps"), [("q", "eps")]),
              (("q", "b", "A"), [("q", "eps")]),
              (("q", "eps", "$"), [("f", "eps")])],
    q0 := "s", F := ["f"], eps := "eps", epsG := "eps" }

/-- a PDA with a stack-growing ε-cycle: `(s, Xⁿ)` is ε-reachable from `(s, [])` for every `n`;
    it accepts exactly `aaa` (three `X` must have been pushed before the first `a`) -/
def C09.exLoopPDA : PDA String String String :=
  { Q := ["s", "t", "u", "f"], Sigma := ["a"], Gamma := ["X"],
    delta := [(("s", "eps", "eps"), [("s", "X")]), (("s", "a", "X"), [("t", "eps")]),
              (("t", "a", "X"), [("u", "eps")]), (("u", "a", "X"), [("f", "eps")])],
    q0 := "s", F := ["f"], eps := "eps", epsG := "eps" }

end Gamba
