/-
  Gamba.Proofs.C12d — helper lemmas for the two `check_*_language_from_file` checkers on text
  (`CheckText.dfaLanguageFile`, `CheckText.nfaLanguageFile`): unpacking of the verdict `OK`.
-/
import Gamba.Model.CheckText
import Gamba.Proofs.C12c
import Gamba.Proofs.C13a
namespace Gamba
namespace C12d
open Parse

open CheckText in
theorem dfaLanguageFile_unpack {answer refText : String} {len : Nat} (h : dfaLanguageFile answer refText len = .ok) :
    ∃ A D, parseDfa answer.toList = .ok A ∧ parseDfa refText.toList = .ok D ∧
      Check.equalLanguages (A.wordsUpTo len) (D.wordsUpTo len) = true := by
  unfold dfaLanguageFile at h
  split at h
  · rename_i A D h1 h2
    exact ⟨A, D, h1, h2, (C12c.ofBool_ok_iff _).mp h⟩
  · cases h

open CheckText in
theorem nfaLanguageFile_unpack {answer refText : String} {s : Sched} {len : Nat}
    (h : nfaLanguageFile answer refText s len = .ok) :
    ∃ A N L1 L2, parseNfa answer.toList = .ok A ∧ parseNfa refText.toList = .ok N ∧
      A.wordsUpTo s len = .ok L1 ∧ N.wordsUpTo s len = .ok L2 ∧ Check.equalLanguages L1 L2 = true := by
  unfold nfaLanguageFile at h
  split at h
  · rename_i A N h1 h2
    split at h
    · rename_i L1 L2 h3 h4
      exact ⟨A, N, L1, L2, h1, h2, h3, h4, (C12c.ofBool_ok_iff _).mp h⟩
    · cases h
  · cases h

theorem equalLanguages_refl (L : List (List String)) : Check.equalLanguages L L = true :=
  C13a.compare_refl L

end C12d
end Gamba
