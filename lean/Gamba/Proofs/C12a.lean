/-
  Gamba.Proofs.C12a — helper lemmas for the soundness of the exercise checkers (Model/Check.lean):
  unfolding of the Boolean verdicts into the facts they establish.
-/
import Gamba.Model.Check
import Gamba.Spec.Automata
import Gamba.Proofs.DFABasic
import Gamba.Proofs.MinBasic
import Gamba.Props.C14c
import Gamba.Props.C02reg
import Gamba.Props.C14a
import Gamba.Props.C14b
import Gamba.Props.C04b
namespace Gamba
namespace C12a
open Check

/-! ### small Boolean facts -/

theorem maxStatesOk_iff (nQ maxStates : Nat) :
    maxStatesOk nQ maxStates = true ↔ (maxStates = 0 ∨ nQ ≤ maxStates) := by
  unfold maxStatesOk
  simp only [Bool.not_eq_true', Bool.and_eq_false_iff, decide_eq_false_iff_not]
  omega

theorem compare_isNone_iff {τ : Type} [DecidableEq τ] (A1 A2 : List (List τ)) :
    (compareLanguages A1 A2).isNone = true ↔ ∀ w, w ∈ A1 ↔ w ∈ A2 := by
  rw [Option.isNone_iff_eq_none]
  exact compare_none_iff A1 A2

/-! ### `Accepts` only depends on the *lookups* of δ, on q0 and on the set F -/

section Congr
variable {σ τ : Type} [DecidableEq σ] [DecidableEq τ]

theorem Run_of_lookup_eq {D D' : DFA σ τ} (hd : ∀ k, D.delta.lookup k = D'.delta.lookup k)
    {q : σ} {w : List τ} {r : σ} (h : D.Run q w r) : D'.Run q w r := by
  induction h with
  | nil q => exact DFA.Run.nil _
  | cons hl _ ih => exact DFA.Run.cons ((hd _).symm.trans hl) ih

theorem Accepts_of_lookup_eq {D D' : DFA σ τ} (hd : ∀ k, D.delta.lookup k = D'.delta.lookup k)
    (hq : D.q0 = D'.q0) (hF : ∀ f, f ∈ D.F ↔ f ∈ D'.F) (w : List τ) :
    D.Accepts w ↔ D'.Accepts w := by
  unfold DFA.Accepts
  constructor
  · rintro ⟨f, hf, hr⟩; exact ⟨f, (hF f).mp hf, hq ▸ Run_of_lookup_eq hd hr⟩
  · rintro ⟨f, hf, hr⟩
    exact ⟨f, (hF f).mpr hf, hq ▸ Run_of_lookup_eq (fun k => (hd k).symm) hr⟩

end Congr

/-! ### `deltaEq` -/

theorem deltaEq_lookup {d1 d2 : Dict (String × String) String} (h : deltaEq d1 d2 = true)
    (k : String × String) : d2.lookup k = d1.lookup k := by
  unfold deltaEq at h
  simp only [Bool.and_eq_true, List.all_eq_true, beq_iff_eq] at h
  obtain ⟨h1, h2⟩ := h
  cases h' : d1.lookup k with
  | some v => exact h1 (k, v) (mem_of_lookup_eq_some h')
  | none =>
    cases h'' : d2.lookup k with
    | none => rfl
    | some v =>
      have := h2 (k, v) (mem_of_lookup_eq_some h'')
      simp only at this
      rw [h'] at this
      cases this

/-! ### product feedback -/

theorem productFeedback_true {D D1 D2 answer : DFA String String}
    (h : productFeedbackEmpty D D1 D2 answer = some true) :
    (∀ q, q ∈ answer.Q → ∃ p r, extractPair q = some (p, r) ∧ p ∈ D1.Q ∧ r ∈ D2.Q) ∧
    (∀ a, a ∈ D.Sigma ↔ a ∈ answer.Sigma) ∧
    answer.q0 = D.q0 ∧
    (∀ k r v, answer.delta.lookup k = some v → D.delta.lookup k = some r → v = r) ∧
    (∀ q, q ∈ D.F ↔ q ∈ answer.F) := by
  unfold productFeedbackEmpty at h
  split at h
  · cases h
  · simp only [Option.some.injEq, Bool.and_eq_true, decide_eq_true_eq, seq_iff,
      List.all_eq_true] at h
    obtain ⟨⟨⟨⟨hQ, hS⟩, h0⟩, hd⟩, hF⟩ := h
    refine ⟨?_, hS, h0, ?_, hF⟩
    · intro q hq
      have := hQ q hq
      split at this
      · rename_i q1 q2 he
        simp only [Bool.and_eq_true, decide_eq_true_eq] at this
        exact ⟨q1, q2, he, this.1, this.2⟩
      · cases this
    · intro k r v hv hr
      have := hd (k, v) (mem_of_lookup_eq_some hv)
      simp only at this
      rw [hr] at this
      simpa using this

/-- unfolding of `productCheck … = some true` -/
theorem productCheck_true {t : ProductType} {D1 D2 answer : DFA String String} {len : Nat}
    (h : productCheck t D1 D2 answer len = some true) :
    (∀ a, a ∈ D1.Sigma ↔ a ∈ D2.Sigma) ∧
    productFeedbackEmpty ((D1.product D2 t).mapStates productName) D1 D2 answer = some true ∧
    ∀ w, w ∈ answer.wordsUpTo len ↔ w ∈ (match t with
      | .union => langUnion (D1.wordsUpTo len) (D2.wordsUpTo len)
      | .intersection => langInter (D1.wordsUpTo len) (D2.wordsUpTo len)
      | .symmetricDifference => langSymDiff (D1.wordsUpTo len) (D2.wordsUpTo len)) := by
  unfold productCheck at h
  split at h
  · cases h
  · rename_i hS
    simp only [Bool.not_eq_true, Bool.not_eq_false'] at hS
    cases hfb : productFeedbackEmpty ((D1.product D2 t).mapStates productName) D1 D2 answer with
    | none => simp only [hfb] at h; cases h
    | some fb =>
      simp only [hfb, Option.some.injEq, Bool.and_eq_true, compare_isNone_iff] at h
      obtain ⟨rfl, hL⟩ := h
      refine ⟨seq_iff.mp hS, rfl, ?_⟩
      cases t <;> exact hL

open Classical in
/-- bounded language agreement obtained from the comparison of the enumerations -/
theorem product_lang_of_compare {t : ProductType} {D1 D2 answer : DFA String String} {len : Nat}
    (h1 : D1.valid = true) (h2 : D2.valid = true) (ha : answer.valid = true)
    (hS12 : ∀ a, a ∈ D1.Sigma ↔ a ∈ D2.Sigma) (hSa : ∀ a, a ∈ answer.Sigma ↔ a ∈ D1.Sigma)
    (hL : ∀ w, w ∈ answer.wordsUpTo len ↔ w ∈ (match t with
      | .union => langUnion (D1.wordsUpTo len) (D2.wordsUpTo len)
      | .intersection => langInter (D1.wordsUpTo len) (D2.wordsUpTo len)
      | .symmetricDifference => langSymDiff (D1.wordsUpTo len) (D2.wordsUpTo len)))
    (w : List String) (hl : w.length ≤ len) (hw : ∀ a, a ∈ w → a ∈ D1.Sigma) :
    answer.Accepts w ↔ t.accept (decide (D1.Accepts w)) (decide (D2.Accepts w)) = true := by
  have hwa : ∀ a, a ∈ w → a ∈ answer.Sigma := fun a h => (hSa a).mpr (hw a h)
  have hw2 : ∀ a, a ∈ w → a ∈ D2.Sigma := fun a h => (hS12 a).mp (hw a h)
  have e0 : answer.Accepts w ↔ w ∈ answer.wordsUpTo len := by
    rw [dfa_words_exact answer ha len w]
    exact ⟨fun h => ⟨hl, hwa, h⟩, fun h => h.2.2⟩
  have e1 : w ∈ D1.wordsUpTo len ↔ D1.Accepts w := by
    rw [dfa_words_exact D1 h1 len w]
    exact ⟨fun h => h.2.2, fun h => ⟨hl, hw, h⟩⟩
  have e2 : w ∈ D2.wordsUpTo len ↔ D2.Accepts w := by
    rw [dfa_words_exact D2 h2 len w]
    exact ⟨fun h => h.2.2, fun h => ⟨hl, hw2, h⟩⟩
  rw [e0, hL w]
  cases t with
  | union =>
    simp only [langUnion_spec, e1, e2, ProductType.accept, Bool.or_eq_true, decide_eq_true_eq]
  | intersection =>
    simp only [langInter_spec, e1, e2, ProductType.accept, Bool.and_eq_true, decide_eq_true_eq]
  | symmetricDifference =>
    simp only [langSymDiff_spec, e1, e2, ProductType.accept, Bool.or_eq_true, Bool.and_eq_true,
      Bool.not_eq_true', decide_eq_true_eq, decide_eq_false_iff_not]

/-! ### concrete answers for the examples of Props/C12a
    (`C14a.exD1`: words over {a,b} ending in `a`; `C14a.exD2`: words of even length;
     `C14b.exD`: words ending in `a` with an unreachable accepting state; `exC04b`: 4 states, 3 Nerode classes) -/

/-- a hand-written correct answer to the union exercise for `exD1`, `exD2` (states listed in another order) -/
def exAnsUnion : DFA String String :=
  { Q := ["(q,o)", "(q,e)", "(p,o)", "(p,e)"], Sigma := ["b", "a"],
    delta := [(("(p,e)", "a"), "(q,o)"), (("(p,e)", "b"), "(p,o)"), (("(p,o)", "a"), "(q,e)"),
              (("(p,o)", "b"), "(p,e)"), (("(q,e)", "a"), "(q,o)"), (("(q,e)", "b"), "(p,o)"),
              (("(q,o)", "a"), "(q,e)"), (("(q,o)", "b"), "(p,e)")],
    q0 := "(p,e)", F := ["(q,o)", "(q,e)", "(p,e)"] }

/-- the same automaton with the accepting states of the intersection -/
def exAnsInter : DFA String String := { exAnsUnion with F := ["(q,e)"] }

/-- … and of the symmetric difference -/
def exAnsSymDiff : DFA String String := { exAnsUnion with F := ["(p,e)", "(q,o)"] }

/-- a correct product automaton whose state names are not of the form `(p,q)` -/
def exAnsBadNames : DFA String String :=
  (C14a.exD1.product C14a.exD2 .union).mapStates fun p => p.1 ++ p.2

/-- the complement of `exD1`, written out -/
def exAnsCompl : DFA String String :=
  { Q := ["q", "p"], Sigma := ["b", "a"],
    delta := [(("q", "b"), "p"), (("q", "a"), "q"), (("p", "a"), "q"), (("p", "b"), "p")],
    q0 := "p", F := ["p"] }

/-- `exD1` itself handed in as its own complement (accepting set not flipped) -/
def exAnsComplBad : DFA String String := { exAnsCompl with F := ["q"] }

/-- the reversal of `C14b.exD`, written out (fresh initial state `s`, ε = "") -/
def exAnsRev : NFA String String :=
  { Q := ["s", "p", "q", "z"], Sigma := ["a", "b"],
    delta := [(("s", ""), ["z", "q"]), (("q", "a"), ["q", "p"]), (("p", "b"), ["q", "p"]),
              (("p", "a"), ["z"]), (("z", "b"), ["z"])],
    q0 := "s", F := ["p"], eps := "" }

/-- the same NFA without the reversed edge `p -a-> z` of `z -a-> p`: the language is unchanged (`z` is a dead end of
    the reversal) but the edge test fails -/
def exAnsRevBad : NFA String String :=
  { exAnsRev with delta := [(("s", ""), ["z", "q"]), (("q", "a"), ["q", "p"]), (("p", "b"), ["q", "p"]),
                             (("z", "b"), ["z"])] }

/-- the minimal DFA of `exC04b`, with fresh state names -/
def exAnsMin : DFA String String :=
  { Q := ["A", "B", "C"], Sigma := ["a", "b"],
    delta := [(("A", "a"), "B"), (("A", "b"), "B"), (("B", "a"), "C"), (("B", "b"), "A"),
              (("C", "a"), "C"), (("C", "b"), "C")],
    q0 := "A", F := ["C"] }

/-- a 3-state DFA with another language (`b` loops on `B`) -/
def exAnsMinBad : DFA String String :=
  { exAnsMin with delta := [(("A", "a"), "B"), (("A", "b"), "B"), (("B", "a"), "C"), (("B", "b"), "B"),
                             (("C", "a"), "C"), (("C", "b"), "C")] }

end C12a
end Gamba
