/-
  Gamba.Proofs.C10n — the concrete witness of the recorded defect `pda2cfg-variable-name-collision`:
  a valid PDA with the states `p` and `p'p`; the pairs `(p, p'p)` and `(p'p, p)` get the same grammar variable
  `p'p'p`, and the grammar of `pda_to_cfg` generates `a a`, which the PDA does not accept.
-/
import Gamba.Model.PDA
import Gamba.Spec.PDA
import Gamba.Spec.CFG
import Gamba.Proofs.DFABasic
import Gamba.Proofs.C10b
import Gamba.Proofs.C10c
namespace Gamba
namespace C10n
open C10b

/-- the counterexample found on the real library -/
def badP : SPDA :=
  { Q := ["p", "p'p"], Sigma := ["a", "b"], Gamma := ["A", "B"],
    delta := [(("p'p", "", ""), [("p'p", "B")]), (("p", "", ""), [("p'p", "")]), (("p", "a", ""), [("p'p", "A")])],
    q0 := "p", F := ["p", "p'p"], eps := "", epsG := "" }

/-- its normal form (empty-stack acceptance with marker `$` and drain state, one accepting state, push/pop form) -/
def badNorm : SPDA :=
  { Q := ["p", "p'p", "q_initial1", "q_drain1", "q_accept1", "M1", "M2", "M3"],
    Sigma := ["a", "b"],
    Gamma := ["A", "B", "$", "∅"],
    delta := [(("p'p", "", ""), [("p'p", "B"), ("M1", "∅")]),
              (("M1", "", "∅"), [("q_drain1", "")]),
              (("p", "", ""), [("M2", "∅"), ("M3", "∅")]),
              (("M2", "", "∅"), [("p'p", "")]),
              (("M3", "", "∅"), [("q_drain1", "")]),
              (("p", "a", ""), [("p'p", "A")]),
              (("q_initial1", "", ""), [("p", "$")]),
              (("q_drain1", "", "A"), [("q_drain1", "")]),
              (("q_drain1", "", "B"), [("q_drain1", "")]),
              (("q_drain1", "", "$"), [("q_accept1", "")])],
    q0 := "q_initial1", F := ["q_accept1"], eps := "", epsG := "" }

/-- the grammar `pda_to_cfg` returns (64 variables, 532 rules) -/
def badG : CFG := badNorm.tripleCfg "q_accept1"

theorem badP_valid : badP.valid = true := by decide
theorem badP_keys : (badP.delta.map (·.1)).Nodup := by decide

theorem badP_normalize : badP.normalizeForCfg = .ok badNorm := by rfl

theorem badP_toCfg : badP.toCfg = .ok badG := by
  unfold SPDA.toCfg
  rw [badP_normalize]
  rfl

theorem badP_marker : freshSymbol badP.Gamma ≠ .ok badP.epsG := by
  have h : freshSymbol badP.Gamma = .ok "$" := rfl
  rw [h]
  intro h'
  exact absurd (Except.ok.inj h') (by decide)

/-! ### the collision -/

theorem pdaVar_collision : pdaVar "p" "p'p" = pdaVar "p'p" "p" := by decide

/-! ### the grammar generates `a a` -/

theorem gen_v {G : CFG} {A : String} {rhs ss : List Sym} {u w x : List String} (h : G.HasRule A rhs)
    (h1 : G.Gen rhs u) (h2 : G.Gen ss w) (e : x = u ++ w) : G.Gen (.v A :: ss) x := e ▸ .v h h1 h2

/-- `A_pp → ε` -/
theorem rule_eps (p : String) (hp : p ∈ badNorm.Q) : badG.HasRule (pdaVar p p) [] :=
  (hasRule_iff badNorm _ _ _).mpr (.inr (.inr ⟨p, hp, rfl, rfl⟩))

/-- `A_pq → A_pr A_rq` -/
theorem rule_split (p q r : String) (hp : p ∈ badNorm.Q) (hq : q ∈ badNorm.Q) (hr : r ∈ badNorm.Q) :
    badG.HasRule (pdaVar p q) [.v (pdaVar p r), .v (pdaVar r q)] :=
  (hasRule_iff badNorm _ _ _).mpr (.inr (.inl ⟨p, q, r, hp, hq, hr, rfl, rfl⟩))

/-- `A_pq → a A_rs b` for a push `p --a, ε→u--> r` and a pop `s --b, u→ε--> q` -/
theorem rule_pushpop (u p a r s b q v : String) (hu : u ∈ badNorm.Gamma) (h1 : Trans badNorm p a "" r u)
    (h2 : Trans badNorm s b u q v) (hne : u ≠ "") :
    badG.HasRule (pdaVar p q) (tm badNorm a ++ [.v (pdaVar r s)] ++ tm badNorm b) :=
  (hasRule_iff badNorm _ _ _).mpr (.inl ⟨u, p, a, r, s, b, q, v, hu, h1, h2, hne, rfl, rfl⟩)

theorem tm_eps : tm badNorm "" = [] := by decide
theorem tm_a : tm badNorm "a" = [.t "a"] := by decide

/-- `A_{M1,M1} ⇒ ε`, `A_{M2,M2} ⇒ ε` -/
theorem gen_M1 : badG.Gen [.v (pdaVar "M1" "M1")] [] :=
  gen_v (rule_eps "M1" (by decide)) .nil .nil rfl
theorem gen_M2 : badG.Gen [.v (pdaVar "M2" "M2")] [] :=
  gen_v (rule_eps "M2" (by decide)) .nil .nil rfl

/-- `A_{p'p, q_drain1} → A_{M1,M1} ⇒ ε` (push and pop of the dummy `∅` through `M1`): legitimate -/
theorem gen_pp_drain_eps : badG.Gen [.v (pdaVar "p'p" "q_drain1")] [] := by
  have hr := rule_pushpop "∅" "p'p" "" "M1" "M1" "" "q_drain1" "" (by decide)
    ⟨[("p'p", "B"), ("M1", "∅")], by decide, by decide⟩ ⟨[("q_drain1", "")], by decide, by decide⟩ (by decide)
  rw [tm_eps] at hr
  exact gen_v hr gen_M1 .nil rfl

/-- `A_{p, p'p} → A_{M2,M2} ⇒ ε` (push and pop of the dummy `∅` through `M2`): legitimate -/
theorem gen_p_pp_eps : badG.Gen [.v (pdaVar "p" "p'p")] [] := by
  have hr := rule_pushpop "∅" "p" "" "M2" "M2" "" "p'p" "" (by decide)
    ⟨[("M2", "∅"), ("M3", "∅")], by decide, by decide⟩ ⟨[("p'p", "")], by decide, by decide⟩ (by decide)
  rw [tm_eps] at hr
  exact gen_v hr gen_M2 .nil rfl

/-- `A_{p, q_drain1} → a A_{p'p, q_drain1}` (push `A` reading `a`, popped in the drain state): legitimate -/
theorem rule_p_drain : badG.HasRule (pdaVar "p" "q_drain1") [.t "a", .v (pdaVar "p'p" "q_drain1")] := by
  have hr := rule_pushpop "A" "p" "a" "p'p" "q_drain1" "" "q_drain1" "" (by decide)
    ⟨[("p'p", "A")], by decide, by decide⟩ ⟨[("q_drain1", "")], by decide, by decide⟩ (by decide)
  rw [tm_eps, tm_a] at hr
  exact hr

/-- hence `A_{p, q_drain1} ⇒ a`: legitimate (`p --a--> p'p`, then drain) -/
theorem gen_p_drain_a : badG.Gen [.v (pdaVar "p" "q_drain1")] ["a"] :=
  gen_v rule_p_drain (.t gen_pp_drain_eps) .nil rfl

/-- THE COLLISION AT WORK: `A_{p'p, q_drain1} → A_{p'p, p} A_{p, q_drain1}` is a (useless, but present) rule of the
    triple construction — no run leads from `p'p` back to `p`, so `A_{p'p, p}` should generate nothing; but
    `A_{p'p, p}` IS the variable `A_{p, p'p}`, which generates ε -/
theorem gen_pp_drain_a : badG.Gen [.v (pdaVar "p'p" "q_drain1")] ["a"] := by
  have hr := rule_split "p'p" "q_drain1" "p" (by decide) (by decide) (by decide)
  rw [← pdaVar_collision] at hr
  exact gen_v hr (CFG.Gen.v (ss := [.v (pdaVar "p" "q_drain1")]) (w := ["a"])
    ((hasRule_iff badNorm "q_accept1" (pdaVar "p" "p'p") _).mpr (.inl ⟨"∅", "p", "", "M2", "M2", "", "p'p", "",
      by decide, ⟨[("M2", "∅"), ("M3", "∅")], by decide, by decide⟩, ⟨[("p'p", "")], by decide, by decide⟩,
      by decide, rfl, rfl⟩)) (by rw [tm_eps]; exact gen_M2) gen_p_drain_a) .nil rfl

theorem gen_p_drain_aa : badG.Gen [.v (pdaVar "p" "q_drain1")] ["a", "a"] :=
  gen_v rule_p_drain (.t gen_pp_drain_a) .nil rfl

theorem badG_S : badG.S = pdaVar "q_initial1" "q_accept1" := rfl

/-- `S = A_{q_initial1, q_accept1} → A_{p, q_drain1}` (push and pop of the marker `$`) -/
theorem badG_lang_aa : badG.Lang ["a", "a"] := by
  unfold CFG.Lang
  rw [badG_S]
  have hr := rule_pushpop "$" "q_initial1" "" "p" "q_drain1" "" "q_accept1" "" (by decide)
    ⟨[("p", "$")], by decide, by decide⟩ ⟨[("q_accept1", "")], by decide, by decide⟩ (by decide)
  rw [tm_eps] at hr
  exact gen_v hr gen_p_drain_aa .nil rfl

/-! ### the PDA does not accept `a a`: once in `p'p` it stays there and reads nothing -/

theorem badP_trans {p a u q v : String} (h : Trans badP p a u q v) :
    (p, a, u, q, v) ∈ [("p'p", "", "", "p'p", "B"), ("p", "", "", "p'p", ""), ("p", "a", "", "p'p", "A")] := by
  obtain ⟨T, hm, ht⟩ := h
  simp [badP] at hm
  rcases hm with ⟨⟨rfl, rfl, rfl⟩, rfl⟩ | ⟨⟨rfl, rfl, rfl⟩, rfl⟩ | ⟨⟨rfl, rfl, rfl⟩, rfl⟩ <;> simp at ht <;> simp [ht]

theorem badP_move {a : String} {c c' : PConf String String} (h : badP.Move a c c') :
    c'.1 = "p'p" ∧ (c.1 = "p'p" → a = "") := by
  obtain ⟨p, q, u, v, T, st, h1, h2, rfl, rfl⟩ := move_iff.mp h
  have := badP_trans ⟨T, mem_of_lookup_eq_some h1, h2⟩
  simp only [List.mem_cons, Prod.mk.injEq, List.mem_nil_iff, or_false] at this
  rcases this with ⟨rfl, rfl, rfl, rfl, rfl⟩ | ⟨rfl, rfl, rfl, rfl, rfl⟩ | ⟨rfl, rfl, rfl, rfl, rfl⟩
  · exact ⟨rfl, fun _ => rfl⟩
  · exact ⟨rfl, fun _ => rfl⟩
  · exact ⟨rfl, fun hc => absurd (show ("p" : String) = "p'p" from hc) (by decide)⟩

/-- from the state `p'p` only the empty word can be read -/
theorem badP_run_pp {c c' : PConf String String} {w : List String} (h : badP.Run c w c') (hc : c.1 = "p'p") :
    w = [] := by
  induction h with
  | nil c => rfl
  | eps hm _ ih => exact ih (badP_move hm).1
  | sym ha hm _ _ => exact absurd ((badP_move hm).2 hc) ha

/-- a run of `badP` reads at most one symbol -/
theorem badP_run_short {c c' : PConf String String} {w : List String} (h : badP.Run c w c') : w.length ≤ 1 := by
  cases h with
  | nil c => simp
  | eps hm hr => rw [badP_run_pp hr (badP_move hm).1]; simp
  | sym ha hm hr => rw [badP_run_pp hr (badP_move hm).1]; simp

theorem badP_not_accepts_aa : ¬ badP.Accepts ["a", "a"] := by
  rintro ⟨f, st, _, hr⟩
  exact absurd (badP_run_short hr) (by decide)

/-- … whereas it accepts ε and `a` (so the witness is not degenerate) -/
theorem badP_accepts_nil : badP.Accepts [] := ⟨"p", [], by decide, .nil _⟩

theorem badP_accepts_a : badP.Accepts ["a"] := by
  refine ⟨"p'p", ["A"], by decide, .sym (by decide) ?_ (.nil _)⟩
  have := PDA.Move.mk (P := badP) (a := "a") (p := "p") (q := "p'p") (u := "") (v := "A") (T := [("p'p", "A")])
    (st := []) (by decide) (by decide)
  simpa [PDA.stk, badP] using this

end C10n
end Gamba
