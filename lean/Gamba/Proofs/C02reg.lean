/-
  Gamba.Proofs.C02reg — helper lemmas for the bounded enumerations `dfa_words_up_to_n` /
  `nfa_words_up_to_n` (property C02, regular part).
-/
import Gamba.Proofs.DFABasic
import Gamba.Proofs.C01
namespace Gamba

/-! ### generic: `mapM` / `filterM` in `Except` with a total description -/

theorem C02.mapM_ok_map {α β : Type} {f : α → Except Err β} {g : α → β} (l : List α)
    (h : ∀ x, x ∈ l → f x = .ok (g x)) : l.mapM f = .ok (l.map g) := by
  induction l with
  | nil => rfl
  | cons x l ih =>
    rw [List.mapM_cons, h x (List.mem_cons_self ..), ih (fun y hy => h y (List.mem_cons_of_mem _ hy))]
    rfl

theorem C02.filterAuxM_ok {α : Type} {f : α → Except Err Bool} {g : α → Bool} (l acc : List α)
    (h : ∀ x, x ∈ l → f x = .ok (g x)) :
    List.filterAuxM f l acc = .ok ((l.filter g).reverse ++ acc) := by
  induction l generalizing acc with
  | nil => rfl
  | cons x l ih =>
    have hx := h x (List.mem_cons_self ..)
    have ih' := fun acc => ih acc (fun y hy => h y (List.mem_cons_of_mem _ hy))
    simp only [List.filterAuxM, hx]
    show List.filterAuxM f l (cond (g x) (x :: acc) acc) = _
    rw [ih']
    cases hg : g x <;> simp [hg]

theorem C02.filterM_ok {α : Type} {f : α → Except Err Bool} {g : α → Bool} (l : List α)
    (h : ∀ x, x ∈ l → f x = .ok (g x)) : l.filterM f = .ok (l.filter g) := by
  unfold List.filterM
  rw [C02.filterAuxM_ok l [] h]
  show Except.ok ((l.filter g).reverse ++ []).reverse = _
  simp

section
variable {σ τ : Type} [DecidableEq σ] [DecidableEq τ]

/-! ### DFA enumeration -/

theorem DFA.mem_frontierStep (D : DFA σ τ) (W : List (σ × List τ)) (p : σ × List τ) :
    p ∈ D.frontierStep W ↔
      ∃ q w, (q, w) ∈ W ∧ ∃ a, a ∈ D.Sigma ∧ p = (D.next q a, w ++ [a]) := by
  simp only [DFA.frontierStep, List.mem_flatMap, List.mem_map]
  constructor
  · rintro ⟨⟨q, w⟩, hqw, a, ha, rfl⟩; exact ⟨q, w, hqw, a, ha, rfl⟩
  · rintro ⟨q, w, hqw, a, ha, rfl⟩; exact ⟨(q, w), hqw, a, ha, rfl⟩

/-- the frontier after `i` rounds: exactly the pairs `(runT q0 w, w)` with `|w| = i`, `w ∈ Σ*` -/
def DFA.Front (D : DFA σ τ) (i : Nat) (W : List (σ × List τ)) : Prop :=
  ∀ q w, (q, w) ∈ W ↔ w.length = i ∧ (∀ a, a ∈ w → a ∈ D.Sigma) ∧ q = D.runT D.q0 w

theorem DFA.Front_zero (D : DFA σ τ) : D.Front 0 [(D.q0, [])] := by
  intro q w
  simp only [List.mem_singleton, Prod.mk.injEq]
  constructor
  · rintro ⟨rfl, rfl⟩; exact ⟨rfl, by simp, rfl⟩
  · rintro ⟨hl, _, hq⟩
    have := List.eq_nil_of_length_eq_zero hl
    subst this
    exact ⟨hq, rfl⟩

theorem DFA.Front_step {D : DFA σ τ} {i : Nat} {W : List (σ × List τ)} (h : D.Front i W) :
    D.Front (i + 1) (D.frontierStep W) := by
  intro q' w'
  rw [DFA.mem_frontierStep]
  constructor
  · rintro ⟨q, w, hqw, a, ha, heq⟩
    obtain ⟨hl, hs, hq⟩ := (h q w).mp hqw
    simp only [Prod.mk.injEq] at heq
    obtain ⟨rfl, rfl⟩ := heq
    refine ⟨by simp [hl], ?_, ?_⟩
    · intro b hb
      rcases List.mem_append.mp hb with hb | hb
      · exact hs b hb
      · rw [List.mem_singleton.mp hb]; exact ha
    · rw [DFA.runT_append, ← hq]; rfl
  · rintro ⟨hl, hs, hq⟩
    rcases List.eq_nil_or_concat w' with rfl | ⟨u, a, rfl⟩
    · simp at hl
    · rw [List.concat_eq_append] at hl hs hq ⊢
      refine ⟨D.runT D.q0 u, u, (h _ _).mpr ⟨?_, ?_, rfl⟩, a, hs a (by simp), ?_⟩
      · simp at hl; exact hl
      · intro b hb; exact hs b (by simp [hb])
      · rw [hq, DFA.runT_append]; rfl

theorem DFA.mem_wordsUpToAux (D : DFA σ τ) (n : Nat) :
    ∀ (i : Nat) (W : List (σ × List τ)) (words : List (List τ)), D.Front i W →
    ∀ w, w ∈ D.wordsUpToAux n W words ↔
      w ∈ words ∨ (i < w.length ∧ w.length ≤ i + n ∧ (∀ a, a ∈ w → a ∈ D.Sigma) ∧
        D.runT D.q0 w ∈ D.F) := by
  induction n with
  | zero =>
    intro i W words _ w
    simp only [DFA.wordsUpToAux]
    constructor
    · exact Or.inl
    · rintro (h | ⟨h1, h2, _⟩)
      · exact h
      · omega
  | succ n ih =>
    intro i W words hW w
    simp only [DFA.wordsUpToAux]
    rw [ih (i + 1) _ _ (DFA.Front_step hW) w]
    have hnew : w ∈ ((D.frontierStep W).filter fun p => decide (p.1 ∈ D.F)).map (·.2) ↔
        w.length = i + 1 ∧ (∀ a, a ∈ w → a ∈ D.Sigma) ∧ D.runT D.q0 w ∈ D.F := by
      simp only [List.mem_map, List.mem_filter, decide_eq_true_eq]
      constructor
      · rintro ⟨⟨q, w'⟩, ⟨hm, hf⟩, rfl⟩
        obtain ⟨hl, hs, hq⟩ := (DFA.Front_step hW q w').mp hm
        exact ⟨hl, hs, hq ▸ hf⟩
      · rintro ⟨hl, hs, hf⟩
        exact ⟨(D.runT D.q0 w, w), ⟨(DFA.Front_step hW _ _).mpr ⟨hl, hs, rfl⟩, hf⟩, rfl⟩
    rw [List.mem_append, hnew]
    constructor
    · rintro ((h | ⟨hl, hs, hf⟩) | ⟨h1, h2, hs, hf⟩)
      · exact Or.inl h
      · exact Or.inr ⟨by omega, by omega, hs, hf⟩
      · exact Or.inr ⟨by omega, by omega, hs, hf⟩
    · rintro (h | ⟨h1, h2, hs, hf⟩)
      · exact Or.inl (Or.inl h)
      · by_cases hl : w.length = i + 1
        · exact Or.inl (Or.inr ⟨hl, hs, hf⟩)
        · exact Or.inr ⟨by omega, by omega, hs, hf⟩

theorem DFA.mem_wordsUpTo (D : DFA σ τ) (n : Nat) (w : List τ) :
    w ∈ D.wordsUpTo n ↔
      w.length ≤ n ∧ (∀ a, a ∈ w → a ∈ D.Sigma) ∧ D.runT D.q0 w ∈ D.F := by
  unfold DFA.wordsUpTo
  rw [D.mem_wordsUpToAux n 0 _ _ D.Front_zero w]
  have h0 : w ∈ (if D.q0 ∈ D.F then [[]] else ([] : List (List τ))) ↔ w = [] ∧ D.q0 ∈ D.F := by
    split <;> simp_all
  rw [h0]
  constructor
  · rintro (⟨rfl, hf⟩ | ⟨_, h2, hs, hf⟩)
    · exact ⟨by simp, by simp, hf⟩
    · exact ⟨by omega, hs, hf⟩
  · rintro ⟨hl, hs, hf⟩
    by_cases hw : w = []
    · subst hw; exact Or.inl ⟨rfl, hf⟩
    · have : 0 < w.length := List.length_pos_iff.mpr hw
      exact Or.inr ⟨this, by omega, hs, hf⟩

/-! ### NFA runs: more structure -/

theorem NFA.valid_F {N : NFA σ τ} (hv : N.valid = true) {f : σ} (hf : f ∈ N.F) : f ∈ N.Q := by
  simp only [NFA.valid, Bool.and_eq_true, decide_eq_true_eq, ssubset_iff] at hv
  exact hv.1.1.2 f hf

theorem NFA.Run.append {N : NFA σ τ} {p q r : σ} {u v : List τ}
    (h1 : N.Run p u q) (h2 : N.Run q v r) : N.Run p (u ++ v) r := by
  induction h1 with
  | nil => exact h2
  | eps hs _ ih => exact NFA.Run.eps hs (ih h2)
  | sym hne hs _ ih => exact NFA.Run.sym hne hs (ih h2)

theorem NFA.EpsReach.trans {N : NFA σ τ} {S : List σ} {q r : σ}
    (h1 : N.EpsReach S q) (h2 : N.EpsReach [q] r) : N.EpsReach S r := by
  induction h2 with
  | base hm => rw [List.mem_singleton.mp hm]; exact h1
  | step _ hs ih => exact NFA.EpsReach.step ih hs

theorem NFA.Run_nil_iff_epsReach {N : NFA σ τ} {q r : σ} : N.Run q [] r ↔ N.EpsReach [q] r := by
  constructor
  · intro h
    generalize hw : ([] : List τ) = w at h
    induction h with
    | nil => exact NFA.EpsReach.base (List.mem_singleton.mpr rfl)
    | eps hs _ ih =>
      exact NFA.EpsReach.trans
        (NFA.EpsReach.step (NFA.EpsReach.base (List.mem_singleton.mpr rfl)) hs) (ih hw)
    | sym => cases hw
  · intro h
    exact NFA.Run.of_epsReach h (NFA.Run.nil r)

/-- decomposition of a run at the last symbol -/
theorem NFA.Run_snoc_iff {N : NFA σ τ} {p r : σ} {w : List τ} {a : τ} (ha : a ≠ N.eps) :
    N.Run p (w ++ [a]) r ↔ ∃ q q1, N.Run p w q ∧ N.Succ q a q1 ∧ N.EpsReach [q1] r := by
  constructor
  · intro h
    generalize hx : w ++ [a] = x at h
    induction h generalizing w with
    | nil => simp at hx
    | eps hs _ ih =>
      obtain ⟨q, q1, hr, hs', he⟩ := ih hx
      exact ⟨q, q1, NFA.Run.eps hs hr, hs', he⟩
    | sym hne hs hr ih =>
      cases w with
      | nil =>
        simp only [List.nil_append, List.cons.injEq] at hx
        obtain ⟨rfl, rfl⟩ := hx
        exact ⟨_, _, NFA.Run.nil _, hs, NFA.Run_nil_iff_epsReach.mp hr⟩
      | cons b w' =>
        simp only [List.cons_append, List.cons.injEq] at hx
        obtain ⟨rfl, hx'⟩ := hx
        obtain ⟨q, q1, hr', hs', he⟩ := ih hx'
        exact ⟨q, q1, NFA.Run.sym hne hs hr', hs', he⟩
  · rintro ⟨q, q1, hr, hs, he⟩
    exact NFA.Run.append hr (NFA.Run.sym ha hs (NFA.Run_nil_iff_epsReach.mpr he))

/-- a word is accepted iff some state reached on it can reach `F` by ε-moves -/
theorem NFA.Accepts_iff_frontier {N : NFA σ τ} (hv : N.valid = true) (w : List τ) :
    N.Accepts w ↔ ∃ q, N.Run N.q0 w q ∧ q ∈ N.Q ∧ ∃ f, f ∈ N.F ∧ N.Run q [] f := by
  constructor
  · rintro ⟨f, hf, hr⟩
    exact ⟨f, hr, NFA.valid_F hv hf, f, hf, NFA.Run.nil f⟩
  · rintro ⟨q, hr, _, f, hf, hr'⟩
    have := NFA.Run.append hr hr'
    rw [List.append_nil] at this
    exact ⟨f, hf, this⟩

/-! ### total versions of `closure` and `eqa` on a valid NFA -/

def NFA.closureT (N : NFA σ τ) (s : Sched) (S : List σ) : List σ :=
  match N.closure s S with
  | .ok R => R
  | .error _ => []

def NFA.eqaT (N : NFA σ τ) (s : Sched) (q : σ) (a : τ) : List σ :=
  match N.eqa s q a with
  | .ok R => R
  | .error _ => []

theorem NFA.closure_eq_ok {N : NFA σ τ} (hv : N.valid = true) (s : Sched) (S : List σ) :
    N.closure s S = .ok (N.closureT s S) := by
  obtain ⟨R, hR⟩ := N.closure_ok hv s S
  simp only [NFA.closureT, hR]

theorem NFA.mem_closureT {N : NFA σ τ} (hv : N.valid = true) (s : Sched) (S : List σ) (q : σ) :
    q ∈ N.closureT s S ↔ N.EpsReach S q := by
  obtain ⟨R, hR, hm⟩ := N.closure_spec hv s S
  simp only [NFA.closureT, hR]
  exact hm q

theorem NFA.eqa_eq_ok {N : NFA σ τ} (hv : N.valid = true) (s : Sched) (q : σ) (a : τ) :
    N.eqa s q a = .ok (N.eqaT s q a) := by
  obtain ⟨R, hR, _⟩ := N.eqa_spec hv s q a
  simp only [NFA.eqaT, hR]

theorem NFA.mem_eqaT {N : NFA σ τ} (hv : N.valid = true) (s : Sched) (q : σ) (a : τ) (r : σ) :
    r ∈ N.eqaT s q a ↔ ∃ q', N.Succ q a q' ∧ N.EpsReach [q'] r := by
  obtain ⟨R, hR, hm⟩ := N.eqa_spec hv s q a
  simp only [NFA.eqaT, hR]
  exact hm r

/-! ### NFA enumeration -/

/-- one round of the frontier of `nfa_words_up_to_n`, as a total function -/
def NFA.frontierStep (N : NFA σ τ) (s : Sched) (W : List (σ × List τ)) : List (σ × List τ) :=
  dedup (W.map fun p =>
    (N.Sigma.map fun a => (N.eqaT s p.1 a).map fun q1 => (q1, p.2 ++ [a])).flatten).flatten

theorem NFA.mem_frontierStep {N : NFA σ τ} (hv : N.valid = true) (s : Sched)
    (W : List (σ × List τ)) (p : σ × List τ) :
    p ∈ N.frontierStep s W ↔
      ∃ q w, (q, w) ∈ W ∧ ∃ a, a ∈ N.Sigma ∧ p.2 = w ++ [a] ∧
        ∃ q', N.Succ q a q' ∧ N.EpsReach [q'] p.1 := by
  simp only [NFA.frontierStep, mem_dedup, List.mem_flatten, List.mem_map]
  constructor
  · rintro ⟨l, ⟨⟨q, w⟩, hqw, rfl⟩, hp⟩
    simp only [List.mem_flatten, List.mem_map] at hp
    obtain ⟨l', ⟨a, ha, rfl⟩, hp⟩ := hp
    simp only [List.mem_map] at hp
    obtain ⟨q1, hq1, rfl⟩ := hp
    exact ⟨q, w, hqw, a, ha, rfl, (NFA.mem_eqaT hv s q a q1).mp hq1⟩
  · rintro ⟨q, w, hqw, a, ha, hp2, hq'⟩
    refine ⟨_, ⟨(q, w), hqw, rfl⟩, ?_⟩
    simp only [List.mem_flatten, List.mem_map]
    refine ⟨_, ⟨a, ha, rfl⟩, ?_⟩
    simp only [List.mem_map]
    refine ⟨p.1, (NFA.mem_eqaT hv s q a p.1).mpr hq', ?_⟩
    rw [← hp2]

theorem NFA.wordsLoop_succ {N : NFA σ τ} (hv : N.valid = true) (s : Sched) (F1 : List σ) (n : Nat)
    (W : List (σ × List τ)) (result : List (List τ)) :
    N.wordsLoop s F1 (n + 1) W result =
      N.wordsLoop s F1 n (N.frontierStep s W)
        (sunion result (((N.frontierStep s W).filter fun p => decide (p.1 ∈ F1)).map (·.2))) := by
  rw [NFA.wordsLoop]
  rw [C02.mapM_ok_map (g := fun p =>
    (N.Sigma.map fun a => (N.eqaT s p.1 a).map fun q1 => (q1, p.2 ++ [a])).flatten) W]
  · rfl
  · rintro ⟨q, w⟩ _
    dsimp only
    rw [C02.mapM_ok_map (g := fun a => (N.eqaT s q a).map fun q1 => (q1, w ++ [a])) N.Sigma]
    · rfl
    · intro a _
      rw [NFA.eqa_eq_ok hv]
      rfl

/-- the frontier after `i` rounds: the pairs `(q, w)` with `|w| = i`, `w ∈ Σ*`, `q` reached on `w` -/
def NFA.Front (N : NFA σ τ) (i : Nat) (W : List (σ × List τ)) : Prop :=
  ∀ q w, (q, w) ∈ W ↔ w.length = i ∧ (∀ a, a ∈ w → a ∈ N.Sigma) ∧ N.Run N.q0 w q

theorem NFA.Front_zero {N : NFA σ τ} (hv : N.valid = true) (s : Sched) :
    N.Front 0 ((N.closureT s [N.q0]).map fun q => (q, [])) := by
  intro q w
  simp only [List.mem_map, Prod.mk.injEq]
  constructor
  · rintro ⟨q', hq', rfl, rfl⟩
    exact ⟨rfl, by simp, NFA.Run_nil_iff_epsReach.mpr ((NFA.mem_closureT hv s _ _).mp hq')⟩
  · rintro ⟨hl, _, hr⟩
    have := List.eq_nil_of_length_eq_zero hl
    subst this
    exact ⟨q, (NFA.mem_closureT hv s _ _).mpr (NFA.Run_nil_iff_epsReach.mp hr), rfl, rfl⟩

theorem NFA.Front_step {N : NFA σ τ} (hv : N.valid = true) (s : Sched) {i : Nat}
    {W : List (σ × List τ)} (h : N.Front i W) : N.Front (i + 1) (N.frontierStep s W) := by
  intro q' w'
  rw [NFA.mem_frontierStep hv]
  constructor
  · rintro ⟨q, w, hqw, a, ha, hw', q1, hs, he⟩
    obtain ⟨hl, hsig, hr⟩ := (h q w).mp hqw
    simp only at hw' he
    subst hw'
    have hne : a ≠ N.eps := fun hc => NFA.valid_eps hv (hc ▸ ha)
    refine ⟨by simp [hl], ?_, (NFA.Run_snoc_iff hne).mpr ⟨q, q1, hr, hs, he⟩⟩
    intro b hb
    rcases List.mem_append.mp hb with hb | hb
    · exact hsig b hb
    · rw [List.mem_singleton.mp hb]; exact ha
  · rintro ⟨hl, hsig, hr⟩
    rcases List.eq_nil_or_concat w' with rfl | ⟨u, a, rfl⟩
    · simp at hl
    · rw [List.concat_eq_append] at hl hsig hr ⊢
      have ha : a ∈ N.Sigma := hsig a (by simp)
      have hne : a ≠ N.eps := fun hc => NFA.valid_eps hv (hc ▸ ha)
      obtain ⟨q, q1, hru, hs, he⟩ := (NFA.Run_snoc_iff hne).mp hr
      refine ⟨q, u, (h q u).mpr ⟨?_, ?_, hru⟩, a, ha, rfl, q1, hs, he⟩
      · simp at hl; exact hl
      · intro b hb; exact hsig b (by simp [hb])

/-- `F1`: the states whose ε-closure meets `F` -/
def NFA.F1T (N : NFA σ τ) (s : Sched) : List σ :=
  N.Q.filter fun q => !sdisjoint (N.closureT s [q]) N.F

theorem NFA.F1_eq_ok {N : NFA σ τ} (hv : N.valid = true) (s : Sched) :
    (N.Q.filterM fun q => do
      let C ← N.closure s [q]
      pure (!sdisjoint C N.F)) = .ok (N.F1T s) := by
  unfold NFA.F1T
  apply C02.filterM_ok
  intro q _
  rw [NFA.closure_eq_ok hv]
  rfl

theorem NFA.mem_F1T {N : NFA σ τ} (hv : N.valid = true) (s : Sched) (q : σ) :
    q ∈ N.F1T s ↔ q ∈ N.Q ∧ ∃ f, f ∈ N.F ∧ N.Run q [] f := by
  simp only [NFA.F1T, List.mem_filter, Bool.not_eq_true', sdisjoint_false_iff]
  constructor
  · rintro ⟨hq, f, hf, hfF⟩
    exact ⟨hq, f, hfF, NFA.Run_nil_iff_epsReach.mpr ((NFA.mem_closureT hv s _ _).mp hf)⟩
  · rintro ⟨hq, f, hfF, hr⟩
    exact ⟨hq, f, (NFA.mem_closureT hv s _ _).mpr (NFA.Run_nil_iff_epsReach.mp hr), hfF⟩

theorem NFA.wordsLoop_spec {N : NFA σ τ} (hv : N.valid = true) (s : Sched) (n : Nat) :
    ∀ (i : Nat) (W : List (σ × List τ)) (result : List (List τ)), N.Front i W →
    ∃ L, N.wordsLoop s (N.F1T s) n W result = .ok L ∧
      ∀ w, w ∈ L ↔ w ∈ result ∨ (i < w.length ∧ w.length ≤ i + n ∧
        (∀ a, a ∈ w → a ∈ N.Sigma) ∧ N.Accepts w) := by
  induction n with
  | zero =>
    intro i W result _
    refine ⟨result, rfl, ?_⟩
    intro w
    constructor
    · exact Or.inl
    · rintro (h | ⟨h1, h2, _⟩)
      · exact h
      · omega
  | succ n ih =>
    intro i W result hW
    have hW' := NFA.Front_step hv s hW
    obtain ⟨L, hL, hm⟩ := ih (i + 1) _
      (sunion result (((N.frontierStep s W).filter
        fun (p : σ × List τ) => decide (p.1 ∈ N.F1T s)).map fun (p : σ × List τ) => p.2)) hW'
    refine ⟨L, by rw [NFA.wordsLoop_succ hv]; exact hL, ?_⟩
    intro w
    rw [hm w]
    have hnew : w ∈ ((N.frontierStep s W).filter fun p => decide (p.1 ∈ N.F1T s)).map (·.2) ↔
        w.length = i + 1 ∧ (∀ a, a ∈ w → a ∈ N.Sigma) ∧ N.Accepts w := by
      simp only [List.mem_map, List.mem_filter, decide_eq_true_eq]
      rw [NFA.Accepts_iff_frontier hv]
      constructor
      · rintro ⟨⟨q, w'⟩, ⟨hmem, hf⟩, rfl⟩
        obtain ⟨hl, hs, hr⟩ := (hW' q w').mp hmem
        obtain ⟨hq, hff⟩ := (NFA.mem_F1T hv s q).mp hf
        exact ⟨hl, hs, q, hr, hq, hff⟩
      · rintro ⟨hl, hs, q, hr, hq, hff⟩
        exact ⟨(q, w), ⟨(hW' q w).mpr ⟨hl, hs, hr⟩, (NFA.mem_F1T hv s q).mpr ⟨hq, hff⟩⟩, rfl⟩
    rw [mem_sunion, hnew]
    constructor
    · rintro ((h | ⟨hl, hs, hf⟩) | ⟨h1, h2, hs, hf⟩)
      · exact Or.inl h
      · exact Or.inr ⟨by omega, by omega, hs, hf⟩
      · exact Or.inr ⟨by omega, by omega, hs, hf⟩
    · rintro (h | ⟨h1, h2, hs, hf⟩)
      · exact Or.inl (Or.inl h)
      · by_cases hl : w.length = i + 1
        · exact Or.inl (Or.inr ⟨hl, hs, hf⟩)
        · exact Or.inr ⟨by omega, by omega, hs, hf⟩

theorem NFA.wordsUpTo_spec {N : NFA σ τ} (hv : N.valid = true) (s : Sched) (n : Nat) :
    ∃ L, N.wordsUpTo s n = .ok L ∧
      ∀ w, w ∈ L ↔ w.length ≤ n ∧ (∀ a, a ∈ w → a ∈ N.Sigma) ∧ N.Accepts w := by
  obtain ⟨L, hL, hm⟩ := NFA.wordsLoop_spec hv s n 0 _
    (if N.q0 ∈ N.F1T s then [[]] else []) (NFA.Front_zero hv s)
  refine ⟨L, ?_, ?_⟩
  · unfold NFA.wordsUpTo
    rw [NFA.F1_eq_ok hv, NFA.closure_eq_ok hv]
    exact hL
  · intro w
    rw [hm w]
    have h0 : w ∈ (if N.q0 ∈ N.F1T s then [[]] else ([] : List (List τ))) ↔
        w = [] ∧ N.Accepts [] := by
      have hacc : N.q0 ∈ N.F1T s ↔ N.Accepts [] := by
        rw [NFA.mem_F1T hv]
        constructor
        · rintro ⟨_, f, hf, hr⟩; exact ⟨f, hf, hr⟩
        · rintro ⟨f, hf, hr⟩; exact ⟨NFA.valid_q0 hv, f, hf, hr⟩
      split <;> simp_all
    rw [h0]
    constructor
    · rintro (⟨rfl, hf⟩ | ⟨_, h2, hs, hf⟩)
      · exact ⟨by simp, by simp, hf⟩
      · exact ⟨by omega, hs, hf⟩
    · rintro ⟨hl, hs, hf⟩
      by_cases hw : w = []
      · subst hw; exact Or.inl ⟨rfl, hf⟩
      · have : 0 < w.length := List.length_pos_iff.mpr hw
        exact Or.inr ⟨this, by omega, hs, hf⟩

end
end Gamba
