/-
  Gamba.Proofs.C12b — helper lemmas for the soundness of the exercise checkers
  (`Gamba.Check.hasDerivation`, `derivationCheck`, `chomskyCheck`, `cykCheck`, `nfaToDfaCheck`).
-/
import Gamba.Model.Check
import Gamba.Spec.Automata
import Gamba.Spec.CFG
import Gamba.Spec.Trace
import Gamba.Proofs.CFGBasic
import Gamba.Proofs.Search
import Gamba.Proofs.C01
import Gamba.Props.C01
import Gamba.Props.C07
import Gamba.Props.C14c
namespace Gamba
namespace C12b

/-! ### small list facts -/

theorem mem_take_one {α : Type} {l : List α} {x : α} : x ∈ l.take 1 ↔ l.head? = some x := by
  cases l with
  | nil => simp
  | cons y l => simp [eq_comm]

theorem mem_reverse_take_one {α : Type} {l : List α} {x : α} : x ∈ l.reverse.take 1 ↔ l.getLast? = some x := by
  rw [mem_take_one, List.head?_reverse]

/-- the positions `< n` satisfying `p`, in increasing order -/
def positions (p : Nat → Bool) (n : Nat) : List Nat := (List.range n).filter p

theorem mem_positions {p : Nat → Bool} {n i : Nat} : i ∈ positions p n ↔ i < n ∧ p i = true := by
  simp [positions]

theorem positions_sorted (p : Nat → Bool) (n : Nat) : (positions p n).Pairwise (· < ·) :=
  List.Pairwise.filter _ List.pairwise_lt_range

theorem positions_head {p : Nat → Bool} {n pos : Nat} (h : (positions p n).head? = some pos) :
    pos < n ∧ p pos = true ∧ ∀ j, j < n → p j = true → pos ≤ j := by
  have hs := positions_sorted p n
  cases hl : positions p n with
  | nil => rw [hl] at h; cases h
  | cons x rest =>
    rw [hl] at h hs
    simp only [List.head?_cons, Option.some.injEq] at h
    subst h
    have hm : x ∈ positions p n := by rw [hl]; exact List.mem_cons_self ..
    obtain ⟨h1, h2⟩ := mem_positions.mp hm
    refine ⟨h1, h2, fun j hj hp => ?_⟩
    have hj' : j ∈ positions p n := mem_positions.mpr ⟨hj, hp⟩
    rw [hl] at hj'
    rcases List.mem_cons.mp hj' with rfl | hj'
    · exact Nat.le_refl _
    · exact Nat.le_of_lt ((List.pairwise_cons.mp hs).1 j hj')

theorem positions_last {p : Nat → Bool} {n pos : Nat} (h : (positions p n).getLast? = some pos) :
    pos < n ∧ p pos = true ∧ ∀ j, j < n → p j = true → j ≤ pos := by
  have hs := positions_sorted p n
  obtain ⟨init, hl⟩ := List.getLast?_eq_some_iff.mp h
  rw [hl] at hs
  have hm : pos ∈ positions p n := by rw [hl]; simp
  obtain ⟨h1, h2⟩ := mem_positions.mp hm
  refine ⟨h1, h2, fun j hj hp => ?_⟩
  have hj' : j ∈ positions p n := mem_positions.mpr ⟨hj, hp⟩
  rw [hl] at hj'
  rcases List.mem_append.mp hj' with hj' | hj'
  · have := (List.pairwise_append.mp hs).2.2 j hj' pos (by simp)
    exact Nat.le_of_lt this
  · simp only [List.mem_singleton] at hj'
    subst hj'
    exact Nat.le_refl _

/-! ### `hasDerivation` -/

theorem first_var {pre post : List Sym} {x : Sym}
    (hh : ((pre ++ x :: post).filter Sym.isVar).head? = some x) (hn : x ∉ pre) :
    ∀ y, y ∈ pre → y.isVar = false := by
  induction pre with
  | nil => intro y hy; cases hy
  | cons z pre ih =>
    have hz : z.isVar = false := by
      cases hzv : z.isVar with
      | false => rfl
      | true =>
        rw [List.cons_append, List.filter_cons_of_pos hzv, List.head?_cons] at hh
        injection hh with hh
        exact absurd (hh ▸ List.mem_cons_self ..) hn
    rw [List.cons_append, List.filter_cons_of_neg (by simp [hz])] at hh
    intro y hy
    rcases List.mem_cons.mp hy with rfl | hy
    · exact hz
    · exact ih hh (fun h => hn (List.mem_cons_of_mem _ h)) y hy

theorem last_var {pre post : List Sym} {x : Sym}
    (hh : ((pre ++ x :: post).filter Sym.isVar).getLast? = some x) (hn : x ∉ post) :
    ∀ y, y ∈ post → y.isVar = false := by
  have h1 : ((post.reverse ++ x :: pre.reverse).filter Sym.isVar).head? = some x := by
    have : post.reverse ++ x :: pre.reverse = (pre ++ x :: post).reverse := by simp
    rw [this, List.filter_reverse, List.head?_reverse]
    exact hh
  intro y hy
  exact first_var h1 (fun h => hn (List.mem_reverse.mp h)) y (List.mem_reverse.mpr hy)

theorem split_at {α : Type} {l : List α} {pos : Nat} {x : α} (h : l[pos]? = some x) :
    l = l.take pos ++ x :: l.drop (pos + 1) := by
  obtain ⟨hlt, hx⟩ := List.getElem?_eq_some_iff.mp h
  rw [← hx, ← List.drop_eq_getElem_cons hlt, List.take_append_drop]

theorem mem_take_getElem? {α : Type} {l : List α} {pos : Nat} {y : α} (h : y ∈ l.take pos) :
    ∃ j, j < pos ∧ j < l.length ∧ l[j]? = some y := by
  obtain ⟨j, hj⟩ := List.mem_iff_getElem?.mp h
  rw [List.getElem?_take] at hj
  split at hj
  · rename_i hlt
    refine ⟨j, hlt, ?_, hj⟩
    exact (List.getElem?_eq_some_iff.mp hj).1
  · cases hj

theorem mem_drop_getElem? {α : Type} {l : List α} {pos : Nat} {y : α} (h : y ∈ l.drop pos) :
    ∃ j, pos ≤ j ∧ j < l.length ∧ l[j]? = some y := by
  obtain ⟨j, hj⟩ := List.mem_iff_getElem?.mp h
  rw [List.getElem?_drop] at hj
  exact ⟨pos + j, Nat.le_add_right _ _, (List.getElem?_eq_some_iff.mp hj).1, hj⟩

theorem hasDerivation_sound (G : CFG) (e1 e2 : List Sym) (kind : Nat)
    (h : Check.hasDerivation G e1 e2 kind = true) :
    (kind = 1 → G.LStep e1 e2) ∧ (kind = 2 → G.RStep e1 e2) ∧ G.Step e1 e2 := by
  unfold Check.hasDerivation at h
  simp only [List.any_eq_true, Bool.and_eq_true, decide_eq_true_eq] at h
  obtain ⟨r, hr, hall, pos, hpos, heq⟩ := h
  have hrule : G.HasRule r.lhs r.rhs := ⟨r, hr, rfl, rfl⟩
  let p : Nat → Bool := fun i => e1[i]? == some (Sym.v r.lhs)
  have hp : ∀ i, p i = true ↔ e1[i]? = some (Sym.v r.lhs) := fun i => by simp [p]
  change pos ∈ (match kind with
    | 1 => (positions p e1.length).take 1
    | 2 => (positions p e1.length).reverse.take 1
    | _ => positions p e1.length) at hpos
  -- in every case `pos` is one of the positions
  have hmem : pos ∈ positions p e1.length := by
    rcases kind with _ | _ | _ | k
    · exact hpos
    · exact List.mem_of_mem_take hpos
    · exact List.mem_reverse.mp (List.mem_of_mem_take hpos)
    · exact hpos
  have hget : e1[pos]? = some (Sym.v r.lhs) := (hp pos).mp (mem_positions.mp hmem).2
  have hsplit := split_at hget
  have hstep : G.Step e1 e2 := by
    rw [← heq]
    conv => lhs; rw [hsplit]
    exact .mk hrule
  refine ⟨?_, ?_, hstep⟩
  · rintro rfl
    simp only at hpos hall
    obtain ⟨_, _, hfirst⟩ := positions_head (mem_take_one.mp hpos)
    have hall' := mem_take_one.mp hall
    rw [← heq]
    conv => lhs; rw [hsplit]
    refine .mk hrule ?_
    conv at hall' => lhs; rw [hsplit]
    refine first_var hall' ?_
    intro hin
    obtain ⟨j, hj, hjl, hje⟩ := mem_take_getElem? hin
    have := hfirst j hjl ((hp j).mpr hje)
    omega
  · rintro rfl
    simp only at hpos hall
    obtain ⟨_, _, hlast⟩ := positions_last (mem_reverse_take_one.mp hpos)
    have hall' := mem_reverse_take_one.mp hall
    rw [← heq]
    conv => lhs; rw [hsplit]
    refine .mk hrule ?_
    conv at hall' => lhs; rw [hsplit]
    refine last_var hall' ?_
    intro hin
    obtain ⟨j, hj, hjl, hje⟩ := mem_drop_getElem? hin
    have := hlast j hjl ((hp j).mpr hje)
    omega

/-! ### derivations -/

theorem chain_of_zip_tail {α : Type} {R : α → α → Prop} (l : List α)
    (h : ∀ p, p ∈ l.zip l.tail → R p.1 p.2) : ChainOf R l := by
  induction l with
  | nil => exact .nil
  | cons a l ih =>
    cases l with
    | nil => exact .single a
    | cons b l =>
      refine .cons (h (a, b) (by simp)) (ih ?_)
      intro p hp
      apply h
      simp only [List.tail_cons] at hp ⊢
      rw [List.zip_cons_cons]
      exact List.mem_cons_of_mem _ hp

/-- a derivation step preserves generation, backwards -/
theorem gen_of_step {G : CFG} {a b : List Sym} {w : List String} (hs : G.Step a b) (hb : G.Gen b w) :
    G.Gen a w := by
  cases hs with
  | @mk A rhs pre post hr =>
    rw [List.append_assoc] at hb
    obtain ⟨w1, w2, rfl, g1, g2⟩ := CFG.gen_split hb
    obtain ⟨w3, w4, rfl, g3, g4⟩ := CFG.gen_split g2
    exact CFG.gen_append g1 (.v hr g3 g4)

theorem gen_of_chain {G : CFG} {w : List String} {l : List (List Sym)} (hc : ChainOf G.Step l) :
    ∀ a b, l.head? = some a → l.getLast? = some b → G.Gen b w → G.Gen a w := by
  induction hc with
  | nil => intro a b h; cases h
  | single x =>
    intro a b h1 h2 hg
    simp only [List.head?_cons, Option.some.injEq] at h1
    simp only [List.getLast?_singleton, Option.some.injEq] at h2
    subst h1 h2; exact hg
  | @cons x y l hr _ ih =>
    intro a b h1 h2 hg
    simp only [List.head?_cons, Option.some.injEq] at h1
    subst h1
    rw [List.getLast?_cons_cons] at h2
    exact gen_of_step hr (ih y b rfl h2 hg)

theorem ChainOf.imp {α : Type} {R R' : α → α → Prop} {l : List α} (h : ChainOf R l)
    (hi : ∀ a b, R a b → R' a b) : ChainOf R' l := by
  induction h with
  | nil => exact .nil
  | single a => exact .single a
  | cons hr _ ih => exact .cons (hi _ _ hr) ih

theorem derivationCheck_sound (G : CFG) (derivation : String) (word : List String) (kind : Nat)
    (h : Check.derivationCheck G derivation word kind = true) :
    let forms := ((Text.splitArrow (Text.strip derivation.toList)).map Text.strip).map
      (fun w => w.map Check.parseChar)
    forms.head? = some [.v G.S] ∧ forms.getLast? = some (word.map Sym.t) ∧
    ChainOf (fun a b => (kind = 1 → G.LStep a b) ∧ (kind = 2 → G.RStep a b) ∧ G.Step a b) forms ∧
    G.Lang word := by
  intro forms
  unfold Check.derivationCheck at h
  simp only [Bool.and_eq_true] at h
  obtain ⟨⟨⟨_, hfirst⟩, hsteps⟩, hlast⟩ := h
  change (match forms with | first :: _ => decide (first = [Sym.v G.S]) | [] => false) = true at hfirst
  change (forms.zip forms.tail).all (fun x => Check.hasDerivation G x.1 x.2 kind) = true at hsteps
  change (match forms.getLast? with | some last => decide (last = word.map Sym.t) | none => false) = true at hlast
  have h1 : forms.head? = some [.v G.S] := by
    cases hf : forms with
    | nil => rw [hf] at hfirst; cases hfirst
    | cons a l => rw [hf] at hfirst; simp only [decide_eq_true_eq] at hfirst; rw [hfirst]; rfl
  have h2 : forms.getLast? = some (word.map Sym.t) := by
    cases hf : forms.getLast? with
    | none => rw [hf] at hlast; cases hlast
    | some a => rw [hf] at hlast; simp only [decide_eq_true_eq] at hlast; rw [hlast]
  have h3 : ChainOf (fun a b => (kind = 1 → G.LStep a b) ∧ (kind = 2 → G.RStep a b) ∧ G.Step a b) forms := by
    apply chain_of_zip_tail
    intro p hp
    rw [List.all_eq_true] at hsteps
    exact hasDerivation_sound G p.1 p.2 kind (hsteps p hp)
  refine ⟨h1, h2, h3, ?_⟩
  exact gen_of_chain (ChainOf.imp h3 (fun _ _ h => h.2.2)) _ _ h1 h2 (CFG.gen_map_t word)

/-! ### Chomsky phases -/

theorem chomskyCheck_sound (G G1 : CFG) (phase : Nat) (start : String) (len : Nat)
    (h : Check.chomskyCheck G G1 phase start len = true) :
    (compareLanguages (G1.wordsUpTo len) (G.wordsUpTo len) = none) ∧
    (1 ≤ phase → G1.S = start) ∧ (2 ≤ phase → CFG.NoEpsExceptStart G1) ∧ (3 ≤ phase → CFG.NoUnit G1) ∧
    (4 ≤ phase → CFG.RhsLe2 G1) ∧ (5 ≤ phase → CFG.AllCnfShaped G1) := by
  unfold Check.chomskyCheck at h
  simp only [Bool.and_eq_true, Bool.or_eq_true, decide_eq_true_eq, List.all_eq_true,
    Option.isNone_iff_eq_none, Bool.not_eq_true', Bool.and_eq_false_imp, List.isEmpty_iff,
    decide_eq_false_iff_not, Decidable.not_not] at h
  obtain ⟨⟨⟨⟨⟨hL, hS⟩, hE⟩, hU⟩, hLen⟩, hC⟩ := h
  refine ⟨hL, ?_, ?_, ?_, ?_, ?_⟩
  · intro hp; rcases hS with h | h
    · omega
    · exact h
  · intro hp; rcases hE with h | h
    · omega
    · exact fun r hr he => h r hr he
  · intro hp; rcases hU with h | h
    · omega
    · exact fun r hr => h r hr
  · intro hp; rcases hLen with h | h
    · omega
    · exact fun r hr => h r hr
  · intro hp; rcases hC with h | h
    · omega
    · exact fun r hr => h r hr

/-! ### CYK table -/

theorem cyk_core (Y : CFG.CykTable) (n : Nat) (lines : List (List (List Char)))
    (hrows : lines.length = n)
    (hsizes : ∀ p, p ∈ lines.zipIdx → p.1.length = p.2 + 1)
    (hcells : ∀ x, x ∈ (lines.map (fun ws => ws.map Check.parseCell)).reverse.zipIdx →
      ∀ y, y ∈ x.1.zipIdx →
        (match y.1 with
          | some vs => seq vs (CFG.cykGet Y y.2 (x.2 + y.2))
          | none => false) = true) :
    ∀ i j, i + j < n → ∃ row cell vs, lines.reverse[i]? = some row ∧ row.length = n - i ∧
      row[j]? = some cell ∧ Check.parseCell cell = some vs ∧
      ∀ A, A ∈ vs ↔ A ∈ CFG.cykGet Y j (i + j) := by
  intro i j hij
  have hi : i < lines.length := by omega
  have hk : lines.length - 1 - i < lines.length := by omega
  have hrow : lines.reverse[i]? = some lines[lines.length - 1 - i] := by
    rw [List.getElem?_reverse hi, List.getElem?_eq_getElem hk]
  have hlen : (lines[lines.length - 1 - i]).length = n - i := by
    have := hsizes (lines[lines.length - 1 - i], lines.length - 1 - i)
      (List.mem_zipIdx_iff_getElem?.mpr (List.getElem?_eq_getElem hk))
    simp only at this
    omega
  have hj : j < (lines[lines.length - 1 - i]).length := by omega
  have hcell : (lines[lines.length - 1 - i])[j]? = some (lines[lines.length - 1 - i])[j] :=
    List.getElem?_eq_getElem hj
  have hx : ((lines[lines.length - 1 - i]).map Check.parseCell, i) ∈
      (lines.map (fun ws => ws.map Check.parseCell)).reverse.zipIdx := by
    rw [List.mem_zipIdx_iff_getElem?, ← List.map_reverse, List.getElem?_map, hrow]
    rfl
  have hy : (Check.parseCell (lines[lines.length - 1 - i])[j], j) ∈
      ((lines[lines.length - 1 - i]).map Check.parseCell).zipIdx := by
    rw [List.mem_zipIdx_iff_getElem?, List.getElem?_map, hcell]
    rfl
  have hc := hcells _ hx _ hy
  simp only at hc
  cases hp : Check.parseCell (lines[lines.length - 1 - i])[j] with
  | none => rw [hp] at hc; cases hc
  | some vs =>
    rw [hp] at hc
    exact ⟨_, _, vs, hrow, hlen, hcell, hp, seq_iff.mp hc⟩

theorem cykCheck_sound (G : CFG) (hc : G.isChomsky = true) (hv : G.valid = true) (word : List String)
    (answer : String) (h : Check.cykCheck G word answer = .ok true) :
    let rows := ((Text.splitOn '\n' (Text.strip answer.toList)).map Check.splitWs).reverse
    rows.length = word.length ∧
    ∀ i j, i + j < word.length → ∃ row cell vs, rows[i]? = some row ∧ row.length = word.length - i ∧
      row[j]? = some cell ∧ Check.parseCell cell = some vs ∧
      ∀ A, A ∈ vs ↔ (A ∈ G.V ∧ G.Gen [.v A] ((word.drop j).take (i + 1))) := by
  intro rows
  obtain ⟨Y, hY⟩ := cyk_total G hc word
  unfold Check.cykCheck at h
  rw [hY] at h
  simp only [bind, Except.bind, pure, Except.pure] at h
  split at h
  · cases h
  · rename_i hcond
    simp only [Bool.not_eq_true, Bool.not_eq_false', Bool.and_eq_true, decide_eq_true_eq,
      List.all_eq_true, beq_iff_eq] at hcond
    obtain ⟨⟨_, hrows⟩, hsizes⟩ := hcond
    injection h with h
    simp only [List.all_eq_true] at h
    have hcore := cyk_core Y word.length _ hrows hsizes h
    refine ⟨by simpa [rows] using hrows, ?_⟩
    intro i j hij
    obtain ⟨row, cell, vs, h1, h2, h3, h4, h5⟩ := hcore i j hij
    refine ⟨row, cell, vs, h1, h2, h3, h4, fun A => ?_⟩
    rw [h5 A, cyk_cell_exact_of_valid G hc hv word Y hY j (i + j) (by omega) (by omega) A,
      Nat.add_sub_cancel]

/-! ### NFA → DFA answer -/

theorem allM_ok_true {α : Type} {f : α → Except Err Bool} (l : List α) (h : l.allM f = .ok true) :
    ∀ x, x ∈ l → f x = .ok true := by
  induction l with
  | nil => intro x hx; cases hx
  | cons a l ih =>
    simp only [List.allM, bind, Except.bind] at h
    cases hfa : f a with
    | error e => rw [hfa] at h; cases h
    | ok b =>
      rw [hfa] at h
      cases b with
      | false => simp only [pure, Except.pure] at h; cases h
      | true =>
        simp only at h
        intro x hx
        rcases List.mem_cons.mp hx with rfl | hx
        · exact hfa
        · exact ih h x hx

theorem epsReach_iff_single {σ τ : Type} [DecidableEq σ] [DecidableEq τ] (N : NFA σ τ) (S : List σ) (x : σ) :
    N.EpsReach S x ↔ ∃ y, y ∈ S ∧ N.EpsReach [y] x := by
  constructor
  · intro h
    induction h with
    | base hq => exact ⟨_, hq, .base (List.mem_singleton.mpr rfl)⟩
    | step _ hs ih =>
      obtain ⟨y, hy, hr⟩ := ih
      exact ⟨y, hy, .step hr hs⟩
  · rintro ⟨y, hy, h⟩
    induction h with
    | base hq => rw [List.mem_singleton.mp hq]; exact .base hy
    | step _ hs ih => exact .step ih hs

theorem mem_moveSet {σ τ : Type} [DecidableEq σ] [DecidableEq τ] (N : NFA σ τ) (S : List σ) (a : τ) (y : σ) :
    y ∈ N.moveSet S a ↔ ∃ p, p ∈ S ∧ N.Succ p a y := by
  simp only [NFA.moveSet, mem_sunions, List.mem_map]
  constructor
  · rintro ⟨l, ⟨p, hp, rfl⟩, hy⟩; exact ⟨p, hp, (N.mem_succ_iff p a y).mp hy⟩
  · rintro ⟨p, hp, hs⟩; exact ⟨_, ⟨p, hp, rfl⟩, (N.mem_succ_iff p a y).mpr hs⟩

theorem length_one {α : Type} {l : List α} (h : l.length = 1) : ∃ x, l = [x] := by
  match l, h with
  | [x], _ => exact ⟨x, rfl⟩

theorem nfaToDfaCheck_sound (N answer : NFA String String) (s : Sched)
    (h : Check.nfaToDfaCheck N answer s = .ok true) :
    answer.Q ≠ [] ∧ (∀ a, a ∈ answer.Sigma ↔ a ∈ N.Sigma) ∧
    (∀ q, q ∈ answer.Q → ∀ x, x ∈ Check.extractSet q → x ∈ N.Q) ∧
    (∀ x, x ∈ Check.extractSet answer.q0 ↔ N.EpsReach [N.q0] x) ∧
    (∀ q, q ∈ answer.Q → (q ∈ answer.F ↔ ∃ x, x ∈ Check.extractSet q ∧ x ∈ N.F)) ∧
    (∀ q a, q ∈ answer.Q → a ∈ answer.Sigma → ∃ q1, (∀ t, t ∈ answer.succ q a ↔ t = q1) ∧
        ∀ x, x ∈ Check.extractSet q1 ↔
          ∃ p y, p ∈ Check.extractSet q ∧ N.Succ p a y ∧ N.EpsReach [y] x) ∧
    (∀ e, e ∈ answer.delta → e.1.2 = answer.eps → e.2 = []) := by
  unfold Check.nfaToDfaCheck at h
  cases hC0 : N.closure s [N.q0] with
  | error e => rw [hC0] at h; cases h
  | ok C0 =>
    rw [hC0] at h
    simp only [bind, Except.bind, pure, Except.pure] at h
    split at h
    · cases h
    · rename_i b hb
      injection h with h
      simp only [Bool.and_eq_true] at h
      obtain ⟨⟨⟨⟨⟨⟨⟨hne, hsig⟩, hlab⟩, hinit⟩, hfin⟩, hbt⟩, hnoeps⟩, htot⟩ := h
      subst hbt
      have htargets := allM_ok_true _ hb
      refine ⟨?_, ?_, ?_, ?_, ?_, ?_, ?_⟩
      · intro h0; rw [h0] at hne; cases hne
      · intro a; exact ((seq_iff.mp hsig) a).symm
      · intro q hq
        rw [List.all_eq_true] at hlab
        have := hlab q hq
        rw [Bool.and_eq_true] at this
        exact ssubset_iff.mp this.2
      · intro x
        rw [seq_iff.mp hinit x]
        exact epsClosure_exact N _ s [N.q0] C0 hC0 x
      · intro q hq
        rw [List.all_eq_true] at hfin
        have := hfin q hq
        rw [beq_iff_eq] at this
        by_cases hF : q ∈ answer.F
        · simp only [hF, decide_true] at this
          have hd : sdisjoint (Check.extractSet q) N.F = false := by
            cases hh : sdisjoint (Check.extractSet q) N.F with
            | false => rfl
            | true => rw [hh] at this; cases this
          exact ⟨fun _ => sdisjoint_false_iff.mp hd, fun _ => hF⟩
        · simp only [hF, decide_false] at this
          have hd : sdisjoint (Check.extractSet q) N.F = true := by
            cases hh : sdisjoint (Check.extractSet q) N.F with
            | true => rfl
            | false => rw [hh] at this; cases this
          refine ⟨fun h => absurd h hF, ?_⟩
          rintro ⟨x, hx1, hx2⟩
          exact absurd hx2 (sdisjoint_iff.mp hd x hx1)
      · intro q a hq ha
        have hmem : (q, a) ∈ List.flatMap (fun q => List.map (fun a => (q, a)) answer.Sigma) answer.Q := by
          simp only [List.mem_flatMap, List.mem_map]
          exact ⟨q, hq, a, ha, rfl⟩
        rw [List.all_eq_true] at htot
        have h1 := htot _ hmem
        simp only [beq_iff_eq] at h1
        obtain ⟨q1, hq1⟩ := length_one h1
        have h2 := htargets _ hmem
        simp only [hq1] at h2
        refine ⟨q1, ?_, ?_⟩
        · intro t
          rw [← mem_dedup (l := answer.succ q a), hq1, List.mem_singleton]
        · cases hC : N.closure s (N.moveSet (Check.extractSet q) a) with
          | error e => rw [hC] at h2; cases h2
          | ok C =>
            rw [hC] at h2
            injection h2 with h2
            intro x
            rw [seq_iff.mp h2 x, epsClosure_exact N _ s _ C hC x, epsReach_iff_single]
            constructor
            · rintro ⟨y, hy, hr⟩
              obtain ⟨p, hp, hs⟩ := (mem_moveSet N _ a y).mp hy
              exact ⟨p, y, hp, hs, hr⟩
            · rintro ⟨p, y, hp, hs, hr⟩
              exact ⟨y, (mem_moveSet N _ a y).mpr ⟨p, hp, hs⟩, hr⟩
      · intro e he heps
        rw [List.all_eq_true] at hnoeps
        have := hnoeps e he
        simp only [heps, decide_true, Bool.true_and, Bool.not_not, List.isEmpty_iff] at this
        exact this

/-! ### example objects for the non-vacuity checks of `Gamba.Props.C12b` -/

/-- A --x--> B, A --ε--> B -/
def exN : NFA String String where
  Q := ["A", "B"]
  Sigma := ["x"]
  delta := [(("A", "x"), ["B"]), (("A", "ε"), ["B"])]
  q0 := "A"
  F := ["B"]
  eps := "ε"

/-- the subset construction of `exN`, as a student would write it -/
def exAnswer : NFA String String where
  Q := ["{A,B}", "{B}", "{}"]
  Sigma := ["x"]
  delta := [(("{A,B}", "x"), ["{B}"]), (("{B}", "x"), ["{}"]), (("{}", "x"), ["{}"])]
  q0 := "{A,B}"
  F := ["{A,B}", "{B}"]
  eps := "ε"

/-- the same with an extra ε-edge (rejected by the repaired checker) -/
def exAnswerEps : NFA String String :=
  { exAnswer with delta := exAnswer.delta ++ [(("{B}", "ε"), ["{}"])] }

/-- wrong target for `{B}` on `x` -/
def exAnswerWrong : NFA String String :=
  { exAnswer with delta := [(("{A,B}", "x"), ["{B}"]), (("{B}", "x"), ["{B}"]), (("{}", "x"), ["{}"])] }

/-- S → aSb | ε | T, T → c (not in CNF) -/
def exG : CFG where
  V := ["S", "T"]
  Sigma := ["a", "b", "c"]
  S := "S"
  R := [⟨"S", 0, [.t "a", .v "S", .t "b"]⟩, ⟨"S", 1, []⟩, ⟨"S", 2, [.v "T"]⟩, ⟨"T", 3, [.t "c"]⟩]

/-- S → XB | a, X → a, B → b: a CNF grammar equivalent to `C07.exG` -/
def exCnf : CFG where
  V := ["S", "X", "B"]
  Sigma := ["a", "b"]
  S := "S"
  R := [⟨"S", 0, [.v "X", .v "B"]⟩, ⟨"S", 1, [.t "a"]⟩, ⟨"X", 2, [.t "a"]⟩, ⟨"B", 3, [.t "b"]⟩]

/-- the same without S → a: the word `a` is missing -/
def exCnfMissing : CFG where
  V := ["S", "X", "B"]
  Sigma := ["a", "b"]
  S := "S"
  R := [⟨"S", 0, [.v "X", .v "B"]⟩, ⟨"X", 2, [.t "a"]⟩, ⟨"B", 3, [.t "b"]⟩]

end C12b
end Gamba
