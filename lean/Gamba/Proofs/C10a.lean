/-
  Gamba.Proofs.C10a — helper lemmas for property C10 (part a): the PDA normal-form constructions
  (`PDA.toOneAccepting`, `PDA.toAcceptOnEmptyStack`, `SPDA.toPushPopS`) preserve the language.
-/
import Gamba.Model.PDA
import Gamba.Spec.PDA
import Gamba.Proofs.C09
import Gamba.Proofs.C02pda
import Gamba.Proofs.C18
namespace Gamba
namespace C10a

section
variable {σ τ γ : Type} [DecidableEq σ] [DecidableEq τ] [DecidableEq γ]

/-! ### generic -/

theorem foldl_inv {α β : Type} (I : β → Prop) (f : β → α → β) (l : List α) (b0 : β)
    (h : ∀ b a, a ∈ l → I b → I (f b a)) (h0 : I b0) : I (l.foldl f b0) := by
  induction l generalizing b0 with
  | nil => exact h0
  | cons x l ih =>
    rw [List.foldl_cons]
    exact ih _ (fun b a ha => h b a (List.mem_cons_of_mem _ ha)) (h _ _ List.mem_cons_self h0)

/-! ### the transition relation of a δ dictionary -/

abbrev PDelta (σ τ γ : Type) := Dict (σ × τ × γ) (List (σ × γ))

/-- `t ∈ δ[k]` -/
def dT (d : PDelta σ τ γ) (k : σ × τ × γ) (t : σ × γ) : Prop := t ∈ (d.lookup k).getD []

theorem dT_addMove (d : PDelta σ τ γ) (k : σ × τ × γ) (t : σ × γ) (k' : σ × τ × γ) (t' : σ × γ) :
    dT (addMove d k t) k' t' ↔ dT d k' t' ∨ (k' = k ∧ t' = t) := by
  unfold dT addMove
  rw [lookup_set]
  by_cases h : k' = k
  · subst h; simp
  · simp [h]

theorem dT_foldAddMove {α : Type} (F : List α) (f : α → σ × τ × γ) (t : σ × γ) (d : PDelta σ τ γ)
    (k' : σ × τ × γ) (t' : σ × γ) :
    dT (F.foldl (fun d q => addMove d (f q) t) d) k' t' ↔
      dT d k' t' ∨ ((∃ q, q ∈ F ∧ k' = f q) ∧ t' = t) := by
  induction F generalizing d with
  | nil => simp
  | cons x F ih =>
    rw [List.foldl_cons, ih, dT_addMove]
    constructor
    · rintro ((h | ⟨h1, h2⟩) | ⟨⟨g, hg, h1⟩, h2⟩)
      · exact Or.inl h
      · exact Or.inr ⟨⟨x, List.mem_cons_self, h1⟩, h2⟩
      · exact Or.inr ⟨⟨g, List.mem_cons_of_mem _ hg, h1⟩, h2⟩
    · rintro (h | ⟨⟨g, hg, h1⟩, h2⟩)
      · exact Or.inl (Or.inl h)
      · rcases List.mem_cons.mp hg with rfl | hg
        · exact Or.inl (Or.inr ⟨h1, h2⟩)
        · exact Or.inr ⟨⟨g, hg, h1⟩, h2⟩

theorem dT_foldAddMoveIf {α : Type} (F : List α) (c : α → Prop) [DecidablePred c] (f : α → σ × τ × γ)
    (t : σ × γ) (d : PDelta σ τ γ) (k' : σ × τ × γ) (t' : σ × γ) :
    dT (F.foldl (fun d q => if c q then d else addMove d (f q) t) d) k' t' ↔
      dT d k' t' ∨ ((∃ q, q ∈ F ∧ ¬ c q ∧ k' = f q) ∧ t' = t) := by
  induction F generalizing d with
  | nil => simp
  | cons x F ih =>
    rw [List.foldl_cons, ih]
    by_cases hc : c x
    · rw [if_pos hc]
      constructor
      · rintro (h | ⟨⟨g, hg, h1⟩, h2⟩)
        · exact Or.inl h
        · exact Or.inr ⟨⟨g, List.mem_cons_of_mem _ hg, h1⟩, h2⟩
      · rintro (h | ⟨⟨g, hg, h0, h1⟩, h2⟩)
        · exact Or.inl h
        · rcases List.mem_cons.mp hg with rfl | hg
          · exact absurd hc h0
          · exact Or.inr ⟨⟨g, hg, h0, h1⟩, h2⟩
    · rw [if_neg hc, dT_addMove]
      constructor
      · rintro ((h | ⟨h1, h2⟩) | ⟨⟨g, hg, h1⟩, h2⟩)
        · exact Or.inl h
        · exact Or.inr ⟨⟨x, List.mem_cons_self, hc, h1⟩, h2⟩
        · exact Or.inr ⟨⟨g, List.mem_cons_of_mem _ hg, h1⟩, h2⟩
      · rintro (h | ⟨⟨g, hg, h0, h1⟩, h2⟩)
        · exact Or.inl (Or.inl h)
        · rcases List.mem_cons.mp hg with rfl | hg
          · exact Or.inl (Or.inr ⟨h1, h2⟩)
          · exact Or.inr ⟨⟨g, hg, h0, h1⟩, h2⟩

theorem nodup_keys_addMove {d : PDelta σ τ γ} (k : σ × τ × γ) (t : σ × γ) (h : (d.map (·.1)).Nodup) :
    ((addMove d k t).map (·.1)).Nodup :=
  nodup_keys_set _ _ h

/-- the "closed" conjunct of `PDA.valid` for one entry -/
def POK (Q : List σ) (S : List τ) (G : List γ) (eps : τ) (epsG : γ) (e : (σ × τ × γ) × List (σ × γ)) : Prop :=
  e.1.1 ∈ Q ∧ (e.1.2.1 ∈ S ∨ e.1.2.1 = eps) ∧ (e.1.2.2 ∈ G ∨ e.1.2.2 = epsG) ∧
    ∀ t, t ∈ e.2 → t.1 ∈ Q ∧ (t.2 ∈ G ∨ t.2 = epsG)

omit [DecidableEq σ] [DecidableEq τ] [DecidableEq γ] in
theorem POK.mono {Q Q' : List σ} {S : List τ} {G G' : List γ} {eps : τ} {epsG : γ}
    {e : (σ × τ × γ) × List (σ × γ)} (hQ : ∀ q, q ∈ Q → q ∈ Q') (hG : ∀ x, x ∈ G → x ∈ G')
    (h : POK Q S G eps epsG e) : POK Q' S G' eps epsG e :=
  ⟨hQ _ h.1, h.2.1, h.2.2.1.imp (hG _) id, fun t ht => ⟨hQ _ (h.2.2.2 t ht).1, (h.2.2.2 t ht).2.imp (hG _) id⟩⟩

theorem POK_addMove {Q : List σ} {S : List τ} {G : List γ} {eps : τ} {epsG : γ} {d : PDelta σ τ γ}
    (hd : ∀ e, e ∈ d → POK Q S G eps epsG e) {k : σ × τ × γ} {t : σ × γ}
    (hk : k.1 ∈ Q ∧ (k.2.1 ∈ S ∨ k.2.1 = eps) ∧ (k.2.2 ∈ G ∨ k.2.2 = epsG))
    (ht : t.1 ∈ Q ∧ (t.2 ∈ G ∨ t.2 = epsG)) :
    ∀ e, e ∈ addMove d k t → POK Q S G eps epsG e := by
  intro e he
  rcases mem_set he with rfl | he
  · refine ⟨hk.1, hk.2.1, hk.2.2, ?_⟩
    intro x hx
    simp only [mem_sinsert] at hx
    rcases hx with hx | rfl
    · cases hl : d.lookup k with
      | none => rw [hl] at hx; simp at hx
      | some T =>
        rw [hl] at hx
        exact (hd _ (mem_of_lookup_eq_some hl)).2.2.2 x hx
    · exact ht
  · exact hd e he

theorem PDA_valid_iff (P : PDA σ τ γ) :
    P.valid = true ↔ P.q0 ∈ P.Q ∧ P.eps ∉ P.Sigma ∧ P.epsG ∉ P.Gamma ∧ (∀ f, f ∈ P.F → f ∈ P.Q) ∧
      ∀ e, e ∈ P.delta → POK P.Q P.Sigma P.Gamma P.eps P.epsG e := by
  simp only [PDA.valid, Bool.and_eq_true, Bool.or_eq_true, decide_eq_true_eq, ssubset_iff, List.all_eq_true, POK]
  constructor
  · rintro ⟨⟨⟨⟨h1, h2⟩, h3⟩, h4⟩, h5⟩
    exact ⟨h1, h2, h3, h4, fun e he => ⟨(h5 e he).1.1.1, (h5 e he).1.1.2, (h5 e he).1.2, (h5 e he).2⟩⟩
  · rintro ⟨h1, h2, h3, h4, h5⟩
    exact ⟨⟨⟨⟨h1, h2⟩, h3⟩, h4⟩, fun e he => ⟨⟨⟨(h5 e he).1, (h5 e he).2.1⟩, (h5 e he).2.2.1⟩, (h5 e he).2.2.2⟩⟩

/-! ### transitions and moves -/

/-- `p --a,u→v--> q` is a transition of `P` -/
def Trans (P : PDA σ τ γ) (p : σ) (a : τ) (u : γ) (q : σ) (v : γ) : Prop := dT P.delta (p, a, u) (q, v)

theorem valid_Trans {P : PDA σ τ γ} (hv : P.valid = true) {p : σ} {a : τ} {u : γ} {q : σ} {v : γ}
    (h : Trans P p a u q v) :
    p ∈ P.Q ∧ (a ∈ P.Sigma ∨ a = P.eps) ∧ (u ∈ P.Gamma ∨ u = P.epsG) ∧ q ∈ P.Q ∧ (v ∈ P.Gamma ∨ v = P.epsG) := by
  unfold Trans dT at h
  cases hl : P.delta.lookup (p, a, u) with
  | none => rw [hl] at h; simp at h
  | some T =>
    rw [hl] at h
    have := ((PDA_valid_iff P).mp hv).2.2.2.2 _ (mem_of_lookup_eq_some hl)
    exact ⟨this.1, this.2.1, this.2.2.1, this.2.2.2 _ h⟩

theorem Move_iff {P : PDA σ τ γ} {a : τ} {c c' : PConf σ γ} :
    P.Move a c c' ↔ ∃ p u q v st, Trans P p a u q v ∧ c = (p, st ++ P.stk u) ∧ c' = (q, st ++ P.stk v) := by
  constructor
  · rintro ⟨hl, hm⟩
    exact ⟨_, _, _, _, _, by simp [Trans, dT, hl, hm], rfl, rfl⟩
  · rintro ⟨p, u, q, v, st, ht, rfl, rfl⟩
    unfold Trans dT at ht
    cases hl : P.delta.lookup (p, a, u) with
    | none => rw [hl] at ht; simp at ht
    | some T => rw [hl] at ht; exact PDA.Move.mk hl ht

omit [DecidableEq σ] [DecidableEq τ] in
theorem stk_congr {P P' : PDA σ τ γ} (hG : P'.epsG = P.epsG) (x : γ) : P'.stk x = P.stk x := by
  unfold PDA.stk; rw [hG]

omit [DecidableEq σ] [DecidableEq τ] in
theorem stk_epsG (P : PDA σ τ γ) : P.stk P.epsG = [] := by simp [PDA.stk]

omit [DecidableEq σ] [DecidableEq τ] in
theorem stk_ne {P : PDA σ τ γ} {x : γ} (h : x ≠ P.epsG) : P.stk x = [x] := by simp [PDA.stk, h]

/-- the moves of a PDA whose transitions are those of `P` plus the transitions `X` -/
theorem Move_congr {P P' : PDA σ τ γ} (hG : P'.epsG = P.epsG) (X : σ → τ → γ → σ → γ → Prop)
    (hT : ∀ p a u q v, Trans P' p a u q v ↔ Trans P p a u q v ∨ X p a u q v) {a : τ} {c c' : PConf σ γ} :
    P'.Move a c c' ↔ P.Move a c c' ∨
      ∃ p u q v st, X p a u q v ∧ c = (p, st ++ P.stk u) ∧ c' = (q, st ++ P.stk v) := by
  rw [Move_iff, Move_iff]
  simp only [stk_congr hG, hT]
  constructor
  · rintro ⟨p, u, q, v, st, h | h, h1, h2⟩
    · exact Or.inl ⟨p, u, q, v, st, h, h1, h2⟩
    · exact Or.inr ⟨p, u, q, v, st, h, h1, h2⟩
  · rintro (⟨p, u, q, v, st, h, h1, h2⟩ | ⟨p, u, q, v, st, h, h1, h2⟩)
    · exact ⟨p, u, q, v, st, Or.inl h, h1, h2⟩
    · exact ⟨p, u, q, v, st, Or.inr h, h1, h2⟩

theorem valid_Move {P : PDA σ τ γ} (hv : P.valid = true) {a : τ} {c c' : PConf σ γ} (h : P.Move a c c') :
    c.1 ∈ P.Q ∧ c'.1 ∈ P.Q := by
  obtain ⟨p, u, q, v, st, ht, rfl, rfl⟩ := Move_iff.mp h
  have := valid_Trans hv ht
  exact ⟨this.1, this.2.2.2.1⟩

theorem Run_mono {P P' : PDA σ τ γ} (he : P'.eps = P.eps)
    (hm : ∀ a c c', P.Move a c c' → P'.Move a c c') {c c' : PConf σ γ} {w : List τ}
    (h : P.Run c w c') : P'.Run c w c' := by
  induction h with
  | nil c => exact .nil c
  | eps hmv _ ih => exact .eps (by rw [he]; exact hm _ _ _ hmv) ih
  | sym ha hmv _ ih => exact .sym (by rw [he]; exact ha) (hm _ _ _ hmv) ih

theorem Move_frame {P : PDA σ τ γ} (pre : List γ) {a : τ} {c c' : PConf σ γ} (h : P.Move a c c') :
    P.Move a (c.1, pre ++ c.2) (c'.1, pre ++ c'.2) := by
  obtain ⟨p, u, q, v, st, ht, rfl, rfl⟩ := Move_iff.mp h
  exact Move_iff.mpr ⟨p, u, q, v, pre ++ st, ht, by simp, by simp⟩

theorem Run_frame {P : PDA σ τ γ} (pre : List γ) {c c' : PConf σ γ} {w : List τ} (h : P.Run c w c') :
    P.Run (c.1, pre ++ c.2) w (c'.1, pre ++ c'.2) := by
  induction h with
  | nil c => exact .nil _
  | eps hmv _ ih => exact .eps (Move_frame pre hmv) ih
  | sym ha hmv _ ih => exact .sym ha (Move_frame pre hmv) ih

/-- no transition leaves `p`: a run from `p` is empty -/
theorem Run_stuck {P : PDA σ τ γ} {p : σ} (h : ∀ a u q v, ¬ Trans P p a u q v) {st : List γ} {w : List τ}
    {c' : PConf σ γ} (hr : P.Run (p, st) w c') : w = [] ∧ c' = (p, st) := by
  cases hr with
  | nil => exact ⟨rfl, rfl⟩
  | eps hm _ =>
    obtain ⟨p', u, q, v, st', ht, he, _⟩ := Move_iff.mp hm
    cases he
    exact absurd ht (h _ _ _ _)
  | sym _ hm _ =>
    obtain ⟨p', u, q, v, st', ht, he, _⟩ := Move_iff.mp hm
    cases he
    exact absurd ht (h _ _ _ _)

/-! ### single accepting state -/

theorem oneAcc_eq {P : PDA σ τ γ} {qa : σ} (hne : (dedup P.F).length ≠ 1) :
    P.toOneAccepting qa =
      { P with Q := sinsert P.Q qa
               delta := P.F.foldl (fun d q => addMove d (q, P.eps, P.epsG) (qa, P.epsG)) P.delta
               F := [qa] } := by
  unfold PDA.toOneAccepting
  rw [if_neg hne]

theorem oneAcc_Trans (P : PDA σ τ γ) (qa : σ) (hne : (dedup P.F).length ≠ 1) (p : σ) (a : τ) (u : γ) (q : σ) (v : γ) :
    Trans (P.toOneAccepting qa) p a u q v ↔
      Trans P p a u q v ∨ (p ∈ P.F ∧ a = P.eps ∧ u = P.epsG ∧ q = qa ∧ v = P.epsG) := by
  rw [oneAcc_eq hne]
  simp only [Trans]
  rw [dT_foldAddMove P.F (fun q => (q, P.eps, P.epsG))]
  simp only [Prod.mk.injEq]
  constructor
  · rintro (h | ⟨⟨f, hf, rfl, rfl, rfl⟩, rfl, rfl⟩)
    · exact Or.inl h
    · exact Or.inr ⟨hf, rfl, rfl, rfl, rfl⟩
  · rintro (h | ⟨hf, rfl, rfl, rfl, rfl⟩)
    · exact Or.inl h
    · exact Or.inr ⟨⟨p, hf, rfl, rfl, rfl⟩, rfl, rfl⟩

theorem oneAcc_valid (P : PDA σ τ γ) (hv : P.valid = true) (qa : σ) : (P.toOneAccepting qa).valid = true := by
  by_cases hne : (dedup P.F).length = 1
  · unfold PDA.toOneAccepting; rw [if_pos hne]; exact hv
  · rw [oneAcc_eq hne, PDA_valid_iff]
    obtain ⟨h1, h2, h3, h4, h5⟩ := (PDA_valid_iff P).mp hv
    have hQ : ∀ q, q ∈ P.Q → q ∈ sinsert P.Q qa := fun q hq => mem_sinsert.mpr (Or.inl hq)
    refine ⟨hQ _ h1, h2, h3, ?_, ?_⟩
    · intro f hf
      simp only [List.mem_singleton] at hf
      subst hf
      exact mem_sinsert.mpr (Or.inr rfl)
    · simp only
      apply foldl_inv (fun d => ∀ e, e ∈ d → POK (sinsert P.Q qa) P.Sigma P.Gamma P.eps P.epsG e)
      · intro d f hf hd
        exact POK_addMove hd ⟨hQ _ (h4 f hf), Or.inr rfl, Or.inr rfl⟩ ⟨mem_sinsert.mpr (Or.inr rfl), Or.inr rfl⟩
      · intro e he
        exact (h5 e he).mono hQ (fun x hx => hx)

theorem oneAcc_nodup (P : PDA σ τ γ) (hk : (P.delta.map (·.1)).Nodup) (qa : σ) :
    ((P.toOneAccepting qa).delta.map (·.1)).Nodup := by
  by_cases hne : (dedup P.F).length = 1
  · unfold PDA.toOneAccepting; rw [if_pos hne]; exact hk
  · rw [oneAcc_eq hne]
    simp only
    exact foldl_inv (fun d : PDelta σ τ γ => (d.map (·.1)).Nodup) _ _ _
      (fun d f _ hd => nodup_keys_addMove _ _ hd) hk

/-- language of a PDA whose transitions are those of `P` plus `f --ε,ε→ε--> qa` for the final states `f` of `P` -/
theorem oneAcc_lang (P P' : PDA σ τ γ) (qa : σ) (hv : P.valid = true) (hq : qa ∉ P.Q)
    (he : P'.eps = P.eps) (hG : P'.epsG = P.epsG) (h0 : P'.q0 = P.q0) (hF : P'.F = [qa])
    (hT : ∀ p a u q v, Trans P' p a u q v ↔
      Trans P p a u q v ∨ (p ∈ P.F ∧ a = P.eps ∧ u = P.epsG ∧ q = qa ∧ v = P.epsG))
    (w : List τ) : P'.Accepts w ↔ P.Accepts w := by
  obtain ⟨_, _, _, hFQ, _⟩ := (PDA_valid_iff P).mp hv
  have hmove : ∀ a c c', P'.Move a c c' ↔ P.Move a c c' ∨ (a = P.eps ∧ c.1 ∈ P.F ∧ c' = (qa, c.2)) := by
    intro a c c'
    rw [Move_congr hG _ hT]
    constructor
    · rintro (h | ⟨p, u, q, v, st, ⟨hf, rfl, rfl, rfl, rfl⟩, rfl, rfl⟩)
      · exact Or.inl h
      · exact Or.inr ⟨rfl, hf, by simp [stk_epsG]⟩
    · rintro (h | ⟨rfl, hf, rfl⟩)
      · exact Or.inl h
      · exact Or.inr ⟨c.1, P.epsG, qa, P.epsG, c.2, ⟨hf, rfl, rfl, rfl, rfl⟩, by simp [stk_epsG], by simp [stk_epsG]⟩
  have hstuck : ∀ a u q v, ¬ Trans P' qa a u q v := by
    intro a u q v h
    rcases (hT _ _ _ _ _).mp h with h | ⟨hf, _⟩
    · exact hq (valid_Trans hv h).1
    · exact hq (hFQ _ hf)
  have key : ∀ c w c', P'.Run c w c' → c.1 ∈ P.Q →
      (c'.1 ∈ P.Q ∧ P.Run c w c') ∨ (c'.1 = qa ∧ ∃ f, f ∈ P.F ∧ P.Run c w (f, c'.2)) := by
    intro c w c' hr
    induction hr with
    | nil c => intro hc; exact Or.inl ⟨hc, .nil c⟩
    | @eps c c1 c2 w hm hr ih =>
      intro hc
      rw [he] at hm
      rcases (hmove _ _ _).mp hm with h | ⟨_, hf, rfl⟩
      · rcases ih (valid_Move hv h).2 with ⟨h1, h2⟩ | ⟨h1, f, hf, h2⟩
        · exact Or.inl ⟨h1, .eps h h2⟩
        · exact Or.inr ⟨h1, f, hf, .eps h h2⟩
      · obtain ⟨rfl, rfl⟩ := Run_stuck hstuck hr
        exact Or.inr ⟨rfl, c.1, hf, .nil _⟩
    | @sym c c1 c2 a w ha hm hr ih =>
      intro hc
      rw [he] at ha
      rcases (hmove _ _ _).mp hm with h | ⟨h, _⟩
      · rcases ih (valid_Move hv h).2 with ⟨h1, h2⟩ | ⟨h1, f, hf, h2⟩
        · exact Or.inl ⟨h1, .sym ha h h2⟩
        · exact Or.inr ⟨h1, f, hf, .sym ha h h2⟩
      · exact absurd h ha
  constructor
  · rintro ⟨f, st, hf, hr⟩
    rw [hF, List.mem_singleton] at hf
    subst hf
    rw [h0] at hr
    rcases key _ _ _ hr ((PDA_valid_iff P).mp hv).1 with ⟨h1, _⟩ | ⟨_, f', hf', h2⟩
    · exact absurd h1 hq
    · exact ⟨f', st, hf', h2⟩
  · rintro ⟨f, st, hf, hr⟩
    refine ⟨qa, st, by rw [hF]; exact List.mem_singleton.mpr rfl, ?_⟩
    rw [h0]
    have h1 : P'.Run (P.q0, []) w (f, st) := Run_mono he (fun a c c' h => (hmove a c c').mpr (Or.inl h)) hr
    have h2 : P'.Run (f, st) [] (qa, st) :=
      .eps (by rw [he]; exact (hmove _ _ _).mpr (Or.inr ⟨rfl, hf, rfl⟩)) (.nil _)
    have := h1.append h2
    rwa [List.append_nil] at this

/-! ### accept on the empty stack -/

theorem es_Trans (P : PDA σ τ γ) (bottom : γ) (qi qd qa : σ) (hb : bottom ∉ P.Gamma)
    (p : σ) (a : τ) (u : γ) (q : σ) (v : γ) :
    Trans (P.toAcceptOnEmptyStack bottom qi qd qa) p a u q v ↔ Trans P p a u q v ∨
      (a = P.eps ∧ ((p = qi ∧ u = P.epsG ∧ q = P.q0 ∧ v = bottom) ∨ (p ∈ P.F ∧ u = P.epsG ∧ q = qd ∧ v = P.epsG) ∨
        (p = qd ∧ u ∈ P.Gamma ∧ q = qd ∧ v = P.epsG) ∨ (p = qd ∧ u = bottom ∧ q = qa ∧ v = P.epsG))) := by
  simp only [Trans, PDA.toAcceptOnEmptyStack]
  rw [dT_addMove, dT_foldAddMoveIf P.Gamma (fun u => u = bottom) (fun u => (qd, P.eps, u)),
    dT_foldAddMove P.F (fun q => (q, P.eps, P.epsG)), dT_addMove]
  simp only [Prod.mk.injEq]
  grind

theorem es_valid (P : PDA σ τ γ) (hv : P.valid = true) (bottom : γ) (qi qd qa : σ) (hbe : bottom ≠ P.epsG) :
    (P.toAcceptOnEmptyStack bottom qi qd qa).valid = true := by
  rw [PDA_valid_iff]
  obtain ⟨h1, h2, h3, h4, h5⟩ := (PDA_valid_iff P).mp hv
  simp only [PDA.toAcceptOnEmptyStack]
  have hQ : ∀ q, q ∈ P.Q → q ∈ sinsert (sinsert (sinsert P.Q qi) qd) qa := by
    intro q hq; simp [hq]
  have hG : ∀ x, x ∈ P.Gamma → x ∈ sinsert P.Gamma bottom := by
    intro x hx; simp [hx]
  refine ⟨by simp, h2, ?_, by simp, ?_⟩
  · simp only [mem_sinsert, not_or]
    exact ⟨h3, fun h => hbe h.symm⟩
  · apply POK_addMove
    · apply foldl_inv (fun d => ∀ e, e ∈ d → POK _ P.Sigma _ P.eps P.epsG e)
      · intro d u hu hd
        split
        · exact hd
        · exact POK_addMove hd ⟨by simp, Or.inr rfl, Or.inl (hG _ hu)⟩ ⟨by simp, Or.inr rfl⟩
      · apply foldl_inv (fun d => ∀ e, e ∈ d → POK _ P.Sigma _ P.eps P.epsG e)
        · intro d f hf hd
          exact POK_addMove hd ⟨hQ _ (h4 f hf), Or.inr rfl, Or.inr rfl⟩ ⟨by simp, Or.inr rfl⟩
        · apply POK_addMove
          · intro e he
            exact (h5 e he).mono hQ hG
          · exact ⟨by simp, Or.inr rfl, Or.inr rfl⟩
          · exact ⟨hQ _ h1, Or.inl (by simp)⟩
    · exact ⟨by simp, Or.inr rfl, Or.inl (by simp)⟩
    · exact ⟨by simp, Or.inr rfl⟩

theorem es_nodup (P : PDA σ τ γ) (hk : (P.delta.map (·.1)).Nodup) (bottom : γ) (qi qd qa : σ) :
    ((P.toAcceptOnEmptyStack bottom qi qd qa).delta.map (·.1)).Nodup := by
  simp only [PDA.toAcceptOnEmptyStack]
  apply nodup_keys_addMove
  apply foldl_inv (fun d : PDelta σ τ γ => (d.map (·.1)).Nodup)
  · intro d u _ hd
    split
    · exact hd
    · exact nodup_keys_addMove _ _ hd
  · apply foldl_inv (fun d : PDelta σ τ γ => (d.map (·.1)).Nodup)
    · intro d f _ hd
      exact nodup_keys_addMove _ _ hd
    · exact nodup_keys_addMove _ _ hk

omit [DecidableEq σ] [DecidableEq τ] in
/-- `bottom :: s` ends with `stk u` for a `u` that is not the marker: the marker stays below -/
theorem marker_split {P : PDA σ τ γ} {bottom u : γ} {s st : List γ} (hb : bottom ∉ P.Gamma)
    (hu : u ∈ P.Gamma ∨ u = P.epsG) (h : bottom :: s = st ++ P.stk u) :
    ∃ s', st = bottom :: s' ∧ s = s' ++ P.stk u := by
  by_cases he : u = P.epsG
  · subst he
    rw [stk_epsG, List.append_nil] at h
    exact ⟨s, h.symm, by rw [stk_epsG, List.append_nil]⟩
  · rw [stk_ne he] at h ⊢
    have hG : u ∈ P.Gamma := hu.resolve_right he
    cases st with
    | nil =>
      simp only [List.nil_append, List.cons.injEq] at h
      exact absurd (h.1 ▸ hG) hb
    | cons x st =>
      simp only [List.cons_append, List.cons.injEq] at h
      exact ⟨st, by rw [h.1], h.2⟩

/-- language of a PDA whose transitions are those of `P` plus the marker/drain transitions -/
theorem es_lang (P P' : PDA σ τ γ) (bottom : γ) (qi qd qa : σ) (hv : P.valid = true)
    (hb : bottom ∉ P.Gamma) (hbe : bottom ≠ P.epsG)
    (hqi : qi ∉ P.Q) (hqd : qd ∉ P.Q) (hqa : qa ∉ P.Q) (h1 : qi ≠ qd) (h2 : qi ≠ qa) (h3 : qd ≠ qa)
    (he : P'.eps = P.eps) (hG : P'.epsG = P.epsG) (h0 : P'.q0 = qi) (hF : P'.F = [qa])
    (hT : ∀ p a u q v, Trans P' p a u q v ↔ Trans P p a u q v ∨
      (a = P.eps ∧ ((p = qi ∧ u = P.epsG ∧ q = P.q0 ∧ v = bottom) ∨ (p ∈ P.F ∧ u = P.epsG ∧ q = qd ∧ v = P.epsG) ∨
        (p = qd ∧ u ∈ P.Gamma ∧ q = qd ∧ v = P.epsG) ∨ (p = qd ∧ u = bottom ∧ q = qa ∧ v = P.epsG)))) :
    (∀ w, P'.Accepts w ↔ P.Accepts w) ∧
    (∀ w f st, f ∈ P'.F → P'.Run (P'.q0, []) w (f, st) → st = []) := by
  obtain ⟨hq0Q, _, hεG, hFQ, _⟩ := (PDA_valid_iff P).mp hv
  have hmove : ∀ a c c', P'.Move a c c' ↔ P.Move a c c' ∨ (a = P.eps ∧
      ((c.1 = qi ∧ c' = (P.q0, c.2 ++ [bottom])) ∨ (c.1 ∈ P.F ∧ c' = (qd, c.2)) ∨
       (c.1 = qd ∧ c'.1 = qd ∧ ∃ u, u ∈ P.Gamma ∧ c.2 = c'.2 ++ [u]) ∨
       (c.1 = qd ∧ c'.1 = qa ∧ c.2 = c'.2 ++ [bottom]))) := by
    intro a c c'
    rw [Move_congr hG _ hT]
    constructor
    · rintro (h | ⟨p, u, q, v, st, ⟨rfl, ⟨rfl, rfl, rfl, rfl⟩ | ⟨hf, rfl, rfl, rfl⟩ | ⟨rfl, hu, rfl, rfl⟩ | ⟨rfl, rfl, rfl, rfl⟩⟩, rfl, rfl⟩)
      · exact Or.inl h
      · exact Or.inr ⟨rfl, Or.inl ⟨rfl, by simp [stk_epsG, stk_ne hbe]⟩⟩
      · exact Or.inr ⟨rfl, Or.inr (Or.inl ⟨hf, by simp [stk_epsG]⟩)⟩
      · have hne : u ≠ P.epsG := fun h => hεG (h ▸ hu)
        exact Or.inr ⟨rfl, Or.inr (Or.inr (Or.inl ⟨rfl, rfl, u, hu, by simp [stk_epsG, stk_ne hne]⟩))⟩
      · exact Or.inr ⟨rfl, Or.inr (Or.inr (Or.inr ⟨rfl, rfl, by simp [stk_epsG, stk_ne hbe]⟩))⟩
    · obtain ⟨p, s⟩ := c
      obtain ⟨q, s'⟩ := c'
      rintro (h | ⟨rfl, ⟨rfl, hc⟩ | ⟨hf, hc⟩ | ⟨rfl, rfl, u, hu, rfl⟩ | ⟨rfl, rfl, rfl⟩⟩)
      · exact Or.inl h
      · cases hc
        exact Or.inr ⟨_, P.epsG, _, bottom, s, ⟨rfl, Or.inl ⟨rfl, rfl, rfl, rfl⟩⟩, by simp [stk_epsG], by simp [stk_ne hbe]⟩
      · cases hc
        exact Or.inr ⟨_, P.epsG, _, P.epsG, s, ⟨rfl, Or.inr (Or.inl ⟨hf, rfl, rfl, rfl⟩)⟩, by simp [stk_epsG], by simp [stk_epsG]⟩
      · have hne : u ≠ P.epsG := fun h => hεG (h ▸ hu)
        exact Or.inr ⟨_, u, _, P.epsG, s', ⟨rfl, Or.inr (Or.inr (Or.inl ⟨rfl, hu, rfl, rfl⟩))⟩,
          by simp [stk_ne hne], by simp [stk_epsG]⟩
      · exact Or.inr ⟨_, bottom, _, P.epsG, s', ⟨rfl, Or.inr (Or.inr (Or.inr ⟨rfl, rfl, rfl, rfl⟩))⟩,
          by simp [stk_ne hbe], by simp [stk_epsG]⟩
  have hstuck : ∀ a u q v, ¬ Trans P' qa a u q v := by
    intro a u q v h
    rcases (hT _ _ _ _ _).mp h with h | ⟨_, ⟨h, _⟩ | ⟨h, _⟩ | ⟨h, _⟩ | ⟨h, _⟩⟩
    · exact hqa (valid_Trans hv h).1
    · exact h2 h.symm
    · exact hqa (hFQ _ h)
    · exact h3 h.symm
    · exact h3 h.symm
  -- stacks over Γ
  have hGS : ∀ a c c', P.Move a c c' → (∀ x, x ∈ c.2 → x ∈ P.Gamma) → ∀ x, x ∈ c'.2 → x ∈ P.Gamma := by
    intro a c c' hm hc x hx
    obtain ⟨p, u, q, v, st, ht, rfl, rfl⟩ := Move_iff.mp hm
    simp only [List.mem_append] at hx hc
    rcases hx with hx | hx
    · exact hc x (Or.inl hx)
    · by_cases hv' : v = P.epsG
      · subst hv'; rw [stk_epsG] at hx; cases hx
      · rw [stk_ne hv', List.mem_singleton] at hx
        subst hx
        exact (valid_Trans hv ht).2.2.2.2.resolve_right hv'
  have hGSrun : ∀ c w c', P.Run c w c' → (∀ x, x ∈ c.2 → x ∈ P.Gamma) → ∀ x, x ∈ c'.2 → x ∈ P.Gamma := by
    intro c w c' hr
    induction hr with
    | nil c => exact id
    | eps hm _ ih => exact fun hc => ih (hGS _ _ _ hm hc)
    | sym _ hm _ ih => exact fun hc => ih (hGS _ _ _ hm hc)
  -- the drain phase
  have lemA : ∀ c w c', P'.Run c w c' → c.1 = qd → ∀ s, c.2 = bottom :: s → (∀ x, x ∈ s → x ∈ P.Gamma) →
      c'.1 = qa → w = [] ∧ c'.2 = [] := by
    intro c w c' hr
    induction hr with
    | nil c => intro hc s _ _ hc'; exact absurd (hc.symm.trans hc') h3
    | @eps c c1 c2 w hm hr ih =>
      intro hc s hs hGs hc2
      rw [he] at hm
      rcases (hmove _ _ _).mp hm with h | ⟨_, ⟨h, _⟩ | ⟨h, _⟩ | ⟨_, hc1, u, hu, hst⟩ | ⟨_, hc1, hst⟩⟩
      · exact absurd (hc ▸ (valid_Move hv h).1) hqd
      · exact absurd (h.symm.trans hc) h1
      · exact absurd (hc ▸ hFQ _ h) hqd
      · rw [hs] at hst
        obtain ⟨s', hs', hs''⟩ := marker_split hb (Or.inl hu) (by rw [stk_ne (fun h => hεG (h ▸ hu))]; exact hst)
        refine ih hc1 s' hs' ?_ hc2
        intro x hx
        exact hGs x (by rw [hs'']; exact List.mem_append_left _ hx)
      · rw [hs] at hst
        obtain ⟨q1, s1⟩ := c1
        simp only at hc1 hst
        subst hc1
        cases s1 with
        | nil =>
          obtain ⟨rfl, rfl⟩ := Run_stuck hstuck hr
          exact ⟨rfl, rfl⟩
        | cons x s1 =>
          simp only [List.cons_append, List.cons.injEq] at hst
          exact absurd (hGs bottom (by rw [hst.2]; simp)) hb
    | @sym c c1 c2 a w ha hm hr ih =>
      intro hc s hs hGs hc2
      rw [he] at ha
      rcases (hmove _ _ _).mp hm with h | ⟨h, _⟩
      · exact absurd (hc ▸ (valid_Move hv h).1) hqd
      · exact absurd h ha
  -- the phase of `P`, above the marker
  have lemB : ∀ c w c', P'.Run c w c' → c.1 ∈ P.Q → ∀ s, c.2 = bottom :: s → (∀ x, x ∈ s → x ∈ P.Gamma) →
      c'.1 = qa → c'.2 = [] ∧ ∃ f st1, f ∈ P.F ∧ P.Run (c.1, s) w (f, st1) := by
    intro c w c' hr
    have stepP : ∀ a (c c1 : PConf σ γ) s, P.Move a c c1 → c.2 = bottom :: s → (∀ x, x ∈ s → x ∈ P.Gamma) →
        ∃ s1, c1.2 = bottom :: s1 ∧ (∀ x, x ∈ s1 → x ∈ P.Gamma) ∧ P.Move a (c.1, s) (c1.1, s1) := by
      intro a c c1 s hm hs hGs
      obtain ⟨p, u, q, v, st, ht, rfl, rfl⟩ := Move_iff.mp hm
      obtain ⟨s', rfl, rfl⟩ := marker_split hb (valid_Trans hv ht).2.2.1 hs.symm
      have hm' : P.Move a (p, s' ++ P.stk u) (q, s' ++ P.stk v) := Move_iff.mpr ⟨p, u, q, v, s', ht, rfl, rfl⟩
      exact ⟨s' ++ P.stk v, rfl, hGS _ _ _ hm' hGs, hm'⟩
    induction hr with
    | nil c => intro hc s _ _ hc'; exact absurd (hc' ▸ hc) hqa
    | @eps c c1 c2 w hm hr ih =>
      intro hc s hs hGs hc2
      rw [he] at hm
      rcases (hmove _ _ _).mp hm with h | ⟨_, ⟨h, _⟩ | ⟨hf, hc1⟩ | ⟨h, _⟩ | ⟨h, _⟩⟩
      · obtain ⟨s1, hs1, hGs1, hm1⟩ := stepP _ _ _ _ h hs hGs
        obtain ⟨h4, f, st1, hf, hr1⟩ := ih (valid_Move hv h).2 s1 hs1 hGs1 hc2
        exact ⟨h4, f, st1, hf, .eps hm1 hr1⟩
      · exact absurd (h ▸ hc) hqi
      · subst hc1
        obtain ⟨rfl, h4⟩ := lemA _ _ _ hr rfl s hs hGs hc2
        exact ⟨h4, c.1, s, hf, .nil _⟩
      · exact absurd (h ▸ hc) hqd
      · exact absurd (h ▸ hc) hqd
    | @sym c c1 c2 a w ha hm hr ih =>
      intro hc s hs hGs hc2
      rw [he] at ha
      rcases (hmove _ _ _).mp hm with h | ⟨h, _⟩
      · obtain ⟨s1, hs1, hGs1, hm1⟩ := stepP _ _ _ _ h hs hGs
        obtain ⟨h4, f, st1, hf, hr1⟩ := ih (valid_Move hv h).2 s1 hs1 hGs1 hc2
        exact ⟨h4, f, st1, hf, .sym ha hm1 hr1⟩
      · exact absurd h ha
  -- the whole run
  have lemC : ∀ w st, P'.Run (qi, []) w (qa, st) → st = [] ∧ P.Accepts w := by
    intro w st hr
    cases hr with
    | nil => exact absurd rfl h2
    | eps hm hr =>
      rw [he] at hm
      rcases (hmove _ _ _).mp hm with h | ⟨_, ⟨_, hc1⟩ | ⟨h, _⟩ | ⟨h, _⟩ | ⟨h, _⟩⟩
      · exact absurd (valid_Move hv h).1 hqi
      · subst hc1
        obtain ⟨h4, f, st1, hf, hr1⟩ := lemB _ _ _ hr hq0Q [] rfl (fun x hx => by cases hx) rfl
        exact ⟨h4, f, st1, hf, hr1⟩
      · exact absurd (hFQ _ h) hqi
      · exact absurd h h1
      · exact absurd h h1
    | sym ha hm hr =>
      rw [he] at ha
      rcases (hmove _ _ _).mp hm with h | ⟨h, _⟩
      · exact absurd (valid_Move hv h).1 hqi
      · exact absurd h ha
  have drain : ∀ (st pre : List γ), (∀ x, x ∈ st → x ∈ P.Gamma) → P'.Run (qd, pre ++ st.reverse) [] (qd, pre) := by
    intro st
    induction st with
    | nil => intro pre _; simpa using PDA.Run.nil _
    | cons x st ih =>
      intro pre hst
      refine PDA.Run.eps (c' := (qd, pre ++ st.reverse)) ?_ (ih pre (fun y hy => hst y (List.mem_cons_of_mem _ hy)))
      rw [he]
      refine (hmove _ _ _).mpr (Or.inr ⟨rfl, Or.inr (Or.inr (Or.inl ⟨rfl, rfl, x, hst x List.mem_cons_self, ?_⟩))⟩)
      simp
  refine ⟨?_, ?_⟩
  · intro w
    constructor
    · rintro ⟨f, st, hf, hr⟩
      rw [hF, List.mem_singleton] at hf
      subst hf
      rw [h0] at hr
      exact (lemC w st hr).2
    · rintro ⟨f, st, hf, hr⟩
      refine ⟨qa, [], by rw [hF]; exact List.mem_singleton.mpr rfl, ?_⟩
      rw [h0]
      have r1 : P'.Run (qi, []) [] (P.q0, [bottom]) :=
        .eps (by rw [he]; exact (hmove _ _ _).mpr (Or.inr ⟨rfl, Or.inl ⟨rfl, rfl⟩⟩)) (.nil _)
      have r2 : P'.Run (P.q0, [bottom]) w (f, [bottom] ++ st) := by
        have := Run_mono he (fun a c c' h => (hmove a c c').mpr (Or.inl h)) (Run_frame [bottom] hr)
        simpa using this
      have r3 : P'.Run (f, [bottom] ++ st) [] (qd, [bottom] ++ st) :=
        .eps (by rw [he]; exact (hmove _ _ _).mpr (Or.inr ⟨rfl, Or.inr (Or.inl ⟨hf, rfl⟩)⟩)) (.nil _)
      have hst : ∀ x, x ∈ st → x ∈ P.Gamma := hGSrun _ _ _ hr (fun x hx => by cases hx)
      have r4 : P'.Run (qd, [bottom] ++ st) [] (qd, [bottom]) := by
        have := drain st.reverse [bottom] (fun x hx => hst x (List.mem_reverse.mp hx))
        rwa [List.reverse_reverse] at this
      have r5 : P'.Run (qd, [bottom]) [] (qa, []) :=
        .eps (by rw [he]; exact (hmove _ _ _).mpr (Or.inr ⟨rfl, Or.inr (Or.inr (Or.inr ⟨rfl, rfl, rfl⟩))⟩)) (.nil _)
      have := (((r1.append r2).append r3).append r4).append r5
      simpa using this
  · intro w f st hf hr
    rw [hF, List.mem_singleton] at hf
    subst hf
    rw [h0] at hr
    exact (lemC w st hr).1

theorem es_spec (P : PDA σ τ γ) (hv : P.valid = true) (hk : (P.delta.map (·.1)).Nodup)
    (bottom : γ) (qi qd qa : σ) (hb : bottom ∉ P.Gamma) (hbe : bottom ≠ P.epsG)
    (hqi : qi ∉ P.Q) (hqd : qd ∉ P.Q) (hqa : qa ∉ P.Q) (h1 : qi ≠ qd) (h2 : qi ≠ qa) (h3 : qd ≠ qa) :
    (P.toAcceptOnEmptyStack bottom qi qd qa).valid = true ∧
    ((P.toAcceptOnEmptyStack bottom qi qd qa).delta.map (·.1)).Nodup ∧
    (P.toAcceptOnEmptyStack bottom qi qd qa).F = [qa] ∧
    (∀ w, (P.toAcceptOnEmptyStack bottom qi qd qa).Accepts w ↔ P.Accepts w) ∧
    (∀ w f st, f ∈ (P.toAcceptOnEmptyStack bottom qi qd qa).F →
      (P.toAcceptOnEmptyStack bottom qi qd qa).Run ((P.toAcceptOnEmptyStack bottom qi qd qa).q0, []) w (f, st) →
      st = []) :=
  ⟨es_valid P hv bottom qi qd qa hbe, es_nodup P hk bottom qi qd qa, rfl,
    es_lang P (P.toAcceptOnEmptyStack bottom qi qd qa) bottom qi qd qa hv hb hbe hqi hqd hqa h1 h2 h3
      rfl rfl rfl rfl (es_Trans P bottom qi qd qa hb)⟩

theorem oneAcc_spec (P : PDA σ τ γ) (hv : P.valid = true) (hk : (P.delta.map (·.1)).Nodup) (qa : σ) (hq : qa ∉ P.Q) :
    (P.toOneAccepting qa).valid = true ∧ ((P.toOneAccepting qa).delta.map (·.1)).Nodup ∧
    ((dedup P.F).length ≠ 1 → (P.toOneAccepting qa).F = [qa]) ∧
    ∀ w, (P.toOneAccepting qa).Accepts w ↔ P.Accepts w := by
  refine ⟨oneAcc_valid P hv qa, oneAcc_nodup P hk qa, ?_, ?_⟩
  · intro hne; rw [oneAcc_eq hne]
  · intro w
    by_cases hne : (dedup P.F).length = 1
    · unfold PDA.toOneAccepting; rw [if_pos hne]
    · refine oneAcc_lang P (P.toOneAccepting qa) qa hv hq ?_ ?_ ?_ ?_ (oneAcc_Trans P qa hne) w <;>
        rw [oneAcc_eq hne]

/-! ### push/pop form: the generic language argument -/

/-- push or pop, exactly one symbol -/
def isPP (P : PDA σ τ γ) (u v : γ) : Prop := (u = P.epsG ∧ v ≠ P.epsG) ∨ (u ≠ P.epsG ∧ v = P.epsG)

/-- what the first half of a split transition pushes: the dummy for a no-op, nothing for a replace -/
def midSym (P : PDA σ τ γ) (dummy u : γ) : γ := if u = P.epsG then dummy else P.epsG

def PPGood (P : PDA σ τ γ) (dummy : γ) (M : σ → τ → γ → σ → γ → σ → Prop) (c'' c : PConf σ γ) (w : List τ) : Prop :=
  (c.1 ∈ P.Q → P.Run c w c'') ∧
  ∀ p a u q v, M p a u q v c.1 → ∃ st, c.2 = st ++ P.stk (midSym P dummy u) ∧ P.Run (q, st ++ P.stk v) w c''

omit [DecidableEq σ] [DecidableEq τ] in
theorem stk_midSym_cancel {P : PDA σ τ γ} {dummy u : γ} {st st2 : List γ}
    (h : st ++ P.stk (midSym P dummy u) = st2 ++ P.stk (midSym P dummy u)) : st = st2 :=
  List.append_cancel_right h

/-- language of a PDA in which every non-push/pop transition `t` of `P` is split in two halves through a
    private intermediate state `m` (`M t m`) -/
theorem pp_lang (P P' : PDA σ τ γ) (dummy : γ) (hv : P.valid = true)
    (he : P'.eps = P.eps) (hG : P'.epsG = P.epsG) (h0 : P'.q0 = P.q0) (hF : P'.F = P.F)
    (M : σ → τ → γ → σ → γ → σ → Prop)
    (hMfresh : ∀ p a u q v m, M p a u q v m → m ∉ P.Q)
    (hMinj : ∀ p a u q v p' a' u' q' v' m, M p a u q v m → M p' a' u' q' v' m →
      p = p' ∧ a = a' ∧ u = u' ∧ q = q' ∧ v = v')
    (hMdom : ∀ p a u q v m, M p a u q v m → Trans P p a u q v)
    (hMtot : ∀ p a u q v, Trans P p a u q v → ¬ isPP P u v → ∃ m, M p a u q v m)
    (hT : ∀ p' a' u' q' v', Trans P' p' a' u' q' v' ↔ (Trans P p' a' u' q' v' ∧ isPP P u' v') ∨
      ∃ p a u q v m, M p a u q v m ∧
        ((p' = p ∧ a' = a ∧ u' = u ∧ q' = m ∧ v' = midSym P dummy u) ∨
         (p' = m ∧ a' = P.eps ∧ u' = midSym P dummy u ∧ q' = q ∧ v' = v)))
    (w : List τ) : P'.Accepts w ↔ P.Accepts w := by
  obtain ⟨hq0Q, _, _, hFQ, _⟩ := (PDA_valid_iff P).mp hv
  have hstk : ∀ x, P'.stk x = P.stk x := stk_congr hG
  -- P ⊆ P'
  have fwd : ∀ a c c', P.Move a c c' → P'.Move a c c' ∨ ∃ mid, P'.Move a c mid ∧ P'.Move P.eps mid c' := by
    intro a c c' hm
    obtain ⟨p, u, q, v, st, ht, rfl, rfl⟩ := Move_iff.mp hm
    by_cases hpp : isPP P u v
    · left
      refine Move_iff.mpr ⟨p, u, q, v, st, (hT _ _ _ _ _).mpr (Or.inl ⟨ht, hpp⟩), ?_, ?_⟩ <;> rw [hstk]
    · right
      obtain ⟨m, hm⟩ := hMtot _ _ _ _ _ ht hpp
      refine ⟨(m, st ++ P.stk (midSym P dummy u)), ?_, ?_⟩
      · refine Move_iff.mpr ⟨p, u, m, midSym P dummy u, st,
          (hT _ _ _ _ _).mpr (Or.inr ⟨p, a, u, q, v, m, hm, Or.inl ⟨rfl, rfl, rfl, rfl, rfl⟩⟩), ?_, ?_⟩ <;> rw [hstk]
      · refine Move_iff.mpr ⟨m, midSym P dummy u, q, v, st,
          (hT _ _ _ _ _).mpr (Or.inr ⟨p, a, u, q, v, m, hm, Or.inr ⟨rfl, rfl, rfl, rfl, rfl⟩⟩), ?_, ?_⟩ <;> rw [hstk]
  have fwdRun : ∀ c w c', P.Run c w c' → P'.Run c w c' := by
    intro c w c' hr
    induction hr with
    | nil c => exact .nil c
    | eps hm _ ih =>
      rcases fwd _ _ _ hm with h | ⟨mid, h1, h2⟩
      · exact .eps (by rw [he]; exact h) ih
      · exact .eps (by rw [he]; exact h1) (.eps (by rw [he]; exact h2) ih)
    | sym ha hm _ ih =>
      rcases fwd _ _ _ hm with h | ⟨mid, h1, h2⟩
      · exact .sym (by rw [he]; exact ha) h ih
      · exact .sym (by rw [he]; exact ha) h1 (.eps (by rw [he]; exact h2) ih)
  -- P' ⊆ P
  have step : ∀ (c'' : PConf σ γ) (a : τ) (c c1 : PConf σ γ) (w w' : List τ), P'.Move a c c1 →
      (∀ x y, P.Move a x y → P.Run y w c'' → P.Run x w' c'') → (a = P.eps → w' = w) →
      PPGood P dummy M c'' c1 w → PPGood P dummy M c'' c w' := by
    intro c'' a c c1 w w' hm ext hw hgood
    obtain ⟨p', u', q', v', st, ht, rfl, rfl⟩ := Move_iff.mp hm
    simp only [hstk] at hgood ⊢
    rcases (hT _ _ _ _ _).mp ht with ⟨ht, _⟩ | ⟨p, a0, u, q, v, m, hM, ⟨rfl, rfl, rfl, rfl, rfl⟩ | ⟨rfl, rfl, rfl, rfl, rfl⟩⟩
    · have hQ := valid_Trans hv ht
      refine ⟨fun _ => ext _ _ (Move_iff.mpr ⟨_, _, _, _, st, ht, rfl, rfl⟩) (hgood.1 hQ.2.2.2.1), ?_⟩
      intro p a0 u q v hM
      exact absurd hQ.1 (hMfresh _ _ _ _ _ _ hM)
    · have ht := hMdom _ _ _ _ _ _ hM
      have hQ := valid_Trans hv ht
      refine ⟨fun _ => ?_, ?_⟩
      · obtain ⟨st2, h1, h2⟩ := hgood.2 _ _ _ _ _ hM
        have := stk_midSym_cancel h1
        subst this
        exact ext _ _ (Move_iff.mpr ⟨_, _, _, _, st, ht, rfl, rfl⟩) h2
      · intro p2 a2 u2 q2 v2 hM2
        exact absurd hQ.1 (hMfresh _ _ _ _ _ _ hM2)
    · have ht := hMdom _ _ _ _ _ _ hM
      have hQ := valid_Trans hv ht
      refine ⟨fun hc => absurd hc (hMfresh _ _ _ _ _ _ hM), ?_⟩
      intro p2 a2 u2 q2 v2 hM2
      obtain ⟨rfl, rfl, rfl, rfl, rfl⟩ := hMinj _ _ _ _ _ _ _ _ _ _ _ hM2 hM
      rw [hw rfl]
      exact ⟨st, rfl, hgood.1 hQ.2.2.2.1⟩
  have key : ∀ c w c'', P'.Run c w c'' → c''.1 ∈ P.Q → PPGood P dummy M c'' c w := by
    intro c w c'' hr hc''
    induction hr with
    | nil c =>
      refine ⟨fun _ => .nil c, ?_⟩
      intro p a u q v hM
      exact absurd hc'' (hMfresh _ _ _ _ _ _ hM)
    | @eps c c1 c2 w hm hr ih =>
      rw [he] at hm
      exact step _ _ _ _ _ _ hm (fun x y hxy hr => .eps hxy hr) (fun _ => rfl) (ih hc'')
    | @sym c c1 c2 a w ha hm hr ih =>
      rw [he] at ha
      exact step _ _ _ _ _ _ hm (fun x y hxy hr => .sym ha hxy hr) (fun h => absurd h ha) (ih hc'')
  constructor
  · rintro ⟨f, st, hf, hr⟩
    rw [hF] at hf
    rw [h0] at hr
    exact ⟨f, st, hf, (key _ _ _ hr (hFQ _ hf)).1 hq0Q⟩
  · rintro ⟨f, st, hf, hr⟩
    exact ⟨f, st, by rw [hF]; exact hf, by rw [h0]; exact fwdRun _ _ _ hr⟩

end

/-! ### the String-level wrappers -/

theorem freshSymbol_not_mem {G : List String} {b : String} (h : freshSymbol G = .ok b) : b ∉ G := by
  unfold freshSymbol at h
  split at h
  · rename_i s hs
    cases h
    have := List.find?_some hs
    simpa using this
  · cases h

/-- the names chosen by `toAcceptOnEmptyStackS` -/
theorem esS_eq {P P' : SPDA} (h : P.toAcceptOnEmptyStackS = .ok P') :
    ∃ b, freshSymbol P.Gamma = .ok b ∧
      P' = P.toAcceptOnEmptyStack b (freshState P.Q "q_initial")
        (freshState (sinsert P.Q (freshState P.Q "q_initial")) "q_drain")
        (freshState (sinsert (sinsert P.Q (freshState P.Q "q_initial"))
          (freshState (sinsert P.Q (freshState P.Q "q_initial")) "q_drain")) "q_accept") := by
  unfold SPDA.toAcceptOnEmptyStackS at h
  cases hb : freshSymbol P.Gamma with
  | error e => rw [hb] at h; cases h
  | ok b =>
    rw [hb] at h
    refine ⟨b, rfl, ?_⟩
    simp only [bind, Except.bind, pure, Except.pure, Except.ok.injEq] at h
    exact h.symm

theorem esS_spec (P : SPDA) (hv : P.valid = true) (hk : (P.delta.map (·.1)).Nodup)
    (hε : freshSymbol P.Gamma ≠ .ok P.epsG) (P' : SPDA) (h : P.toAcceptOnEmptyStackS = .ok P') :
    P'.valid = true ∧ (P'.delta.map (·.1)).Nodup ∧ (∀ w, P'.Accepts w ↔ P.Accepts w) ∧
    (∀ w f st, f ∈ P'.F → P'.Run (P'.q0, []) w (f, st) → st = []) := by
  obtain ⟨b, hb, rfl⟩ := esS_eq h
  have hqi := freshState_not_mem P.Q "q_initial"
  have hqd := freshState_not_mem (sinsert P.Q (freshState P.Q "q_initial")) "q_drain"
  have hqa := freshState_not_mem (sinsert (sinsert P.Q (freshState P.Q "q_initial"))
          (freshState (sinsert P.Q (freshState P.Q "q_initial")) "q_drain")) "q_accept"
  simp only [mem_sinsert, not_or] at hqd hqa
  have hbe : b ≠ P.epsG := by
    intro hbe; rw [hbe] at hb; exact hε hb
  obtain ⟨r1, r2, _, r4, r5⟩ := es_spec P hv hk b _ _ _ (freshSymbol_not_mem hb) hbe hqi hqd.1 hqa.1.1
    (fun h => hqd.2 h.symm) (fun h => hqa.1.2 h.symm) (fun h => hqa.2 h.symm)
  exact ⟨r1, r2, r4, r5⟩

/-! ### push/pop form: the fold of `toPushPopS` -/

abbrev SK := String × String × String
abbrev ST := String × String

/-- one transition `(k, t)` of the loop body of `pda_to_push_pop_in_place` -/
def ppStep1 (P : SPDA) (dummy : String) (k : SK) (acc : PPAcc) (t : ST) : PPAcc :=
  if (k.2.2 = P.epsG ∧ t.2 ≠ P.epsG) ∨ (k.2.2 ≠ P.epsG ∧ t.2 = P.epsG) then
    { acc with delta := addMove acc.delta k t }
  else
    { Q := acc.Q ++ [freshState acc.Q "M"],
      delta := addMove (addMove acc.delta k (freshState acc.Q "M", midSym P dummy k.2.2))
        (freshState acc.Q "M", P.eps, midSym P dummy k.2.2) t }

def ppStep (P : SPDA) (dummy : String) (acc : PPAcc) (e : SK × List ST) : PPAcc :=
  e.2.foldl (ppStep1 P dummy e.1) acc

def ppFold (P : SPDA) (dummy : String) : PPAcc := P.delta.foldl (ppStep P dummy) { Q := P.Q, delta := [] }

theorem toPushPopS_eq (P0 : SPDA) :
    P0.toPushPopS = if "∅" ∈ P0.toOneAcceptingS.Gamma then .error .assertion else
      .ok { P0.toOneAcceptingS with Q := (ppFold P0.toOneAcceptingS "∅").Q,
                                     Gamma := P0.toOneAcceptingS.Gamma ++ ["∅"],
                                     delta := (ppFold P0.toOneAcceptingS "∅").delta } := by
  unfold SPDA.toPushPopS
  simp only []
  split
  · rfl
  · have : ∀ (P : SPDA) (acc : PPAcc) (e : SK × List ST), ppStep P "∅" acc e =
        (match e.1 with
        | (p, a, u) =>
          List.foldl
            (fun (acc : PPAcc) (t : String × String) =>
              match t with
              | (q, v) =>
                if (u = P.epsG ∧ v ≠ P.epsG) ∨ (u ≠ P.epsG ∧ v = P.epsG) then
                  { acc with delta := addMove acc.delta (p, a, u) (q, v) }
                else if u = P.epsG ∧ v = P.epsG then
                  { Q := acc.Q ++ [freshState acc.Q "M"],
                    delta := addMove (addMove acc.delta (p, a, P.epsG) (freshState acc.Q "M", "∅"))
                      (freshState acc.Q "M", P.eps, "∅") (q, P.epsG) }
                else
                  { Q := acc.Q ++ [freshState acc.Q "M"],
                    delta := addMove (addMove acc.delta (p, a, u) (freshState acc.Q "M", P.epsG))
                      (freshState acc.Q "M", P.eps, P.epsG) (q, v) })
            acc e.2) := by
      intro P acc e
      obtain ⟨⟨p, a, u⟩, T⟩ := e
      simp only [ppStep]
      congr 1
      funext acc t
      obtain ⟨q, v⟩ := t
      simp only [ppStep1, midSym]
      by_cases h1 : (u = P.epsG ∧ v ≠ P.epsG) ∨ (u ≠ P.epsG ∧ v = P.epsG)
      · rw [if_pos h1, if_pos h1]
      · rw [if_neg h1, if_neg h1]
        by_cases h2 : u = P.epsG ∧ v = P.epsG
        · rw [if_pos h2]
          obtain ⟨rfl, rfl⟩ := h2
          simp
        · rw [if_neg h2]
          have hu : u ≠ P.epsG := by
            intro hu
            by_cases hv : v = P.epsG
            · exact h2 ⟨hu, hv⟩
            · exact h1 (Or.inl ⟨hu, hv⟩)
          simp [hu]
    simp only [ppFold]
    congr 3 <;> (congr 1; funext acc e; exact (this _ acc e).symm)

/-- all transitions `(key, target)` of a δ dictionary, in traversal order -/
def transList (d : PDelta String String String) : List (SK × ST) :=
  d.flatMap fun e => e.2.map fun t => (e.1, t)

theorem foldl_ppStep (P : SPDA) (dummy : String) (d : PDelta String String String) (acc : PPAcc) :
    d.foldl (ppStep P dummy) acc = (transList d).foldl (fun acc kt => ppStep1 P dummy kt.1 acc kt.2) acc := by
  induction d generalizing acc with
  | nil => rfl
  | cons e d ih =>
    rw [List.foldl_cons, ih]
    simp only [transList, List.flatMap_cons, List.foldl_append, List.foldl_map, ppStep]

theorem mem_transList {d : PDelta String String String} (hk : (d.map (·.1)).Nodup) (k : SK) (t : ST) :
    (k, t) ∈ transList d ↔ dT d k t := by
  unfold transList dT
  simp only [List.mem_flatMap, List.mem_map, Prod.mk.injEq]
  constructor
  · rintro ⟨e, he, t', ht', rfl, rfl⟩
    rw [C09.lookup_of_mem_nodup hk (show (e.1, e.2) ∈ d from he)]
    exact ht'
  · intro h
    cases hl : d.lookup k with
    | none => rw [hl] at h; simp at h
    | some T =>
      rw [hl] at h
      exact ⟨(k, T), mem_of_lookup_eq_some hl, t, h, rfl, rfl⟩

theorem PP_addMove {P : SPDA} {d : PDelta String String String}
    (hd : ∀ e, e ∈ d → ∀ t, t ∈ e.2 → isPP P e.1.2.2 t.2) {k : SK} {t : ST} (hkt : isPP P k.2.2 t.2) :
    ∀ e, e ∈ addMove d k t → ∀ t', t' ∈ e.2 → isPP P e.1.2.2 t'.2 := by
  intro e he
  rcases mem_set he with rfl | he
  · intro x hx
    simp only [mem_sinsert] at hx
    rcases hx with hx | rfl
    · cases hl : d.lookup k with
      | none => rw [hl] at hx; simp at hx
      | some T =>
        rw [hl] at hx
        exact hd _ (mem_of_lookup_eq_some hl) x hx
    · exact hkt
  · exact hd e he

/-- invariant of the loop of `pda_to_push_pop_in_place`: `L` are the transitions already processed,
    `A` associates to every processed non-push/pop transition its intermediate state(s) -/
structure PPInv (P : SPDA) (dummy : String) (L : List (SK × ST)) (A : List ((SK × ST) × String)) (acc : PPAcc) :
    Prop where
  hQ : ∀ q, q ∈ acc.Q ↔ q ∈ P.Q ∨ q ∈ A.map (·.2)
  hfresh : ∀ e, e ∈ A → e.2 ∉ P.Q
  hnd : (A.map (·.2)).Nodup
  hAL : ∀ e, e ∈ A → e.1 ∈ L ∧ ¬ isPP P e.1.1.2.2 e.1.2.2
  hLA : ∀ kt, kt ∈ L → ¬ isPP P kt.1.2.2 kt.2.2 → ∃ m, (kt, m) ∈ A
  hkeys : (acc.delta.map (·.1)).Nodup
  hdT : ∀ k' t', dT acc.delta k' t' ↔ ((k', t') ∈ L ∧ isPP P k'.2.2 t'.2) ∨
      ∃ e, e ∈ A ∧ ((k' = e.1.1 ∧ t' = (e.2, midSym P dummy e.1.1.2.2)) ∨
        (k' = (e.2, P.eps, midSym P dummy e.1.1.2.2) ∧ t' = e.1.2))
  hPOK : ∀ e, e ∈ acc.delta → POK acc.Q P.Sigma (P.Gamma ++ [dummy]) P.eps P.epsG e
  hPP : ∀ e, e ∈ acc.delta → ∀ t, t ∈ e.2 → isPP P e.1.2.2 t.2

theorem ppInv_init (P : SPDA) (dummy : String) : PPInv P dummy [] [] { Q := P.Q, delta := [] } where
  hQ := by simp
  hfresh := by simp
  hnd := by simp
  hAL := by simp
  hLA := by simp
  hkeys := by simp
  hdT := by simp [dT]
  hPOK := by simp
  hPP := by simp

theorem ppInv_step {P : SPDA} {dummy : String} (hd : dummy ≠ P.epsG) {L : List (SK × ST)}
    {A : List ((SK × ST) × String)} {acc : PPAcc} (h : PPInv P dummy L A acc) (k : SK) (t : ST)
    (hk : k.1 ∈ P.Q ∧ (k.2.1 ∈ P.Sigma ∨ k.2.1 = P.eps) ∧ (k.2.2 ∈ P.Gamma ∨ k.2.2 = P.epsG))
    (ht : t.1 ∈ P.Q ∧ (t.2 ∈ P.Gamma ∨ t.2 = P.epsG)) :
    ∃ A', PPInv P dummy (L ++ [(k, t)]) A' (ppStep1 P dummy k acc t) := by
  have hGm : ∀ x, x ∈ P.Gamma → x ∈ P.Gamma ++ [dummy] := fun x hx => List.mem_append_left _ hx
  by_cases hpp : (k.2.2 = P.epsG ∧ t.2 ≠ P.epsG) ∨ (k.2.2 ≠ P.epsG ∧ t.2 = P.epsG)
  · refine ⟨A, ?_⟩
    unfold ppStep1
    rw [if_pos hpp]
    have hQP : ∀ q, q ∈ P.Q → q ∈ acc.Q := fun q hq => (h.hQ q).mpr (Or.inl hq)
    refine ⟨h.hQ, h.hfresh, h.hnd, ?_, ?_, nodup_keys_addMove _ _ h.hkeys, ?_, ?_, ?_⟩
    · intro e he
      exact ⟨List.mem_append_left _ (h.hAL e he).1, (h.hAL e he).2⟩
    · intro kt hkt hnpp
      rcases List.mem_append.mp hkt with hkt | hkt
      · exact h.hLA kt hkt hnpp
      · rw [List.mem_singleton] at hkt
        subst hkt
        exact absurd hpp hnpp
    · intro k' t'
      simp only
      rw [dT_addMove, h.hdT]
      have : isPP P k.2.2 t.2 := hpp
      simp only [List.mem_append, List.mem_singleton, Prod.mk.injEq]
      constructor
      · rintro ((⟨h1, h2⟩ | h1) | ⟨rfl, rfl⟩)
        · exact Or.inl ⟨Or.inl h1, h2⟩
        · exact Or.inr h1
        · exact Or.inl ⟨Or.inr ⟨rfl, rfl⟩, this⟩
      · rintro (⟨h1 | ⟨rfl, rfl⟩, h2⟩ | h1)
        · exact Or.inl (Or.inl ⟨h1, h2⟩)
        · exact Or.inr ⟨rfl, rfl⟩
        · exact Or.inl (Or.inr h1)
    · simp only
      exact POK_addMove h.hPOK ⟨hQP _ hk.1, hk.2.1, hk.2.2.imp (hGm _) id⟩ ⟨hQP _ ht.1, ht.2.imp (hGm _) id⟩
    · simp only
      exact PP_addMove h.hPP hpp
  · refine ⟨A ++ [((k, t), freshState acc.Q "M")], ?_⟩
    unfold ppStep1
    rw [if_neg hpp]
    have hm := freshState_not_mem acc.Q "M"
    generalize freshState acc.Q "M" = m at hm ⊢
    have hmQ : m ∉ P.Q := fun hq => hm ((h.hQ m).mpr (Or.inl hq))
    have hmA : m ∉ A.map (·.2) := fun hq => hm ((h.hQ m).mpr (Or.inr hq))
    have hQP : ∀ q, q ∈ P.Q → q ∈ acc.Q ++ [m] :=
      fun q hq => List.mem_append_left _ ((h.hQ q).mpr (Or.inl hq))
    have hxG : midSym P dummy k.2.2 ∈ P.Gamma ++ [dummy] ∨ midSym P dummy k.2.2 = P.epsG := by
      unfold midSym
      split
      · exact Or.inl (by simp)
      · exact Or.inr rfl
    have hpp1 : isPP P k.2.2 (midSym P dummy k.2.2) := by
      unfold midSym isPP
      split
      · rename_i hu; exact Or.inl ⟨hu, hd⟩
      · rename_i hu; exact Or.inr ⟨hu, rfl⟩
    have hpp2 : isPP P (midSym P dummy k.2.2) t.2 := by
      unfold midSym isPP
      split
      · rename_i hu
        refine Or.inr ⟨hd, ?_⟩
        apply Classical.byContradiction
        intro hv
        exact hpp (Or.inl ⟨hu, hv⟩)
      · rename_i hu
        refine Or.inl ⟨rfl, ?_⟩
        intro hv
        exact hpp (Or.inr ⟨hu, hv⟩)
    refine ⟨?_, ?_, ?_, ?_, ?_, nodup_keys_addMove _ _ (nodup_keys_addMove _ _ h.hkeys), ?_, ?_, ?_⟩
    · intro q
      simp only [List.mem_append, List.mem_singleton, List.map_append, List.map_cons, List.map_nil, h.hQ q]
      exact or_assoc
    · intro e he
      rcases List.mem_append.mp he with he | he
      · exact h.hfresh e he
      · rw [List.mem_singleton] at he; subst he; exact hmQ
    · rw [List.map_append, List.nodup_append]
      refine ⟨h.hnd, by simp, ?_⟩
      intro a ha b hb hab
      simp only [List.map_cons, List.map_nil, List.mem_singleton] at hb
      subst hb; subst hab
      exact hmA ha
    · intro e he
      rcases List.mem_append.mp he with he | he
      · exact ⟨List.mem_append_left _ (h.hAL e he).1, (h.hAL e he).2⟩
      · rw [List.mem_singleton] at he; subst he
        exact ⟨List.mem_append_right _ (List.mem_singleton.mpr rfl), hpp⟩
    · intro kt hkt hnpp
      rcases List.mem_append.mp hkt with hkt | hkt
      · obtain ⟨m', hm'⟩ := h.hLA kt hkt hnpp
        exact ⟨m', List.mem_append_left _ hm'⟩
      · rw [List.mem_singleton] at hkt
        subst hkt
        exact ⟨m, List.mem_append_right _ (List.mem_singleton.mpr rfl)⟩
    · intro k' t'
      simp only
      rw [dT_addMove, dT_addMove, h.hdT]
      have hnpp : ¬ isPP P k.2.2 t.2 := hpp
      simp only [List.mem_append, List.mem_singleton, Prod.mk.injEq]
      constructor
      · rintro (((⟨h1, h2⟩ | ⟨e, he, h1⟩) | ⟨rfl, rfl⟩) | ⟨rfl, rfl⟩)
        · exact Or.inl ⟨Or.inl h1, h2⟩
        · exact Or.inr ⟨e, Or.inl he, h1⟩
        · exact Or.inr ⟨_, Or.inr rfl, Or.inl ⟨rfl, rfl⟩⟩
        · exact Or.inr ⟨_, Or.inr rfl, Or.inr ⟨rfl, rfl⟩⟩
      · rintro (⟨h1 | ⟨rfl, rfl⟩, h2⟩ | ⟨e, he | rfl, h1⟩)
        · exact Or.inl (Or.inl (Or.inl ⟨h1, h2⟩))
        · exact absurd h2 hnpp
        · exact Or.inl (Or.inl (Or.inr ⟨e, he, h1⟩))
        · rcases h1 with ⟨rfl, rfl⟩ | ⟨rfl, rfl⟩
          · exact Or.inl (Or.inr ⟨rfl, rfl⟩)
          · exact Or.inr ⟨rfl, rfl⟩
    · simp only
      apply POK_addMove
      · apply POK_addMove
        · intro e he
          exact (h.hPOK e he).mono (fun q hq => List.mem_append_left _ hq) (fun x hx => hx)
        · exact ⟨hQP _ hk.1, hk.2.1, hk.2.2.imp (hGm _) id⟩
        · exact ⟨by simp, hxG⟩
      · exact ⟨by simp, Or.inr rfl, hxG⟩
      · exact ⟨hQP _ ht.1, ht.2.imp (hGm _) id⟩
    · simp only
      exact PP_addMove (PP_addMove h.hPP hpp1) hpp2

theorem ppInv_fold {P : SPDA} {dummy : String} (hd : dummy ≠ P.epsG) (L2 : List (SK × ST)) :
    ∀ (L : List (SK × ST)) (A : List ((SK × ST) × String)) (acc : PPAcc), PPInv P dummy L A acc →
    (∀ kt, kt ∈ L2 → (kt.1.1 ∈ P.Q ∧ (kt.1.2.1 ∈ P.Sigma ∨ kt.1.2.1 = P.eps) ∧ (kt.1.2.2 ∈ P.Gamma ∨ kt.1.2.2 = P.epsG)) ∧
      (kt.2.1 ∈ P.Q ∧ (kt.2.2 ∈ P.Gamma ∨ kt.2.2 = P.epsG))) →
    ∃ A', PPInv P dummy (L ++ L2) A' (L2.foldl (fun acc kt => ppStep1 P dummy kt.1 acc kt.2) acc) := by
  induction L2 with
  | nil => intro L A acc h _; exact ⟨A, by simpa using h⟩
  | cons kt L2 ih =>
    intro L A acc h hL2
    obtain ⟨A1, h1⟩ := ppInv_step hd h kt.1 kt.2 (hL2 kt List.mem_cons_self).1 (hL2 kt List.mem_cons_self).2
    obtain ⟨A2, h2⟩ := ih _ A1 _ h1 (fun x hx => hL2 x (List.mem_cons_of_mem _ hx))
    refine ⟨A2, ?_⟩
    rw [List.foldl_cons]
    simpa using h2

theorem nodup_snd_inj {α β : Type} {A : List (α × β)} (h : (A.map (·.2)).Nodup) {a a' : α} {b : β}
    (h1 : (a, b) ∈ A) (h2 : (a', b) ∈ A) : a = a' := by
  induction A with
  | nil => cases h1
  | cons x A ih =>
    simp only [List.map_cons, List.nodup_cons] at h
    rcases List.mem_cons.mp h1 with h1 | h1 <;> rcases List.mem_cons.mp h2 with h2 | h2
    · rw [← h2] at h1; exact (Prod.mk.inj h1).1
    · exact absurd (List.mem_map.mpr ⟨(a', b), h2, by rw [← h1]⟩) h.1
    · exact absurd (List.mem_map.mpr ⟨(a, b), h1, by rw [← h2]⟩) h.1
    · exact ih h.2 h1 h2

/-- the PDA rebuilt by `pda_to_push_pop_in_place` from `P` (after the single-accepting-state step) -/
def ppResult (P : SPDA) (dummy : String) : SPDA :=
  { P with Q := (ppFold P dummy).Q, Gamma := P.Gamma ++ [dummy], delta := (ppFold P dummy).delta }

theorem ppResult_spec (P : SPDA) (dummy : String) (hv : P.valid = true) (hk : (P.delta.map (·.1)).Nodup)
    (hd : dummy ≠ P.epsG) :
    (ppResult P dummy).valid = true ∧ (ppResult P dummy).isPushPop = true ∧
    ∀ w, (ppResult P dummy).Accepts w ↔ P.Accepts w := by
  obtain ⟨hq0, hεS, hεG, hFQ, _⟩ := (PDA_valid_iff P).mp hv
  have hfold : ppFold P dummy = (transList P.delta).foldl (fun acc kt => ppStep1 P dummy kt.1 acc kt.2)
      { Q := P.Q, delta := [] } := foldl_ppStep P dummy P.delta _
  obtain ⟨A, hI⟩ := ppInv_fold hd (transList P.delta) [] [] _ (ppInv_init P dummy) (by
    rintro ⟨⟨p, a, u⟩, ⟨q, v⟩⟩ hkt
    have := valid_Trans hv (show Trans P p a u q v from (mem_transList hk _ _).mp hkt)
    exact ⟨⟨this.1, this.2.1, this.2.2.1⟩, this.2.2.2⟩)
  rw [List.nil_append, ← hfold] at hI
  refine ⟨?_, ?_, ?_⟩
  · rw [PDA_valid_iff]
    refine ⟨(hI.hQ _).mpr (Or.inl hq0), hεS, ?_, fun f hf => (hI.hQ _).mpr (Or.inl (hFQ f hf)), hI.hPOK⟩
    simp only [ppResult, List.mem_append, List.mem_singleton, not_or]
    exact ⟨hεG, fun h => hd h.symm⟩
  · unfold PDA.isPushPop
    simp only [List.all_eq_true, Bool.or_eq_true, Bool.and_eq_true, decide_eq_true_eq]
    intro e he t ht
    exact hI.hPP e he t ht
  · refine pp_lang P (ppResult P dummy) dummy hv rfl rfl rfl rfl
      (fun p a u q v m => (((p, a, u), (q, v)), m) ∈ A) ?_ ?_ ?_ ?_ ?_
    · intro p a u q v m hM
      exact hI.hfresh _ hM
    · intro p a u q v p' a' u' q' v' m h1 h2
      have := nodup_snd_inj hI.hnd h1 h2
      simp only [Prod.mk.injEq] at this
      exact ⟨this.1.1, this.1.2.1, this.1.2.2, this.2.1, this.2.2⟩
    · intro p a u q v m hM
      exact (mem_transList hk _ _).mp (hI.hAL _ hM).1
    · intro p a u q v ht hnpp
      exact hI.hLA ((p, a, u), (q, v)) ((mem_transList hk _ _).mpr ht) hnpp
    · intro p' a' u' q' v'
      show dT (ppFold P dummy).delta (p', a', u') (q', v') ↔ _
      rw [hI.hdT, mem_transList hk]
      constructor
      · rintro (h | ⟨⟨⟨⟨p, a, u⟩, ⟨q, v⟩⟩, m⟩, he, h⟩)
        · exact Or.inl h
        · refine Or.inr ⟨p, a, u, q, v, m, he, ?_⟩
          simpa only [Prod.mk.injEq, and_assoc] using h
      · rintro (h | ⟨p, a, u, q, v, m, he, h⟩)
        · exact Or.inl h
        · refine Or.inr ⟨(((p, a, u), (q, v)), m), he, ?_⟩
          simpa only [Prod.mk.injEq, and_assoc] using h

theorem oneAcc_epsG (P : SPDA) : P.toOneAcceptingS.epsG = P.epsG ∧ P.toOneAcceptingS.Gamma = P.Gamma := by
  unfold SPDA.toOneAcceptingS PDA.toOneAccepting
  split <;> exact ⟨rfl, rfl⟩

theorem ppS_spec (P : SPDA) (hv : P.valid = true) (hk : (P.delta.map (·.1)).Nodup) (hd : P.epsG ≠ "∅")
    (P' : SPDA) (h : P.toPushPopS = .ok P') :
    P'.valid = true ∧ P'.isPushPop = true ∧ ∀ w, P'.Accepts w ↔ P.Accepts w := by
  obtain ⟨hv1, hk1, _, hl1⟩ := oneAcc_spec P hv hk (freshState P.Q "q_accept") (freshState_not_mem _ _)
  rw [toPushPopS_eq] at h
  split at h
  · cases h
  · cases h
    have hd' : "∅" ≠ P.toOneAcceptingS.epsG := by rw [(oneAcc_epsG P).1]; exact fun h => hd h.symm
    obtain ⟨r1, r2, r3⟩ := ppResult_spec P.toOneAcceptingS "∅" hv1 hk1 hd'
    exact ⟨r1, r2, fun w => (r3 w).trans (hl1 w)⟩

/-! ### concrete automata for the non-vacuity examples of Props/C10a -/

/-- accepts `a` with the non-empty stack `[x]`: the witness of the repaired defect -/
def exNE : SPDA :=
  { Q := ["q0", "q1"], Sigma := ["a"], Gamma := ["x"], delta := [(("q0", "a", "eps"), [("q1", "x")])],
    q0 := "q0", F := ["q1"], eps := "eps", epsG := "eps" }

/-- two accepting states (one with an outgoing move), a no-op and a replace transition -/
def exNO : SPDA :=
  { Q := ["q0", "q1", "q2"], Sigma := ["a"], Gamma := ["x", "y"],
    delta := [(("q0", "a", "eps"), [("q1", "x"), ("q0", "eps")]), (("q1", "eps", "x"), [("q2", "y")])],
    q0 := "q0", F := ["q1", "q2"], eps := "eps", epsG := "eps" }

/-- `exNE` with `$` as its ε -/
def exDollar : SPDA :=
  { Q := ["q0", "q1"], Sigma := ["a"], Gamma := ["x"], delta := [(("q0", "a", "$"), [("q1", "x")])],
    q0 := "q0", F := ["q1"], eps := "$", epsG := "$" }

/-- `exNE` with `∅` as its ε -/
def exEmptySet : SPDA :=
  { Q := ["q0", "q1"], Sigma := ["a"], Gamma := ["x"], delta := [(("q0", "a", "∅"), [("q1", "x")])],
    q0 := "q0", F := ["q1"], eps := "∅", epsG := "∅" }

/-- the original automaton accepts `a` with the stack `[x]` … -/
theorem exNE_run : exNE.Run (exNE.q0, []) ["a"] ("q1", ["x"]) :=
  .sym (by decide) (PDA.Move_of_mem_moves (by decide) (by decide)) (.nil _)

theorem exNE_accepts : exNE.Accepts ["a"] := ⟨"q1", ["x"], by decide, exNE_run⟩

/-- the defect witness: `toAcceptOnEmptyStackS` evaluated -/
theorem exNE_emptyStackS : exNE.toAcceptOnEmptyStackS = .ok
    { Q := ["q0", "q1", "q_initial1", "q_drain1", "q_accept1"], Sigma := ["a"], Gamma := ["x", "$"],
      delta := [(("q0", "a", "eps"), [("q1", "x")]),
                (("q_initial1", "eps", "eps"), [("q0", "$")]),
                (("q1", "eps", "eps"), [("q_drain1", "eps")]),
                (("q_drain1", "eps", "x"), [("q_drain1", "eps")]),
                (("q_drain1", "eps", "$"), [("q_accept1", "eps")])],
      q0 := "q_initial1", F := ["q_accept1"], eps := "eps", epsG := "eps" } := by rfl

theorem exNE_marker : freshSymbol exNE.Gamma ≠ .ok exNE.epsG := by
  have h : freshSymbol exNE.Gamma = .ok "$" := rfl
  rw [h]
  intro h'
  exact absurd (Except.ok.inj h') (by decide)

theorem exNO_pushPopS : exNO.toPushPopS = .ok
    { Q := ["q0", "q1", "q2", "q_accept1", "M1", "M2", "M3", "M4"], Sigma := ["a"], Gamma := ["x", "y", "∅"],
      delta := [(("q0", "a", "eps"), [("q1", "x"), ("M1", "∅")]),
                (("M1", "eps", "∅"), [("q0", "eps")]),
                (("q1", "eps", "x"), [("M2", "eps")]),
                (("M2", "eps", "eps"), [("q2", "y")]),
                (("q1", "eps", "eps"), [("M3", "∅")]),
                (("M3", "eps", "∅"), [("q_accept1", "eps")]),
                (("q2", "eps", "eps"), [("M4", "∅")]),
                (("M4", "eps", "∅"), [("q_accept1", "eps")])],
      q0 := "q0", F := ["q_accept1"], eps := "eps", epsG := "eps" } := by rfl


end C10a
end Gamba
