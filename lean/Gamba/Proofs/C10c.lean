/-
  Gamba.Proofs.C10c — helper lemmas for property C10 (part c): the end-to-end correctness of the model of
  `pda_to_cfg` (`SPDA.toCfg` = empty-stack normalisation, push/pop normalisation, Sipser's triple construction).
  * names: `pdaVar p q = p ++ "'" ++ q` is injective on names without the character `'`, and the names made by
    `freshState` from a quote-free hint are quote-free;
  * the push/pop normalisation preserves computations between old states together with their stacks, hence
    "accepts only with the empty stack" survives it.
-/
import Gamba.Model.PDA
import Gamba.Spec.PDA
import Gamba.Spec.CFG
import Gamba.Proofs.C14a
import Gamba.Proofs.C10a
import Gamba.Proofs.C10b
namespace Gamba
namespace C10c

open C10a

/-! ### quote-free names -/

/-- the name does not contain the character `'` -/
def NoQ (s : String) : Prop := '\'' ∉ s.toList

instance (s : String) : Decidable (NoQ s) := by unfold NoQ; infer_instance

theorem noQ_append {s t : String} (hs : NoQ s) (ht : NoQ t) : NoQ (s ++ t) := by
  unfold NoQ at *
  rw [String.toList_append, List.mem_append]
  exact fun h => h.elim hs ht

theorem noQ_toString (n : Nat) : NoQ (toString n) := by
  show '\'' ∉ (Nat.repr n).toList
  rw [Nat.toList_repr]
  intro h
  have := Nat.isDigit_of_mem_toDigits (by decide) (by decide) h
  exact absurd this (by decide)

theorem freshStateAux_eq (Q : List String) (hint : String) (fuel i : Nat) :
    ∃ j : Nat, freshStateAux Q hint fuel i = hint ++ toString j := by
  induction fuel generalizing i with
  | zero => exact ⟨i, rfl⟩
  | succ fuel ih =>
    unfold freshStateAux
    split
    · exact ih (i + 1)
    · exact ⟨i, rfl⟩

theorem noQ_freshState (Q : List String) {hint : String} (h : NoQ hint) : NoQ (freshState Q hint) := by
  obtain ⟨j, hj⟩ := freshStateAux_eq Q hint (Q.length + 1) 1
  unfold freshState
  rw [hj]
  exact noQ_append h (noQ_toString j)

theorem list_split_inj {α : Type} {c : α} :
    ∀ {l l' r r' : List α}, c ∉ l → c ∉ l' → l ++ c :: r = l' ++ c :: r' → l = l' ∧ r = r'
  | [], [], _, _, _, _, h => by simpa using h
  | [], x :: l', _, _, _, h2, h => by
    simp only [List.nil_append, List.cons_append, List.cons.injEq] at h
    exact absurd (h.1 ▸ List.mem_cons_self) h2
  | x :: l, [], _, _, h1, _, h => by
    simp only [List.nil_append, List.cons_append, List.cons.injEq] at h
    exact absurd (h.1 ▸ List.mem_cons_self) h1
  | x :: l, y :: l', _, _, h1, h2, h => by
    simp only [List.cons_append, List.cons.injEq] at h
    obtain ⟨ih1, ih2⟩ := list_split_inj (fun hc => h1 (List.mem_cons_of_mem _ hc))
      (fun hc => h2 (List.mem_cons_of_mem _ hc)) h.2
    exact ⟨by rw [h.1, ih1], ih2⟩

theorem pdaVar_inj {p q p' q' : String} (hp : NoQ p) (hp' : NoQ p') (h : pdaVar p q = pdaVar p' q') :
    p = p' ∧ q = q' := by
  have h' := congrArg String.toList h
  simp only [pdaVar, String.toList_append] at h'
  have hq : "'".toList = ['\''] := by decide
  rw [hq, List.append_assoc, List.append_assoc] at h'
  obtain ⟨h1, h2⟩ := list_split_inj hp hp' h'
  exact ⟨String.toList_inj.mp h1, String.toList_inj.mp h2⟩

theorem varInj_of_noQ (P : SPDA) (h : ∀ q, q ∈ P.Q → NoQ q) : P.VarInj :=
  fun _ _ _ _ hp _ hp' _ he => pdaVar_inj (h _ hp) (h _ hp') he

/-! ### the push/pop normalisation preserves computations between old states, with their stacks -/

section
variable {σ τ γ : Type} [DecidableEq σ] [DecidableEq τ] [DecidableEq γ]

/-- (the run-correspondence inside `C10a.pp_lang`, exported) a computation of the split automaton `P'` between
    two states of `P` is a computation of `P` between the same configurations -/
theorem pp_runs (P P' : PDA σ τ γ) (dummy : γ) (hv : P.valid = true)
    (he : P'.eps = P.eps) (hG : P'.epsG = P.epsG)
    (M : σ → τ → γ → σ → γ → σ → Prop)
    (hMfresh : ∀ p a u q v m, M p a u q v m → m ∉ P.Q)
    (hMinj : ∀ p a u q v p' a' u' q' v' m, M p a u q v m → M p' a' u' q' v' m →
      p = p' ∧ a = a' ∧ u = u' ∧ q = q' ∧ v = v')
    (hMdom : ∀ p a u q v m, M p a u q v m → Trans P p a u q v)
    (hT : ∀ p' a' u' q' v', Trans P' p' a' u' q' v' ↔ (Trans P p' a' u' q' v' ∧ isPP P u' v') ∨
      ∃ p a u q v m, M p a u q v m ∧
        ((p' = p ∧ a' = a ∧ u' = u ∧ q' = m ∧ v' = midSym P dummy u) ∨
         (p' = m ∧ a' = P.eps ∧ u' = midSym P dummy u ∧ q' = q ∧ v' = v)))
    {c c'' : PConf σ γ} {w : List τ} (hr : P'.Run c w c'') (hc : c.1 ∈ P.Q) (hc'' : c''.1 ∈ P.Q) :
    P.Run c w c'' := by
  have hstk : ∀ x, P'.stk x = P.stk x := stk_congr hG
  have step : ∀ (c'' : PConf σ γ) (a : τ) (c c1 : PConf σ γ) (w w' : List τ), P'.Move a c c1 →
      (∀ x y, P.Move a x y → P.Run y w c'' → P.Run x w' c'') → (a = P.eps → w' = w) →
      PPGood P dummy M c'' c1 w → PPGood P dummy M c'' c w' := by
    intro c'' a c c1 w w' hm ext hw hgood
    obtain ⟨p', u', q', v', st, ht, rfl, rfl⟩ := Move_iff.mp hm
    simp only [hstk] at hgood ⊢
    rcases (hT _ _ _ _ _).mp ht with ⟨ht, _⟩ | ⟨p, a0, u, q, v, m, hM, ⟨rfl, rfl, rfl, rfl, rfl⟩ | ⟨rfl, rfl, rfl, rfl, rfl⟩⟩
    · have hQ := valid_Trans hv ht
      refine ⟨fun _ => ext _ _ (Move_iff.mpr ⟨_, _, _, _, st, ht, rfl, rfl⟩) (hgood.1 hQ.2.2.2.1), ?_⟩
      intro p a0 u q v hM
      exact absurd hQ.1 (hMfresh _ _ _ _ _ _ hM)
    · have ht := hMdom _ _ _ _ _ _ hM
      have hQ := valid_Trans hv ht
      refine ⟨fun _ => ?_, ?_⟩
      · obtain ⟨st2, h1, h2⟩ := hgood.2 _ _ _ _ _ hM
        have := stk_midSym_cancel h1
        subst this
        exact ext _ _ (Move_iff.mpr ⟨_, _, _, _, st, ht, rfl, rfl⟩) h2
      · intro p2 a2 u2 q2 v2 hM2
        exact absurd hQ.1 (hMfresh _ _ _ _ _ _ hM2)
    · have ht := hMdom _ _ _ _ _ _ hM
      have hQ := valid_Trans hv ht
      refine ⟨fun hc => absurd hc (hMfresh _ _ _ _ _ _ hM), ?_⟩
      intro p2 a2 u2 q2 v2 hM2
      obtain ⟨rfl, rfl, rfl, rfl, rfl⟩ := hMinj _ _ _ _ _ _ _ _ _ _ _ hM2 hM
      rw [hw rfl]
      exact ⟨st, rfl, hgood.1 hQ.2.2.2.1⟩
  have key : ∀ c w c'', P'.Run c w c'' → c''.1 ∈ P.Q → PPGood P dummy M c'' c w := by
    intro c w c'' hr hc''
    induction hr with
    | nil c =>
      refine ⟨fun _ => .nil c, ?_⟩
      intro p a u q v hM
      exact absurd hc'' (hMfresh _ _ _ _ _ _ hM)
    | @eps c c1 c2 w hm hr ih =>
      rw [he] at hm
      exact step _ _ _ _ _ _ hm (fun x y hxy hr => .eps hxy hr) (fun _ => rfl) (ih hc'')
    | @sym c c1 c2 a w ha hm hr ih =>
      rw [he] at ha
      exact step _ _ _ _ _ _ hm (fun x y hxy hr => .sym ha hxy hr) (fun h => absurd h ha) (ih hc'')
  exact (key _ _ _ hr hc'').1 hc

end

/-- what `C10a.ppResult_spec` does not export: unique keys, and the run correspondence -/
theorem ppResult_spec2 (P : SPDA) (dummy : String) (hv : P.valid = true) (hk : (P.delta.map (·.1)).Nodup)
    (hd : dummy ≠ P.epsG) :
    ((ppResult P dummy).delta.map (·.1)).Nodup ∧
    ∀ (c c'' : PConf String String) (w : List String), (ppResult P dummy).Run c w c'' → c.1 ∈ P.Q → c''.1 ∈ P.Q →
      P.Run c w c'' := by
  have hfold : ppFold P dummy = (transList P.delta).foldl (fun acc kt => ppStep1 P dummy kt.1 acc kt.2)
      { Q := P.Q, delta := [] } := foldl_ppStep P dummy P.delta _
  obtain ⟨A, hI⟩ := ppInv_fold hd (transList P.delta) [] [] _ (ppInv_init P dummy) (by
    rintro ⟨⟨p, a, u⟩, ⟨q, v⟩⟩ hkt
    have := valid_Trans hv (show Trans P p a u q v from (mem_transList hk _ _).mp hkt)
    exact ⟨⟨this.1, this.2.1, this.2.2.1⟩, this.2.2.2⟩)
  rw [List.nil_append, ← hfold] at hI
  refine ⟨hI.hkeys, ?_⟩
  intro c c'' w hr hc hc''
  refine pp_runs P (ppResult P dummy) dummy hv rfl rfl
      (fun p a u q v m => (((p, a, u), (q, v)), m) ∈ A) ?_ ?_ ?_ ?_ hr hc hc''
  · intro p a u q v m hM
    exact hI.hfresh _ hM
  · intro p a u q v p' a' u' q' v' m h1 h2
    have := nodup_snd_inj hI.hnd h1 h2
    simp only [Prod.mk.injEq] at this
    exact ⟨this.1.1, this.1.2.1, this.1.2.2, this.2.1, this.2.2⟩
  · intro p a u q v m hM
    exact (mem_transList hk _ _).mp (hI.hAL _ hM).1
  · intro p' a' u' q' v'
    show dT (ppFold P dummy).delta (p', a', u') (q', v') ↔ _
    rw [hI.hdT, mem_transList hk]
    constructor
    · rintro (h | ⟨⟨⟨⟨p, a, u⟩, ⟨q, v⟩⟩, m⟩, he, h⟩)
      · exact Or.inl h
      · refine Or.inr ⟨p, a, u, q, v, m, he, ?_⟩
        simpa only [Prod.mk.injEq, and_assoc] using h
    · rintro (h | ⟨p, a, u, q, v, m, he, h⟩)
      · exact Or.inl h
      · refine Or.inr ⟨(((p, a, u), (q, v)), m), he, ?_⟩
        simpa only [Prod.mk.injEq, and_assoc] using h

/-- the intermediate states are called `M<i>`: no quote -/
theorem ppFold_noQ (P : SPDA) (dummy : String) (h : ∀ q, q ∈ P.Q → NoQ q) :
    ∀ q, q ∈ (ppFold P dummy).Q → NoQ q := by
  unfold ppFold
  apply foldl_inv (fun acc : PPAcc => ∀ q, q ∈ acc.Q → NoQ q)
  · intro acc e _ hacc
    unfold ppStep
    apply foldl_inv (fun acc : PPAcc => ∀ q, q ∈ acc.Q → NoQ q)
    · intro acc t _ hacc
      unfold ppStep1
      split
      · exact hacc
      · intro q hq
        simp only [List.mem_append, List.mem_singleton] at hq
        rcases hq with hq | rfl
        · exact hacc q hq
        · exact noQ_freshState _ (by decide)
    · exact hacc
  · exact h

/-! ### the normalisation pipeline of `pda_to_cfg` -/

theorem oneAccS_id {P : SPDA} (h : (dedup P.F).length = 1) : P.toOneAcceptingS = P := by
  unfold SPDA.toOneAcceptingS PDA.toOneAccepting
  rw [if_pos h]

/-- everything the triple construction needs holds for the normalised automaton -/
theorem normalize_spec (P : SPDA) (hv : P.valid = true) (hk : (P.delta.map (·.1)).Nodup) (heq : P.epsG = P.eps)
    (hε : freshSymbol P.Gamma ≠ .ok P.epsG) (hd : P.epsG ≠ "∅") (hnames : ∀ q, q ∈ P.Q → NoQ q)
    (P' : SPDA) (h : P.normalizeForCfg = .ok P') :
    ∃ qa, P'.F = [qa] ∧ P'.valid = true ∧ (P'.delta.map (·.1)).Nodup ∧ P'.isPushPop = true ∧ P'.VarInj ∧
      P'.epsG = P'.eps ∧ (∀ w st, P'.Run (P'.q0, []) w (qa, st) → st = []) ∧ ∀ w, P'.Accepts w ↔ P.Accepts w := by
  unfold SPDA.normalizeForCfg at h
  simp only [Bool.false_eq_true, if_false] at h
  cases h1 : P.toAcceptOnEmptyStackS with
  | error e => rw [h1] at h; cases h
  | ok P1 =>
    rw [h1] at h
    obtain ⟨hv1, hk1, hl1, hes1⟩ := esS_spec P hv hk hε P1 h1
    obtain ⟨b, hb, hP1⟩ := esS_eq h1
    generalize hqi : freshState P.Q "q_initial" = qi at hP1
    generalize hqd : freshState (sinsert P.Q qi) "q_drain" = qd at hP1
    generalize hqa : freshState (sinsert (sinsert P.Q qi) qd) "q_accept" = qa at hP1
    have nqi : NoQ qi := hqi ▸ noQ_freshState _ (by decide)
    have nqd : NoQ qd := hqd ▸ noQ_freshState _ (by decide)
    have nqa : NoQ qa := hqa ▸ noQ_freshState _ (by decide)
    have hF1 : P1.F = [qa] := by rw [hP1]; rfl
    have he1 : P1.eps = P.eps := by rw [hP1]; rfl
    have hG1 : P1.epsG = P.epsG := by rw [hP1]; rfl
    have hQ1 : ∀ q, q ∈ P1.Q → NoQ q := by
      intro q hq
      rw [hP1] at hq
      simp only [PDA.toAcceptOnEmptyStack, mem_sinsert] at hq
      rcases hq with ((hq | rfl) | rfl) | rfl
      · exact hnames q hq
      · exact nqi
      · exact nqd
      · exact nqa
    have hded : (dedup P1.F).length = 1 := by rw [hF1]; simp [dedup]
    have heq1 : P1.epsG = P1.eps := by rw [he1, hG1]; exact heq
    have hes1' : ∀ w st, P1.Run (P1.q0, []) w (qa, st) → st = [] :=
      fun w st hr => hes1 w qa st (by rw [hF1]; exact List.mem_singleton.mpr rfl) hr
    simp only [bind, Except.bind, pure, Except.pure, ne_eq, hded, not_true_eq_false, if_false] at h
    by_cases hpp : P1.isPushPop = true
    · rw [if_pos hpp] at h
      cases h
      exact ⟨qa, hF1, hv1, hk1, hpp, varInj_of_noQ _ hQ1, heq1, hes1', hl1⟩
    · rw [if_neg hpp, toPushPopS_eq, oneAccS_id hded] at h
      split at h
      · cases h
      · cases h
        have hd' : "∅" ≠ P1.epsG := by rw [hG1]; exact fun h => hd h.symm
        obtain ⟨r1, r2, r3⟩ := ppResult_spec P1 "∅" hv1 hk1 hd'
        obtain ⟨r4, r5⟩ := ppResult_spec2 P1 "∅" hv1 hk1 hd'
        obtain ⟨hq0Q, _, _, hFQ, _⟩ := (PDA_valid_iff P1).mp hv1
        refine ⟨qa, hF1, r1, r4, r2, varInj_of_noQ _ (ppFold_noQ P1 "∅" hQ1), heq1, ?_, fun w => (r3 w).trans (hl1 w)⟩
        intro w st hr
        exact hes1' w st (r5 _ _ _ hr hq0Q (hFQ qa (by rw [hF1]; exact List.mem_singleton.mpr rfl)))

/-- `toCfg` is the triple grammar of the normalised automaton -/
theorem toCfg_eq {P : SPDA} {G : CFG} (h : P.toCfg = .ok G) :
    ∃ P' qa l, P.normalizeForCfg = .ok P' ∧ P'.F = qa :: l ∧ G = P'.tripleCfg qa := by
  unfold SPDA.toCfg at h
  cases hn : P.normalizeForCfg with
  | error e => rw [hn] at h; cases h
  | ok P' =>
    rw [hn] at h
    simp only [bind, Except.bind] at h
    cases hF : P'.F with
    | nil => rw [hF] at h; cases h
    | cons qa l =>
      rw [hF] at h
      simp only [pure, Except.pure, Except.ok.injEq] at h
      exact ⟨P', qa, l, rfl, hF, h.symm⟩

/-! ### the concrete automaton for the non-vacuity example of Props/C10c -/

/-- the normal form of `C10a.exNE` (`q0 --a,ε→x--> q1`, `F = [q1]`): marker `$`, drain state, and the no-op move
    `q1 --ε,ε→ε--> q_drain1` split through `M1` -/
def exNEnorm : SPDA :=
  { Q := ["q0", "q1", "q_initial1", "q_drain1", "q_accept1", "M1"], Sigma := ["a"], Gamma := ["x", "$", "∅"],
    delta := [(("q0", "a", "eps"), [("q1", "x")]),
              (("q_initial1", "eps", "eps"), [("q0", "$")]),
              (("q1", "eps", "eps"), [("M1", "∅")]),
              (("M1", "eps", "∅"), [("q_drain1", "eps")]),
              (("q_drain1", "eps", "x"), [("q_drain1", "eps")]),
              (("q_drain1", "eps", "$"), [("q_accept1", "eps")])],
    q0 := "q_initial1", F := ["q_accept1"], eps := "eps", epsG := "eps" }

theorem exNE_normalize : exNE.normalizeForCfg = .ok exNEnorm := by rfl

theorem exNE_toCfg : exNE.toCfg = .ok (exNEnorm.tripleCfg "q_accept1") := by
  unfold SPDA.toCfg
  rw [exNE_normalize]
  rfl

end C10c
end Gamba
