/-
  Gamba.Proofs.C06b — helper lemmas for `dfa_to_gnfa`, `gnfa_minimize` (state ripping in any order)
  and `dfa_to_regexp`: label characterisations, path surgery, the elimination invariant.
-/
import Gamba.Model.GNFA
import Gamba.Spec.Automata
import Gamba.Spec.Regexp
import Gamba.Spec.GNFA
import Gamba.Proofs.C05
import Gamba.Proofs.DFABasic
namespace Gamba
namespace C06b
set_option linter.unusedSectionVars false

/-! ### association lists -/
section DictLemmas
variable {κ ν : Type} [DecidableEq κ] [BEq κ] [LawfulBEq κ]

theorem lookup_cons_ite (d : List (κ × ν)) (k1 : κ) (v1 : ν) (k : κ) :
    List.lookup k ((k1, v1) :: d) = if k = k1 then some v1 else d.lookup k := by
  rw [List.lookup_cons]
  by_cases h : k = k1
  · subst h; simp
  · have hb : (k == k1) = false := by simp [h]
    rw [hb]; simp [h]

theorem lookup_set (d : Dict κ ν) (k : κ) (v : ν) (k' : κ) :
    (d.set k v).lookup k' = if k' = k then some v else d.lookup k' := by
  induction d with
  | nil => simp only [Dict.set, lookup_cons_ite, List.lookup_nil]
  | cons e d ih =>
    obtain ⟨k1, v1⟩ := e
    simp only [Dict.set]
    by_cases h1 : k1 = k
    · subst h1
      simp only [if_true, lookup_cons_ite]
      split <;> simp_all
    · simp only [h1, if_false, lookup_cons_ite, ih]
      by_cases h2 : k' = k1
      · subst h2; simp [h1]
      · simp [h2]

/-- with unique keys every binding is the first one -/
theorem lookup_of_mem_nodup {l : List (κ × ν)} (hnd : (l.map (·.1)).Nodup) {k : κ} {v : ν}
    (h : (k, v) ∈ l) : l.lookup k = some v := by
  induction l with
  | nil => cases h
  | cons e l ih =>
    obtain ⟨k', v'⟩ := e
    rw [List.map_cons, List.nodup_cons] at hnd
    rw [List.lookup_cons]
    rcases List.mem_cons.mp h with he | he
    · simp only [Prod.mk.injEq] at he
      obtain ⟨rfl, rfl⟩ := he
      simp
    · have hk : k ≠ k' := by
        rintro rfl
        exact hnd.1 (List.mem_map.mpr ⟨(k, v), he, rfl⟩)
      rw [beq_eq_false_iff_ne.mpr hk]
      exact ih hnd.2 he

end DictLemmas

variable {σ τ : Type} [DecidableEq σ] [DecidableEq τ]

/-! ### `dfa_to_gnfa`: the transition table -/

/-- one step of the fold over `D.delta` -/
def addSym (d : Dict (σ × σ) (Regexp τ)) (e : (σ × τ) × σ) : Dict (σ × σ) (Regexp τ) :=
  match d.lookup (e.1.1, e.2) with
  | some r => d.set (e.1.1, e.2) (.sum r (.sym e.1.2))
  | none => d.set (e.1.1, e.2) (.sym e.1.2)

theorem toGnfa_delta (D : DFA σ τ) (qs qa : σ) :
    (D.toGnfa qs qa).delta =
      D.delta.foldl addSym (D.F.foldl (fun d q => d.set (q, qa) Regexp.one) [((qs, D.q0), Regexp.one)]) := rfl

theorem lookup_foldF (F : List σ) (qa : σ) (d : Dict (σ × σ) (Regexp τ)) (x y : σ) :
    (F.foldl (fun d q => d.set (q, qa) Regexp.one) d).lookup (x, y) =
      if y = qa ∧ x ∈ F then some .one else d.lookup (x, y) := by
  induction F generalizing d with
  | nil => simp
  | cons f F ih =>
    rw [List.foldl_cons, ih, lookup_set]
    by_cases h1 : y = qa ∧ x ∈ F
    · rw [if_pos h1, if_pos ⟨h1.1, List.mem_cons_of_mem _ h1.2⟩]
    · rw [if_neg h1]
      by_cases h2 : (x, y) = (f, qa)
      · rw [if_pos h2]
        simp only [Prod.mk.injEq] at h2
        rw [if_pos ⟨h2.2, h2.1 ▸ List.mem_cons_self⟩]
      · rw [if_neg h2, if_neg]
        rintro ⟨hy, hx⟩
        rcases List.mem_cons.mp hx with rfl | hx
        · exact h2 (by rw [hy])
        · exact h1 ⟨hy, hx⟩

theorem lookup_addSym_other (d : Dict (σ × σ) (Regexp τ)) (e : (σ × τ) × σ) (k : σ × σ)
    (h : k ≠ (e.1.1, e.2)) : (addSym d e).lookup k = d.lookup k := by
  unfold addSym
  split <;> rw [lookup_set, if_neg h]

theorem lang_lookup_addSym (d : Dict (σ × σ) (Regexp τ)) (e : (σ × τ) × σ) (k : σ × σ) (w : List τ) :
    (((addSym d e).lookup k).getD .zero).Lang w ↔
      ((d.lookup k).getD .zero).Lang w ∨ (k = (e.1.1, e.2) ∧ w = [e.1.2]) := by
  by_cases h : k = (e.1.1, e.2)
  · subst h
    unfold addSym
    split
    · rename_i r hr
      rw [lookup_set, if_pos rfl, hr]
      simp only [Option.getD_some, Regexp.lang_sum, Regexp.lang_sym, true_and]
    · rename_i hr
      rw [lookup_set, if_pos rfl, hr]
      simp only [Option.getD_some, Option.getD_none, Regexp.lang_zero, Regexp.lang_sym, true_and, false_or]
  · rw [lookup_addSym_other d e k h]
    simp [h]

theorem lookup_foldAddSym_other (l : List ((σ × τ) × σ)) (d : Dict (σ × σ) (Regexp τ)) (k : σ × σ)
    (h : ∀ e, e ∈ l → k ≠ (e.1.1, e.2)) : (l.foldl addSym d).lookup k = d.lookup k := by
  induction l generalizing d with
  | nil => rfl
  | cons e l ih =>
    rw [List.foldl_cons, ih _ (fun e' he' => h e' (List.mem_cons_of_mem _ he')),
      lookup_addSym_other d e k (h e List.mem_cons_self)]

theorem lang_lookup_foldAddSym (l : List ((σ × τ) × σ)) (d : Dict (σ × σ) (Regexp τ)) (k : σ × σ)
    (w : List τ) :
    (((l.foldl addSym d).lookup k).getD .zero).Lang w ↔
      ((d.lookup k).getD .zero).Lang w ∨ ∃ e, e ∈ l ∧ k = (e.1.1, e.2) ∧ w = [e.1.2] := by
  induction l generalizing d with
  | nil => simp
  | cons e l ih =>
    rw [List.foldl_cons, ih, lang_lookup_addSym]
    constructor
    · rintro ((h | h) | ⟨e', he', h⟩)
      · exact Or.inl h
      · exact Or.inr ⟨e, List.mem_cons_self, h⟩
      · exact Or.inr ⟨e', List.mem_cons_of_mem _ he', h⟩
    · rintro (h | ⟨e', he', h⟩)
      · exact Or.inl (Or.inl h)
      · rcases List.mem_cons.mp he' with rfl | he'
        · exact Or.inl (Or.inr h)
        · exact Or.inr ⟨e', he', h⟩

/-! ### generic facts on GNFA paths -/

theorem Path.src_mem {G : GNFA σ τ} {p r : σ} {w : List τ} (h : G.Path p w r) : p ∈ G.Q := by
  cases h with
  | one hp _ _ => exact hp
  | cons hp _ _ _ => exact hp

theorem Path.dst_mem {G : GNFA σ τ} {p r : σ} {w : List τ} (h : G.Path p w r) : r ∈ G.Q := by
  induction h with
  | one _ hr _ => exact hr
  | cons _ _ _ _ ih => exact ih

theorem Path.first_edge {G : GNFA σ τ} {p r : σ} {w : List τ} (h : G.Path p w r) :
    ∃ m u, (G.get p m).Lang u := by
  cases h with
  | one _ _ hl => exact ⟨_, _, hl⟩
  | cons _ _ hl _ => exact ⟨_, _, hl⟩

theorem Path.last_edge {G : GNFA σ τ} {p r : σ} {w : List τ} (h : G.Path p w r) :
    ∃ m u, (G.get m r).Lang u := by
  induction h with
  | one _ _ hl => exact ⟨_, _, hl⟩
  | cons _ _ _ _ ih => exact ih

theorem no_path_from_accept {G : GNFA σ τ} (hp : G.Proper) {r : σ} {w : List τ} :
    ¬ G.Path G.qAccept w r := by
  intro h
  obtain ⟨m, u, hl⟩ := Path.first_edge h
  rw [hp.2.2.2.2 m] at hl
  exact Regexp.lang_zero.1 hl

theorem no_path_into_start {G : GNFA σ τ} (hp : G.Proper) {p : σ} {w : List τ} :
    ¬ G.Path p w G.qStart := by
  intro h
  obtain ⟨m, u, hl⟩ := Path.last_edge h
  rw [hp.2.2.2.1 m] at hl
  exact Regexp.lang_zero.1 hl

theorem Path.trans {G : GNFA σ τ} {p m r : σ} {u v : List τ} (h1 : G.Path p u m) (h2 : G.Path m v r) :
    G.Path p (u ++ v) r := by
  induction h1 with
  | one hp _ hl => exact GNFA.Path.cons hp (Path.src_mem h2) hl h2
  | cons hp hr hl _ ih =>
    rw [List.append_assoc]
    exact GNFA.Path.cons hp hr hl (ih h2)

/-! ### `dfa_to_gnfa`: labels, properness, language -/
section ToGnfa
variable (D : DFA σ τ) (qs qa : σ)

theorem toGnfa_get_lang (p r : σ) (w : List τ) :
    ((D.toGnfa qs qa).get p r).Lang w ↔
      (((r = qa ∧ p ∈ D.F) ∨ (p = qs ∧ r = D.q0)) ∧ w = []) ∨ ∃ a, ((p, a), r) ∈ D.delta ∧ w = [a] := by
  unfold GNFA.get
  rw [toGnfa_delta, lang_lookup_foldAddSym, lookup_foldF, lookup_cons_ite, List.lookup_nil]
  apply or_congr
  · by_cases h1 : r = qa ∧ p ∈ D.F
    · simp [h1, Regexp.lang_one]
    · rw [if_neg h1]
      by_cases h2 : (p, r) = (qs, D.q0)
      · rw [if_pos h2]
        simp only [Prod.mk.injEq] at h2
        simp [h2, Regexp.lang_one]
      · rw [if_neg h2]
        simp only [Prod.mk.injEq] at h2
        simp [h1, h2]
  · constructor
    · rintro ⟨⟨⟨p', a⟩, r'⟩, he, hk, hw⟩
      simp only [Prod.mk.injEq] at hk
      obtain ⟨rfl, rfl⟩ := hk
      exact ⟨a, he, hw⟩
    · rintro ⟨a, he, hw⟩
      exact ⟨((p, a), r), he, rfl, hw⟩

variable (hv : D.valid = true) (hs : qs ∉ D.Q) (ha : qa ∉ D.Q) (hne : qs ≠ qa)
include hv hs ha hne

theorem toGnfa_get_into_start (p : σ) : (D.toGnfa qs qa).get p qs = .zero := by
  unfold GNFA.get
  rw [toGnfa_delta, lookup_foldAddSym_other, lookup_foldF, if_neg, lookup_cons_ite, if_neg, List.lookup_nil]
  · rfl
  · intro h
    simp only [Prod.mk.injEq] at h
    exact hs (h.2 ▸ DFA.valid_q0 hv)
  · rintro ⟨h, _⟩; exact hne h
  · rintro ⟨⟨p', a⟩, r'⟩ he h
    simp only [Prod.mk.injEq] at h
    exact hs (h.2 ▸ (DFA.valid_closed hv he).2.2)

theorem toGnfa_get_from_accept (p : σ) : (D.toGnfa qs qa).get qa p = .zero := by
  unfold GNFA.get
  rw [toGnfa_delta, lookup_foldAddSym_other, lookup_foldF, if_neg, lookup_cons_ite, if_neg, List.lookup_nil]
  · rfl
  · intro h
    simp only [Prod.mk.injEq] at h
    exact hne h.1.symm
  · rintro ⟨_, h⟩; exact ha (DFA.valid_F hv h)
  · rintro ⟨⟨p', a⟩, r'⟩ he h
    simp only [Prod.mk.injEq] at h
    exact ha (h.1 ▸ (DFA.valid_closed hv he).1)

theorem toGnfa_mem_Q (q : σ) : q ∈ (D.toGnfa qs qa).Q ↔ q ∈ D.Q ∨ q = qs ∨ q = qa := by
  show q ∈ sinsert (sinsert D.Q qa) qs ↔ _
  simp only [mem_sinsert]
  constructor
  · rintro ((h | h) | h)
    · exact Or.inl h
    · exact Or.inr (Or.inr h)
    · exact Or.inr (Or.inl h)
  · rintro (h | h | h)
    · exact Or.inl (Or.inl h)
    · exact Or.inr h
    · exact Or.inl (Or.inr h)

theorem toGnfa_proper : (D.toGnfa qs qa).Proper := by
  refine ⟨?_, ?_, hne, toGnfa_get_into_start D qs qa hv hs ha hne, toGnfa_get_from_accept D qs qa hv hs ha hne⟩
  · exact (toGnfa_mem_Q D qs qa hv hs ha hne qs).2 (Or.inr (Or.inl rfl))
  · exact (toGnfa_mem_Q D qs qa hv hs ha hne qa).2 (Or.inr (Or.inr rfl))

theorem toGnfa_path_of_run {p f : σ} {w : List τ} (hr : D.Run p w f) (hp : p ∈ D.Q) (hf : f ∈ D.F) :
    (D.toGnfa qs qa).Path p w qa := by
  have hmem := toGnfa_mem_Q D qs qa hv hs ha hne
  induction hr with
  | nil q =>
    exact GNFA.Path.one ((hmem _).2 (Or.inl hp)) ((hmem _).2 (Or.inr (Or.inr rfl)))
      ((toGnfa_get_lang D qs qa _ _ _).2 (Or.inl ⟨Or.inl ⟨rfl, hf⟩, rfl⟩))
  | @cons q q' r a w hl _ ih =>
    have hq' := (DFA.valid_lookup hv hl).2.2
    have : a :: w = [a] ++ w := rfl
    rw [this]
    exact GNFA.Path.cons ((hmem _).2 (Or.inl hp)) ((hmem _).2 (Or.inl hq'))
      ((toGnfa_get_lang D qs qa _ _ _).2 (Or.inr ⟨a, mem_of_lookup_eq_some hl, rfl⟩)) (ih hq' hf)

theorem toGnfa_run_of_path (hk : (D.delta.map (·.1)).Nodup) {p r : σ} {w : List τ}
    (h : (D.toGnfa qs qa).Path p w r) :
    r = qa → (p ∈ D.Q → ∃ f, f ∈ D.F ∧ D.Run p w f) ∧ (p = qs → D.Accepts w) := by
  have hpr := toGnfa_proper D qs qa hv hs ha hne
  induction h with
  | @one p r w _ _ hl =>
    intro hr
    subst hr
    rw [toGnfa_get_lang] at hl
    rcases hl with ⟨⟨_, hf⟩ | ⟨_, h0⟩, rfl⟩ | ⟨a, he, _⟩
    · refine ⟨fun _ => ⟨p, hf, DFA.Run.nil _⟩, ?_⟩
      rintro rfl
      exact absurd (DFA.valid_F hv hf) hs
    · exact absurd (h0 ▸ DFA.valid_q0 hv) ha
    · exact absurd (DFA.valid_closed hv he).2.2 ha
  | @cons p m r u v _ _ hl hpath ih =>
    intro hr
    subst hr
    rw [toGnfa_get_lang] at hl
    rcases hl with ⟨⟨hm, _⟩ | ⟨hp, h0⟩, rfl⟩ | ⟨a, he, rfl⟩
    · subst hm
      exact absurd hpath (no_path_from_accept hpr)
    · subst h0
      refine ⟨fun h => absurd (hp ▸ h) hs, fun _ => ?_⟩
      obtain ⟨f, hf, hrun⟩ := (ih rfl).1 (DFA.valid_q0 hv)
      exact ⟨f, hf, hrun⟩
    · obtain ⟨hp, _, hm⟩ := DFA.valid_closed hv he
      refine ⟨fun _ => ?_, fun h => absurd (h ▸ hp) hs⟩
      obtain ⟨f, hf, hrun⟩ := (ih rfl).1 hm
      exact ⟨f, hf, DFA.Run.cons (lookup_of_mem_nodup hk he) hrun⟩

theorem toGnfa_glang (hk : (D.delta.map (·.1)).Nodup) (w : List τ) :
    (D.toGnfa qs qa).GLang w ↔ D.Accepts w := by
  have hmem := toGnfa_mem_Q D qs qa hv hs ha hne
  constructor
  · intro h
    exact (toGnfa_run_of_path D qs qa hv hs ha hne hk h rfl).2 rfl
  · rintro ⟨f, hf, hr⟩
    have h1 := toGnfa_path_of_run D qs qa hv hs ha hne hr (DFA.valid_q0 hv) hf
    have : w = [] ++ w := rfl
    show (D.toGnfa qs qa).Path qs w qa
    rw [this]
    exact GNFA.Path.cons ((hmem _).2 (Or.inr (Or.inl rfl))) ((hmem _).2 (Or.inl (DFA.valid_q0 hv)))
      ((toGnfa_get_lang D qs qa _ _ _).2 (Or.inl ⟨Or.inr ⟨rfl, rfl⟩, rfl⟩)) h1

end ToGnfa

/-! ### `rip`: the new transition table -/

theorem lookup_foldInner (F : σ → Regexp τ → Regexp τ) (qi : σ) (B : List σ) (hB : B.Nodup)
    (d : Dict (σ × σ) (Regexp τ)) (x y : σ) :
    (B.foldl (fun d qj => d.set (qi, qj) (F qj ((d.lookup (qi, qj)).getD .zero))) d).lookup (x, y) =
      if x = qi ∧ y ∈ B then some (F y ((d.lookup (qi, y)).getD .zero)) else d.lookup (x, y) := by
  induction B generalizing d with
  | nil => simp
  | cons b B ih =>
    rw [List.nodup_cons] at hB
    rw [List.foldl_cons, ih hB.2]
    by_cases h1 : x = qi ∧ y ∈ B
    · have hyb : y ≠ b := by rintro rfl; exact hB.1 h1.2
      have hne : (qi, y) ≠ (qi, b) := by
        intro h; simp only [Prod.mk.injEq] at h; exact hyb h.2
      rw [if_pos h1, if_pos ⟨h1.1, List.mem_cons_of_mem _ h1.2⟩, lookup_set, if_neg hne]
    · rw [if_neg h1, lookup_set]
      by_cases h2 : (x, y) = (qi, b)
      · rw [if_pos h2]
        simp only [Prod.mk.injEq] at h2
        obtain ⟨rfl, rfl⟩ := h2
        rw [if_pos ⟨rfl, List.mem_cons_self⟩]
      · rw [if_neg h2, if_neg]
        rintro ⟨hx, hy⟩
        rcases List.mem_cons.mp hy with rfl | hy
        · exact h2 (by rw [hx])
        · exact h1 ⟨hx, hy⟩

theorem lookup_foldOuter (F : σ → σ → Regexp τ → Regexp τ) (A B : List σ) (hA : A.Nodup) (hB : B.Nodup)
    (d : Dict (σ × σ) (Regexp τ)) (x y : σ) :
    (A.foldl (fun d qi =>
      B.foldl (fun d qj => d.set (qi, qj) (F qi qj ((d.lookup (qi, qj)).getD .zero))) d) d).lookup (x, y) =
      if x ∈ A ∧ y ∈ B then some (F x y ((d.lookup (x, y)).getD .zero)) else d.lookup (x, y) := by
  induction A generalizing d with
  | nil => simp
  | cons a A ih =>
    rw [List.nodup_cons] at hA
    rw [List.foldl_cons, ih hA.2]
    have hin := fun x y => lookup_foldInner (F a) a B hB d x y
    by_cases h1 : x ∈ A ∧ y ∈ B
    · have hxa : x ≠ a := by rintro rfl; exact hA.1 h1.1
      rw [if_pos h1, if_pos ⟨List.mem_cons_of_mem _ h1.1, h1.2⟩, hin, if_neg (fun h => hxa h.1)]
    · rw [if_neg h1, hin]
      by_cases h2 : x = a ∧ y ∈ B
      · rw [if_pos h2, if_pos ⟨h2.1 ▸ List.mem_cons_self, h2.2⟩, h2.1]
      · rw [if_neg h2, if_neg]
        rintro ⟨hx, hy⟩
        rcases List.mem_cons.mp hx with rfl | hx
        · exact h2 ⟨rfl, hy⟩
        · exact h1 ⟨hx, hy⟩

/-- `simplify (R1 . (R2* . R3) + R4)` -/
def ripLabel (G : GNFA σ τ) (q qi qj : σ) (R4 : Regexp τ) : Regexp τ :=
  Regexp.simplify (.sum (.cat (G.get qi q) (.cat (.star (G.get q q)) (G.get q qj))) R4)

theorem rip_delta (G : GNFA σ τ) (q : σ) :
    (G.rip q).delta =
      ((G.Q.filter (· ≠ q)).filter (· ≠ G.qAccept)).foldl (fun d qi =>
        ((G.Q.filter (· ≠ q)).filter (· ≠ G.qStart)).foldl (fun d qj =>
          d.set (qi, qj) (ripLabel G q qi qj ((d.lookup (qi, qj)).getD .zero))) d) G.delta := rfl

theorem rip_Q (G : GNFA σ τ) (q : σ) : (G.rip q).Q = G.Q.filter (· ≠ q) := rfl
theorem rip_qStart (G : GNFA σ τ) (q : σ) : (G.rip q).qStart = G.qStart := rfl
theorem rip_qAccept (G : GNFA σ τ) (q : σ) : (G.rip q).qAccept = G.qAccept := rfl

theorem rip_mem_Q (G : GNFA σ τ) (q p : σ) : p ∈ (G.rip q).Q ↔ p ∈ G.Q ∧ p ≠ q := by
  rw [rip_Q, List.mem_filter, decide_eq_true_eq]

/-- the label of `(x, y)` after ripping `q` (a key is written exactly once) -/
theorem rip_get (G : GNFA σ τ) (q : σ) (hnd : G.Q.Nodup) (x y : σ) :
    (G.rip q).get x y =
      if x ∈ (G.Q.filter (· ≠ q)).filter (· ≠ G.qAccept) ∧ y ∈ (G.Q.filter (· ≠ q)).filter (· ≠ G.qStart)
      then ripLabel G q x y (G.get x y) else G.get x y := by
  show ((G.rip q).delta.lookup (x, y)).getD .zero = _
  rw [rip_delta, lookup_foldOuter (ripLabel G q) _ _ ((hnd.filter _).filter _) ((hnd.filter _).filter _)]
  split <;> rfl

theorem rip_get_lang (G : GNFA σ τ) (hp : G.Proper) (q : σ) (hnd : G.Q.Nodup) (x y : σ)
    (hx : x ∈ (G.rip q).Q) (hy : y ∈ (G.rip q).Q) (w : List τ) :
    ((G.rip q).get x y).Lang w ↔
      (∃ u1 u2 u3, w = u1 ++ (u2 ++ u3) ∧ (G.get x q).Lang u1 ∧ (Regexp.star (G.get q q)).Lang u2 ∧
        (G.get q y).Lang u3) ∨ (G.get x y).Lang w := by
  rw [rip_get G q hnd]
  rw [rip_Q] at hx hy
  split
  · unfold ripLabel
    rw [Regexp.simplify_lang, Regexp.lang_sum, Regexp.lang_cat]
    apply or_congr _ Iff.rfl
    constructor
    · rintro ⟨u1, v, rfl, h1, h23⟩
      rw [Regexp.lang_cat] at h23
      obtain ⟨u2, u3, rfl, h2, h3⟩ := h23
      exact ⟨u1, u2, u3, rfl, h1, h2, h3⟩
    · rintro ⟨u1, u2, u3, rfl, h1, h2, h3⟩
      exact ⟨u1, u2 ++ u3, rfl, h1, Regexp.lang_cat.2 ⟨u2, u3, rfl, h2, h3⟩⟩
  · rename_i h
    have hxy : x = G.qAccept ∨ y = G.qStart := by
      by_cases hxa : x = G.qAccept
      · exact Or.inl hxa
      · by_cases hys : y = G.qStart
        · exact Or.inr hys
        · exfalso
          apply h
          constructor
          · rw [List.mem_filter, decide_eq_true_eq]; exact ⟨hx, hxa⟩
          · rw [List.mem_filter, decide_eq_true_eq]; exact ⟨hy, hys⟩
    constructor
    · exact Or.inr
    · rintro (⟨u1, u2, u3, _, h1, _, h3⟩ | h')
      · rcases hxy with rfl | rfl
        · rw [hp.2.2.2.2] at h1; exact absurd h1 (Regexp.lang_zero.1)
        · rw [hp.2.2.2.1] at h3; exact absurd h3 (Regexp.lang_zero.1)
      · exact h'

theorem rip_proper (G : GNFA σ τ) (hp : G.Proper) (q : σ) (hqs : q ≠ G.qStart) (hqa : q ≠ G.qAccept)
    (hnd : G.Q.Nodup) : (G.rip q).Proper := by
  obtain ⟨h1, h2, h3, h4, h5⟩ := hp
  refine ⟨?_, ?_, h3, ?_, ?_⟩
  · exact (rip_mem_Q G q _).2 ⟨h1, fun h => hqs h.symm⟩
  · exact (rip_mem_Q G q _).2 ⟨h2, fun h => hqa h.symm⟩
  · intro p
    rw [rip_qStart, rip_get G q hnd, if_neg]
    · exact h4 p
    · rintro ⟨_, h⟩
      rw [List.mem_filter, decide_eq_true_eq] at h
      exact h.2 rfl
  · intro p
    rw [rip_qAccept, rip_get G q hnd, if_neg]
    · exact h5 p
    · rintro ⟨h, _⟩
      rw [List.mem_filter, decide_eq_true_eq] at h
      exact h.2 rfl

/-! ### `rip`: path surgery -/

theorem star_induction {R : Regexp τ} {P : List τ → Prop} (h0 : P [])
    (hstep : ∀ u v, R.Lang u → P v → P (u ++ v)) {w : List τ} (h : (Regexp.star R).Lang w) : P w := by
  generalize he : Regexp.star R = e at h
  induction h with
  | one => cases he
  | sym a => cases he
  | sumL _ _ => cases he
  | sumR _ _ => cases he
  | cat _ _ _ _ => cases he
  | starNil => exact h0
  | starApp h1 _ _ ih2 =>
    cases he
    exact hstep _ _ h1 (ih2 rfl)

section Surgery
variable (G G' : GNFA σ τ) (q : σ) (hq : q ∈ G.Q)
  (hQ : ∀ x, x ∈ G'.Q ↔ x ∈ G.Q ∧ x ≠ q)
  (hL : ∀ x y, x ∈ G'.Q → y ∈ G'.Q → ∀ w, (G'.get x y).Lang w ↔
      (∃ u1 u2 u3, w = u1 ++ (u2 ++ u3) ∧ (G.get x q).Lang u1 ∧ (Regexp.star (G.get q q)).Lang u2 ∧
        (G.get q y).Lang u3) ∨ (G.get x y).Lang w)

include hq in
theorem loop_path {u v : List τ} {r : σ} (hu : (Regexp.star (G.get q q)).Lang u) (hv : G.Path q v r) :
    G.Path q (u ++ v) r := by
  refine star_induction (P := fun u => G.Path q (u ++ v) r) ?_ ?_ hu
  · exact hv
  · intro u1 u2 h1 ih
    rw [List.append_assoc]
    exact GNFA.Path.cons hq hq h1 ih

include hq hQ hL in
theorem edge_to_path {x y : σ} {w : List τ} (hx : x ∈ G'.Q) (hy : y ∈ G'.Q) (hl : (G'.get x y).Lang w) :
    G.Path x w y := by
  have hx' := ((hQ x).1 hx).1
  have hy' := ((hQ y).1 hy).1
  rcases (hL x y hx hy w).1 hl with ⟨u1, u2, u3, rfl, h1, h2, h3⟩ | h
  · exact GNFA.Path.cons hx' hq h1 (loop_path G q hq h2 (GNFA.Path.one hq hy' h3))
  · exact GNFA.Path.one hx' hy' h

include hq hQ hL in
/-- soundness of ripping: every path of the ripped automaton expands to a path of `G` -/
theorem path_of_rip {p r : σ} {w : List τ} (h : G'.Path p w r) : G.Path p w r := by
  induction h with
  | one hp hr hl => exact edge_to_path G G' q hq hQ hL hp hr hl
  | cons hp hm hl _ ih => exact Path.trans (edge_to_path G G' q hq hQ hL hp hm hl) ih

include hq hQ hL in
/-- completeness of ripping: visits to `q` are contracted to single edges -/
theorem rip_of_path_aux {x r : σ} {w : List τ} (h : G.Path x w r) :
    r ≠ q → (x ≠ q → G'.Path x w r) ∧
      (x = q → ∀ p u1 u2, p ∈ G'.Q → (G.get p q).Lang u1 → (Regexp.star (G.get q q)).Lang u2 →
        G'.Path p (u1 ++ (u2 ++ w)) r) := by
  induction h with
  | @one x r w hx hr hl =>
    intro hrq
    have hr' : r ∈ G'.Q := (hQ r).2 ⟨hr, hrq⟩
    constructor
    · intro hxq
      have hx' : x ∈ G'.Q := (hQ x).2 ⟨hx, hxq⟩
      exact GNFA.Path.one hx' hr' ((hL x r hx' hr' w).2 (Or.inr hl))
    · rintro rfl p u1 u2 hp h1 h2
      exact GNFA.Path.one hp hr' ((hL p r hp hr' _).2 (Or.inl ⟨u1, u2, w, rfl, h1, h2, hl⟩))
  | @cons x m r u v hx hm hl _ ih =>
    intro hrq
    obtain ⟨ih1, ih2⟩ := ih hrq
    constructor
    · intro hxq
      have hx' : x ∈ G'.Q := (hQ x).2 ⟨hx, hxq⟩
      by_cases hmq : m = q
      · subst hmq
        have := ih2 rfl x u [] hx' hl Regexp.lang_star_nil
        simpa using this
      · have hm' : m ∈ G'.Q := (hQ m).2 ⟨hm, hmq⟩
        exact GNFA.Path.cons hx' hm' ((hL x m hx' hm' u).2 (Or.inr hl)) (ih1 hmq)
    · rintro rfl p u1 u2 hp h1 h2
      by_cases hmq : m = x
      · subst hmq
        have := ih2 rfl p u1 (u2 ++ u) hp h1 (Regexp.lang_star_append h2 (Regexp.lang_of_star hl))
        simpa [List.append_assoc] using this
      · have hm' : m ∈ G'.Q := (hQ m).2 ⟨hm, hmq⟩
        have := GNFA.Path.cons hp hm' ((hL p m hp hm' _).2 (Or.inl ⟨u1, u2, u, rfl, h1, h2, hl⟩)) (ih1 hmq)
        simpa [List.append_assoc] using this

end Surgery

theorem rip_glang (G : GNFA σ τ) (hp : G.Proper) (q : σ) (hq : q ∈ G.Q) (hqs : q ≠ G.qStart)
    (hqa : q ≠ G.qAccept) (hnd : G.Q.Nodup) (w : List τ) : (G.rip q).GLang w ↔ G.GLang w := by
  have hQ := rip_mem_Q G q
  have hL := rip_get_lang G hp q hnd
  constructor
  · intro h
    exact path_of_rip G (G.rip q) q hq hQ hL h
  · intro h
    exact (rip_of_path_aux G (G.rip q) q hq hQ hL h (fun h => hqa h.symm)).1 (fun h => hqs h.symm)

theorem rip_nodup (G : GNFA σ τ) (q : σ) (hnd : G.Q.Nodup) : (G.rip q).Q.Nodup := by
  rw [rip_Q]; exact hnd.filter _

/-! ### `gnfa_minimize` -/

theorem minimize_nil (G : GNFA σ τ) : G.minimize [] = G := rfl
theorem minimize_cons (G : GNFA σ τ) (q : σ) (order : List σ) :
    G.minimize (q :: order) = (G.rip q).minimize order := rfl

theorem minimize_spec (order : List σ) (G : GNFA σ τ) (hp : G.Proper) (hnd : G.Q.Nodup) (ho : order.Nodup)
    (hm : ∀ x, x ∈ order → x ∈ G.Q ∧ x ≠ G.qStart ∧ x ≠ G.qAccept) :
    (G.minimize order).Proper ∧ (G.minimize order).qStart = G.qStart ∧
    (G.minimize order).qAccept = G.qAccept ∧ (G.minimize order).Q.Nodup ∧
    (∀ x, x ∈ (G.minimize order).Q ↔ x ∈ G.Q ∧ x ∉ order) ∧
    ∀ w, (G.minimize order).GLang w ↔ G.GLang w := by
  induction order generalizing G with
  | nil =>
    rw [minimize_nil]
    exact ⟨hp, rfl, rfl, hnd, fun x => by simp, fun w => Iff.rfl⟩
  | cons q order ih =>
    rw [List.nodup_cons] at ho
    obtain ⟨hq, hqs, hqa⟩ := hm q List.mem_cons_self
    rw [minimize_cons]
    have hm' : ∀ x, x ∈ order → x ∈ (G.rip q).Q ∧ x ≠ (G.rip q).qStart ∧ x ≠ (G.rip q).qAccept := by
      intro x hx
      obtain ⟨h1, h2, h3⟩ := hm x (List.mem_cons_of_mem _ hx)
      refine ⟨(rip_mem_Q G q x).2 ⟨h1, ?_⟩, h2, h3⟩
      rintro rfl
      exact ho.1 hx
    obtain ⟨i1, i2, i3, i4, i5, i6⟩ :=
      ih (G.rip q) (rip_proper G hp q hqs hqa hnd) (rip_nodup G q hnd) ho.2 hm'
    refine ⟨i1, i2, i3, i4, ?_, ?_⟩
    · intro x
      rw [i5, rip_mem_Q, List.mem_cons]
      constructor
      · rintro ⟨⟨h1, h2⟩, h3⟩
        exact ⟨h1, fun h => h.elim h2 h3⟩
      · rintro ⟨h1, h2⟩
        exact ⟨⟨h1, fun h => h2 (Or.inl h)⟩, fun h => h2 (Or.inr h)⟩
    · intro w
      rw [i6, rip_glang G hp q hq hqs hqa hnd]

/-- with only the start and the accept state left, the language is that of the single edge -/
theorem glang_two (G : GNFA σ τ) (hp : G.Proper) (hQ : ∀ x, x ∈ G.Q → x = G.qStart ∨ x = G.qAccept)
    (w : List τ) : G.GLang w ↔ (G.get G.qStart G.qAccept).Lang w := by
  constructor
  · have key : ∀ p r w, G.Path p w r → p = G.qStart → r = G.qAccept → (G.get p r).Lang w := by
      intro p r w h
      cases h with
      | one _ _ hl => intro _ _; exact hl
      | @cons _ m _ u v _ hm hl hpath =>
        intro h1 h2
        subst h1
        rcases hQ m hm with rfl | rfl
        · rw [hp.2.2.2.1] at hl
          exact absurd hl Regexp.lang_zero.1
        · exact absurd hpath (no_path_from_accept hp)
    intro h
    exact key _ _ _ h rfl rfl
  · intro h
    exact GNFA.Path.one hp.1 hp.2.1 h

theorem nodup_sinsert {α : Type} [DecidableEq α] {l : List α} (h : l.Nodup) (x : α) :
    (sinsert l x).Nodup := by
  unfold sinsert
  split
  · exact h
  · rename_i hx
    rw [List.nodup_append]
    refine ⟨h, by simp, ?_⟩
    intro a ha b hb
    rw [List.mem_singleton] at hb
    subst hb
    rintro rfl
    exact hx ha

theorem toGnfa_nodup (D : DFA σ τ) (qs qa : σ) (hQ : D.Q.Nodup) : (D.toGnfa qs qa).Q.Nodup :=
  nodup_sinsert (nodup_sinsert hQ qa) qs

theorem toRegexp_lang (D : DFA σ τ) (hv : D.valid = true) (hk : (D.delta.map (·.1)).Nodup) (hQ : D.Q.Nodup)
    (qs qa : σ) (hs : qs ∉ D.Q) (ha : qa ∉ D.Q) (hne : qs ≠ qa)
    (order : List σ) (ho : order.Nodup) (hm : ∀ q, q ∈ order ↔ q ∈ D.Q) (w : List τ) :
    (D.toRegexp qs qa order).Lang w ↔ D.Accepts w := by
  have hmem := toGnfa_mem_Q D qs qa hv hs ha hne
  have hpr := toGnfa_proper D qs qa hv hs ha hne
  have hm' : ∀ x, x ∈ order → x ∈ (D.toGnfa qs qa).Q ∧ x ≠ (D.toGnfa qs qa).qStart ∧
      x ≠ (D.toGnfa qs qa).qAccept := by
    intro x hx
    have hxQ := (hm x).1 hx
    refine ⟨(hmem x).2 (Or.inl hxQ), ?_, ?_⟩
    · rintro rfl; exact hs hxQ
    · rintro rfl; exact ha hxQ
  obtain ⟨m1, m2, m3, _, m5, m6⟩ :=
    minimize_spec order (D.toGnfa qs qa) hpr (toGnfa_nodup D qs qa hQ) ho hm'
  have htwo : ∀ x, x ∈ ((D.toGnfa qs qa).minimize order).Q →
      x = ((D.toGnfa qs qa).minimize order).qStart ∨ x = ((D.toGnfa qs qa).minimize order).qAccept := by
    intro x hx
    rw [m2, m3]
    obtain ⟨h1, h2⟩ := (m5 x).1 hx
    rcases (hmem x).1 h1 with h | h | h
    · exact absurd ((hm x).2 h) h2
    · exact Or.inl h
    · exact Or.inr h
  have h2 := glang_two _ m1 htwo w
  rw [m2, m3, m6, toGnfa_glang D qs qa hv hs ha hne hk] at h2
  exact h2.symm

/-- example object for the non-vacuity checks: even number of `a`s over `{a, b}` -/
def evenA : DFA String String :=
  { Q := ["q0", "q1"], Sigma := ["a", "b"],
    delta := [(("q0", "a"), "q1"), (("q0", "b"), "q0"), (("q1", "a"), "q0"), (("q1", "b"), "q1")],
    q0 := "q0", F := ["q0"] }

end C06b
end Gamba
