/-
  Gamba.Proofs.C12f — helper lemmas for the three `check_*_language_from_words` checkers on text
  (`CheckText.dfaLanguageWords`, `CheckText.nfaLanguageWords`, `CheckText.cfgLanguageWords`): the Boolean cores as
  equivalences, the three verdicts unfolded down to the enumerators `wordsUpTo`, and the little piece of logic that
  splits "the enumerated words up to `len` are exactly the listed words" into a bounded agreement plus a length bound
  on the list.
-/
import Gamba.Model.CheckText
import Gamba.Proofs.TextBasic
import Gamba.Proofs.DFABasic
import Gamba.Proofs.NFABasic
import Gamba.Proofs.C12a
import Gamba.Proofs.C12c
import Gamba.Props.C02reg
import Gamba.Props.C02cfg
namespace Gamba
namespace C12f
open Parse CheckText

/-! ### the Boolean cores, both directions -/

theorem languageFromWords_iff (nQ maxStates : Nat) (A words : List (List String)) :
    Check.languageFromWords nQ maxStates A words = true ↔
      (maxStates = 0 ∨ nQ ≤ maxStates) ∧ ∀ w, w ∈ A ↔ w ∈ words := by
  unfold Check.languageFromWords
  rw [Bool.and_eq_true, C12a.maxStatesOk_iff, C12a.compare_isNone_iff]

theorem equalLanguages_iff (A1 A2 : List (List String)) :
    Check.equalLanguages A1 A2 = true ↔ ∀ w, w ∈ A1 ↔ w ∈ A2 :=
  C12a.compare_isNone_iff A1 A2

theorem ofBool_error (b : Bool) : ofBool b ≠ .error := by cases b <;> decide

theorem ofBool_feedback_iff (b : Bool) : ofBool b = .feedback ↔ b = false := by cases b <;> decide

/-! ### a bounded set equals a list: bounded agreement + the list is bounded -/

theorem bounded_eq_iff {α : Type} (B Q M : α → Prop) :
    (∀ w, (B w ∧ Q w) ↔ M w) ↔ (∀ w, B w → (Q w ↔ M w)) ∧ ∀ w, M w → B w := by
  constructor
  · intro h
    exact ⟨fun w hb => ⟨fun hq => (h w).mp ⟨hb, hq⟩, fun hm => ((h w).mpr hm).2⟩, fun w hm => ((h w).mpr hm).1⟩
  · rintro ⟨h1, h2⟩ w
    exact ⟨fun hbq => (h1 w hbq.1).mp hbq.2, fun hm => ⟨h2 w hm, (h1 w (h2 w hm)).mpr hm⟩⟩

/-! ### the verdicts down to the enumerators -/

theorem dfaLanguageWords_cases (answer wordList : String) (len maxStates : Nat) :
    (∃ e, parseDfa answer.toList = .error e ∧ dfaLanguageWords answer wordList len maxStates = .error) ∨
    ∃ A, parseDfa answer.toList = .ok A ∧ A.valid = true ∧
      dfaLanguageWords answer wordList len maxStates =
        ofBool (Check.languageFromWords A.Q.length maxStates (A.wordsUpTo len) (parseWordList wordList)) := by
  unfold dfaLanguageWords
  cases hp : parseDfa answer.toList with
  | error e => exact Or.inl ⟨e, rfl, rfl⟩
  | ok A =>
    obtain ⟨vA, nA, _⟩ := C12c.parseDfa_ok_facts hp
    refine Or.inr ⟨A, rfl, vA, ?_⟩
    show ofBool _ = ofBool _
    rw [dedup_eq_self_of_nodup nA]

theorem nfaLanguageWords_cases (answer wordList : String) (s : Sched) (len maxStates : Nat) :
    (∃ e, parseNfa answer.toList = .error e ∧ nfaLanguageWords answer wordList s len maxStates = .error) ∨
    ∃ A L, parseNfa answer.toList = .ok A ∧ A.valid = true ∧ A.wordsUpTo s len = .ok L ∧
      (∀ w, w ∈ L ↔ w.length ≤ len ∧ (∀ a, a ∈ w → a ∈ A.Sigma) ∧ A.Accepts w) ∧
      nfaLanguageWords answer wordList s len maxStates =
        ofBool (Check.languageFromWords A.Q.length maxStates L (parseWordList wordList)) := by
  unfold nfaLanguageWords
  cases hp : parseNfa answer.toList with
  | error e => exact Or.inl ⟨e, rfl, rfl⟩
  | ok A =>
    obtain ⟨vA, nA, _⟩ := C12c.parseNfa_ok_facts hp
    obtain ⟨L, hL, hm⟩ := nfa_words_exact A vA s len
    refine Or.inr ⟨A, L, rfl, vA, hL, hm, ?_⟩
    simp only [hL]
    rw [dedup_eq_self_of_nodup nA]

theorem cfgLanguageWords_cases (answer wordList : String) (len : Nat) :
    (∃ e, CfgText.parseSimpleCfg answer.toList = .error e ∧ cfgLanguageWords answer wordList len = .error) ∨
    ∃ G eps, CfgText.parseSimpleCfg answer.toList = .ok (G, eps) ∧
      cfgLanguageWords answer wordList len = ofBool (Check.equalLanguages (G.wordsUpTo len) (parseWordList wordList)) := by
  unfold cfgLanguageWords
  cases hp : CfgText.parseSimpleCfg answer.toList with
  | error e => exact Or.inl ⟨e, rfl, rfl⟩
  | ok Ge =>
    obtain ⟨G, eps⟩ := Ge
    exact Or.inr ⟨G, eps, rfl, rfl⟩

/-! ### the enumerator of a grammar under the side condition of `cfg_words_exact` (or for a CNF grammar) -/

theorem cfg_words_exact_side {G : CFG} (hv : G.valid = true) (hS : G.S ∈ G.V) (ha : CFG.AliasOK G)
    (hside : G.isChomsky = true ∨ ∀ a, a ∈ G.Sigma → a ∉ G.V ∧ a ≠ CFG.freshVariable G.V "S") (n : Nat)
    (w : List String) : w ∈ G.wordsUpTo n ↔ w.length ≤ n ∧ G.Lang w := by
  rcases hside with hc | hd
  · exact cfg_words_exact_cnf G hc n w
  · exact cfg_words_exact G hv hS ha hd n w

end C12f
end Gamba
