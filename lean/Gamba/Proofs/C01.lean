/-
  Gamba.Proofs.C01 — helper lemmas for property C01: DFA/NFA acceptance and ε-closure agree with
  the textbook semantics of `Gamba.Spec.Automata`.
-/
import Gamba.Model.NFA
import Gamba.Spec.Automata
namespace Gamba

/-! ### Generic lemmas -/

theorem C01.lookup_mem {κ ν : Type} [BEq κ] [LawfulBEq κ] {d : List (κ × ν)} {k : κ} {v : ν}
    (h : d.lookup k = some v) : (k, v) ∈ d := by
  obtain ⟨l₁, l₂, rfl, _⟩ := List.lookup_eq_some_iff.mp h
  simp

/-- `mapM` in `Except`: if every call succeeds, so does the `mapM`, and the results are exactly the
    pointwise results. -/
theorem C01.mapM_except_ok {α β : Type} {f : α → Except Err β} (l : List α)
    (h : ∀ x, x ∈ l → ∃ y, f x = .ok y) :
    ∃ ys, l.mapM f = .ok ys ∧ ∀ y, y ∈ ys ↔ ∃ x, x ∈ l ∧ f x = .ok y := by
  induction l with
  | nil => exact ⟨[], rfl, by simp⟩
  | cons x l ih =>
    obtain ⟨y, hy⟩ := h x (List.mem_cons_self ..)
    obtain ⟨ys, hys, hm⟩ := ih (fun z hz => h z (List.mem_cons_of_mem _ hz))
    refine ⟨y :: ys, ?_, ?_⟩
    · rw [List.mapM_cons, hy, hys]; rfl
    · intro z
      simp only [List.mem_cons, hm]
      constructor
      · rintro (rfl | ⟨x', hx', hz⟩)
        · exact ⟨x, Or.inl rfl, hy⟩
        · exact ⟨x', Or.inr hx', hz⟩
      · rintro ⟨x', (rfl | hx'), hz⟩
        · rw [hy] at hz; cases hz; exact Or.inl rfl
        · exact Or.inr ⟨x', hx', hz⟩

/-- `List.lookup` does not depend on the (lawful) `BEq` instance. -/
theorem C01.lookup_inst_irrel {κ ν : Type} (i1 i2 : BEq κ) [@LawfulBEq κ i1] [@LawfulBEq κ i2]
    (d : List (κ × ν)) (k : κ) : @List.lookup κ ν i1 k d = @List.lookup κ ν i2 k d := by
  induction d with
  | nil => rfl
  | cons e d ih =>
    obtain ⟨k', v⟩ := e
    have hb : @BEq.beq κ i1 k k' = @BEq.beq κ i2 k k' := by
      by_cases h : k = k'
      · subst h
        rw [@BEq.rfl κ i1 inferInstance k, @BEq.rfl κ i2 inferInstance k]
      · have h1 : @BEq.beq κ i1 k k' = false := by
          cases hc : @BEq.beq κ i1 k k' with
          | false => rfl
          | true => exact absurd (@LawfulBEq.eq_of_beq κ i1 _ _ _ hc) h
        have h2 : @BEq.beq κ i2 k k' = false := by
          cases hc : @BEq.beq κ i2 k k' with
          | false => rfl
          | true => exact absurd (@LawfulBEq.eq_of_beq κ i2 _ _ _ hc) h
        rw [h1, h2]
    simp only [List.lookup, hb, ih]

theorem C01.pickAt_eq_none {α : Type} {l : List α} {i : Nat} (h : pickAt l i = none) : l = [] := by
  cases l with
  | nil => rfl
  | cons x l => simp [pickAt] at h

section
variable {σ τ : Type} [DecidableEq σ] [DecidableEq τ]

/-- `Dict.get`/`Dict.has` (used by `DFA.step`, `DFA.isTotal`) look keys up with the `BEq` derived from
    `DecidableEq (σ × τ)`, the specification with the product `BEq`: the two agree. -/
theorem C01.lookup_dec_eq_prod {ν : Type} (d : List ((σ × τ) × ν)) (k : σ × τ) :
    @List.lookup (σ × τ) ν instBEqOfDecidableEq k d = List.lookup k d :=
  C01.lookup_inst_irrel instBEqOfDecidableEq instBEqProd d k

/-! ### DFA -/

theorem DFA.c01_run_ok_iff (D : DFA σ τ) (q : σ) (w : List τ) (r : σ) :
    D.run q w = .ok r ↔ D.Run q w r := by
  induction w generalizing q with
  | nil =>
    simp only [DFA.run]
    constructor
    · intro h; cases h; exact DFA.Run.nil _
    · intro h; cases h; rfl
  | cons a w ih =>
    simp only [DFA.run, DFA.step, Dict.get, C01.lookup_dec_eq_prod]
    constructor
    · intro h
      cases hl : D.delta.lookup (q, a) with
      | none => rw [hl] at h; cases h
      | some q' =>
        rw [hl] at h
        exact DFA.Run.cons hl ((ih q').mp h)
    · intro h
      cases h with
      | cons hl hr =>
        rw [hl]
        exact (ih _).mpr hr

theorem DFA.c01_valid_q0 {D : DFA σ τ} (hv : D.valid = true) : D.q0 ∈ D.Q := by
  simp only [DFA.valid, Bool.and_eq_true, decide_eq_true_eq] at hv
  exact hv.1.1.1

theorem DFA.c01_valid_lookup {D : DFA σ τ} (hv : D.valid = true) {q : σ} {a : τ}
    (hq : q ∈ D.Q) (ha : a ∈ D.Sigma) : ∃ q', D.delta.lookup (q, a) = some q' ∧ q' ∈ D.Q := by
  simp only [DFA.valid, Bool.and_eq_true, decide_eq_true_eq, List.all_eq_true, DFA.isTotal,
    Dict.has, C01.lookup_dec_eq_prod] at hv
  obtain ⟨⟨_, hd⟩, ht⟩ := hv
  have h1 := ht q hq a ha
  cases hl : D.delta.lookup (q, a) with
  | none => rw [hl] at h1; cases h1
  | some q' => exact ⟨q', rfl, (hd _ (C01.lookup_mem hl)).2⟩

theorem DFA.c01_run_total {D : DFA σ τ} (hv : D.valid = true) (w : List τ)
    (hw : ∀ a, a ∈ w → a ∈ D.Sigma) (q : σ) (hq : q ∈ D.Q) : ∃ r, D.run q w = .ok r := by
  induction w generalizing q with
  | nil => exact ⟨q, rfl⟩
  | cons a w ih =>
    obtain ⟨q', hl, hq'⟩ := DFA.c01_valid_lookup hv hq (hw a (List.mem_cons_self ..))
    obtain ⟨r, hr⟩ := ih (fun b hb => hw b (List.mem_cons_of_mem _ hb)) q' hq'
    refine ⟨r, ?_⟩
    simp only [DFA.run, DFA.step, Dict.get, C01.lookup_dec_eq_prod, hl]
    exact hr

/-! ### NFA: validity and successor bridging -/

theorem NFA.mem_succ_iff (N : NFA σ τ) (q : σ) (a : τ) (q' : σ) :
    q' ∈ N.succ q a ↔ N.Succ q a q' := by
  unfold NFA.succ NFA.Succ
  cases N.delta.lookup (q, a) with
  | none => simp
  | some T => simp

theorem NFA.valid_q0 {N : NFA σ τ} (hv : N.valid = true) : N.q0 ∈ N.Q := by
  simp only [NFA.valid, Bool.and_eq_true, decide_eq_true_eq] at hv
  exact hv.1.1.1

theorem NFA.valid_eps {N : NFA σ τ} (hv : N.valid = true) : N.eps ∉ N.Sigma := by
  simp only [NFA.valid, Bool.and_eq_true, decide_eq_true_eq] at hv
  exact hv.1.2

theorem NFA.valid_Succ {N : NFA σ τ} (hv : N.valid = true) {q q' : σ} {a : τ}
    (h : N.Succ q a q') : q' ∈ N.Q := by
  simp only [NFA.valid, Bool.and_eq_true, decide_eq_true_eq, List.all_eq_true, ssubset_iff] at hv
  obtain ⟨T, hl, hm⟩ := h
  exact (hv.2 _ (C01.lookup_mem hl)).2 q' hm

theorem NFA.EpsReach.mem_Q {N : NFA σ τ} (hv : N.valid = true) {S : List σ}
    (hS : ∀ q, q ∈ S → q ∈ N.Q) {q : σ} (h : N.EpsReach S q) : q ∈ N.Q := by
  induction h with
  | base h => exact hS _ h
  | step _ hs _ => exact NFA.valid_Succ hv hs

/-! ### ε-closure: partial correctness -/

theorem NFA.epsLoop_exact (N : NFA σ τ) (S : List σ) (fuel : Nat) :
    ∀ (s : Sched) (result todo R : List σ),
    (∀ q, q ∈ result → N.EpsReach S q) → (∀ q, q ∈ todo → q ∈ result) →
    (∀ q, q ∈ S → q ∈ result) →
    (∀ q, q ∈ result → q ∉ todo → ∀ q', N.Succ q N.eps q' → q' ∈ result) →
    N.epsLoop fuel s result todo = .ok R → ∀ q, q ∈ R ↔ N.EpsReach S q := by
  have done : ∀ (result : List σ), (∀ q, q ∈ result → N.EpsReach S q) →
      (∀ q, q ∈ S → q ∈ result) →
      (∀ q, q ∈ result → ∀ q', N.Succ q N.eps q' → q' ∈ result) →
      ∀ q, q ∈ result ↔ N.EpsReach S q := by
    intro result h1 h3 h4 q
    refine ⟨h1 q, ?_⟩
    intro h
    induction h with
    | base h => exact h3 _ h
    | step _ hs ih => exact h4 _ ih _ hs
  induction fuel with
  | zero =>
    intro s result todo R h1 h2 h3 h4 h
    simp only [NFA.epsLoop] at h
    split at h
    · rename_i he
      cases h
      have : todo = [] := by simpa using he
      subst this
      exact done _ h1 h3 (fun q hq => h4 q hq (by simp))
    · cases h
  | succ fuel ih =>
    intro s result todo R h1 h2 h3 h4 h
    simp only [NFA.epsLoop] at h
    split at h
    · rename_i hp
      cases h
      have : todo = [] := C01.pickAt_eq_none hp
      subst this
      exact done _ h1 h3 (fun q hq => h4 q hq (by simp))
    · rename_i q rest hp
      have hmem := pickAt_mem_iff hp
      refine ih _ _ _ R ?_ ?_ ?_ ?_ h
      · intro x hx
        simp only [mem_sunion, mem_sdiff, mem_dedup] at hx
        rcases hx with hx | ⟨hx, _⟩
        · exact h1 x hx
        · exact NFA.EpsReach.step (h1 q (h2 q ((hmem q).mpr (Or.inl rfl))))
            ((N.mem_succ_iff _ _ _).mp hx)
      · intro x hx
        simp only [mem_sunion, mem_sdiff, mem_dedup] at hx ⊢
        rcases hx with hx | hx
        · exact Or.inl (h2 x ((hmem x).mpr (Or.inr hx)))
        · exact Or.inr hx
      · intro x hx
        simp only [mem_sunion]
        exact Or.inl (h3 x hx)
      · intro x hx hnt q' hs
        simp only [mem_sunion, mem_sdiff, mem_dedup] at hx hnt ⊢
        have hnr : x ∉ rest := fun hc => hnt (Or.inl hc)
        rcases hx with hx | hx
        · by_cases hxt : x ∈ todo
          · rcases (hmem x).mp hxt with rfl | hr
            · by_cases hq' : q' ∈ result
              · exact Or.inl hq'
              · exact Or.inr ⟨(N.mem_succ_iff _ _ _).mpr hs, hq'⟩
            · exact absurd hr hnr
          · exact Or.inl (h4 x hx hxt q' hs)
        · exact absurd (Or.inr hx) hnt

/-! ### ε-closure: termination -/

theorem C01.length_sunion_le (a b : List σ) : (sunion a b).length ≤ a.length + b.length := by
  unfold sunion
  rw [List.length_append]
  have := List.length_filter_le (fun x => decide (x ∉ a)) b
  omega

theorem NFA.epsLoop_terminates (N : NFA σ τ) (hv : N.valid = true)
    (U : List σ) (hU : ∀ q, q ∈ N.Q → q ∈ U) (fuel : Nat) :
    ∀ (s : Sched) (result todo : List σ), result.Nodup → (∀ q, q ∈ result → q ∈ U) →
    (U.length - result.length) + todo.length ≤ fuel →
    ∃ R, N.epsLoop fuel s result todo = .ok R := by
  induction fuel with
  | zero =>
    intro s result todo _ _ hm
    have : todo = [] := List.eq_nil_of_length_eq_zero (by omega)
    subst this
    exact ⟨result, by simp [NFA.epsLoop]⟩
  | succ fuel ih =>
    intro s result todo hn hsub hm
    simp only [NFA.epsLoop]
    split
    · exact ⟨result, rfl⟩
    · rename_i q rest hp
      have hlen := pickAt_length hp
      have hQ1n : (sdiff (dedup (N.succ q N.eps)) result).Nodup :=
        List.Nodup.sublist List.filter_sublist (nodup_dedup _)
      have hres : sunion result (sdiff (dedup (N.succ q N.eps)) result)
          = result ++ sdiff (dedup (N.succ q N.eps)) result := by
        unfold sunion
        congr 1
        rw [List.filter_eq_self]
        intro x hx
        simp only [mem_sdiff] at hx
        simpa using hx.2
      have hn' : (sunion result (sdiff (dedup (N.succ q N.eps)) result)).Nodup := by
        rw [hres, List.nodup_append]
        refine ⟨hn, hQ1n, ?_⟩
        intro a ha b hb hab
        subst hab
        simp only [mem_sdiff] at hb
        exact hb.2 ha
      have hsub' : ∀ x, x ∈ sunion result (sdiff (dedup (N.succ q N.eps)) result) → x ∈ U := by
        intro x hx
        simp only [mem_sunion, mem_sdiff, mem_dedup] at hx
        rcases hx with hx | ⟨hx, _⟩
        · exact hsub x hx
        · exact hU x (NFA.valid_Succ hv ((N.mem_succ_iff _ _ _).mp hx))
      apply ih _ _ _ hn' hsub'
      have h1 : (sunion result (sdiff (dedup (N.succ q N.eps)) result)).length ≤ U.length :=
        List.Nodup.length_le_of_subset hn' (fun x hx => hsub' x hx)
      have h2 := C01.length_sunion_le rest (sdiff (dedup (N.succ q N.eps)) result)
      rw [hres, List.length_append] at h1 ⊢
      omega

/-! ### ε-closure: termination without any hypothesis on `N`, for an explicit fuel bound -/

omit [DecidableEq σ] in
theorem C01.length_filter_mono {l : List σ} {p p' : σ → Bool}
    (h : ∀ x, x ∈ l → p' x = true → p x = true) : (l.filter p').length ≤ (l.filter p).length := by
  induction l with
  | nil => simp
  | cons x l ih =>
    have ih' := ih (fun y hy => h y (List.mem_cons_of_mem _ hy))
    have hx := h x (List.mem_cons_self ..)
    simp only [List.filter_cons]
    cases hp' : p' x with
    | false =>
      cases hp : p x with
      | false => simpa using ih'
      | true => simp only [Bool.false_eq_true, if_false, if_true, List.length_cons]; omega
    | true =>
      rw [hx hp']
      simp only [if_true, List.length_cons]
      omega

omit [DecidableEq σ] in
theorem C01.sum_map_le {L : List σ} {f g : σ → Nat} (h : ∀ k, k ∈ L → f k ≤ g k) :
    (L.map f).sum ≤ (L.map g).sum := by
  induction L with
  | nil => simp
  | cons x L ih =>
    have := ih (fun k hk => h k (List.mem_cons_of_mem _ hk))
    have := h x (List.mem_cons_self ..)
    simp only [List.map_cons, List.sum_cons]
    omega

omit [DecidableEq σ] in
theorem C01.sum_map_add_le {L : List σ} (hn : L.Nodup) {f g : σ → Nat} {q : σ} {c : Nat}
    (hq : q ∈ L) (h : ∀ k, k ∈ L → f k ≤ g k) (hqc : f q + c ≤ g q) :
    (L.map f).sum + c ≤ (L.map g).sum := by
  induction L with
  | nil => cases hq
  | cons x L ih =>
    rw [List.nodup_cons] at hn
    simp only [List.map_cons, List.sum_cons]
    have hx := h x (List.mem_cons_self ..)
    have hL : ∀ k, k ∈ L → f k ≤ g k := fun k hk => h k (List.mem_cons_of_mem _ hk)
    rcases List.mem_cons.mp hq with rfl | hq'
    · have := C01.sum_map_le hL
      omega
    · have := ih hn.2 hq' hL
      omega

/-- the states that have *some* key in δ -/
def NFA.keyStates (N : NFA σ τ) : List σ := dedup (N.delta.map (·.1.1))

theorem NFA.succ_eq_nil_of_not_keyState (N : NFA σ τ) {q : σ} (a : τ) (h : q ∉ N.keyStates) :
    N.succ q a = [] := by
  unfold NFA.succ
  cases hl : N.delta.lookup (q, a) with
  | none => rfl
  | some T =>
    exfalso
    apply h
    simp only [NFA.keyStates, mem_dedup, List.mem_map]
    exact ⟨_, C01.lookup_mem hl, rfl⟩

/-- total size of the ε-successor lists: an upper bound for the number of pushes of the worklist -/
def NFA.epsWork (N : NFA σ τ) : Nat := (N.keyStates.map fun k => (N.succ k N.eps).length).sum

theorem NFA.epsLoop_terminates_of_fuel (N : NFA σ τ) (fuel : Nat) :
    ∀ (s : Sched) (result todo : List σ),
    todo.length + (N.keyStates.map fun k => (sdiff (dedup (N.succ k N.eps)) result).length).sum ≤ fuel →
    ∃ R, N.epsLoop fuel s result todo = .ok R := by
  induction fuel with
  | zero =>
    intro s result todo hm
    have : todo = [] := List.eq_nil_of_length_eq_zero (by omega)
    subst this
    exact ⟨result, by simp [NFA.epsLoop]⟩
  | succ fuel ih =>
    intro s result todo hm
    simp only [NFA.epsLoop]
    split
    · exact ⟨result, rfl⟩
    · rename_i q rest hp
      have hlen := pickAt_length hp
      apply ih
      have h2 := C01.length_sunion_le rest (sdiff (dedup (N.succ q N.eps)) result)
      have hmono : ∀ k, k ∈ N.keyStates →
          (sdiff (dedup (N.succ k N.eps)) (sunion result (sdiff (dedup (N.succ q N.eps)) result))).length
            ≤ (sdiff (dedup (N.succ k N.eps)) result).length := by
        intro k _
        unfold sdiff
        apply C01.length_filter_mono
        intro x _ hx
        simp only [decide_eq_true_eq, mem_sunion, not_or] at hx ⊢
        exact hx.1
      by_cases hq : q ∈ N.keyStates
      · have hq0 : (sdiff (dedup (N.succ q N.eps)) (sunion result (sdiff (dedup (N.succ q N.eps)) result))).length
            + (sdiff (dedup (N.succ q N.eps)) result).length ≤ (sdiff (dedup (N.succ q N.eps)) result).length := by
          have : sdiff (dedup (N.succ q N.eps)) (sunion result (sdiff (dedup (N.succ q N.eps)) result)) = [] := by
            rw [List.eq_nil_iff_forall_not_mem]
            intro x hx
            simp only [mem_sdiff, mem_sunion, mem_dedup, not_or, not_and, Classical.not_not] at hx
            exact hx.2.1 (hx.2.2 hx.1)
          rw [this]
          simp
        have hnk : N.keyStates.Nodup := nodup_dedup _
        have := C01.sum_map_add_le hnk hq hmono hq0
        omega
      · have h0 : (sdiff (dedup (N.succ q N.eps)) result).length = 0 := by
          rw [N.succ_eq_nil_of_not_keyState _ hq]; rfl
        have := C01.sum_map_le hmono
        omega

/-- No hypothesis on `N` at all: `S.length + N.epsWork` pops always suffice. -/
theorem NFA.epsClosure_ok_of_fuel (N : NFA σ τ) (s : Sched) (S : List σ) (fuel : Nat)
    (hf : S.length + N.epsWork ≤ fuel) : ∃ R, N.epsClosure fuel s S = .ok R := by
  unfold NFA.epsClosure
  apply N.epsLoop_terminates_of_fuel
  have hlen : (dedup S).length ≤ S.length :=
    List.Nodup.length_le_of_subset (nodup_dedup S) (fun x hx => mem_dedup.mp hx)
  have : (N.keyStates.map fun k => (sdiff (dedup (N.succ k N.eps)) (dedup S)).length).sum ≤ N.epsWork := by
    unfold NFA.epsWork
    apply C01.sum_map_le
    intro k _
    have h1 : (sdiff (dedup (N.succ k N.eps)) (dedup S)).length ≤ (dedup (N.succ k N.eps)).length :=
      List.length_filter_le _ _
    have h2 : (dedup (N.succ k N.eps)).length ≤ (N.succ k N.eps).length :=
      List.Nodup.length_le_of_subset (nodup_dedup _) (fun x hx => mem_dedup.mp hx)
    omega
  omega

/-! ### `closure`, `eqa`, `stepSet`, `runSet`, `accepts` -/

theorem NFA.epsClosure_sound_complete (N : NFA σ τ) (fuel : Nat) (s : Sched) (S R : List σ)
    (h : N.epsClosure fuel s S = .ok R) : ∀ q, q ∈ R ↔ N.EpsReach S q := by
  unfold NFA.epsClosure at h
  exact N.epsLoop_exact S fuel s _ _ R (fun q hq => .base (mem_dedup.mp hq)) (fun q hq => hq)
    (fun q hq => mem_dedup.mpr hq) (fun q hq hn => absurd hq hn) h

theorem NFA.closure_ok (N : NFA σ τ) (hv : N.valid = true) (s : Sched)
    (S : List σ) : ∃ R, N.closure s S = .ok R := by
  unfold NFA.closure NFA.epsClosure NFA.closureFuel
  have hlen : (dedup S).length ≤ S.length :=
    List.Nodup.length_le_of_subset (nodup_dedup S) (fun x hx => mem_dedup.mp hx)
  apply N.epsLoop_terminates hv (N.Q ++ S) (fun q hq => List.mem_append_left _ hq) _ s _ _
    (nodup_dedup S) (fun q hq => List.mem_append_right _ (mem_dedup.mp hq))
  rw [List.length_append]
  omega

theorem NFA.closure_spec (N : NFA σ τ) (hv : N.valid = true) (s : Sched)
    (S : List σ) : ∃ R, N.closure s S = .ok R ∧ ∀ q, q ∈ R ↔ N.EpsReach S q := by
  obtain ⟨R, hR⟩ := N.closure_ok hv s S
  exact ⟨R, hR, N.epsClosure_sound_complete _ s S R hR⟩

theorem NFA.eqa_spec (N : NFA σ τ) (hv : N.valid = true) (s : Sched)
    (q : σ) (a : τ) :
    ∃ R, N.eqa s q a = .ok R ∧ ∀ r, r ∈ R ↔ ∃ q', N.Succ q a q' ∧ N.EpsReach [q'] r := by
  unfold NFA.eqa
  cases hl : N.delta.lookup (q, a) with
  | none =>
    refine ⟨[], rfl, ?_⟩
    intro r
    simp [NFA.Succ, hl]
  | some Q1 =>
    obtain ⟨cs, hcs, hm⟩ := C01.mapM_except_ok (f := fun q' => N.closure s [q']) Q1
      (fun x _ => N.closure_ok hv s [x])
    refine ⟨sunions cs, ?_, ?_⟩
    · simp only [hcs]; rfl
    · intro r
      simp only [mem_sunions, hm]
      constructor
      · rintro ⟨l, ⟨x, hx, hc⟩, hr⟩
        exact ⟨x, ⟨Q1, hl, hx⟩, (N.epsClosure_sound_complete _ s [x] l hc r).mp hr⟩
      · rintro ⟨q', ⟨T, hT, hq'⟩, hr⟩
        rw [hl] at hT
        cases hT
        obtain ⟨R, hR, hRm⟩ := N.closure_spec hv s [q']
        exact ⟨R, ⟨q', hq', hR⟩, (hRm r).mpr hr⟩

theorem NFA.stepSet_spec (N : NFA σ τ) (hv : N.valid = true) (s : Sched)
    (S : List σ) (a : τ) :
    ∃ T, N.stepSet s S a = .ok T ∧
      ∀ r, r ∈ T ↔ ∃ q, q ∈ S ∧ ∃ q', N.Succ q a q' ∧ N.EpsReach [q'] r := by
  unfold NFA.stepSet
  obtain ⟨cs, hcs, hm⟩ := C01.mapM_except_ok (f := fun q => N.eqa s q a) S
    (fun x _ => by obtain ⟨R, hR, _⟩ := N.eqa_spec hv s x a; exact ⟨R, hR⟩)
  refine ⟨sunions cs, ?_, ?_⟩
  · simp only [hcs]; rfl
  · intro r
    simp only [mem_sunions, hm]
    constructor
    · rintro ⟨l, ⟨x, hx, hc⟩, hr⟩
      obtain ⟨R, hR, hRm⟩ := N.eqa_spec hv s x a
      rw [hR] at hc
      cases hc
      exact ⟨x, hx, (hRm r).mp hr⟩
    · rintro ⟨x, hx, hq'⟩
      obtain ⟨R, hR, hRm⟩ := N.eqa_spec hv s x a
      exact ⟨R, ⟨x, hx, hR⟩, (hRm r).mpr hq'⟩

/-- `S` is closed under ε-moves. -/
def NFA.EpsClosed (N : NFA σ τ) (S : List σ) : Prop :=
  ∀ q, q ∈ S → ∀ q', N.Succ q N.eps q' → q' ∈ S

theorem NFA.Run.of_epsReach {N : NFA σ τ} {q q1 r : σ} {w : List τ}
    (h : N.EpsReach [q] q1) (hr : N.Run q1 w r) : N.Run q w r := by
  induction h with
  | base hm =>
    have := List.mem_singleton.mp hm
    subst this
    exact hr
  | step _ hs ih => exact ih (NFA.Run.eps hs hr)

theorem NFA.Run.nil_closed {N : NFA σ τ} {S : List σ} (hc : N.EpsClosed S) {q r : σ}
    (h : N.Run q [] r) (hq : q ∈ S) : r ∈ S := by
  generalize hw : ([] : List τ) = w at h
  induction h with
  | nil => exact hq
  | eps hs _ ih => exact ih (hc _ hq _ hs) hw
  | sym => cases hw

theorem NFA.Run.cons_inv {N : NFA σ τ} {S : List σ} (hc : N.EpsClosed S) {q r : σ} {a : τ}
    {w : List τ} (h : N.Run q (a :: w) r) (hq : q ∈ S) :
    ∃ p, p ∈ S ∧ ∃ q', N.Succ p a q' ∧ N.Run q' w r := by
  generalize hw : a :: w = w' at h
  induction h with
  | nil => cases hw
  | eps hs _ ih => exact ih (hc _ hq _ hs) hw
  | sym _ hs hr _ =>
    cases hw
    exact ⟨_, hq, _, hs, hr⟩

theorem NFA.runSet_spec (N : NFA σ τ) (hv : N.valid = true) (s : Sched)
    (w : List τ) (hw : ∀ a, a ∈ w → a ∈ N.Sigma) :
    ∀ S, N.EpsClosed S →
      ∃ T, N.runSet s S w = .ok T ∧ ∀ r, r ∈ T ↔ ∃ q, q ∈ S ∧ N.Run q w r := by
  induction w with
  | nil =>
    intro S hc
    refine ⟨S, rfl, ?_⟩
    intro r
    constructor
    · intro hr; exact ⟨r, hr, NFA.Run.nil r⟩
    · rintro ⟨q, hq, hr⟩; exact NFA.Run.nil_closed hc hr hq
  | cons a w ih =>
    intro S hc
    have ha : a ≠ N.eps := by
      intro h
      exact NFA.valid_eps hv (h ▸ hw a (List.mem_cons_self ..))
    obtain ⟨S', hS', hm'⟩ := N.stepSet_spec hv s S a
    have hc' : N.EpsClosed S' := by
      intro q hq q' hs
      obtain ⟨p, hp, p', hps, hpe⟩ := (hm' q).mp hq
      exact (hm' q').mpr ⟨p, hp, p', hps, NFA.EpsReach.step hpe hs⟩
    obtain ⟨T, hT, hmT⟩ := ih (fun b hb => hw b (List.mem_cons_of_mem _ hb)) S' hc'
    refine ⟨T, ?_, ?_⟩
    · simp only [NFA.runSet, hS']
      exact hT
    · intro r
      rw [hmT r]
      constructor
      · rintro ⟨q1, hq1, hr⟩
        obtain ⟨p, hp, p', hps, hpe⟩ := (hm' q1).mp hq1
        exact ⟨p, hp, NFA.Run.sym ha hps (NFA.Run.of_epsReach hpe hr)⟩
      · rintro ⟨q, hq, hr⟩
        obtain ⟨p, hp, q', hs, hr'⟩ := NFA.Run.cons_inv hc hr hq
        exact ⟨q', (hm' q').mpr ⟨p, hp, q', hs, NFA.EpsReach.base (List.mem_singleton.mpr rfl)⟩, hr'⟩

theorem NFA.accepts_spec (N : NFA σ τ) (hv : N.valid = true) (s : Sched)
    (w : List τ) (hw : ∀ a, a ∈ w → a ∈ N.Sigma) :
    ∃ b, N.accepts s w = .ok b ∧ (b = true ↔ N.Accepts w) := by
  obtain ⟨S0, hS0, hm0⟩ := N.closure_spec hv s [N.q0]
  have hc0 : N.EpsClosed S0 := by
    intro q hq q' hs
    exact (hm0 q').mpr (NFA.EpsReach.step ((hm0 q).mp hq) hs)
  obtain ⟨T, hT, hmT⟩ := N.runSet_spec hv s w hw S0 hc0
  refine ⟨!sdisjoint T N.F, ?_, ?_⟩
  · simp only [NFA.accepts, hS0]
    show (do let S ← N.runSet s S0 w; pure (!sdisjoint S N.F)) = _
    rw [hT]; rfl
  · rw [Bool.not_eq_true', sdisjoint_false_iff]
    constructor
    · rintro ⟨f, hfT, hfF⟩
      obtain ⟨q, hq, hr⟩ := (hmT f).mp hfT
      exact ⟨f, hfF, NFA.Run.of_epsReach ((hm0 q).mp hq) hr⟩
    · rintro ⟨f, hfF, hr⟩
      exact ⟨f, (hmT f).mpr ⟨N.q0, (hm0 _).mpr (NFA.EpsReach.base (List.mem_singleton.mpr rfl)), hr⟩, hfF⟩

end
/-! ### Concrete objects for the non-vacuity examples of `Gamba.Props.C01` -/

/-- valid total DFA over `{a,b}`: "odd number of `a`". -/
def C01.exDFA : DFA String String :=
  { Q := ["even", "odd"], Sigma := ["a", "b"],
    delta := [(("even", "a"), "odd"), (("even", "b"), "even"), (("odd", "a"), "even"), (("odd", "b"), "odd")],
    q0 := "even", F := ["odd"] }

/-- valid 3-state NFA with an ε-cycle `A → B → C → A`, partial δ and a nondeterministic `x`-move. -/
def C01.exNFA : NFA String String :=
  { Q := ["A", "B", "C"], Sigma := ["x", "y"],
    delta := [(("A", "eps"), ["B"]), (("B", "eps"), ["C"]), (("C", "eps"), ["A"]),
              (("A", "x"), ["A", "B"]), (("C", "y"), ["C"])],
    q0 := "A", F := ["C"], eps := "eps" }

end Gamba
