/-
  Gamba.Proofs.C14n — helper lemmas for the formal boundary of the product-name hypotheses:
  `productName` is injective as soon as the FIRST components (or the SECOND components) are comma-free, and
  the concrete collision witness (operand states `a`, `a,b` and `b,c`, `c`) showing that some hypothesis on
  the names is needed.
-/
import Gamba.Proofs.C13a
namespace Gamba
namespace C14n

/-- cutting a list at its first separator is unambiguous -/
theorem append_sep_inj {α : Type} (sep : α) : ∀ (l l' r r' : List α), sep ∉ l → sep ∉ l' →
    l ++ sep :: r = l' ++ sep :: r' → l = l' ∧ r = r'
  | [], [], _, _, _, _, h => ⟨rfl, List.tail_eq_of_cons_eq h⟩
  | [], c :: l', _, _, _, h', h => by
    have : sep = c := List.head_eq_of_cons_eq h
    exact absurd (this ▸ List.mem_cons_self) h'
  | c :: l, [], _, _, h', _, h => by
    have : c = sep := List.head_eq_of_cons_eq h
    exact absurd (this ▸ List.mem_cons_self) h'
  | c :: l, c' :: l', r, r', hl, hl', h => by
    have hc : c = c' := List.head_eq_of_cons_eq h
    have ht : l ++ sep :: r = l' ++ sep :: r' := List.tail_eq_of_cons_eq h
    obtain ⟨e1, e2⟩ := append_sep_inj sep l l' r r' (fun e => hl (List.mem_cons_of_mem _ e))
      (fun e => hl' (List.mem_cons_of_mem _ e)) ht
    exact ⟨by rw [hc, e1], e2⟩

/-- … and so is cutting at the last separator -/
theorem append_sep_inj_right {α : Type} (sep : α) (l l' r r' : List α) (hr : sep ∉ r) (hr' : sep ∉ r')
    (h : l ++ sep :: r = l' ++ sep :: r') : l = l' ∧ r = r' := by
  have h' := congrArg List.reverse h
  simp only [List.reverse_append, List.reverse_cons, List.append_assoc, List.singleton_append] at h'
  obtain ⟨e1, e2⟩ := append_sep_inj sep r.reverse r'.reverse l.reverse l'.reverse
    (fun e => hr (List.mem_reverse.mp e)) (fun e => hr' (List.mem_reverse.mp e)) h'
  exact ⟨List.reverse_inj.mp e2, List.reverse_inj.mp e1⟩

theorem toList_inj {p q : String} (h : p.toList = q.toList) : p = q := by
  rw [← String.ofList_toList (s := p), ← String.ofList_toList (s := q), h]

/-- the core of a product name -/
theorem productName_core {p q p' q' : String} (h : productName (p, q) = productName (p', q')) :
    p.toList ++ ',' :: q.toList = p'.toList ++ ',' :: q'.toList := by
  have h1 := congrArg String.toList h
  rw [C13a.productName_toList, C13a.productName_toList] at h1
  have h2 := List.tail_eq_of_cons_eq h1
  rw [show p.toList ++ ',' :: (q.toList ++ [')']) = (p.toList ++ ',' :: q.toList) ++ [')'] by simp,
    show p'.toList ++ ',' :: (q'.toList ++ [')']) = (p'.toList ++ ',' :: q'.toList) ++ [')'] by simp] at h2
  exact List.append_cancel_right h2

theorem productName_inj_left {p q p' q' : String} (hp : ',' ∉ p.toList) (hp' : ',' ∉ p'.toList)
    (h : productName (p, q) = productName (p', q')) : (p, q) = (p', q') := by
  obtain ⟨e1, e2⟩ := append_sep_inj ',' _ _ _ _ hp hp' (productName_core h)
  rw [toList_inj e1, toList_inj e2]

theorem productName_inj_right {p q p' q' : String} (hq : ',' ∉ q.toList) (hq' : ',' ∉ q'.toList)
    (h : productName (p, q) = productName (p', q')) : (p, q) = (p', q') := by
  obtain ⟨e1, e2⟩ := append_sep_inj_right ',' _ _ _ _ hq hq' (productName_core h)
  rw [toList_inj e1, toList_inj e2]

/-! ### the recorded defect `product-name-collision` -/

/-- operands found on the real library: `D1` has the states `a`, `a,b`; `D2` has the states `b,c`, `c`
    (all states reachable, both languages non-trivial) -/
def badD1 : DFA String String :=
  { Q := ["a", "a,b"], Sigma := ["x", "y"],
    delta := [(("a", "x"), "a,b"), (("a", "y"), "a"), (("a,b", "x"), "a,b"), (("a,b", "y"), "a")],
    q0 := "a", F := ["a"] }

def badD2 : DFA String String :=
  { Q := ["b,c", "c"], Sigma := ["x", "y"],
    delta := [(("b,c", "x"), "b,c"), (("b,c", "y"), "c"), (("c", "x"), "c"), (("c", "y"), "b,c")],
    q0 := "c", F := ["b,c"] }

/-- the structured union automaton: four different pair states -/
def badP : DFA (String × String) String :=
  { Q := [("a", "b,c"), ("a", "c"), ("a,b", "b,c"), ("a,b", "c")],
    Sigma := ["x", "y"],
    delta := [((("a", "b,c"), "x"), ("a,b", "b,c")), ((("a", "b,c"), "y"), ("a", "c")),
              ((("a", "c"), "x"), ("a,b", "c")), ((("a", "c"), "y"), ("a", "b,c")),
              ((("a,b", "b,c"), "x"), ("a,b", "b,c")), ((("a,b", "b,c"), "y"), ("a", "c")),
              ((("a,b", "c"), "x"), ("a,b", "c")), ((("a,b", "c"), "y"), ("a", "b,c"))],
    q0 := ("a", "c"),
    F := [("a", "b,c"), ("a", "c"), ("a,b", "b,c")] }

/-- what the library returns: the accepting pair `(a, "b,c")` and the rejecting pair `("a,b", c)` are both
    called `"(a,b,c)"` -/
def badNamed : DFA String String :=
  { Q := ["(a,b,c)", "(a,c)", "(a,b,b,c)", "(a,b,c)"],
    Sigma := ["x", "y"],
    delta := [(("(a,b,c)", "x"), "(a,b,b,c)"), (("(a,b,c)", "y"), "(a,c)"),
              (("(a,c)", "x"), "(a,b,c)"), (("(a,c)", "y"), "(a,b,c)"),
              (("(a,b,b,c)", "x"), "(a,b,b,c)"), (("(a,b,b,c)", "y"), "(a,c)"),
              (("(a,b,c)", "x"), "(a,b,c)"), (("(a,b,c)", "y"), "(a,b,c)")],
    q0 := "(a,c)",
    F := ["(a,b,c)", "(a,c)", "(a,b,b,c)"] }

theorem badD1_valid : badD1.valid = true := by decide
theorem badD2_valid : badD2.valid = true := by decide
theorem bad_sigma : ∀ a, a ∈ badD1.Sigma ↔ a ∈ badD2.Sigma := fun _ => Iff.rfl

theorem bad_product : badD1.product badD2 .union = badP := by rfl

theorem name_a_bc : productName ("a", "b,c") = "(a,b,c)" := by decide
theorem name_a_c : productName ("a", "c") = "(a,c)" := by decide
theorem name_ab_bc : productName ("a,b", "b,c") = "(a,b,b,c)" := by decide
theorem name_ab_c : productName ("a,b", "c") = "(a,b,c)" := by decide

theorem badP_named : badP.mapStates productName = badNamed := by
  simp [DFA.mapStates, badP, badNamed, name_a_bc, name_a_c, name_ab_bc, name_ab_c]

theorem bad_named : (badD1.product badD2 .union).mapStates productName = badNamed := by
  rw [bad_product, badP_named]

theorem badP_valid : badP.valid = true := by decide
theorem badNamed_valid : badNamed.valid = true := by decide

theorem badNamed_acceptsT_x : badNamed.acceptsT ["x"] = true := by decide
theorem badD1_acceptsT_x : badD1.acceptsT ["x"] = false := by decide
theorem badD2_acceptsT_x : badD2.acceptsT ["x"] = false := by decide
theorem badP_acceptsT_x : badP.acceptsT ["x"] = false := by decide

end C14n
end Gamba
