/-
  Gamba.Proofs.C16e — the simple grammar text format (Model/CfgText.lean): `parseSimpleCfg (printSimpleCfg G)`
  gives `G` back (variables, terminals, start variable, rules as a set) for the grammars the format can represent.
-/
import Gamba.Model.CfgText
import Gamba.Proofs.TextBasic
namespace Gamba
namespace CfgText
open Text

/-! ### character classes -/

theorem isUpper_iff (c : Char) : c.isUpper = true ↔ 65 ≤ c.val.toNat ∧ c.val.toNat ≤ 90 := by
  simp [Char.isUpper, UInt32.le_iff_toNat_le]

theorem isLower_iff (c : Char) : c.isLower = true ↔ 97 ≤ c.val.toNat ∧ c.val.toNat ≤ 122 := by
  simp [Char.isLower, UInt32.le_iff_toNat_le]

theorem isLower_of_isUpper {c : Char} (h : c.isUpper = true) : c.isLower = false := by
  rw [← Bool.not_eq_true, isLower_iff]; rw [isUpper_iff] at h; omega

theorem isWordChar_of_isUpper {c : Char} (h : c.isUpper = true) : isWordChar c = true := by
  simp [isWordChar, Char.isAlphanum, Char.isAlpha, h]
theorem isWordChar_of_isLower {c : Char} (h : c.isLower = true) : isWordChar c = true := by
  simp [isWordChar, Char.isAlphanum, Char.isAlpha, h]
theorem isWordChar_ne_bar {c : Char} (h : isWordChar c = true) : c ≠ '|' := by
  rintro rfl; revert h; decide
theorem isWordChar_ne_at {c : Char} (h : isWordChar c = true) : c ≠ '@' := by
  rintro rfl; revert h; decide
theorem isWordChar_ne_dash {c : Char} (h : isWordChar c = true) : c ≠ '-' := by
  rintro rfl; revert h; decide
theorem isUpper_ne_eps {c : Char} (h : c.isUpper = true) : c ≠ 'ε' := by
  rintro rfl; revert h; decide
theorem isLower_ne_eps {c : Char} (h : c.isLower = true) : c ≠ 'ε' := by
  rintro rfl; revert h; decide
theorem isUpper_ne_us {c : Char} (h : c.isUpper = true) : c ≠ '_' := by
  rintro rfl; revert h; decide
theorem isLower_ne_us {c : Char} (h : c.isLower = true) : c ≠ '_' := by
  rintro rfl; revert h; decide
theorem isUpper_ne_e {c : Char} (h : c.isUpper = true) : c ≠ 'e' := by
  rintro rfl; revert h; decide

/-! ### printed alternatives and rule lines -/

/-- a printed alternative: a non-empty run of `\w` characters -/
def AltOk (a : List Char) : Prop := a ≠ [] ∧ ∀ c, c ∈ a → isWordChar c = true

theorem AltOk.head {a : List Char} (h : AltOk a) : ∀ c, a.head? = some c → isSpace c = false :=
  fun c hc => not_isSpace_of_isWordChar (h.2 c (List.mem_of_mem_head? hc))
theorem AltOk.last {a : List Char} (h : AltOk a) : ∀ c, a.getLast? = some c → isSpace c = false :=
  fun c hc => not_isSpace_of_isWordChar (h.2 c (List.mem_of_getLast? hc))
theorem AltOk.bar_not_mem {a : List Char} (h : AltOk a) : '|' ∉ a :=
  fun hm => isWordChar_ne_bar (h.2 _ hm) rfl
theorem AltOk.newline_not_mem {a : List Char} (h : AltOk a) : '\n' ∉ a :=
  fun hm => absurd (not_isSpace_of_isWordChar (h.2 _ hm)) (by decide)

theorem AltOk.isAltText {a : List Char} (h : AltOk a) : isAltText a = true := by
  obtain ⟨h1, h2⟩ := h
  cases a with
  | nil => exact absurd rfl h1
  | cons c cs =>
    simp only [CfgText.isAltText, List.isEmpty_cons, Bool.not_false, Bool.true_and, List.all_eq_true,
      Bool.or_eq_true]
    exact fun x hx => Or.inl (h2 x hx)

theorem strip_pad {a : List Char} (h : AltOk a) {sp : List Char} (hsp : ∀ c, c ∈ sp → isSpace c = true) :
    strip (' ' :: (a ++ sp)) = a := by
  rw [strip_eq, dropWhileSpace_space_cons isSpace_space, dropWhileSpace_of_head, rstrip_append_spaces _ hsp,
    rstrip_of_getLast h.last]
  intro c hc
  have h1 := h.1
  cases a with
  | nil => exact absurd rfl h1
  | cons x xs => exact h.head c (by simpa using hc)

theorem map_strip_splitOn_bar {alts : List (List Char)} (hne : alts ≠ []) (h : ∀ a, a ∈ alts → AltOk a) :
    (splitOn '|' (' ' :: [' ', '|', ' '].intercalate alts)).map strip = alts := by
  induction alts with
  | nil => exact absurd rfl hne
  | cons a as ih =>
    have ha := h a (by simp)
    cases as with
    | nil =>
      have : '|' ∉ ' ' :: a := by
        simp only [List.mem_cons, not_or]; exact ⟨by decide, ha.bar_not_mem⟩
      simp only [List.intercalate_singleton, splitOn_of_not_mem this, List.map_cons, List.map_nil]
      have := strip_pad ha (sp := []) (by simp)
      simpa using this
    | cons b bs =>
      have e : ' ' :: [' ', '|', ' '].intercalate (a :: b :: bs) =
          (' ' :: (a ++ [' '])) ++ '|' :: (' ' :: [' ', '|', ' '].intercalate (b :: bs)) := by
        rw [List.intercalate_cons_cons]; simp
      have hn : '|' ∉ ' ' :: (a ++ [' ']) := by
        simp only [List.mem_cons, List.mem_append, List.not_mem_nil, or_false, not_or]
        exact ⟨by decide, ha.bar_not_mem, by decide⟩
      rw [e, splitOn_append_sep hn, List.map_cons, ih (by simp) (fun x hx => h x (List.mem_cons_of_mem _ hx)),
        strip_pad ha (by simp [isSpace_space])]

theorem lastOk_append {x y : List Char} (hy : y ≠ []) (h : ∀ c, y.getLast? = some c → isSpace c = false) :
    ∀ c, (x ++ y).getLast? = some c → isSpace c = false := by
  intro c hc
  rw [List.getLast?_append] at hc
  cases hl : y.getLast? with
  | none => exact absurd (List.getLast?_eq_none_iff.mp hl) hy
  | some d => rw [hl] at hc; simp at hc; subst hc; exact h d hl

theorem intercalate_ne_nil {sep : List Char} {alts : List (List Char)} (hne : alts ≠ []) (h : ∀ a, a ∈ alts → AltOk a) :
    sep.intercalate alts ≠ [] := by
  cases alts with
  | nil => exact absurd rfl hne
  | cons a as =>
    have ha := (h a (by simp)).1
    cases as with
    | nil => simpa using ha
    | cons b bs => rw [List.intercalate_cons_cons]; simp [ha]

theorem lastOk_intercalate {sep : List Char} {alts : List (List Char)} (hne : alts ≠ []) (h : ∀ a, a ∈ alts → AltOk a) :
    ∀ c, (sep.intercalate alts).getLast? = some c → isSpace c = false := by
  induction alts with
  | nil => exact absurd rfl hne
  | cons a as ih =>
    cases as with
    | nil => simpa using (h a (by simp)).last
    | cons b bs =>
      rw [List.intercalate_cons_cons]
      have h' : ∀ x, x ∈ b :: bs → AltOk x := fun x hx => h x (List.mem_cons_of_mem _ hx)
      exact lastOk_append (intercalate_ne_nil (by simp) h') (ih (by simp) h')

theorem scanLine_rule (acc : Lines) {c : Char} (hc : c.isUpper = true) {alts : List (List Char)} (hne : alts ≠ [])
    (h : ∀ a, a ∈ alts → AltOk a) :
    scanLine acc (c :: ' ' :: '-' :: '>' :: ' ' :: [' ', '|', ' '].intercalate alts) =
      .ok { acc with rules := acc.rules ++ [([c], alts)] } := by
  have hw : isWordChar c = true := by simp [isWordChar, Char.isAlphanum, Char.isAlpha, hc]
  have hs : isSpace c = false := not_isSpace_of_isWordChar hw
  have hstrip : strip (c :: ' ' :: '-' :: '>' :: ' ' :: [' ', '|', ' '].intercalate alts) =
      c :: ' ' :: '-' :: '>' :: ' ' :: [' ', '|', ' '].intercalate alts := by
    apply strip_eq_self
    · intro d hd; simp at hd; subst hd; exact hs
    · exact lastOk_append (x := [c, ' ', '-', '>', ' ']) (intercalate_ne_nil hne h) (lastOk_intercalate hne h)
  have hpc : c ≠ '%' := isWordChar_ne_percent hw
  have hd : c ≠ '-' := isWordChar_ne_dash hw
  have harrow : splitArrowOnce (c :: ' ' :: '-' :: '>' :: ' ' :: [' ', '|', ' '].intercalate alts) =
      some ([c, ' '], ' ' :: [' ', '|', ' '].intercalate alts) := by
    rw [splitArrowOnce.eq_3]
    · rw [splitArrowOnce.eq_3]
      · rw [splitArrowOnce.eq_2]; rfl
      · intro r; simp
    · intro r; simp [hd]
  have hl : strip [c, ' '] = [c] := by
    simp [strip, dropWhileSpace, hs, isSpace_space]
  have halts : List.map strip (splitOn '|' (' ' :: [' ', '|', ' '].intercalate alts)) = alts :=
    map_strip_splitOn_bar hne h
  have hall : alts.all isAltText = true := List.all_eq_true.mpr fun a ha => (h a ha).isAltText
  unfold scanLine
  simp only [hstrip]
  simp [startsWith, hpc, parseRuleLine, harrow, hl, halts, hw, hall]

/-! ### the line scanner on the printed lines -/

/-- the printed line of the variable character `p.1` with the alternatives `p.2` -/
def ruleLine (p : Char × List (List Char)) : List Char :=
  p.1 :: ' ' :: '-' :: '>' :: ' ' :: [' ', '|', ' '].intercalate p.2

theorem foldlM_scanLine_rules (acc : Lines) (ps : List (Char × List (List Char)))
    (h : ∀ p, p ∈ ps → p.1.isUpper = true ∧ p.2 ≠ [] ∧ ∀ a, a ∈ p.2 → AltOk a) :
    (ps.map ruleLine).foldlM scanLine acc =
      .ok { acc with rules := acc.rules ++ ps.map fun p => ([p.1], p.2) } := by
  induction ps generalizing acc with
  | nil => simp; rfl
  | cons p ps ih =>
    obtain ⟨h1, h2, h3⟩ := h p (by simp)
    rw [List.map_cons, List.foldlM_cons, ruleLine, scanLine_rule acc h1 h2 h3]
    show List.foldlM scanLine _ _ = _
    rw [ih _ (fun q hq => h q (List.mem_cons_of_mem _ hq))]
    simp

/-- the grammar `parseSimpleCfg` builds from the list of (lhs, rhs) pairs -/
def mkCfg (rules : List (String × List Sym)) (s0 : String) : CFG :=
  { V := dedup (rules.map (·.1)),
    Sigma := dedup (rules.flatMap fun r => r.2.filterMap fun x => match x with | .t a => some a | .v _ => none),
    R := rules.zipIdx.map fun (r, i) => ({ lhs := r.1, aid := i, rhs := r.2 } : CRule),
    S := s0 }

theorem parseSimpleCfg_ok {text : List Char} {rs : List (List Char × List (List Char))} {eps : Char}
    {s0 : String} {rhs0 : List Sym} {rest : List (String × List Sym)}
    (h : (splitOn '\n' text).foldlM scanLine {} = .ok { eps := none, rules := rs })
    (heps : eps = if rs.any (fun r => r.1.contains 'ε' || r.2.any (·.contains 'ε')) then 'ε' else '_')
    (hrules : (rs.flatMap fun r =>
      (r.2.filter (· ≠ ['@'])).map fun alt => (str r.1, if alt = [eps] then [] else alt.map parseSym)) = (s0, rhs0) :: rest)
    (hvalid : (mkCfg ((s0, rhs0) :: rest) s0).valid = true) :
    parseSimpleCfg text = .ok (mkCfg ((s0, rhs0) :: rest) s0, String.singleton eps) := by
  unfold parseSimpleCfg
  rw [h]
  subst heps
  simp only [bind, Except.bind]
  rw [hrules]
  show (if (mkCfg ((s0, rhs0) :: rest) s0).valid = true then Except.ok (mkCfg ((s0, rhs0) :: rest) s0, _) else _) = _
  rw [if_pos hvalid]

/-! ### symbols and right-hand sides -/

/-- a symbol of a simple grammar: a single lower-case terminal or a single upper-case variable -/
def SymOk : Sym → Prop
  | .t a => ∃ c, a.toList = [c] ∧ c.isLower = true
  | .v A => ∃ c, A.toList = [c] ∧ c.isUpper = true

/-- the character a symbol is printed as -/
def symChar (x : Sym) : Char := x.name.toList.headD ' '

theorem singleton_eq_of_toList {a : String} {c : Char} (h : a.toList = [c]) : String.singleton c = a := by
  rw [← str_toList a, h, ← str_toList (String.singleton c), String.toList_singleton]

theorem SymOk.spec {x : Sym} (h : SymOk x) :
    x.name.toList = [symChar x] ∧ isWordChar (symChar x) = true ∧ symChar x ≠ 'ε' ∧ symChar x ≠ '_' ∧
      parseSym (symChar x) = x := by
  cases x with
  | t a =>
    obtain ⟨c, h1, h2⟩ := h
    have e : symChar (.t a) = c := by simp [symChar, Sym.name, h1]
    rw [e]
    refine ⟨h1, isWordChar_of_isLower h2, isLower_ne_eps h2, isLower_ne_us h2, ?_⟩
    simp [parseSym, h2, singleton_eq_of_toList h1]
  | v A =>
    obtain ⟨c, h1, h2⟩ := h
    have e : symChar (.v A) = c := by simp [symChar, Sym.name, h1]
    rw [e]
    refine ⟨h1, isWordChar_of_isUpper h2, isUpper_ne_eps h2, isUpper_ne_us h2, ?_⟩
    simp [parseSym, isLower_of_isUpper h2, isUpper_ne_eps h2, singleton_eq_of_toList h1]

/-- the characters a right-hand side is printed as -/
def altChars (rhs : List Sym) : List Char := if rhs.isEmpty then ['ε'] else rhs.map symChar

theorem flatMap_name_toList {rhs : List Sym} (h : ∀ x, x ∈ rhs → SymOk x) :
    rhs.flatMap (fun x => x.name.toList) = rhs.map symChar := by
  induction rhs with
  | nil => rfl
  | cons x xs ih =>
    rw [List.flatMap_cons, (h x (by simp)).spec.1, ih (fun y hy => h y (List.mem_cons_of_mem _ hy))]
    rfl

theorem toList_altStr {rhs : List Sym} (h : ∀ x, x ∈ rhs → SymOk x) :
    (if rhs.isEmpty then "ε" else String.join (rhs.map Sym.name)).toList = altChars rhs := by
  unfold altChars
  split
  · rfl
  · rw [String.toList_join, List.flatMap_map]
    exact flatMap_name_toList h

theorem altChars_ok {rhs : List Sym} (h : ∀ x, x ∈ rhs → SymOk x) : AltOk (altChars rhs) := by
  unfold altChars
  split
  · exact ⟨by simp, by intro c hc; simp at hc; subst hc; decide⟩
  · rename_i hne
    refine ⟨by simpa using hne, ?_⟩
    intro c hc
    obtain ⟨x, hx, rfl⟩ := List.mem_map.mp hc
    exact (h x hx).spec.2.1

theorem altChars_ne_at {rhs : List Sym} (h : ∀ x, x ∈ rhs → SymOk x) : altChars rhs ≠ ['@'] := by
  intro e
  have := (altChars_ok h).2 '@' (by rw [e]; simp)
  revert this; decide

theorem eps_mem_altChars {rhs : List Sym} (h : ∀ x, x ∈ rhs → SymOk x) : 'ε' ∈ altChars rhs ↔ rhs = [] := by
  unfold altChars
  split
  · rename_i he; simpa using he
  · rename_i hne
    constructor
    · intro hc
      obtain ⟨x, hx, e⟩ := List.mem_map.mp hc
      exact absurd e (h x hx).spec.2.2.1
    · intro e; subst e; simp at hne

/-- reading a printed alternative back, with `eps` the ε character the parser settled on -/
theorem decode_altChars {rhs : List Sym} (h : ∀ x, x ∈ rhs → SymOk x) {eps : Char} (h1 : eps = 'ε' ∨ eps = '_')
    (h2 : rhs = [] → eps = 'ε') :
    (if altChars rhs = [eps] then [] else (altChars rhs).map parseSym) = rhs := by
  cases rhs with
  | nil => simp [altChars, h2 rfl]
  | cons x xs =>
    have hx := (h x (by simp)).spec
    have hne : altChars (x :: xs) ≠ [eps] := by
      intro e
      simp only [altChars, List.isEmpty_cons, Bool.false_eq_true, ↓reduceIte, List.map_cons, List.cons.injEq] at e
      rcases h1 with h1 | h1
      · exact hx.2.2.1 (e.1.trans h1)
      · exact hx.2.2.2.1 (e.1.trans h1)
    rw [if_neg hne]
    simp only [altChars, List.isEmpty_cons, Bool.false_eq_true, ↓reduceIte, List.map_map]
    clear hne hx h2
    generalize x :: xs = l at h
    induction l with
    | nil => rfl
    | cons y ys ih =>
      rw [List.map_cons, ih (fun z hz => h z (List.mem_cons_of_mem _ hz))]
      simp [(h y (by simp)).spec.2.2.2.2]

/-! ### `orderedVariables` -/

theorem mem_dedup' {l : List String} {x : String} : x ∈ orderedVariables.dedup' l ↔ x ∈ l := by
  induction l with
  | nil => simp [orderedVariables.dedup']
  | cons y ys ih =>
    simp only [orderedVariables.dedup', List.mem_cons, List.mem_filter, ih, decide_eq_true_eq]
    constructor
    · rintro (h | ⟨h, _⟩)
      · exact Or.inl h
      · exact Or.inr h
    · rintro (h | h)
      · exact Or.inl h
      · by_cases e : x = y
        · exact Or.inl e
        · exact Or.inr ⟨h, e⟩

theorem nodup_dedup' (l : List String) : (orderedVariables.dedup' l).Nodup := by
  induction l with
  | nil => simp [orderedVariables.dedup']
  | cons y ys ih =>
    simp only [orderedVariables.dedup']
    refine List.nodup_cons.mpr ⟨by simp, ih.sublist List.filter_sublist⟩

theorem mem_orderedVariables {G : CFG} {X : String} : X ∈ orderedVariables G ↔ ∃ r, r ∈ G.R ∧ r.lhs = X := by
  simp [orderedVariables, mem_dedup']

theorem flatMap_congr_mem {α β : Type} {l : List α} {f g : α → List β} (h : ∀ x, x ∈ l → f x = g x) :
    l.flatMap f = l.flatMap g := by
  induction l with
  | nil => rfl
  | cons x xs ih =>
    rw [List.flatMap_cons, List.flatMap_cons, h x (by simp), ih (fun y hy => h y (List.mem_cons_of_mem _ hy))]

/-- (lhs, rhs) of every rule -/
def rulePairs (R : List CRule) : List (String × List Sym) := R.map fun r => (r.lhs, r.rhs)

theorem mem_rulePairs {R : List CRule} {A : String} {rhs : List Sym} :
    (A, rhs) ∈ rulePairs R ↔ ∃ r, r ∈ R ∧ r.lhs = A ∧ r.rhs = rhs := by
  simp [rulePairs]

/-- the rules grouped by variable, as the printer lists them -/
def grouped (G : CFG) : List CRule := (orderedVariables G).flatMap fun X => G.R.filter fun r => decide (r.lhs = X)

theorem grouped_perm (G : CFG) : (grouped G).Perm G.R :=
  flatMap_filter_perm (fun r : CRule => r.lhs) (orderedVariables G) G.R (nodup_dedup' _)
    (fun r hr => mem_orderedVariables.mpr ⟨r, hr, rfl⟩)

theorem grouped_head {G : CFG} {r0 : CRule} {rs : List CRule} (h : G.R = r0 :: rs) :
    ∃ rest, grouped G = r0 :: rest := by
  simp [grouped, orderedVariables, h, orderedVariables.dedup', List.filter_cons]

theorem rulePairs_mkCfg (pairs : List (String × List Sym)) (s0 : String) : rulePairs (mkCfg pairs s0).R = pairs := by
  simp only [rulePairs, mkCfg, List.map_map]
  have : ((fun r : CRule => (r.lhs, r.rhs)) ∘ fun x : (String × List Sym) × Nat =>
      ({ lhs := x.1.1, aid := x.2, rhs := x.1.2 } : CRule)) = Prod.fst := by
    funext x; rfl
  rw [this, List.zipIdx_map_fst]

/-- what `mkCfg` builds from a rearrangement of the rules of a valid grammar in which every variable has a rule and
    every terminal occurs -/
theorem mkCfg_spec {G : CFG} {pairs : List (String × List Sym)} (s0 : String)
    (hp : ∀ p, p ∈ pairs ↔ p ∈ rulePairs G.R) (hv : G.valid = true)
    (hasRules : ∀ A, A ∈ G.V → ∃ r, r ∈ G.R ∧ r.lhs = A)
    (sigmaUsed : ∀ a, a ∈ G.Sigma → ∃ r, r ∈ G.R ∧ Sym.t a ∈ r.rhs) :
    (∀ A, A ∈ (mkCfg pairs s0).V ↔ A ∈ G.V) ∧ (∀ a, a ∈ (mkCfg pairs s0).Sigma ↔ a ∈ G.Sigma) ∧
      (∀ A rhs, (∃ r, r ∈ (mkCfg pairs s0).R ∧ r.lhs = A ∧ r.rhs = rhs) ↔ (∃ r, r ∈ G.R ∧ r.lhs = A ∧ r.rhs = rhs)) ∧
      (mkCfg pairs s0).valid = true := by
  have hvalid : ∀ r, r ∈ G.R → r.lhs ∈ G.V ∧ ∀ x, x ∈ r.rhs →
      match x with | .v A => A ∈ G.V | .t a => a ∈ G.Sigma := by
    intro r hr
    have := List.all_eq_true.mp hv r hr
    simp only [Bool.and_eq_true, decide_eq_true_eq, List.all_eq_true] at this
    refine ⟨this.1, fun x hx => ?_⟩
    have := this.2 x hx
    cases x <;> simpa using this
  have hV : ∀ A, A ∈ (mkCfg pairs s0).V ↔ A ∈ G.V := by
    intro A
    simp only [mkCfg, mem_dedup, List.mem_map]
    constructor
    · rintro ⟨⟨A', rhs⟩, hm, rfl⟩
      obtain ⟨r, hr, rfl, _⟩ := mem_rulePairs.mp ((hp _).mp hm)
      exact (hvalid r hr).1
    · intro hA
      obtain ⟨r, hr, rfl⟩ := hasRules A hA
      exact ⟨(r.lhs, r.rhs), (hp _).mpr (mem_rulePairs.mpr ⟨r, hr, rfl, rfl⟩), rfl⟩
  have hS : ∀ a, a ∈ (mkCfg pairs s0).Sigma ↔ ∃ r, r ∈ G.R ∧ Sym.t a ∈ r.rhs := by
    intro a
    simp only [mkCfg, mem_dedup, List.mem_flatMap, List.mem_filterMap]
    constructor
    · rintro ⟨⟨A', rhs⟩, hm, x, hx, he⟩
      obtain ⟨r, hr, _, rfl⟩ := mem_rulePairs.mp ((hp _).mp hm)
      cases x with
      | t b => simp at he; subst he; exact ⟨r, hr, hx⟩
      | v B => simp at he
    · rintro ⟨r, hr, hx⟩
      exact ⟨(r.lhs, r.rhs), (hp _).mpr (mem_rulePairs.mpr ⟨r, hr, rfl, rfl⟩), .t a, hx, rfl⟩
  have hR : ∀ A rhs, (∃ r, r ∈ (mkCfg pairs s0).R ∧ r.lhs = A ∧ r.rhs = rhs) ↔ (∃ r, r ∈ G.R ∧ r.lhs = A ∧ r.rhs = rhs) := by
    intro A rhs
    rw [← mem_rulePairs, ← mem_rulePairs, rulePairs_mkCfg]
    exact hp _
  refine ⟨hV, ?_, hR, ?_⟩
  · intro a
    rw [hS]
    constructor
    · rintro ⟨r, hr, hx⟩
      exact (hvalid r hr).2 _ hx
    · exact sigmaUsed a
  · unfold CFG.valid
    rw [List.all_eq_true]
    intro r' hr'
    obtain ⟨r, hr, h1, h2⟩ := (hR r'.lhs r'.rhs).mp ⟨r', hr', rfl, rfl⟩
    simp only [Bool.and_eq_true, decide_eq_true_eq, List.all_eq_true]
    refine ⟨(hV _).mpr (h1 ▸ (hvalid r hr).1), ?_⟩
    intro x hx
    rw [← h2] at hx
    cases x with
    | v B => simpa using (hV _).mpr ((hvalid r hr).2 _ hx)
    | t b => simpa using (hS b).mpr ⟨r, hr, hx⟩

/-! ### the round trip -/

/-- simple-format grammars that the text format can represent faithfully: single upper-case variables, single
    lower-case ASCII terminals, every variable has a rule, the start variable heads the first rule, Σ is exactly the
    set of terminals that occur -/
structure Printable (G : CFG) : Prop where
  simple : isSimple G = true
  valid : G.valid = true
  hasRules : ∀ A, A ∈ G.V → ∃ r, r ∈ G.R ∧ r.lhs = A
  startFirst : ∃ r rs, G.R = r :: rs ∧ r.lhs = G.S
  sigmaUsed : ∀ a, a ∈ G.Sigma → ∃ r, r ∈ G.R ∧ Sym.t a ∈ r.rhs

theorem Printable.rule_ok {G : CFG} (h : Printable G) {r : CRule} (hr : r ∈ G.R) :
    (∃ c, r.lhs.toList = [c] ∧ c.isUpper = true) ∧ ∀ x, x ∈ r.rhs → SymOk x := by
  have hs := h.simple
  simp only [isSimple, Bool.and_eq_true, List.all_eq_true] at hs
  have hu : ∀ A, A ∈ G.V → ∃ c, A.toList = [c] ∧ c.isUpper = true := by
    intro A hA
    have := hs.1 A hA
    unfold isUpper1 at this
    split at this
    · rename_i c hc; exact ⟨c, hc, this⟩
    · cases this
  have hl : ∀ a, a ∈ G.Sigma → ∃ c, a.toList = [c] ∧ c.isLower = true := by
    intro a ha
    have := hs.2 a ha
    unfold isLower1 at this
    split at this
    · rename_i c hc; exact ⟨c, hc, this⟩
    · cases this
  have hv := List.all_eq_true.mp h.valid r hr
  simp only [Bool.and_eq_true, decide_eq_true_eq, List.all_eq_true] at hv
  refine ⟨hu _ hv.1, fun x hx => ?_⟩
  have := hv.2 x hx
  cases x with
  | t a => exact hl a (by simpa using this)
  | v A => exact hu A (by simpa using this)

/-- the variable character and the printed alternatives of each printed line -/
def linePairs (G : CFG) : List (Char × List (List Char)) :=
  (orderedVariables G).map fun X =>
    (X.toList.headD ' ', (G.R.filter fun r => decide (r.lhs = X)).map fun r => altChars r.rhs)

theorem Printable.linePairs_ok {G : CFG} (h : Printable G) :
    ∀ p, p ∈ linePairs G → p.1.isUpper = true ∧ p.2 ≠ [] ∧ ∀ a, a ∈ p.2 → AltOk a := by
  intro p hp
  obtain ⟨X, hX, rfl⟩ := List.mem_map.mp hp
  obtain ⟨r, hr, rfl⟩ := mem_orderedVariables.mp hX
  obtain ⟨⟨c, hc1, hc2⟩, _⟩ := h.rule_ok hr
  refine ⟨by simpa [hc1] using hc2, ?_, ?_⟩
  · have : r ∈ G.R.filter fun r' => decide (r'.lhs = r.lhs) := List.mem_filter.mpr ⟨hr, by simp⟩
    intro e
    simp only [List.map_eq_nil_iff] at e
    rw [e] at this
    cases this
  · intro a ha
    obtain ⟨r', hr', rfl⟩ := List.mem_map.mp ha
    exact altChars_ok (h.rule_ok (List.mem_filter.mp hr').1).2

/-- the printed text, line by line -/
theorem Printable.print_lines {G : CFG} (h : Printable G) :
    ((orderedVariables G).map fun X =>
      X ++ " -> " ++ " | ".intercalate ((G.R.filter (·.lhs = X)).map fun r =>
        if r.rhs.isEmpty then "ε" else String.join (r.rhs.map Sym.name))).map String.toList =
      (linePairs G).map ruleLine := by
  rw [linePairs, List.map_map, List.map_map]
  apply List.map_congr_left
  intro X hX
  obtain ⟨r, hr, rfl⟩ := mem_orderedVariables.mp hX
  obtain ⟨⟨c, hc1, hc2⟩, _⟩ := h.rule_ok hr
  simp only [Function.comp, ruleLine, String.toList_append, toList_intercalate, hc1, List.map_map, List.headD_cons]
  have e1 : " -> ".toList = [' ', '-', '>', ' '] := rfl
  have e2 : " | ".toList = [' ', '|', ' '] := rfl
  rw [e1, e2]
  simp only [List.cons_append, List.nil_append, List.cons.injEq, true_and]
  congr 1
  apply List.map_congr_left
  intro r' hr'
  exact toList_altStr (h.rule_ok (List.mem_filter.mp hr').1).2

theorem newline_not_mem_ruleLine {p : Char × List (List Char)} (h1 : p.1.isUpper = true)
    (h3 : ∀ a, a ∈ p.2 → AltOk a) : '\n' ∉ ruleLine p := by
  intro hm
  simp only [ruleLine, List.mem_cons] at hm
  rcases hm with hm | hm | hm | hm | hm | hm
  · rw [← hm] at h1; revert h1; decide
  · revert hm; decide
  · revert hm; decide
  · revert hm; decide
  · revert hm; decide
  · rcases mem_intercalate hm with hm | ⟨a, ha, hc⟩
    · revert hm; decide
    · exact (h3 a ha).newline_not_mem hc

theorem Printable.rules_eq {G : CFG} (h : Printable G) {eps : Char} (h1 : eps = 'ε' ∨ eps = '_')
    (h2 : ∀ r, r ∈ G.R → r.rhs = [] → eps = 'ε') :
    (((linePairs G).map fun p => ([p.1], p.2)).flatMap fun r =>
      (r.2.filter (· ≠ ['@'])).map fun alt => (str r.1, if alt = [eps] then [] else alt.map parseSym)) =
      rulePairs (grouped G) := by
  rw [linePairs, List.map_map, List.flatMap_map, rulePairs, grouped, List.map_flatMap]
  apply flatMap_congr_mem
  intro X hX
  obtain ⟨r, hr, rfl⟩ := mem_orderedVariables.mp hX
  obtain ⟨⟨c, hc1, hc2⟩, _⟩ := h.rule_ok hr
  simp only [Function.comp]
  rw [List.filter_eq_self.mpr, List.map_map]
  · apply List.map_congr_left
    intro r' hr'
    obtain ⟨hr'1, hr'2⟩ := List.mem_filter.mp hr'
    simp only [decide_eq_true_eq] at hr'2
    simp only [Function.comp, hc1, List.headD_cons]
    rw [decode_altChars (h.rule_ok hr'1).2 h1 (h2 r' hr'1), hr'2, ← hc1, str_toList]
  · intro a ha
    obtain ⟨r', hr', rfl⟩ := List.mem_map.mp ha
    simpa using altChars_ne_at (h.rule_ok (List.mem_filter.mp hr').1).2

/-- the grammar clause of the print / parse round trip -/
theorem parse_print (G : CFG) (h : Printable G) :
    ∃ text G' eps, printSimpleCfg G = .ok text ∧ parseSimpleCfg text.toList = .ok (G', eps) ∧
      (∀ A, A ∈ G'.V ↔ A ∈ G.V) ∧ (∀ a, a ∈ G'.Sigma ↔ a ∈ G.Sigma) ∧ G'.S = G.S ∧
      (∀ A rhs, (∃ r, r ∈ G'.R ∧ r.lhs = A ∧ r.rhs = rhs) ↔ (∃ r, r ∈ G.R ∧ r.lhs = A ∧ r.rhs = rhs)) ∧
      (eps = "ε" ∨ eps = "_") := by
  obtain ⟨r0, rs0, hR, hS⟩ := h.startFirst
  obtain ⟨rest0, hg⟩ := grouped_head hR
  have hprint : printSimpleCfg G = .ok ("\n".intercalate ((orderedVariables G).map fun X =>
      X ++ " -> " ++ " | ".intercalate ((G.R.filter (·.lhs = X)).map fun r =>
        if r.rhs.isEmpty then "ε" else String.join (r.rhs.map Sym.name)))) := by
    simp [printSimpleCfg, h.simple]
  have hlines := h.print_lines
  have hne : (orderedVariables G) ≠ [] := by
    intro e
    have : r0.lhs ∈ orderedVariables G := mem_orderedVariables.mpr ⟨r0, by rw [hR]; simp, rfl⟩
    rw [e] at this; cases this
  have hsplit := splitOn_intercalate_newline (lines := (orderedVariables G).map fun X =>
      X ++ " -> " ++ " | ".intercalate ((G.R.filter (·.lhs = X)).map fun r =>
        if r.rhs.isEmpty then "ε" else String.join (r.rhs.map Sym.name))) (by simpa using hne) (by
    intro l hl
    have : l.toList ∈ (linePairs G).map ruleLine := by rw [← hlines]; exact List.mem_map_of_mem hl
    obtain ⟨p, hp, e⟩ := List.mem_map.mp this
    rw [← e]
    obtain ⟨p1, _, p3⟩ := h.linePairs_ok p hp
    exact newline_not_mem_ruleLine p1 p3)
  rw [hlines] at hsplit
  have hfold := foldlM_scanLine_rules {} (linePairs G) h.linePairs_ok
  rw [← hsplit] at hfold
  -- the ε character
  let rs := (linePairs G).map fun p => ([p.1], p.2)
  let eps : Char := if rs.any (fun r => r.1.contains 'ε' || r.2.any (·.contains 'ε')) then 'ε' else '_'
  have heps1 : eps = 'ε' ∨ eps = '_' := by
    show (if _ then _ else _) = _ ∨ (if _ then _ else _) = _
    split <;> simp
  have heps2 : ∀ r, r ∈ G.R → r.rhs = [] → eps = 'ε' := by
    intro r hr he
    have : rs.any (fun r => r.1.contains 'ε' || r.2.any (·.contains 'ε')) = true := by
      rw [List.any_eq_true]
      refine ⟨([r.lhs.toList.headD ' '], (G.R.filter fun r' => decide (r'.lhs = r.lhs)).map fun r => altChars r.rhs), ?_, ?_⟩
      · exact List.mem_map.mpr ⟨_, List.mem_map.mpr ⟨r.lhs, mem_orderedVariables.mpr ⟨r, hr, rfl⟩, rfl⟩, rfl⟩
      · simp only [Bool.or_eq_true, List.any_eq_true]
        refine Or.inr ⟨altChars r.rhs, List.mem_map.mpr ⟨r, List.mem_filter.mpr ⟨hr, by simp⟩, rfl⟩, ?_⟩
        rw [he]; rfl
    show (if _ then _ else _) = _
    rw [if_pos this]
  have hrules := h.rules_eq heps1 heps2
  rw [hg, rulePairs, List.map_cons, hS] at hrules
  have hperm : ∀ p, p ∈ (G.S, r0.rhs) :: List.map (fun r => (r.lhs, r.rhs)) rest0 ↔ p ∈ rulePairs G.R := by
    intro p
    have := ((grouped_perm G).map fun r => (r.lhs, r.rhs)).mem_iff (a := p)
    rw [hg, List.map_cons, hS] at this
    exact this
  obtain ⟨sV, sS, sR, sv⟩ := mkCfg_spec G.S hperm h.valid h.hasRules h.sigmaUsed
  have hparse := parseSimpleCfg_ok (eps := eps) hfold rfl hrules sv
  refine ⟨_, _, _, hprint, hparse, sV, sS, rfl, sR, ?_⟩
  rcases heps1 with e | e <;> rw [e]
  · exact Or.inl rfl
  · exact Or.inr rfl

end CfgText
end Gamba
