/-
  Gamba.Proofs.C04n — helper lemmas for the minimisers WITH `print_state_set` names
  (`M.named = M.mapStates printStateSet`, what `dfa_minimize` / `dfa_quotient` / `dfa_hopfcroft` really return):
  distinguishability transfers through a renaming that is injective on the states; for a DFA with CLEAN state
  names the naming is injective on the blocks of a Nerode partition, so every clause of the structured
  specifications transfers to the named automaton; and the concrete witness of the recorded defect
  `minimize-class-name-collision` (a state called `"a,b"` next to the class `{a, b}`).
-/
import Gamba.Model.DFA
import Gamba.Model.Minimize
import Gamba.Spec.Automata
import Gamba.Proofs.DFABasic
import Gamba.Proofs.MinBasic
import Gamba.Proofs.C14a
import Gamba.Proofs.C13a
import Gamba.Proofs.C13e
import Gamba.Proofs.C03n
import Gamba.Proofs.C04b
namespace Gamba
set_option linter.unusedSectionVars false

/-- the automaton a minimiser returns, with `print_state_set` names -/
def DFA.named (M : DFA (List String) String) : DFA String String := M.mapStates printStateSet

/-! ### distinguishability through an injective renaming -/
section
variable {σ σ' τ : Type} [DecidableEq σ] [DecidableEq σ'] [DecidableEq τ]

/-- membership in the renamed `F`, for a renaming injective on the states -/
theorem DFA.mapStates_mem_F (f : σ → σ') (D : DFA σ τ) (h : D.valid = true)
    (hf : ∀ p q, p ∈ D.Q → q ∈ D.Q → f p = f q → p = q) {x : σ} (hx : x ∈ D.Q) :
    f x ∈ (D.mapStates f).F ↔ x ∈ D.F := by
  have hF : (D.mapStates f).F = D.F.map f := rfl
  rw [hF]
  constructor
  · intro hm
    obtain ⟨y, hy, hfy⟩ := List.mem_map.mp hm
    rw [← hf y x (DFA.valid_F h hy) hx hfy]
    exact hy
  · exact fun hm => List.mem_map_of_mem hm

/-- `Dist` transfers through a renaming that is injective on the states (both directions) -/
theorem DFA.mapStates_dist_iff (f : σ → σ') (D : DFA σ τ) (h : D.valid = true)
    (hf : ∀ p q, p ∈ D.Q → q ∈ D.Q → f p = f q → p = q) {p q : σ} (hp : p ∈ D.Q) (hq : q ∈ D.Q) :
    (D.mapStates f).Dist (f p) (f q) ↔ D.Dist p q := by
  have hv' := DFA.mapStates_valid' f D h hf
  have hpQ : f p ∈ (D.mapStates f).Q := List.mem_map_of_mem hp
  have hqQ : f q ∈ (D.mapStates f).Q := List.mem_map_of_mem hq
  rw [DFA.dist_iff_runT _ hv' _ _ hpQ hqQ, DFA.dist_iff_runT D h p q hp hq]
  have key : ∀ w, (∀ a, a ∈ w → a ∈ D.Sigma) →
      (((D.mapStates f).runT (f p) w ∈ (D.mapStates f).F ↔ (D.mapStates f).runT (f q) w ∈ (D.mapStates f).F) ↔
        (D.runT p w ∈ D.F ↔ D.runT q w ∈ D.F)) := by
    intro w hw
    rw [DFA.mapStates_runT f D h hf hp w hw, DFA.mapStates_runT f D h hf hq w hw,
      DFA.mapStates_mem_F f D h hf (DFA.runT_mem h hp hw), DFA.mapStates_mem_F f D h hf (DFA.runT_mem h hq hw)]
  constructor
  · rintro ⟨w, hw, hn⟩
    exact ⟨w, hw, fun hc => hn ((key w hw).mpr hc)⟩
  · rintro ⟨w, hw, hn⟩
    exact ⟨w, hw, fun hc => hn ((key w hw).mp hc)⟩

/-- pairwise distinguishability of the states transfers through an injective renaming -/
theorem DFA.mapStates_pairwise_dist (f : σ → σ') (D : DFA σ τ) (h : D.valid = true)
    (hf : ∀ p q, p ∈ D.Q → q ∈ D.Q → f p = f q → p = q)
    (hd : ∀ B C, B ∈ D.Q → C ∈ D.Q → B ≠ C → D.Dist B C) :
    ∀ p q, p ∈ (D.mapStates f).Q → q ∈ (D.mapStates f).Q → p ≠ q → (D.mapStates f).Dist p q := by
  intro p q hp hq hne
  obtain ⟨B, hB, rfl⟩ := List.mem_map.mp hp
  obtain ⟨C, hC, rfl⟩ := List.mem_map.mp hq
  exact (DFA.mapStates_dist_iff f D h hf hB hC).mpr (hd B C hB hC (fun e => hne (e ▸ rfl)))

end

/-! ### the named automaton of a Nerode quotient, for clean state names -/

/-- every clause of the structured specification transfers to the named automaton, and no two classes
    are merged by the naming -/
theorem DFA.named_of_nerode (D : DFA String String) (hn : ∀ q, q ∈ D.Q → CleanName q)
    (M : DFA (List String) String) (hMv : M.valid = true) (hS : M.Sigma = D.Sigma) (hN : D.IsNerode M.Q)
    (hL : ∀ w, (∀ a, a ∈ w → a ∈ D.Sigma) → (M.Accepts w ↔ D.Accepts w))
    (hD : ∀ B C, B ∈ M.Q → C ∈ M.Q → B ≠ C → M.Dist B C) :
    M.named.valid = true ∧ M.named.Sigma = D.Sigma ∧
      (∀ w, (∀ a, a ∈ w → a ∈ D.Sigma) → (M.named.Accepts w ↔ D.Accepts w)) ∧
      (∀ p q, p ∈ M.named.Q → q ∈ M.named.Q → p ≠ q → M.named.Dist p q) ∧
      (dedup M.named.Q).length = (dedup M.Q).length := by
  have hinj : ∀ B C, B ∈ M.Q → C ∈ M.Q → printStateSet B = printStateSet C → B = C :=
    C13e.nerode_names_inj hN hn
  refine ⟨DFA.mapStates_valid' _ M hMv hinj, hS, ?_, DFA.mapStates_pairwise_dist _ M hMv hinj hD, ?_⟩
  · intro w hw
    unfold DFA.named
    rw [DFA.mapStates_accepts_iff _ M hMv hinj w (hS ▸ hw)]
    exact hL w hw
  · exact C13a.dedup_map_length printStateSet M.Q hinj

/-! ### the recorded defect `minimize-class-name-collision` -/
namespace C04n

/-- witness found on the real library: `a ≡ b`, and a third state is called `"a,b"` -/
def badD : DFA String String :=
  { Q := ["a", "b", "a,b", "c"], Sigma := ["a", "b", "c"],
    delta := [(("c", "a"), "c"), (("c", "b"), "a,b"), (("c", "c"), "c"),
              (("a,b", "a"), "a"), (("a,b", "b"), "a,b"), (("a,b", "c"), "a"),
              (("a", "a"), "a"), (("a", "b"), "b"), (("a", "c"), "b"),
              (("b", "a"), "a"), (("b", "b"), "b"), (("b", "c"), "b")],
    q0 := "c", F := ["a,b"] }

/-- its structured quotient: the classes `{"a,b"}`, `{a, b}`, `{c}` -/
def badM : DFA (List String) String :=
  { Q := [["a,b"], ["a", "b"], ["c"]], Sigma := ["a", "b", "c"],
    delta := [((["a,b"], "a"), ["a", "b"]), ((["a,b"], "b"), ["a,b"]), ((["a,b"], "c"), ["a", "b"]),
              ((["a", "b"], "a"), ["a", "b"]), ((["a", "b"], "b"), ["a", "b"]), ((["a", "b"], "c"), ["a", "b"]),
              ((["c"], "a"), ["c"]), ((["c"], "b"), ["a,b"]), ((["c"], "c"), ["c"])],
    q0 := ["c"], F := [["a,b"]] }

/-- what the library returns: the first two classes are both called `"{a,b}"` -/
def badNamed : DFA String String :=
  { Q := ["{a,b}", "{a,b}", "{c}"], Sigma := ["a", "b", "c"],
    delta := [(("{a,b}", "a"), "{a,b}"), (("{a,b}", "b"), "{a,b}"), (("{a,b}", "c"), "{a,b}"),
              (("{a,b}", "a"), "{a,b}"), (("{a,b}", "b"), "{a,b}"), (("{a,b}", "c"), "{a,b}"),
              (("{c}", "a"), "{c}"), (("{c}", "b"), "{a,b}"), (("{c}", "c"), "{c}")],
    q0 := "{c}", F := ["{a,b}"] }

theorem badD_valid : badD.valid = true := by decide
theorem badD_nodup : badD.Q.Nodup := by decide

theorem badD_quotient : badD.quotient = .ok badM := by rfl

theorem name_ab : printStateSet ["a", "b"] = "{a,b}" := by
  simp [printStateSet, sortStrings, dedup, List.mergeSort]
theorem name_comma : printStateSet ["a,b"] = "{a,b}" := by simp [printStateSet, sortStrings, dedup]
theorem name_c : printStateSet ["c"] = "{c}" := by simp [printStateSet, sortStrings, dedup]

theorem badM_named : badM.named = badNamed := by
  simp [DFA.named, DFA.mapStates, badM, badNamed, name_ab, name_comma, name_c]

theorem badNamed_valid : badNamed.valid = true := by decide

theorem badNamed_acceptsT_ba : badNamed.acceptsT ["b", "a"] = true := by decide
theorem badD_acceptsT_ba : badD.acceptsT ["b", "a"] = false := by decide

end C04n
end Gamba
