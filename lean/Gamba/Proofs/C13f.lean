/-
  Gamba.Proofs.C13f — helpers for lifting C13 ("the library's own answer key passes the library's own checker")
  to the TEXT level (`Gamba.Model.CheckText`): facts about grammars / automata that come out of the parsers,
  congruence of the object-level checks under "same members / same lookups", and the print / parse round trip of
  automata whose state names are not words (`{q0,q1}`, `(p,q)`).
-/
import Gamba.Model.CheckText
import Gamba.Model.Keys
import Gamba.Props.C12a
import Gamba.Props.C13a
import Gamba.Props.C13b
import Gamba.Props.C13c
import Gamba.Props.C13d
import Gamba.Props.C13e
import Gamba.Props.C16a
import Gamba.Props.C16b
import Gamba.Props.C16d
import Gamba.Props.C16e
namespace Gamba
namespace C13f
open Text Parse

/-! ### grammars produced by `parseSimpleCfg` -/

/-- the rule pairs built from the scanned lines -/
def cfgRules (rs : List (List Char × List (List Char))) (eps : Char) : List (String × List Sym) :=
  rs.flatMap fun r =>
    (r.2.filter (· ≠ ['@'])).map fun alt => (str r.1, if alt = [eps] then [] else alt.map CfgText.parseSym)

/-- the ε symbol chosen by `parse_simple_cfg` -/
def cfgEps (acc : CfgText.Lines) : Char :=
  match acc.eps with
  | some c => c
  | none => if acc.rules.any (fun r => r.1.contains 'ε' || r.2.any (·.contains 'ε')) then 'ε' else '_'

/-- the grammar assembled from the rule pairs -/
def cfgBuild (rules : List (String × List Sym)) (s0 : String) : CFG :=
  { V := dedup (rules.map (·.1)),
    Sigma := dedup (rules.flatMap fun r => r.2.filterMap fun x => match x with | .t a => some a | .v _ => none),
    R := rules.zipIdx.map fun (r, i) => ({ lhs := r.1, aid := i, rhs := r.2 } : CRule),
    S := s0 }

theorem parseSimpleCfg_eq (text : List Char) :
    CfgText.parseSimpleCfg text =
      ((splitOn '\n' text).foldlM CfgText.scanLine {}).bind fun acc =>
        match cfgRules acc.rules (cfgEps acc) with
        | [] => .error .runtimeError
        | (s0, _) :: _ =>
          if (cfgBuild (cfgRules acc.rules (cfgEps acc)) s0).valid then
            .ok (cfgBuild (cfgRules acc.rules (cfgEps acc)) s0, String.singleton (cfgEps acc))
          else .error .runtimeError := by
  rfl

theorem parseSimpleCfg_unpack {text : List Char} {G : CFG} {e : String}
    (h : CfgText.parseSimpleCfg text = .ok (G, e)) :
    ∃ acc s0 r0 rest, (splitOn '\n' text).foldlM CfgText.scanLine {} = .ok acc ∧
      cfgRules acc.rules (cfgEps acc) = (s0, r0) :: rest ∧
      G = cfgBuild (cfgRules acc.rules (cfgEps acc)) s0 ∧ G.valid = true := by
  rw [parseSimpleCfg_eq] at h
  cases hacc : (splitOn '\n' text).foldlM CfgText.scanLine {} with
  | error err => rw [hacc] at h; cases h
  | ok acc =>
    rw [hacc] at h
    simp only [Except.bind] at h
    split at h
    · cases h
    · rename_i s0 r0 rest hrules
      split at h
      · rename_i hv
        simp only [Except.ok.injEq, Prod.mk.injEq] at h
        obtain ⟨rfl, _⟩ := h
        exact ⟨acc, s0, r0, rest, rfl, hrules, rfl, hv⟩
      · cases h

/-- what `parseRuleLine` guarantees about a scanned production line -/
def RuleOk (r : List Char × List (List Char)) : Prop := r.1 ≠ [] ∧ ∀ c, c ∈ r.1 → isWordChar c = true

theorem parseRuleLine_ok {line : List Char} {r : List Char × List (List Char)}
    (h : CfgText.parseRuleLine line = some r) : RuleOk r := by
  unfold CfgText.parseRuleLine at h
  split at h
  · cases h
  · simp only at h
    split at h
    · rename_i hc
      cases h
      simp only [Bool.and_eq_true, Bool.not_eq_eq_eq_not, Bool.not_true, List.isEmpty_eq_false_iff, ne_eq,
        List.all_eq_true] at hc
      exact ⟨hc.1.1, hc.1.2⟩
    · cases h

theorem scanLine_rules {acc acc' : CfgText.Lines} {raw : List Char} (h : CfgText.scanLine acc raw = .ok acc')
    (hacc : ∀ r, r ∈ acc.rules → RuleOk r) : ∀ r, r ∈ acc'.rules → RuleOk r := by
  unfold CfgText.scanLine at h
  simp only at h
  split at h
  · cases h; exact hacc
  · split at h
    · split at h
      · cases h; exact hacc
      · cases h
    · split at h
      · rename_i r0 hr0
        cases h
        intro r hr
        rcases List.mem_append.mp hr with hr | hr
        · exact hacc r hr
        · simp only [List.mem_singleton] at hr; subst hr; exact parseRuleLine_ok hr0
      · cases h

theorem foldlM_scanLine_rules {lines : List (List Char)} {acc acc' : CfgText.Lines}
    (h : lines.foldlM CfgText.scanLine acc = .ok acc')
    (hacc : ∀ r, r ∈ acc.rules → RuleOk r) : ∀ r, r ∈ acc'.rules → RuleOk r := by
  induction lines generalizing acc with
  | nil => simp only [List.foldlM_nil, pure, Except.pure, Except.ok.injEq] at h; subst h; exact hacc
  | cons l ls ih =>
    rw [List.foldlM_cons] at h
    cases h1 : CfgText.scanLine acc l with
    | error e => rw [h1] at h; cases h
    | ok acc1 =>
      rw [h1] at h
      exact ih h (scanLine_rules h1 hacc)

theorem mem_cfgRules {rs : List (List Char × List (List Char))} {eps : Char} {p : String × List Sym}
    (h : p ∈ cfgRules rs eps) :
    ∃ r alt, r ∈ rs ∧ alt ∈ r.2 ∧ p.1 = str r.1 ∧ (p.2 = [] ∨ p.2 = alt.map CfgText.parseSym) := by
  simp only [cfgRules, List.mem_flatMap, List.mem_map, List.mem_filter] at h
  obtain ⟨r, hr, alt, ⟨halt, _⟩, rfl⟩ := h
  refine ⟨r, alt, hr, halt, rfl, ?_⟩
  simp only
  split
  · exact Or.inl rfl
  · exact Or.inr rfl

/-- the facts about a parsed grammar used by the CYK / derivation checkers -/
theorem parseSimpleCfg_facts {text : List Char} {G : CFG} {e : String}
    (h : CfgText.parseSimpleCfg text = .ok (G, e)) :
    G.valid = true ∧ G.S ∈ G.V ∧
    (∀ A, A ∈ G.V → A.toList ≠ [] ∧ ∀ c, c ∈ A.toList → isWordChar c = true) ∧
    (∀ a, a ∈ G.Sigma → ∃ c, a = String.singleton c ∧ (c.isLower = true ∨ c = 'ε')) := by
  obtain ⟨acc, s0, r0, rest, hacc, hrules, rfl, hv⟩ := parseSimpleCfg_unpack h
  have hok := foldlM_scanLine_rules hacc (by intro r hr; cases hr)
  refine ⟨hv, ?_, ?_, ?_⟩
  · show s0 ∈ dedup ((cfgRules acc.rules (cfgEps acc)).map (·.1))
    rw [hrules]; simp
  · intro A hA
    have hA' : A ∈ dedup ((cfgRules acc.rules (cfgEps acc)).map (·.1)) := hA
    rw [mem_dedup, List.mem_map] at hA'
    obtain ⟨p, hp, rfl⟩ := hA'
    obtain ⟨r, alt, hr, _, he, _⟩ := mem_cfgRules hp
    rw [he, toList_str]
    exact hok r hr
  · intro a ha
    have ha' : a ∈ dedup ((cfgRules acc.rules (cfgEps acc)).flatMap fun r => r.2.filterMap fun x =>
      match x with | .t a => some a | .v _ => none) := ha
    rw [mem_dedup, List.mem_flatMap] at ha'
    obtain ⟨p, hp, hm⟩ := ha'
    rw [List.mem_filterMap] at hm
    obtain ⟨x, hx, hxa⟩ := hm
    obtain ⟨r, alt, hr, _, _, he⟩ := mem_cfgRules hp
    rcases he with he | he
    · rw [he] at hx; cases hx
    · rw [he, List.mem_map] at hx
      obtain ⟨c, _, rfl⟩ := hx
      by_cases hc : (c.isLower || c == 'ε') = true
      · simp only [CfgText.parseSym, hc, if_true, Option.some.injEq] at hxa
        exact ⟨c, hxa.symm, by simpa using hc⟩
      · simp [CfgText.parseSym, hc] at hxa

theorem singleton_of_length_one {A : String} (h : A.length = 1) : ∃ c, A = String.singleton c ∧ A.toList = [c] := by
  have hl : A.toList.length = 1 := by rw [String.length_toList]; exact h
  match hA : A.toList, hl with
  | [c], _ => exact ⟨c, (CfgText.singleton_eq_of_toList hA).symm, rfl⟩

theorem simpleVars_of_length {G : CFG}
    (hVars : ∀ A, A ∈ G.V → A.toList ≠ [] ∧ ∀ c, c ∈ A.toList → isWordChar c = true)
    (hV : ∀ A, A ∈ G.V → A.length = 1) : G.SimpleVars := by
  intro A hA
  obtain ⟨c, rfl, hl⟩ := singleton_of_length_one (hV A hA)
  exact ⟨c, rfl, (hVars _ hA).2 c (by rw [hl]; simp)⟩

theorem termChar_ok {c : Char} (h : c.isLower = true ∨ c = 'ε') :
    c.isUpper = false ∧ isSpace c = false ∧ c ≠ '=' ∧ c ≠ '>' := by
  rcases h with h | rfl
  · refine ⟨?_, not_isSpace_of_isWordChar (CfgText.isWordChar_of_isLower h), ?_, ?_⟩
    · cases hu : c.isUpper with
      | false => rfl
      | true => rw [CfgText.isLower_of_isUpper hu] at h; cases h
    · rintro rfl; revert h; decide
    · rintro rfl; revert h; decide
  · decide

theorem simpleNames_of_parse {text : List Char} {G : CFG} {e : String}
    (h : CfgText.parseSimpleCfg text = .ok (G, e))
    (hV : ∀ A, A ∈ G.V → ∃ c, A = String.singleton c ∧ c.isUpper = true) : G.SimpleNames where
  vars := hV
  terms := by
    intro a ha
    obtain ⟨c, rfl, hc⟩ := (parseSimpleCfg_facts h).2.2.2 a ha
    exact ⟨c, rfl, termChar_ok hc⟩

/-! ### automata produced by `parseDfa` / `parseNfa` (any state-label predicate) -/

theorem parseWords_states_nodup {k : Kind} {ok : Word → Bool} {st st' : Raw} {ws : List Word}
    (h : parseWords k ok st ws = .ok st') (hs : st.states.Nodup) : st'.states.Nodup := by
  unfold parseWords at h
  split at h
  · cases h; exact hs
  · simp only at h
    repeat' split at h
    all_goals first | cases h | skip
    all_goals first | exact hs | skip
    rename_i hd _ _ _
    exact hasDup_eq_false_iff.mp (by simpa using hd)

theorem parseRaw_states_nodup {k : Kind} {ok : Word → Bool} {text : Word} {A : Raw}
    (h : parseRaw k ok text = .ok A) : A.states.Nodup := by
  rw [parseRaw_eq] at h
  have key : ∀ (wls : List (List Word)) (st st' : Raw), parseWordLines k ok st wls = .ok st' →
      st.states.Nodup → st'.states.Nodup := by
    intro wls
    induction wls with
    | nil => intro st st' h hs; simp only [parseWordLines_nil, Except.ok.injEq] at h; subst h; exact hs
    | cons w ws ih =>
      intro st st' h hs
      rw [parseWordLines_cons] at h
      cases h1 : parseWords k ok st w with
      | error e => rw [h1] at h; cases h
      | ok st1 =>
        rw [h1] at h
        exact ih st1 st' h (parseWords_states_nodup h1 hs)
  exact key _ _ _ h (by simp)

/-- `parseDfa` with an arbitrary state-label predicate, unpacked -/
theorem parseDfa_unpack {text : List Char} {ok : Word → Bool} {D : DFA String String}
    (h : Parse.parseDfa text ok = .ok D) :
    ∃ A0 A Sigma, parseRaw .dfa ok text = .ok A0 ∧ commonChecks A0 [] ok = .ok A ∧
      parseDfa.hasDupPairs (A.transitions.map fun t => (t.1, str t.2.1)) = false ∧
      getSymbolSet A "input_symbols" (dedup (A.transitions.map fun t => str t.2.1)) = .ok Sigma ∧
      wordsOk Sigma = true ∧
      (A.states.all fun p => Sigma.all fun a => decide ((p, a) ∈ A.transitions.map fun t => (t.1, str t.2.1))) = true ∧
      DFA.checked { Q := A.states, Sigma := Sigma, delta := A.transitions.map fun t => ((t.1, str t.2.1), t.2.2),
                    q0 := initialOf A, F := A.final } = .ok D := by
  unfold parseDfa at h
  simp only [bind, Except.bind] at h
  repeat' split at h
  all_goals first | cases h | skip
  rename_i A0 h0 _ A h1 h2 _ Sigma h3 h4 h5
  exact ⟨A0, A, Sigma, h0, h1, by simpa using h2, h3, by simpa using h4, by simpa using h5, h⟩

theorem parseDfa_eq_of {text : List Char} {ok : Word → Bool} {A0 A : Raw} {Sigma : List String}
    (h0 : parseRaw .dfa ok text = .ok A0) (h1 : commonChecks A0 [] ok = .ok A)
    (h2 : parseDfa.hasDupPairs (A.transitions.map fun t => (t.1, str t.2.1)) = false)
    (h3 : getSymbolSet A "input_symbols" (dedup (A.transitions.map fun t => str t.2.1)) = .ok Sigma)
    (h4 : wordsOk Sigma = true)
    (h5 : (A.states.all fun p => Sigma.all fun a => decide ((p, a) ∈ A.transitions.map fun t => (t.1, str t.2.1))) = true) :
    Parse.parseDfa text ok =
      DFA.checked { Q := A.states, Sigma := Sigma, delta := (A.transitions.map fun t => ((t.1, str t.2.1), t.2.2)),
                    q0 := initialOf A, F := A.final } := by
  unfold parseDfa
  simp only [bind, Except.bind, h0, h1, h2, h3, h4, h5]
  simp

/-- what every DFA that comes out of `parse_dfa` satisfies -/
structure ParsedDfa (ok : Word → Bool) (D : DFA String String) : Prop where
  valid : D.valid = true
  keys : (D.delta.map (·.1)).Nodup
  nodupQ : D.Q.Nodup
  nodupS : D.Sigma.Nodup
  names : ∀ q, q ∈ D.Q → ok q.toList = true
  syms : ∀ a, a ∈ D.Sigma → isWord a.toList = true

theorem parsedDfa_of {text : List Char} {ok : Word → Bool} {D : DFA String String}
    (h : Parse.parseDfa text ok = .ok D) : ParsedDfa ok D := by
  obtain ⟨A0, A, Sigma, h0, h1, h2, h3, h4, h5, hc⟩ := parseDfa_unpack h
  obtain ⟨rfl, hv⟩ := DFA.checked_ok hc
  obtain ⟨hA, _, hnames, _⟩ := commonChecks_ok h1
  refine ⟨hv, ?_, ?_, ?_, hnames, ?_⟩
  · show ((A.transitions.map fun t => ((t.1, str t.2.1), t.2.2)).map (·.1)).Nodup
    rw [List.map_map]
    exact hasDupPairs_eq_false_iff.mp h2
  · show A.states.Nodup
    rw [hA]
    simp only
    split
    · exact nodup_dedup _
    · exact parseRaw_states_nodup h0
  · show Sigma.Nodup
    unfold getSymbolSet at h3
    split at h3
    · split at h3
      · cases h3
      · cases h3; exact nodup_dedup _
    · cases h3; exact nodup_dedup _
  · intro a ha
    simp only [wordsOk, List.all_eq_true] at h4
    exact h4 a ha


/-! ### "the same automaton up to the order of its sets" -/

/-- `A'` is `A` re-read from its printed text: same members, same initial state, δ rearranged -/
structure DfaSim (A' A : DFA String String) : Prop where
  valid' : A'.valid = true
  Q : ∀ q, q ∈ A'.Q ↔ q ∈ A.Q
  Sigma : ∀ a, a ∈ A'.Sigma ↔ a ∈ A.Sigma
  q0 : A'.q0 = A.q0
  F : ∀ q, q ∈ A'.F ↔ q ∈ A.F
  delta : A'.delta.Perm A.delta

theorem DfaSim.lookup {A' A : DFA String String} (h : DfaSim A' A) (hk : (A.delta.map (·.1)).Nodup) (k : String × String) :
    A'.delta.lookup k = A.delta.lookup k :=
  lookup_eq_of_perm h.delta ((h.delta.map (·.1)).nodup_iff.mpr hk) k

theorem DfaSim.keys {A' A : DFA String String} (h : DfaSim A' A) (hk : (A.delta.map (·.1)).Nodup) :
    (A'.delta.map (·.1)).Nodup := (h.delta.map (·.1)).nodup_iff.mpr hk

theorem DfaSim.words {A' A : DFA String String} (h : DfaSim A' A) (hv : A.valid = true)
    (hk : (A.delta.map (·.1)).Nodup) (n : Nat) (w : List String) : w ∈ A'.wordsUpTo n ↔ w ∈ A.wordsUpTo n := by
  rw [dfa_words_exact A' h.valid' n w, dfa_words_exact A hv n w,
    C12a.Accepts_of_lookup_eq (h.lookup hk) h.q0 h.F w]
  constructor
  · rintro ⟨h1, h2, h3⟩; exact ⟨h1, fun a ha => (h.Sigma a).mp (h2 a ha), h3⟩
  · rintro ⟨h1, h2, h3⟩; exact ⟨h1, fun a ha => (h.Sigma a).mpr (h2 a ha), h3⟩

/-- the default-predicate round trip of C16a as a `DfaSim` -/
theorem dfaSim_of_print (D : DFA String String) (hv : D.valid = true) (hk : (D.delta.map (·.1)).Nodup)
    (hQ : ∀ q, q ∈ D.Q → Parse.DfaNameOk q) (hS : ∀ a, a ∈ D.Sigma → Parse.isWord a.toList = true) :
    ∃ D', Parse.parseDfa (Parse.printDfa D).toList = .ok D' ∧ DfaSim D' D := by
  obtain ⟨D', hp, hv', hQ', hS', hq', hF', hd'⟩ := Parse.parse_print_dfa_explicit D hv hk hQ hS
  refine ⟨D', hp, hv', ?_, ?_, hq', ?_, hd'⟩
  · intro q; rw [hQ']; exact mem_sortStrings_dedup
  · intro a; rw [hS', mem_dedup]; exact mem_sortStrings_dedup
  · intro q; rw [hF']; exact mem_sortStrings_dedup

/-! ### congruence of the checks -/

theorem seq_congr {α : Type} [DecidableEq α] {a a' b b' : List α} (ha : ∀ x, x ∈ a' ↔ x ∈ a) (hb : ∀ x, x ∈ b' ↔ x ∈ b) :
    seq a' b' = seq a b := by
  rw [Bool.eq_iff_iff, seq_iff, seq_iff]
  constructor
  · intro h x; rw [← ha, ← hb]; exact h x
  · intro h x; rw [ha, hb]; exact h x

theorem all_congr_mem {α : Type} {l l' : List α} (h : ∀ x, x ∈ l' ↔ x ∈ l) (p : α → Bool) : l'.all p = l.all p := by
  rw [Bool.eq_iff_iff, List.all_eq_true, List.all_eq_true]
  constructor
  · intro h1 x hx; exact h1 x ((h x).mpr hx)
  · intro h1 x hx; exact h1 x ((h x).mp hx)

theorem any_congr_mem {α : Type} {l l' : List α} (h : ∀ x, x ∈ l' ↔ x ∈ l) (p : α → Bool) : l'.any p = l.any p := by
  rw [Bool.eq_iff_iff, List.any_eq_true, List.any_eq_true]
  constructor
  · rintro ⟨x, hx, hp⟩; exact ⟨x, (h x).mp hx, hp⟩
  · rintro ⟨x, hx, hp⟩; exact ⟨x, (h x).mpr hx, hp⟩

theorem compare_congr {τ : Type} [DecidableEq τ] {A1 A1' A2 A2' : List (List τ)} (h1 : ∀ w, w ∈ A1' ↔ w ∈ A1)
    (h2 : ∀ w, w ∈ A2' ↔ w ∈ A2) : (compareLanguages A1' A2').isNone = (compareLanguages A1 A2).isNone := by
  rw [Bool.eq_iff_iff, C12a.compare_isNone_iff, C12a.compare_isNone_iff]
  constructor
  · intro h w; rw [← h1, ← h2]; exact h w
  · intro h w; rw [h1, h2]; exact h w

theorem deltaEq_of_perm {d d' : Dict (String × String) String} (hp : d'.Perm d) (hk : (d.map (·.1)).Nodup) :
    Check.deltaEq d d' = true := by
  have hk' : (d'.map (·.1)).Nodup := (hp.map (·.1)).nodup_iff.mpr hk
  unfold Check.deltaEq
  simp only [Bool.and_eq_true, List.all_eq_true, beq_iff_eq]
  refine ⟨fun e he => ?_, fun e he => ?_⟩
  · exact (C16b.lookup_eq_some_iff_mem hk' e.1 e.2).mpr (hp.mem_iff.mpr he)
  · exact (C16b.lookup_eq_some_iff_mem hk e.1 e.2).mpr (hp.mem_iff.mp he)

theorem complementCheck_sim {D1 A A' : DFA String String} (h : DfaSim A' A) (hk : (A.delta.map (·.1)).Nodup)
    (hA : A = D1.complement) : Check.complementCheck D1 A' = true := by
  subst hA
  unfold Check.complementCheck
  simp only [Bool.and_eq_true, decide_eq_true_eq]
  refine ⟨⟨⟨⟨?_, ?_⟩, ?_⟩, ?_⟩, ?_⟩
  · rw [seq_iff]; intro a; exact (h.Sigma a).symm
  · rw [seq_iff]; intro a; exact (h.Q a).symm
  · exact h.q0.symm
  · exact deltaEq_of_perm h.delta hk
  · rw [seq_iff]; intro a; exact (h.F a).symm

/-! ### NFAs re-read from their printed text -/

structure NfaSim (N' N : NFA String String) : Prop where
  valid' : N'.valid = true
  Q : ∀ q, q ∈ N'.Q ↔ q ∈ N.Q
  Sigma : ∀ a, a ∈ N'.Sigma ↔ a ∈ N.Sigma
  q0 : N'.q0 = N.q0
  F : ∀ q, q ∈ N'.F ↔ q ∈ N.F
  eps : N'.eps = N.eps
  succ : ∀ q a x, x ∈ N'.succ q a ↔ x ∈ N.succ q a

theorem NfaSim.accepts {N' N : NFA String String} (h : NfaSim N' N) (w : List String) : N'.Accepts w ↔ N.Accepts w := by
  have h1 : ∀ q a q', N'.Succ q a q' → N.Succ q a q' := fun q a q' hs =>
    (C13a.succ_iff_Succ N q a q').mp ((h.succ q a q').mp ((C13a.succ_iff_Succ N' q a q').mpr hs))
  have h2 : ∀ q a q', N.Succ q a q' → N'.Succ q a q' := fun q a q' hs =>
    (C13a.succ_iff_Succ N' q a q').mp ((h.succ q a q').mpr ((C13a.succ_iff_Succ N q a q').mpr hs))
  unfold NFA.Accepts
  constructor
  · rintro ⟨f, hf, hr⟩
    exact ⟨f, (h.F f).mp hf, h.q0 ▸ NFA.Run.mono h.eps.symm h1 hr⟩
  · rintro ⟨f, hf, hr⟩
    exact ⟨f, (h.F f).mpr hf, h.q0 ▸ NFA.Run.mono h.eps h2 hr⟩

theorem NfaSim.words {N' N : NFA String String} (h : NfaSim N' N) (hv : N.valid = true) (s : Sched) (n : Nat)
    {L : List (List String)} (hL : N.wordsUpTo s n = .ok L) :
    ∃ L', N'.wordsUpTo s n = .ok L' ∧ ∀ w, w ∈ L' ↔ w ∈ L := by
  obtain ⟨L', hL', hm'⟩ := nfa_words_exact N' h.valid' s n
  obtain ⟨L0, hL0, hm⟩ := nfa_words_exact N hv s n
  rw [hL] at hL0
  cases hL0
  refine ⟨L', hL', fun w => ?_⟩
  rw [hm', hm, h.accepts w]
  constructor
  · rintro ⟨h1, h2, h3⟩; exact ⟨h1, fun a ha => (h.Sigma a).mp (h2 a ha), h3⟩
  · rintro ⟨h1, h2, h3⟩; exact ⟨h1, fun a ha => (h.Sigma a).mpr (h2 a ha), h3⟩

theorem reverseCheck_sim {D : DFA String String} {N N' : NFA String String} (h : NfaSim N' N) (hv : N.valid = true)
    (s : Sched) (len : Nat) (hc : Check.reverseCheck D N s len = .ok true) :
    Check.reverseCheck D N' s len = .ok true := by
  unfold Check.reverseCheck at hc ⊢
  cases hL : N.wordsUpTo s len with
  | error e => rw [hL] at hc; cases hc
  | ok L =>
    obtain ⟨L', hL', hm⟩ := h.words hv s len hL
    rw [hL] at hc
    rw [hL']
    simp only [bind, Except.bind, pure, Except.pure, Except.ok.injEq] at hc ⊢
    rw [← hc]
    congr 1
    · congr 1
      · congr 1
        · congr 1
          · congr 1
            · exact seq_congr (fun _ => Iff.rfl) h.Sigma
            · rw [Bool.eq_iff_iff, ssubset_iff, ssubset_iff]
              constructor
              · intro h1 x hx; exact (h.Q x).mp (h1 x hx)
              · intro h1 x hx; exact (h.Q x).mpr (h1 x hx)
          · have : (fun e : (String × String) × String => decide (e.1.1 ∈ N'.succ e.2 e.1.2)) =
                fun e => decide (e.1.1 ∈ N.succ e.2 e.1.2) := by
              funext e
              rw [Bool.eq_iff_iff, decide_eq_true_eq, decide_eq_true_eq]
              exact h.succ _ _ _
            rw [this]
        · rw [h.q0]
      · exact seq_congr h.F (fun _ => Iff.rfl)
    · exact compare_congr hm (fun _ => Iff.rfl)

/-! ### keys of dictionaries built by `Dict.set` -/

theorem keys_set {κ ν : Type} [DecidableEq κ] (d : Dict κ ν) (k : κ) (v : ν) :
    (d.set k v).map (·.1) = if k ∈ d.map (·.1) then d.map (·.1) else d.map (·.1) ++ [k] := by
  induction d with
  | nil => simp [Dict.set]
  | cons e d ih =>
    obtain ⟨k1, v1⟩ := e
    simp only [Dict.set]
    by_cases h1 : k1 = k
    · subst h1; simp
    · have h1' : ¬ k = k1 := fun e => h1 e.symm
      simp only [h1, if_false, List.map_cons, ih, List.mem_cons, h1', false_or]
      split <;> simp

theorem keys_set_nodup {κ ν : Type} [DecidableEq κ] {d : Dict κ ν} (h : (d.map (·.1)).Nodup) (k : κ) (v : ν) :
    ((d.set k v).map (·.1)).Nodup := by
  rw [keys_set]
  split
  · exact h
  · rename_i hk
    rw [List.nodup_append]
    exact ⟨h, by simp, by intro a ha b hb; simp only [List.mem_singleton] at hb; subst hb; exact fun e => hk (e ▸ ha)⟩

theorem reverse_keys_nodup (D : DFA String String) (fresh eps : String) :
    ((D.reverse fresh eps).delta.map (·.1)).Nodup := by
  rw [DFA.reverse_delta]
  apply keys_set_nodup
  have key : ∀ (l : List ((String × String) × String)) (d : Dict (String × String) (List String)),
      (d.map (·.1)).Nodup → ((l.foldl C14b.addEdge d).map (·.1)).Nodup := by
    intro l
    induction l with
    | nil => intro d hd; exact hd
    | cons e l ih => intro d hd; rw [List.foldl_cons]; exact ih _ (keys_set_nodup hd _ _)
  exact key _ _ (by simp)

/-! ### the fresh state of `dfa_reverse` is a word -/

theorem freshStateAux_eq (Q : List String) (hint : String) (fuel i : Nat) :
    ∃ j : Nat, freshStateAux Q hint fuel i = hint ++ toString j := by
  induction fuel generalizing i with
  | zero => exact ⟨i, rfl⟩
  | succ fuel ih =>
    unfold freshStateAux
    split
    · exact ih (i + 1)
    · exact ⟨i, rfl⟩

theorem isWordChar_of_isDigit {c : Char} (h : c.isDigit = true) : isWordChar c = true := by
  simp [isWordChar, Char.isAlphanum, h]

theorem freshState_q_ok (Q : List String) : Parse.NfaNameOk (freshState Q "q") := by
  obtain ⟨j, hj⟩ := freshStateAux_eq Q "q" (Q.length + 1) 1
  unfold freshState
  rw [hj]
  have hl : ("q" ++ toString j).toList = 'q' :: Nat.toDigits 10 j := by
    rw [String.toList_append]
    show "q".toList ++ (Nat.repr j).toList = _
    rw [Nat.toList_repr]; rfl
  refine ⟨?_, ?_⟩
  · rw [hl, isWord_iff]
    refine ⟨by simp, ?_⟩
    intro c hc
    rcases List.mem_cons.mp hc with rfl | hc
    · decide
    · exact isWordChar_of_isDigit (Nat.isDigit_of_mem_toDigits (by decide) (by decide) hc)
  · intro hm
    have : ∀ kw, kw ∈ ["states", "final", "initial", "input_symbols", "epsilon"] → kw.toList.head? ≠ some 'q' := by decide
    exact this _ hm (by rw [hl]; rfl)

/-- the answer key of the reverse exercise re-parses to the same NFA -/
theorem reverse_roundtrip (D : DFA String String) (hD : ParsedDfa isWord D)
    (hn : ∀ q, q ∈ D.Q → Parse.NfaNameOk q) (he : "ε" ∉ D.Sigma) :
    (D.reverse (freshState D.Q "q") "ε").valid = true ∧
    ∃ N', Parse.parseNfa (Parse.printNfa (D.reverse (freshState D.Q "q") "ε")).toList = .ok N' ∧
      NfaSim N' (D.reverse (freshState D.Q "q") "ε") := by
  have hRv := reverse_valid D (freshState D.Q "q") "ε" hD.valid (freshState_fresh D.Q "q") he
  refine ⟨hRv, ?_⟩
  obtain ⟨N', hp, hQ, hS, hq, hF, hE, hsucc⟩ := parse_print_nfa _ hRv (reverse_keys_nodup D _ _)
    (by
      intro q hq
      have : q ∈ sinsert D.Q (freshState D.Q "q") := hq
      rcases mem_sinsert.mp this with h | rfl
      · exact hn q h
      · exact freshState_q_ok D.Q)
    (fun a ha => hD.syms a ha) (show isWord "ε".toList = true by decide)
  exact ⟨N', hp, parseNfa_ok_valid _ _ hp, hQ, hS, hq, hF, hE, hsucc⟩

/-! ### the print / parse round trip of `printDfa` for an arbitrary state-label predicate -/

/-- what a state name must satisfy to survive the text format of kind `k` read with the label predicate `ok` -/
structure NameOk (k : Kind) (ok : Word → Bool) (q : String) : Prop where
  ok : ok q.toList = true
  tok : Token q.toList
  notKw : q ∉ ["states", "final", "initial"] ++ keywords k
  notComment : q.toList.head? ≠ some '%'

/-- a printable transition `(p, q, label)` -/
structure TransOk' (k : Kind) (ok : Word → Bool) (t : String × String × String) : Prop where
  src : NameOk k ok t.1
  dst : NameOk k ok t.2.1
  lblTok : Token t.2.2.toList
  lblOk : labelOk k t.2.2.toList = true

theorem parseWordLines_transLines_aux' (k : Kind) (ok : Word → Bool) (ts : List (String × String × String))
    (h : ∀ t, t ∈ ts → TransOk' k ok t) (ks : List String) (hks : ∀ key, key ∈ ks → ∃ t, t ∈ ts ∧ pairKey t = key) (st : Raw) :
    parseWordLines k ok st (lineWords ((ks.map fun key =>
        key ++ " " ++ joinSp ((ts.filter fun t => decide (pairKey t = key)).map (·.2.2))).map String.toList)) =
      .ok { st with transitions := st.transitions ++ ks.flatMap fun key =>
        (ts.filter fun t => decide (pairKey t = key)).map fun t => (t.1, t.2.2.toList, t.2.1) } := by
  induction ks generalizing st with
  | nil => simp [lineWords]
  | cons key ks ih =>
    obtain ⟨t0, ht0, hkey⟩ := hks key (by simp)
    subst hkey
    have h0 := h t0 ht0
    have hlab : ∀ l, l ∈ (ts.filter fun t => decide (pairKey t = pairKey t0)).map (·.2.2) → Token l.toList := by
      intro l hl
      obtain ⟨t, ht, rfl⟩ := List.mem_map.mp hl
      exact (h t (List.mem_filter.mp ht).1).lblTok
    have hsplit := splitWs_transLine h0.src.tok h0.dst.tok hlab
    simp only [List.map_cons]
    rw [lineWords_cons_of_ne (by rw [hsplit]; simp), hsplit]
    have hmem0 : t0 ∈ ts.filter fun t => decide (pairKey t = pairKey t0) := by
      simp [List.mem_filter, ht0]
    have hstep := parseWords_trans' k ok st (p := t0.1) (q := t0.2.1)
      (labels := ((ts.filter fun t => decide (pairKey t = pairKey t0)).map (·.2.2)).map String.toList)
      h0.src.notKw h0.src.notComment h0.src.ok h0.dst.ok
      (by
        intro e
        have := List.map_eq_nil_iff.mp (List.map_eq_nil_iff.mp e)
        rw [this] at hmem0; cases hmem0)
      (by
        intro x hx
        simp only [List.map_map, List.mem_map, Function.comp] at hx
        obtain ⟨t, ht, rfl⟩ := hx
        exact (h t (List.mem_filter.mp ht).1).lblOk)
    rw [parseWordLines_cons_ok k ok hstep, ih (fun key hk => hks key (List.mem_cons_of_mem _ hk))]
    simp only [List.flatMap_cons, List.append_assoc, List.map_map]
    congr 4
    apply List.map_congr_left
    intro t ht
    have ht' := List.mem_filter.mp ht
    have hk : pairKey t = pairKey t0 := by simpa using ht'.2
    have ht1 := h t ht'.1
    obtain ⟨e1, e2⟩ := pairKey_inj ht1.src.tok ht1.dst.tok h0.src.tok h0.dst.tok hk
    simp [e1, e2]

theorem parseWordLines_transLines' (k : Kind) (ok : Word → Bool) (ts : List (String × String × String))
    (h : ∀ t, t ∈ ts → TransOk' k ok t) (st : Raw) :
    parseWordLines k ok st (lineWords ((transLines ts).map String.toList)) =
      .ok { st with transitions := st.transitions ++ transOf ts } := by
  rw [transLines_eq]
  apply parseWordLines_transLines_aux' k ok ts h
  intro key hk
  simp only [mem_sortStrings, mem_dedup, List.mem_map] at hk
  exact hk

theorem newline_not_mem_transLines' {k : Kind} {ok : Word → Bool} {ts : List (String × String × String)}
    (h : ∀ t, t ∈ ts → TransOk' k ok t) : ∀ l, l ∈ transLines ts → '\n' ∉ l.toList := by
  intro l hl
  rw [transLines_eq] at hl
  obtain ⟨key, hk, rfl⟩ := List.mem_map.mp hl
  simp only [mem_sortStrings, mem_dedup, List.mem_map] at hk
  obtain ⟨t0, ht0, rfl⟩ := hk
  have h0 := h t0 ht0
  apply newline_not_mem_transLine h0.src.tok h0.dst.tok
  intro l hl
  obtain ⟨t, ht, rfl⟩ := List.mem_map.mp hl
  exact (h t (List.mem_filter.mp ht).1).lblTok

theorem dfaTrans_ok' {k : Kind} (hk : k = .dfa ∨ k = .nfa) {ok : Word → Bool} {D : DFA String String} (hv : D.valid = true)
    (hQ : ∀ q, q ∈ D.Q → NameOk k ok q)
    (hS : ∀ a, a ∈ D.Sigma → Parse.isWord a.toList = true) : ∀ t, t ∈ dfaTrans D → TransOk' k ok t := by
  intro t ht
  obtain ⟨⟨⟨p, a⟩, q⟩, he, rfl⟩ := List.mem_map.mp ht
  obtain ⟨hp, ha, hq⟩ := DFA.valid_closed hv he
  refine ⟨hQ p hp, hQ q hq, isWord_token (hS a ha), ?_⟩
  have := isWord_ne_nil (hS a ha)
  rcases hk with rfl | rfl <;>
  · simp only [labelOk]
    cases h : a.toList with
    | nil => exact absurd h this
    | cons => rfl

/-- step 1: the line parser of kind `k` (DFA or NFA) reads `printDfa D` back as `dfaRaw D` -/
theorem parse_print_dfa_raw' (k : Kind) (hk : k = .dfa ∨ k = .nfa) (ok : Word → Bool) (D : DFA String String)
    (hv : D.valid = true) (hQ : ∀ q, q ∈ D.Q → NameOk k ok q)
    (hS : ∀ a, a ∈ D.Sigma → Parse.isWord a.toList = true) :
    parseRaw k ok (printDfa D).toList = .ok (dfaRaw D) := by
  obtain ⟨hq0, hF, hcl, htot⟩ := (DFA.valid_iff D).mp hv
  have hts := dfaTrans_ok' hk hv hQ hS
  have hkw : "input_symbols" ∈ keywords k := by rcases hk with rfl | rfl <;> decide
  have tokQ : ∀ n, n ∈ sortStrings (dedup D.Q) → Token n.toList := fun n hn =>
    (hQ n (mem_sortStrings_dedup.mp hn)).tok
  have tokF : ∀ n, n ∈ sortStrings (dedup D.F) → Token n.toList := fun n hn =>
    (hQ n (hF n (mem_sortStrings_dedup.mp hn))).tok
  have tokS : ∀ n, n ∈ sortStrings (dedup D.Sigma) → Token n.toList := fun n hn =>
    isWord_token (hS n (mem_sortStrings_dedup.mp hn))
  have tok0 : ∀ n, n ∈ [D.q0] → Token n.toList := fun n hn => by
    simp only [List.mem_singleton] at hn; subst hn; exact (hQ _ hq0).tok
  have k1 : Token "states".toList := isWord_token (by decide)
  have k2 : Token "final".toList := isWord_token (by decide)
  have k3 : Token "initial".toList := isWord_token (by decide)
  have k4 : Token "input_symbols".toList := isWord_token (by decide)
  rw [printDfa_toList, parseRaw_strip, parseRaw_eq, splitOn_intercalate_newline (by simp)]
  · rw [List.map_append, lineWords_append]
    simp only [List.map_cons, List.map_nil]
    rw [lineWords_of_ne]
    · simp only [List.map_cons, List.map_nil, splitWs_kw_joinSp k1 tokQ, splitWs_kw_joinSp k2 tokF,
        splitWs_kw_joinSp k3 tok0, splitWs_kw_joinSp k4 tokS]
      have okQ : ∀ n, n ∈ sortStrings (dedup D.Q) → ok n.toList = true := fun n hn =>
        (hQ n (mem_sortStrings_dedup.mp hn)).ok
      have okF : ∀ n, n ∈ sortStrings (dedup D.F) → ok n.toList = true := fun n hn =>
        (hQ n (hF n (mem_sortStrings_dedup.mp hn))).ok
      have ok0 : ∀ n, n ∈ [D.q0] → ok n.toList = true := fun n hn => by
        simp only [List.mem_singleton] at hn; subst hn; exact (hQ _ hq0).ok
      have hneQ : sortStrings (dedup D.Q) ≠ [] := by
        intro e
        have : D.q0 ∈ sortStrings (dedup D.Q) := mem_sortStrings_dedup.mpr hq0
        rw [e] at this; cases this
      simp only [List.cons_append, List.nil_append]
      refine (parseWordLines_cons_ok _ _ (parseWords_states k ok {} (str_toList _) rfl
        (nodup_sortStrings_dedup _) hneQ okQ) _).trans ?_
      refine (parseWordLines_cons_ok _ _ (parseWords_final k ok _ (str_toList _) (by rfl)
        (nodup_sortStrings_dedup _) okF) _).trans ?_
      refine (parseWordLines_cons_ok _ _ (parseWords_initial k ok _ (names := [D.q0]) (str_toList _) (by rfl)
        (by simp) ok0) _).trans ?_
      refine (parseWordLines_cons_ok _ _ (parseWords_keyword k ok _ (args := sortStrings (dedup D.Sigma))
        (str_toList _) hkw (by rfl)) _).trans ?_
      rw [parseWordLines_transLines' k ok _ hts]
      rfl
    · intro l hl
      simp only [List.mem_cons, List.not_mem_nil, or_false] at hl
      rcases hl with rfl | rfl | rfl | rfl
      · rw [splitWs_kw_joinSp k1 tokQ]; simp
      · rw [splitWs_kw_joinSp k2 tokF]; simp
      · rw [splitWs_kw_joinSp k3 tok0]; simp
      · rw [splitWs_kw_joinSp k4 tokS]; simp
  · intro l hl
    rcases List.mem_append.mp hl with hl | hl
    · simp only [List.mem_cons, List.not_mem_nil, or_false] at hl
      rcases hl with rfl | rfl | rfl | rfl
      · exact newline_not_mem_kw_joinSp k1.newline_not_mem (fun n hn => (tokQ n hn).newline_not_mem)
      · exact newline_not_mem_kw_joinSp k2.newline_not_mem (fun n hn => (tokF n hn).newline_not_mem)
      · exact newline_not_mem_kw_joinSp k3.newline_not_mem (fun n hn => (tok0 n hn).newline_not_mem)
      · exact newline_not_mem_kw_joinSp k4.newline_not_mem (fun n hn => (tokS n hn).newline_not_mem)
    · exact newline_not_mem_transLines' hts l hl

theorem dfaRaw_commonChecks (ok : Word → Bool) (D : DFA String String) (hv : D.valid = true)
    (hQ : ∀ q, q ∈ D.Q → ok q.toList = true) : commonChecks (dfaRaw D) [] ok = .ok (dfaRaw D) := by
  obtain ⟨hq0, hF, hcl, htot⟩ := (DFA.valid_iff D).mp hv
  have hperm := dfaRaw_delta_perm D
  have hmemT : ∀ t, t ∈ (dfaRaw D).transitions → ((t.1, str t.2.1), t.2.2) ∈ D.delta := by
    intro t ht
    exact hperm.mem_iff.mp (List.mem_map.mpr ⟨t, ht, rfl⟩)
  apply commonChecks_eq_ok
  · intro e
    have : D.q0 ∈ sortStrings (dedup D.Q) := mem_sortStrings_dedup.mpr hq0
    have e' : sortStrings (dedup D.Q) = [] := e
    rw [e'] at this; cases this
  · intro q hq
    show q ∈ sortStrings (dedup D.Q)
    rw [mem_sortStrings_dedup]
    simp only [usedStates, mem_dedup, List.mem_append, List.mem_flatMap] at hq
    rcases hq with (hq | hq) | ⟨t, ht, hq⟩
    · have : q ∈ [D.q0] := hq
      simp only [List.mem_singleton] at this; subst this; exact hq0
    · have : q ∈ sortStrings (dedup D.F) := hq
      exact hF q (mem_sortStrings_dedup.mp this)
    · have := hcl _ _ _ (hmemT t ht)
      simp only [List.mem_cons, List.not_mem_nil, or_false] at hq
      rcases hq with rfl | rfl
      · exact this.1
      · exact this.2.2
  · intro q hq
    have : q ∈ sortStrings (dedup D.Q) := hq
    exact hQ q (mem_sortStrings_dedup.mp this)
  · rfl

/-- the round trip for an arbitrary state-label predicate -/
theorem parse_print_dfa' (ok : Word → Bool) (D : DFA String String) (hv : D.valid = true)
    (hk : (D.delta.map (·.1)).Nodup) (hQ : ∀ q, q ∈ D.Q → NameOk .dfa ok q)
    (hS : ∀ a, a ∈ D.Sigma → Parse.isWord a.toList = true) :
    ∃ D', Parse.parseDfa (Parse.printDfa D).toList ok = .ok D' ∧ DfaSim D' D := by
  obtain ⟨hq0, hF, hcl, htot⟩ := (DFA.valid_iff D).mp hv
  have h0 := parse_print_dfa_raw' .dfa (Or.inl rfl) ok D hv hQ hS
  have hperm := dfaRaw_delta_perm D
  have hkeys := dfaRaw_keys_perm D
  have hmemT : ∀ t, t ∈ (dfaRaw D).transitions → ((t.1, str t.2.1), t.2.2) ∈ D.delta := by
    intro t ht
    exact hperm.mem_iff.mp (List.mem_map.mpr ⟨t, ht, rfl⟩)
  have h1 := dfaRaw_commonChecks ok D hv (fun q hq => (hQ q hq).ok)
  have h2 : parseDfa.hasDupPairs ((dfaRaw D).transitions.map fun t => (t.1, str t.2.1)) = false :=
    hasDupPairs_eq_false_iff.mpr (hkeys.nodup_iff.mpr hk)
  have h3 : getSymbolSet (dfaRaw D) "input_symbols" (dedup ((dfaRaw D).transitions.map fun t => str t.2.1)) =
      .ok (dedup (sortStrings (dedup D.Sigma))) := by
    have hl : (dfaRaw D).items.lookup "input_symbols" = some (sortStrings (dedup D.Sigma)) := by rfl
    have hsub : ssubset (dedup ((dfaRaw D).transitions.map fun t => str t.2.1)) (sortStrings (dedup D.Sigma)) = true := by
      rw [ssubset_iff]
      intro a ha
      rw [mem_dedup] at ha
      obtain ⟨t, ht, rfl⟩ := List.mem_map.mp ha
      exact mem_sortStrings_dedup.mpr (hcl _ _ _ (hmemT t ht)).2.1
    unfold getSymbolSet
    rw [hl]
    simp [hsub]
  have h4 : wordsOk (dedup (sortStrings (dedup D.Sigma))) = true := by
    simp only [wordsOk, List.all_eq_true]
    intro a ha
    exact hS a (by simpa using ha)
  have h5 : ((dfaRaw D).states.all fun p => (dedup (sortStrings (dedup D.Sigma))).all fun a =>
      decide ((p, a) ∈ (dfaRaw D).transitions.map fun t => (t.1, str t.2.1))) = true := by
    simp only [List.all_eq_true, decide_eq_true_eq]
    intro p hp a ha
    have hp' : p ∈ D.Q := by
      have : p ∈ sortStrings (dedup D.Q) := hp
      exact mem_sortStrings_dedup.mp this
    have ha' : a ∈ D.Sigma := by simpa using ha
    obtain ⟨r, hr⟩ := htot p a hp' ha'
    rw [hkeys.mem_iff]
    exact List.mem_map.mpr ⟨((p, a), r), mem_of_lookup_eq_some hr, rfl⟩
  have hparse := parseDfa_eq_of h0 h1 h2 h3 h4 h5
  have hnd' : (((dfaRaw D).transitions.map fun t => ((t.1, str t.2.1), t.2.2)).map (·.1)).Nodup :=
    ((hperm.map (·.1)).nodup_iff).mpr hk
  have hvalid : DFA.valid
      { Q := (dfaRaw D).states, Sigma := dedup (sortStrings (dedup D.Sigma)),
        delta := ((dfaRaw D).transitions.map fun t => ((t.1, str t.2.1), t.2.2)), q0 := initialOf (dfaRaw D),
        F := (dfaRaw D).final : DFA String String } = true := by
    rw [DFA.valid_iff]
    refine ⟨?_, ?_, ?_, ?_⟩
    · show D.q0 ∈ sortStrings (dedup D.Q)
      exact mem_sortStrings_dedup.mpr hq0
    · intro f hf
      have : f ∈ sortStrings (dedup D.F) := hf
      show f ∈ sortStrings (dedup D.Q)
      exact mem_sortStrings_dedup.mpr (hF f (mem_sortStrings_dedup.mp this))
    · intro q a r he
      have := hcl q a r (hperm.mem_iff.mp he)
      refine ⟨?_, ?_, ?_⟩
      · show q ∈ sortStrings (dedup D.Q); exact mem_sortStrings_dedup.mpr this.1
      · show a ∈ dedup (sortStrings (dedup D.Sigma)); simpa using this.2.1
      · show r ∈ sortStrings (dedup D.Q); exact mem_sortStrings_dedup.mpr this.2.2
    · intro q a hq ha
      have hq' : q ∈ D.Q := by
        have : q ∈ sortStrings (dedup D.Q) := hq
        exact mem_sortStrings_dedup.mp this
      have ha' : a ∈ D.Sigma := by
        have : a ∈ dedup (sortStrings (dedup D.Sigma)) := ha
        simpa using this
      obtain ⟨r, hr⟩ := htot q a hq' ha'
      exact ⟨r, by rw [← hr]; exact lookup_eq_of_perm hperm hnd' (q, a)⟩
  refine ⟨_, hparse.trans (by simp only [DFA.checked, hvalid]; rfl), hvalid, ?_, ?_, rfl, ?_, hperm⟩
  · intro q; exact mem_sortStrings_dedup
  · intro a
    show a ∈ dedup (sortStrings (dedup D.Sigma)) ↔ _
    rw [mem_dedup]; exact mem_sortStrings_dedup
  · intro q; exact mem_sortStrings_dedup

/-! ### names of the answer keys -/

theorem wordName_of_isWord {q : String} (h : isWord q.toList = true) : WordName q := by
  obtain ⟨h1, h2⟩ := isWord_iff.mp h
  refine ⟨?_, h2⟩
  intro e; rw [e] at h1; exact h1 rfl

theorem cleanName_of_isWord {q : String} (h : isWord q.toList = true) : CleanName q :=
  ⟨(wordName_of_isWord h).1, isWord_comma_not_mem h⟩

theorem nameOk_printStateSet {k : Kind} (hk : k = .dfa ∨ k = .nfa) {ok : Word → Bool}
    (hok : ∀ w, CheckText.setStateOk w = true → ok w = true) {S : List String} (hS : ∀ q, q ∈ S → WordName q) :
    NameOk k ok (printStateSet S) := by
  have hl := C13b.printStateSet_toList S
  have hbody : ∀ c, c ∈ C13b.body S → isWordChar c = true ∨ c = ',' := by
    intro c hc
    rcases mem_intercalate hc with h | ⟨x, hx, hcx⟩
    · exact Or.inr (List.mem_singleton.mp h)
    · obtain ⟨q, hq, rfl⟩ := List.mem_map.mp hx
      exact Or.inl ((hS q (by simpa using hq)).2 c hcx)
  refine ⟨?_, ?_, ?_, ?_⟩
  · apply hok
    unfold CheckText.setStateOk
    rw [str_toList]
    exact C13b.isStateSetLabel_print hS
  · rw [hl]
    refine ⟨by simp, ?_⟩
    intro c hc
    simp only [List.mem_cons, List.mem_append, List.not_mem_nil, or_false] at hc
    rcases hc with (rfl | hc) | rfl
    · decide
    · rcases hbody c hc with h | rfl
      · exact not_isSpace_of_isWordChar h
      · decide
    · decide
  · intro hm
    have : ∀ kw, kw ∈ ["states", "final", "initial"] ++ keywords k → kw.toList.head? ≠ some '{' := by
      rcases hk with rfl | rfl <;> decide
    exact this _ hm (by rw [hl]; rfl)
  · rw [hl]; simp

theorem productStateOk_productName {p q : String} (hp : isWord p.toList = true) (hq : isWord q.toList = true) :
    CheckText.productStateOk (productName (p, q)).toList = true := by
  rw [C13a.productName_toList]
  unfold CheckText.productStateOk
  simp only
  have hrev : (p.toList ++ ',' :: (q.toList ++ [')'])).reverse = ')' :: (p.toList ++ ',' :: q.toList).reverse := by
    simp
  rw [hrev]
  simp only [List.reverse_reverse]
  rw [C13a.splitOn_append_sep _ _ _ (isWord_comma_not_mem hp), C13a.splitOn_no_sep _ _ (isWord_comma_not_mem hq)]
  simp [hp, hq]

theorem nameOk_productName {p q : String} (hp : isWord p.toList = true) (hq : isWord q.toList = true) :
    NameOk .dfa CheckText.productStateOk (productName (p, q)) := by
  have hl := C13a.productName_toList p q
  refine ⟨productStateOk_productName hp hq, ?_, ?_, ?_⟩
  · rw [hl]
    refine ⟨by simp, ?_⟩
    intro c hc
    simp only [List.mem_cons, List.mem_append, List.not_mem_nil, or_false] at hc
    rcases hc with rfl | hc | rfl | hc | rfl
    · decide
    · exact (isWord_token hp).2 c hc
    · decide
    · exact (isWord_token hq).2 c hc
    · decide
  · intro hm
    have : ∀ kw, kw ∈ ["states", "final", "initial"] ++ keywords .dfa → kw.toList.head? ≠ some '(' := by decide
    exact this _ hm (by rw [hl]; rfl)
  · rw [hl]; simp

/-! ### congruence of `minimalCheck`, `productCheck` -/

theorem dedup_length_congr {α : Type} [DecidableEq α] {l l' : List α} (h : ∀ x, x ∈ l' ↔ x ∈ l) :
    (dedup l').length = (dedup l).length := by
  apply Nat.le_antisymm
  · exact nodup_subset_length_le _ _ (nodup_dedup _) (fun x hx => mem_dedup.mpr ((h x).mp (mem_dedup.mp hx)))
  · exact nodup_subset_length_le _ _ (nodup_dedup _) (fun x hx => mem_dedup.mpr ((h x).mpr (mem_dedup.mp hx)))

theorem minimalCheck_sim {D A A' : DFA String String} (h : DfaSim A' A) (hv : A.valid = true)
    (hk : (A.delta.map (·.1)).Nodup) (len : Nat) : Check.minimalCheck D A' len = Check.minimalCheck D A len := by
  unfold Check.minimalCheck
  cases D.quotient with
  | error e => rfl
  | ok M =>
    simp only [bind, Except.bind, pure, Except.pure]
    rw [seq_congr (fun _ => Iff.rfl) h.Sigma, dedup_length_congr h.Q,
      compare_congr (h.words hv hk len) (fun _ => Iff.rfl)]

theorem productFeedbackEmpty_sim {D D1 D2 A A' : DFA String String} (h : DfaSim A' A) :
    Check.productFeedbackEmpty D D1 D2 A' = Check.productFeedbackEmpty D D1 D2 A := by
  unfold Check.productFeedbackEmpty
  rw [any_congr_mem h.Q, all_congr_mem h.Q, seq_congr (fun _ => Iff.rfl) h.Sigma, h.q0,
    all_congr_mem (fun x => h.delta.mem_iff), seq_congr (fun _ => Iff.rfl) h.F]

theorem productCheck_sim {t : ProductType} {D1 D2 A A' : DFA String String} (h : DfaSim A' A) (hv : A.valid = true)
    (hk : (A.delta.map (·.1)).Nodup) (len : Nat) :
    Check.productCheck t D1 D2 A' len = Check.productCheck t D1 D2 A len := by
  unfold Check.productCheck
  split
  · rfl
  · simp only [productFeedbackEmpty_sim h]
    cases Check.productFeedbackEmpty ((D1.product D2 t).mapStates productName) D1 D2 A with
    | none => rfl
    | some fb =>
      simp only
      rw [compare_congr (h.words hv hk len) (fun _ => Iff.rfl)]

/-! ### the blocks of `dfa_quotient` are pairwise different as list entries -/

theorem quotientLoop_inv_of_nonempty {D : DFA String String} (hv : D.valid = true) (fuel : Nat) (VV : List (List String))
    (h : C04b.QInv D VV) (hne : ∀ B, B ∈ VV → B ≠ []) (hf : D.Q.length + 1 ≤ VV.length + fuel) :
    ∃ R, D.quotientLoop fuel VV = .ok R ∧ D.IsNerode R ∧ C04b.QInv D R := by
  induction fuel generalizing VV with
  | zero =>
    have := h.length_le hne
    omega
  | succ fuel ih =>
    rw [C04b.quotientLoop_succ]
    cases he : equalSets VV (C04b.refine D VV) with
    | true => exact ⟨VV, by simp, C04b.nerode_of_equalSets hv h he, h⟩
    | false =>
      have hlt := C04b.length_lt_refine hne he
      simp only [Bool.false_eq_true, if_false]
      exact ih (C04b.refine D VV) (h.refine hv) C04b.refine_nonempty (by omega)

theorem quotientLoop_inv {D : DFA String String} (hv : D.valid = true) (fuel : Nat) (VV : List (List String))
    (h : C04b.QInv D VV) (hf : D.Q.length + 2 ≤ fuel) :
    ∃ R, D.quotientLoop fuel VV = .ok R ∧ D.IsNerode R ∧ C04b.QInv D R := by
  cases fuel with
  | zero => omega
  | succ fuel =>
    rw [C04b.quotientLoop_succ]
    cases he : equalSets VV (C04b.refine D VV) with
    | true => exact ⟨VV, by simp, C04b.nerode_of_equalSets hv h he, h⟩
    | false =>
      simp only [Bool.false_eq_true, if_false]
      exact quotientLoop_inv_of_nonempty hv fuel (C04b.refine D VV) (h.refine hv) C04b.refine_nonempty (by omega)

theorem quotient_blocks {D : DFA String String} (hv : D.valid = true) {M : DFA (List String) String}
    (hM : D.quotient = .ok M) : ∃ R, M = D.ofBlocks R ∧ D.IsNerode R ∧ R.Nodup := by
  obtain ⟨R, hR, hN, hI⟩ := quotientLoop_inv hv (D.Q.length + 2) _ (C04b.QInv.init D hv) (Nat.le_refl _)
  refine ⟨R, ?_, hN, ?_⟩
  · unfold DFA.quotient at hM
    rw [hR] at hM
    have hM' : DFA.checked (D.ofBlocks R) = .ok M := hM
    exact (DFA.checked_ok hM').1
  · refine hI.pd.imp_of_mem ?_
    intro B C hB _ hBC e
    cases hB' : B with
    | nil => exact hN.1.nonempty B hB hB'
    | cons p B' =>
      have hp : p ∈ B := hB' ▸ List.mem_cons_self
      exact hBC p hp (e ▸ hp)

/-! ### unique keys in the transition tables of the answer keys -/

theorem nodup_flatMap_pairs {σ κ α : Type} (l : List σ) (h : σ → List α) (f : σ → κ) (hl : l.Nodup)
    (hh : ∀ s, s ∈ l → (h s).Nodup) (hf : ∀ x y, x ∈ l → y ∈ l → f x = f y → x = y) :
    (l.flatMap fun s => (h s).map fun a => (f s, a)).Nodup := by
  rw [List.nodup_iff_pairwise_ne, List.pairwise_flatMap]
  refine ⟨?_, ?_⟩
  · intro s hs
    rw [List.pairwise_map]
    exact (hh s hs).imp (fun hab e => hab (Prod.mk.inj e).2)
  · refine hl.imp_of_mem ?_
    intro s1 s2 h1 h2 hne x hx y hy e
    obtain ⟨a, _, rfl⟩ := List.mem_map.mp hx
    obtain ⟨b, _, he⟩ := List.mem_map.mp hy
    rw [← he] at e
    exact hne (hf s1 s2 h1 h2 (Prod.mk.inj e).1)

theorem product_keys_nodup (t : ProductType) (D1 D2 : DFA String String) (h1 : D1.Q.Nodup) (h2 : D2.Q.Nodup)
    (hS : D1.Sigma.Nodup) (hn1 : ∀ q, q ∈ D1.Q → ',' ∉ q.toList) (hn2 : ∀ q, q ∈ D2.Q → ',' ∉ q.toList) :
    ((((D1.product D2 t).mapStates productName).delta).map (·.1)).Nodup := by
  have e : (((D1.product D2 t).mapStates productName).delta).map (·.1) =
      (D1.product D2 t).Q.flatMap fun k => D1.Sigma.map fun a => (productName k, a) := by
    show List.map _ (List.map _ (D1.product D2 t).delta) = _
    rw [DFA.product_delta_eq, List.map_map, List.map_flatMap]
    congr 1
    funext k
    rw [List.map_map]
    rfl
  rw [e]
  apply nodup_flatMap_pairs _ (fun _ => D1.Sigma) productName
  · show (D1.Q.flatMap fun p => D2.Q.map fun q => (p, q)).Nodup
    exact nodup_flatMap_pairs D1.Q (fun _ => D2.Q) id h1 (fun _ _ => h2) (fun _ _ _ _ e => e)
  · exact fun _ _ => hS
  · exact C13a.productName_inj_on t D1 D2 hn1 hn2

theorem ofBlocks_keys_nodup (D : DFA String String) (R : List (List String)) (hR : R.Nodup) (hS : D.Sigma.Nodup)
    (hinj : ∀ B C, B ∈ R → C ∈ R → printStateSet B = printStateSet C → B = C) :
    ((((D.ofBlocks R).mapStates printStateSet).delta).map (·.1)).Nodup := by
  have e : (((D.ofBlocks R).mapStates printStateSet).delta).map (·.1) =
      R.flatMap fun B => (match B with | [] => [] | _ :: _ => D.Sigma).map fun a => (printStateSet B, a) := by
    show List.map _ (List.map _ (D.ofBlocks R).delta) = _
    show List.map _ (List.map _ (R.flatMap _)) = _
    rw [List.map_map, List.map_flatMap]
    congr 1
    funext B
    cases B with
    | nil => rfl
    | cons v B' => simp only [List.map_map]; rfl
  rw [e]
  apply nodup_flatMap_pairs R _ printStateSet hR
  · intro B _
    cases B with
    | nil => simp
    | cons v B' => exact hS
  · exact hinj

/-! ### the answer keys of the minimal-DFA and product exercises re-parse -/

theorem minimal_text (D : DFA String String) (hD : ParsedDfa isWord D) (len : Nat)
    (M : DFA (List String) String) (hM : D.quotient = .ok M) :
    ∃ A', Parse.parseDfa (Parse.printDfa (M.mapStates printStateSet)).toList CheckText.wordOrSetStateOk = .ok A' ∧
      Check.minimalCheck D A' len = .ok true := by
  obtain ⟨R, rfl, hN, hRnd⟩ := quotient_blocks hD.valid hM
  have hclean : ∀ q, q ∈ D.Q → CleanName q := fun q hq => cleanName_of_isWord (hD.names q hq)
  have hinj := C13e.nerode_names_inj hN hclean
  have hMv := (DFA.ofBlocks_nerode D hD.valid R hN).1
  have hAv := mapStates_valid printStateSet (D.ofBlocks R) hMv hinj
  have hk := ofBlocks_keys_nodup D R hRnd hD.nodupS hinj
  obtain ⟨A', hA', hsim⟩ := parse_print_dfa' CheckText.wordOrSetStateOk _ hAv hk
    (by
      intro q hq
      obtain ⟨B, hB, rfl⟩ := List.mem_map.mp hq
      apply nameOk_printStateSet (Or.inl rfl)
      · intro w hw
        unfold CheckText.wordOrSetStateOk
        rw [hw, Bool.or_true]
      · intro x hx
        exact wordName_of_isWord (hD.names x (hN.1.sub B hB x hx)))
    hD.syms
  refine ⟨A', hA', ?_⟩
  rw [minimalCheck_sim hsim hAv hk len]
  exact own_minimal_quotient_ok D hD.valid hD.nodupQ len _ hM hinj

theorem product_text (t : ProductType) (D1 D2 : DFA String String) (h1 : ParsedDfa isWord D1) (h2 : ParsedDfa isWord D2)
    (hS : ∀ a, a ∈ D1.Sigma ↔ a ∈ D2.Sigma) (len : Nat) :
    ∃ A', Parse.parseDfa (Parse.printDfa ((D1.product D2 t).mapStates productName)).toList CheckText.productStateOk = .ok A' ∧
      Check.productCheck t D1 D2 A' len = some true := by
  have hn1 : ∀ q, q ∈ D1.Q → ',' ∉ q.toList := fun q hq => isWord_comma_not_mem (h1.names q hq)
  have hn2 : ∀ q, q ∈ D2.Q → ',' ∉ q.toList := fun q hq => isWord_comma_not_mem (h2.names q hq)
  have hAv := C13a.productAnswer_valid t D1 D2 h1.valid h2.valid hS hn1 hn2
  have hk := product_keys_nodup t D1 D2 h1.nodupQ h2.nodupQ h1.nodupS hn1 hn2
  obtain ⟨A', hA', hsim⟩ := parse_print_dfa' CheckText.productStateOk _ hAv hk
    (by
      intro q hq
      obtain ⟨⟨p, r⟩, hpr, rfl⟩ := List.mem_map.mp hq
      rw [DFA.product_mem_Q] at hpr
      exact nameOk_productName (h1.names p hpr.1) (h2.names r hpr.2))
    h1.syms
  refine ⟨A', hA', ?_⟩
  rw [productCheck_sim hsim hAv hk len]
  exact own_product_ok t D1 D2 len h1.valid h2.valid hS hn1 hn2

/-! ### the subset construction builds a transition table with unique keys -/

theorem subsetInner_keys {N : NFA String String} {s : Sched} {Q1 : List String} {acc acc' : SubsetAcc String String}
    {a : String} (h : N.subsetInner s Q1 acc a = .ok acc') (hk : (acc.delta.map (·.1)).Nodup) :
    (acc'.delta.map (·.1)).Nodup := by
  unfold NFA.subsetInner at h
  cases hC : N.closure s (N.moveSet Q1 a) with
  | error e => rw [hC] at h; cases h
  | ok C =>
    rw [hC] at h
    simp only [bind, Except.bind, pure, Except.pure] at h
    split at h <;> cases h <;> exact keys_set_nodup hk _ _

theorem foldlM_subsetInner_keys {N : NFA String String} {s : Sched} {Q1 : List String} (l : List String)
    {acc acc' : SubsetAcc String String} (h : l.foldlM (N.subsetInner s Q1) acc = .ok acc')
    (hk : (acc.delta.map (·.1)).Nodup) : (acc'.delta.map (·.1)).Nodup := by
  induction l generalizing acc with
  | nil => simp only [List.foldlM_nil, pure, Except.pure, Except.ok.injEq] at h; subst h; exact hk
  | cons a l ih =>
    rw [List.foldlM_cons] at h
    cases h1 : N.subsetInner s Q1 acc a with
    | error e => rw [h1] at h; cases h
    | ok acc1 => rw [h1] at h; exact ih h (subsetInner_keys h1 hk)

theorem subsetLoop_keys {N : NFA String String} {s : Sched} (fuel : Nat) {acc acc' : SubsetAcc String String}
    (h : N.subsetLoop s fuel acc = .ok acc') (hk : (acc.delta.map (·.1)).Nodup) : (acc'.delta.map (·.1)).Nodup := by
  induction fuel generalizing acc with
  | zero =>
    unfold NFA.subsetLoop at h
    split at h
    · cases h; exact hk
    · cases h
  | succ fuel ih =>
    unfold NFA.subsetLoop at h
    split at h
    · cases h; exact hk
    · rename_i Q1 rest _
      cases h1 : N.Sigma.foldlM (N.subsetInner s Q1) { acc with todo := rest } with
      | error e => simp only [h1, bind, Except.bind] at h; cases h
      | ok acc1 =>
        simp only [h1, bind, Except.bind] at h
        exact ih h (foldlM_subsetInner_keys _ h1 hk)

theorem toDfaSets_keys {N : NFA String String} {s : Sched} {D0 : DFA (List String) String}
    (h : N.toDfaSets s = .ok D0) : (D0.delta.map (·.1)).Nodup := by
  unfold NFA.toDfaSets at h
  cases hC : N.closure s [N.q0] with
  | error e => rw [hC] at h; cases h
  | ok C0 =>
    rw [hC] at h
    simp only [bind, Except.bind] at h
    split at h
    · cases h
    · rename_i acc hacc
      obtain ⟨rfl, _⟩ := DFA.checked_ok h
      exact subsetLoop_keys _ hacc (by simp)

/-! ### a printed DFA read as an NFA (`check_nfa2dfa` parses its answer with `parse_nfa`) -/

theorem set_of_not_mem {κ ν : Type} [DecidableEq κ] (d : Dict κ ν) (k : κ) (v : ν) (h : k ∉ d.map (·.1)) :
    d.set k v = d ++ [(k, v)] := by
  induction d with
  | nil => rfl
  | cons e d ih =>
    obtain ⟨k1, v1⟩ := e
    simp only [List.map_cons, List.mem_cons, not_or] at h
    have h1 : ¬ k1 = k := fun e => h.1 e.symm
    simp only [Dict.set, h1, if_false, ih h.2, List.cons_append]

theorem foldl_groupStep_of_nodup (ts : List (String × String × String)) (d : Dict (String × String) (List String))
    (hnd : ((d.map (·.1)) ++ ts.map fun t => (t.1, t.2.1)).Nodup) :
    ts.foldl groupStep d = d ++ ts.map fun t => ((t.1, t.2.1), [t.2.2]) := by
  induction ts generalizing d with
  | nil => simp
  | cons t ts ih =>
    have hk : (t.1, t.2.1) ∉ d.map (·.1) := by
      intro hm
      rw [List.nodup_append] at hnd
      exact hnd.2.2 _ hm _ (by simp) rfl
    have hl : d.lookup (t.1, t.2.1) = none := by
      rw [lookup_eq_none_iff_forall]
      intro v hv
      exact hk (List.mem_map.mpr ⟨_, hv, rfl⟩)
    have hstep : groupStep d t = d ++ [((t.1, t.2.1), [t.2.2])] := by
      unfold groupStep
      rw [hl, set_of_not_mem _ _ _ hk]
      rfl
    rw [List.foldl_cons, hstep, ih]
    · simp
    · simpa [List.append_assoc] using hnd

theorem groupNfa_of_nodup (ts : List (String × String × String)) (hnd : (ts.map fun t => (t.1, t.2.1)).Nodup) :
    groupNfa ts = ts.map fun t => ((t.1, t.2.1), [t.2.2]) := by
  rw [groupNfa_eq, foldl_groupStep_of_nodup ts [] (by simpa using hnd)]
  simp

theorem parseNfa_eq_of' {text : List Char} {ok : Word → Bool} {A0 A : Raw} {eps : String} {Sigma : List String}
    (h0 : parseRaw .nfa ok text = .ok A0) (h1 : commonChecks A0 [] ok = .ok A)
    (h2 : parseSymbol A "epsilon" 'ε' "_" = .ok eps)
    (h3 : getSymbolSet A "input_symbols" (dedup ((A.transitions.map fun t => str t.2.1).filter (· ≠ eps))) = .ok Sigma)
    (h4 : wordsOk Sigma = true) :
    Parse.parseNfa text ok =
      NFA.checked { Q := A.states, Sigma := Sigma,
                    delta := groupNfa (A.transitions.map fun t => (t.1, str t.2.1, t.2.2)),
                    q0 := initialOf A, F := A.final, eps := eps } := by
  unfold parseNfa
  simp only [bind, Except.bind, h0, h1, h2, h3, h4]
  simp

/-- the ε symbol `parse_nfa` infers for a text without an `epsilon` declaration -/
def inferredEps (D : DFA String String) : String :=
  if (dfaRaw D).transitions.any (fun t => t.2.1.contains 'ε') then String.singleton 'ε' else "_"

theorem inferredEps_cases (D : DFA String String) : inferredEps D = "ε" ∨ inferredEps D = "_" := by
  unfold inferredEps
  split
  · exact Or.inl rfl
  · exact Or.inr rfl

/-- `parse_nfa (print_dfa D)` for an arbitrary state-label predicate -/
theorem parse_printDfa_as_nfa (ok : Word → Bool) (D : DFA String String) (hv : D.valid = true)
    (hk : (D.delta.map (·.1)).Nodup) (hQ : ∀ q, q ∈ D.Q → NameOk .nfa ok q)
    (hS : ∀ a, a ∈ D.Sigma → Parse.isWord a.toList = true) (he : inferredEps D ∉ D.Sigma) :
    ∃ N', Parse.parseNfa (Parse.printDfa D).toList ok = .ok N' ∧ N'.valid = true ∧
      (∀ q, q ∈ N'.Q ↔ q ∈ D.Q) ∧ (∀ a, a ∈ N'.Sigma ↔ a ∈ D.Sigma) ∧ N'.q0 = D.q0 ∧ (∀ q, q ∈ N'.F ↔ q ∈ D.F) ∧
      N'.eps = inferredEps D ∧ (∀ q a, N'.succ q a = (Keys.dfaAsNfa D (inferredEps D)).succ q a) ∧
      (∀ e, e ∈ N'.delta → e.1.2 ∈ D.Sigma) := by
  obtain ⟨hq0, hF, hcl, htot⟩ := (DFA.valid_iff D).mp hv
  have h0 := parse_print_dfa_raw' .nfa (Or.inr rfl) ok D hv hQ hS
  have hperm := dfaRaw_delta_perm D
  have hkeys := dfaRaw_keys_perm D
  have hmemT : ∀ t, t ∈ (dfaRaw D).transitions → ((t.1, str t.2.1), t.2.2) ∈ D.delta := by
    intro t ht
    exact hperm.mem_iff.mp (List.mem_map.mpr ⟨t, ht, rfl⟩)
  have h1 := dfaRaw_commonChecks ok D hv (fun q hq => (hQ q hq).ok)
  have h2 : parseSymbol (dfaRaw D) "epsilon" 'ε' "_" = .ok (inferredEps D) := by rfl
  have h3 : getSymbolSet (dfaRaw D) "input_symbols"
      (dedup (((dfaRaw D).transitions.map fun t => str t.2.1).filter (· ≠ inferredEps D))) =
      .ok (dedup (sortStrings (dedup D.Sigma))) := by
    have hl : (dfaRaw D).items.lookup "input_symbols" = some (sortStrings (dedup D.Sigma)) := by rfl
    have hsub : ssubset (dedup (((dfaRaw D).transitions.map fun t => str t.2.1).filter (· ≠ inferredEps D)))
        (sortStrings (dedup D.Sigma)) = true := by
      rw [ssubset_iff]
      intro a ha
      rw [mem_dedup, List.mem_filter] at ha
      obtain ⟨t, ht, rfl⟩ := List.mem_map.mp ha.1
      exact mem_sortStrings_dedup.mpr (hcl _ _ _ (hmemT t ht)).2.1
    unfold getSymbolSet
    rw [hl]
    generalize dedup (((dfaRaw D).transitions.map fun t => str t.2.1).filter (· ≠ inferredEps D)) = used at hsub
    simp [hsub]
  have h4 : wordsOk (dedup (sortStrings (dedup D.Sigma))) = true := by
    simp only [wordsOk, List.all_eq_true]
    intro a ha
    exact hS a (by simpa using ha)
  have hparse := parseNfa_eq_of' h0 h1 h2 h3 h4
  have hts : ((dfaRaw D).transitions.map fun t => (t.1, str t.2.1, t.2.2)).map (fun t => (t.1, t.2.1)) =
      (dfaRaw D).transitions.map fun t => (t.1, str t.2.1) := by
    rw [List.map_map]; rfl
  have hg : groupNfa ((dfaRaw D).transitions.map fun t => (t.1, str t.2.1, t.2.2)) =
      ((dfaRaw D).transitions.map fun t => ((t.1, str t.2.1), t.2.2)).map fun e => (e.1, [e.2]) := by
    rw [groupNfa_of_nodup _ (by rw [hts]; exact hkeys.nodup_iff.mpr hk), List.map_map, List.map_map]
    rfl
  have hmemG : ∀ e, e ∈ groupNfa ((dfaRaw D).transitions.map fun t => (t.1, str t.2.1, t.2.2)) →
      ∃ r, e.2 = [r] ∧ (e.1, r) ∈ D.delta := by
    intro e he
    rw [hg] at he
    obtain ⟨e0, he0, rfl⟩ := List.mem_map.mp he
    exact ⟨e0.2, rfl, hperm.mem_iff.mp he0⟩
  have hvalid : NFA.valid
      { Q := (dfaRaw D).states, Sigma := dedup (sortStrings (dedup D.Sigma)),
        delta := groupNfa ((dfaRaw D).transitions.map fun t => (t.1, str t.2.1, t.2.2)), q0 := initialOf (dfaRaw D),
        F := (dfaRaw D).final, eps := inferredEps D : NFA String String } = true := by
    rw [NFA.valid_iff]
    refine ⟨?_, ?_, ?_, ?_⟩
    · show D.q0 ∈ sortStrings (dedup D.Q)
      exact mem_sortStrings_dedup.mpr hq0
    · intro f hf
      have : f ∈ sortStrings (dedup D.F) := hf
      show f ∈ sortStrings (dedup D.Q)
      exact mem_sortStrings_dedup.mpr (hF f (mem_sortStrings_dedup.mp this))
    · show inferredEps D ∉ dedup (sortStrings (dedup D.Sigma))
      simpa using he
    · intro q a T hm
      obtain ⟨r, hT, hd⟩ := hmemG _ hm
      have := hcl q a r hd
      refine ⟨?_, Or.inl ?_, ?_⟩
      · show q ∈ sortStrings (dedup D.Q); exact mem_sortStrings_dedup.mpr this.1
      · show a ∈ dedup (sortStrings (dedup D.Sigma)); simpa using this.2.1
      · intro y hy
        simp only at hT
        rw [hT, List.mem_singleton] at hy
        subst hy
        show y ∈ sortStrings (dedup D.Q); exact mem_sortStrings_dedup.mpr this.2.2
  refine ⟨_, hparse.trans (by simp only [NFA.checked, hvalid]; rfl), hvalid, ?_, ?_, rfl, ?_, rfl, ?_, ?_⟩
  · intro q; exact mem_sortStrings_dedup
  · intro a
    show a ∈ dedup (sortStrings (dedup D.Sigma)) ↔ _
    rw [mem_dedup]; exact mem_sortStrings_dedup
  · intro q; exact mem_sortStrings_dedup
  · intro q a
    have hlk : List.lookup (q, a) (((dfaRaw D).transitions.map fun t => ((t.1, str t.2.1), t.2.2)).map
        fun e => (e.1, [e.2])) = List.lookup (q, a) (D.delta.map fun e => (e.1, [e.2])) :=
      lookup_eq_of_perm (hperm.map _) (by
        rw [List.map_map]
        exact (hperm.map (·.1)).nodup_iff.mpr hk) (q, a)
    show (List.lookup (q, a) (groupNfa ((dfaRaw D).transitions.map fun t => (t.1, str t.2.1, t.2.2)))).getD [] =
      (List.lookup (q, a) (D.delta.map fun e => (e.1, [e.2]))).getD []
    rw [hg, hlk]
  · intro e he
    obtain ⟨r, _, hd⟩ := hmemG _ he
    exact (hcl _ _ _ hd).2.1

/-! ### congruence of `nfaToDfaCheck` -/

theorem allM_true_inv {α : Type} {f : α → Except Err Bool} (l : List α) (h : l.allM f = .ok true) :
    ∀ x, x ∈ l → f x = .ok true := by
  induction l with
  | nil => intro x hx; cases hx
  | cons y l ih =>
    rw [List.allM_cons] at h
    cases hy : f y with
    | error e => rw [hy] at h; cases h
    | ok b =>
      rw [hy] at h
      cases b with
      | false => cases h
      | true =>
        intro x hx
        rcases List.mem_cons.mp hx with rfl | hx
        · exact hy
        · exact ih h x hx

theorem nfaToDfaCheck_sim {N A A' : NFA String String} {s : Sched} (hv : N.valid = true)
    (hQ : ∀ q, q ∈ A'.Q ↔ q ∈ A.Q) (hS : ∀ a, a ∈ A'.Sigma ↔ a ∈ A.Sigma) (hq0 : A'.q0 = A.q0)
    (hF : ∀ q, q ∈ A'.F ↔ q ∈ A.F) (hsucc : ∀ q a, A'.succ q a = A.succ q a)
    (hE : (A'.delta.all fun e => !(decide (e.1.2 = A'.eps) && !e.2.isEmpty)) = true)
    (h : Check.nfaToDfaCheck N A s = .ok true) : Check.nfaToDfaCheck N A' s = .ok true := by
  unfold Check.nfaToDfaCheck at h ⊢
  simp only [NFA.closure_eq_ok hv] at h ⊢
  simp only [hsucc]
  have hL : ∀ x, x ∈ (A'.Q.flatMap fun q => A'.Sigma.map fun a => (q, a)) ↔
      x ∈ (A.Q.flatMap fun q => A.Sigma.map fun a => (q, a)) := by
    intro x
    simp only [List.mem_flatMap, List.mem_map]
    constructor
    · rintro ⟨q, hq, a, ha, rfl⟩; exact ⟨q, (hQ q).mp hq, a, (hS a).mp ha, rfl⟩
    · rintro ⟨q, hq, a, ha, rfl⟩; exact ⟨q, (hQ q).mpr hq, a, (hS a).mpr ha, rfl⟩
  simp only [bind, Except.bind, pure, Except.pure] at h ⊢
  split at h
  · cases h
  · rename_i b hall
    simp only [Except.ok.injEq, Bool.and_eq_true] at h
    obtain ⟨⟨⟨⟨⟨⟨⟨h1, h2⟩, h3⟩, h4⟩, h5⟩, h6⟩, _⟩, h8⟩ := h
    subst h6
    have hall' := C13b.allM_ok_true _ (fun x hx => allM_true_inv _ hall x ((hL x).mp hx))
    rw [hall']
    simp only [Except.ok.injEq, Bool.and_eq_true]
    refine ⟨⟨⟨⟨⟨⟨⟨?_, ?_⟩, ?_⟩, ?_⟩, ?_⟩, trivial⟩, hE⟩, ?_⟩
    · cases hA : A.Q with
      | nil => rw [hA] at h1; cases h1
      | cons x l =>
        cases hA' : A'.Q with
        | nil =>
          have : x ∈ A'.Q := (hQ x).mpr (by rw [hA]; exact List.mem_cons_self)
          rw [hA'] at this; cases this
        | cons _ _ => rfl
    · rw [seq_congr (fun _ => Iff.rfl) hS]; exact h2
    · rw [all_congr_mem hQ]; exact h3
    · rw [hq0]; exact h4
    · rw [all_congr_mem hQ]
      rw [List.all_eq_true] at h5 ⊢
      intro q hq
      have := h5 q hq
      rw [beq_iff_eq] at this ⊢
      rw [← this, Bool.eq_iff_iff, decide_eq_true_eq, decide_eq_true_eq]
      exact hF q
    · rw [all_congr_mem hL]; exact h8

/-! ### the answer key of the NFA → DFA exercise re-parses (as an NFA) and passes -/

structure ParsedNfa (N : NFA String String) : Prop where
  valid : N.valid = true
  names : ∀ q, q ∈ N.Q → isWord q.toList = true
  syms : ∀ a, a ∈ N.Sigma → isWord a.toList = true

theorem parsedNfa_of {text : List Char} {N : NFA String String} (h : Parse.parseNfa text = .ok N) : ParsedNfa N := by
  obtain ⟨A0, A, eps, Sigma, h0, h1, h2, h3, h4, hc⟩ := Parse.parseNfa_ok_unpack h
  obtain ⟨rfl, hv⟩ := NFA.checked_ok hc
  obtain ⟨_, _, hnames, _⟩ := commonChecks_ok h1
  refine ⟨hv, hnames, ?_⟩
  intro a ha
  simp only [wordsOk, List.all_eq_true] at h4
  exact h4 a ha

theorem nfa2dfa_text (N : NFA String String) (hN : ParsedNfa N) (s : Sched) (D : DFA String String)
    (hD : N.toDfa s = .ok D) (he : "ε" ∉ N.Sigma) (hu : "_" ∉ N.Sigma) (s' : Sched) :
    ∃ A', Parse.parseNfa (Parse.printDfa D).toList CheckText.setStateOk = .ok A' ∧
      Check.nfaToDfaCheck N A' s' = .ok true := by
  have hv := hN.valid
  have hclean : ∀ q, q ∈ N.Q → CleanName q := fun q hq => cleanName_of_isWord (hN.names q hq)
  have hword : ∀ q, q ∈ N.Q → WordName q := fun q hq => wordName_of_isWord (hN.names q hq)
  obtain ⟨D0, hD0, hval, hSig, _, hcanon, _⟩ := NFA.toDfaSets_spec_canon hv s
  have hDeq : D = D0.mapStates printStateSet := by
    unfold NFA.toDfa at hD
    rw [hD0] at hD
    cases hD
    rfl
  subst hDeq
  have hinj : ∀ S T, S ∈ D0.Q → T ∈ D0.Q → printStateSet S = printStateSet T → S = T :=
    fun S T hS hT h => N.printStateSet_inj_on_canon hclean (hcanon S hS) (hcanon T hT) h
  have hDv : (D0.mapStates printStateSet).valid = true := mapStates_valid printStateSet D0 hval hinj
  have hDS : (D0.mapStates printStateSet).Sigma = N.Sigma := hSig
  have hk : (((D0.mapStates printStateSet).delta).map (·.1)).Nodup := by
    have e : ((D0.mapStates printStateSet).delta).map (·.1) =
        (D0.delta.map (·.1)).map fun k => (printStateSet k.1, k.2) := by
      show List.map _ (List.map _ D0.delta) = _
      rw [List.map_map, List.map_map]; rfl
    rw [e]
    apply C13a.nodup_map_of_inj_on _ _ (toDfaSets_keys hD0)
    intro x y hx hy hxy
    obtain ⟨ex, hex, rfl⟩ := List.mem_map.mp hx
    obtain ⟨ey, hey, rfl⟩ := List.mem_map.mp hy
    simp only [Prod.mk.injEq] at hxy
    have := hinj _ _ (DFA.valid_closed hval hex).1 (DFA.valid_closed hval hey).1 hxy.1
    exact Prod.ext this hxy.2
  have hnames : ∀ q, q ∈ (D0.mapStates printStateSet).Q → NameOk .nfa CheckText.setStateOk q := by
    intro q hq
    obtain ⟨S, hS, rfl⟩ := List.mem_map.mp hq
    exact nameOk_printStateSet (Or.inr rfl) (fun _ h => h)
      (fun x hx => hword x (N.mem_Q_of_canon (hcanon S hS) hx))
  have heps : inferredEps (D0.mapStates printStateSet) ∉ (D0.mapStates printStateSet).Sigma := by
    rw [hDS]
    rcases inferredEps_cases (D0.mapStates printStateSet) with h | h <;> rw [h]
    · exact he
    · exact hu
  obtain ⟨N', hN', hN'v, hQ, hS, hq0, hF, hE, hsucc, hlab⟩ := parse_printDfa_as_nfa CheckText.setStateOk _ hDv hk hnames
    (fun a ha => hN.syms a (hDS ▸ ha)) heps
  refine ⟨N', hN', ?_⟩
  obtain ⟨D1, hD1, hck⟩ := C13b.own_ok N hv hword s s' (inferredEps (D0.mapStates printStateSet)) (hDS ▸ heps)
  have hD1' : D1 = D0.mapStates printStateSet := by
    unfold NFA.toDfa at hD1
    rw [hD0] at hD1
    cases hD1
    rfl
  subst hD1'
  refine nfaToDfaCheck_sim hv hQ hS hq0 hF hsucc ?_ hck
  rw [List.all_eq_true]
  intro e hem
  have : e.1.2 ≠ N'.eps := by
    intro hc
    rw [hE] at hc
    exact heps (hc ▸ hlab e hem)
  simp [this]

end C13f
end Gamba
