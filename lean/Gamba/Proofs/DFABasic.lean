/-
  Gamba.Proofs.DFABasic — reusable facts about association-list lookups, `DFA.valid`, `DFA.Run`,
  `DFA.next`, `DFA.runT` and `DFA.Accepts`.
-/
import Gamba.Model.DFA
import Gamba.Spec.Automata
namespace Gamba

/-! ### association lists -/
section Lookup
variable {κ ν : Type} [BEq κ] [LawfulBEq κ]

theorem mem_of_lookup_eq_some {l : List (κ × ν)} {k : κ} {v : ν} (h : l.lookup k = some v) :
    (k, v) ∈ l := by
  induction l with
  | nil => simp at h
  | cons e l ih =>
    obtain ⟨k', v'⟩ := e
    rw [List.lookup_cons] at h
    by_cases hk : k = k'
    · subst hk
      simp only [beq_self_eq_true, Option.some.injEq] at h
      subst h
      exact List.mem_cons_self
    · have hb : (k == k') = false := by simp [hk]
      rw [hb] at h
      exact List.mem_cons_of_mem _ (ih h)

theorem lookup_eq_none_iff_forall {l : List (κ × ν)} {k : κ} :
    l.lookup k = none ↔ ∀ v, (k, v) ∉ l := by
  induction l with
  | nil => simp
  | cons e l ih =>
    obtain ⟨k', v'⟩ := e
    rw [List.lookup_cons]
    by_cases hk : k = k'
    · subst hk
      simp only [beq_self_eq_true, List.mem_cons, not_or]
      constructor
      · intro h; cases h
      · intro h; exact absurd rfl (h v').1
    · have hb : (k == k') = false := by simp [hk]
      rw [hb]
      simp only [ih, List.mem_cons, Prod.mk.injEq, hk, false_and, false_or]

theorem lookup_isSome_iff_exists {l : List (κ × ν)} {k : κ} :
    (l.lookup k).isSome = true ↔ ∃ v, (k, v) ∈ l := by
  cases h : l.lookup k with
  | none =>
    simp only [Option.isSome_none, Bool.false_eq_true, false_iff]
    rintro ⟨v, hv⟩
    exact lookup_eq_none_iff_forall.mp h v hv
  | some v =>
    simp only [Option.isSome_some, true_iff]
    exact ⟨v, mem_of_lookup_eq_some h⟩

/-- if `(k,v)` occurs and every binding of `k` has value `v`, then `lookup k = some v` -/
theorem lookup_eq_some_of_unique {l : List (κ × ν)} {k : κ} {v : ν} (hm : (k, v) ∈ l)
    (hu : ∀ v', (k, v') ∈ l → v' = v) : l.lookup k = some v := by
  cases h : l.lookup k with
  | none => exact absurd hm (lookup_eq_none_iff_forall.mp h v)
  | some v' => rw [hu v' (mem_of_lookup_eq_some h)]

/-- lookup in a dict built as `{k : g k for k in keys}` -/
theorem lookup_map_keys {κ ν : Type} [DecidableEq κ] [BEq κ] [LawfulBEq κ] (keys : List κ) (g : κ → ν) (k : κ) :
    (keys.map (fun k => (k, g k))).lookup k = if k ∈ keys then some (g k) else none := by
  split
  · rename_i h
    apply lookup_eq_some_of_unique
    · exact List.mem_map.mpr ⟨k, h, rfl⟩
    · intro v' hv'
      obtain ⟨k', _, he⟩ := List.mem_map.mp hv'
      simp only [Prod.mk.injEq] at he
      obtain ⟨rfl, rfl⟩ := he
      rfl
  · rename_i h
    rw [lookup_eq_none_iff_forall]
    intro v hv
    obtain ⟨k', hk', he⟩ := List.mem_map.mp hv
    simp only [Prod.mk.injEq] at he
    obtain ⟨rfl, _⟩ := he
    exact h hk'

/-- lookup in a dict built as `{(k,a) : g k a for k in keys for a in as}` -/
theorem lookup_flatMap_keys {κ ν α : Type} [DecidableEq κ] [DecidableEq α]
    [BEq (κ × α)] [LawfulBEq (κ × α)] (keys : List κ) (as : List α)
    (g : κ → α → ν) (k : κ) (a : α) :
    (keys.flatMap (fun k => as.map (fun a => ((k, a), g k a)))).lookup (k, a) =
      if k ∈ keys ∧ a ∈ as then some (g k a) else none := by
  split
  · rename_i h
    apply lookup_eq_some_of_unique
    · exact List.mem_flatMap.mpr ⟨k, h.1, List.mem_map.mpr ⟨a, h.2, rfl⟩⟩
    · intro v' hv'
      obtain ⟨k', _, hk'⟩ := List.mem_flatMap.mp hv'
      obtain ⟨a', _, he⟩ := List.mem_map.mp hk'
      simp only [Prod.mk.injEq] at he
      obtain ⟨⟨rfl, rfl⟩, rfl⟩ := he
      rfl
  · rename_i h
    rw [lookup_eq_none_iff_forall]
    intro v hv
    obtain ⟨k', hk', hk''⟩ := List.mem_flatMap.mp hv
    obtain ⟨a', ha', he⟩ := List.mem_map.mp hk''
    simp only [Prod.mk.injEq] at he
    obtain ⟨⟨rfl, rfl⟩, _⟩ := he
    exact h ⟨hk', ha'⟩

end Lookup

/-- `List.lookup` does not depend on which lawful `BEq` instance is used
    (`Dict.get`/`Dict.has` use the one derived from `DecidableEq (σ × τ)`, the DFA model and the
    specs use `instBEqProd`). -/
theorem lookup_beq_irrel {κ ν : Type} (i1 i2 : BEq κ) [@LawfulBEq κ i1] [@LawfulBEq κ i2]
    (l : List (κ × ν)) (k : κ) : @List.lookup κ ν i1 k l = @List.lookup κ ν i2 k l := by
  induction l with
  | nil => rfl
  | cons e l ih =>
    obtain ⟨k', v'⟩ := e
    rw [@List.lookup_cons _ _ _ _ _ i1, @List.lookup_cons _ _ _ _ _ i2, ih]
    by_cases hk : k = k'
    · subst hk
      rw [@beq_self_eq_true _ i1, @beq_self_eq_true _ i2]
    · have h1 : @BEq.beq _ i1 k k' = false := by
        cases hb : @BEq.beq _ i1 k k' with
        | false => rfl
        | true => exact absurd (@eq_of_beq _ i1 _ _ _ hb) hk
      have h2 : @BEq.beq _ i2 k k' = false := by
        cases hb : @BEq.beq _ i2 k k' with
        | false => rfl
        | true => exact absurd (@eq_of_beq _ i2 _ _ _ hb) hk
      rw [h1, h2]

theorem Dict.has_eq_isSome {κ ν : Type} [DecidableEq κ] [i : BEq κ] [LawfulBEq κ]
    (d : Dict κ ν) (k : κ) : Dict.has d k = (@List.lookup κ ν i k d).isSome := by
  unfold Dict.has
  rw [lookup_beq_irrel instBEqOfDecidableEq i]

theorem Dict.get_eq_match {κ ν : Type} [DecidableEq κ] [i : BEq κ] [LawfulBEq κ]
    (d : Dict κ ν) (k : κ) :
    Dict.get d k = match @List.lookup κ ν i k d with
      | some v => .ok v
      | none => .error .keyError := by
  unfold Dict.get
  rw [lookup_beq_irrel instBEqOfDecidableEq i]
  cases @List.lookup κ ν i k d <;> rfl

variable {σ τ : Type} [DecidableEq σ] [DecidableEq τ]

/-! ### `DFA.valid` unpacked -/

theorem DFA.isTotal_iff (D : DFA σ τ) :
    D.isTotal = true ↔ ∀ q a, q ∈ D.Q → a ∈ D.Sigma → ∃ r, D.delta.lookup (q, a) = some r := by
  simp only [DFA.isTotal, Dict.has_eq_isSome, List.all_eq_true, Option.isSome_iff_exists]
  constructor
  · intro h q a hq ha; exact h q hq a ha
  · intro h q hq a ha; exact h q a hq ha

/-- the "closed" conjunct of `valid`/`pvalid` -/
theorem DFA.deltaClosed_iff (D : DFA σ τ) :
    D.delta.all (fun e => decide (e.1.1 ∈ D.Q) && decide (e.1.2 ∈ D.Sigma) && decide (e.2 ∈ D.Q)) = true ↔
      ∀ q a r, ((q, a), r) ∈ D.delta → q ∈ D.Q ∧ a ∈ D.Sigma ∧ r ∈ D.Q := by
  simp only [List.all_eq_true, Bool.and_eq_true, decide_eq_true_eq]
  constructor
  · intro h q a r he
    have := h _ he
    exact ⟨this.1.1, this.1.2, this.2⟩
  · intro h e he
    obtain ⟨⟨q, a⟩, r⟩ := e
    have := h q a r he
    exact ⟨⟨this.1, this.2.1⟩, this.2.2⟩

/-- `DFA.valid` as its four conjuncts: `q0 ∈ Q`, `F ⊆ Q`, `δ` closed, `δ` total. -/
theorem DFA.valid_iff (D : DFA σ τ) :
    D.valid = true ↔
      D.q0 ∈ D.Q ∧ (∀ f, f ∈ D.F → f ∈ D.Q) ∧
      (∀ q a r, ((q, a), r) ∈ D.delta → q ∈ D.Q ∧ a ∈ D.Sigma ∧ r ∈ D.Q) ∧
      (∀ q a, q ∈ D.Q → a ∈ D.Sigma → ∃ r, D.delta.lookup (q, a) = some r) := by
  unfold DFA.valid
  rw [Bool.and_eq_true, Bool.and_eq_true, Bool.and_eq_true, DFA.isTotal_iff, DFA.deltaClosed_iff,
    ssubset_iff, decide_eq_true_eq]
  constructor
  · rintro ⟨⟨⟨h1, h2⟩, h3⟩, h4⟩; exact ⟨h1, h2, h3, h4⟩
  · rintro ⟨h1, h2, h3, h4⟩; exact ⟨⟨⟨h1, h2⟩, h3⟩, h4⟩

theorem DFA.valid_q0 {D : DFA σ τ} (h : D.valid = true) : D.q0 ∈ D.Q := ((DFA.valid_iff D).mp h).1

theorem DFA.valid_F {D : DFA σ τ} (h : D.valid = true) {f : σ} (hf : f ∈ D.F) : f ∈ D.Q :=
  ((DFA.valid_iff D).mp h).2.1 f hf

theorem DFA.valid_closed {D : DFA σ τ} (h : D.valid = true) {q : σ} {a : τ} {r : σ}
    (he : ((q, a), r) ∈ D.delta) : q ∈ D.Q ∧ a ∈ D.Sigma ∧ r ∈ D.Q :=
  ((DFA.valid_iff D).mp h).2.2.1 q a r he

theorem DFA.valid_total {D : DFA σ τ} (h : D.valid = true) {q : σ} {a : τ}
    (hq : q ∈ D.Q) (ha : a ∈ D.Sigma) : ∃ r, D.delta.lookup (q, a) = some r :=
  ((DFA.valid_iff D).mp h).2.2.2 q a hq ha

/-- a successful lookup in a valid DFA: source, symbol and target are all declared -/
theorem DFA.valid_lookup {D : DFA σ τ} (h : D.valid = true) {q : σ} {a : τ} {r : σ}
    (hl : D.delta.lookup (q, a) = some r) : q ∈ D.Q ∧ a ∈ D.Sigma ∧ r ∈ D.Q :=
  DFA.valid_closed h (mem_of_lookup_eq_some hl)

/-! ### `next`, `Run`, `runT` -/

theorem DFA.next_of_lookup {D : DFA σ τ} {q : σ} {a : τ} {r : σ}
    (hl : D.delta.lookup (q, a) = some r) : D.next q a = r := by
  simp [DFA.next, hl]

/-- for a valid `D`, `q ∈ Q`, `a ∈ Σ`: the lookup succeeds, lands in `Q`, and `next` returns it -/
theorem DFA.valid_next {D : DFA σ τ} (h : D.valid = true) {q : σ} {a : τ}
    (hq : q ∈ D.Q) (ha : a ∈ D.Sigma) :
    ∃ r, D.delta.lookup (q, a) = some r ∧ r ∈ D.Q ∧ D.next q a = r := by
  obtain ⟨r, hr⟩ := DFA.valid_total h hq ha
  exact ⟨r, hr, (DFA.valid_lookup h hr).2.2, DFA.next_of_lookup hr⟩

theorem DFA.valid_lookup_next {D : DFA σ τ} (h : D.valid = true) {q : σ} {a : τ}
    (hq : q ∈ D.Q) (ha : a ∈ D.Sigma) : D.delta.lookup (q, a) = some (D.next q a) := by
  obtain ⟨r, hr, _, hn⟩ := DFA.valid_next h hq ha
  rw [hn]; exact hr

theorem DFA.valid_next_mem {D : DFA σ τ} (h : D.valid = true) {q : σ} {a : τ}
    (hq : q ∈ D.Q) (ha : a ∈ D.Sigma) : D.next q a ∈ D.Q := by
  obtain ⟨r, _, hr, hn⟩ := DFA.valid_next h hq ha
  rw [hn]; exact hr

@[simp] theorem DFA.runT_nil (D : DFA σ τ) (q : σ) : D.runT q [] = q := rfl

@[simp] theorem DFA.runT_cons (D : DFA σ τ) (q : σ) (a : τ) (w : List τ) :
    D.runT q (a :: w) = D.runT (D.next q a) w := rfl

theorem DFA.runT_append (D : DFA σ τ) (q : σ) (u v : List τ) :
    D.runT q (u ++ v) = D.runT (D.runT q u) v := by
  induction u generalizing q with
  | nil => rfl
  | cons a u ih => simp only [List.cons_append, DFA.runT_cons, ih]

theorem DFA.runT_mem {D : DFA σ τ} (h : D.valid = true) {q : σ} (hq : q ∈ D.Q) {w : List τ}
    (hw : ∀ a, a ∈ w → a ∈ D.Sigma) : D.runT q w ∈ D.Q := by
  induction w generalizing q with
  | nil => exact hq
  | cons a w ih =>
    exact ih (DFA.valid_next_mem h hq (hw a List.mem_cons_self))
      (fun b hb => hw b (List.mem_cons_of_mem _ hb))

/-- `Run` is deterministic and always follows `runT` (no validity needed) -/
theorem DFA.Run.eq_runT {D : DFA σ τ} {q : σ} {w : List τ} {r : σ} (hr : D.Run q w r) :
    r = D.runT q w := by
  induction hr with
  | nil q => rfl
  | cons hl _ ih => rw [DFA.runT_cons, DFA.next_of_lookup hl]; exact ih

theorem DFA.Run.deterministic {D : DFA σ τ} {q : σ} {w : List τ} {r r' : σ}
    (h1 : D.Run q w r) (h2 : D.Run q w r') : r = r' := by
  rw [h1.eq_runT, h2.eq_runT]

theorem DFA.Run_nil_iff {D : DFA σ τ} {q r : σ} : D.Run q [] r ↔ r = q := by
  constructor
  · intro h; cases h; rfl
  · rintro rfl; exact DFA.Run.nil _

theorem DFA.Run_cons_iff {D : DFA σ τ} {q r : σ} {a : τ} {w : List τ} :
    D.Run q (a :: w) r ↔ ∃ q', D.delta.lookup (q, a) = some q' ∧ D.Run q' w r := by
  constructor
  · intro h; cases h with | cons hl hr => exact ⟨_, hl, hr⟩
  · rintro ⟨q', hl, hr⟩; exact DFA.Run.cons hl hr

theorem DFA.Run_append {D : DFA σ τ} {q m r : σ} {u v : List τ}
    (h1 : D.Run q u m) (h2 : D.Run m v r) : D.Run q (u ++ v) r := by
  induction h1 with
  | nil q => exact h2
  | cons hl _ ih => exact DFA.Run.cons hl (ih h2)

/-- `Run` only depends on `δ` -/
theorem DFA.Run_congr {σ τ : Type} [DecidableEq σ] [DecidableEq τ] {D D' : DFA σ τ}
    (hd : D.delta = D'.delta) {q : σ} {w : List τ} {r : σ} :
    D.Run q w r ↔ D'.Run q w r := by
  constructor
  · intro h
    induction h with
    | nil q => exact DFA.Run.nil _
    | cons hl _ ih => exact DFA.Run.cons (hd ▸ hl) ih
  · intro h
    induction h with
    | nil q => exact DFA.Run.nil _
    | cons hl _ ih => exact DFA.Run.cons (hd ▸ hl) ih

/-- in a valid DFA a run from a declared state stays inside `Q` and reads only symbols of `Σ` -/
theorem DFA.Run.mem {D : DFA σ τ} (h : D.valid = true) {q : σ} {w : List τ} {r : σ}
    (hr : D.Run q w r) (hq : q ∈ D.Q) : r ∈ D.Q ∧ ∀ a, a ∈ w → a ∈ D.Sigma := by
  induction hr with
  | nil q => exact ⟨hq, fun a ha => by cases ha⟩
  | cons hl _ ih =>
    obtain ⟨_, ha, hq'⟩ := DFA.valid_lookup h hl
    obtain ⟨hr, hw⟩ := ih hq'
    refine ⟨hr, ?_⟩
    intro b hb
    rcases List.mem_cons.mp hb with rfl | hb
    · exact ha
    · exact hw b hb

/-- totality: the run along `runT` exists -/
theorem DFA.Run_runT {D : DFA σ τ} (h : D.valid = true) {q : σ} (hq : q ∈ D.Q) {w : List τ}
    (hw : ∀ a, a ∈ w → a ∈ D.Sigma) : D.Run q w (D.runT q w) := by
  induction w generalizing q with
  | nil => exact DFA.Run.nil _
  | cons a w ih =>
    have ha := hw a List.mem_cons_self
    exact DFA.Run.cons (DFA.valid_lookup_next h hq ha)
      (ih (DFA.valid_next_mem h hq ha) (fun b hb => hw b (List.mem_cons_of_mem _ hb)))

/-- determinism + totality: for valid `D`, `q ∈ Q`, `w ∈ Σ*`: `Run q w r ↔ r = runT q w` -/
theorem DFA.Run_iff_runT {D : DFA σ τ} (h : D.valid = true) {q : σ} (hq : q ∈ D.Q) {w : List τ}
    (hw : ∀ a, a ∈ w → a ∈ D.Sigma) (r : σ) : D.Run q w r ↔ r = D.runT q w := by
  constructor
  · exact DFA.Run.eq_runT
  · rintro rfl; exact DFA.Run_runT h hq hw

/-- a word with a symbol outside `Σ` has no run in a valid DFA (so it is rejected) -/
theorem DFA.not_Run_of_not_over {D : DFA σ τ} (h : D.valid = true) {q : σ} (hq : q ∈ D.Q)
    {w : List τ} {r : σ} (hw : ¬ ∀ a, a ∈ w → a ∈ D.Sigma) : ¬ D.Run q w r :=
  fun hr => hw (hr.mem h hq).2

/-! ### acceptance -/

/-- `Accepts` only depends on `δ`, `q0` and `F` -/
theorem DFA.Accepts_congr {D D' : DFA σ τ} (hd : D.delta = D'.delta) (hq : D.q0 = D'.q0)
    (hF : ∀ f, f ∈ D.F ↔ f ∈ D'.F) (w : List τ) : D.Accepts w ↔ D'.Accepts w := by
  unfold DFA.Accepts
  constructor
  · rintro ⟨f, hf, hr⟩; exact ⟨f, (hF f).mp hf, hq ▸ (DFA.Run_congr hd).mp hr⟩
  · rintro ⟨f, hf, hr⟩; exact ⟨f, (hF f).mpr hf, hq ▸ (DFA.Run_congr hd).mpr hr⟩

/-- `D.Accepts w ↔ D.runT D.q0 w ∈ D.F` (valid `D`, `w` over `Σ`) -/
theorem DFA.Accepts_iff_runT {D : DFA σ τ} (h : D.valid = true) {w : List τ}
    (hw : ∀ a, a ∈ w → a ∈ D.Sigma) : D.Accepts w ↔ D.runT D.q0 w ∈ D.F := by
  unfold DFA.Accepts
  constructor
  · rintro ⟨f, hf, hr⟩; rw [← hr.eq_runT]; exact hf
  · intro hf; exact ⟨_, hf, DFA.Run_runT h (DFA.valid_q0 h) hw⟩

theorem DFA.Accepts_iff_acceptsT {D : DFA σ τ} (h : D.valid = true) {w : List τ}
    (hw : ∀ a, a ∈ w → a ∈ D.Sigma) : D.Accepts w ↔ D.acceptsT w = true := by
  rw [DFA.Accepts_iff_runT h hw, DFA.acceptsT, decide_eq_true_eq]

/-- one direction without hypotheses -/
theorem DFA.Accepts.runT_mem {D : DFA σ τ} {w : List τ} (h : D.Accepts w) : D.runT D.q0 w ∈ D.F := by
  obtain ⟨f, hf, hr⟩ := h
  rw [← hr.eq_runT]; exact hf

/-- accepted words of a valid DFA are over `Σ` -/
theorem DFA.Accepts.over {D : DFA σ τ} (h : D.valid = true) {w : List τ} (ha : D.Accepts w) :
    ∀ a, a ∈ w → a ∈ D.Sigma := by
  obtain ⟨f, _, hr⟩ := ha
  exact (hr.mem h (DFA.valid_q0 h)).2

/-! ### the executable `run`/`accepts` agree with `runT` on valid input -/

theorem DFA.step_eq_ok {D : DFA σ τ} (h : D.valid = true) {q : σ} {a : τ}
    (hq : q ∈ D.Q) (ha : a ∈ D.Sigma) : D.step q a = .ok (D.next q a) := by
  simp [DFA.step, Dict.get_eq_match, DFA.valid_lookup_next h hq ha]

theorem DFA.run_eq_ok {D : DFA σ τ} (h : D.valid = true) {q : σ} (hq : q ∈ D.Q) {w : List τ}
    (hw : ∀ a, a ∈ w → a ∈ D.Sigma) : D.run q w = .ok (D.runT q w) := by
  induction w generalizing q with
  | nil => rfl
  | cons a w ih =>
    have ha := hw a List.mem_cons_self
    simp only [DFA.run, DFA.step_eq_ok h hq ha, DFA.runT_cons]
    exact ih (DFA.valid_next_mem h hq ha) (fun b hb => hw b (List.mem_cons_of_mem _ hb))

theorem DFA.accepts_eq_ok {D : DFA σ τ} (h : D.valid = true) {w : List τ}
    (hw : ∀ a, a ∈ w → a ∈ D.Sigma) : D.accepts w = .ok (D.acceptsT w) := by
  simp only [DFA.accepts, DFA.run_eq_ok h (DFA.valid_q0 h) hw, DFA.acceptsT]
  rfl

end Gamba
