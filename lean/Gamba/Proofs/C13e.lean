/-
  Gamba.Proofs.C13e — helper lemmas for two end-to-end statements about the library's answer keys:
  (1) `dfa_to_regexp(D)`, printed by `print_regexp_simple` and re-parsed by the reference parser of
      regexp_simple.g4, passes `check_equal_languages` against `D`;
  (2) the minimal-DFA answer keys pass `check_dfa_minimal` for DFAs with clean state names (no
      naming-injectivity hypothesis).
  Main ingredients proved here: every symbol of `D.toRegexp …` is a symbol of some transition of `D`
  (an invariant through `toGnfa`, `rip`, `minimize`, `simplify`); a word of `L(r)` consists of symbols of `r`;
  the two names picked by `dfa_to_gnfa` are fresh and different; two blocks of a Nerode partition with the same
  members are the same block.
-/
import Gamba.Model.GNFA
import Gamba.Model.Check
import Gamba.Model.RegexpText
import Gamba.Spec.Regexp
import Gamba.Proofs.MinBasic
import Gamba.Proofs.C06b
import Gamba.Proofs.C16d
import Gamba.Proofs.C12a
import Gamba.Proofs.C13a
import Gamba.Proofs.C14a
import Gamba.Proofs.C03n
namespace Gamba
namespace C13e

set_option linter.unusedSectionVars false

section Syms
variable {σ τ : Type} [DecidableEq σ] [DecidableEq τ]

/-- every symbol occurring in the expression satisfies `P` -/
def AllSyms (P : τ → Prop) : Regexp τ → Prop
  | .zero | .one => True
  | .sym a => P a
  | .star r => AllSyms P r
  | .sum r s | .cat r s => AllSyms P r ∧ AllSyms P s

theorem AllSyms.mono {P P' : τ → Prop} (hPP : ∀ a, P a → P' a) :
    ∀ (r : Regexp τ), AllSyms P r → AllSyms P' r
  | .zero, _ => trivial
  | .one, _ => trivial
  | .sym a, h => hPP a h
  | .star r, h => AllSyms.mono hPP r h
  | .sum r s, h => ⟨AllSyms.mono hPP r h.1, AllSyms.mono hPP s h.2⟩
  | .cat r s, h => ⟨AllSyms.mono hPP r h.1, AllSyms.mono hPP s h.2⟩

/-- a word of `L(r)` consists of symbols of `r` -/
theorem lang_letters {P : τ → Prop} {r : Regexp τ} {w : List τ} (h : r.Lang w) :
    AllSyms P r → ∀ a, a ∈ w → P a := by
  induction h with
  | one => intro _ a ha; cases ha
  | sym b =>
    intro hs a ha
    rw [List.mem_singleton] at ha
    subst ha
    exact hs
  | sumL _ ih => intro hs; exact ih hs.1
  | sumR _ ih => intro hs; exact ih hs.2
  | cat _ _ ih1 ih2 =>
    intro hs a ha
    rcases List.mem_append.mp ha with ha | ha
    · exact ih1 hs.1 a ha
    · exact ih2 hs.2 a ha
  | starNil => intro _ a ha; cases ha
  | starApp _ _ ih1 ih2 =>
    intro hs a ha
    rcases List.mem_append.mp ha with ha | ha
    · exact ih1 hs a ha
    · exact ih2 hs a ha

/-- `regexp_simplify` introduces no symbol -/
theorem allSyms_simplify {P : τ → Prop} : ∀ (r : Regexp τ), AllSyms P r → AllSyms P r.simplify := by
  intro r
  induction r with
  | zero => intro _; trivial
  | one => intro _; trivial
  | sym a => intro h; exact h
  | star r ih =>
    intro h
    have h1 := ih h
    simp only [Regexp.simplify]
    split <;> simp_all [AllSyms]
  | sum r s ihr ihs =>
    intro h
    have h1 := ihr h.1
    have h2 := ihs h.2
    simp only [Regexp.simplify]
    split <;> simp_all [AllSyms]
  | cat r s ihr ihs =>
    intro h
    have h1 := ihr h.1
    have h2 := ihs h.2
    simp only [Regexp.simplify]
    split <;> simp_all [AllSyms]

/-- all labels stored in a dictionary have symbols in `P` -/
def DictOK (P : τ → Prop) (d : Dict (σ × σ) (Regexp τ)) : Prop := ∀ e, e ∈ d → AllSyms P e.2

theorem dictOK_set {P : τ → Prop} {d : Dict (σ × σ) (Regexp τ)} (hd : DictOK P d) (k : σ × σ) {v : Regexp τ}
    (hv : AllSyms P v) : DictOK P (d.set k v) := by
  induction d with
  | nil =>
    intro e he
    simp only [Dict.set, List.mem_singleton] at he
    subst he
    exact hv
  | cons x d ih =>
    obtain ⟨k', v'⟩ := x
    intro e he
    simp only [Dict.set] at he
    split at he
    · rcases List.mem_cons.mp he with rfl | he
      · exact hv
      · exact hd e (List.mem_cons_of_mem _ he)
    · rcases List.mem_cons.mp he with rfl | he
      · exact hd _ List.mem_cons_self
      · exact ih (fun e he => hd e (List.mem_cons_of_mem _ he)) e he

theorem mem_of_lookup {κ ν : Type} [BEq κ] [LawfulBEq κ] {d : List (κ × ν)} {k : κ} {v : ν}
    (h : d.lookup k = some v) : (k, v) ∈ d := by
  induction d with
  | nil => simp at h
  | cons x d ih =>
    obtain ⟨k', v'⟩ := x
    simp only [List.lookup] at h
    split at h
    · rename_i hk
      have := eq_of_beq hk
      cases h
      subst this
      exact List.mem_cons_self
    · exact List.mem_cons_of_mem _ (ih h)

theorem dictOK_lookup {P : τ → Prop} {d : Dict (σ × σ) (Regexp τ)} (hd : DictOK P d) {k : σ × σ} {v : Regexp τ}
    (h : d.lookup k = some v) : AllSyms P v := hd _ (mem_of_lookup h)

theorem dictOK_lookup_getD {P : τ → Prop} {d : Dict (σ × σ) (Regexp τ)} (hd : DictOK P d) (k : σ × σ) :
    AllSyms P ((d.lookup k).getD .zero) := by
  cases h : d.lookup k with
  | none => trivial
  | some v => exact dictOK_lookup hd h

theorem foldl_inv {α β : Type} (I : β → Prop) (f : β → α → β) (l : List α)
    (hf : ∀ b a, a ∈ l → I b → I (f b a)) (b : β) (hb : I b) : I (l.foldl f b) := by
  induction l generalizing b with
  | nil => exact hb
  | cons a l ih =>
    exact ih (fun b a' ha' => hf b a' (List.mem_cons_of_mem _ ha')) _ (hf b a List.mem_cons_self hb)

/-- the labels of `dfa_to_gnfa(D)` are built from symbols of transitions of `D` -/
theorem toGnfa_ok {P : τ → Prop} (D : DFA σ τ) (qs qa : σ) (hP : ∀ e, e ∈ D.delta → P e.1.2) :
    DictOK P (D.toGnfa qs qa).delta := by
  unfold DFA.toGnfa
  simp only
  apply foldl_inv (DictOK P)
  · intro d e he hd
    split
    · rename_i r hr
      exact dictOK_set hd _ ⟨dictOK_lookup hd hr, hP e he⟩
    · exact dictOK_set hd _ (hP e he)
  · apply foldl_inv (DictOK P)
    · intro d q _ hd
      exact dictOK_set hd _ trivial
    · intro e he
      simp only [List.mem_singleton] at he
      subst he
      trivial

theorem get_ok {P : τ → Prop} {G : GNFA σ τ} (hG : DictOK P G.delta) (p q : σ) : AllSyms P (G.get p q) :=
  dictOK_lookup_getD hG (p, q)

/-- ripping a state introduces no symbol -/
theorem rip_ok {P : τ → Prop} (G : GNFA σ τ) (q : σ) (hG : DictOK P G.delta) : DictOK P (G.rip q).delta := by
  unfold GNFA.rip
  simp only
  apply foldl_inv (DictOK P)
  · intro d qi _ hd
    apply foldl_inv (DictOK P)
    · intro d' qj _ hd'
      apply dictOK_set hd'
      apply allSyms_simplify
      exact ⟨⟨get_ok hG qi q, get_ok hG q q, get_ok hG q qj⟩, dictOK_lookup_getD hd' _⟩
    · exact hd
  · exact hG

theorem minimize_ok {P : τ → Prop} (order : List σ) (G : GNFA σ τ) (hG : DictOK P G.delta) :
    DictOK P (G.minimize order).delta := by
  unfold GNFA.minimize
  exact foldl_inv (fun G => DictOK P G.delta) GNFA.rip order (fun G q _ h => rip_ok G q h) G hG

/-- every symbol of `dfa_to_regexp(D)` labels a transition of `D` -/
theorem toRegexp_ok {P : τ → Prop} (D : DFA σ τ) (qs qa : σ) (order : List σ)
    (hP : ∀ e, e ∈ D.delta → P e.1.2) : AllSyms P (D.toRegexp qs qa order) := by
  unfold DFA.toRegexp
  exact get_ok (minimize_ok order _ (toGnfa_ok D qs qa hP)) qs qa

/-- in a valid DFA the symbols of the transitions are in `Sigma` -/
theorem valid_delta_sym (D : DFA σ τ) (hv : D.valid = true) : ∀ e, e ∈ D.delta → e.1.2 ∈ D.Sigma := by
  intro e he
  unfold DFA.valid at hv
  simp only [Bool.and_eq_true, List.all_eq_true, decide_eq_true_eq] at hv
  exact (hv.1.2 e he).1.2

theorem toRegexp_syms_sigma (D : DFA σ τ) (hv : D.valid = true) (qs qa : σ) (order : List σ) :
    AllSyms (· ∈ D.Sigma) (D.toRegexp qs qa order) :=
  toRegexp_ok D qs qa order (valid_delta_sym D hv)

end Syms

theorem simpleSyms_of_allSyms :
    ∀ (r : Regexp String), AllSyms (fun a => ∃ c : Char, a = String.singleton c ∧ c.isAlpha = true) r → r.SimpleSyms
  | .zero, _ => trivial
  | .one, _ => trivial
  | .sym _, h => h
  | .star r, h => simpleSyms_of_allSyms r h
  | .sum r s, h => ⟨simpleSyms_of_allSyms r h.1, simpleSyms_of_allSyms s h.2⟩
  | .cat r s, h => ⟨simpleSyms_of_allSyms r h.1, simpleSyms_of_allSyms s h.2⟩

/-! ### the names picked by `dfa_to_gnfa` -/

theorem freshState_eq (Q : List String) (hint : String) : ∃ t : String, freshState Q hint = hint ++ t := by
  unfold freshState
  generalize Q.length + 1 = fuel
  generalize 1 = i
  induction fuel generalizing i with
  | zero => exact ⟨toString i, rfl⟩
  | succ fuel ih =>
    unfold freshStateAux
    split
    · exact ih (i + 1)
    · exact ⟨toString i, rfl⟩

theorem start_ne_accept (t t' : String) : "start" ++ t ≠ "accept" ++ t' := by
  intro h
  have h1 := congrArg String.toList h
  rw [String.toList_append, String.toList_append] at h1
  have h2 : ("start" : String).toList = ['s', 't', 'a', 'r', 't'] := by decide
  have h3 : ("accept" : String).toList = ['a', 'c', 'c', 'e', 'p', 't'] := by decide
  rw [h2, h3] at h1
  simp only [List.cons_append, List.cons.injEq] at h1
  exact absurd h1.1 (by decide)

theorem gnfaNames_fresh (Q : List String) :
    (gnfaNames Q).1 ∉ Q ∧ (gnfaNames Q).2 ∉ Q ∧ (gnfaNames Q).1 ≠ (gnfaNames Q).2 := by
  have e1 : ∃ t : String, (gnfaNames Q).1 = "start" ++ t := by
    unfold gnfaNames
    simp only
    split
    · exact freshState_eq Q "start"
    · exact ⟨"", by decide⟩
  have e2 : ∃ t : String, (gnfaNames Q).2 = "accept" ++ t := by
    unfold gnfaNames
    simp only
    split
    · exact freshState_eq Q "accept"
    · exact ⟨"", by decide⟩
  refine ⟨?_, ?_, ?_⟩
  · unfold gnfaNames
    simp only
    split
    · exact freshState_not_mem Q "start"
    · assumption
  · unfold gnfaNames
    simp only
    split
    · exact freshState_not_mem Q "accept"
    · assumption
  · obtain ⟨t, ht⟩ := e1
    obtain ⟨t', ht'⟩ := e2
    rw [ht, ht']
    exact start_ne_accept t t'

/-! ### blocks of a Nerode partition -/

theorem nerode_block_ext {σ τ : Type} [DecidableEq σ] [DecidableEq τ] {D : DFA σ τ} {blocks : List (List σ)}
    (hN : D.IsNerode blocks) {B C : List σ} (hB : B ∈ blocks) (hC : C ∈ blocks)
    (h : ∀ q, q ∈ B ↔ q ∈ C) : B = C := by
  cases hBl : B with
  | nil => exact absurd hBl (hN.1.nonempty B hB)
  | cons p B' =>
    have hp : p ∈ B := hBl ▸ List.mem_cons_self
    rw [← hBl]
    exact hN.1.disj B C hB hC p hp ((h p).mp hp)

/-- for clean state names the set notation is injective on the blocks of a Nerode partition -/
theorem nerode_names_inj {D : DFA String String} {blocks : List (List String)} (hN : D.IsNerode blocks)
    (hn : ∀ q, q ∈ D.Q → CleanName q) :
    ∀ B C, B ∈ blocks → C ∈ blocks → printStateSet B = printStateSet C → B = C := by
  intro B C hB hC h
  apply nerode_block_ext hN hB hC
  exact printStateSet_mem_iff B C (fun q hq => hn q (hN.1.sub B hB q hq))
    (fun q hq => hn q (hN.1.sub C hC q hq)) h

/-! ### example objects -/

/-- a DFA that already has states called `start` and `accept` (odd number of `a`s) -/
def exNamed : DFA String String :=
  { Q := ["start", "accept"], Sigma := ["a"],
    delta := [(("start", "a"), "accept"), (("accept", "a"), "start")], q0 := "start", F := ["accept"] }

/-- a DFA with a two-letter symbol, which the simple syntax cannot express -/
def exLong : DFA String String :=
  { Q := ["p", "q"], Sigma := ["ab"],
    delta := [(("p", "ab"), "q"), (("q", "ab"), "q")], q0 := "p", F := ["q"] }

end C13e
end Gamba
