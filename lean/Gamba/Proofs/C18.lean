/-
  Gamba.Proofs.C18 — helper lemmas for property C18: the three Thompson building blocks
  `NFA.union`, `NFA.concat`, `NFA.repetition` (as repaired) are valid, keep ε and Σ, and recognise
  L1 ∪ L2, L1·L2, L1*;  the fresh-name generator `genFresh`.
-/
import Gamba.Model.NFA
import Gamba.Spec.Automata
import Gamba.Proofs.DFABasic
import Gamba.Proofs.C01
import Gamba.Proofs.NFABasic
import Gamba.Proofs.C14a
namespace Gamba

/-! ### `Dict.set`, `dictUpdate` -/
section DictLemmas
variable {κ ν : Type} [DecidableEq κ]

section
variable [BEq κ] [LawfulBEq κ]

theorem lookup_cons_ite (d : List (κ × ν)) (k1 : κ) (v1 : ν) (k : κ) :
    List.lookup k ((k1, v1) :: d) = if k = k1 then some v1 else d.lookup k := by
  rw [List.lookup_cons]
  by_cases h : k = k1
  · subst h; simp
  · have hb : (k == k1) = false := by simp [h]
    rw [hb]; simp [h]

theorem lookup_set (d : Dict κ ν) (k : κ) (v : ν) (k' : κ) :
    (d.set k v).lookup k' = if k' = k then some v else d.lookup k' := by
  induction d with
  | nil => simp only [Dict.set, lookup_cons_ite, List.lookup_nil]
  | cons e d ih =>
    obtain ⟨k1, v1⟩ := e
    simp only [Dict.set]
    by_cases h1 : k1 = k
    · subst h1
      simp only [if_true, lookup_cons_ite]
      split <;> simp_all
    · simp only [h1, if_false, lookup_cons_ite, ih]
      by_cases h2 : k' = k1
      · subst h2; simp [h1]
      · simp [h2]

theorem lookup_set_self (d : Dict κ ν) (k : κ) (v : ν) : (d.set k v).lookup k = some v := by
  rw [lookup_set]; simp

theorem lookup_set_other (d : Dict κ ν) {k k' : κ} (v : ν) (h : k' ≠ k) :
    (d.set k v).lookup k' = d.lookup k' := by
  rw [lookup_set]; simp [h]

end

theorem mem_set {d : Dict κ ν} {k : κ} {v : ν} {e : κ × ν} (h : e ∈ d.set k v) :
    e = (k, v) ∨ e ∈ d := by
  induction d with
  | nil => simp only [Dict.set, List.mem_singleton] at h; exact Or.inl h
  | cons e1 d ih =>
    obtain ⟨k1, v1⟩ := e1
    simp only [Dict.set] at h
    split at h
    · rcases List.mem_cons.mp h with h | h
      · exact Or.inl h
      · exact Or.inr (List.mem_cons_of_mem _ h)
    · rcases List.mem_cons.mp h with h | h
      · exact Or.inr (h ▸ List.mem_cons_self)
      · rcases ih h with h | h
        · exact Or.inl h
        · exact Or.inr (List.mem_cons_of_mem _ h)

theorem forall_mem_set {P : κ × ν → Prop} {d : Dict κ ν} {k : κ} {v : ν}
    (hd : ∀ e, e ∈ d → P e) (hk : P (k, v)) : ∀ e, e ∈ d.set k v → P e := by
  intro e he
  rcases mem_set he with rfl | he
  · exact hk
  · exact hd e he

theorem keys_set (d : Dict κ ν) (k : κ) (v : ν) :
    (d.set k v).map (·.1) = if k ∈ d.map (·.1) then d.map (·.1) else d.map (·.1) ++ [k] := by
  induction d with
  | nil => simp [Dict.set]
  | cons e d ih =>
    obtain ⟨k1, v1⟩ := e
    simp only [Dict.set]
    by_cases h1 : k1 = k
    · subst h1; simp
    · have h1' : ¬ k = k1 := fun h => h1 h.symm
      simp only [h1, if_false, List.map_cons, ih, List.mem_cons, h1', false_or]
      split <;> simp

theorem nodup_keys_set {d : Dict κ ν} (k : κ) (v : ν) (h : (d.map (·.1)).Nodup) :
    ((d.set k v).map (·.1)).Nodup := by
  rw [keys_set]
  split
  · exact h
  · rename_i hk
    rw [List.nodup_append]
    refine ⟨h, by simp, ?_⟩
    intro a ha b hb hab
    simp only [List.mem_singleton] at hb
    subst hb; subst hab
    exact hk ha

theorem dictUpdate_cons (d : Dict κ ν) (kv : κ × ν) (e : Dict κ ν) :
    dictUpdate d (kv :: e) = dictUpdate (d.set kv.1 kv.2) e := rfl

theorem dictUpdate_nil (d : Dict κ ν) : dictUpdate d [] = d := rfl

section
variable [BEq κ] [LawfulBEq κ]
/-- `d.update(e)` for an `e` without repeated keys: bindings of `e` win.
    (For an `e` with a repeated key the LAST binding would win while `lookup` on `e` returns the FIRST.) -/
theorem lookup_dictUpdate (d e : Dict κ ν) (hn : (e.map (·.1)).Nodup) (k : κ) :
    (dictUpdate d e).lookup k = (e.lookup k).or (d.lookup k) := by
  induction e generalizing d with
  | nil => simp [dictUpdate_nil]
  | cons kv e ih =>
    obtain ⟨k1, v1⟩ := kv
    simp only [List.map_cons, List.nodup_cons] at hn
    rw [dictUpdate_cons, ih _ hn.2, lookup_set, lookup_cons_ite]
    by_cases h : k = k1
    · subst h
      have : e.lookup k = none := by
        rw [lookup_eq_none_iff_forall]
        intro v hv
        exact hn.1 (List.mem_map.mpr ⟨_, hv, rfl⟩)
      simp [this]
    · simp [h]

end

theorem forall_mem_dictUpdate {P : κ × ν → Prop} {d e : Dict κ ν}
    (hd : ∀ x, x ∈ d → P x) (he : ∀ x, x ∈ e → P x) : ∀ x, x ∈ dictUpdate d e → P x := by
  induction e generalizing d with
  | nil => exact hd
  | cons kv e ih =>
    rw [dictUpdate_cons]
    exact ih (forall_mem_set hd (he kv List.mem_cons_self)) (fun x hx => he x (List.mem_cons_of_mem _ hx))

theorem nodup_keys_dictUpdate {d : Dict κ ν} (e : Dict κ ν) (h : (d.map (·.1)).Nodup) :
    ((dictUpdate d e).map (·.1)).Nodup := by
  induction e generalizing d with
  | nil => exact h
  | cons kv e ih => rw [dictUpdate_cons]; exact ih (nodup_keys_set _ _ h)

end DictLemmas

section
variable {σ τ : Type} [DecidableEq σ] [DecidableEq τ]

/-! ### `rekey`, `addTarget` -/

theorem NFA.Succ_iff_mem (N : NFA σ τ) (q : σ) (a : τ) (q' : σ) :
    N.Succ q a q' ↔ q' ∈ (N.delta.lookup (q, a)).getD [] :=
  (N.mem_succ_iff q a q').symm

omit [DecidableEq σ] in
/-- re-keying to the operand's own ε is the identity -/
theorem NFA.rekey_self (N : NFA σ τ) {eps : τ} (he : N.eps = eps) : N.rekey eps = N.delta := by
  unfold NFA.rekey
  have : ∀ e : (σ × τ) × List σ, ((e.1.1, if e.1.2 = N.eps then eps else e.1.2), e.2) = e := by
    intro e
    obtain ⟨⟨q, a⟩, T⟩ := e
    simp only [Prod.mk.injEq, and_true, true_and]
    split
    · rename_i h; rw [h, he]
    · rfl
  simp only [this, List.map_id']

theorem mem_addTarget {d : Dict (σ × τ) (List σ)} {k : σ × τ} {t : σ} {e : (σ × τ) × List σ}
    (h : e ∈ addTarget d k t) : e = (k, sinsert ((d.lookup k).getD []) t) ∨ e ∈ d :=
  mem_set h

theorem mem_lookup_addTarget (d : Dict (σ × τ) (List σ)) (k : σ × τ) (t : σ) (k' : σ × τ) (x : σ) :
    x ∈ ((addTarget d k t).lookup k').getD [] ↔ x ∈ (d.lookup k').getD [] ∨ (k' = k ∧ x = t) := by
  unfold addTarget
  rw [lookup_set]
  by_cases h : k' = k
  · subst h; simp
  · simp [h]

theorem mem_lookup_foldAddTarget (F : List σ) (a : τ) (t : σ) (d : Dict (σ × τ) (List σ))
    (k' : σ × τ) (x : σ) :
    x ∈ ((F.foldl (fun d q => addTarget d (q, a) t) d).lookup k').getD [] ↔
      x ∈ (d.lookup k').getD [] ∨ ((∃ f, f ∈ F ∧ k' = (f, a)) ∧ x = t) := by
  induction F generalizing d with
  | nil => simp
  | cons f F ih =>
    rw [List.foldl_cons, ih, mem_lookup_addTarget]
    constructor
    · rintro ((h | ⟨h1, h2⟩) | ⟨⟨g, hg, h1⟩, h2⟩)
      · exact Or.inl h
      · exact Or.inr ⟨⟨f, List.mem_cons_self, h1⟩, h2⟩
      · exact Or.inr ⟨⟨g, List.mem_cons_of_mem _ hg, h1⟩, h2⟩
    · rintro (h | ⟨⟨g, hg, h1⟩, h2⟩)
      · exact Or.inl (Or.inl h)
      · rcases List.mem_cons.mp hg with rfl | hg
        · exact Or.inl (Or.inr ⟨h1, h2⟩)
        · exact Or.inr ⟨⟨g, hg, h1⟩, h2⟩

theorem nodup_keys_addTarget {d : Dict (σ × τ) (List σ)} (k : σ × τ) (t : σ)
    (h : (d.map (·.1)).Nodup) : ((addTarget d k t).map (·.1)).Nodup :=
  nodup_keys_set _ _ h

theorem nodup_keys_foldAddTarget (F : List σ) (a : τ) (t : σ) {d : Dict (σ × τ) (List σ)}
    (h : (d.map (·.1)).Nodup) : (((F.foldl (fun d q => addTarget d (q, a) t) d)).map (·.1)).Nodup := by
  induction F generalizing d with
  | nil => exact h
  | cons f F ih => rw [List.foldl_cons]; exact ih (nodup_keys_addTarget _ _ h)

/-! ### the "closed" conjunct of validity as an invariant of the dict operations -/

/-- an entry of δ mentions only declared states and symbols -/
def EntryOK (Q : List σ) (Sigma : List τ) (eps : τ) (e : (σ × τ) × List σ) : Prop :=
  e.1.1 ∈ Q ∧ (e.1.2 ∈ Sigma ∨ e.1.2 = eps) ∧ ∀ x, x ∈ e.2 → x ∈ Q

theorem NFA.valid_iff_entryOK (N : NFA σ τ) :
    N.valid = true ↔
      N.q0 ∈ N.Q ∧ (∀ f, f ∈ N.F → f ∈ N.Q) ∧ N.eps ∉ N.Sigma ∧
      ∀ e, e ∈ N.delta → EntryOK N.Q N.Sigma N.eps e := by
  rw [NFA.valid_iff]
  constructor
  · rintro ⟨h1, h2, h3, h4⟩
    exact ⟨h1, h2, h3, fun e he => h4 e.1.1 e.1.2 e.2 he⟩
  · rintro ⟨h1, h2, h3, h4⟩
    exact ⟨h1, h2, h3, fun q a T he => h4 _ he⟩

omit [DecidableEq σ] [DecidableEq τ] in
theorem EntryOK.mono {Q Q' : List σ} {Sigma Sigma' : List τ} {eps : τ} {e : (σ × τ) × List σ}
    (hQ : ∀ q, q ∈ Q → q ∈ Q') (hS : ∀ a, a ∈ Sigma → a ∈ Sigma') (h : EntryOK Q Sigma eps e) :
    EntryOK Q' Sigma' eps e :=
  ⟨hQ _ h.1, h.2.1.imp (hS _) id, fun x hx => hQ _ (h.2.2 x hx)⟩

theorem entryOK_addTarget {Q : List σ} {Sigma : List τ} {eps : τ} {d : Dict (σ × τ) (List σ)}
    (hd : ∀ e, e ∈ d → EntryOK Q Sigma eps e) {q : σ} {a : τ} {t : σ}
    (hq : q ∈ Q) (ha : a ∈ Sigma ∨ a = eps) (ht : t ∈ Q) :
    ∀ e, e ∈ addTarget d (q, a) t → EntryOK Q Sigma eps e := by
  intro e he
  rcases mem_addTarget he with rfl | he
  · refine ⟨hq, ha, ?_⟩
    intro x hx
    simp only [mem_sinsert] at hx
    rcases hx with hx | rfl
    · cases hl : d.lookup (q, a) with
      | none => rw [hl] at hx; simp at hx
      | some T =>
        rw [hl] at hx
        exact (hd _ (mem_of_lookup_eq_some hl)).2.2 x hx
    · exact ht
  · exact hd e he

theorem entryOK_foldAddTarget {Q : List σ} {Sigma : List τ} {eps : τ} (F : List σ) {a : τ} {t : σ}
    (hF : ∀ f, f ∈ F → f ∈ Q) (ha : a ∈ Sigma ∨ a = eps) (ht : t ∈ Q)
    {d : Dict (σ × τ) (List σ)} (hd : ∀ e, e ∈ d → EntryOK Q Sigma eps e) :
    ∀ e, e ∈ F.foldl (fun d q => addTarget d (q, a) t) d → EntryOK Q Sigma eps e := by
  induction F generalizing d with
  | nil => exact hd
  | cons f F ih =>
    rw [List.foldl_cons]
    exact ih (fun g hg => hF g (List.mem_cons_of_mem _ hg))
      (entryOK_addTarget hd (hF f List.mem_cons_self) ha ht)

/-! ### the merged δ of `union` and `concat` -/

/-- `dictUpdate (dictUpdate [] δ1') δ2'` of `nfa_union` / `nfa_concatenation` -/
def mergedDelta (N1 N2 : NFA σ τ) : Dict (σ × τ) (List σ) :=
  dictUpdate (dictUpdate [] (N1.rekey N1.eps)) (N2.rekey N1.eps)

theorem mem_lookup_mergedDelta (N1 N2 : NFA σ τ) (h1 : N1.valid = true) (h2 : N2.valid = true)
    (hk1 : (N1.delta.map (·.1)).Nodup) (hk2 : (N2.delta.map (·.1)).Nodup)
    (hd : ∀ q, q ∈ N1.Q → q ∉ N2.Q) (he : N2.eps = N1.eps) (q : σ) (a : τ) (q' : σ) :
    q' ∈ ((mergedDelta N1 N2).lookup (q, a)).getD [] ↔ N1.Succ q a q' ∨ N2.Succ q a q' := by
  unfold mergedDelta
  rw [N1.rekey_self rfl, N2.rekey_self he, lookup_dictUpdate _ _ hk2, lookup_dictUpdate _ _ hk1,
    NFA.Succ_iff_mem, NFA.Succ_iff_mem]
  cases hl2 : N2.delta.lookup (q, a) with
  | none => simp
  | some T =>
    have hq2 : q ∈ N2.Q := (NFA.valid_closed h2 (mem_of_lookup_eq_some hl2)).1
    have hl1 : N1.delta.lookup (q, a) = none := by
      cases hl1 : N1.delta.lookup (q, a) with
      | none => rfl
      | some T1 => exact absurd hq2 (hd q (NFA.valid_closed h1 (mem_of_lookup_eq_some hl1)).1)
    simp [hl1]

theorem entryOK_mergedDelta (N1 N2 : NFA σ τ) (h1 : N1.valid = true) (h2 : N2.valid = true)
    (he : N2.eps = N1.eps) {Q : List σ} (hQ1 : ∀ q, q ∈ N1.Q → q ∈ Q) (hQ2 : ∀ q, q ∈ N2.Q → q ∈ Q) :
    ∀ e, e ∈ mergedDelta N1 N2 → EntryOK Q (sunion N1.Sigma N2.Sigma) N1.eps e := by
  unfold mergedDelta
  rw [N1.rekey_self rfl, N2.rekey_self he]
  apply forall_mem_dictUpdate
  · apply forall_mem_dictUpdate
    · intro x hx; cases hx
    · intro e he1
      exact ((NFA.valid_iff_entryOK N1).mp h1).2.2.2 e he1 |>.mono hQ1
        (fun a ha => mem_sunion.mpr (Or.inl ha))
  · intro e he2
    have := ((NFA.valid_iff_entryOK N2).mp h2).2.2.2 e he2
    rw [he] at this
    exact this.mono hQ2 (fun a ha => mem_sunion.mpr (Or.inr ha))

theorem nodup_keys_mergedDelta (N1 N2 : NFA σ τ) : ((mergedDelta N1 N2).map (·.1)).Nodup :=
  nodup_keys_dictUpdate _ (nodup_keys_dictUpdate _ (by simp))

/-! ### union -/

/-- the automaton built by `nfa_union` before the validity check -/
def NFA.unionRaw (N1 N2 : NFA σ τ) (q0 : σ) : NFA σ τ :=
  { Q := sinsert (sunion N1.Q N2.Q) q0, Sigma := sunion N1.Sigma N2.Sigma,
    delta := (mergedDelta N1 N2).set (q0, N1.eps) (dedup [N1.q0, N2.q0]),
    q0 := q0, F := sunion N1.F N2.F, eps := N1.eps }

theorem NFA.union_eq (N1 N2 : NFA σ τ) (q0 : σ) :
    N1.union N2 q0 = if !sdisjoint N1.Q N2.Q then .error .assertion else (N1.unionRaw N2 q0).checked := rfl

theorem NFA.unionRaw_valid (N1 N2 : NFA σ τ) (q0 : σ) (h1 : N1.valid = true) (h2 : N2.valid = true)
    (he : N2.eps = N1.eps) : (N1.unionRaw N2 q0).valid = true := by
  rw [NFA.valid_iff_entryOK]
  refine ⟨?_, ?_, ?_, ?_⟩
  · simp [NFA.unionRaw]
  · intro f hf
    simp only [NFA.unionRaw, mem_sunion, mem_sinsert] at hf ⊢
    rcases hf with hf | hf
    · exact Or.inl (Or.inl (NFA.valid_F h1 hf))
    · exact Or.inl (Or.inr (NFA.valid_F h2 hf))
  · simp only [NFA.unionRaw, mem_sunion, not_or]
    exact ⟨NFA.valid_eps h1, he ▸ NFA.valid_eps h2⟩
  · simp only [NFA.unionRaw]
    apply forall_mem_set
    · exact entryOK_mergedDelta N1 N2 h1 h2 he
        (fun q hq => mem_sinsert.mpr (Or.inl (mem_sunion.mpr (Or.inl hq))))
        (fun q hq => mem_sinsert.mpr (Or.inl (mem_sunion.mpr (Or.inr hq))))
    · refine ⟨by simp, Or.inr rfl, ?_⟩
      intro x hx
      simp only [mem_dedup, List.mem_cons, List.not_mem_nil, or_false] at hx
      simp only [mem_sinsert, mem_sunion]
      rcases hx with rfl | rfl
      · exact Or.inl (Or.inl (NFA.valid_q0 h1))
      · exact Or.inl (Or.inr (NFA.valid_q0 h2))

theorem NFA.unionRaw_Succ_iff (N1 N2 : NFA σ τ) (q0 : σ) (h1 : N1.valid = true) (h2 : N2.valid = true)
    (hk1 : (N1.delta.map (·.1)).Nodup) (hk2 : (N2.delta.map (·.1)).Nodup)
    (hd : ∀ q, q ∈ N1.Q → q ∉ N2.Q) (hq1 : q0 ∉ N1.Q) (hq2 : q0 ∉ N2.Q) (he : N2.eps = N1.eps)
    (q : σ) (a : τ) (q' : σ) :
    (N1.unionRaw N2 q0).Succ q a q' ↔
      N1.Succ q a q' ∨ N2.Succ q a q' ∨ (q = q0 ∧ a = N1.eps ∧ (q' = N1.q0 ∨ q' = N2.q0)) := by
  rw [NFA.Succ_iff_mem]
  simp only [NFA.unionRaw]
  rw [lookup_set]
  by_cases hk : (q, a) = (q0, N1.eps)
  · rw [if_pos hk]
    simp only [Prod.mk.injEq] at hk
    obtain ⟨rfl, rfl⟩ := hk
    simp only [Option.getD_some, mem_dedup, List.mem_cons, List.not_mem_nil, or_false, true_and]
    constructor
    · intro h; exact Or.inr (Or.inr h)
    · rintro (h | h | h)
      · exact absurd (NFA.valid_Succ_src h1 h) hq1
      · exact absurd (NFA.valid_Succ_src h2 h) hq2
      · exact h
  · rw [if_neg hk, mem_lookup_mergedDelta N1 N2 h1 h2 hk1 hk2 hd he]
    simp only [Prod.mk.injEq] at hk
    constructor
    · rintro (h | h)
      · exact Or.inl h
      · exact Or.inr (Or.inl h)
    · rintro (h | h | ⟨h3, h4, _⟩)
      · exact Or.inl h
      · exact Or.inr h
      · exact absurd ⟨h3, h4⟩ hk

/-- language of an automaton whose transition relation is that of a Thompson union -/
theorem union_lang_of_Succ (N1 N2 N : NFA σ τ) (q0 : σ) (h1 : N1.valid = true) (h2 : N2.valid = true)
    (hd : ∀ q, q ∈ N1.Q → q ∉ N2.Q) (hq1 : q0 ∉ N1.Q) (hq2 : q0 ∉ N2.Q) (he : N2.eps = N1.eps)
    (heN : N.eps = N1.eps) (hq0 : N.q0 = q0) (hF : ∀ f, f ∈ N.F ↔ f ∈ N1.F ∨ f ∈ N2.F)
    (hS : ∀ q a q', N.Succ q a q' ↔
      N1.Succ q a q' ∨ N2.Succ q a q' ∨ (q = q0 ∧ a = N1.eps ∧ (q' = N1.q0 ∨ q' = N2.q0)))
    (w : List τ) : N.Accepts w ↔ (N1.Accepts w ∨ N2.Accepts w) := by
  have hconf1 : ∀ q a q', q ∈ N1.Q → N.Succ q a q' → N1.Succ q a q' ∧ q' ∈ N1.Q := by
    intro q a q' hq hs
    rcases (hS q a q').mp hs with h | h | ⟨h, _⟩
    · exact ⟨h, NFA.valid_Succ h1 h⟩
    · exact absurd (NFA.valid_Succ_src h2 h) (hd q hq)
    · exact absurd (h ▸ hq) hq1
  have hconf2 : ∀ q a q', q ∈ N2.Q → N.Succ q a q' → N2.Succ q a q' ∧ q' ∈ N2.Q := by
    intro q a q' hq hs
    rcases (hS q a q').mp hs with h | h | ⟨h, _⟩
    · exact absurd hq (hd q (NFA.valid_Succ_src h1 h))
    · exact ⟨h, NFA.valid_Succ h2 h⟩
    · exact absurd (h ▸ hq) hq2
  constructor
  · rintro ⟨f, hf, hr⟩
    rw [hq0] at hr
    have hfQ : f ≠ q0 := by
      rintro rfl
      rcases (hF _).mp hf with h | h
      · exact hq1 (NFA.valid_F h1 h)
      · exact hq2 (NFA.valid_F h2 h)
    have key : ∀ q', N.Succ q0 N1.eps q' → N.Run q' w f → N1.Accepts w ∨ N2.Accepts w := by
      intro q' hs hr'
      rcases (hS _ _ _).mp hs with h | h | ⟨_, _, h | h⟩
      · exact absurd (NFA.valid_Succ_src h1 h) hq1
      · exact absurd (NFA.valid_Succ_src h2 h) hq2
      · subst h
        obtain ⟨hr1, hfQ1⟩ := NFA.Run.confined heN (· ∈ N1.Q) hconf1 hr' (NFA.valid_q0 h1)
        rcases (hF f).mp hf with hf1 | hf2
        · exact Or.inl ⟨f, hf1, hr1⟩
        · exact absurd (NFA.valid_F h2 hf2) (hd f hfQ1)
      · subst h
        obtain ⟨hr2, hfQ2⟩ := NFA.Run.confined (heN.trans he.symm) (· ∈ N2.Q) hconf2 hr' (NFA.valid_q0 h2)
        rcases (hF f).mp hf with hf1 | hf2
        · exact absurd hfQ2 (hd f (NFA.valid_F h1 hf1))
        · exact Or.inr ⟨f, hf2, hr2⟩
    cases hr with
    | nil => exact absurd rfl hfQ
    | eps hs hr' => rw [heN] at hs; exact key _ hs hr'
    | sym ha hs hr' =>
      rcases (hS _ _ _).mp hs with h | h | ⟨_, h, _⟩
      · exact absurd (NFA.valid_Succ_src h1 h) hq1
      · exact absurd (NFA.valid_Succ_src h2 h) hq2
      · exact absurd (h.trans heN.symm) ha
  · rintro (⟨f, hf, hr⟩ | ⟨f, hf, hr⟩)
    · refine ⟨f, (hF f).mpr (Or.inl hf), ?_⟩
      rw [hq0]
      refine NFA.Run.eps ((hS _ _ _).mpr (Or.inr (Or.inr ⟨rfl, heN, Or.inl rfl⟩))) ?_
      exact NFA.Run.mono heN (fun q a q' h => (hS q a q').mpr (Or.inl h)) hr
    · refine ⟨f, (hF f).mpr (Or.inr hf), ?_⟩
      rw [hq0]
      refine NFA.Run.eps ((hS _ _ _).mpr (Or.inr (Or.inr ⟨rfl, heN, Or.inr rfl⟩))) ?_
      exact NFA.Run.mono (heN.trans he.symm) (fun q a q' h => (hS q a q').mpr (Or.inr (Or.inl h))) hr

theorem NFA.unionRaw_keys_nodup (N1 N2 : NFA σ τ) (q0 : σ) :
    ((N1.unionRaw N2 q0).delta.map (·.1)).Nodup :=
  nodup_keys_set _ _ (nodup_keys_mergedDelta N1 N2)

theorem NFA.union_ok (N1 N2 : NFA σ τ) (q0 : σ) (h1 : N1.valid = true) (h2 : N2.valid = true)
    (hd : ∀ q, q ∈ N1.Q → q ∉ N2.Q) (he : N2.eps = N1.eps) :
    N1.union N2 q0 = .ok (N1.unionRaw N2 q0) := by
  rw [NFA.union_eq, sdisjoint_iff.mpr hd]
  simp only [Bool.not_true, Bool.false_eq_true, if_false, NFA.checked,
    NFA.unionRaw_valid N1 N2 q0 h1 h2 he, if_true]

/-! ### concatenation -/

/-- the automaton built by `nfa_concatenation` before the validity check -/
def NFA.concatRaw (N1 N2 : NFA σ τ) : NFA σ τ :=
  { Q := sinsert (sunion N1.Q N2.Q) N1.q0, Sigma := sunion N1.Sigma N2.Sigma,
    delta := N1.F.foldl (fun d q => addTarget d (q, N1.eps) N2.q0) (mergedDelta N1 N2),
    q0 := N1.q0, F := N2.F, eps := N1.eps }

theorem NFA.concat_eq (N1 N2 : NFA σ τ) :
    N1.concat N2 = if !sdisjoint N1.Q N2.Q then .error .assertion else (N1.concatRaw N2).checked := rfl

theorem NFA.concatRaw_valid (N1 N2 : NFA σ τ) (h1 : N1.valid = true) (h2 : N2.valid = true)
    (he : N2.eps = N1.eps) : (N1.concatRaw N2).valid = true := by
  have hQ1 : ∀ q, q ∈ N1.Q → q ∈ sinsert (sunion N1.Q N2.Q) N1.q0 :=
    fun q hq => mem_sinsert.mpr (Or.inl (mem_sunion.mpr (Or.inl hq)))
  have hQ2 : ∀ q, q ∈ N2.Q → q ∈ sinsert (sunion N1.Q N2.Q) N1.q0 :=
    fun q hq => mem_sinsert.mpr (Or.inl (mem_sunion.mpr (Or.inr hq)))
  rw [NFA.valid_iff_entryOK]
  refine ⟨?_, ?_, ?_, ?_⟩
  · simp [NFA.concatRaw]
  · intro f hf
    exact hQ2 f (NFA.valid_F h2 hf)
  · simp only [NFA.concatRaw, mem_sunion, not_or]
    exact ⟨NFA.valid_eps h1, he ▸ NFA.valid_eps h2⟩
  · simp only [NFA.concatRaw]
    exact entryOK_foldAddTarget N1.F (fun f hf => hQ1 f (NFA.valid_F h1 hf)) (Or.inr rfl)
      (hQ2 _ (NFA.valid_q0 h2)) (entryOK_mergedDelta N1 N2 h1 h2 he hQ1 hQ2)

theorem NFA.concat_ok (N1 N2 : NFA σ τ) (h1 : N1.valid = true) (h2 : N2.valid = true)
    (hd : ∀ q, q ∈ N1.Q → q ∉ N2.Q) (he : N2.eps = N1.eps) :
    N1.concat N2 = .ok (N1.concatRaw N2) := by
  rw [NFA.concat_eq, sdisjoint_iff.mpr hd]
  simp only [Bool.not_true, Bool.false_eq_true, if_false, NFA.checked,
    NFA.concatRaw_valid N1 N2 h1 h2 he, if_true]

theorem NFA.concatRaw_Succ_iff (N1 N2 : NFA σ τ) (h1 : N1.valid = true) (h2 : N2.valid = true)
    (hk1 : (N1.delta.map (·.1)).Nodup) (hk2 : (N2.delta.map (·.1)).Nodup)
    (hd : ∀ q, q ∈ N1.Q → q ∉ N2.Q) (he : N2.eps = N1.eps) (q : σ) (a : τ) (q' : σ) :
    (N1.concatRaw N2).Succ q a q' ↔
      N1.Succ q a q' ∨ N2.Succ q a q' ∨ (q ∈ N1.F ∧ a = N1.eps ∧ q' = N2.q0) := by
  rw [NFA.Succ_iff_mem]
  simp only [NFA.concatRaw]
  rw [mem_lookup_foldAddTarget, mem_lookup_mergedDelta N1 N2 h1 h2 hk1 hk2 hd he]
  constructor
  · rintro ((h | h) | ⟨⟨f, hf, hk⟩, h⟩)
    · exact Or.inl h
    · exact Or.inr (Or.inl h)
    · simp only [Prod.mk.injEq] at hk
      obtain ⟨rfl, rfl⟩ := hk
      exact Or.inr (Or.inr ⟨hf, rfl, h⟩)
  · rintro (h | h | ⟨hf, rfl, h⟩)
    · exact Or.inl (Or.inl h)
    · exact Or.inl (Or.inr h)
    · exact Or.inr ⟨⟨q, hf, rfl⟩, h⟩

/-- language of an automaton whose transition relation is that of a Thompson concatenation -/
theorem concat_lang_of_Succ (N1 N2 N : NFA σ τ) (h1 : N1.valid = true) (h2 : N2.valid = true)
    (hd : ∀ q, q ∈ N1.Q → q ∉ N2.Q) (he : N2.eps = N1.eps)
    (heN : N.eps = N1.eps) (hq0 : N.q0 = N1.q0) (hF : ∀ f, f ∈ N.F ↔ f ∈ N2.F)
    (hS : ∀ q a q', N.Succ q a q' ↔
      N1.Succ q a q' ∨ N2.Succ q a q' ∨ (q ∈ N1.F ∧ a = N1.eps ∧ q' = N2.q0))
    (w : List τ) : N.Accepts w ↔ ∃ u v, w = u ++ v ∧ N1.Accepts u ∧ N2.Accepts v := by
  have hconf2 : ∀ q a q', q ∈ N2.Q → N.Succ q a q' → N2.Succ q a q' ∧ q' ∈ N2.Q := by
    intro q a q' hq hs
    rcases (hS q a q').mp hs with h | h | ⟨h, _⟩
    · exact absurd hq (hd q (NFA.valid_Succ_src h1 h))
    · exact ⟨h, NFA.valid_Succ h2 h⟩
    · exact absurd hq (hd q (NFA.valid_F h1 h))
  have key : ∀ q w r, N.Run q w r → q ∈ N1.Q → r ∈ N2.Q →
      ∃ u v f1, w = u ++ v ∧ f1 ∈ N1.F ∧ N1.Run q u f1 ∧ N2.Run N2.q0 v r := by
    intro q w r hr
    induction hr with
    | nil q => intro hq1 hq2; exact absurd hq2 (hd q hq1)
    | @eps q q' r w hs hr' ih =>
      intro hq1 hr2
      rcases (hS _ _ _).mp hs with h | h | ⟨hf, _, h⟩
      · obtain ⟨u, v, f1, hw, hf1, hu, hv⟩ := ih (NFA.valid_Succ h1 h) hr2
        exact ⟨u, v, f1, hw, hf1, NFA.Run.eps (heN ▸ h) hu, hv⟩
      · exact absurd (NFA.valid_Succ_src h2 h) (hd q hq1)
      · subst h
        obtain ⟨hv, _⟩ := NFA.Run.confined (heN.trans he.symm) (· ∈ N2.Q) hconf2 hr' (NFA.valid_q0 h2)
        exact ⟨[], w, q, rfl, hf, NFA.Run.nil _, hv⟩
    | @sym q q' r a w ha hs hr' ih =>
      intro hq1 hr2
      rcases (hS _ _ _).mp hs with h | h | ⟨_, h, _⟩
      · obtain ⟨u, v, f1, hw, hf1, hu, hv⟩ := ih (NFA.valid_Succ h1 h) hr2
        exact ⟨a :: u, v, f1, by rw [hw]; rfl, hf1, NFA.Run.sym (heN ▸ ha) h hu, hv⟩
      · exact absurd (NFA.valid_Succ_src h2 h) (hd q hq1)
      · exact absurd (h.trans heN.symm) ha
  constructor
  · rintro ⟨f, hf, hr⟩
    rw [hq0] at hr
    have hf2 := (hF f).mp hf
    obtain ⟨u, v, f1, hw, hf1, hu, hv⟩ := key _ _ _ hr (NFA.valid_q0 h1) (NFA.valid_F h2 hf2)
    exact ⟨u, v, hw, ⟨f1, hf1, hu⟩, ⟨f, hf2, hv⟩⟩
  · rintro ⟨u, v, rfl, ⟨f1, hf1, hu⟩, ⟨f, hf, hv⟩⟩
    refine ⟨f, (hF f).mpr hf, ?_⟩
    rw [hq0]
    refine NFA.Run.append (NFA.Run.mono heN (fun q a q' h => (hS q a q').mpr (Or.inl h)) hu) ?_
    refine NFA.Run.eps ((hS _ _ _).mpr (Or.inr (Or.inr ⟨hf1, heN, rfl⟩))) ?_
    exact NFA.Run.mono (heN.trans he.symm) (fun q a q' h => (hS q a q').mpr (Or.inr (Or.inl h))) hv

theorem NFA.concatRaw_keys_nodup (N1 N2 : NFA σ τ) :
    ((N1.concatRaw N2).delta.map (·.1)).Nodup :=
  nodup_keys_foldAddTarget _ _ _ (nodup_keys_mergedDelta N1 N2)

/-! ### repetition -/

/-- the automaton built by `nfa_repetition` before the validity check -/
def NFA.repetitionRaw (N : NFA σ τ) (q0 : σ) : NFA σ τ :=
  { Q := sinsert N.Q q0, Sigma := N.Sigma,
    delta := ((sinsert N.F q0).foldl (fun d q => addTarget d (q, N.eps) N.q0)
                (dictUpdate [] (N.rekey N.eps))).set (q0, N.eps) [N.q0],
    q0 := q0, F := sinsert N.F q0, eps := N.eps }

theorem NFA.repetition_eq (N : NFA σ τ) (q0 : σ) :
    N.repetition q0 = (N.repetitionRaw q0).checked := rfl

theorem NFA.repetitionRaw_valid (N : NFA σ τ) (q0 : σ) (h1 : N.valid = true) :
    (N.repetitionRaw q0).valid = true := by
  have hQ : ∀ q, q ∈ N.Q → q ∈ sinsert N.Q q0 := fun q hq => mem_sinsert.mpr (Or.inl hq)
  rw [NFA.valid_iff_entryOK]
  refine ⟨?_, ?_, ?_, ?_⟩
  · simp [NFA.repetitionRaw]
  · intro f hf
    simp only [NFA.repetitionRaw, mem_sinsert] at hf ⊢
    exact hf.imp (NFA.valid_F h1) id
  · exact (NFA.valid_eps h1 : N.eps ∉ N.Sigma)
  · simp only [NFA.repetitionRaw]
    apply forall_mem_set
    · apply entryOK_foldAddTarget
      · intro f hf
        simp only [mem_sinsert] at hf ⊢
        exact hf.imp (NFA.valid_F h1) id
      · exact Or.inr rfl
      · exact hQ _ (NFA.valid_q0 h1)
      · rw [N.rekey_self rfl]
        apply forall_mem_dictUpdate
        · intro x hx; cases hx
        · intro e he1
          exact (((NFA.valid_iff_entryOK N).mp h1).2.2.2 e he1).mono hQ (fun a ha => ha)
    · exact ⟨by simp, Or.inr rfl, fun x hx => by
        simp only [List.mem_singleton] at hx; subst hx; exact hQ _ (NFA.valid_q0 h1)⟩

theorem NFA.repetition_ok (N : NFA σ τ) (q0 : σ) (h1 : N.valid = true) :
    N.repetition q0 = .ok (N.repetitionRaw q0) := by
  rw [NFA.repetition_eq]
  simp only [NFA.checked, NFA.repetitionRaw_valid N q0 h1, if_true]

theorem NFA.repetitionRaw_Succ_iff (N : NFA σ τ) (q0 : σ) (h1 : N.valid = true)
    (hk : (N.delta.map (·.1)).Nodup) (hq : q0 ∉ N.Q) (q : σ) (a : τ) (q' : σ) :
    (N.repetitionRaw q0).Succ q a q' ↔
      N.Succ q a q' ∨ ((q ∈ N.F ∨ q = q0) ∧ a = N.eps ∧ q' = N.q0) := by
  rw [NFA.Succ_iff_mem]
  simp only [NFA.repetitionRaw]
  rw [lookup_set]
  by_cases hkey : (q, a) = (q0, N.eps)
  · rw [if_pos hkey]
    simp only [Prod.mk.injEq] at hkey
    obtain ⟨rfl, rfl⟩ := hkey
    simp only [Option.getD_some, List.mem_singleton]
    constructor
    · intro h; exact Or.inr ⟨Or.inr trivial, trivial, h⟩
    · rintro (h | ⟨_, _, h⟩)
      · exact absurd (NFA.valid_Succ_src h1 h) hq
      · exact h
  · rw [if_neg hkey, mem_lookup_foldAddTarget, N.rekey_self rfl, lookup_dictUpdate _ _ hk,
      List.lookup_nil, Option.or_none, ← NFA.Succ_iff_mem]
    constructor
    · rintro (h | ⟨⟨f, hf, hk'⟩, h⟩)
      · exact Or.inl h
      · simp only [Prod.mk.injEq] at hk'
        obtain ⟨rfl, rfl⟩ := hk'
        exact Or.inr ⟨mem_sinsert.mp hf, rfl, h⟩
    · rintro (h | ⟨hf, rfl, h⟩)
      · exact Or.inl h
      · exact Or.inr ⟨⟨q, mem_sinsert.mpr hf, rfl⟩, h⟩

/-- language of an automaton whose transition relation is that of a Thompson repetition -/
theorem repetition_lang_of_Succ (N1 N : NFA σ τ) (q0 : σ) (h1 : N1.valid = true) (hq : q0 ∉ N1.Q)
    (heN : N.eps = N1.eps) (hq0 : N.q0 = q0) (hF : ∀ f, f ∈ N.F ↔ f ∈ N1.F ∨ f = q0)
    (hS : ∀ q a q', N.Succ q a q' ↔
      N1.Succ q a q' ∨ ((q ∈ N1.F ∨ q = q0) ∧ a = N1.eps ∧ q' = N1.q0))
    (w : List τ) :
    N.Accepts w ↔ ∃ ws : List (List τ), w = ws.flatten ∧ ∀ u, u ∈ ws → N1.Accepts u := by
  have hinv : ∀ q a q', q ∈ N1.Q → N.Succ q a q' → q' ∈ N1.Q := by
    intro q a q' _ hs
    rcases (hS q a q').mp hs with h | ⟨_, _, h⟩
    · exact NFA.valid_Succ h1 h
    · exact h ▸ NFA.valid_q0 h1
  have key : ∀ q w f, N.Run q w f → q ∈ N1.Q → f ∈ N1.F →
      ∃ u ws f1, w = u ++ List.flatten ws ∧ f1 ∈ N1.F ∧ N1.Run q u f1 ∧ ∀ v, v ∈ ws → N1.Accepts v := by
    intro q w f hr
    induction hr with
    | nil q =>
      intro _ hf
      exact ⟨[], [], q, rfl, hf, NFA.Run.nil _, fun v hv => by cases hv⟩
    | @eps q q' r w hs hr' ih =>
      intro hq1 hf
      rcases (hS _ _ _).mp hs with h | ⟨hqf, _, h⟩
      · obtain ⟨u, ws, f1, hw, hf1, hu, hws⟩ := ih (NFA.valid_Succ h1 h) hf
        exact ⟨u, ws, f1, hw, hf1, NFA.Run.eps (heN ▸ h) hu, hws⟩
      · subst h
        have hqF : q ∈ N1.F := by
          rcases hqf with h | h
          · exact h
          · exact absurd (h ▸ hq1) hq
        obtain ⟨u, ws, f1, hw, hf1, hu, hws⟩ := ih (NFA.valid_q0 h1) hf
        refine ⟨[], u :: ws, q, by rw [hw]; simp, hqF, NFA.Run.nil _, ?_⟩
        intro v hv
        rcases List.mem_cons.mp hv with rfl | hv
        · exact ⟨f1, hf1, hu⟩
        · exact hws v hv
    | @sym q q' r a w ha hs hr' ih =>
      intro hq1 hf
      rcases (hS _ _ _).mp hs with h | ⟨_, h, _⟩
      · obtain ⟨u, ws, f1, hw, hf1, hu, hws⟩ := ih (NFA.valid_Succ h1 h) hf
        exact ⟨a :: u, ws, f1, by rw [hw]; rfl, hf1, NFA.Run.sym (heN ▸ ha) h hu, hws⟩
      · exact absurd (h.trans heN.symm) ha
  have back : ∀ (ws : List (List τ)) (p : σ), (∀ u, u ∈ ws → N1.Accepts u) → (p ∈ N1.F ∨ p = q0) →
      ∃ f, (f ∈ N1.F ∨ f = q0) ∧ N.Run p ws.flatten f := by
    intro ws
    induction ws with
    | nil => intro p _ hp; exact ⟨p, hp, NFA.Run.nil _⟩
    | cons u ws ih =>
      intro p hws hp
      obtain ⟨f1, hf1, hu⟩ := hws u List.mem_cons_self
      obtain ⟨f, hf, hr⟩ := ih f1 (fun v hv => hws v (List.mem_cons_of_mem _ hv)) (Or.inl hf1)
      refine ⟨f, hf, ?_⟩
      rw [List.flatten_cons]
      refine NFA.Run.eps ((hS _ _ _).mpr (Or.inr ⟨hp, heN, rfl⟩)) ?_
      exact NFA.Run.append (NFA.Run.mono heN (fun q a q' h => (hS q a q').mpr (Or.inl h)) hu) hr
  constructor
  · rintro ⟨f, hf, hr⟩
    rw [hq0] at hr
    cases hr with
    | nil => exact ⟨[], rfl, fun u hu => by cases hu⟩
    | eps hs hr' =>
      rcases (hS _ _ _).mp hs with h | ⟨_, _, h⟩
      · exact absurd (NFA.valid_Succ_src h1 h) hq
      · subst h
        have hfQ : f ∈ N1.Q := NFA.Run.invariant (· ∈ N1.Q) hinv hr' (NFA.valid_q0 h1)
        have hfF : f ∈ N1.F := by
          rcases (hF f).mp hf with h | h
          · exact h
          · exact absurd (h ▸ hfQ) hq
        obtain ⟨u, ws, f1, hw, hf1, hu, hws⟩ := key _ _ _ hr' (NFA.valid_q0 h1) hfF
        refine ⟨u :: ws, by rw [hw]; simp, ?_⟩
        intro v hv
        rcases List.mem_cons.mp hv with rfl | hv
        · exact ⟨f1, hf1, hu⟩
        · exact hws v hv
    | sym ha hs hr' =>
      rcases (hS _ _ _).mp hs with h | ⟨_, h, _⟩
      · exact absurd (NFA.valid_Succ_src h1 h) hq
      · exact absurd (h.trans heN.symm) ha
  · rintro ⟨ws, rfl, hws⟩
    obtain ⟨f, hf, hr⟩ := back ws q0 hws (Or.inr rfl)
    exact ⟨f, (hF f).mpr hf, hq0 ▸ hr⟩

theorem NFA.repetitionRaw_keys_nodup (N : NFA σ τ) (q0 : σ) :
    ((N.repetitionRaw q0).delta.map (·.1)).Nodup :=
  nodup_keys_set _ _ (nodup_keys_foldAddTarget _ _ _ (nodup_keys_dictUpdate _ (by simp)))

end

/-! ### `genFresh` -/

theorem genFreshAux_fst (Q : List String) (fuel i : Nat) :
    (genFreshAux Q fuel i).1 = freshStateAux Q "q" fuel i := by
  induction fuel generalizing i with
  | zero => rfl
  | succ fuel ih =>
    unfold genFreshAux freshStateAux
    split
    · exact ih (i + 1)
    · rfl

theorem genFreshAux_snd (Q : List String) (fuel i : Nat) : i < (genFreshAux Q fuel i).2 := by
  induction fuel generalizing i with
  | zero => simp [genFreshAux]
  | succ fuel ih =>
    unfold genFreshAux
    split
    · exact Nat.lt_trans (Nat.lt_succ_self i) (ih (i + 1))
    · simp

theorem genFresh_not_mem (Q : List String) (i : Nat) : (genFresh Q i).1 ∉ Q := by
  intro h
  unfold genFresh at h
  rw [genFreshAux_fst] at h
  have hall := freshStateAux_mem Q "q" (Q.length + 1) i h
  let cands := (List.range' i (Q.length + 2)).map (fun j => "q" ++ toString j)
  have hsub : cands ⊆ Q := by
    intro s hs
    obtain ⟨j, hj, rfl⟩ := List.mem_map.mp hs
    rw [List.mem_range'_1] at hj
    exact hall j hj.1 (by omega)
  have hnd : cands.Nodup := by
    refine List.Pairwise.map (R := (· ≠ ·)) _ ?_ (List.nodup_range' (s := i) (n := Q.length + 2))
    intro a b hab he
    exact hab (nat_toString_injective ((String.append_right_inj "q").mp he))
  have hlen := hnd.length_le_of_subset hsub
  simp only [cands, List.length_map, List.length_range'] at hlen
  omega

/-! ### concrete automata for the non-vacuity examples of Props/C18 -/
namespace C18

/-- the single word `a` -/
def exA : NFA String String :=
  { Q := ["a0", "a1"], Sigma := ["a"], delta := [(("a0", "a"), ["a1"])], q0 := "a0", F := ["a1"],
    eps := "eps" }

/-- `b⁺`, with an ε-move back to the start -/
def exB : NFA String String :=
  { Q := ["b0", "b1"], Sigma := ["b"], delta := [(("b0", "b"), ["b1"]), (("b1", "eps"), ["b0"])],
    q0 := "b0", F := ["b1"], eps := "eps" }

/-- a δ with a repeated key (impossible for a Python dict): `lookup` sees the first binding,
    `dictUpdate` keeps the last one -/
def exDup : NFA String String :=
  { Q := ["s", "t", "u"], Sigma := ["a"], delta := [(("s", "a"), ["t"]), (("s", "a"), ["u"])],
    q0 := "s", F := ["t"], eps := "eps" }

/-- no transitions, empty language -/
def exEmpty : NFA String String :=
  { Q := ["z"], Sigma := ["a"], delta := [], q0 := "z", F := [], eps := "eps" }

theorem exA_accepts : exA.Accepts ["a"] :=
  ⟨"a1", by decide, NFA.Run.sym (q' := "a1") (by decide) ⟨["a1"], by decide, by decide⟩ (NFA.Run.nil _)⟩

theorem exB_accepts : exB.Accepts ["b", "b"] :=
  ⟨"b1", by decide,
    NFA.Run.sym (q' := "b1") (by decide) ⟨["b1"], by decide, by decide⟩
      (NFA.Run.eps (q' := "b0") ⟨["b0"], by decide, by decide⟩
        (NFA.Run.sym (q' := "b1") (by decide) ⟨["b1"], by decide, by decide⟩ (NFA.Run.nil _)))⟩

theorem exDup_union_delta :
    (exDup.unionRaw exEmpty "n").delta = [(("s", "a"), ["u"]), (("n", "eps"), ["s", "z"])] := by decide

/-- the operand with the repeated key accepts `a` … -/
theorem exDup_accepts : exDup.Accepts ["a"] :=
  ⟨"t", by decide, NFA.Run.sym (by decide) ⟨["t"], by decide, by decide⟩ (NFA.Run.nil _)⟩

/-- … but its union with the empty automaton does not: no transition of the union enters `t` -/
theorem exDup_union_not_accepts : ¬ (exDup.unionRaw exEmpty "n").Accepts ["a"] := by
  rintro ⟨f, hf, hr⟩
  have hft : f = "t" := by
    have : (exDup.unionRaw exEmpty "n").F = ["t"] := by decide
    rw [this] at hf
    exact List.mem_singleton.mp hf
  have hinv : ∀ (q a q' : String), q ≠ "t" → (exDup.unionRaw exEmpty "n").Succ q a q' → q' ≠ "t" := by
    rintro q a q' _ ⟨T, hl, hm⟩
    have hmem := mem_of_lookup_eq_some hl
    rw [exDup_union_delta] at hmem
    simp only [List.mem_cons, Prod.mk.injEq, List.not_mem_nil, or_false] at hmem
    rcases hmem with ⟨_, rfl⟩ | ⟨_, rfl⟩
    · simp only [List.mem_singleton] at hm
      subst hm; decide
    · simp only [List.mem_cons, List.not_mem_nil, or_false] at hm
      rcases hm with rfl | rfl <;> decide
  have hq0 : (exDup.unionRaw exEmpty "n").q0 ≠ "t" := by decide
  exact NFA.Run.invariant (· ≠ "t") hinv hr hq0 hft

/-- hence the language clause of `nfa_union_spec` fails for δ lists with a repeated key -/
theorem exDup_union_counterexample :
    exDup.valid = true ∧ exEmpty.valid = true ∧ (∀ q, q ∈ exDup.Q → q ∉ exEmpty.Q) ∧
    "n" ∉ exDup.Q ∧ "n" ∉ exEmpty.Q ∧ exEmpty.eps = exDup.eps ∧
    ∃ N, exDup.union exEmpty "n" = .ok N ∧
      ¬ ∀ w, N.Accepts w ↔ (exDup.Accepts w ∨ exEmpty.Accepts w) := by
  refine ⟨by decide, by decide, sdisjoint_iff.mp (by decide), by decide, by decide, rfl,
    exDup.unionRaw exEmpty "n", by rfl, ?_⟩
  intro h
  exact exDup_union_not_accepts ((h ["a"]).mpr (Or.inl exDup_accepts))

end C18

end Gamba
