/-
  Gamba.Proofs.C16d — the regular-expression clause of the print/parse round trip (C16):
  `parseFull (printFull r) = some r`, and `parseSimple (printSimple r)` is the left-associated form of `r`
  (same language, same printed form).  Token-level proofs: the lexers produce the token sequences `toksF` / `toksS`,
  the fuel-based precedence parser consumes them; every lemma says "for all sufficiently large fuel" with an
  explicit bound that is linear in the number of tokens.
-/
import Gamba.Model.RegexpText
import Gamba.Spec.Regexp
import Gamba.Proofs.C05
namespace Gamba

/-- symbols that the simple syntax can express: single ASCII letters -/
def Regexp.SimpleSyms : Regexp String → Prop
  | .zero | .one => True
  | .sym a => ∃ c : Char, a = String.singleton c ∧ c.isAlpha = true
  | .star r => Regexp.SimpleSyms r
  | .sum r s | .cat r s => Regexp.SimpleSyms r ∧ Regexp.SimpleSyms s

namespace RegexpText

/-! ### one-step unfoldings of the parser -/

theorem parseSum_step {j : Bool} {n : Nat} {ts : List Tok} {r : Regexp String} {rest : List Tok}
    {res : Regexp String × List Tok}
    (h1 : parseCat j n ts = some (r, rest)) (h2 : sumTail j n r rest = some res) :
    parseSum j (n + 1) ts = some res := by
  simp [parseSum, h1, h2]

theorem parseCat_step {j : Bool} {n : Nat} {ts : List Tok} {r : Regexp String} {rest : List Tok}
    {res : Regexp String × List Tok}
    (h1 : parsePost j n ts = some (r, rest)) (h2 : catTail j n r rest = some res) :
    parseCat j (n + 1) ts = some res := by
  simp [parseCat, h1, h2]

theorem parsePost_step {j : Bool} {n : Nat} {ts : List Tok} {r : Regexp String} {rest : List Tok}
    (h1 : parseAtom j n ts = some (r, rest)) :
    parsePost j (n + 1) ts = some (starTail r rest) := by
  simp [parsePost, h1]

theorem parseAtom_lp {j : Bool} {n : Nat} {ts : List Tok} {r : Regexp String} {rest : List Tok}
    (h1 : parseSum j n ts = some (r, .rp :: rest)) :
    parseAtom j (n + 1) (.lp :: ts) = some (r, rest) := by
  simp [parseAtom, h1]

theorem sumTail_plus {j : Bool} {n : Nat} {ts : List Tok} {acc r : Regexp String} {rest : List Tok}
    {res : Regexp String × List Tok}
    (h1 : parseCat j n ts = some (r, rest)) (h2 : sumTail j n (.sum acc r) rest = some res) :
    sumTail j (n + 1) acc (.plus :: ts) = some res := by
  simp [sumTail, h1, h2]

theorem sumTail_stop {j : Bool} {n : Nat} {ts : List Tok} {acc : Regexp String}
    (h : ts.head? ≠ some .plus) : sumTail j (n + 1) acc ts = some (acc, ts) := by
  cases ts with
  | nil => simp [sumTail]
  | cons t ts =>
    cases t <;> simp_all [sumTail]

theorem catTail_dot {n : Nat} {ts : List Tok} {acc r : Regexp String} {rest : List Tok}
    {res : Regexp String × List Tok}
    (h1 : parsePost false n ts = some (r, rest)) (h2 : catTail false n (.cat acc r) rest = some res) :
    catTail false (n + 1) acc (.dot :: ts) = some res := by
  simp [catTail, h1, h2]

theorem catTail_false_stop {n : Nat} {ts : List Tok} {acc : Regexp String}
    (h : ts.head? ≠ some .dot) : catTail false (n + 1) acc ts = some (acc, ts) := by
  cases ts with
  | nil => simp [catTail]
  | cons t ts =>
    cases t <;> simp_all [catTail]

theorem catTail_juxt {n : Nat} {t : Tok} {ts : List Tok} {acc r : Regexp String} {rest : List Tok}
    {res : Regexp String × List Tok} (ht : startsAtom t = true)
    (h1 : parsePost true n (t :: ts) = some (r, rest)) (h2 : catTail true n (.cat acc r) rest = some res) :
    catTail true (n + 1) acc (t :: ts) = some res := by
  simp [catTail, h1, h2, ht]

theorem catTail_true_stop {n : Nat} {ts : List Tok} {acc : Regexp String}
    (h : ∀ t, ts.head? = some t → startsAtom t = false) : catTail true (n + 1) acc ts = some (acc, ts) := by
  cases ts with
  | nil => simp [catTail]
  | cons t ts =>
    have := h t rfl
    simp [catTail, this]

theorem starTail_of_noStar {acc : Regexp String} {ts : List Tok} (h : ts.head? ≠ some .star) :
    starTail acc ts = (acc, ts) := by
  cases ts with
  | nil => simp [starTail]
  | cons t ts => cases t <;> simp_all [starTail]

theorem parseAtom_leaf {j : Bool} {n : Nat} {rest : List Tok} :
    parseAtom j (n + 1) (.zero :: rest) = some (.zero, rest) ∧
    parseAtom j (n + 1) (.one :: rest) = some (.one, rest) ∧
    ∀ a, parseAtom j (n + 1) (.id a :: rest) = some (.sym a, rest) := by
  simp [parseAtom]

/-! ### character facts and the lexer of the full syntax -/

theorem alpha_facts {c : Char} (h : c.isAlpha = true) :
    c ≠ ' ' ∧ c ≠ '\r' ∧ c ≠ '\n' ∧ c ≠ '%' ∧ c ≠ '0' ∧ c ≠ '1' ∧ c ≠ '+' ∧ c ≠ '*' ∧ c ≠ '(' ∧ c ≠ ')' ∧ c ≠ '.' := by
  refine ⟨?_, ?_, ?_, ?_, ?_, ?_, ?_, ?_, ?_, ?_, ?_⟩ <;> rintro rfl <;> revert h <;> decide

theorem lexFull_ws {n : Nat} {c : Char} {cs : List Char} (h : (c == ' ' || c == '\r' || c == '\n') = true) :
    lexFull (n + 1) (c :: cs) = lexFull n cs := by
  simp only [lexFull, h, if_true]

theorem lexFull_id {n : Nat} {c : Char} {cs : List Char} {ts : List Tok} (hc : c.isAlpha = true)
    (hcs : ∀ d, cs.head? = some d → isIdChar d = false) (h : lexFull n cs = some ts) :
    lexFull (n + 1) (c :: cs) = some (.id (String.singleton c) :: ts) := by
  obtain ⟨h1, h2, h3, -⟩ := alpha_facts hc
  have htw : cs.takeWhile isIdChar = [] := by
    cases cs with
    | nil => rfl
    | cons d ds => simp [List.takeWhile, hcs d rfl]
  have hdw : cs.dropWhile isIdChar = cs := by
    cases cs with
    | nil => rfl
    | cons d ds => simp [List.dropWhile, hcs d rfl]
  simp [lexFull, h1, h2, h3, isIdStart, hc, htw, hdw, h]

theorem lexFull_tok {n : Nat} {cs : List Char} {ts : List Tok} (h : lexFull n cs = some ts) :
    lexFull (n + 1) ('0' :: cs) = some (.zero :: ts) ∧
    lexFull (n + 1) ('1' :: cs) = some (.one :: ts) ∧
    lexFull (n + 1) ('+' :: cs) = some (.plus :: ts) ∧
    lexFull (n + 1) ('*' :: cs) = some (.star :: ts) ∧
    lexFull (n + 1) ('.' :: cs) = some (.dot :: ts) ∧
    lexFull (n + 1) ('(' :: cs) = some (.lp :: ts) ∧
    lexFull (n + 1) (')' :: cs) = some (.rp :: ts) := by
  refine ⟨?_, ?_, ?_, ?_, ?_, ?_, ?_⟩ <;> simp [lexFull, isIdStart, h] <;> decide

/-! ### the full syntax: tokens of `printFull` -/

def toksF : Regexp String → List Tok
  | .zero => [.zero]
  | .one => [.one]
  | .sym a => [.id a]
  | .star r => .lp :: toksF r ++ [.rp, .star]
  | .sum r s => .lp :: toksF r ++ .plus :: toksF s ++ [.rp]
  | .cat r s => .lp :: toksF r ++ .dot :: toksF s ++ [.rp]

def charsF : Regexp String → List Char
  | .zero => ['0']
  | .one => ['1']
  | .sym a => a.toList
  | .star r => '(' :: charsF r ++ [')', '*']
  | .sum r s => '(' :: charsF r ++ ' ' :: '+' :: ' ' :: charsF s ++ [')']
  | .cat r s => '(' :: charsF r ++ ' ' :: '.' :: ' ' :: charsF s ++ [')']

theorem printFull_toList (r : Regexp String) : (printFull r).toList = charsF r := by
  induction r with
  | zero => rfl
  | one => rfl
  | sym a => rfl
  | star r ih => simp [printFull, charsF, String.toList_append, ih]
  | sum r s ihr ihs => simp [printFull, charsF, String.toList_append, ihr, ihs]
  | cat r s ihr ihs => simp [printFull, charsF, String.toList_append, ihr, ihs]

def NoIdHead (cs : List Char) : Prop := ∀ d, cs.head? = some d → isIdChar d = false

theorem lexFull_chars (r : Regexp String) (hr : r.SimpleSyms) :
    ∀ (rest : List Char) (n : Nat) (ts : List Tok), NoIdHead rest →
      (∀ fuel, n ≤ fuel → lexFull fuel rest = some ts) →
      ∀ fuel, n + (charsF r).length ≤ fuel → lexFull fuel (charsF r ++ rest) = some (toksF r ++ ts) := by
  induction r with
  | zero =>
    intro rest n ts _ h fuel hf
    obtain ⟨m, rfl⟩ : ∃ m, fuel = m + 1 := ⟨fuel - 1, by simp [charsF] at hf; omega⟩
    exact (lexFull_tok (h m (by simp [charsF] at hf; omega))).1
  | one =>
    intro rest n ts _ h fuel hf
    obtain ⟨m, rfl⟩ : ∃ m, fuel = m + 1 := ⟨fuel - 1, by simp [charsF] at hf; omega⟩
    exact (lexFull_tok (h m (by simp [charsF] at hf; omega))).2.1
  | sym a =>
    intro rest n ts hrest h fuel hf
    obtain ⟨c, rfl, hc⟩ := hr
    simp only [charsF, String.toList_singleton, List.length_singleton] at hf
    obtain ⟨m, rfl⟩ : ∃ m, fuel = m + 1 := ⟨fuel - 1, by omega⟩
    simp only [charsF, String.toList_singleton, toksF, List.cons_append, List.nil_append]
    exact lexFull_id hc hrest (h m (by omega))
  | star r ih =>
    intro rest n ts hrest h fuel hf
    simp only [charsF, List.length_cons, List.length_append, List.length_nil] at hf
    obtain ⟨m, rfl⟩ : ∃ m, fuel = m + 1 := ⟨fuel - 1, by omega⟩
    simp only [charsF, toksF, List.cons_append, List.append_assoc, List.nil_append]
    refine (lexFull_tok ?_).2.2.2.2.2.1
    refine ih hr _ (n + 2) _ (by intro d hd; cases hd; decide) ?_ m (by omega)
    intro f1 hf1
    obtain ⟨f2, rfl⟩ : ∃ m, f1 = m + 2 := ⟨f1 - 2, by omega⟩
    refine (lexFull_tok ?_).2.2.2.2.2.2
    refine (lexFull_tok ?_).2.2.2.1
    exact h f2 (by omega)
  | sum r s ihr ihs =>
    intro rest n ts hrest h fuel hf
    simp only [charsF, List.length_cons, List.length_append, List.length_nil] at hf
    obtain ⟨m, rfl⟩ : ∃ m, fuel = m + 1 := ⟨fuel - 1, by omega⟩
    simp only [charsF, toksF, List.cons_append, List.append_assoc, List.nil_append]
    refine (lexFull_tok ?_).2.2.2.2.2.1
    refine ihr hr.1 _ (n + 1 + (charsF s).length + 3) _ (by intro d hd; cases hd; decide) ?_ m (by omega)
    intro f1 hf1
    obtain ⟨f2, rfl⟩ : ∃ m, f1 = m + 3 := ⟨f1 - 3, by omega⟩
    rw [lexFull_ws (by decide)]
    refine (lexFull_tok ?_).2.2.1
    rw [lexFull_ws (by decide)]
    refine ihs hr.2 _ (n + 1) _ (by intro d hd; cases hd; decide) ?_ f2 (by omega)
    intro f3 hf3
    obtain ⟨f4, rfl⟩ : ∃ m, f3 = m + 1 := ⟨f3 - 1, by omega⟩
    refine (lexFull_tok ?_).2.2.2.2.2.2
    exact h f4 (by omega)
  | cat r s ihr ihs =>
    intro rest n ts hrest h fuel hf
    simp only [charsF, List.length_cons, List.length_append, List.length_nil] at hf
    obtain ⟨m, rfl⟩ : ∃ m, fuel = m + 1 := ⟨fuel - 1, by omega⟩
    simp only [charsF, toksF, List.cons_append, List.append_assoc, List.nil_append]
    refine (lexFull_tok ?_).2.2.2.2.2.1
    refine ihr hr.1 _ (n + 1 + (charsF s).length + 3) _ (by intro d hd; cases hd; decide) ?_ m (by omega)
    intro f1 hf1
    obtain ⟨f2, rfl⟩ : ∃ m, f1 = m + 3 := ⟨f1 - 3, by omega⟩
    rw [lexFull_ws (by decide)]
    refine (lexFull_tok ?_).2.2.2.2.1
    rw [lexFull_ws (by decide)]
    refine ihs hr.2 _ (n + 1) _ (by intro d hd; cases hd; decide) ?_ f2 (by omega)
    intro f3 hf3
    obtain ⟨f4, rfl⟩ : ∃ m, f3 = m + 1 := ⟨f3 - 1, by omega⟩
    refine (lexFull_tok ?_).2.2.2.2.2.2
    exact h f4 (by omega)

theorem parsePost_toksF (r : Regexp String) :
    ∀ (rest : List Tok) (fuel : Nat), 5 * (toksF r).length ≤ fuel →
      parsePost false fuel (toksF r ++ rest) = some (starTail r rest) := by
  induction r with
  | zero =>
    intro rest fuel hf
    simp only [toksF, List.length_singleton] at hf
    obtain ⟨m, rfl⟩ : ∃ m, fuel = m + 2 := ⟨fuel - 2, by omega⟩
    exact parsePost_step parseAtom_leaf.1
  | one =>
    intro rest fuel hf
    simp only [toksF, List.length_singleton] at hf
    obtain ⟨m, rfl⟩ : ∃ m, fuel = m + 2 := ⟨fuel - 2, by omega⟩
    exact parsePost_step parseAtom_leaf.2.1
  | sym a =>
    intro rest fuel hf
    simp only [toksF, List.length_singleton] at hf
    obtain ⟨m, rfl⟩ : ∃ m, fuel = m + 2 := ⟨fuel - 2, by omega⟩
    exact parsePost_step (parseAtom_leaf.2.2 a)
  | star r ih =>
    intro rest fuel hf
    simp only [toksF, List.length_cons, List.length_append, List.length_nil] at hf
    obtain ⟨m, rfl⟩ : ∃ m, fuel = m + 5 := ⟨fuel - 5, by omega⟩
    simp only [toksF, List.cons_append, List.append_assoc, List.nil_append]
    have h1 := ih (.rp :: .star :: rest) (m + 1) (by omega)
    rw [starTail_of_noStar (by simp)] at h1
    have h2 := parseCat_step h1 (catTail_false_stop (n := m) (by simp))
    have h3 := parseSum_step h2 (sumTail_stop (n := m + 1) (by simp))
    have h4 := parsePost_step (parseAtom_lp h3)
    rw [h4]; rfl
  | sum r s ihr ihs =>
    intro rest fuel hf
    simp only [toksF, List.length_cons, List.length_append, List.length_nil] at hf
    obtain ⟨m, rfl⟩ : ∃ m, fuel = m + 5 := ⟨fuel - 5, by omega⟩
    simp only [toksF, List.cons_append, List.append_assoc, List.nil_append]
    have h1 := ihr (.plus :: (toksF s ++ .rp :: rest)) (m + 1) (by omega)
    rw [starTail_of_noStar (by simp)] at h1
    have h2 := parseCat_step h1 (catTail_false_stop (n := m) (by simp))
    have k1 := ihs (.rp :: rest) m (by omega)
    rw [starTail_of_noStar (by simp)] at k1
    obtain ⟨m', rfl⟩ : ∃ m', m = m' + 1 := ⟨m - 1, by omega⟩
    have k2 := parseCat_step k1 (catTail_false_stop (n := m') (by simp))
    have k3 := sumTail_plus (acc := r) k2 (sumTail_stop (n := m' + 1) (ts := .rp :: rest) (by simp))
    have h3 := parseSum_step h2 k3
    exact parsePost_step (parseAtom_lp h3)
  | cat r s ihr ihs =>
    intro rest fuel hf
    simp only [toksF, List.length_cons, List.length_append, List.length_nil] at hf
    obtain ⟨m, rfl⟩ : ∃ m, fuel = m + 5 := ⟨fuel - 5, by omega⟩
    simp only [toksF, List.cons_append, List.append_assoc, List.nil_append]
    have h1 := ihr (.dot :: (toksF s ++ .rp :: rest)) (m + 1) (by omega)
    rw [starTail_of_noStar (by simp)] at h1
    have k1 := ihs (.rp :: rest) m (by omega)
    rw [starTail_of_noStar (by simp)] at k1
    obtain ⟨m', rfl⟩ : ∃ m', m = m' + 1 := ⟨m - 1, by omega⟩
    have k2 := catTail_dot (acc := r) k1 (catTail_false_stop (n := m') (ts := .rp :: rest) (by simp))
    have h2 := parseCat_step h1 k2
    have h3 := parseSum_step h2 (sumTail_stop (n := m' + 2) (by simp))
    exact parsePost_step (parseAtom_lp h3)

theorem lexFull_nil (fuel : Nat) : lexFull fuel [] = some [] := by
  cases fuel <;> rfl

theorem parseFull_printFull' (r : Regexp String) (h : r.SimpleSyms) :
    parseFull (printFull r) = some r := by
  have hl : lexFull ((printFull r).length + 1) (printFull r).toList = some (toksF r) := by
    have := lexFull_chars r h [] 0 [] (by intro d hd; cases hd) (fun f _ => lexFull_nil f)
      ((printFull r).length + 1) (by rw [← printFull_toList, String.length_toList]; omega)
    simpa [printFull_toList] using this
  have hp : parseSum false (6 * (toksF r).length + 6) (toksF r) = some (r, []) := by
    have h1 := parsePost_toksF r [] (6 * (toksF r).length + 4) (by omega)
    rw [starTail_of_noStar (by simp), List.append_nil] at h1
    have h2 := parseCat_step h1 (catTail_false_stop (n := 6 * (toksF r).length + 3) (by simp))
    exact parseSum_step h2 (sumTail_stop (n := 6 * (toksF r).length + 4) (by simp))
  simp [parseFull, hl, hp]

/-! ### the simple syntax: left-associated normal form -/

/-- `x · y` with the concatenation spine of `y` re-associated to the left -/
def catApp (x : Regexp String) : Regexp String → Regexp String
  | .cat y1 y2 => .cat (catApp x y1) y2
  | y => .cat x y

def sumApp (x : Regexp String) : Regexp String → Regexp String
  | .sum y1 y2 => .sum (sumApp x y1) y2
  | y => .sum x y

/-- nested concatenations and sums re-associated to the left, recursively -/
def leftAssoc : Regexp String → Regexp String
  | .zero => .zero
  | .one => .one
  | .sym a => .sym a
  | .star r => .star (leftAssoc r)
  | .sum r s => sumApp (leftAssoc r) (leftAssoc s)
  | .cat r s => catApp (leftAssoc r) (leftAssoc s)

theorem catApp_of_prec {x y : Regexp String} (h : prec y ≠ 8) : catApp x y = .cat x y := by
  cases y <;> simp [prec] at h <;> rfl

theorem sumApp_of_prec {x y : Regexp String} (h : prec y ≠ 7) : sumApp x y = .sum x y := by
  cases y <;> simp [prec] at h <;> rfl

@[simp] theorem prec_catApp (x y : Regexp String) : prec (catApp x y) = 8 := by
  cases y <;> rfl

@[simp] theorem prec_sumApp (x y : Regexp String) : prec (sumApp x y) = 7 := by
  cases y <;> rfl

@[simp] theorem prec_leftAssoc (r : Regexp String) : prec (leftAssoc r) = prec r := by
  cases r <;> simp only [leftAssoc, prec_catApp, prec_sumApp] <;> rfl

theorem catApp_assoc (a b c : Regexp String) : catApp (catApp a b) c = catApp a (catApp b c) := by
  induction c with
  | cat c1 c2 ih1 _ => simp [catApp, ih1]
  | _ => rfl

theorem sumApp_assoc (a b c : Regexp String) : sumApp (sumApp a b) c = sumApp a (sumApp b c) := by
  induction c with
  | sum c1 c2 ih1 _ => simp [sumApp, ih1]
  | _ => rfl

/-! language -/
open Regexp in
theorem lang_cat_assoc {r s t : Regexp String} {w : List String} :
    Lang (.cat (.cat r s) t) w ↔ Lang (.cat r (.cat s t)) w := by
  simp only [lang_cat]
  constructor
  · rintro ⟨u, v, rfl, ⟨u1, u2, rfl, h1, h2⟩, h3⟩
    exact ⟨u1, u2 ++ v, by simp, h1, u2, v, rfl, h2, h3⟩
  · rintro ⟨u, v, rfl, h1, v1, v2, rfl, h2, h3⟩
    exact ⟨u ++ v1, v2, by simp, ⟨u, v1, rfl, h1, h2⟩, h3⟩

open Regexp in
theorem lang_sum_assoc {r s t : Regexp String} {w : List String} :
    Lang (.sum (.sum r s) t) w ↔ Lang (.sum r (.sum s t)) w := by
  simp only [lang_sum, or_assoc]

open Regexp in
theorem lang_catApp (x y : Regexp String) : ∀ w, Lang (catApp x y) w ↔ Lang (.cat x y) w := by
  induction y with
  | cat y1 y2 ih1 _ =>
    intro w
    simp only [catApp]
    rw [lang_cat_congr ih1 (fun _ => Iff.rfl), lang_cat_assoc]
  | _ => intro w; rfl

open Regexp in
theorem lang_sumApp (x y : Regexp String) : ∀ w, Lang (sumApp x y) w ↔ Lang (.sum x y) w := by
  induction y with
  | sum y1 y2 ih1 _ =>
    intro w
    simp only [sumApp]
    rw [lang_sum_congr ih1 (fun _ => Iff.rfl), lang_sum_assoc]
  | _ => intro w; rfl

open Regexp in
theorem lang_leftAssoc (r : Regexp String) : ∀ w, Lang (leftAssoc r) w ↔ Lang r w := by
  induction r with
  | zero => intro w; rfl
  | one => intro w; rfl
  | sym a => intro w; rfl
  | star r ih => intro w; exact lang_star_congr ih
  | sum r s ihr ihs => intro w; simp only [leftAssoc]; rw [lang_sumApp]; exact lang_sum_congr ihr ihs
  | cat r s ihr ihs => intro w; simp only [leftAssoc]; rw [lang_catApp]; exact lang_cat_congr ihr ihs

/-! printed form -/
theorem printSimple_catApp (x y : Regexp String) : printSimple (catApp x y) = printSimple (.cat x y) := by
  induction y with
  | cat y1 y2 ih1 _ =>
    simp only [catApp, printSimple, prec_catApp, ih1]
    simp [paren, prec, String.append_assoc]
  | _ => rfl

theorem printSimple_sumApp (x y : Regexp String) : printSimple (sumApp x y) = printSimple (.sum x y) := by
  induction y with
  | sum y1 y2 ih1 _ =>
    simp only [sumApp, printSimple, prec_sumApp, ih1]
    simp [paren, prec, String.append_assoc]
  | _ => rfl

theorem printSimple_leftAssoc (r : Regexp String) : printSimple (leftAssoc r) = printSimple r := by
  induction r with
  | zero => rfl
  | one => rfl
  | sym a => rfl
  | star r ih => simp only [leftAssoc, printSimple, prec_leftAssoc, ih]
  | sum r s ihr ihs => simp only [leftAssoc, printSimple_sumApp, printSimple, prec_leftAssoc, ihr, ihs]
  | cat r s ihr ihs => simp only [leftAssoc, printSimple_catApp, printSimple, prec_leftAssoc, ihr, ihs]

/-! ### tokens of `printSimple` and the lexer of the simple syntax -/

def tparen (b : Bool) (ts : List Tok) : List Tok := if b then .lp :: ts ++ [.rp] else ts

def toksS : Regexp String → List Tok
  | .zero => [.zero]
  | .one => [.one]
  | .sym a => [.id a]
  | .star r => tparen (prec r < 9) (toksS r) ++ [.star]
  | .sum r s => tparen (prec r < 7) (toksS r) ++ .plus :: tparen (prec s < 7) (toksS s)
  | .cat r s => tparen (prec r < 8) (toksS r) ++ tparen (prec s < 8) (toksS s)

def tokChars : Tok → List Char
  | .zero => ['0']
  | .one => ['1']
  | .plus => ['+']
  | .star => ['*']
  | .dot => ['.']
  | .lp => ['(']
  | .rp => [')']
  | .id s => s.toList

theorem paren_toList (b : Bool) (s : String) (ts : List Tok) (h : s.toList = ts.flatMap tokChars) :
    (paren b s).toList = (tparen b ts).flatMap tokChars := by
  cases b <;> simp [paren, tparen, String.toList_append, h, tokChars]

theorem printSimple_toList (r : Regexp String) : (printSimple r).toList = (toksS r).flatMap tokChars := by
  induction r with
  | zero => rfl
  | one => rfl
  | sym a => simp [printSimple, toksS, tokChars]
  | star r ih =>
    simp [printSimple, toksS, String.toList_append, paren_toList _ _ _ ih, tokChars]
  | sum r s ihr ihs =>
    simp [printSimple, toksS, String.toList_append, paren_toList _ _ _ ihr, paren_toList _ _ _ ihs, tokChars]
  | cat r s ihr ihs =>
    simp [printSimple, toksS, String.toList_append, paren_toList _ _ _ ihr, paren_toList _ _ _ ihs]

/-- tokens the simple lexer produces from their own spelling -/
def GoodTok : Tok → Prop
  | .dot => False
  | .id s => ∃ c : Char, s = String.singleton c ∧ c.isAlpha = true
  | _ => True

theorem lexSimple_nil (fuel : Nat) : lexSimple fuel [] = some [] := by
  cases fuel <;> rfl

theorem lexSimple_tok {n : Nat} {cs : List Char} {ts : List Tok} (h : lexSimple n cs = some ts)
    (t : Tok) (ht : GoodTok t) : lexSimple (n + 1) (tokChars t ++ cs) = some (t :: ts) := by
  cases t with
  | dot => exact absurd ht id
  | id s =>
    obtain ⟨c, rfl, hc⟩ := ht
    obtain ⟨h1, h2, h3, h4, h5, h6, h7, h8, h9, h10, -⟩ := alpha_facts hc
    simp [tokChars, lexSimple, h, h1, h2, h3, h4, h5, h6, h7, h8, h9, h10, isLetter, hc]
  | _ => simp [tokChars, lexSimple, h]

theorem lexSimple_toks (ts : List Tok) (hts : ∀ t, t ∈ ts → GoodTok t) :
    ∀ fuel, ts.length ≤ fuel → lexSimple fuel (ts.flatMap tokChars) = some ts := by
  induction ts with
  | nil => intro fuel _; exact lexSimple_nil fuel
  | cons t ts ih =>
    intro fuel hf
    simp only [List.length_cons] at hf
    obtain ⟨m, rfl⟩ : ∃ m, fuel = m + 1 := ⟨fuel - 1, by omega⟩
    rw [List.flatMap_cons]
    exact lexSimple_tok (ih (fun t ht => hts t (List.mem_cons_of_mem _ ht)) m (by omega)) t (hts t (by simp))

theorem goodTok_tparen {b : Bool} {ts : List Tok} (h : ∀ t, t ∈ ts → GoodTok t) :
    ∀ t, t ∈ tparen b ts → GoodTok t := by
  intro t ht
  cases b
  · exact h t ht
  · simp only [tparen, if_true, List.mem_cons, List.mem_append, List.not_mem_nil, or_false] at ht
    rcases ht with (rfl | ht) | rfl
    · trivial
    · exact h t ht
    · trivial

theorem goodTok_toksS (r : Regexp String) (hr : r.SimpleSyms) : ∀ t, t ∈ toksS r → GoodTok t := by
  induction r with
  | zero => intro t ht; simp only [toksS, List.mem_singleton] at ht; subst ht; trivial
  | one => intro t ht; simp only [toksS, List.mem_singleton] at ht; subst ht; trivial
  | sym a => intro t ht; simp only [toksS, List.mem_singleton] at ht; subst ht; exact hr
  | star r ih =>
    intro t ht
    simp only [toksS, List.mem_append, List.mem_singleton] at ht
    rcases ht with ht | rfl
    · exact goodTok_tparen (ih hr) t ht
    · trivial
  | sum r s ihr ihs =>
    intro t ht
    simp only [toksS, List.mem_append, List.mem_cons] at ht
    rcases ht with ht | rfl | ht
    · exact goodTok_tparen (ihr hr.1) t ht
    · trivial
    · exact goodTok_tparen (ihs hr.2) t ht
  | cat r s ihr ihs =>
    intro t ht
    simp only [toksS, List.mem_append] at ht
    rcases ht with ht | ht
    · exact goodTok_tparen (ihr hr.1) t ht
    · exact goodTok_tparen (ihs hr.2) t ht

theorem length_flatMap_tokChars (ts : List Tok) (hts : ∀ t, t ∈ ts → GoodTok t) :
    (ts.flatMap tokChars).length = ts.length := by
  induction ts with
  | nil => rfl
  | cons t ts ih =>
    rw [List.flatMap_cons, List.length_append, ih (fun t ht => hts t (List.mem_cons_of_mem _ ht))]
    have := hts t (by simp)
    cases t with
    | dot => exact absurd this id
    | id s => obtain ⟨c, rfl, _⟩ := this; simp [tokChars]; omega
    | _ => simp [tokChars] <;> omega

theorem lexSimple_printSimple (r : Regexp String) (hr : r.SimpleSyms) :
    lexSimple ((printSimple r).length + 1) (printSimple r).toList = some (toksS r) := by
  rw [← String.length_toList, printSimple_toList, length_flatMap_tokChars _ (goodTok_toksS r hr)]
  exact lexSimple_toks _ (goodTok_toksS r hr) _ (by omega)


/-- the tokens of `r` as an operand of an operator of precedence `p` -/
def toksAt (p : Nat) (r : Regexp String) : List Tok := tparen (decide (prec r < p)) (toksS r)

theorem toksS_star (r : Regexp String) : toksS (.star r) = toksAt 9 r ++ [.star] := rfl
theorem toksS_sum (r s : Regexp String) : toksS (.sum r s) = toksAt 7 r ++ .plus :: toksAt 7 s := rfl
theorem toksS_cat (r s : Regexp String) : toksS (.cat r s) = toksAt 8 r ++ toksAt 8 s := rfl

theorem prec_ge (r : Regexp String) : 7 ≤ prec r := by cases r <;> simp [prec]

theorem toksAt_7 (r : Regexp String) : toksAt 7 r = toksS r := by
  have := prec_ge r
  simp [toksAt, tparen]; omega

theorem toksAt_of_le {p : Nat} {r : Regexp String} (h : p ≤ prec r) : toksAt p r = toksS r := by
  simp [toksAt, tparen]; omega

theorem toksAt_of_lt {p : Nat} {r : Regexp String} (h : prec r < p) : toksAt p r = .lp :: toksS r ++ [.rp] := by
  simp [toksAt, tparen, h]

theorem toksAt_8_eq_9 {r : Regexp String} (h : prec r ≠ 8) : toksAt 8 r = toksAt 9 r := by
  cases r <;> simp [prec] at h <;> rfl

theorem toksAt_7_eq_8 {r : Regexp String} (h : prec r ≠ 7) : toksAt 7 r = toksAt 8 r := by
  cases r <;> simp [prec] at h <;> rfl

theorem head_tparen {b : Bool} {l : List Tok} (h : ∃ t ts, l = t :: ts ∧ startsAtom t = true) :
    ∃ t ts, tparen b l = t :: ts ∧ startsAtom t = true := by
  cases b
  · exact h
  · exact ⟨.lp, l ++ [.rp], by simp [tparen], rfl⟩

theorem head_append {l : List Tok} (l' : List Tok) (h : ∃ t ts, l = t :: ts ∧ startsAtom t = true) :
    ∃ t ts, l ++ l' = t :: ts ∧ startsAtom t = true := by
  obtain ⟨t, ts, rfl, ht⟩ := h
  exact ⟨t, ts ++ l', rfl, ht⟩

theorem toksS_head (r : Regexp String) : ∃ t ts, toksS r = t :: ts ∧ startsAtom t = true := by
  induction r with
  | zero => exact ⟨_, _, rfl, rfl⟩
  | one => exact ⟨_, _, rfl, rfl⟩
  | sym a => exact ⟨_, _, rfl, rfl⟩
  | star r ih => exact head_append _ (head_tparen ih)
  | sum r s ih _ => exact head_append _ (head_tparen ih)
  | cat r s ih _ => exact head_append _ (head_tparen ih)

theorem toksAt_head (p : Nat) (r : Regexp String) : ∃ t ts, toksAt p r = t :: ts ∧ startsAtom t = true := by
  by_cases hp : prec r < p
  · exact ⟨.lp, _, by rw [toksAt_of_lt hp]; rfl, rfl⟩
  · rw [toksAt_of_le (by omega)]; exact toksS_head r

theorem toksAt_length_pos (p : Nat) (r : Regexp String) : 1 ≤ (toksAt p r).length := by
  obtain ⟨t, ts, h, _⟩ := toksAt_head p r
  rw [h]; simp

def NoStar (ts : List Tok) : Prop := ts.head? ≠ some .star
/-- `ts` continues neither a postfix expression nor a concatenation -/
def SumOk (ts : List Tok) : Prop := ∀ t, ts.head? = some t → startsAtom t = false ∧ t ≠ .star

theorem SumOk.noStar {ts : List Tok} (h : SumOk ts) : NoStar ts := fun e => (h _ e).2 rfl

theorem noStar_toksAt_append (p : Nat) (r : Regexp String) (rest : List Tok) : NoStar (toksAt p r ++ rest) := by
  obtain ⟨t, ts, h, ht⟩ := toksAt_head p r
  rw [h]
  intro e
  simp only [List.cons_append, List.head?_cons, Option.some.injEq] at e
  subst e
  cases ht

theorem sumOk_plus (ts : List Tok) : SumOk (.plus :: ts) := by
  intro t ht; cases ht; exact ⟨rfl, by simp⟩
theorem sumOk_rp (ts : List Tok) : SumOk (.rp :: ts) := by
  intro t ht; cases ht; exact ⟨rfl, by simp⟩
theorem sumOk_nil : SumOk [] := by
  intro t ht; cases ht

def PPost (r : Regexp String) : Prop :=
  ∀ rest fuel, 6 * (toksAt 9 r).length ≤ fuel →
    parsePost true fuel (toksAt 9 r ++ rest) = some (starTail (leftAssoc r) rest)
def PCatH (r : Regexp String) : Prop :=
  ∀ rest res n, NoStar rest → (∀ fuel, n ≤ fuel → catTail true fuel (leftAssoc r) rest = some res) →
    ∀ fuel, n + 6 * (toksAt 8 r).length ≤ fuel → parseCat true fuel (toksAt 8 r ++ rest) = some res
def PCatT (r : Regexp String) : Prop :=
  ∀ acc rest res n, NoStar rest →
    (∀ fuel, n ≤ fuel → catTail true fuel (catApp acc (leftAssoc r)) rest = some res) →
    ∀ fuel, n + 6 * (toksAt 8 r).length ≤ fuel → catTail true fuel acc (toksAt 8 r ++ rest) = some res
def PSumH (r : Regexp String) : Prop :=
  ∀ rest res n, SumOk rest → (∀ fuel, n ≤ fuel → sumTail true fuel (leftAssoc r) rest = some res) →
    ∀ fuel, n + 6 * (toksAt 7 r).length + 2 ≤ fuel → parseSum true fuel (toksAt 7 r ++ rest) = some res
def PSumT (r : Regexp String) : Prop :=
  ∀ acc rest res n, SumOk rest →
    (∀ fuel, n ≤ fuel → sumTail true fuel (sumApp acc (leftAssoc r)) rest = some res) →
    ∀ fuel, n + 6 * (toksAt 7 r).length + 2 ≤ fuel →
      sumTail true fuel acc (.plus :: (toksAt 7 r ++ rest)) = some res

theorem pos_of_catTail {n : Nat} {acc : Regexp String} {rest : List Tok} {res : Regexp String × List Tok}
    (h : ∀ fuel, n ≤ fuel → catTail true fuel acc rest = some res) : 1 ≤ n := by
  cases n with
  | zero => have := h 0 (Nat.le_refl _); simp [catTail] at this
  | succ n => omega

/-- a non-concatenation is one postfix expression -/
theorem pcat_of_ppost {r : Regexp String} (hr : prec r ≠ 8) (hp : PPost r) : PCatH r ∧ PCatT r := by
  have hl := toksAt_length_pos 9 r
  constructor
  · intro rest res n hns hk fuel hf
    have hn := pos_of_catTail hk
    rw [toksAt_8_eq_9 hr] at hf ⊢
    obtain ⟨m, rfl⟩ : ∃ m, fuel = m + 1 := ⟨fuel - 1, by omega⟩
    have h1 := hp rest m (by omega)
    rw [starTail_of_noStar hns] at h1
    exact parseCat_step h1 (hk m (by omega))
  · intro acc rest res n hns hk fuel hf
    have hn := pos_of_catTail hk
    rw [catApp_of_prec (by rw [prec_leftAssoc]; exact hr)] at hk
    rw [toksAt_8_eq_9 hr] at hf ⊢
    obtain ⟨m, rfl⟩ : ∃ m, fuel = m + 1 := ⟨fuel - 1, by omega⟩
    have h1 := hp rest m (by omega)
    rw [starTail_of_noStar hns] at h1
    obtain ⟨t, ts, hts, hat⟩ := toksAt_head 9 r
    rw [hts, List.cons_append] at h1 ⊢
    exact catTail_juxt hat h1 (hk m (by omega))

/-- a non-sum is one concatenation -/
theorem psum_of_pcat {r : Regexp String} (hr : prec r ≠ 7) (hc : PCatH r) : PSumH r ∧ PSumT r := by
  have hl := toksAt_length_pos 8 r
  have key : ∀ rest, SumOk rest → ∀ m, 1 + 6 * (toksAt 8 r).length ≤ m →
      parseCat true m (toksAt 8 r ++ rest) = some (leftAssoc r, rest) := by
    intro rest hok m hm
    refine hc rest _ 1 hok.noStar ?_ m hm
    intro f hf
    obtain ⟨f', rfl⟩ : ∃ f', f = f' + 1 := ⟨f - 1, by omega⟩
    exact catTail_true_stop (fun t ht => (hok t ht).1)
  constructor
  · intro rest res n hok hk fuel hf
    rw [toksAt_7_eq_8 hr] at hf ⊢
    obtain ⟨m, rfl⟩ : ∃ m, fuel = m + 1 := ⟨fuel - 1, by omega⟩
    exact parseSum_step (key rest hok m (by omega)) (hk m (by omega))
  · intro acc rest res n hok hk fuel hf
    rw [sumApp_of_prec (by rw [prec_leftAssoc]; exact hr)] at hk
    rw [toksAt_7_eq_8 hr] at hf ⊢
    obtain ⟨m, rfl⟩ : ∃ m, fuel = m + 1 := ⟨fuel - 1, by omega⟩
    exact sumTail_plus (key rest hok m (by omega)) (hk m (by omega))

/-- a parenthesised operand -/
theorem ppost_of_psum {r : Regexp String} (hr : prec r < 9) (hs : PSumH r) : PPost r := by
  intro rest fuel hf
  rw [toksAt_of_lt hr] at hf ⊢
  simp only [List.length_cons, List.length_append, List.length_nil] at hf
  obtain ⟨m, rfl⟩ : ∃ m, fuel = m + 2 := ⟨fuel - 2, by omega⟩
  have h1 : parseSum true m (toksS r ++ .rp :: rest) = some (leftAssoc r, .rp :: rest) := by
    have := hs (.rp :: rest) (leftAssoc r, .rp :: rest) 1 (sumOk_rp _) ?_ m (by rw [toksAt_7]; omega)
    · rw [toksAt_7] at this; exact this
    · intro f hf
      obtain ⟨f', rfl⟩ : ∃ f', f = f' + 1 := ⟨f - 1, by omega⟩
      exact sumTail_stop (by simp)
  simp only [List.cons_append, List.append_assoc, List.nil_append]
  exact parsePost_step (parseAtom_lp h1)

theorem toksAt_8_cat (r s : Regexp String) : toksAt 8 (.cat r s) = toksAt 8 r ++ toksAt 8 s := by
  rw [toksAt_of_le (by simp [prec]), toksS_cat]

theorem toksAt_7_sum (r s : Regexp String) : toksAt 7 (.sum r s) = toksAt 7 r ++ .plus :: toksAt 7 s := by
  rw [toksAt_of_le (by simp [prec]), toksS_sum]

theorem toksAt_9_star (r : Regexp String) : toksAt 9 (.star r) = toksAt 9 r ++ [.star] := by
  rw [toksAt_of_le (by simp [prec]), toksS_star]

theorem parse_all (r : Regexp String) : PPost r ∧ PCatH r ∧ PCatT r ∧ PSumH r ∧ PSumT r := by
  induction r with
  | zero =>
    have hp : PPost .zero := by
      intro rest fuel hf
      simp only [toksAt, prec, toksS, tparen] at hf ⊢
      obtain ⟨m, rfl⟩ : ∃ m, fuel = m + 2 := ⟨fuel - 2, by simp at hf; omega⟩
      exact parsePost_step parseAtom_leaf.1
    have hc := pcat_of_ppost (by simp [prec]) hp
    have hs := psum_of_pcat (by simp [prec]) hc.1
    exact ⟨hp, hc.1, hc.2, hs.1, hs.2⟩
  | one =>
    have hp : PPost .one := by
      intro rest fuel hf
      simp only [toksAt, prec, toksS, tparen] at hf ⊢
      obtain ⟨m, rfl⟩ : ∃ m, fuel = m + 2 := ⟨fuel - 2, by simp at hf; omega⟩
      exact parsePost_step parseAtom_leaf.2.1
    have hc := pcat_of_ppost (by simp [prec]) hp
    have hs := psum_of_pcat (by simp [prec]) hc.1
    exact ⟨hp, hc.1, hc.2, hs.1, hs.2⟩
  | sym a =>
    have hp : PPost (.sym a) := by
      intro rest fuel hf
      simp only [toksAt, prec, toksS, tparen] at hf ⊢
      obtain ⟨m, rfl⟩ : ∃ m, fuel = m + 2 := ⟨fuel - 2, by simp at hf; omega⟩
      exact parsePost_step (parseAtom_leaf.2.2 a)
    have hc := pcat_of_ppost (by simp [prec]) hp
    have hs := psum_of_pcat (by simp [prec]) hc.1
    exact ⟨hp, hc.1, hc.2, hs.1, hs.2⟩
  | star r ih =>
    have hp : PPost (.star r) := by
      intro rest fuel hf
      rw [toksAt_9_star] at hf ⊢
      simp only [List.length_append, List.length_singleton] at hf
      rw [List.append_assoc, ih.1 _ fuel (by omega)]
      rfl
    have hc := pcat_of_ppost (by simp [prec]) hp
    have hs := psum_of_pcat (by simp [prec]) hc.1
    exact ⟨hp, hc.1, hc.2, hs.1, hs.2⟩
  | sum r s ihr ihs =>
    have hsH : PSumH (.sum r s) := by
      intro rest res n hok hk fuel hf
      rw [toksAt_7_sum] at hf ⊢
      simp only [List.length_append, List.length_cons] at hf
      rw [List.append_assoc, List.cons_append]
      refine ihr.2.2.2.1 _ res (n + 6 * (toksAt 7 s).length + 2) (sumOk_plus _) ?_ fuel (by omega)
      intro f hf'
      exact ihs.2.2.2.2 (leftAssoc r) rest res n hok hk f hf'
    have hsT : PSumT (.sum r s) := by
      intro acc rest res n hok hk fuel hf
      rw [toksAt_7_sum] at hf ⊢
      simp only [List.length_append, List.length_cons] at hf
      rw [List.append_assoc, List.cons_append]
      refine ihr.2.2.2.2 acc _ res (n + 6 * (toksAt 7 s).length + 2) (sumOk_plus _) ?_ fuel (by omega)
      intro f hf'
      refine ihs.2.2.2.2 (sumApp acc (leftAssoc r)) rest res n hok ?_ f hf'
      rw [sumApp_assoc]; exact hk
    have hp := ppost_of_psum (by simp [prec]) hsH
    have hc := pcat_of_ppost (by simp [prec]) hp
    exact ⟨hp, hc.1, hc.2, hsH, hsT⟩
  | cat r s ihr ihs =>
    have hcH : PCatH (.cat r s) := by
      intro rest res n hns hk fuel hf
      rw [toksAt_8_cat] at hf ⊢
      simp only [List.length_append] at hf
      rw [List.append_assoc]
      refine ihr.2.1 _ res (n + 6 * (toksAt 8 s).length) (noStar_toksAt_append _ _ _) ?_ fuel (by omega)
      intro f hf'
      exact ihs.2.2.1 (leftAssoc r) rest res n hns hk f hf'
    have hcT : PCatT (.cat r s) := by
      intro acc rest res n hns hk fuel hf
      rw [toksAt_8_cat] at hf ⊢
      simp only [List.length_append] at hf
      rw [List.append_assoc]
      refine ihr.2.2.1 acc _ res (n + 6 * (toksAt 8 s).length) (noStar_toksAt_append _ _ _) ?_ fuel (by omega)
      intro f hf'
      refine ihs.2.2.1 (catApp acc (leftAssoc r)) rest res n hns ?_ f hf'
      rw [catApp_assoc]; exact hk
    have hs := psum_of_pcat (by simp [prec]) hcH
    have hp := ppost_of_psum (by simp [prec]) hs.1
    exact ⟨hp, hcH, hcT, hs.1, hs.2⟩

theorem parseSum_toksS (r : Regexp String) :
    parseSum true (6 * (toksS r).length + 6) (toksS r) = some (leftAssoc r, []) := by
  have := (parse_all r).2.2.2.1 [] (leftAssoc r, []) 1 sumOk_nil ?_ (6 * (toksS r).length + 6)
    (by rw [toksAt_7]; omega)
  · rw [toksAt_7, List.append_nil] at this; exact this
  · intro f hf
    obtain ⟨f', rfl⟩ : ∃ f', f = f' + 1 := ⟨f - 1, by omega⟩
    exact sumTail_stop (by simp)

theorem parseSimple_printSimple_eq (r : Regexp String) (h : r.SimpleSyms) :
    parseSimple (printSimple r) = some (leftAssoc r) := by
  simp [parseSimple, lexSimple_printSimple r h, parseSum_toksS r]

end RegexpText
end Gamba
