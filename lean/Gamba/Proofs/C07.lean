/-
  Gamba.Proofs.C07 — the CYK table of the model is exact for grammars in Chomsky normal form
  (soundness unconditionally; completeness when every variable occurring on a right-hand side
  is declared in `G.V`, which `G.valid` implies).
-/
import Gamba.Proofs.CFGBasic
namespace Gamba
namespace CFG

/-! ### membership in an accumulating `foldl` -/

theorem mem_foldl_acc {α β : Type} (step : List α → β → List α) (P : β → α → Prop)
    (hstep : ∀ acc b x, x ∈ step acc b ↔ x ∈ acc ∨ P b x) (l : List β) (acc : List α) (x : α) :
    x ∈ l.foldl step acc ↔ x ∈ acc ∨ ∃ b, b ∈ l ∧ P b x := by
  induction l generalizing acc with
  | nil => simp
  | cons b l ih =>
    rw [List.foldl_cons, ih, hstep]
    constructor
    · rintro ((h | h) | ⟨b', hb', h⟩)
      · exact Or.inl h
      · exact Or.inr ⟨b, List.mem_cons_self .., h⟩
      · exact Or.inr ⟨b', List.mem_cons_of_mem _ hb', h⟩
    · rintro (h | ⟨b', hb', h⟩)
      · exact Or.inl (Or.inl h)
      · rcases List.mem_cons.mp hb' with rfl | hb'
        · exact Or.inl (Or.inr h)
        · exact Or.inr ⟨b', hb', h⟩

/-- every variable occurring on a right-hand side is declared -/
def RhsDeclared (G : CFG) : Prop := ∀ r, r ∈ G.R → ∀ B, Sym.v B ∈ r.rhs → B ∈ G.V

theorem rhsDeclared_of_valid {G : CFG} (h : G.valid = true) : G.RhsDeclared := by
  intro r hr B hB
  simp only [valid, List.all_eq_true, Bool.and_eq_true, decide_eq_true_eq] at h
  have := (h r hr).2 (.v B) hB
  simpa using this

theorem RhsDeclared.of_hasRule {G : CFG} (h : G.RhsDeclared) {A : String} {rhs : List Sym}
    (hr : G.HasRule A rhs) {B : String} (hB : Sym.v B ∈ rhs) : B ∈ G.V := by
  obtain ⟨r, hrR, _, rfl⟩ := hr
  exact h r hrR B hB

/-! ### one cell -/

theorem mem_cykCell {G : CFG} {X : CykTable} {i j : Nat} {A : String} :
    A ∈ cykCell G X i j ↔
      A ∈ G.V ∧ ∃ k B C, i ≤ k ∧ k < j ∧ B ∈ cykGet X i k ∧ C ∈ cykGet X (k + 1) j ∧
        G.HasRule A [.v B, .v C] := by
  unfold cykCell
  rw [mem_foldl_acc (P := fun d A => ∃ B, B ∈ cykGet X i (i + d) ∧ ∃ C, C ∈ cykGet X (i + d + 1) j ∧
    A ∈ G.V.filter (fun A => decide ([Sym.v B, Sym.v C] ∈ G.prods A)))]
  · simp only [List.not_mem_nil, false_or, List.mem_range, List.mem_filter, decide_eq_true_eq,
      mem_prods_iff]
    constructor
    · rintro ⟨d, hd, B, hB, C, hC, hV, hr⟩
      exact ⟨hV, i + d, B, C, by omega, by omega, hB, hC, hr⟩
    · rintro ⟨hV, k, B, C, hik, hkj, hB, hC, hr⟩
      have hk : i + (k - i) = k := by omega
      refine ⟨k - i, by omega, B, ?_, C, ?_, hV, hr⟩
      · rw [hk]; exact hB
      · rw [hk]; exact hC
  · intro acc d x
    show x ∈ (cykGet X i (i + d)).foldl _ acc ↔ _
    rw [mem_foldl_acc (P := fun B A => ∃ C, C ∈ cykGet X (i + d + 1) j ∧
      A ∈ G.V.filter (fun A => decide ([Sym.v B, Sym.v C] ∈ G.prods A)))]
    intro acc B x
    rw [mem_foldl_acc (P := fun C A =>
      A ∈ G.V.filter (fun A => decide ([Sym.v B, Sym.v C] ∈ G.prods A)))]
    intro acc C x
    exact mem_sunion

/-! ### subwords -/

/-- `w[i..j]` (both ends included) -/
def subw (w : List String) (i j : Nat) : List String := (w.drop i).take (j - i + 1)

theorem length_subw {w : List String} {i j : Nat} (hij : i ≤ j) (hj : j < w.length) :
    (subw w i j).length = j - i + 1 := by
  simp only [subw, List.length_take, List.length_drop]; omega

theorem subw_split {w : List String} {i k j : Nat} (hik : i ≤ k) (hkj : k < j) :
    subw w i j = subw w i k ++ subw w (k + 1) j := by
  unfold subw
  have h1 : j - i + 1 = (k - i + 1) + (j - (k + 1) + 1) := by omega
  have h2 : i + (k - i + 1) = k + 1 := by omega
  rw [h1, List.take_add, List.drop_drop, h2]

theorem subw_diag {w : List String} {i : Nat} (hi : i < w.length) : subw w i i = [w[i]] := by
  simp only [subw, Nat.sub_self, Nat.zero_add]
  rw [List.drop_eq_getElem_cons hi, List.take_succ_cons, List.take_zero]

theorem subw_full (w : List String) : subw w 0 (w.length - 1) = w := by
  simp only [subw, List.drop_zero, Nat.sub_zero]
  apply List.take_of_length_le
  omega

/-! ### the diagonal -/

theorem lookup_diag (f : String → List String) (w : List String) (s i j : Nat) :
    ((w.zipIdx s).map (fun (a, i) => ((i, i), f a))).lookup (i, j)
      = if i = j ∧ s ≤ i then (w[i - s]?).map f else none := by
  induction w generalizing s with
  | nil => simp
  | cons a w ih =>
    simp only [List.zipIdx_cons, List.map_cons, List.lookup_cons, ih]
    by_cases h : i = s ∧ j = s
    · obtain ⟨rfl, rfl⟩ := h; simp
    · have h1 : ((i, j) == (s, s)) = false := by
        simp only [beq_eq_false_iff_ne, ne_eq, Prod.mk.injEq]; exact h
      rw [h1]
      by_cases h2 : i = j
      · subst h2
        have h3 : i ≠ s := fun h' => h ⟨h', h'⟩
        by_cases h4 : s ≤ i
        · have h5 : i - s = (i - (s + 1)) + 1 := by omega
          have h6 : s + 1 ≤ i := by omega
          simp only [h4, h6, and_self, if_true]
          rw [h5, List.getElem?_cons_succ]
        · have h6 : ¬ (s + 1 ≤ i) := by omega
          simp [h4, h6]
      · simp [h2]

/-! ### appending one binding -/

theorem lookup_snoc (X : CykTable) (k k' : Nat × Nat) (v : List String) :
    (X ++ [(k, v)]).lookup k' =
      match X.lookup k' with
      | some c => some c
      | none => if k' = k then some v else none := by
  rw [List.lookup_append, List.lookup_cons, List.lookup_nil]
  cases X.lookup k' with
  | some c => rfl
  | none =>
    by_cases h : k' = k
    · subst h; simp
    · have : (k' == k) = false := by simp only [beq_eq_false_iff_ne]; exact h
      simp [this, h]

/-! ### the table invariant -/

/-- cells already filled when row `m` has been processed up to (excluding) column `I` -/
def Done (n m I i j : Nat) : Prop := i ≤ j ∧ j < n ∧ (j - i < m ∨ (j - i = m ∧ i < I))

structure Inv (G : CFG) (w : List String) (m I : Nat) (X : CykTable) : Prop where
  keys : ∀ i j, X.lookup (i, j) ≠ none → Done w.length m I i j
  sound : ∀ i j, Done w.length m I i j → ∀ A, A ∈ cykGet X i j →
    (A ∈ G.V ∧ G.Gen [.v A] (subw w i j))
  complete : G.RhsDeclared → ∀ i j, Done w.length m I i j → ∀ A, A ∈ G.V →
    G.Gen [.v A] (subw w i j) → A ∈ cykGet X i j

/-- the diagonal of the table -/
def cykDiag (G : CFG) (w : List String) : CykTable :=
  w.zipIdx.map fun (a, i) => ((i, i), G.V.filter fun A => decide ([Sym.t a] ∈ G.prods A))

theorem cykGet_diag {G : CFG} {w : List String} {i : Nat} (hi : i < w.length) :
    cykGet (cykDiag G w) i i = G.V.filter fun A => decide ([Sym.t w[i]] ∈ G.prods A) := by
  unfold cykGet cykDiag
  rw [lookup_diag (fun a => G.V.filter fun A => decide ([Sym.t a] ∈ G.prods A))]
  simp [hi]

theorem inv_diag {G : CFG} (hc : G.isChomsky = true) (w : List String) :
    Inv G w 1 0 (cykDiag G w) := by
  have hdone : ∀ i j, Done w.length 1 0 i j → i = j ∧ i < w.length := by
    intro i j h; unfold Done at h; omega
  refine ⟨?_, ?_, ?_⟩
  · intro i j hne
    unfold cykDiag at hne
    rw [lookup_diag (fun a => G.V.filter fun A => decide ([Sym.t a] ∈ G.prods A))] at hne
    by_cases h : i = j ∧ 0 ≤ i
    · obtain ⟨rfl, _⟩ := h
      have hi : i < w.length := by
        apply Classical.byContradiction
        intro hi
        have : w[i]? = none := List.getElem?_eq_none (by omega)
        simp [this] at hne
      unfold Done; omega
    · rw [if_neg h] at hne; exact absurd rfl hne
  · intro i j hd A hA
    obtain ⟨rfl, hi⟩ := hdone i j hd
    rw [cykGet_diag hi] at hA
    simp only [List.mem_filter, decide_eq_true_eq, mem_prods_iff] at hA
    rw [subw_diag hi]
    exact ⟨hA.1, (cnf_gen_v_single_iff hc).mpr hA.2⟩
  · intro _ i j hd A hV hg
    obtain ⟨rfl, hi⟩ := hdone i j hd
    rw [cykGet_diag hi]
    rw [subw_diag hi] at hg
    simp only [List.mem_filter, decide_eq_true_eq, mem_prods_iff]
    exact ⟨hV, (cnf_gen_v_single_iff hc).mp hg⟩

theorem inv_step {G : CFG} (hc : G.isChomsky = true) {w : List String} {m I : Nat} {X : CykTable}
    (hm : 1 ≤ m) (hI : I + m < w.length) (h : Inv G w m I X) :
    Inv G w m (I + 1) (X ++ [((I, I + m), cykCell G X I (I + m))]) := by
  have hnone : X.lookup (I, I + m) = none := by
    apply Classical.byContradiction
    intro hne
    have := h.keys _ _ hne
    unfold Done at this; omega
  have hnew : cykGet (X ++ [((I, I + m), cykCell G X I (I + m))]) I (I + m)
      = cykCell G X I (I + m) := by
    unfold cykGet
    rw [lookup_snoc, hnone]
    simp
  have hold : ∀ i j, (i, j) ≠ (I, I + m) →
      cykGet (X ++ [((I, I + m), cykCell G X I (I + m))]) i j = cykGet X i j := by
    intro i j hne
    unfold cykGet
    rw [lookup_snoc]
    cases X.lookup (i, j) with
    | some c => rfl
    | none => simp [hne]
  have hsplit : ∀ i j, Done w.length m (I + 1) i j →
      (Done w.length m I i j ∧ (i, j) ≠ (I, I + m)) ∨ (i = I ∧ j = I + m) := by
    intro i j hd
    unfold Done at hd ⊢
    by_cases he : i = I ∧ j = I + m
    · exact Or.inr he
    · left
      refine ⟨by omega, ?_⟩
      intro hp
      simp only [Prod.mk.injEq] at hp
      exact he hp
  have hsmall1 : ∀ k, I ≤ k → k < I + m → Done w.length m I I k := by
    intro k h1 h2; unfold Done; omega
  have hsmall2 : ∀ k, I ≤ k → k < I + m → Done w.length m I (k + 1) (I + m) := by
    intro k h1 h2; unfold Done; omega
  refine ⟨?_, ?_, ?_⟩
  · intro i j hne
    by_cases hx : X.lookup (i, j) = none
    · rw [lookup_snoc, hx] at hne
      by_cases he : (i, j) = (I, I + m)
      · simp only [Prod.mk.injEq] at he
        obtain ⟨rfl, rfl⟩ := he
        unfold Done; omega
      · simp [he] at hne
    · have := h.keys i j hx
      unfold Done at this ⊢; omega
  · intro i j hd A hA
    rcases hsplit i j hd with ⟨hd', hne⟩ | ⟨rfl, rfl⟩
    · rw [hold i j hne] at hA
      exact h.sound i j hd' A hA
    · rw [hnew, mem_cykCell] at hA
      obtain ⟨hV, k, B, C, hik, hkj, hB, hC, hr⟩ := hA
      refine ⟨hV, ?_⟩
      have hB' := (h.sound _ _ (hsmall1 k hik hkj) B hB).2
      have hC' := (h.sound _ _ (hsmall2 k hik hkj) C hC).2
      rw [subw_split hik hkj]
      exact gen_v_iff.mpr ⟨_, hr, gen_vv_iff.mpr ⟨_, _, rfl, hB', hC'⟩⟩
  · intro hdecl i j hd A hV hg
    rcases hsplit i j hd with ⟨hd', hne⟩ | ⟨rfl, rfl⟩
    · rw [hold i j hne]
      exact h.complete hdecl i j hd' A hV hg
    · rw [hnew, mem_cykCell]
      refine ⟨hV, ?_⟩
      have hlen : (subw w i (i + m)).length = m + 1 := by
        rw [length_subw (by omega) hI]; omega
      obtain ⟨B, C, u, v, hr, hu, hv, huv, hune, hvne⟩ :=
        (cnf_gen_v_ge2_iff hc (by omega)).mp hg
      have hul := List.length_pos_iff.mpr hune
      have hvl := List.length_pos_iff.mpr hvne
      have hsum : u.length + v.length = m + 1 := by
        rw [← List.length_append, ← huv, hlen]
      have hik : i ≤ i + u.length - 1 := by omega
      have hkj : i + u.length - 1 < i + m := by omega
      have hsp := subw_split (w := w) hik hkj
      rw [huv] at hsp
      have hl1 : u.length = (subw w i (i + u.length - 1)).length := by
        rw [length_subw hik (by omega)]; omega
      obtain ⟨e1, e2⟩ := List.append_inj hsp hl1
      refine ⟨i + u.length - 1, B, C, hik, hkj, ?_, ?_, hr⟩
      · apply h.complete hdecl _ _ (hsmall1 _ hik hkj) B (hdecl.of_hasRule hr (by simp))
        rw [← e1]; exact hu
      · apply h.complete hdecl _ _ (hsmall2 _ hik hkj) C (hdecl.of_hasRule hr (by simp))
        rw [← e2]; exact hv

theorem inv_row_aux {G : CFG} (hc : G.isChomsky = true) {w : List String} {m : Nat} {X : CykTable}
    (hm : 1 ≤ m) (h : Inv G w m 0 X) (I : Nat) (hI : I ≤ w.length - m) :
    Inv G w m I ((List.range I).foldl
      (fun X i => X ++ [((i, i + m), cykCell G X i (i + m))]) X) := by
  induction I with
  | zero => simpa using h
  | succ I ih =>
    rw [List.range_succ, List.foldl_append]
    simp only [List.foldl_cons, List.foldl_nil]
    exact inv_step hc hm (by omega) (ih (by omega))

theorem inv_row {G : CFG} (hc : G.isChomsky = true) {w : List String} {m : Nat} {X : CykTable}
    (hm : 1 ≤ m) (h : Inv G w m 0 X) : Inv G w (m + 1) 0 (cykRow G w.length m X) := by
  have h' := inv_row_aux hc hm h (w.length - m) (Nat.le_refl _)
  have hd : ∀ i j, Done w.length (m + 1) 0 i j ↔ Done w.length m (w.length - m) i j := by
    intro i j; unfold Done; omega
  unfold cykRow
  exact ⟨fun i j hne => (hd i j).mpr (h'.keys i j hne),
    fun i j hdone => h'.sound i j ((hd i j).mp hdone),
    fun hdecl i j hdone => h'.complete hdecl i j ((hd i j).mp hdone)⟩

theorem inv_rows {G : CFG} (hc : G.isChomsky = true) (w : List String) (M : Nat) :
    Inv G w (M + 1) 0 ((List.range (M + 1)).foldl
      (fun X m => if m = 0 then X else cykRow G w.length m X) (cykDiag G w)) := by
  induction M with
  | zero => simpa using inv_diag hc w
  | succ M ih =>
    rw [List.range_succ, List.foldl_append]
    simp only [List.foldl_cons, List.foldl_nil, Nat.add_one_ne_zero, if_false]
    exact inv_row hc (by omega) ih

theorem cykMatrix_eq {G : CFG} (hc : G.isChomsky = true) (w : List String) :
    G.cykMatrix w = .ok ((List.range w.length).foldl
      (fun X m => if m = 0 then X else cykRow G w.length m X) (cykDiag G w)) := by
  unfold cykMatrix cykDiag
  simp [hc]

/-- the final table satisfies the invariant for all cells -/
theorem cykMatrix_inv {G : CFG} (hc : G.isChomsky = true) {w : List String} {X : CykTable}
    (hX : G.cykMatrix w = .ok X) (hw : w ≠ []) : Inv G w w.length 0 X := by
  rw [cykMatrix_eq hc] at hX
  injection hX with hX
  subst hX
  have hpos := List.length_pos_iff.mpr hw
  have := inv_rows hc w (w.length - 1)
  have he : w.length - 1 + 1 = w.length := by omega
  rw [he] at this
  exact this

theorem cykMatrix_sound {G : CFG} (hc : G.isChomsky = true) {w : List String} {X : CykTable}
    (hX : G.cykMatrix w = .ok X) {i j : Nat} (hij : i ≤ j) (hj : j < w.length) {A : String}
    (hA : A ∈ cykGet X i j) : A ∈ G.V ∧ G.Gen [.v A] ((w.drop i).take (j - i + 1)) := by
  have hw : w ≠ [] := by rintro rfl; simp at hj
  exact (cykMatrix_inv hc hX hw).sound i j (by unfold Done; omega) A hA

theorem cykMatrix_complete {G : CFG} (hc : G.isChomsky = true) (hdecl : G.RhsDeclared)
    {w : List String} {X : CykTable}
    (hX : G.cykMatrix w = .ok X) {i j : Nat} (hij : i ≤ j) (hj : j < w.length) {A : String}
    (hV : A ∈ G.V) (hg : G.Gen [.v A] ((w.drop i).take (j - i + 1))) : A ∈ cykGet X i j := by
  have hw : w ≠ [] := by rintro rfl; simp at hj
  exact (cykMatrix_inv hc hX hw).complete hdecl i j (by unfold Done; omega) A hV hg

/-! ### `accepts` on a CNF grammar -/

theorem accepts_cnf_nil {G : CFG} (hc : G.isChomsky = true) :
    G.accepts [] = .ok (G.R.any fun r => decide (r.lhs = G.S) && r.rhs.isEmpty) := by
  simp [accepts, hc]

theorem any_eps_rule_iff {G : CFG} :
    (G.R.any fun r => decide (r.lhs = G.S) && r.rhs.isEmpty) = true ↔ G.HasRule G.S [] := by
  simp only [List.any_eq_true, Bool.and_eq_true, decide_eq_true_eq, List.isEmpty_iff, HasRule]

theorem accepts_cnf_cons {G : CFG} (hc : G.isChomsky = true) {w : List String} (hw : w ≠ [])
    {X : CykTable} (hX : G.cykMatrix w = .ok X) :
    G.accepts w = .ok (decide (G.S ∈ cykGet X 0 (w.length - 1))) := by
  have : w.isEmpty = false := by
    cases w with
    | nil => exact absurd rfl hw
    | cons => rfl
  simp only [accepts, hc, if_true, this, hX]
  rfl

end CFG
end Gamba
