/-
  Gamba.Proofs.C05 — helper lemmas on the regular-expression model:
  inversion lemmas for `Regexp.Lang`, characterisation of `splits`,
  correctness of `matchesAux`, `simplify`, `starWords`, `wordsUpTo`.
-/
import Gamba.Model.Basic
import Gamba.Model.Regexp
import Gamba.Spec.Regexp
namespace Gamba
namespace Regexp

/-! ### Inversion lemmas for `Lang` -/
section Inversion
variable {τ : Type}

@[simp] theorem lang_zero {w : List τ} : Lang (zero : Regexp τ) w ↔ False := by
  constructor
  · intro h; cases h
  · exact False.elim

theorem lang_one {w : List τ} : Lang (one : Regexp τ) w ↔ w = [] := by
  constructor
  · intro h; cases h; rfl
  · rintro rfl; exact Lang.one

theorem lang_sym {a : τ} {w : List τ} : Lang (sym a) w ↔ w = [a] := by
  constructor
  · intro h; cases h; rfl
  · rintro rfl; exact Lang.sym a

theorem lang_sum {r s : Regexp τ} {w : List τ} : Lang (sum r s) w ↔ Lang r w ∨ Lang s w := by
  constructor
  · intro h
    cases h with
    | sumL h => exact Or.inl h
    | sumR h => exact Or.inr h
  · rintro (h | h)
    · exact Lang.sumL h
    · exact Lang.sumR h

theorem lang_cat {r s : Regexp τ} {w : List τ} :
    Lang (cat r s) w ↔ ∃ u v, w = u ++ v ∧ Lang r u ∧ Lang s v := by
  constructor
  · intro h
    cases h with
    | cat h1 h2 => exact ⟨_, _, rfl, h1, h2⟩
  · rintro ⟨u, v, rfl, h1, h2⟩
    exact Lang.cat h1 h2

/-- one-step unfolding of the star -/
theorem lang_star {r : Regexp τ} {w : List τ} :
    Lang (star r) w ↔ w = [] ∨ ∃ u v, w = u ++ v ∧ Lang r u ∧ Lang (star r) v := by
  constructor
  · intro h
    cases h with
    | starNil => exact Or.inl rfl
    | starApp h1 h2 => exact Or.inr ⟨_, _, rfl, h1, h2⟩
  · rintro (rfl | ⟨u, v, rfl, h1, h2⟩)
    · exact Lang.starNil
    · exact Lang.starApp h1 h2

/-- a word of a star is empty or starts with a NON-EMPTY iteration (empty iterations are dropped) -/
theorem lang_star_ne_of {e : Regexp τ} {w : List τ} (h : Lang e w) :
    ∀ r, e = star r → w = [] ∨ ∃ u v, u ≠ [] ∧ w = u ++ v ∧ Lang r u ∧ Lang (star r) v := by
  induction h with
  | one => intro r hr; cases hr
  | sym a => intro r hr; cases hr
  | sumL _ _ => intro r hr; cases hr
  | sumR _ _ => intro r hr; cases hr
  | cat _ _ _ _ => intro r hr; cases hr
  | starNil => intro r _; exact Or.inl rfl
  | @starApp r0 u v h1 h2 _ ih2 =>
    intro r hr
    cases hr
    cases u with
    | nil =>
      simp only [List.nil_append]
      exact ih2 _ rfl
    | cons a u =>
      exact Or.inr ⟨a :: u, v, by simp, rfl, h1, h2⟩

theorem lang_star_ne {r : Regexp τ} {w : List τ} :
    Lang (star r) w ↔ w = [] ∨ ∃ u v, u ≠ [] ∧ w = u ++ v ∧ Lang r u ∧ Lang (star r) v := by
  constructor
  · intro h; exact lang_star_ne_of h r rfl
  · rintro (rfl | ⟨u, v, _, rfl, h1, h2⟩)
    · exact Lang.starNil
    · exact Lang.starApp h1 h2

theorem lang_star_nil {r : Regexp τ} : Lang (star r) [] := Lang.starNil

/-- the star is closed under concatenation -/
theorem lang_star_append {r : Regexp τ} {u v : List τ} (hu : Lang (star r) u) (hv : Lang (star r) v) :
    Lang (star r) (u ++ v) := by
  generalize he : star r = e at hu
  induction hu with
  | one => cases he
  | sym a => cases he
  | sumL _ _ => cases he
  | sumR _ _ => cases he
  | cat _ _ _ _ => cases he
  | starNil => cases he; simpa using hv
  | starApp h1 _ _ ih2 =>
    cases he
    rw [List.append_assoc]
    exact Lang.starApp h1 (ih2 rfl)

/-- the star is monotone in its operand -/
theorem lang_star_mono {r r' : Regexp τ} (hrr : ∀ w, Lang r w → Lang r' w) {w : List τ}
    (h : Lang (star r) w) : Lang (star r') w := by
  generalize he : star r = e at h
  induction h with
  | one => cases he
  | sym a => cases he
  | sumL _ _ => cases he
  | sumR _ _ => cases he
  | cat _ _ _ _ => cases he
  | starNil => exact Lang.starNil
  | starApp h1 _ _ ih2 =>
    cases he
    exact Lang.starApp (hrr _ h1) (ih2 rfl)

theorem lang_star_congr {r r' : Regexp τ} (hrr : ∀ w, Lang r w ↔ Lang r' w) {w : List τ} :
    Lang (star r) w ↔ Lang (star r') w :=
  ⟨lang_star_mono fun w => (hrr w).1, lang_star_mono fun w => (hrr w).2⟩

theorem lang_sum_congr {r r' s s' : Regexp τ} (hr : ∀ w, Lang r w ↔ Lang r' w)
    (hs : ∀ w, Lang s w ↔ Lang s' w) {w : List τ} : Lang (sum r s) w ↔ Lang (sum r' s') w := by
  rw [lang_sum, lang_sum, hr, hs]

theorem lang_cat_congr {r r' s s' : Regexp τ} (hr : ∀ w, Lang r w ↔ Lang r' w)
    (hs : ∀ w, Lang s w ↔ Lang s' w) {w : List τ} : Lang (cat r s) w ↔ Lang (cat r' s') w := by
  rw [lang_cat, lang_cat]
  constructor
  · rintro ⟨u, v, h, h1, h2⟩; exact ⟨u, v, h, (hr u).1 h1, (hs v).1 h2⟩
  · rintro ⟨u, v, h, h1, h2⟩; exact ⟨u, v, h, (hr u).2 h1, (hs v).2 h2⟩

theorem lang_of_star {r : Regexp τ} {w : List τ} (h : Lang r w) : Lang (star r) w := by
  have := Lang.starApp h (Lang.starNil (r := r))
  simpa using this

theorem lang_star_star {r : Regexp τ} {w : List τ} : Lang (star (star r)) w ↔ Lang (star r) w := by
  constructor
  · intro h
    generalize he : star (star r) = e at h
    induction h with
    | one => cases he
    | sym a => cases he
    | sumL _ _ => cases he
    | sumR _ _ => cases he
    | cat _ _ _ _ => cases he
    | starNil => exact Lang.starNil
    | starApp h1 _ _ ih2 =>
      cases he
      exact lang_star_append h1 (ih2 rfl)
  · exact lang_of_star

theorem lang_star_zero {w : List τ} : Lang (star (zero : Regexp τ)) w ↔ w = [] := by
  rw [lang_star]
  constructor
  · rintro (h | ⟨u, v, _, h1, _⟩)
    · exact h
    · exact absurd h1 (by simp)
  · exact Or.inl

theorem lang_star_one {w : List τ} : Lang (star (one : Regexp τ)) w ↔ w = [] := by
  constructor
  · intro h
    rcases lang_star_ne.1 h with h | ⟨u, v, hne, _, h1, _⟩
    · exact h
    · exact absurd (lang_one.1 h1) hne
  · rintro rfl; exact Lang.starNil

theorem lang_sum_zero_left {s : Regexp τ} {w : List τ} : Lang (sum zero s) w ↔ Lang s w := by
  simp [lang_sum]

theorem lang_sum_zero_right {r : Regexp τ} {w : List τ} : Lang (sum r zero) w ↔ Lang r w := by
  simp [lang_sum]

theorem lang_cat_zero_left {s : Regexp τ} {w : List τ} : Lang (cat zero s) w ↔ False := by
  simp [lang_cat]

theorem lang_cat_zero_right {r : Regexp τ} {w : List τ} : Lang (cat r zero) w ↔ False := by
  simp [lang_cat]

theorem lang_cat_one_left {s : Regexp τ} {w : List τ} : Lang (cat one s) w ↔ Lang s w := by
  rw [lang_cat]
  constructor
  · rintro ⟨u, v, rfl, h1, h2⟩
    rw [lang_one.1 h1]; simpa using h2
  · intro h; exact ⟨[], w, by simp, Lang.one, h⟩

theorem lang_cat_one_right {r : Regexp τ} {w : List τ} : Lang (cat r one) w ↔ Lang r w := by
  rw [lang_cat]
  constructor
  · rintro ⟨u, v, rfl, h1, h2⟩
    rw [lang_one.1 h2]; simpa using h1
  · intro h; exact ⟨w, [], by simp, h, Lang.one⟩

end Inversion

/-! ### `splits` -/
section Splits
variable {τ : Type}

theorem mem_splits {w : List τ} {p : List τ × List τ} : p ∈ splits w ↔ p.1 ++ p.2 = w := by
  induction w generalizing p with
  | nil =>
    obtain ⟨u, v⟩ := p
    simp [splits]
  | cons a w ih =>
    obtain ⟨u, v⟩ := p
    simp only [splits, List.mem_cons, List.mem_map, Prod.mk.injEq]
    constructor
    · rintro (⟨rfl, rfl⟩ | ⟨q, hq, rfl, rfl⟩)
      · rfl
      · simp [ih.1 hq]
    · intro h
      cases u with
      | nil => left; exact ⟨rfl, by simpa using h⟩
      | cons b u =>
        right
        simp only [List.cons_append, List.cons.injEq] at h
        obtain ⟨rfl, h⟩ := h
        exact ⟨(u, v), ih.2 h, rfl, rfl⟩

end Splits

section Simplify
variable {τ : Type}

/-! ### the simplifier -/

theorem simplify_lang (r : Regexp τ) : ∀ w, Lang r.simplify w ↔ Lang r w := by
  induction r with
  | zero => intro w; rfl
  | one => intro w; rfl
  | sym a => intro w; rfl
  | star r ih =>
    intro w
    rw [← lang_star_congr ih]
    simp only [simplify]
    generalize simplify r = x
    cases x <;> simp only [lang_star_zero, lang_star_one, lang_one, lang_star_star]
  | sum r s ihr ihs =>
    intro w
    rw [← lang_sum_congr ihr ihs]
    simp only [simplify]
    generalize simplify r = x
    generalize simplify s = y
    cases x <;> cases y <;> simp only [lang_sum_zero_left, lang_sum_zero_right]
  | cat r s ihr ihs =>
    intro w
    rw [← lang_cat_congr ihr ihs]
    simp only [simplify]
    generalize simplify r = x
    generalize simplify s = y
    cases x <;> cases y <;>
      simp only [lang_cat_zero_left, lang_cat_zero_right, lang_cat_one_left, lang_cat_one_right,
        lang_zero]

theorem simplify_size (r : Regexp τ) : r.simplify.size ≤ r.size := by
  induction r with
  | zero => exact Nat.le_refl _
  | one => exact Nat.le_refl _
  | sym a => exact Nat.le_refl _
  | star r ih =>
    simp only [simplify]
    generalize simplify r = x at ih
    cases x <;> simp only [size] at ih ⊢ <;> omega
  | sum r s ihr ihs =>
    simp only [simplify]
    generalize simplify r = x at ihr
    generalize simplify s = y at ihs
    cases x <;> cases y <;> simp only [size] at ihr ihs ⊢ <;> omega
  | cat r s ihr ihs =>
    simp only [simplify]
    generalize simplify r = x at ihr
    generalize simplify s = y at ihs
    cases x <;> cases y <;> simp only [size] at ihr ihs ⊢ <;> omega

theorem simplify_nodes (r : Regexp τ) : r.simplify.nodes ≤ r.nodes := by
  induction r with
  | zero => exact Nat.le_refl _
  | one => exact Nat.le_refl _
  | sym a => exact Nat.le_refl _
  | star r ih =>
    simp only [simplify]
    generalize simplify r = x at ih
    cases x <;> simp only [nodes] at ih ⊢ <;> omega
  | sum r s ihr ihs =>
    simp only [simplify]
    generalize simplify r = x at ihr
    generalize simplify s = y at ihs
    cases x <;> cases y <;> simp only [nodes] at ihr ihs ⊢ <;> omega
  | cat r s ihr ihs =>
    simp only [simplify]
    generalize simplify r = x at ihr
    generalize simplify s = y at ihs
    cases x <;> cases y <;> simp only [nodes] at ihr ihs ⊢ <;> omega

end Simplify

section Exec
variable {τ : Type} [DecidableEq τ]

/-! ### the matcher -/

theorem matchesAux_iff (r : Regexp τ) :
    ∀ (n : Nat) (w : List τ), w.length ≤ n → (matchesAux n r w = true ↔ Lang r w) := by
  induction r with
  | zero => intro n w _; simp [matchesAux]
  | one => intro n w _; simp [matchesAux, lang_one]
  | sym a => intro n w _; simp [matchesAux, lang_sym]
  | sum r s ihr ihs =>
    intro n w h
    simp only [matchesAux, Bool.or_eq_true, lang_sum, ihr n w h, ihs n w h]
  | cat r s ihr ihs =>
    intro n w h
    simp only [matchesAux, List.any_eq_true, Bool.and_eq_true, lang_cat, mem_splits]
    constructor
    · rintro ⟨p, hp, h1, h2⟩
      have hl : p.1.length + p.2.length = w.length := by rw [← hp]; simp
      exact ⟨p.1, p.2, hp.symm, (ihr n p.1 (by omega)).1 h1, (ihs n p.2 (by omega)).1 h2⟩
    · rintro ⟨u, v, rfl, h1, h2⟩
      simp only [List.length_append] at h
      exact ⟨(u, v), rfl, (ihr n u (by omega)).2 h1, (ihs n v (by omega)).2 h2⟩
  | star r ih =>
    intro n
    induction n with
    | zero =>
      intro w h
      have hw : w = [] := List.eq_nil_of_length_eq_zero (by omega)
      subst hw
      simp [matchesAux, Lang.starNil]
    | succ n ihn =>
      intro w h
      rw [matchesAux]
      simp only [Bool.or_eq_true, List.any_eq_true, Bool.and_eq_true, mem_splits,
        Bool.not_eq_true', List.isEmpty_eq_false_iff, List.isEmpty_iff]
      rw [lang_star_ne]
      constructor
      · rintro (h0 | ⟨p, hp, ⟨hne, h1⟩, h2⟩)
        · exact Or.inl h0
        · have hl : p.1.length + p.2.length = w.length := by rw [← hp]; simp
          have hpos : 0 < p.1.length := List.length_pos_iff.2 hne
          exact Or.inr ⟨p.1, p.2, hne, hp.symm, (ih (n + 1) p.1 (by omega)).1 h1,
            (ihn p.2 (by omega)).1 h2⟩
      · rintro (h0 | ⟨u, v, hne, rfl, h1, h2⟩)
        · exact Or.inl h0
        · simp only [List.length_append] at h
          have hpos : 0 < u.length := List.length_pos_iff.2 hne
          exact Or.inr ⟨(u, v), rfl, ⟨hne, (ih (n + 1) u (by omega)).2 h1⟩,
            (ihn v (by omega)).2 h2⟩

/-! ### the bounded enumerator -/

@[simp] theorem mem_concatLang {L1 L2 : List (List τ)} {w : List τ} :
    w ∈ concatLang L1 L2 ↔ ∃ x, x ∈ L1 ∧ ∃ y, y ∈ L2 ∧ x ++ y = w := by
  simp [concatLang]

theorem mem_starWords {r : Regexp τ} {f : Nat → List (List τ)}
    (hf : ∀ k w, w ∈ f k ↔ w.length ≤ k ∧ Lang r w) :
    ∀ (n : Nat) (w : List τ), w ∈ starWords f n ↔ w.length ≤ n ∧ Lang (star r) w := by
  intro n
  induction n using Nat.strongRecOn with
  | _ n ih =>
    intro w
    cases n with
    | zero =>
      rw [starWords]
      simp only [List.mem_singleton, Nat.le_zero_eq, List.length_eq_zero_iff]
      constructor
      · rintro rfl; exact ⟨rfl, Lang.starNil⟩
      · exact fun h => h.1
    | succ n =>
      rw [starWords]
      simp only [mem_sunion, List.mem_singleton, mem_sunions, List.mem_map, List.mem_range]
      constructor
      · rintro (rfl | ⟨l, ⟨j, hj, rfl⟩, hw⟩)
        · exact ⟨by simp, Lang.starNil⟩
        · obtain ⟨x, hx, y, hy, rfl⟩ := mem_concatLang.1 hw
          obtain ⟨hxl, hxr⟩ := (hf _ _).1 hx
          obtain ⟨hyl, hyr⟩ := (ih (n - j) (by omega) y).1 hy
          refine ⟨?_, Lang.starApp hxr hyr⟩
          simp only [List.length_append]; omega
      · rintro ⟨hl, hw⟩
        rcases lang_star_ne.1 hw with h0 | ⟨u, v, hne, rfl, h1, h2⟩
        · exact Or.inl h0
        · right
          simp only [List.length_append] at hl
          have hpos : 0 < u.length := List.length_pos_iff.2 hne
          refine ⟨_, ⟨u.length - 1, by omega, rfl⟩, ?_⟩
          refine mem_concatLang.2 ⟨u, (hf _ _).2 ⟨by omega, h1⟩, v, ?_, rfl⟩
          exact (ih (n - (u.length - 1)) (by omega) v).2 ⟨by omega, h2⟩

theorem mem_wordsUpTo (r : Regexp τ) :
    ∀ (n : Nat) (w : List τ), w ∈ wordsUpTo r n ↔ w.length ≤ n ∧ Lang r w := by
  induction r with
  | zero => intro n w; simp [wordsUpTo]
  | one =>
    intro n w
    simp only [wordsUpTo, List.mem_singleton, lang_one]
    constructor
    · rintro rfl; exact ⟨by simp, rfl⟩
    · exact fun h => h.2
  | sym a =>
    intro n w
    simp only [wordsUpTo, lang_sym]
    split
    · rename_i h
      simp only [List.mem_singleton]
      constructor
      · rintro rfl; exact ⟨by simp only [List.length_singleton]; omega, rfl⟩
      · exact fun h => h.2
    · rename_i h
      simp only [List.not_mem_nil, false_iff, not_and]
      rintro hl rfl
      simp at hl; omega
  | sum r s ihr ihs =>
    intro n w
    simp only [wordsUpTo, mem_sunion, ihr, ihs, lang_sum]
    constructor
    · rintro (⟨h1, h2⟩ | ⟨h1, h2⟩)
      · exact ⟨h1, Or.inl h2⟩
      · exact ⟨h1, Or.inr h2⟩
    · rintro ⟨h1, h2 | h2⟩
      · exact Or.inl ⟨h1, h2⟩
      · exact Or.inr ⟨h1, h2⟩
  | cat r s ihr ihs =>
    intro n w
    simp only [wordsUpTo, mem_sunions, List.mem_map, List.mem_range, lang_cat]
    constructor
    · rintro ⟨l, ⟨k, hk, rfl⟩, hw⟩
      obtain ⟨x, hx, y, hy, rfl⟩ := mem_concatLang.1 hw
      obtain ⟨hxl, hxr⟩ := (ihr _ _).1 hx
      obtain ⟨hyl, hyr⟩ := (ihs _ _).1 hy
      refine ⟨?_, x, y, rfl, hxr, hyr⟩
      simp only [List.length_append]; omega
    · rintro ⟨hl, u, v, rfl, h1, h2⟩
      simp only [List.length_append] at hl
      refine ⟨_, ⟨u.length, by omega, rfl⟩, ?_⟩
      exact mem_concatLang.2 ⟨u, (ihr _ _).2 ⟨Nat.le_refl _, h1⟩, v, (ihs _ _).2 ⟨by omega, h2⟩, rfl⟩
  | star r ih =>
    intro n w
    simp only [wordsUpTo]
    exact mem_starWords ih n w

end Exec
end Regexp
end Gamba
